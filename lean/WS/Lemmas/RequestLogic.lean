import WS.Model.Client
import WS.Model.Server
import WS.Lemmas.HttpLogic
/-
  C14 (request assembly) and C12 (exact 101 lines).

-/
namespace WS.RequestLogic
open WS WS.Http WS.Client WS.Server

def lookup (h : Client.Hdr) (k : Bytes) : Option (List Bytes) := (h.find? (·.1 == k)).map (·.2)

/-- a caller header map whose keys are pairwise different even after canonicalisation and none of
    which is protocol-owned -/
def CallerOK (d : DCfg) (caller : Client.Hdr) : Prop :=
  (∀ p ∈ caller, canonicalKey p.1 = strBytes "Host" ∨ forbidden d (canonicalKey p.1) = false)


/-! ### helper lemmas -/

theorem lookup_map_ne (h : Client.Hdr) (k k' : Bytes) (vs : List Bytes) (hne : k ≠ k') :
    lookup (h.map (fun p => if p.1 == k then (k, vs) else p)) k' = lookup h k' := by
  induction h with
  | nil => rfl
  | cons p t ih =>
    unfold lookup at ih ⊢
    simp only [List.map_cons, List.find?_cons]
    by_cases hp : p.1 = k
    · have hkk : (k == k') = false := by simpa using hne
      simp only [hp, beq_self_eq_true, if_true, hkk]
      exact ih
    · have hpk : (p.1 == k) = false := by simpa using hp
      simp only [hpk, Bool.false_eq_true, if_false]
      cases hq : (p.1 == k')
      · simp only; exact ih
      · simp

theorem lookup_set_ne (h : Client.Hdr) (k k' : Bytes) (vs : List Bytes) (hne : k ≠ k') :
    lookup (h.set k vs) k' = lookup h k' := by
  unfold Client.Hdr.set
  split
  · exact lookup_map_ne h k k' vs hne
  · have hkk : (k == k') = false := by simpa using hne
    unfold lookup
    simp [List.find?_append, hkk]

theorem lookup_map_same (h : Client.Hdr) (k : Bytes) (vs : List Bytes) (hany : h.any (·.1 == k) = true) :
    lookup (h.map (fun p => if p.1 == k then (k, vs) else p)) k = some vs := by
  induction h with
  | nil => simp at hany
  | cons p t ih =>
    unfold lookup at ih ⊢
    simp only [List.map_cons, List.find?_cons]
    by_cases hp : p.1 = k
    · simp [hp]
    · have hpk : (p.1 == k) = false := by simpa using hp
      simp only [hpk, Bool.false_eq_true, if_false]
      apply ih
      simpa [hpk] using hany

theorem lookup_set_same (h : Client.Hdr) (k : Bytes) (vs : List Bytes) :
    lookup (h.set k vs) k = some vs := by
  unfold Client.Hdr.set
  split
  · rename_i hany
    exact lookup_map_same h k vs hany
  · rename_i hany
    have hn : h.find? (fun p => p.1 == k) = none := by
      rw [List.find?_eq_none]
      intro x hx hxk
      apply hany
      rw [List.any_eq_true]
      exact ⟨x, hx, hxk⟩
    unfold lookup
    simp [List.find?_append, hn]

/-- the caller-merge step of `buildRequest` -/
def mergeStep (h : Client.Hdr) (p : Bytes × List Bytes) : Client.Hdr :=
  if canonicalKey p.1 == strBytes "Host" then h
  else if canonicalKey p.1 == strBytes "Sec-Websocket-Protocol" then h.set (strBytes "Sec-WebSocket-Protocol") p.2
  else h.set p.1 p.2

theorem lookup_merge (caller : Client.Hdr) (k' : Bytes) (hk1 : strBytes "Sec-WebSocket-Protocol" ≠ k')
    (hk2 : ∀ p ∈ caller, p.1 ≠ k') (h1 : Client.Hdr) :
    lookup (caller.foldl mergeStep h1) k' = lookup h1 k' := by
  induction caller generalizing h1 with
  | nil => rfl
  | cons p t ih =>
    rw [List.foldl_cons, ih (fun q hq => hk2 q (by simp [hq]))]
    unfold mergeStep
    split
    · rfl
    · split
      · exact lookup_set_ne _ _ _ _ hk1
      · exact lookup_set_ne _ _ _ _ (hk2 p (by simp))

/-- the header map before the compression offer is added -/
def baseHdr (d : DCfg) (key : Bytes) : Client.Hdr :=
  let h0 : Client.Hdr := [(strBytes "Upgrade", [strBytes "websocket"]), (strBytes "Connection", [strBytes "Upgrade"]),
                   (strBytes "Sec-WebSocket-Key", [key]), (strBytes "Sec-WebSocket-Version", [strBytes "13"])]
  if d.subprotocols.isEmpty then h0 else h0.set (strBytes "Sec-WebSocket-Protocol") [joinCommaSp d.subprotocols]

def finalHdr (d : DCfg) (key : Bytes) (caller : Client.Hdr) : Client.Hdr :=
  let h2 := caller.foldl mergeStep (baseHdr d key)
  if d.enableCompression then
    h2.set (strBytes "Sec-WebSocket-Extensions") [strBytes "permessage-deflate; server_no_context_takeover; client_no_context_takeover"]
  else h2

def hostOf (u : Url) (caller : Client.Hdr) : Bytes :=
  match caller.find? (fun p => canonicalKey p.1 == strBytes "Host" && !p.2.isEmpty) with
  | some (_, v :: _) => v
  | _ => u.host

theorem buildRequest_ok (d : DCfg) (u : Url) (key : Bytes) (caller : Client.Hdr) (host : Bytes) (h : Client.Hdr)
    (hok : buildRequest d u key caller = .ok (host, h)) :
    host = hostOf u caller ∧ h = finalHdr d key caller := by
  revert hok
  unfold buildRequest
  split
  · intro hok; cases hok
  split
  · intro hok; cases hok
  simp only
  split
  · intro hok; cases hok
  intro hok
  injection hok with hok
  injection hok with h1 h2
  exact ⟨h1.symm, h2.symm⟩

theorem lookup_base (d : DCfg) (key : Bytes) (k' : Bytes) (hk1 : strBytes "Sec-WebSocket-Protocol" ≠ k') :
    lookup (baseHdr d key) k' =
      lookup [(strBytes "Upgrade", [strBytes "websocket"]), (strBytes "Connection", [strBytes "Upgrade"]),
              (strBytes "Sec-WebSocket-Key", [key]), (strBytes "Sec-WebSocket-Version", [strBytes "13"])] k' := by
  unfold baseHdr
  simp only
  split
  · rfl
  · exact lookup_set_ne _ _ _ _ hk1

theorem lookup_h0 (v1 v2 v3 v4 : List Bytes) :
    let h0 : Client.Hdr := [(strBytes "Upgrade", v1), (strBytes "Connection", v2),
              (strBytes "Sec-WebSocket-Key", v3), (strBytes "Sec-WebSocket-Version", v4)]
    lookup h0 (strBytes "Upgrade") = some v1 ∧ lookup h0 (strBytes "Connection") = some v2 ∧
    lookup h0 (strBytes "Sec-WebSocket-Key") = some v3 ∧ lookup h0 (strBytes "Sec-WebSocket-Version") = some v4 ∧
    lookup h0 (strBytes "Sec-WebSocket-Extensions") = none := by
  have e1 : (strBytes "Upgrade" == strBytes "Connection") = false := by decide +kernel
  have e2 : (strBytes "Upgrade" == strBytes "Sec-WebSocket-Key") = false := by decide +kernel
  have e3 : (strBytes "Upgrade" == strBytes "Sec-WebSocket-Version") = false := by decide +kernel
  have e4 : (strBytes "Upgrade" == strBytes "Sec-WebSocket-Extensions") = false := by decide +kernel
  have e5 : (strBytes "Connection" == strBytes "Sec-WebSocket-Key") = false := by decide +kernel
  have e6 : (strBytes "Connection" == strBytes "Sec-WebSocket-Version") = false := by decide +kernel
  have e7 : (strBytes "Connection" == strBytes "Sec-WebSocket-Extensions") = false := by decide +kernel
  have e8 : (strBytes "Sec-WebSocket-Key" == strBytes "Sec-WebSocket-Version") = false := by decide +kernel
  have e9 : (strBytes "Sec-WebSocket-Key" == strBytes "Sec-WebSocket-Extensions") = false := by decide +kernel
  have e10 : (strBytes "Sec-WebSocket-Version" == strBytes "Sec-WebSocket-Extensions") = false := by decide +kernel
  intro h0
  simp only [h0, lookup, List.find?_cons, List.find?_nil, BEq.rfl, e1, e2, e3, e4, e5, e6, e7, e8, e9, e10, Option.map]
  simp

/-- request_headers: whenever the request is assembled, the protocol-owned headers carry the
    protocol's values: Upgrade: websocket, Connection: Upgrade, the key of this dial, version 13 —
    whatever the caller supplied -/
theorem protocol_headers_present (d : DCfg) (u : Url) (key : Bytes) (caller : Client.Hdr) (host : Bytes) (h : Client.Hdr)
    (hok : buildRequest d u key caller = .ok (host, h))
    (hcan : ∀ p ∈ caller, p.1 ≠ strBytes "Upgrade" ∧ p.1 ≠ strBytes "Connection" ∧ p.1 ≠ strBytes "Sec-WebSocket-Key" ∧
        p.1 ≠ strBytes "Sec-WebSocket-Version" ∧ p.1 ≠ strBytes "Sec-WebSocket-Extensions") :
    lookup h (strBytes "Upgrade") = some [strBytes "websocket"] ∧
    lookup h (strBytes "Connection") = some [strBytes "Upgrade"] ∧
    lookup h (strBytes "Sec-WebSocket-Key") = some [key] ∧
    lookup h (strBytes "Sec-WebSocket-Version") = some [strBytes "13"] := by
  obtain ⟨_, rfl⟩ := buildRequest_ok d u key caller host h hok
  have hfin : ∀ k', strBytes "Sec-WebSocket-Protocol" ≠ k' → strBytes "Sec-WebSocket-Extensions" ≠ k' →
      (∀ p ∈ caller, p.1 ≠ k') →
      lookup (finalHdr d key caller) k' =
        lookup [(strBytes "Upgrade", [strBytes "websocket"]), (strBytes "Connection", [strBytes "Upgrade"]),
              (strBytes "Sec-WebSocket-Key", [key]), (strBytes "Sec-WebSocket-Version", [strBytes "13"])] k' := by
    intro k' h1 h2 h3
    unfold finalHdr
    simp only
    split
    · rw [lookup_set_ne _ _ _ _ h2, lookup_merge caller k' h1 h3, lookup_base d key k' h1]
    · rw [lookup_merge caller k' h1 h3, lookup_base d key k' h1]
  refine ⟨?_, ?_, ?_, ?_⟩
  · rw [hfin _ (by decide +kernel) (by decide +kernel) (fun p hp => (hcan p hp).1)]
    exact (lookup_h0 _ _ _ _).1
  · rw [hfin _ (by decide +kernel) (by decide +kernel) (fun p hp => (hcan p hp).2.1)]
    exact (lookup_h0 _ _ _ _).2.1
  · rw [hfin _ (by decide +kernel) (by decide +kernel) (fun p hp => (hcan p hp).2.2.1)]
    exact (lookup_h0 _ _ _ _).2.2.1
  · rw [hfin _ (by decide +kernel) (by decide +kernel) (fun p hp => (hcan p hp).2.2.2.1)]
    exact (lookup_h0 _ _ _ _).2.2.2.1

/-- the extension offer is present exactly when compression is enabled (given the caller did not use
    the RFC spelling of the header name as a key, which the duplicate check refuses anyway) -/
theorem offer_iff_enabled (d : DCfg) (u : Url) (key : Bytes) (caller : Client.Hdr) (host : Bytes) (h : Client.Hdr)
    (hok : buildRequest d u key caller = .ok (host, h))
    (hcan : ∀ p ∈ caller, p.1 ≠ strBytes "Sec-WebSocket-Extensions") :
    (lookup h (strBytes "Sec-WebSocket-Extensions")).isSome = d.enableCompression := by
  obtain ⟨_, rfl⟩ := buildRequest_ok d u key caller host h hok
  unfold finalHdr
  simp only
  split
  · rename_i hc
    rw [lookup_set_same, hc]
    rfl
  · rename_i hc
    rw [lookup_merge caller _ (by decide +kernel) hcan, lookup_base d key _ (by decide +kernel)]
    have hc' : d.enableCompression = false := by simpa using hc
    rw [hc', (lookup_h0 _ _ _ _).2.2.2.2]
    rfl

/-- Host: the caller's override if present (first value), else the URL's host -/
theorem host_from_url_or_override (d : DCfg) (u : Url) (key : Bytes) (caller : Client.Hdr) (host : Bytes) (h : Client.Hdr)
    (hok : buildRequest d u key caller = .ok (host, h))
    (hno : ∀ p ∈ caller, canonicalKey p.1 ≠ strBytes "Host") : host = u.host := by
  obtain ⟨rfl, _⟩ := buildRequest_ok d u key caller host h hok
  unfold hostOf
  have hn : caller.find? (fun p => canonicalKey p.1 == strBytes "Host" && !p.2.isEmpty) = none := by
    rw [List.find?_eq_none]
    intro x hx hxk
    simp only [Bool.and_eq_true, beq_iff_eq] at hxk
    exact hno x hx hxk.1
  rw [hn]

/-- any key a caller could use to smuggle in a protocol-owned header is refused: canonicalisation
    maps every capitalisation of the six names to the canonical spelling (regression sentinel F9) -/
theorem canonical_catches_rfc_spelling :
    canonicalKey (strBytes "Sec-WebSocket-Version") = strBytes "Sec-Websocket-Version" ∧
    canonicalKey (strBytes "UPGRADE") = strBytes "Upgrade" ∧
    canonicalKey (strBytes "sec-websocket-key") = strBytes "Sec-Websocket-Key" ∧
    canonicalKey (strBytes "connection") = strBytes "Connection" ∧
    canonicalKey (strBytes "SEC-WEBSOCKET-EXTENSIONS") = strBytes "Sec-Websocket-Extensions" := by
  decide +kernel

/-- C12: the 101 response consists of exactly these lines when the application supplies no
    response header: status line, Upgrade, Connection, Accept, optional subprotocol (scrubbed),
    optional extension announcement, and the empty line(s) that end the block -/
theorem response101_lines (accept sub : Bytes) (compress : Bool)
    (ha : ∀ b ∈ accept, b ≠ 13) :
    splitCRLF (response101 accept sub compress none) [] =
      [strBytes "HTTP/1.1 101 Switching Protocols", strBytes "Upgrade: websocket", strBytes "Connection: Upgrade",
       strBytes "Sec-WebSocket-Accept: " ++ accept] ++
      (if sub.isEmpty then [] else [strBytes "Sec-WebSocket-Protocol: " ++ scrub sub]) ++
      (if compress then [strBytes "Sec-WebSocket-Extensions: permessage-deflate; server_no_context_takeover; client_no_context_takeover"] else []) ++
      [[], []] := by
  unfold response101
  rw [HttpLogic.head_lit]
  simp only [List.append_assoc]
  have step : ∀ line rest : Bytes, (∀ b ∈ line, b ≠ 13) →
      splitCRLF (line ++ (crlf ++ rest)) [] = line :: splitCRLF rest [] := by
    intro line rest hl
    rw [← List.append_assoc, HttpLogic.splitCRLF_line line rest hl]
  rw [step _ _ (by decide +kernel), step _ _ (by decide +kernel), step _ _ (by decide +kernel)]
  have hacc : ∀ b ∈ strBytes "Sec-WebSocket-Accept: " ++ accept, b ≠ 13 := by
    intro b hb
    simp only [List.mem_append] at hb
    rcases hb with hb | hb
    · revert b; decide +kernel
    · exact ha b hb
  rw [← List.append_assoc _ accept, step _ _ hacc]
  have htail : splitCRLF crlf [] = [[], []] := by decide
  have hc : ∀ rest, splitCRLF ((if compress then strBytes "Sec-WebSocket-Extensions: permessage-deflate; server_no_context_takeover; client_no_context_takeover\r\n" else []) ++ rest) []
      = (if compress then [strBytes "Sec-WebSocket-Extensions: permessage-deflate; server_no_context_takeover; client_no_context_takeover"] else []) ++ splitCRLF rest [] := by
    intro rest
    cases compress with
    | false => simp
    | true =>
      simp only [if_true, HttpLogic.ext_lit, List.append_assoc]
      rw [step _ _ (by decide +kernel)]
      rfl
  have hs : ∀ rest, splitCRLF ((if sub.isEmpty then [] else strBytes "Sec-WebSocket-Protocol: " ++ (scrub sub ++ crlf)) ++ rest) []
      = (if sub.isEmpty then [] else [strBytes "Sec-WebSocket-Protocol: " ++ scrub sub]) ++ splitCRLF rest [] := by
    intro rest
    split
    · simp
    · simp only [List.append_assoc]
      rw [← List.append_assoc _ (scrub sub), step]
      · rfl
      · intro b hb
        simp only [List.mem_append] at hb
        rcases hb with hb | hb
        · revert b; decide +kernel
        · exact HttpLogic.scrub_ne_cr sub b hb
  rw [hs, hc]
  simp only [List.nil_append, htail]
  simp

end WS.RequestLogic
