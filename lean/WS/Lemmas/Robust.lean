import WS.Model.Reader
import WS.Model.Http
import WS.Lemmas.SrcLaw
import WS.Lemmas.RobustReader
import WS.Lemmas.RobustHttp
/-
  C07 / C12: robustness facts about code fed by untrusted input.

-/
namespace WS.Robust
open WS WS.Http WS.RobustAux

/-- the only panic of the read path is the documented one: NextReader panics exactly when it is
    called on a connection that has already failed, for the 1000th time -/
theorem nextReader_panic_iff (c : Conn) :
    (∃ c', nextReader c = (.panic, c')) ↔ (c.r.readErr.isSome ∧ 1000 ≤ c.r.errCount + 1) ∨
      (c.r.readErr = none ∧ 1000 ≤ c.r.errCount + 1 ∧ ∃ e c', nextReaderLoop c.fuel { c with r := { c.r with msgReader := none, length := 0 } } = (.err e, c')) := by
  rw [nextReader_eq]
  show _ ↔ _ ∨ (_ ∧ _ ∧ ∃ e c', nextReaderLoop c.fuel (c0 c) = (.err e, c'))
  cases hre : c.r.readErr with
  | some e0 =>
    rw [nrRes_some c e0 hre, nrFinish_panic]
    have h0 : (c0 c).r.errCount = c.r.errCount := rfl
    rw [h0]
    constructor
    · rintro ⟨_, h⟩; exact Or.inl ⟨rfl, h⟩
    · rintro (⟨_, h⟩ | ⟨h, _⟩)
      · exact ⟨⟨.any, Or.inl rfl⟩, h⟩
      · cases h
  | none =>
    rw [nrRes_none c hre]
    have hs := nextReaderLoop_spec c.fuel (c0 c)
    have h0 : (c0 c).r.errCount = c.r.errCount := rfl
    rw [h0] at hs
    generalize nextReaderLoop c.fuel (c0 c) = x at hs ⊢
    obtain ⟨res, c1⟩ := x
    rw [nrFinish_panic]
    simp only [] at hs
    rw [hs.1]
    constructor
    · rintro ⟨⟨e, h | h⟩, hn⟩
      · exact Or.inr ⟨rfl, hn, e, c1, by rw [h]⟩
      · exact absurd (by rw [h]) (hs.2 c1)
    · rintro (⟨h, _⟩ | ⟨_, hn, e, c', h⟩)
      · cases h
      · exact ⟨⟨e, Or.inl (congrArg Prod.fst h)⟩, hn⟩

/-- a healthy connection never panics in NextReader before 999 failed calls -/
theorem nextReader_no_panic (c : Conn) (h : c.r.errCount + 1 < 1000) : ∀ c', nextReader c ≠ (.panic, c') := by
  intro c' hp
  rcases (nextReader_panic_iff c).mp ⟨c', hp⟩ with ⟨_, h1⟩ | ⟨_, h1, _⟩ <;> omega

/-- allocation: the unescaped value of a quoted string is never longer than the input (the Go code
    allocates len(s)-1 bytes for it) -/
theorem quoted_length (s : Bytes) (esc : Bool) (acc : Bytes) :
    (quotedAux s esc acc).1.length ≤ acc.length + s.length := by
  induction s generalizing esc acc with
  | nil => unfold quotedAux; simp
  | cons b r ih =>
    cases esc with
    | true =>
      unfold quotedAux
      have := ih false (b :: acc)
      simp only [List.length_cons] at this ⊢
      omega
    | false =>
      unfold quotedAux
      split
      · have := ih true acc
        simp only [List.length_cons] at this ⊢
        omega
      · split
        · simp only [List.length_reverse, List.length_cons]; omega
        · have := ih false (b :: acc)
          simp only [List.length_cons] at this ⊢
          omega

theorem nextTokenOrQuoted_length (s : Bytes) :
    (nextTokenOrQuoted s).1.length ≤ s.length ∧ (nextTokenOrQuoted s).2.length ≤ s.length := by
  unfold nextTokenOrQuoted
  split
  · rename_i r
    have h1 := quoted_length r false []
    have h2 := quoted_rest_length r false []
    simp only [List.length_cons, List.length_nil] at h1 ⊢
    omega
  · unfold nextToken
    exact ⟨takeWhile_length_le _ _, dropWhile_length_le _ _⟩

/-- the token scanner splits its input: token ++ rest = input, and the token consists of token octets -/
theorem nextToken_split (s : Bytes) :
    (nextToken s).1 ++ (nextToken s).2 = s ∧ ∀ b ∈ (nextToken s).1, isTokenOctet b = true :=
  nextToken_split' s

/-- skipSpace returns a suffix of its input -/
theorem skipSpace_suffix (s : Bytes) : ∃ pre, pre ++ skipSpace s = s ∧ ∀ b ∈ pre, b = 32 ∨ b = 9 := by
  obtain ⟨pre, h1, h2⟩ := skipSpace_split s
  exact ⟨pre, h1, fun b hb => (sp_iff b).mp (h2 b hb)⟩

/-! ### C12 `contains_sound`: the list scanner never reports a token that is not an element -/

/-- the elements of a comma separated list, with optional white space (SP / HT) trimmed -/
def trimOWS (s : Bytes) : Bytes :=
  ((s.dropWhile (fun b => b == 32 || b == 9)).reverse.dropWhile (fun b => b == 32 || b == 9)).reverse

def elements (s : Bytes) : List Bytes := (splitComma s).map trimOWS

/-! helper lemmas about `trimOWS` / `elements` -/

theorem trimOWS_eq (s : Bytes) : trimOWS s = ((s.dropWhile sp).reverse.dropWhile sp).reverse := rfl

theorem trimOWS_sandwich (a t w : Bytes) (ha : ∀ b ∈ a, sp b = true) (hw : ∀ b ∈ w, sp b = true)
    (ht : t ≠ []) (htok : ∀ b ∈ t, isTokenOctet b = true) : trimOWS (a ++ (t ++ w)) = t := by
  rw [trimOWS_eq, List.dropWhile_append_of_pos ha, dropWhile_sp_tok t w ht htok, List.reverse_append,
    List.dropWhile_append_of_pos (fun b hb => hw b (List.mem_reverse.mp hb))]
  have hr : t.reverse ≠ [] := by simpa using ht
  have := dropWhile_sp_tok t.reverse [] hr (fun b hb => htok b (List.mem_reverse.mp hb))
  rw [List.append_nil] at this
  rw [this, List.reverse_reverse]

theorem trimOWS_decomp (p : Bytes) :
    ∃ a w, p = a ++ (trimOWS p ++ w) ∧ (∀ b ∈ a, sp b = true) ∧ (∀ b ∈ w, sp b = true) := by
  refine ⟨p.takeWhile sp, (((p.dropWhile sp).reverse).takeWhile sp).reverse, ?_, mem_takeWhile _ _, ?_⟩
  · rw [trimOWS_eq, ← List.reverse_append, List.takeWhile_append_dropWhile, List.reverse_reverse,
      List.takeWhile_append_dropWhile]
  · intro b hb
    exact mem_takeWhile _ _ b (List.mem_reverse.mp hb)

theorem elements_last (a t w : Bytes) (ha : ∀ b ∈ a, sp b = true) (hw : ∀ b ∈ w, sp b = true)
    (ht : t ≠ []) (htok : ∀ b ∈ t, isTokenOctet b = true) : elements (a ++ (t ++ w)) = [t] := by
  unfold elements
  rw [splitComma_nocomma _ (no_comma a t w ha hw htok), List.map_cons, List.map_nil,
    trimOWS_sandwich a t w ha hw ht htok]

theorem elements_more (a t w rest : Bytes) (ha : ∀ b ∈ a, sp b = true) (hw : ∀ b ∈ w, sp b = true)
    (ht : t ≠ []) (htok : ∀ b ∈ t, isTokenOctet b = true) :
    elements (a ++ (t ++ (w ++ 44 :: rest))) = t :: elements rest := by
  unfold elements
  have : a ++ (t ++ (w ++ 44 :: rest)) = (a ++ (t ++ w)) ++ 44 :: rest := by
    simp only [List.append_assoc]
  rw [this, splitComma_append _ _ (no_comma a t w ha hw htok), List.map_cons,
    trimOWS_sandwich a t w ha hw ht htok]

theorem sound_aux (v : Bytes) : ∀ (fuel : Nat) (s : Bytes), lineContainsAux fuel s v = true →
    ∃ e ∈ elements s, e ≠ [] ∧ (∀ b ∈ e, isTokenOctet b = true) ∧ equalASCIIFold e v = true := by
  intro fuel
  induction fuel with
  | zero => intro s h; unfold lineContainsAux at h; cases h
  | succ n ih =>
    intro s h
    rw [lca_succ] at h
    obtain ⟨a, ha1, ha2⟩ := skipSpace_split s
    obtain ⟨hn1, hn2⟩ := nextToken_split' (skipSpace s)
    generalize (nextToken (skipSpace s)).1 = t at h hn1 hn2
    generalize (nextToken (skipSpace s)).2 = s1 at h hn1
    obtain ⟨w, hw1, hw2⟩ := skipSpace_split s1
    generalize skipSpace s1 = s2 at h hw1
    generalize skipSpace s = s' at ha1 hn1
    subst hw1; subst hn1; subst ha1
    split at h
    · cases h
    · rename_i hte
      have ht : t ≠ [] := by
        intro h0; rw [h0] at hte; exact hte rfl
      split at h
      · rw [List.append_nil, elements_last a t w ha2 hw2 ht hn2]
        exact ⟨t, List.mem_singleton.mpr rfl, ht, hn2, h⟩
      · rename_i c rest
        split at h
        · cases h
        · rename_i hc
          have hc' : c = 44 := by simpa using hc
          subst hc'
          rw [elements_more a t w rest ha2 hw2 ht hn2]
          split at h
          · rename_i hf
            exact ⟨t, List.mem_cons_self .., ht, hn2, hf⟩
          · obtain ⟨e, he, h1, h2, h3⟩ := ih rest h
            exact ⟨e, List.mem_cons_of_mem _ he, h1, h2, h3⟩

theorem complete_aux (v : Bytes) : ∀ (fuel : Nat) (s : Bytes), s.length < fuel →
    (∀ e ∈ elements s, e ≠ [] ∧ ∀ b ∈ e, isTokenOctet b = true) →
    (∃ e ∈ elements s, equalASCIIFold e v = true) → lineContainsAux fuel s v = true := by
  intro fuel
  induction fuel with
  | zero => intro s h; omega
  | succ n ih =>
    intro s hlen hwf h
    obtain ⟨p, hp, hs⟩ := comma_split s
    obtain ⟨a, w, hdec, ha, hw⟩ := trimOWS_decomp p
    generalize ht : trimOWS p = t at hdec
    rcases hs with hs | ⟨rest, hs⟩
    · -- last element
      have hel : elements s = [t] := by
        unfold elements; rw [hs, splitComma_nocomma p hp, List.map_cons, List.map_nil, ht]
      rw [hel] at hwf h
      obtain ⟨htne, htok⟩ := hwf t (List.mem_singleton.mpr rfl)
      obtain ⟨e, he, hf⟩ := h
      rw [List.mem_singleton.mp he] at hf
      obtain ⟨q1, q2⟩ := scan_eq a t w [] ha hw htne htok (Or.inl rfl)
      rw [List.append_nil] at q1 q2
      rw [lca_succ, hs, hdec, q1]
      simp only [q2]
      rw [if_neg (by simpa using htne)]
      exact hf
    · have hel : elements s = t :: elements rest := by
        unfold elements; rw [hs, splitComma_append p rest hp, List.map_cons, ht]
      rw [hel] at hwf h
      obtain ⟨htne, htok⟩ := hwf t (List.mem_cons_self ..)
      obtain ⟨q1, q2⟩ := scan_eq a t w (44 :: rest) ha hw htne htok (Or.inr ⟨rest, rfl⟩)
      have hs' : s = a ++ (t ++ (w ++ 44 :: rest)) := by
        rw [hs, hdec]; simp only [List.append_assoc]
      rw [lca_succ, hs', q1]
      simp only [q2]
      rw [if_neg (by simpa using htne), if_neg (by decide)]
      by_cases hf : equalASCIIFold t v = true
      · rw [if_pos hf]
      · rw [if_neg hf]
        apply ih rest
        · have := congrArg List.length hs
          simp only [List.length_append, List.length_cons] at this
          omega
        · intro e he; exact hwf e (List.mem_cons_of_mem _ he)
        · obtain ⟨e, he, hfe⟩ := h
          rcases List.mem_cons.mp he with rfl | he
          · exact absurd hfe hf
          · exact ⟨e, he, hfe⟩

/-- soundness for arbitrary byte strings: if the scanner says the line contains `v`, then some
    comma-separated element of the line, trimmed, is a token that equals `v` under ASCII folding
    ("websockets" or "xupgrade" can never pass for "websocket" / "upgrade") -/
theorem contains_sound (s v : Bytes) (h : lineContains s v = true) :
    ∃ e ∈ elements s, e ≠ [] ∧ (∀ b ∈ e, isTokenOctet b = true) ∧ equalASCIIFold e v = true :=
  sound_aux v _ s h

/-- completeness on well-formed lists: if every element is a non-empty token, the scanner finds `v`
    exactly when some element equals it under ASCII folding -/
theorem contains_complete (s v : Bytes)
    (hwf : ∀ e ∈ elements s, e ≠ [] ∧ ∀ b ∈ e, isTokenOctet b = true)
    (h : ∃ e ∈ elements s, equalASCIIFold e v = true) :
    lineContains s v = true :=
  complete_aux v _ s (Nat.lt_succ_self _) hwf h

end WS.Robust
