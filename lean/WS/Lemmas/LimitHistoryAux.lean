import WS.Lemmas.Sequences
/-
  Helper lemmas for WS/Lemmas/LimitHistory.lean: the invariants of ReaderDecodes.lean
  (`nextReaderLoop_spec`, `nextReader_spec`, `Ab`, `partialReads_spec`) with a read limit in force.
  The running sum `readLength` restarts at every text / binary frame, so the abandoned message and
  the following one are checked against the limit separately.
-/
namespace WS.LimitHistoryAux
open WS WS.Codec WS.SrcLaw WS.ReaderDecodes WS.Sequences WS.AdvFrame

theorem lenBase_start (op : Nat) (c : Conn) (h : op = 1 ∨ op = 2) : lenBase op c = 0 := by
  unfold lenBase
  rcases h with h | h <;> subst h <;> rfl

/-- `adv_data` with the bound stated on the sum the frame really starts from -/
theorem adv_data' (c : Conn) (wire tail : Bytes) (f : PFrame) (env : Env c)
    (hrem : c.r.remaining = (wire.length : Int))
    (hp : c.r.buf.pending = wire ++ (f.enc c.r.isServer ++ tail))
    (hop : (f.op = 0 ∧ c.r.final = false) ∨ ((f.op = 1 ∨ f.op = 2) ∧ c.r.final = true))
    (hlen : f.payload.length < 2 ^ 62) (h0 : 0 ≤ c.r.length)
    (hl1 : lenBase f.op c + (f.payload.length : Int) < 9223372036854775808)
    (hl2 : c.r.limit ≤ 0 ∨ lenBase f.op c + (f.payload.length : Int) ≤ c.r.limit) :
    ∃ c', advanceFrame c = (.ok f.op, c') ∧ Keep c c' ∧ Env c' ∧
      c'.r.readErr = c.r.readErr ∧ c'.r.msgReader = c.r.msgReader ∧ c'.r.nextId = c.r.nextId ∧
      c'.r.hlog = c.r.hlog ∧ c'.r.remaining = (f.payload.length : Int) ∧ c'.r.final = f.fin ∧
      c'.r.length = lenBase f.op c + f.payload.length ∧ c'.r.decompress = false ∧
      c'.r.buf.pending = body c.r.isServer f.key f.payload ++ tail ∧
      unmask c' (body c.r.isServer f.key f.payload) = f.payload ∧
      c'.r.buf.pending.length + 2 ≤ c.r.buf.pending.length := by
  have hb0 := lenBase_nonneg f.op c h0
  obtain ⟨b', h1, h2, h3, h4⟩ := advance_data_raw c wire tail f.op f.fin f.key f.payload hrem env.wf env.size
    hp hop hlen hb0 hl1 hl2
  have hk : Keep c { c with r := { c.r with buf := b', remaining := (f.payload.length : Int), decompress := false, final := f.fin, maskPos := (if c.r.isServer then 0 else c.r.maskPos), maskKey := (if c.r.isServer then f.key else c.r.maskKey), length := lenBase f.op c + f.payload.length } } :=
    ⟨rfl, rfl, rfl, rfl, h4⟩
  have hpl : b'.pending.length + 2 ≤ c.r.buf.pending.length := by
    rw [h2, hp]
    simp only [List.length_append, enc_length, body_length]
    omega
  refine ⟨_, h1, hk, env.step hk h3 (by simp only []; omega), rfl, rfl, rfl, rfl, rfl, rfl, rfl, rfl, h2, ?_, hpl⟩
  unfold unmask body
  simp only []
  cases c.r.isServer
  · rfl
  · simp only [if_true]; exact maskFrom_involutive _ _ _

/-- `step_data` with the bound stated on the sum the frame really starts from -/
theorem step_data' (S : Bool) (c : Conn) (wire : Bytes) (f : PFrame) (fs : List PFrame) (rest : Bytes)
    (env : Env c) (srv : c.r.isServer = S) (noErr : c.r.readErr = none)
    (hrem : c.r.remaining = (wire.length : Int))
    (hp : c.r.buf.pending = wire ++ (f.enc S ++ (encAll S fs ++ rest)))
    (hop : (f.op = 0 ∧ c.r.final = false) ∨ ((f.op = 1 ∨ f.op = 2) ∧ c.r.final = true))
    (hlen : f.payload.length < 2 ^ 62) (h0 : 0 ≤ c.r.length)
    (tog : c.r.buf.t.together = false ∨ rest ≠ [])
    (hT : f.fin = true → fs = []) (hF : f.fin = false → Tail fs)
    (extra : Nat)
    (hl1 : lenBase f.op c + ((f.payload.length + (dataPayload fs).length + extra : Nat) : Int) < 9223372036854775808)
    (hl2 : c.r.limit ≤ 0 ∨
      lenBase f.op c + ((f.payload.length + (dataPayload fs).length + extra : Nat) : Int) ≤ c.r.limit) :
    ∃ c', advanceFrame c = (.ok f.op, c') ∧ St S c' (body S f.key f.payload) fs rest ∧ Keep c c' ∧
      c'.r.msgReader = c.r.msgReader ∧ c'.r.nextId = c.r.nextId ∧ c'.r.hlog = c.r.hlog ∧
      c'.r.decompress = false ∧ LenOk c' ((dataPayload fs).length + extra) ∧
      unmask c' (body S f.key f.payload) = f.payload ∧
      c'.r.buf.pending.length < c.r.buf.pending.length := by
  subst srv
  have hb0 := lenBase_nonneg f.op c h0
  obtain ⟨c', a1, a2, a3, a4, a5, a6, a7, a8, a9, a10, a11, a12, a13, a14⟩ :=
    adv_data' c wire (encAll c.r.isServer fs ++ rest) f env hrem hp hop hlen h0 (by omega)
      (by rcases hl2 with h | h
          · exact Or.inl h
          · exact Or.inr (by omega))
  refine ⟨c', a1, ⟨a3, a2.isServer, ?_, ?_, ?_, ?_, ?_, ?_, ?_⟩, a2, a5, a6, a7, a11, ?_, a13, by omega⟩
  · rw [a4]; exact noErr
  · rw [a8, body_length]
  · exact a12
  · rw [a9]; exact hT
  · rw [a9]; exact hF
  · rw [a10]; omega
  · rw [a2.same.together]; exact tog
  · refine ⟨?_, ?_⟩
    · rw [a10]; omega
    · rw [a10, a2.limit]
      rcases hl2 with l2 | l2
      · exact Or.inl l2
      · exact Or.inr (by omega)

/-- `nextReaderLoop_spec` with a read limit in force: what is left of the abandoned message and the
    following message are within the limit separately -/
theorem nextReaderLoop_spec' (S : Bool) (t : Nat) (ht : t = 1 ∨ t = 2) (rest : Bytes) (fuel : Nat) :
    ∀ (c : Conn) (wire : Bytes) (more fs2 : List PFrame), St S c wire more (encAll S fs2 ++ rest) →
      MsgShape t fs2 → (c.r.buf.t.together = false ∨ rest ≠ []) →
      LenOk c (dataPayload more).length → (dataPayload fs2).length < 2 ^ 62 →
      (c.r.limit ≤ 0 ∨ ((dataPayload fs2).length : Int) ≤ c.r.limit) → c.r.buf.pending.length < fuel →
      ∃ c1 wire1 more1, nextReaderLoop fuel c = (.msg t c.r.nextId false, c1) ∧ St S c1 wire1 more1 rest ∧
        Keep c c1 ∧ c1.r.msgReader = some c.r.nextId ∧ LenOk c1 (dataPayload more1).length ∧
        unmask c1 wire1 ++ dataPayload more1 = dataPayload fs2 ∧
        c1.r.hlog ++ ctlEvents more1 = c.r.hlog ++ ctlEvents more ++ ctlEvents fs2 := by
  induction fuel with
  | zero => intro c wire more fs2 _ _ _ _ _ _ h; omega
  | succ fuel ih =>
    intro c wire more fs2 hst hs htog hl hsz hlim hf
    cases hfin : c.r.final with
    | false =>
      obtain ⟨t', c', wire', more', a1, a2, a3, a4, a5, a6, a7, a8, a9, a10⟩ :=
        step_tail S c wire more _ hst hfin 0 (by simpa using hl)
      have hstep : nextReaderLoop (fuel + 1) c = nextReaderLoop fuel c' := by
        conv => lhs; unfold nextReaderLoop
        simp only [hst.noErr, a1, a2, Bool.false_eq_true, if_false]
      rw [hstep]
      obtain ⟨c1, w1, m1, b1, b2, b3, b4, b5, b6, b7⟩ := ih c' wire' more' fs2 a3 hs
        (by rw [a4.same.together]; exact htog) (by simpa using a7) hsz (by rw [a4.limit]; exact hlim) (by omega)
      refine ⟨c1, w1, m1, by rw [b1, a6], b2, a4.trans b3, by rw [b4, a6], b5, b6, ?_⟩
      rw [b7, a9]
    | true =>
      have hmore := hst.finT hfin
      subst hmore
      have hp := hst.pend
      simp only [encAll_nil, List.nil_append] at hp
      cases hs with
      | single f h1 h2 h3 =>
        have hd : f.isCtl = false := isCtl_of_data (by omega)
        have hlb : lenBase f.op c = 0 := lenBase_start f.op c (by omega)
        have hfl : (dataPayload [f]).length = f.payload.length := by
          rw [dataPayload_data _ hd]; simp
        simp only [encAll_cons, encAll_nil, List.append_nil] at hp
        have hp' : c.r.buf.pending = wire ++ (f.enc S ++ (encAll S [] ++ rest)) := by
          rw [hp]; simp
        obtain ⟨c', a1, a2, a3, a4, a5, a6, a7, a8, a9, a10⟩ := step_data' S c wire f [] rest hst.env hst.srv hst.noErr
          hst.rem hp' (Or.inr ⟨by omega, hfin⟩) h3 hst.len0 htog (fun _ => rfl) (fun h => by rw [h2] at h; cases h) 0
          (by rw [hlb]; simp only [dataPayload_nil, List.length_nil]; omega)
          (by rw [hlb]
              rcases hlim with h | h
              · exact Or.inl h
              · right; simp only [dataPayload_nil, List.length_nil]; omega)
        have htb : (t == 1 || t == 2) = true := by rcases ht with h | h <;> rw [h] <;> rfl
        refine ⟨{ c' with r := { c'.r with msgReader := some c'.r.nextId, nextId := c'.r.nextId + 1 } }, _, [], ?_,
          a2.congr rfl rfl rfl rfl rfl rfl rfl a2.len0, ⟨a3.isServer, a3.limit, a3.hPing, a3.hPong, a3.same⟩, ?_, ?_, ?_, ?_⟩
        · unfold nextReaderLoop
          simp only [hst.noErr, a1, htb, if_true, a7, h1, a5]
        · simp only [a5]
        · exact a8
        · show unmask c' _ ++ _ = _
          rw [a9, dataPayload_data _ hd]
        · simp only [a6, ctlEvents_data _ hd, ctlEvents_nil, List.append_nil]
      | frag f fs h1 h2 h3 h4 =>
        have hd : f.isCtl = false := isCtl_of_data (by omega)
        have hlb : lenBase f.op c = 0 := lenBase_start f.op c (by omega)
        have hfl : (dataPayload (f :: fs)).length = f.payload.length + (dataPayload fs).length := by
          rw [dataPayload_data _ hd]; simp
        rw [encAll_cons, List.append_assoc] at hp
        obtain ⟨c', a1, a2, a3, a4, a5, a6, a7, a8, a9, a10⟩ := step_data' S c wire f fs rest hst.env hst.srv hst.noErr
          hst.rem hp (Or.inr ⟨by omega, hfin⟩) h3 hst.len0 htog (fun h => by rw [h2] at h; cases h) (fun _ => h4) 0
          (by rw [hlb]; omega)
          (by rw [hlb]
              rcases hlim with h | h
              · exact Or.inl h
              · right; omega)
        have htb : (t == 1 || t == 2) = true := by rcases ht with h | h <;> rw [h] <;> rfl
        refine ⟨{ c' with r := { c'.r with msgReader := some c'.r.nextId, nextId := c'.r.nextId + 1 } }, _, fs, ?_,
          a2.congr rfl rfl rfl rfl rfl rfl rfl a2.len0, ⟨a3.isServer, a3.limit, a3.hPing, a3.hPong, a3.same⟩, ?_, ?_, ?_, ?_⟩
        · unfold nextReaderLoop
          simp only [hst.noErr, a1, htb, if_true, a7, h1, a5]
        · simp only [a5]
        · exact (by simpa using a8 : LenOk c' _)
        · show unmask c' _ ++ _ = _
          rw [a9, dataPayload_data _ hd]
        · simp only [a6, ctlEvents_data _ hd, ctlEvents_nil, List.append_nil]
      | ctl f fs h1 h4 =>
        have hd : f.isCtl = true := isCtl_of_ctlOk h1
        rw [encAll_cons, List.append_assoc, ← hst.srv] at hp
        obtain ⟨c', a1, a2, a3, a4, a5, a6, a7, a8, a9, a10, a11, a12⟩ := adv_ctl c wire _ f hst.env hst.rem hp h1
        have htb : (f.op == 1 || f.op == 2) = false := by rcases h1.1 with h | h <;> rw [h] <;> rfl
        have hstep : nextReaderLoop (fuel + 1) c = nextReaderLoop fuel c' := by
          conv => lhs; unfold nextReaderLoop
          simp only [hst.noErr, a1, htb, Bool.false_eq_true, if_false]
        rw [hstep]
        have hst' : St S c' [] [] (encAll S fs ++ rest) := by
          refine ⟨a3, a2.isServer.trans hst.srv, ?_, ?_, ?_, fun _ => rfl, ?_, ?_, ?_⟩
          · rw [a4]; exact hst.noErr
          · rw [a8]; rfl
          · rw [a11, hst.srv]; rfl
          · rw [a9, hfin]; intro h; cases h
          · rw [a10]; exact hst.len0
          · right; intro hc
            exact encAll_ne_nil h4 (List.append_eq_nil_iff.mp hc).1
        obtain ⟨c1, w1, m1, b1, b2, b3, b4, b5, b6, b7⟩ := ih c' [] [] fs hst' h4
          (by rw [a2.same.together]; exact htog)
          (by unfold LenOk at hl ⊢; rw [a10, a2.limit]; exact hl)
          (by rw [← dataPayload_ctl fs hd]; exact hsz)
          (by rw [a2.limit, ← dataPayload_ctl fs hd]; exact hlim) (by omega)
        refine ⟨c1, w1, m1, by rw [b1, a6], b2, a2.trans b3, by rw [b4, a6], b5, ?_, ?_⟩
        · rw [b6, dataPayload_ctl _ hd]
        · rw [b7, a7, ctlEvents_ctl _ hd]; simp

/-- the connection as NextReader first makes it -/
abbrev rst (c : Conn) : Conn := { c with r := { c.r with msgReader := none, length := 0 } }

/-- `nextReader_spec` with a read limit in force -/
theorem nextReader_spec' (S : Bool) (t : Nat) (ht : t = 1 ∨ t = 2) (rest : Bytes) (c : Conn) (wire : Bytes)
    (more fs2 : List PFrame)
    (hst : St S (rst c) wire more (encAll S fs2 ++ rest))
    (hs : MsgShape t fs2) (htog : c.r.buf.t.together = false ∨ rest ≠ [])
    (hl1 : (dataPayload more).length < 2 ^ 62) (hl1' : (dataPayload fs2).length < 2 ^ 62)
    (hl2 : c.r.limit ≤ 0 ∨
      (((dataPayload more).length : Int) ≤ c.r.limit ∧ ((dataPayload fs2).length : Int) ≤ c.r.limit)) :
    ∃ c1 rid wire1 more1, nextReader c = (.msg t rid false, c1) ∧ St S c1 wire1 more1 rest ∧ Keep c c1 ∧
      c1.r.msgReader = some rid ∧ LenOk c1 (dataPayload more1).length ∧
      unmask c1 wire1 ++ dataPayload more1 = dataPayload fs2 ∧
      c1.r.hlog ++ ctlEvents more1 = c.r.hlog ++ ctlEvents more ++ ctlEvents fs2 := by
  have hfuel : (rst c).r.buf.pending.length < Conn.fuel (rst c) := by
    have := hst.env.fuel
    unfold Conn.fuel
    omega
  have hl0 : LenOk (rst c) (dataPayload more).length := by
    unfold LenOk
    simp only []
    refine ⟨by omega, ?_⟩
    rcases hl2 with h | h
    · exact Or.inl h
    · exact Or.inr (by omega)
  have hlim : (rst c).r.limit ≤ 0 ∨ ((dataPayload fs2).length : Int) ≤ (rst c).r.limit := by
    rcases hl2 with h | h
    · exact Or.inl h
    · exact Or.inr h.2
  obtain ⟨c1, w1, m1, b1, b2, b3, b4, b5, b6, b7⟩ := nextReaderLoop_spec' S t ht rest _
    (rst c) wire more fs2 hst hs htog hl0 hl1' hlim hfuel
  refine ⟨c1, c.r.nextId, w1, m1, ?_, b2, ⟨b3.isServer, b3.limit, b3.hPing, b3.hPong, b3.same⟩, b4, b5, b6, b7⟩
  have hne : c.r.readErr = none := hst.noErr
  have b1' : nextReaderLoop (Conn.fuel { c with r := { c.r with msgReader := none, length := 0 } })
      { c with r := { c.r with msgReader := none, length := 0 } } = (.msg t c.r.nextId false, c1) := b1
  unfold nextReader
  simp only [hne] at b1' ⊢
  simp only [b1']

/-- `readAll_spec`, additionally with what the reader never changes -/
theorem readAll_spec' (S : Bool) (rid k : Nat) (hk : 0 < k) (rest : Bytes) (c : Conn) (wire : Bytes)
    (more : List PFrame) (hst : St S c wire more rest) (hm : c.r.msgReader = some rid)
    (hl : LenOk c (dataPayload more).length) :
    ∃ c2, readAll c rid k = ((unmask c wire ++ dataPayload more, none), c2) ∧ ReaderIdle c2 ∧
      c2.r.buf.pending = rest ∧ c2.r.hlog = c.r.hlog ++ ctlEvents more ∧ Keep c c2 := by
  have hf : c.r.buf.pending.length < c.fuel + 2 := by
    have := hst.env.fuel
    unfold Conn.fuel; omega
  obtain ⟨c2, d1, d2, d3, d4, d5⟩ := readAllLoop_spec S rid k hk rest (c.fuel + 2) c wire more [] hst hm hl hf
  obtain ⟨i1, i2⟩ := d2.idle d3
  refine ⟨c2, ?_, i1, i2, d5, d4⟩
  unfold readAll
  rw [d1]
  simp

/-- `Ab` with the value of the read limit recorded instead of `limit ≤ 0` -/
def Ab' (S : Bool) (rid : Nat) (rest1 : Bytes) (H : List REv) (n : Nat) (L : Int) (tg : Bool) (c : Conn) : Prop :=
  ∃ wire more, St S c wire more rest1 ∧ (c.r.msgReader = some rid ∨ c.r.msgReader = none) ∧
    LenOk c (dataPayload more).length ∧ wire.length + (dataPayload more).length ≤ n ∧
    c.r.hlog ++ ctlEvents more = H ∧ c.r.limit = L ∧ c.r.buf.t.together = tg

theorem partialReads_spec' (S : Bool) (rid : Nat) (rest1 : Bytes) (H : List REv) (n : Nat) (L : Int) (tg : Bool) :
    ∀ (reads : List Nat) (c : Conn), Ab' S rid rest1 H n L tg c → Ab' S rid rest1 H n L tg (partialReads c rid reads) := by
  intro reads
  induction reads with
  | nil => intro c h; exact h
  | cons k ks ih =>
    intro c h
    unfold partialReads
    apply ih
    obtain ⟨wire, more, hst, hm, hl, hn, hH, hlim, htg⟩ := h
    by_cases hmr : c.r.msgReader = some rid
    · have hmrd : mrRead c rid (k + 1) = mrReadLoop (c.fuel + 1) c rid (k + 1) := by
        unfold mrRead
        rw [if_neg (by rw [hmr]; simp)]
      have hcf : c.r.buf.pending.length < c.fuel + 1 := by
        have := hst.env.fuel
        unfold Conn.fuel; omega
      rw [hmrd]
      rcases mrReadLoop_spec S rid (k + 1) (by omega) rest1 (c.fuel + 1) c wire more hst hmr hl hcf with
        ⟨out, c2, w2, m2, b1, b2, b3, b4, b5, b6, b7, b8, b9⟩ | ⟨c2, b1, b2, b3, b4, b5, b6, b7, b8⟩
      · rw [b1]
        refine ⟨w2, m2, b3, Or.inl b5, b6, ?_, by rw [b8, hH], by rw [b4.limit]; exact hlim,
          by rw [b4.same.together]; exact htg⟩
        have := congrArg List.length b7
        simp only [List.length_append, unmask_length] at this
        omega
      · rw [b1]
        refine ⟨[], [], b3, Or.inr b6, b8, by simp, by rw [b7, hH]; simp, by rw [b5.limit]; exact hlim,
          by rw [b5.same.together]; exact htg⟩
    · have hmrd : mrRead c rid (k + 1) = (([], some .eof), c) := by
        unfold mrRead
        rw [if_pos hmr]
      rw [hmrd]
      exact ⟨wire, more, hst, hm, hl, hn, hH, hlim, htg⟩

/-- a reader anywhere inside (or before, or after) a message of at most `n` payload bytes, as the next
    NextReader call finds it: `H` = the handler log once the rest of that message is passed -/
def Pre (S : Bool) (rest1 : Bytes) (H : List REv) (n : Nat) (L : Int) (tg : Bool) (c : Conn) : Prop :=
  ∃ wire more, St S (rst c) wire more rest1 ∧ wire.length + (dataPayload more).length ≤ n ∧
    c.r.hlog ++ ctlEvents more = H ∧ c.r.limit = L ∧ c.r.buf.t.together = tg

theorem Pre.limit {S : Bool} {rest1 : Bytes} {H : List REv} {n : Nat} {L : Int} {tg : Bool} {c : Conn}
    (h : Pre S rest1 H n L tg c) : c.r.limit = L := by
  obtain ⟨_, _, _, _, _, h, _⟩ := h
  exact h

/-- an idle reader -/
theorem pre_idle (c : Conn) (hc : ReaderIdle c) (rest1 : Bytes) (hp : c.r.buf.pending = rest1)
    (hne : c.r.buf.t.together = false ∨ rest1 ≠ []) :
    Pre c.r.isServer rest1 c.r.hlog 0 c.r.limit c.r.buf.t.together c := by
  refine ⟨[], [], ⟨⟨hc.wf, hc.size, hc.fuel, hc.hp, hc.hq⟩, rfl, hc.noErr, ?_, ?_, fun _ => rfl, ?_, Int.le_refl 0, hne⟩,
    by simp, by simp, rfl, rfl⟩
  · show c.r.remaining = _
    rw [hc.rem]; rfl
  · show c.r.buf.pending = _
    rw [hp]; simp
  · intro h
    have h' : c.r.final = false := h
    rw [hc.fin] at h'; cases h'

/-- NextReader from such a reader: the rest of the message is skipped, the following one opened -/
theorem pre_next (S : Bool) (t : Nat) (ht : t = 1 ∨ t = 2) (rest : Bytes) (H : List REv) (n : Nat) (L : Int)
    (tg : Bool) (c : Conn) (fs : List PFrame) (hpre : Pre S (encAll S fs ++ rest) H n L tg c)
    (hs : MsgShape t fs) (htog : tg = false ∨ rest ≠ []) (hn : n < 2 ^ 62) (hf : (dataPayload fs).length < 2 ^ 62)
    (hL : L ≤ 0 ∨ ((n : Int) ≤ L ∧ ((dataPayload fs).length : Int) ≤ L)) :
    ∃ c1 rid wire1 more1, nextReader c = (.msg t rid false, c1) ∧ St S c1 wire1 more1 rest ∧ Keep c c1 ∧
      c1.r.msgReader = some rid ∧ LenOk c1 (dataPayload more1).length ∧
      unmask c1 wire1 ++ dataPayload more1 = dataPayload fs ∧
      c1.r.hlog ++ ctlEvents more1 = H ++ ctlEvents fs := by
  obtain ⟨w, m, e1, e2, e3, e4, e5⟩ := hpre
  obtain ⟨c1, rid, w1, m1, b1, b2, b3, b4, b5, b6, b7⟩ := nextReader_spec' S t ht rest c w m fs e1 hs
    (by rw [e5]; exact htog) (by omega) hf
    (by rw [e4]
        rcases hL with h | h
        · exact Or.inl h
        · exact Or.inr ⟨by omega, h.2⟩)
  exact ⟨c1, rid, w1, m1, b1, b2, b3, b4, b5, b6, by rw [b7, e3]⟩

/-- any reads on the message just opened -/
theorem pre_touch (S : Bool) (rid : Nat) (rest : Bytes) (H : List REv) (L : Int) (tg : Bool) (c1 : Conn)
    (w1 : Bytes) (m1 fs : List PFrame) (b2 : St S c1 w1 m1 rest) (b4 : c1.r.msgReader = some rid)
    (b5 : LenOk c1 (dataPayload m1).length) (b6 : unmask c1 w1 ++ dataPayload m1 = dataPayload fs)
    (b7 : c1.r.hlog ++ ctlEvents m1 = H) (hlim : c1.r.limit = L) (htg : c1.r.buf.t.together = tg)
    (reads : List Nat) :
    Pre S rest H (dataPayload fs).length L tg (partialReads c1 rid reads) := by
  have hn : w1.length + (dataPayload m1).length ≤ (dataPayload fs).length := by
    have := congrArg List.length b6
    simp only [List.length_append, unmask_length] at this
    omega
  have hab : Ab' S rid rest H (dataPayload fs).length L tg c1 := ⟨w1, m1, b2, Or.inl b4, b5, hn, b7, hlim, htg⟩
  obtain ⟨w, m, e1, e2, e3, e4, e5, e6, e7⟩ := partialReads_spec' _ _ _ _ _ _ _ reads c1 hab
  exact ⟨w, m, e1.congr (c' := rst (partialReads c1 rid reads)) rfl rfl rfl rfl rfl rfl rfl (Int.le_refl 0),
    e4, e5, e6, e7⟩

/-- `read_messages_keep` with a read limit in force -/
theorem read_messages_keep' (k : Nat) (hk : 0 < k) (rest : Bytes) (msgs : List (Nat × List PFrame)) :
    ∀ (c : Conn), ReaderIdle c →
      (∀ m ∈ msgs, (m.1 = 1 ∨ m.1 = 2) ∧ MsgShape m.1 m.2 ∧ (dataPayload m.2).length < 2 ^ 62 ∧
        (c.r.limit ≤ 0 ∨ ((dataPayload m.2).length : Int) ≤ c.r.limit)) →
      c.r.buf.pending = (msgs.map (fun m => encAll c.r.isServer m.2)).flatten ++ rest →
      (c.r.buf.t.together = false ∨ rest ≠ []) →
      ∃ c', readMsgs k msgs.length c = (msgs.map (fun m => (m.1, dataPayload m.2)), c') ∧
        ReaderIdle c' ∧ c'.r.buf.pending = rest ∧
        c'.r.hlog = c.r.hlog ++ (msgs.map (fun m => ctlEvents m.2)).flatten ∧ Keep c c' := by
  induction msgs with
  | nil =>
    intro c hc _ hp _
    exact ⟨c, rfl, hc, by simpa using hp, by simp, Keep.refl c⟩
  | cons m ms ih =>
    intro c hc hm hp hend
    obtain ⟨ht, hs, hsz, hlim⟩ := hm m (by simp)
    have hp1 : c.r.buf.pending =
        encAll c.r.isServer m.2 ++ ((ms.map (fun m => encAll c.r.isServer m.2)).flatten ++ rest) := by
      rw [hp]; simp
    have hend1 : c.r.buf.t.together = false ∨
        (ms.map (fun m => encAll c.r.isServer m.2)).flatten ++ rest ≠ [] := by
      rcases hend with h | h
      · exact Or.inl h
      · right; intro hcn; exact h (List.append_eq_nil_iff.mp hcn).2
    obtain ⟨c1, rid, h1, c2, h2, h3, h4, h5, h6⟩ :=
      read_message_keep c hc m.1 ht m.2 hs _ hp1 hend1 hsz hlim k hk
    obtain ⟨c', e1, e2, e3, e4, e5⟩ := ih c2 h3
      (fun x hx => by rw [h6.limit]; exact hm x (by simp [hx]))
      (by rw [h4, h6.isServer]) (by rw [h6.same.together]; exact hend)
    refine ⟨c', ?_, e2, e3, ?_, h6.trans e5⟩
    · rw [List.length_cons, readMsgs_succ k ms.length c c1 c2 m.1 rid false _ h1 h2, e1]
      rfl
    · rw [e4, h5]
      simp

end WS.LimitHistoryAux
