import WS.Lemmas.ReaderDecodes
/-
  advanceFrame on a stream that ends (transport error / EOF) somewhere inside or after the frame:
  "cut" versions of the stage lemmas of WS/Lemmas/AdvFrame.lean. The pending bytes are
  `(frame ++ tail).take m` for an arbitrary `m`; every stage either succeeds exactly as on the whole
  frame (and the cut moves on) or fails with an error that is not io.EOF.
-/
namespace WS.CutAdv
open WS WS.SrcLaw WS.AdvFrame

theorem mapEOF_ne_eof (e : RErr) : mapEOF e ≠ .eof := by
  unfold mapEOF
  split
  · intro h; cases h
  · assumption

theorem take_append_ge {α : Type} (xs ys : List α) (m : Nat) (h : xs.length ≤ m) :
    (xs ++ ys).take m = xs ++ ys.take (m - xs.length) := by
  rw [List.take_append, List.take_of_length_le h]

/-- Conn.read(n) on a cut stream -/
theorem take_cut (b : Buf) (h : WF b) (n : Nat) (hn : n ≤ b.size) (xs ys : Bytes) (m : Nat)
    (hp : b.pending = (xs ++ ys).take m) (hx : xs.length = n) :
    (n ≤ m ∧ ∃ b', b.take n = (xs, none, b') ∧ b'.pending = ys.take (m - n) ∧ WF b' ∧ Same2 b b') ∨
    (m < n ∧ ∃ p e b', b.take n = (p, some e, b') ∧ e ≠ .eof) := by
  by_cases hm : n ≤ m
  · left
    rw [take_append_ge _ _ _ (by omega), hx] at hp
    exact ⟨hm, take_exact b h n hn xs _ hp hx⟩
  · right
    have hl : b.pending.length < n := by
      rw [hp, List.length_take]; omega
    obtain ⟨t1, t2, t3, t4, t5⟩ := take_short b h n hn hl
    refine ⟨by omega, (b.take n).1, mapEOF b.t.term, (b.take n).2.2, ?_, mapEOF_ne_eof _⟩
    rw [← t2]

theorem afSkip_zero (c : Conn) (hrem : c.r.remaining = 0) : afSkip c = (none, c) := by
  unfold afSkip
  rw [if_neg (by rw [hrem]; decide)]

theorem afHead_cut (c : Conn) (x0 x1 : UInt8) (T : Bytes) (m : Nat) (hwf : WF c.r.buf) (hsz : 2 ≤ c.r.buf.size)
    (hp : c.r.buf.pending = (x0 :: x1 :: T).take m) :
    (2 ≤ m ∧ ∃ b', afHead c = afHdr { c with r := { c.r with buf := b' } } x0 x1 ∧ b'.pending = T.take (m - 2) ∧
      WF b' ∧ Same2 c.r.buf b') ∨
    (∃ e c', afHead c = (.error e, c') ∧ e ≠ .eof) := by
  rcases take_cut c.r.buf hwf 2 hsz [x0, x1] T m hp rfl with ⟨hm, b', t1, t2, t3, t4⟩ | ⟨hm, p, e, b', t1, t2⟩
  · left
    refine ⟨hm, b', ?_, t2, t3, t4⟩
    unfold afHead
    rw [t1]
  · right
    unfold afHead
    rw [t1]
    exact ⟨e, _, rfl, t2⟩

theorem afLen_cut (h : Hdr) (c : Conn) (len : Nat) (T : Bytes) (m : Nat) (hl7 : h.len7 = l7 len)
    (hrem : c.r.remaining = ((l7 len : Nat) : Int)) (hlen : len < 2 ^ 62) (hwf : WF c.r.buf)
    (hsz : 8 ≤ c.r.buf.size) (hp : c.r.buf.pending = (ext len ++ T).take m) :
    ((ext len).length ≤ m ∧ ∃ b', afLen h c = (none, { c with r := { c.r with buf := b', remaining := (len : Int) } }) ∧
      b'.pending = T.take (m - (ext len).length) ∧ WF b' ∧ Same2 c.r.buf b') ∨
    (∃ e c', afLen h c = (some e, c') ∧ e ≠ .eof) := by
  by_cases hm : (ext len).length ≤ m
  · left
    rw [take_append_ge _ _ _ hm] at hp
    exact ⟨hm, afLen_ok h c len _ hl7 hrem hlen hwf hsz hp⟩
  · right
    unfold afLen
    by_cases h1 : len ≥ 65536
    · have e7 : l7 len = 127 := by simp [l7, h1]
      have ex : ext len = beBytes 8 len := by simp [ext, h1]
      rw [hl7, e7, if_neg (by decide), if_pos rfl]
      rw [ex] at hp hm
      rcases take_cut c.r.buf hwf 8 hsz _ T m hp (beBytes_length ..) with ⟨hm', _⟩ | ⟨_, p, e, b', t1, t2⟩
      · rw [beBytes_length] at hm; omega
      · rw [t1]; exact ⟨e, _, rfl, t2⟩
    · by_cases h2 : len > 125
      · have e7 : l7 len = 126 := by simp [l7, h1, h2]
        have ex : ext len = beBytes 2 len := by simp [ext, h1, h2]
        rw [hl7, e7, if_pos rfl]
        rw [ex] at hp hm
        rcases take_cut c.r.buf hwf 2 (by omega) _ T m hp (beBytes_length ..) with ⟨hm', _⟩ | ⟨_, p, e, b', t1, t2⟩
        · rw [beBytes_length] at hm; omega
        · rw [t1]; exact ⟨e, _, rfl, t2⟩
      · have ex : ext len = [] := by simp [ext, h1, h2]
        rw [ex] at hm
        simp at hm

theorem afKey_cut (h : Hdr) (c : Conn) (S : Bool) (key : Key) (T : Bytes) (m : Nat) (hm : h.mask = S)
    (hwf : WF c.r.buf) (hsz : 4 ≤ c.r.buf.size) (hp : c.r.buf.pending = (keyBytes S key ++ T).take m) :
    ((keyBytes S key).length ≤ m ∧ ∃ b', afKey h c = (none, { c with r := { c.r with buf := b', maskPos := (if S then 0 else c.r.maskPos), maskKey := (if S then key else c.r.maskKey) } }) ∧
      b'.pending = T.take (m - (keyBytes S key).length) ∧ WF b' ∧ Same2 c.r.buf b') ∨
    (∃ e c', afKey h c = (some e, c') ∧ e ≠ .eof) := by
  by_cases hk : (keyBytes S key).length ≤ m
  · left
    rw [take_append_ge _ _ _ hk] at hp
    exact ⟨hk, afKey_ok h c S key _ hm hwf hsz hp⟩
  · right
    unfold afKey
    cases S with
    | true =>
      rw [hm, if_pos rfl]
      simp only [keyBytes, if_true] at hp hk
      rcases take_cut c.r.buf hwf 4 hsz _ T m hp rfl with ⟨hm', _⟩ | ⟨_, p, e, b', t1, t2⟩
      · exact absurd hm' hk
      · rw [t1]; exact ⟨e, _, rfl, t2⟩
    | false =>
      simp [keyBytes] at hk

theorem afPayload_cut (c : Conn) (wire T : Bytes) (m : Nat) (hrem : c.r.remaining = (wire.length : Int))
    (hwf : WF c.r.buf) (hsz : wire.length ≤ c.r.buf.size) (hp : c.r.buf.pending = (wire ++ T).take m) :
    (wire.length ≤ m ∧ ∃ b', afPayload c = (none, (if c.r.isServer then maskFrom c.r.maskKey 0 wire else wire),
        { c with r := { c.r with buf := b', remaining := 0 } }) ∧
      b'.pending = T.take (m - wire.length) ∧ WF b' ∧ Same2 c.r.buf b') ∨
    (∃ e p c', afPayload c = (some e, p, c') ∧ e ≠ .eof) := by
  by_cases hm : wire.length ≤ m
  · left
    rw [take_append_ge _ _ _ hm] at hp
    exact ⟨hm, afPayload_ok c wire _ hrem hwf hsz hp⟩
  · right
    unfold afPayload
    rw [if_pos (by omega)]
    have hn : wire.length = c.r.remaining.toNat := by omega
    rcases take_cut c.r.buf hwf c.r.remaining.toNat (by omega) wire T m hp hn with ⟨hm', _⟩ | ⟨_, p, e, b', t1, t2⟩
    · omega
    · rw [t1]; exact ⟨e, _, _, rfl, t2⟩

theorem afHdr_data_cut (c : Conn) (T : Bytes) (m : Nat) (op : Nat) (fin : Bool) (key : Key) (payload : Bytes)
    (hwf : WF c.r.buf) (hsz : 125 ≤ c.r.buf.size)
    (hp : c.r.buf.pending = (ext payload.length ++ (keyBytes c.r.isServer key ++ T)).take m)
    (hop : (op = 0 ∧ c.r.final = false) ∨ ((op = 1 ∨ op = 2) ∧ c.r.final = true))
    (hlen : payload.length < 2 ^ 62) (h0 : 0 ≤ lenBase op c)
    (h1 : lenBase op c + payload.length < 9223372036854775808)
    (hlim : c.r.limit ≤ 0 ∨ lenBase op c + payload.length ≤ c.r.limit) :
    (∃ b', afHdr c (UInt8.ofNat (op + if fin then 128 else 0)) (UInt8.ofNat (mbit c.r.isServer + l7 payload.length)) =
        (.ok op, { c with r := { c.r with buf := b', remaining := (payload.length : Int), decompress := false, final := fin, maskPos := (if c.r.isServer then 0 else c.r.maskPos), maskKey := (if c.r.isServer then key else c.r.maskKey), length := lenBase op c + payload.length } }) ∧
      (ext payload.length).length + (keyBytes c.r.isServer key).length ≤ m ∧
      b'.pending = T.take (m - (ext payload.length).length - (keyBytes c.r.isServer key).length) ∧ WF b' ∧
      Same2 c.r.buf b') ∨
    (∃ e c', afHdr c (UInt8.ofNat (op + if fin then 128 else 0)) (UInt8.ofNat (mbit c.r.isServer + l7 payload.length)) =
        (.error e, c') ∧ e ≠ .eof) := by
  have hop16 : op < 16 := by omega
  have hopb : (op == 1 || op == 2 || op == 0) = true := by
    rcases hop with ⟨rfl, _⟩ | ⟨rfl | rfl, _⟩ <;> rfl
  have hopb' : (op == 0 || op == 1 || op == 2) = true := by
    rcases hop with ⟨rfl, _⟩ | ⟨rfl | rfl, _⟩ <;> rfl
  unfold afHdr
  simp only [parseHdr_enc op fin c.r.isServer _ hop16 (l7_lt _), hdrErrs_data _ _ _ _ _ _ hop, hopb, hopb',
    List.isEmpty_nil, Bool.not_true, Bool.false_eq_true, if_false, if_true, Bool.false_and]
  rcases afLen_cut ⟨op, fin, false, false, false, c.r.isServer, l7 payload.length⟩
    { c with r := { c.r with remaining := ((l7 payload.length : Nat) : Int), decompress := false, final := fin } }
    payload.length _ m rfl rfl hlen hwf (by simp only []; omega) hp with ⟨hm1, b1, s1, s2, s3, s4⟩ | ⟨e, c', s1, s2⟩
  · rw [s1]
    simp only []
    rcases afKey_cut ⟨op, fin, false, false, false, c.r.isServer, l7 payload.length⟩
      { c with r := { c.r with buf := b1, remaining := (payload.length : Int), decompress := false, final := fin } }
      c.r.isServer key T _ rfl s3 (by have := s4.size; simp only [] at this ⊢; omega) s2 with
      ⟨hm2, b2, t1, t2, t3, t4⟩ | ⟨e, c', t1, t2⟩
    · left
      rw [t1]
      simp only []
      refine ⟨b2, ?_, by omega, t2, t3, s4.trans t4⟩
      exact afData_ok _ _ payload.length rfl h0 h1 hlim
    · right
      rw [t1]
      exact ⟨e, c', rfl, t2⟩
  · right
    rw [s1]
    exact ⟨e, c', rfl, s2⟩

theorem afHdr_ctl_cut (c : Conn) (T : Bytes) (m : Nat) (op : Nat) (key : Key) (payload : Bytes)
    (hwf : WF c.r.buf) (hsz : 125 ≤ c.r.buf.size)
    (hp : c.r.buf.pending = (ext payload.length ++ (keyBytes c.r.isServer key ++ (body c.r.isServer key payload ++ T))).take m)
    (hop : op = 9 ∨ op = 10) (hlen : payload.length ≤ 125)
    (hhp : ∀ id, c.r.hPing ≠ .fail id) (hhq : ∀ id, c.r.hPong ≠ .fail id) :
    (∃ b' w', afHdr c (UInt8.ofNat (op + 128)) (UInt8.ofNat (mbit c.r.isServer + l7 payload.length)) =
        (.ok op, { w := w', r := { c.r with buf := b', remaining := 0, decompress := false, maskPos := (if c.r.isServer then 0 else c.r.maskPos), maskKey := (if c.r.isServer then key else c.r.maskKey), hlog := c.r.hlog ++ [ctlEv op payload] } }) ∧
      (ext payload.length).length + (keyBytes c.r.isServer key).length + payload.length ≤ m ∧
      b'.pending = T.take (m - (ext payload.length).length - (keyBytes c.r.isServer key).length - payload.length) ∧
      WF b' ∧ Same2 c.r.buf b') ∨
    (∃ e c', afHdr c (UInt8.ofNat (op + 128)) (UInt8.ofNat (mbit c.r.isServer + l7 payload.length)) =
        (.error e, c') ∧ e ≠ .eof) := by
  have hop16 : op < 16 := by omega
  have hopb : (op == 1 || op == 2 || op == 0) = false := by
    rcases hop with rfl | rfl <;> rfl
  have hopb' : (op == 0 || op == 1 || op == 2) = false := by
    rcases hop with rfl | rfl <;> rfl
  have h7 : l7 payload.length = payload.length := by
    unfold l7; rw [if_neg (by omega), if_neg (by omega)]
  have hph := parseHdr_enc op true c.r.isServer _ hop16 (l7_lt payload.length)
  simp only [↓reduceIte] at hph
  unfold afHdr
  simp only [hph,
    hdrErrs_ctl _ _ _ _ (l7 payload.length) hop (by omega), hopb, hopb',
    List.isEmpty_nil, Bool.not_true, Bool.false_eq_true, if_false, Bool.false_and]
  rcases afLen_cut ⟨op, true, false, false, false, c.r.isServer, l7 payload.length⟩
    { c with r := { c.r with remaining := ((l7 payload.length : Nat) : Int), decompress := false, final := c.r.final } }
    payload.length _ m rfl rfl (by omega) hwf (by simp only []; omega) hp with ⟨hm1, b1, s1, s2, s3, s4⟩ | ⟨e, c', s1, s2⟩
  · rw [s1]
    simp only []
    rcases afKey_cut ⟨op, true, false, false, false, c.r.isServer, l7 payload.length⟩
      { c with r := { c.r with buf := b1, remaining := (payload.length : Int), decompress := false, final := c.r.final } }
      c.r.isServer key _ _ rfl s3 (by have := s4.size; simp only [] at this ⊢; omega) s2 with
      ⟨hm2, b2, t1, t2, t3, t4⟩ | ⟨e, c', t1, t2⟩
    · rw [t1]
      simp only []
      rcases afPayload_cut
        { c with r := { c.r with buf := b2, remaining := (payload.length : Int), decompress := false, final := c.r.final, maskPos := (if c.r.isServer then 0 else c.r.maskPos), maskKey := (if c.r.isServer then key else c.r.maskKey) } }
        (body c.r.isServer key payload) T _ (by simp only [body_length]) t3
        (by have := s4.size; have := t4.size; simp only [body_length] at *; omega) t2 with
        ⟨hm3, b3, u1, u2, u3, u4⟩ | ⟨e, p, c', u1, u2⟩
      · left
        rw [u1]
        simp only []
        have hunmask : (if c.r.isServer = true then maskFrom (if c.r.isServer = true then key else c.r.maskKey) 0 (body c.r.isServer key payload)
            else body c.r.isServer key payload) = payload := by
          unfold body
          cases c.r.isServer
          · rfl
          · simp only [if_true]; exact maskFrom_involutive _ _ _
        rw [hunmask]
        obtain ⟨w', v1⟩ := afDispatch_ok ⟨op, true, false, false, false, c.r.isServer, l7 payload.length⟩ payload
          { c with r := { c.r with buf := b3, remaining := 0, decompress := false, final := c.r.final, maskPos := (if c.r.isServer then 0 else c.r.maskPos), maskKey := (if c.r.isServer then key else c.r.maskKey) } }
          hop hhp hhq
        rw [v1]
        rw [body_length] at hm3 u2
        exact ⟨b3, w', rfl, by omega, u2, u3, (s4.trans t4).trans u4⟩
      · right
        rw [u1]
        exact ⟨e, c', rfl, u2⟩
    · right
      rw [t1]
      exact ⟨e, c', rfl, t2⟩
  · right
    rw [s1]
    exact ⟨e, c', rfl, s2⟩

/-- advanceFrame at a frame boundary, data frame of the peer cut anywhere (or not at all) -/
theorem advance_data_cut (c : Conn) (tail : Bytes) (m : Nat) (op : Nat) (fin : Bool) (key : Key) (payload : Bytes)
    (hrem : c.r.remaining = 0) (hwf : WF c.r.buf) (hsz : 125 ≤ c.r.buf.size)
    (hp : c.r.buf.pending = (Codec.encode (!c.r.isServer) (op + if fin then 128 else 0) key payload ++ tail).take m)
    (hop : (op = 0 ∧ c.r.final = false) ∨ ((op = 1 ∨ op = 2) ∧ c.r.final = true))
    (hlen : payload.length < 2 ^ 62) (h0 : 0 ≤ lenBase op c)
    (h1 : lenBase op c + payload.length < 9223372036854775808)
    (hlim : c.r.limit ≤ 0 ∨ lenBase op c + payload.length ≤ c.r.limit) :
    (∃ b', advanceFrame c =
        (.ok op, { c with r := { c.r with buf := b', remaining := (payload.length : Int), decompress := false, final := fin, maskPos := (if c.r.isServer then 0 else c.r.maskPos), maskKey := (if c.r.isServer then key else c.r.maskKey), length := lenBase op c + payload.length } }) ∧
      2 + (ext payload.length).length + (keyBytes c.r.isServer key).length ≤ m ∧
      b'.pending = (body c.r.isServer key payload ++ tail).take
        (m - (2 + (ext payload.length).length + (keyBytes c.r.isServer key).length)) ∧
      WF b' ∧ Same2 c.r.buf b') ∨
    (∃ e c', advanceFrame c = (.error e, c') ∧ e ≠ .eof) := by
  rw [advanceFrame_eq, afSkip_zero c hrem]
  simp only []
  rw [encode_eq] at hp
  simp only [List.cons_append, List.append_assoc] at hp
  rcases afHead_cut c _ _ _ m hwf (by omega) hp with ⟨hm0, b2, t1, t2, t3, t4⟩ | ⟨e, c', t1, t2⟩
  · rw [t1]
    rcases afHdr_data_cut { c with r := { c.r with buf := b2 } } (body c.r.isServer key payload ++ tail) (m - 2)
      op fin key payload t3 (by have := t4.size; simp only [] at *; omega) t2 hop hlen h0 h1 hlim with
      ⟨b3, u1, u2, u3, u4, u5⟩ | ⟨e, c', u1, u2⟩
    · left
      refine ⟨b3, u1, ?_, ?_, u4, t4.trans u5⟩
      · simp only [] at u2; omega
      · rw [u3]
        simp only []
        congr 1
        omega
    · right
      exact ⟨e, c', u1, u2⟩
  · right
    exact ⟨e, c', t1, t2⟩

/-- advanceFrame at a frame boundary, ping / pong of the peer cut anywhere (or not at all) -/
theorem advance_ctl_cut (c : Conn) (tail : Bytes) (m : Nat) (op : Nat) (key : Key) (payload : Bytes)
    (hrem : c.r.remaining = 0) (hwf : WF c.r.buf) (hsz : 125 ≤ c.r.buf.size)
    (hp : c.r.buf.pending = (Codec.encode (!c.r.isServer) (op + 128) key payload ++ tail).take m)
    (hop : op = 9 ∨ op = 10) (hlen : payload.length ≤ 125)
    (hhp : ∀ id, c.r.hPing ≠ .fail id) (hhq : ∀ id, c.r.hPong ≠ .fail id) :
    (∃ b' w', advanceFrame c =
        (.ok op, { w := w', r := { c.r with buf := b', remaining := 0, decompress := false, maskPos := (if c.r.isServer then 0 else c.r.maskPos), maskKey := (if c.r.isServer then key else c.r.maskKey), hlog := c.r.hlog ++ [ctlEv op payload] } }) ∧
      2 + (ext payload.length).length + (keyBytes c.r.isServer key).length + payload.length ≤ m ∧
      b'.pending = tail.take (m - (2 + (ext payload.length).length + (keyBytes c.r.isServer key).length + payload.length)) ∧
      WF b' ∧ Same2 c.r.buf b') ∨
    (∃ e c', advanceFrame c = (.error e, c') ∧ e ≠ .eof) := by
  rw [advanceFrame_eq, afSkip_zero c hrem]
  simp only []
  rw [encode_eq] at hp
  simp only [List.cons_append, List.append_assoc] at hp
  rcases afHead_cut c _ _ _ m hwf (by omega) hp with ⟨hm0, b2, t1, t2, t3, t4⟩ | ⟨e, c', t1, t2⟩
  · rw [t1]
    rcases afHdr_ctl_cut { c with r := { c.r with buf := b2 } } tail (m - 2)
      op key payload t3 (by have := t4.size; simp only [] at *; omega) t2 hop hlen hhp hhq with
      ⟨b3, w', u1, u2, u3, u4, u5⟩ | ⟨e, c', u1, u2⟩
    · left
      refine ⟨b3, w', u1, ?_, ?_, u4, t4.trans u5⟩
      · simp only [] at u2; omega
      · rw [u3]
        simp only []
        congr 1
        omega
    · right
      exact ⟨e, c', u1, u2⟩
  · right
    exact ⟨e, c', t1, t2⟩

end WS.CutAdv
