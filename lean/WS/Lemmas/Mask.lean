import WS.Model.Mask
/-
  Helper lemmas about masking (no property statements here).
-/
namespace WS

theorem Key.at_mod (k : Key) (i : Nat) : k.at (i % 4) = k.at i := by
  unfold Key.at; rw [Nat.mod_mod]

theorem Key.at_add4 (k : Key) (i : Nat) : k.at (i + 4) = k.at i := by
  unfold Key.at
  have : (i + 4) % 4 = i % 4 := by omega
  rw [this]

theorem Key.at_add8 (k : Key) (i : Nat) : k.at (i + 8) = k.at i := by
  rw [show i + 8 = (i + 4) + 4 from rfl, Key.at_add4, Key.at_add4]

theorem Key.at_congr (k : Key) {i j : Nat} (h : i % 4 = j % 4) : k.at i = k.at j := by
  unfold Key.at; rw [h]

@[simp] theorem maskFrom_nil (k : Key) (p : Nat) : maskFrom k p [] = [] := rfl

@[simp] theorem maskFrom_length (k : Key) (p : Nat) (bs : Bytes) : (maskFrom k p bs).length = bs.length := by
  induction bs generalizing p with
  | nil => rfl
  | cons b bs ih => simp [maskFrom, ih]

theorem maskFrom_append (k : Key) (p : Nat) (xs ys : Bytes) :
    maskFrom k p (xs ++ ys) = maskFrom k p xs ++ maskFrom k (p + xs.length) ys := by
  induction xs generalizing p with
  | nil => simp
  | cons x xs ih =>
    simp only [List.cons_append, maskFrom, List.length_cons, ih]
    rw [show p + (xs.length + 1) = p + 1 + xs.length by omega]

theorem maskFrom_congr (k : Key) {p q : Nat} (h : p % 4 = q % 4) (bs : Bytes) :
    maskFrom k p bs = maskFrom k q bs := by
  induction bs generalizing p q with
  | nil => rfl
  | cons b bs ih =>
    simp only [maskFrom]
    rw [Key.at_congr k h, ih (p := p + 1) (q := q + 1) (by omega)]

theorem maskFrom_involutive (k : Key) (p : Nat) (bs : Bytes) : maskFrom k p (maskFrom k p bs) = bs := by
  induction bs generalizing p with
  | nil => rfl
  | cons b bs ih => simp [maskFrom, ih, UInt8.xor_assoc]

theorem maskFrom_take (k : Key) (p n : Nat) (bs : Bytes) :
    (maskFrom k p bs).take n = maskFrom k p (bs.take n) := by
  induction bs generalizing p n with
  | nil => simp
  | cons b bs ih =>
    cases n with
    | zero => simp
    | succ n => simp [maskFrom, ih]

theorem maskFrom_drop (k : Key) (p n : Nat) (bs : Bytes) :
    (maskFrom k p bs).drop n = maskFrom k (p + min n bs.length) (bs.drop n) := by
  induction bs generalizing p n with
  | nil => simp
  | cons b bs ih =>
    cases n with
    | zero => simp
    | succ n =>
      simp only [maskFrom, List.drop_succ_cons, List.length_cons, ih]
      congr 1
      omega

/-- one aligned word: XOR with the 8-byte key word = byte-wise masking -/
theorem zipWith_word (k : Key) (p : Nat) (bs : Bytes) (h : bs.length = 8) :
    List.zipWith (· ^^^ ·) bs ((List.range 8).map (fun i => k.at (p + i))) = maskFrom k p bs := by
  match bs, h with
  | [b0, b1, b2, b3, b4, b5, b6, b7], _ =>
    simp [maskFrom, List.range, List.range.loop]

theorem xorWords_eq (k : Key) (p n : Nat) (bs : Bytes) (h : bs.length = n * 8) :
    xorWords ((List.range 8).map (fun i => k.at (p + i))) n bs = maskFrom k p bs := by
  induction n generalizing bs with
  | zero =>
    have : bs = [] := by
      apply List.eq_nil_of_length_eq_zero; omega
    subst this; rfl
  | succ n ih =>
    have hsplit : bs = bs.take 8 ++ bs.drop 8 := (List.take_append_drop 8 bs).symm
    have htl : (bs.take 8).length = 8 := by simp [List.length_take]; omega
    have hdl : (bs.drop 8).length = n * 8 := by simp [List.length_drop]; omega
    rw [xorWords, zipWith_word k p _ htl, ih _ hdl]
    conv => rhs; rw [hsplit, maskFrom_append, htl]
    congr 1
    exact maskFrom_congr k (by omega) _

end WS
