import WS.Model.Writer
import WS.Lemmas.Writer
/-
  C20: pooled write buffers are held only while a message is being written.
  The model records pool traffic as events `Ev.poolGet` / `Ev.poolPut` in `W.log`, and the buffer the
  connection currently holds in `W.bufRef` (`.nil` = c.writeBuf == nil).

-/
namespace WS.PoolInv
open WS

/-- number of Get / Put events in a log -/
def gets (l : List Ev) : Nat := (l.filter (fun e => match e with | .poolGet _ => true | _ => false)).length
def puts (l : List Ev) : Nat := (l.filter (fun e => match e with | .poolPut _ => true | _ => false)).length

/-- a pooled connection as the constructor leaves it. `nego = false`: without permessage-deflate no
    flate wrapper is ever created, so the environment answers (`dn`, `full`) play no role. (With
    compression the statement needs the extra hypothesis that the flate answers are consistent;
    that part is covered by the correspondence runs only.) -/
def Fresh (s : W) : Prop :=
  s.pool = true ∧ s.nego = false ∧ s.bufRef = .nil ∧ s.writer = none ∧ s.mws = [] ∧ s.handles = [] ∧ s.log = [] ∧ s.writeErr = none ∧
  maxFrameHeaderSize < s.wbufLen

/-- is some message writer still live (not ended)? -/
def openWriter (s : W) : Prop := ∃ m ∈ s.mws, m.err = none

/-- the invariant: the connection holds a buffer exactly when gets = puts + 1, holds none when
    gets = puts, and it holds one only while a message writer is live -/
/- NOTE: the third conjunct was delivered as `∀ i j mi mj, ...` which does not elaborate (binder types
   cannot be inferred: "typeclass instance problem is stuck" / "type of mi is not known"). The only
   change is the explicit binder types `(i j : Nat) (mi mj : MW)`; the meaning is unchanged. -/
def Inv (s : W) : Prop :=
  (s.bufRef = .nil → gets s.log = puts s.log) ∧
  (s.bufRef ≠ .nil → gets s.log = puts s.log + 1 ∧ openWriter s) ∧
  (∀ (i j : Nat) (mi mj : MW), s.mws[i]? = some mi → s.mws[j]? = some mj → mi.err = none → mj.err = none → i = j)

/-! ### helper development -/

/-- number of `put:nil` events -/
def nilPuts (l : List Ev) : Nat := (l.filter (fun e => match e with | .poolPut none => true | _ => false)).length

theorem not_mem_of_nilPuts : ∀ (l : List Ev), nilPuts l = 0 → Ev.poolPut none ∉ l := by
  intro l
  induction l with
  | nil => intro _ h; cases h
  | cons e l ih =>
    intro h hm
    unfold nilPuts at h ih
    rw [List.filter_cons] at h
    split at h
    · simp at h
    · rename_i hne
      cases hm with
      | head => simp at hne
      | tail _ hm => exact ih h hm

/-- the part of the state the pool bookkeeping depends on -/
def key (s : W) : Bool × Bool × BufRef × List MW × List Handle × Option Nat × Nat × Nat × Nat :=
  (s.pool, s.nego, s.bufRef, s.mws, s.handles, s.writer, gets s.log, puts s.log, nilPuts s.log)

theorem key_pool {s s' : W} (h : key s' = key s) : s'.pool = s.pool := congrArg (·.1) h
theorem key_nego {s s' : W} (h : key s' = key s) : s'.nego = s.nego := congrArg (·.2.1) h
theorem key_bufRef {s s' : W} (h : key s' = key s) : s'.bufRef = s.bufRef := congrArg (·.2.2.1) h
theorem key_mws {s s' : W} (h : key s' = key s) : s'.mws = s.mws := congrArg (·.2.2.2.1) h
theorem key_handles {s s' : W} (h : key s' = key s) : s'.handles = s.handles := congrArg (·.2.2.2.2.1) h
theorem key_writer {s s' : W} (h : key s' = key s) : s'.writer = s.writer := congrArg (·.2.2.2.2.2.1) h
theorem key_gets {s s' : W} (h : key s' = key s) : gets s'.log = gets s.log := congrArg (·.2.2.2.2.2.2.1) h
theorem key_puts {s s' : W} (h : key s' = key s) : puts s'.log = puts s.log := congrArg (·.2.2.2.2.2.2.2.1) h
theorem key_nilPuts {s s' : W} (h : key s' = key s) : nilPuts s'.log = nilPuts s.log := congrArg (·.2.2.2.2.2.2.2.2) h

theorem key_emit_swd (s : W) (d : Int) (f : Option Nat) : key (emit s (.swd d f)) = key s := by
  simp [key, emit, gets, puts, nilPuts, List.filter_append]

theorem key_emit_wr (s : W) (b : Bytes) (n : Nat) (f : Option Nat) : key (emit s (.wr b n f)) = key s := by
  simp [key, emit, gets, puts, nilPuts, List.filter_append]

theorem key_newKey (s : W) : key (newKey s).2 = key s := rfl

theorem key_writeFatal (s : W) (e : WErr) : key (writeFatal s e) = key s := by
  unfold writeFatal; split <;> rfl

theorem key_tSetWD (s : W) (d : Int) : key (tSetWD s d).2 = key s := by
  unfold tSetWD
  dsimp only
  split
  · exact (key_emit_swd _ _ _).trans rfl
  · exact (key_emit_swd _ _ _).trans rfl
  · exact (key_emit_swd _ _ _).trans rfl

theorem key_tWrite (s : W) (b : Bytes) : key (tWrite s b).2 = key s := by
  unfold tWrite
  dsimp only
  split
  · exact (key_emit_wr _ _ _ _).trans rfl
  · exact (key_emit_wr _ _ _ _).trans rfl
  · exact (key_emit_wr _ _ _ _).trans rfl

theorem key_writeBufs (s : W) (b0 b1 : Bytes) : key (writeBufs s b0 b1).2 = key s := by
  unfold writeBufs
  split
  · exact key_tWrite s b0
  · have h0 := key_tWrite s b0
    split
    · rename_i e s' heq; rw [heq] at h0; exact h0
    · rename_i s' heq; rw [heq] at h0
      exact (key_tWrite s' b1).trans h0

theorem key_connWrite (s : W) (ft d : Int) (b0 b1 : Bytes) : key (connWrite s ft d b0 b1).2 = key s := by
  unfold connWrite
  split
  · rfl
  · have h0 := key_tSetWD s d
    split
    · rename_i e s' heq; rw [heq] at h0
      exact (key_writeFatal _ _).trans h0
    · rename_i s' heq; rw [heq] at h0
      have h1 := key_writeBufs s' b0 b1
      split
      · rename_i e s'' heq'; rw [heq'] at h1
        exact (key_writeFatal _ _).trans (h1.trans h0)
      · rename_i s'' heq'; rw [heq'] at h1
        dsimp only
        split
        · exact (key_writeFatal _ _).trans (h1.trans h0)
        · exact h1.trans h0

theorem key_frameWrite (s : W) (m : MW) (final : Bool) (extra : Bytes) :
    key (frameWrite s m final extra).2 = key s := by
  unfold frameWrite
  dsimp only
  split
  · exact key_connWrite _ _ _ _ _
  · split
    · exact (key_writeFatal _ _).trans (key_newKey s)
    · exact (key_connWrite _ _ _ _ _).trans (key_newKey s)

theorem key_ctlKey (s : W) : key (ctlKey s).2 = key s := by
  unfold ctlKey; split <;> rfl

theorem key_writeControl (s : W) (t : Int) (data : Bytes) (d : Int) : key (writeControl s t data d).2 = key s := by
  unfold writeControl
  split
  · rfl
  · split
    · rfl
    · dsimp only
      split
      · exact key_ctlKey s
      · exact (key_connWrite _ _ _ _ _).trans (key_ctlKey s)

/-- `writePreparedImage` = (for a data type) `closePrev`, then one `Conn.write`; the `Conn.write` does not
    touch the pool bookkeeping.  (Before the repair of F8 the right-hand side was `key s` for every type;
    for control types it still is, see `key_writePreparedImage_ctl`.) -/
theorem key_writePreparedImage (s : W) (t : Int) (img : Bytes) (dnp : List Bytes) (fullp : Bytes) :
    key (writePreparedImage s t img dnp fullp).2 = key (if isData t = true then closePrev s dnp fullp else s) := by
  unfold writePreparedImage; exact key_connWrite _ _ _ _ _

theorem key_writePreparedImage_ctl (s : W) (t : Int) (img : Bytes) (dnp : List Bytes) (fullp : Bytes)
    (ht : isData t = false) : key (writePreparedImage s t img dnp fullp).2 = key s := by
  rw [key_writePreparedImage, ht]; rfl

/-- balance while a message writer is live -/
structure BalT (s : W) : Prop where
  pool : s.pool = true
  nego : s.nego = false
  nil0 : nilPuts s.log = 0
  buf : s.bufRef ≠ .nil
  cnt : gets s.log = puts s.log + 1

/-- balance while no message writer is live -/
structure BalF (s : W) : Prop where
  pool : s.pool = true
  nego : s.nego = false
  nil0 : nilPuts s.log = 0
  buf : s.bufRef = .nil
  cnt : gets s.log = puts s.log

theorem BalT.congr {s s' : W} (h : key s' = key s) (b : BalT s) : BalT s' :=
  ⟨(key_pool h).trans b.pool, (key_nego h).trans b.nego, (key_nilPuts h).trans b.nil0,
   by rw [key_bufRef h]; exact b.buf, by rw [key_gets h, key_puts h]; exact b.cnt⟩

theorem BalF.congr {s s' : W} (h : key s' = key s) (b : BalF s) : BalF s' :=
  ⟨(key_pool h).trans b.pool, (key_nego h).trans b.nego, (key_nilPuts h).trans b.nil0,
   by rw [key_bufRef h]; exact b.buf, by rw [key_gets h, key_puts h]; exact b.cnt⟩

theorem poolPut_bal (s : W) (b : BalT s) :
    BalF (poolPut s) ∧ (poolPut s).mws = s.mws ∧ (poolPut s).handles = s.handles ∧ (poolPut s).writer = s.writer := by
  obtain ⟨hp, hn, h0, hb, hc⟩ := b
  unfold poolPut
  split
  · refine ⟨⟨hp, hn, ?_, rfl, ?_⟩, rfl, rfl, rfl⟩
    · simpa [emit, nilPuts, List.filter_append] using h0
    · simp [emit, gets, puts, List.filter_append] at hc ⊢; exact hc
  · refine ⟨⟨hp, hn, ?_, rfl, ?_⟩, rfl, rfl, rfl⟩
    · simpa [emit, nilPuts, List.filter_append] using h0
    · simp [emit, gets, puts, List.filter_append] at hc ⊢; exact hc
  · rename_i h; exact absurd h hb

theorem poolGet_bal (s : W) (b : BalF s) :
    BalT (poolGet s) ∧ (poolGet s).mws = s.mws ∧ (poolGet s).handles = s.handles ∧ (poolGet s).writer = s.writer ∧
    (poolGet s).writeErr = s.writeErr := by
  obtain ⟨hp, hn, h0, hb, hc⟩ := b
  unfold poolGet
  split
  · refine ⟨⟨hp, hn, ?_, by simp [emit], ?_⟩, rfl, rfl, rfl, rfl⟩
    · simpa [emit, nilPuts, List.filter_append] using h0
    · simp [emit, gets, puts, List.filter_append] at hc ⊢; exact hc
  · refine ⟨⟨hp, hn, ?_, by simp [emit], ?_⟩, rfl, rfl, rfl, rfl⟩
    · simpa [emit, nilPuts, List.filter_append] using h0
    · simp [emit, gets, puts, List.filter_append] at hc ⊢; exact hc

/-- what a messageWriter-level function may do: nothing pool-relevant while the writer stays
    live (or was already ended); when it ends the writer, it gives the buffer back -/
structure Step (s : W) (m : MW) (s' : W) (m' : MW) : Prop where
  dead : m.err ≠ none → key s' = key s ∧ m'.err ≠ none
  live : m.err = none → m'.err = none → key s' = key s
  fin : m.err = none → m'.err ≠ none → s'.mws = s.mws ∧ s'.handles = s.handles ∧ (BalT s → BalF s')

theorem Step.of_key {s s' : W} {m m' : MW} (hk : key s' = key s) (he : m'.err = m.err) : Step s m s' m' :=
  ⟨fun h => ⟨hk, by rw [he]; exact h⟩, fun _ _ => hk, fun h h' => absurd (he.trans h) h'⟩

theorem Step.trans {s s1 s2 : W} {m m1 m2 : MW} (a : Step s m s1 m1) (b : Step s1 m1 s2 m2) : Step s m s2 m2 := by
  refine ⟨fun h => ?_, fun h h2 => ?_, fun h h2 => ?_⟩
  · have ha := a.dead h
    have hb := b.dead ha.2
    exact ⟨hb.1.trans ha.1, hb.2⟩
  · by_cases h1 : m1.err = none
    · exact (b.live h1 h2).trans (a.live h h1)
    · exact absurd h2 (b.dead h1).2
  · by_cases h1 : m1.err = none
    · have ha := a.live h h1
      have hb := b.fin h1 h2
      exact ⟨hb.1.trans (key_mws ha), hb.2.1.trans (key_handles ha), fun bt => hb.2.2 (bt.congr ha)⟩
    · have ha := a.fin h h1
      have hb := (b.dead h1).1
      exact ⟨(key_mws hb).trans ha.1, (key_handles hb).trans ha.2.1, fun bt => (ha.2.2 bt).congr hb⟩

theorem endMessage_dead (s : W) (m : MW) (e : WErr) : (endMessage s m e).2.err ≠ none := by
  have := endMessage_err s m e
  intro h; rw [h] at this; simp at this

theorem endMessage_step (s : W) (m : MW) (e : WErr) : Step s m (endMessage s m e).1 (endMessage s m e).2 := by
  unfold endMessage
  split
  · exact Step.of_key rfl rfl
  · rename_i hs
    refine ⟨fun h => ?_, fun _ h' => ?_, fun _ _ => ?_⟩
    · cases hm : m.err with
      | none => exact absurd hm h
      | some x => rw [hm] at hs; simp at hs
    · simp at h'
    · dsimp only
      refine ⟨?_, ?_, fun bt => ?_⟩
      · split
        · unfold poolPut; split <;> rfl
        · rfl
      · split
        · unfold poolPut; split <;> rfl
        · rfl
      · have bt' : BalT { s with writer := none } := ⟨bt.pool, bt.nego, bt.nil0, bt.buf, bt.cnt⟩
        have hp : ({ s with writer := none } : W).pool = true := bt.pool
        rw [if_pos hp]
        exact (poolPut_bal _ bt').1

theorem flushFrame_step (s : W) (m : MW) (final : Bool) (extra : Bytes) :
    Step s m (flushFrame s m final extra).2.1 (flushFrame s m final extra).2.2 := by
  unfold flushFrame
  split
  · exact endMessage_step s m _
  · have hk := key_frameWrite s m final extra
    split
    · rename_i e s1 heq
      rw [heq] at hk
      have a : Step s m s1 { m with compress := false } := Step.of_key hk rfl
      exact a.trans (endMessage_step s1 _ e)
    · rename_i s1 heq
      rw [heq] at hk
      have a : Step s m s1 { m with compress := false } := Step.of_key hk rfl
      split
      · exact a.trans (endMessage_step s1 _ _)
      · exact Step.of_key hk rfl

theorem flushFrame_final_dead (s : W) (m : MW) (extra : Bytes) :
    (flushFrame s m true extra).2.2.err ≠ none := by
  unfold flushFrame
  split
  · exact endMessage_dead _ _ _
  · split
    · exact endMessage_dead _ _ _
    · rw [if_pos rfl]; exact endMessage_dead _ _ _

theorem ncopyPrep_step (s : W) (m : MW) : Step s m (ncopyPrep s m).2.1 (ncopyPrep s m).2.2 := by
  unfold ncopyPrep
  split
  · exact flushFrame_step _ _ _ _
  · exact Step.of_key rfl rfl

theorem readFromPrep_step (s : W) (m : MW) : Step s m (readFromPrep s m).2.1 (readFromPrep s m).2.2 := by
  unfold readFromPrep
  split
  · exact flushFrame_step _ _ _ _
  · exact Step.of_key rfl rfl

theorem copyLoop_step (s : W) (m : MW) (p : Bytes) : Step s m (copyLoop s m p).2.1 (copyLoop s m p).2.2 := by
  induction hl : p.length using Nat.strongRecOn generalizing s m p with
  | _ n ih =>
    unfold copyLoop
    split
    · exact Step.of_key rfl rfl
    · rename_i hp
      have hpre := ncopyPrep_step s m
      split
      · rename_i e s' m' heq
        rw [heq] at hpre; exact hpre
      · rename_i s' m' heq
        rw [heq] at hpre
        split
        · exact hpre
        · rename_i hn
          have hlt : (p.drop (min (s'.cap - m'.buf.length) p.length)).length < n := by
            have : p.length ≠ 0 := by simpa using hp
            simp only [List.length_drop]; omega
          have a : Step s' m' s' { m' with buf := m'.buf ++ p.take (min (s'.cap - m'.buf.length) p.length) } :=
            Step.of_key rfl rfl
          exact hpre.trans (a.trans (ih _ hlt s' _ _ rfl))

theorem readFromLoop_step (fuel : Nat) (s : W) (m : MW) (r : Src) (nn : Nat) :
    Step s m (readFromLoop fuel s m r nn).2.1 (readFromLoop fuel s m r nn).2.2 := by
  induction fuel generalizing s m r nn with
  | zero => exact Step.of_key rfl rfl
  | succ fuel ih =>
    unfold readFromLoop
    have hpre := readFromPrep_step s m
    split
    · rename_i e s' m' heq
      rw [heq] at hpre; exact hpre
    · rename_i s' m' heq
      rw [heq] at hpre
      split
      · exact hpre.trans (Step.of_key rfl rfl)
      · exact hpre.trans (Step.of_key rfl rfl)
      · rename_i bs r' _
        have a : Step s' m' s' { m' with buf := m'.buf ++ bs } := Step.of_key rfl rfl
        exact hpre.trans (a.trans (ih _ _ _ _))

theorem mwWrite_step (s : W) (m : MW) (p : Bytes) : Step s m (mwWrite s m p).2.1 (mwWrite s m p).2.2 := by
  unfold mwWrite
  split
  · exact Step.of_key rfl rfl
  · split
    · exact flushFrame_step _ _ _ _
    · exact copyLoop_step _ _ _

theorem mwWriteString_step (s : W) (m : MW) (p : Bytes) :
    Step s m (mwWriteString s m p).2.1 (mwWriteString s m p).2.2 := by
  unfold mwWriteString
  split
  · exact Step.of_key rfl rfl
  · exact copyLoop_step _ _ _

theorem mwClose_step (s : W) (m : MW) : Step s m (mwClose s m).2.1 (mwClose s m).2.2 := by
  unfold mwClose
  split
  · exact Step.of_key rfl rfl
  · exact flushFrame_step _ _ _ _

theorem mwClose_dead (s : W) (m : MW) : (mwClose s m).2.2.err ≠ none := by
  unfold mwClose
  split
  · rename_i e he; dsimp only; rw [he]; simp
  · exact flushFrame_final_dead _ _ _

theorem mwReadFrom_step (s : W) (m : MW) (r : Src) : Step s m (mwReadFrom s m r).2.1 (mwReadFrom s m r).2.2 := by
  unfold mwReadFrom
  split
  · exact Step.of_key rfl rfl
  · exact readFromLoop_step _ _ _ _ _

/-- the inductive invariant -/
structure SInv (s : W) : Prop where
  hA : ∀ (h : Nat) (x : Handle), s.handles[h]? = some x → ∃ i, x = .plain i ∧ i < s.mws.length
  hB : ∀ (i : Nat) (m : MW), s.mws[i]? = some m → m.err = none →
        ∃ h, s.writer = some h ∧ s.handles[h]? = some (.plain i)
  hT : (∃ (i : Nat) (m : MW), s.mws[i]? = some m ∧ m.err = none) → BalT s
  hF : (∀ (i : Nat) (m : MW), s.mws[i]? = some m → m.err ≠ none) → BalF s

def NoLive (s : W) : Prop := ∀ (i : Nat) (m : MW), s.mws[i]? = some m → m.err ≠ none

theorem SInv.congr {s s' : W} (h : key s' = key s) (a : SInv s) : SInv s' := by
  refine ⟨?_, ?_, ?_, ?_⟩
  · rw [key_handles h, key_mws h]; exact a.hA
  · rw [key_handles h, key_mws h, key_writer h]; exact a.hB
  · rw [key_mws h]; exact fun x => (a.hT x).congr h
  · rw [key_mws h]; exact fun x => (a.hF x).congr h

theorem NoLive.congr {s s' : W} (h : key s' = key s) (a : NoLive s) : NoLive s' := by
  unfold NoLive; rw [key_mws h]; exact a

theorem SInv.uniq {s : W} (a : SInv s) {i j : Nat} {mi mj : MW} (hi : s.mws[i]? = some mi) (hj : s.mws[j]? = some mj)
    (ei : mi.err = none) (ej : mj.err = none) : i = j := by
  obtain ⟨h1, hw1, hh1⟩ := a.hB i mi hi ei
  obtain ⟨h2, hw2, hh2⟩ := a.hB j mj hj ej
  rw [hw1] at hw2
  cases hw2
  rw [hh1] at hh2
  cases hh2
  rfl

theorem SInv.of_noLive {s : W} (hA : ∀ (h : Nat) (x : Handle), s.handles[h]? = some x → ∃ i, x = .plain i ∧ i < s.mws.length)
    (hn : NoLive s) (hb : BalF s) : SInv s :=
  ⟨hA, fun i m hi he => absurd he (hn i m hi), fun ⟨i, m, hi, he⟩ => absurd he (hn i m hi), fun _ => hb⟩

theorem SInv.balF {s : W} (a : SInv s) (hn : NoLive s) : BalF s := a.hF hn

theorem getMW_of {s : W} {i : Nat} {m : MW} (h : s.mws[i]? = some m) : getMW s i = m := by
  simp [getMW, h]

/-- storing back the result of a messageWriter-level step keeps the invariant -/
theorem SInv.apply_step {s s' : W} {i : Nat} {m m' : MW} (a : SInv s) (hi : s.mws[i]? = some m)
    (st : Step s m s' m') : SInv (setMW s' i m') := by
  have hlt : i < s.mws.length := (List.getElem?_eq_some_iff.mp hi).1
  have hmh : s'.mws = s.mws ∧ s'.handles = s.handles := by
    by_cases hm : m.err = none
    · by_cases hm' : m'.err = none
      · have hk := st.live hm hm'; exact ⟨key_mws hk, key_handles hk⟩
      · have hf := st.fin hm hm'; exact ⟨hf.1, hf.2.1⟩
    · have hk := (st.dead hm).1; exact ⟨key_mws hk, key_handles hk⟩
  obtain ⟨hmws, hhs⟩ := hmh
  have hnew_i : (setMW s' i m').mws[i]? = some m' := by
    show (s'.mws.set i m')[i]? = some m'
    rw [hmws]; exact List.getElem?_set_self hlt
  have hnew_ne : ∀ j, j ≠ i → (setMW s' i m').mws[j]? = s.mws[j]? := by
    intro j hj
    show (s'.mws.set i m')[j]? = s.mws[j]?
    rw [hmws]; exact List.getElem?_set_ne (Ne.symm hj)
  have hlen : (setMW s' i m').mws.length = s.mws.length := by
    show (s'.mws.set i m').length = s.mws.length
    rw [hmws]; simp
  have hhs' : (setMW s' i m').handles = s.handles := hhs
  have hA' : ∀ (h : Nat) (x : Handle), (setMW s' i m').handles[h]? = some x →
      ∃ k, x = .plain k ∧ k < (setMW s' i m').mws.length := by
    rw [hhs', hlen]; exact a.hA
  have balT' : BalT s' → BalT (setMW s' i m') := fun b => ⟨b.pool, b.nego, b.nil0, b.buf, b.cnt⟩
  have balF' : BalF s' → BalF (setMW s' i m') := fun b => ⟨b.pool, b.nego, b.nil0, b.buf, b.cnt⟩
  by_cases hm : m.err = none
  · by_cases hm' : m'.err = none
    · -- stays live
      have hk := st.live hm hm'
      refine ⟨hA', ?_, fun _ => balT' ((a.hT ⟨i, m, hi, hm⟩).congr hk), fun hall => absurd hm' (hall i m' hnew_i)⟩
      intro j mj hj ej
      rw [hhs']
      show ∃ h, s'.writer = some h ∧ _
      rw [key_writer hk]
      by_cases hji : j = i
      · subst hji; exact a.hB j m hi hm
      · rw [hnew_ne j hji] at hj; exact a.hB j mj hj ej
    · -- ends
      have hf := st.fin hm hm'
      have hothers : ∀ (j : Nat) (mj : MW), (setMW s' i m').mws[j]? = some mj → mj.err ≠ none := by
        intro j mj hj ej
        by_cases hji : j = i
        · subst hji; rw [hnew_i] at hj; cases hj; exact hm' ej
        · rw [hnew_ne j hji] at hj
          exact hji (a.uniq hj hi ej hm)
      exact SInv.of_noLive hA' hothers (balF' (hf.2.2 (a.hT ⟨i, m, hi, hm⟩)))
  · -- was already ended
    obtain ⟨hk, hm'⟩ := st.dead hm
    refine ⟨hA', ?_, ?_, ?_⟩
    · intro j mj hj ej
      rw [hhs']
      show ∃ h, s'.writer = some h ∧ _
      rw [key_writer hk]
      by_cases hji : j = i
      · subst hji; rw [hnew_i] at hj; cases hj; exact absurd ej hm'
      · rw [hnew_ne j hji] at hj; exact a.hB j mj hj ej
    · rintro ⟨j, mj, hj, ej⟩
      by_cases hji : j = i
      · subst hji; rw [hnew_i] at hj; cases hj; exact absurd ej hm'
      · rw [hnew_ne j hji] at hj
        exact balT' ((a.hT ⟨j, mj, hj, ej⟩).congr hk)
    · intro hall
      refine balF' ((a.hF ?_).congr hk)
      intro j mj hj
      by_cases hji : j = i
      · subst hji; rw [hi] at hj; cases hj; exact hm
      · rw [← hnew_ne j hji] at hj; exact hall j mj hj

/-- if the step ends the writer that `s.writer` points to, nothing is live afterwards -/
theorem SInv.noLive_after {s s' : W} {i h : Nat} {m m' : MW} (a : SInv s) (hi : s.mws[i]? = some m)
    (hw : s.writer = some h) (hh : s.handles[h]? = some (.plain i))
    (st : Step s m s' m') (hd : m'.err ≠ none) : NoLive (setMW s' i m') := by
  have hlt : i < s.mws.length := (List.getElem?_eq_some_iff.mp hi).1
  have hmws : s'.mws = s.mws := by
    by_cases hm : m.err = none
    · exact (st.fin hm hd).1
    · exact key_mws (st.dead hm).1
  intro j mj hj ej
  have hj' : (s'.mws.set i m')[j]? = some mj := hj
  rw [hmws] at hj'
  by_cases hji : j = i
  · subst hji; rw [List.getElem?_set_self hlt] at hj'; cases hj'; exact hd ej
  · rw [List.getElem?_set_ne (Ne.symm hji)] at hj'
    obtain ⟨h2, hw2, hh2⟩ := a.hB j mj hj' ej
    rw [hw] at hw2; cases hw2
    rw [hh] at hh2; cases hh2
    exact hji rfl

theorem SInv.plain_get {s : W} (a : SInv s) {h i : Nat} (hh : s.handles[h]? = some (.plain i)) :
    ∃ m, s.mws[i]? = some m := by
  obtain ⟨k, hk, hlt⟩ := a.hA h _ hh
  cases hk
  exact ⟨s.mws[i], List.getElem?_eq_getElem hlt⟩

theorem SInv.no_flate {s : W} (a : SInv s) {h i : Nat} {fo : Bool} {de : Option WErr} {sent : Bytes}
    (hh : s.handles[h]? = some (.flate i fo de sent)) : False := by
  obtain ⟨k, hk, _⟩ := a.hA h _ hh
  cases hk

theorem hWrite_inv (s : W) (h : Nat) (p : Bytes) (dn : List Bytes) (asString : Bool) (a : SInv s) :
    SInv (hWrite s h p dn asString).2 := by
  unfold hWrite
  split
  · exact a
  · rename_i i hh
    obtain ⟨m, hm⟩ := a.plain_get hh
    rw [getMW_of hm]
    cases asString
    · exact a.apply_step hm (mwWrite_step s m p)
    · exact a.apply_step hm (mwWriteString_step s m p)
  · rename_i i fo de sent hh
    exact (a.no_flate hh).elim

theorem hClose_inv (s : W) (h : Nat) (dn : List Bytes) (full : Bytes) (a : SInv s) :
    SInv (hClose s h dn full).2 := by
  unfold hClose
  split
  · exact a
  · rename_i i hh
    obtain ⟨m, hm⟩ := a.plain_get hh
    rw [getMW_of hm]
    exact a.apply_step hm (mwClose_step s m)
  · rename_i i fo de sent hh
    exact (a.no_flate hh).elim

theorem hClose_noLive (s : W) (h : Nat) (dn : List Bytes) (full : Bytes) (a : SInv s) (hw : s.writer = some h) :
    NoLive (hClose s h dn full).2 := by
  unfold hClose
  split
  · -- the writer handle does not exist: then nothing is live
    rename_i hh
    intro j mj hj ej
    obtain ⟨h2, hw2, hh2⟩ := a.hB j mj hj ej
    rw [hw] at hw2; cases hw2
    rw [hh] at hh2; cases hh2
  · rename_i i hh
    obtain ⟨m, hm⟩ := a.plain_get hh
    rw [getMW_of hm]
    exact a.noLive_after hm hw hh (mwClose_step s m) (mwClose_dead s m)
  · rename_i i fo de sent hh
    exact (a.no_flate hh).elim

theorem hReadFrom_inv (s : W) (h : Nat) (r : Src) (a : SInv s) : SInv (hReadFrom s h r).2 := by
  unfold hReadFrom
  split
  · rename_i i hh
    obtain ⟨m, hm⟩ := a.plain_get hh
    rw [getMW_of hm]
    exact a.apply_step hm (mwReadFrom_step s m r)
  · exact a

theorem closePrev_inv (s : W) (dnp : List Bytes) (fullp : Bytes) (a : SInv s) :
    SInv (closePrev s dnp fullp) ∧ NoLive (closePrev s dnp fullp) := by
  unfold closePrev
  split
  · rename_i h hw
    have h1 := hClose_inv s h dnp fullp a
    have h2 := hClose_noLive s h dnp fullp a hw
    refine ⟨SInv.of_noLive h1.hA h2 ?_, h2⟩
    have b := h1.balF h2
    exact ⟨b.pool, b.nego, b.nil0, b.buf, b.cnt⟩
  · rename_i hw
    refine ⟨a, ?_⟩
    intro j mj hj ej
    obtain ⟨h2, hw2, _⟩ := a.hB j mj hj ej
    rw [hw] at hw2; cases hw2

theorem writePreparedImage_inv (s : W) (t : Int) (img : Bytes) (dnp : List Bytes) (fullp : Bytes) (a : SInv s) :
    SInv (writePreparedImage s t img dnp fullp).2 := by
  refine SInv.congr (key_writePreparedImage s t img dnp fullp) ?_
  split
  · exact (closePrev_inv s dnp fullp a).1
  · exact a

/-- state after a successful beginMessage: nothing stored is live, but a buffer is held for the
    message writer about to be created -/
structure Begun (s : W) : Prop where
  hA : ∀ (h : Nat) (x : Handle), s.handles[h]? = some x → ∃ i, x = .plain i ∧ i < s.mws.length
  hN : NoLive s
  hT : BalT s

theorem ensureBuf_begun (s : W) (a : SInv s) (hn : NoLive s) : Begun (ensureBuf s) := by
  have b := a.balF hn
  unfold ensureBuf
  rw [b.buf]
  dsimp only
  have hg := poolGet_bal s b
  refine ⟨?_, ?_, hg.1⟩
  · rw [hg.2.2.1, hg.2.1]; exact a.hA
  · unfold NoLive; rw [hg.2.1]; exact hn

theorem beginMessage'_inv (s : W) (t : Int) (a : SInv s) (hn : NoLive s) :
    (∀ e s', beginMessage' s t = (.error e, s') → SInv s') ∧
    (∀ m s', beginMessage' s t = (.ok m, s') → Begun s' ∧ m.err = none) := by
  unfold beginMessage'
  split
  · exact ⟨fun e s' h => (by cases h; exact a), fun m s' h => by cases h⟩
  · split
    · exact ⟨fun e s' h => (by cases h; exact a), fun m s' h => by cases h⟩
    · exact ⟨fun e s' h => (by cases h), fun m s' h => by cases h; exact ⟨ensureBuf_begun s a hn, rfl⟩⟩

theorem beginMessage_inv (s : W) (t : Int) (dnp : List Bytes) (fullp : Bytes) (a : SInv s) :
    (∀ e s', beginMessage s t dnp fullp = (.error e, s') → SInv s') ∧
    (∀ m s', beginMessage s t dnp fullp = (.ok m, s') → Begun s' ∧ m.err = none) := by
  unfold beginMessage
  have h := closePrev_inv s dnp fullp a
  exact beginMessage'_inv _ t h.1 h.2

theorem getElem?_snoc_cases {α : Type} (l : List α) (a b : α) (i : Nat) (h : (l ++ [a])[i]? = some b) :
    (i < l.length ∧ l[i]? = some b) ∨ (i = l.length ∧ b = a) := by
  rw [List.getElem?_append] at h
  split at h
  · left; exact ⟨by assumption, h⟩
  · right
    have h0 : i - l.length = 0 := by
      by_cases h0 : i - l.length = 0
      · exact h0
      · simp [h0] at h
    simp [h0] at h
    exact ⟨by omega, h.symm⟩

/-- registering the fresh message writer after a successful beginMessage -/
theorem Begun.register {s : W} {m : MW} (bg : Begun s) (hm : m.err = none) :
    SInv { s with mws := s.mws ++ [m], handles := s.handles ++ [.plain s.mws.length],
                  writer := some s.handles.length } := by
  refine ⟨?_, ?_, ?_, ?_⟩
  · intro h x hx
    show ∃ i, x = .plain i ∧ i < (s.mws ++ [m]).length
    have hx' : (s.handles ++ [Handle.plain s.mws.length])[h]? = some x := hx
    rcases getElem?_snoc_cases _ _ _ _ hx' with ⟨_, hx''⟩ | ⟨_, hx''⟩
    · obtain ⟨i, hi, hlt⟩ := bg.hA h x hx''
      exact ⟨i, hi, by simp; omega⟩
    · exact ⟨s.mws.length, hx'', by simp⟩
  · intro j mj hj ej
    have hj' : (s.mws ++ [m])[j]? = some mj := hj
    rcases getElem?_snoc_cases _ _ _ _ hj' with ⟨_, hj''⟩ | ⟨hjl, _⟩
    · exact absurd ej (bg.hN j mj hj'')
    · refine ⟨s.handles.length, rfl, ?_⟩
      show (s.handles ++ [Handle.plain s.mws.length])[s.handles.length]? = some (.plain j)
      rw [hjl]; simp
  · intro _
    exact ⟨bg.hT.pool, bg.hT.nego, bg.hT.nil0, bg.hT.buf, bg.hT.cnt⟩
  · intro hall
    have : (s.mws ++ [m])[s.mws.length]? = some m := by simp
    exact absurd hm (hall s.mws.length m this)

theorem nextWriter_inv (s : W) (t : Int) (dnp : List Bytes) (fullp : Bytes) (a : SInv s) :
    SInv (nextWriter s t dnp fullp).2 := by
  unfold nextWriter
  have hb := beginMessage_inv s t dnp fullp a
  split
  · rename_i e s' heq; exact hb.1 _ _ heq
  · rename_i m s' heq
    obtain ⟨bg, hm⟩ := hb.2 _ _ heq
    dsimp only
    rw [if_neg (by rw [bg.hT.nego]; simp)]
    exact bg.register hm

/-- the fast path of WriteMessage: the local message writer always ends -/
theorem Begun.finish {s s' : W} {m m' : MW} (bg : Begun s) (hm : m.err = none) (st : Step s m s' m')
    (hd : m'.err ≠ none) : SInv s' := by
  obtain ⟨hmws, hhs, hb⟩ := st.fin hm hd
  refine SInv.of_noLive ?_ ?_ (hb bg.hT)
  · rw [hhs, hmws]; exact bg.hA
  · unfold NoLive; rw [hmws]; exact bg.hN

theorem writeMessage_inv (s : W) (t : Int) (data : Bytes) (dnp : List Bytes) (fullp : Bytes) (dn : List Bytes)
    (full : Bytes) (a : SInv s) : SInv (writeMessage s t data dnp fullp dn full).2 := by
  unfold writeMessage
  split
  · have hb := beginMessage_inv s t dnp fullp a
    split
    · rename_i e s' heq; exact hb.1 _ _ heq
    · rename_i m s' heq
      obtain ⟨bg, hm⟩ := hb.2 _ _ heq
      exact bg.finish (m := { m with buf := data.take (min s'.cap data.length) }) hm
        (flushFrame_step _ _ _ _) (flushFrame_final_dead _ _ _)
  · have hn := nextWriter_inv s t dnp fullp a
    split
    · rename_i e s' heq; rw [heq] at hn; exact hn
    · rename_i h s' heq
      rw [heq] at hn
      have hw := hWrite_inv s' h data dn false hn
      split
      · rename_i n e s'' heq'; rw [heq'] at hw; exact hw
      · rename_i n s'' heq'; rw [heq'] at hw
        exact hClose_inv s'' h [] full hw

theorem writeJSON_inv (s : W) (enc : Bytes) (dnp : List Bytes) (fullp : Bytes) (dn : List Bytes)
    (full : Bytes) (a : SInv s) : SInv (writeJSON s enc dnp fullp dn full).2 := by
  unfold writeJSON
  have hn := nextWriter_inv s 1 dnp fullp a
  split
  · rename_i e s' heq; rw [heq] at hn; exact hn
  · rename_i h s' heq
    rw [heq] at hn
    exact hClose_inv _ h [] full (hWrite_inv s' h enc dn false hn)

theorem applyOp_inv (s : W) (op : Op) (a : SInv s) : SInv (applyOp s op).2 := by
  cases op with
  | nextWriter t dnp fullp =>
    have := nextWriter_inv s t dnp fullp a
    simp only [applyOp]
    split
    · rename_i heq; rw [heq] at this; exact this
    · rename_i heq; rw [heq] at this; exact this
  | write h p dn asString => exact hWrite_inv s h p dn asString a
  | readFrom h r => exact hReadFrom_inv s h r a
  | close h dn full => exact hClose_inv s h dn full a
  | writeMessage t data dnp fullp dn full => exact writeMessage_inv s t data dnp fullp dn full a
  | writeJSON enc dnp fullp dn full => exact writeJSON_inv s enc dnp fullp dn full a
  | writeControl t data d => exact a.congr (key_writeControl s t data d)
  | writePrepared t img dnp fullp => exact writePreparedImage_inv s t img dnp fullp a
  | setWriteDeadline d =>
    have hk : key (applyOp s (.setWriteDeadline d)).2 = key s := rfl
    exact a.congr hk
  | enableWriteCompression b =>
    have hk : key (applyOp s (.enableWriteCompression b)).2 = key s := rfl
    exact a.congr hk
  | setCompressionLevel l =>
    have hk : key (applyOp s (.setCompressionLevel l)).2 = key s := by
      simp only [applyOp, setCompressionLevel]
      split <;> rfl
    exact a.congr hk

theorem run_inv (s : W) (ops : List Op) (a : SInv s) : SInv (run s ops) := by
  induction ops generalizing s with
  | nil => exact a
  | cons op ops ih =>
    unfold run
    exact ih _ (applyOp_inv s op a)

theorem SInv.of_fresh {s : W} (h : Fresh s) : SInv s := by
  obtain ⟨hp, hn, hb, hw, hm, hh, hl, _, _⟩ := h
  refine SInv.of_noLive ?_ ?_ ⟨hp, hn, ?_, hb, ?_⟩
  · intro h x hx; rw [hh] at hx; simp at hx
  · intro i m hi; rw [hm] at hi; simp at hi
  · rw [hl]; rfl
  · rw [hl]; rfl

theorem SInv.inv {s : W} (a : SInv s) : Inv s := by
  refine ⟨?_, ?_, ?_⟩
  · intro hb
    by_cases hl : ∃ (i : Nat) (m : MW), s.mws[i]? = some m ∧ m.err = none
    · exact absurd hb (a.hT hl).buf
    · exact (a.hF (fun i m hi he => hl ⟨i, m, hi, he⟩)).cnt
  · intro hb
    by_cases hl : ∃ (i : Nat) (m : MW), s.mws[i]? = some m ∧ m.err = none
    · refine ⟨(a.hT hl).cnt, ?_⟩
      obtain ⟨i, m, hi, he⟩ := hl
      exact ⟨m, List.mem_of_getElem? hi, he⟩
    · exact absurd (a.hF (fun i m hi he => hl ⟨i, m, hi, he⟩)).buf hb
  · intro i j mi mj hi hj ei ej
    exact a.uniq hi hj ei ej

theorem SInv.nil0 {s : W} (a : SInv s) : nilPuts s.log = 0 := by
  by_cases hl : ∃ (i : Nat) (m : MW), s.mws[i]? = some m ∧ m.err = none
  · exact (a.hT hl).nil0
  · exact (a.hF (fun i m hi he => hl ⟨i, m, hi, he⟩)).nil0

/-- C20 core: for every program, every fault script and every environment answer the pool
    bookkeeping is balanced, at most one message writer is live, and no buffer is held between
    messages. -/
theorem pool_balance (s0 : W) (h0 : Fresh s0) (ops : List Op) : Inv (run s0 ops) :=
  (run_inv s0 ops (SInv.of_fresh h0)).inv

/-- never a `put:nil`: the connection never hands the pool a buffer it does not hold -/
theorem no_nil_put (s0 : W) (h0 : Fresh s0) (ops : List Op) : Ev.poolPut none ∉ (run s0 ops).log :=
  not_mem_of_nilPuts _ (run_inv s0 ops (SInv.of_fresh h0)).nil0

end WS.PoolInv
