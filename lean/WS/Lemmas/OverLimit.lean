import WS.Lemmas.CutLogic
import WS.Lemmas.ReaderMore
import WS.Lemmas.LimitHistory
import WS.Lemmas.OverLimitAux
/-
  C06, second sentence, at the message level: a message exceeding the read limit L > 0 can never be
  read in full — reading it fails with ErrReadLimit and at most L of its bytes are delivered — whatever
  its fragmentation, interleaved control frames, role, chunking, bufio size and read size.
-/
namespace WS.OverLimit
open WS WS.Codec WS.ReaderDecodes WS.CutLogic WS.ReaderMore

/-- the whole over-limit message is on the wire (followed by anything): NextReader or the reads fail
    with ErrReadLimit, what was delivered before is a prefix of the payload of at most L bytes -/
theorem over_limit_never_complete (c : Conn) (hc : ReaderIdle c) (t : Nat) (ht : t = 1 ∨ t = 2)
    (fs : List PFrame) (hs : MsgShape t fs) (rest : Bytes)
    (hp : c.r.buf.pending = encAll c.r.isServer fs ++ rest)
    (hend : c.r.buf.t.together = false ∨ rest ≠ [])
    (hsz : (dataPayload fs).length < 2 ^ 62)
    (hL : 0 < c.r.limit) (hover : c.r.limit < ((dataPayload fs).length : Int))
    (hcnt : c.r.errCount + 1 < 1000) (k : Nat) (hk : 0 < k) :
    openAndRead c k = .failedOpen .readLimit ∨
    (∃ got, openAndRead c k = .failedRead t got .readLimit ∧ got <+: dataPayload fs ∧
        (got.length : Int) ≤ c.r.limit) := by
  have hst := idle_St c hc fs rest hp hend
  have hfuel : (WS.LimitHistoryAux.rst c).r.buf.pending.length < Conn.fuel (WS.LimitHistoryAux.rst c) := by
    have := hc.fuel
    show c.r.buf.pending.length < c.r.buf.total + c.r.buf.size + 2
    omega
  have hec := (WS.RobustAux.nextReaderLoop_spec (Conn.fuel (WS.LimitHistoryAux.rst c)) (WS.LimitHistoryAux.rst c)).1
  rcases WS.OverLimitAux.nextReaderLoop_over c.r.isServer t ht rest c.r.limit hL
      (Conn.fuel (WS.LimitHistoryAux.rst c)) (WS.LimitHistoryAux.rst c) fs hst hc.fin hs hend rfl rfl hover hsz hfuel with
    ⟨c1, b1, b2⟩ | ⟨c1, w1, m1, b1, b2, b3, b4⟩
  · left
    rw [b1] at hec
    have hec' : c1.r.errCount = c.r.errCount := hec
    have hne : c.r.readErr = none := hc.noErr
    have b1' : nextReaderLoop (Conn.fuel { c with r := { c.r with msgReader := none, length := 0 } })
        { c with r := { c.r with msgReader := none, length := 0 } } = (.err .readLimit, c1) := b1
    apply openAndRead_err c k .readLimit { c1 with r := { c1.r with errCount := c1.r.errCount + 1 } }
    unfold nextReader
    simp only [hne] at b1' ⊢
    simp only [b1']
    rw [if_neg (by simp only [hec']; omega)]
    simp only [b2, Option.getD_some]
  · right
    have hne : c.r.readErr = none := hc.noErr
    have b1' : nextReaderLoop (Conn.fuel { c with r := { c.r with msgReader := none, length := 0 } })
        { c with r := { c.r with msgReader := none, length := 0 } } = (.msg t c.r.nextId false, c1) := b1
    have hn : nextReader c = (.msg t c.r.nextId false, c1) := by
      unfold nextReader
      simp only [hne] at b1' ⊢
      simp only [b1']
    have hf : c1.r.buf.pending.length < c1.fuel + 2 := by
      have := b2.st.env.fuel
      unfold Conn.fuel; omega
    have hlim1 : c1.r.limit = c.r.limit := b2.lim
    obtain ⟨got, c2, d1, d2, d3⟩ := WS.OverLimitAux.readAllLoop_over c.r.isServer c.r.nextId k hk rest c.r.limit hL
      (c1.fuel + 2) c1 w1 m1 [] b2 hf
    refine ⟨got, ?_, by rw [← b3]; exact d2, by omega⟩
    apply openAndRead_failed c k t c.r.nextId false c1 c2 got .readLimit hn
    unfold readAll
    rw [d1]
    simp

end WS.OverLimit
