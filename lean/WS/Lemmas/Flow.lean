import WS.Model.Writer
import WS.Spec.Frame
import WS.Lemmas.Writer
import WS.Lemmas.Codec
import WS.Lemmas.Stream
import WS.Lemmas.WireInv
/-
  Model-side helper lemmas for C01/C02: on a healthy, fault-free connection every step of the
  plain (uncompressed) write path succeeds, and the bytes it appends to the wire are exactly the
  encoded frames one expects.
-/
namespace WS.Flow
open WS WS.Codec WS.Stream WS.WireInv

/-- everything the content theorems need to stay fixed (all but wire / writer / bookkeeping) -/
structure Keep (s s' : W) : Prop where
  isServer : s'.isServer = s.isServer
  wbufLen : s'.wbufLen = s.wbufLen
  pool : s'.pool = s.pool
  nego : s'.nego = s.nego
  writeErr : s'.writeErr = s.writeErr
  faults : s'.faults = s.faults
  mws : s'.mws = s.mws
  handles : s'.handles = s.handles

theorem Keep.refl (s : W) : Keep s s := ⟨rfl, rfl, rfl, rfl, rfl, rfl, rfl, rfl⟩

theorem Keep.trans {a b c : W} (h1 : Keep a b) (h2 : Keep b c) : Keep a c :=
  ⟨h2.isServer.trans h1.isServer, h2.wbufLen.trans h1.wbufLen, h2.pool.trans h1.pool, h2.nego.trans h1.nego,
   h2.writeErr.trans h1.writeErr, h2.faults.trans h1.faults, h2.mws.trans h1.mws, h2.handles.trans h1.handles⟩

theorem Keep.cap {s s' : W} (h : Keep s s') : s'.cap = s.cap := by
  unfold W.cap; rw [h.wbufLen]

theorem lookupFault_nil (s : W) (h : s.faults = []) : lookupFault s = none := by
  simp [lookupFault, h]

theorem tSetWD_ok (s : W) (d : Int) (h : s.faults = []) :
    (tSetWD s d).1 = none ∧ Keep s (tSetWD s d).2 ∧ (tSetWD s d).2.wire = s.wire ∧
    (tSetWD s d).2.writer = s.writer := by
  have heq : tSetWD s d = (none, emit { s with tcalls := s.tcalls + 1 } (.swd d none)) := by
    unfold tSetWD
    simp only [lookupFault_nil s h]
  rw [heq]
  exact ⟨rfl, ⟨rfl, rfl, rfl, rfl, rfl, rfl, rfl, rfl⟩, rfl, rfl⟩

theorem tWrite_ok (s : W) (b : Bytes) (h : s.faults = []) :
    (tWrite s b).1 = none ∧ Keep s (tWrite s b).2 ∧ (tWrite s b).2.wire = s.wire ++ b ∧
    (tWrite s b).2.writer = s.writer := by
  have heq : tWrite s b = (none, emit { s with tcalls := s.tcalls + 1, wire := s.wire ++ b } (.wr b b.length none)) := by
    unfold tWrite
    simp only [lookupFault_nil s h]
  rw [heq]
  exact ⟨rfl, ⟨rfl, rfl, rfl, rfl, rfl, rfl, rfl, rfl⟩, rfl, rfl⟩

theorem writeBufs_ok (s : W) (b0 b1 : Bytes) (h : s.faults = []) :
    (writeBufs s b0 b1).1 = none ∧ Keep s (writeBufs s b0 b1).2 ∧
    (writeBufs s b0 b1).2.wire = s.wire ++ (b0 ++ b1) ∧ (writeBufs s b0 b1).2.writer = s.writer := by
  unfold writeBufs
  split
  · rename_i h1
    have h1' : b1 = [] := by simpa using h1
    subst h1'
    simpa using tWrite_ok s b0 h
  · have h0 := tWrite_ok s b0 h
    split
    · rename_i e s1 heq
      rw [heq] at h0
      exact absurd h0.1 (by simp)
    · rename_i s1 heq
      rw [heq] at h0
      obtain ⟨_, hk, hw, hwr⟩ := h0
      dsimp only at hk hw hwr
      have h2 := tWrite_ok s1 b1 (hk.faults.trans h)
      refine ⟨h2.1, hk.trans h2.2.1, ?_, h2.2.2.2.trans hwr⟩
      rw [h2.2.2.1, hw, List.append_assoc]

/-- healthy, fault-free Conn.write of a non-close frame: appends exactly `b0 ++ b1` -/
theorem connWrite_ok (s : W) (ft d : Int) (b0 b1 : Bytes) (he : s.writeErr = none) (hf : s.faults = [])
    (hft : (ft == 8) = false) :
    (connWrite s ft d b0 b1).1 = none ∧ Keep s (connWrite s ft d b0 b1).2 ∧
    (connWrite s ft d b0 b1).2.wire = s.wire ++ (b0 ++ b1) ∧ (connWrite s ft d b0 b1).2.writer = s.writer := by
  unfold connWrite
  rw [he]
  dsimp only
  have h1 := tSetWD_ok s d hf
  split
  · rename_i e s1 heq
    rw [heq] at h1
    exact absurd h1.1 (by simp)
  · rename_i s1 heq
    rw [heq] at h1
    obtain ⟨_, hk1, hw1, hwr1⟩ := h1
    dsimp only at hk1 hw1 hwr1
    have h2 := writeBufs_ok s1 b0 b1 (hk1.faults.trans hf)
    split
    · rename_i e s2 heq2
      rw [heq2] at h2
      exact absurd h2.1 (by simp)
    · rename_i s2 heq2
      rw [heq2] at h2
      obtain ⟨_, hk2, hw2, hwr2⟩ := h2
      dsimp only at hk2 hw2 hwr2
      rw [hft]
      refine ⟨rfl, hk1.trans hk2, ?_, hwr2.trans hwr1⟩
      show s2.wire = _
      rw [hw2, hw1]

theorem Keep.emit (s : W) (e : Ev) : Keep s (emit s e) := ⟨rfl, rfl, rfl, rfl, rfl, rfl, rfl, rfl⟩
theorem Keep.newKey (s : W) : Keep s (newKey s).2 := ⟨rfl, rfl, rfl, rfl, rfl, rfl, rfl, rfl⟩

theorem Keep.poolPut (s : W) : Keep s (poolPut s) := by
  unfold WS.poolPut; split <;> exact ⟨rfl, rfl, rfl, rfl, rfl, rfl, rfl, rfl⟩

theorem Keep.poolGet (s : W) : Keep s (poolGet s) := by
  unfold WS.poolGet; split <;> exact ⟨rfl, rfl, rfl, rfl, rfl, rfl, rfl, rfl⟩

theorem poolGet_wire (s : W) : (poolGet s).wire = s.wire ∧ (poolGet s).writer = s.writer := by
  unfold WS.poolGet; split <;> exact ⟨rfl, rfl⟩

theorem poolPut_writer (s : W) : (poolPut s).writer = s.writer := by
  unfold WS.poolPut; split <;> rfl

theorem Keep.ensureBuf (s : W) : Keep s (ensureBuf s) := by
  unfold WS.ensureBuf; split
  · exact Keep.poolGet s
  · exact Keep.refl s

theorem ensureBuf_wire (s : W) : (ensureBuf s).wire = s.wire ∧ (ensureBuf s).writer = s.writer := by
  unfold WS.ensureBuf; split
  · exact poolGet_wire s
  · exact ⟨rfl, rfl⟩

theorem Keep.ctlKey (s : W) : Keep s (ctlKey s).2 := by
  unfold WS.ctlKey; split
  · exact Keep.refl s
  · exact Keep.newKey s

theorem ctlKey_wire (s : W) : (ctlKey s).2.wire = s.wire ∧ (ctlKey s).2.writer = s.writer := by
  unfold WS.ctlKey; split <;> exact ⟨rfl, rfl⟩

theorem Keep.endMessage (s : W) (m : MW) (e : WErr) : Keep s (endMessage s m e).1 := by
  unfold WS.endMessage
  split
  · exact Keep.refl s
  · dsimp only
    split
    · exact Keep.trans (b := { s with writer := none }) ⟨rfl, rfl, rfl, rfl, rfl, rfl, rfl, rfl⟩ (Keep.poolPut _)
    · exact ⟨rfl, rfl, rfl, rfl, rfl, rfl, rfl, rfl⟩

theorem endMessage_writer (s : W) (m : MW) (e : WErr) (hm : m.err = none) :
    (endMessage s m e).1.writer = none := by
  unfold WS.endMessage
  rw [hm]
  simp only [Option.isSome_none, Bool.false_eq_true, if_false]
  split
  · rw [poolPut_writer]
  · rfl

theorem endMessage_wire (s : W) (m : MW) (e : WErr) : (endMessage s m e).1.wire = s.wire :=
  core_wire (endMessage_core s m e)

/-! ### frame bookkeeping on the spec side -/

theorem msgs_nonfinal (cur : Option Spec.Msg) (sv : Bool) (b0 : Nat) (hb : b0 < 3) (key : Key) (payload : Bytes) :
    Spec.messagesAux cur [frameOf sv b0 key payload] = [] ∧
    Spec.controls [frameOf sv b0 key payload] = [] ∧
    curAfter cur [frameOf sv b0 key payload] =
      some (match cur with
        | some m => { m with payload := m.payload ++ payload }
        | none => { opcode := b0, compressed := false, payload := payload }) := by
  have : b0 = 0 ∨ b0 = 1 ∨ b0 = 2 := by omega
  rcases this with rfl | rfl | rfl <;>
    simp [Spec.messagesAux, Spec.controls, curAfter, frameOf, Spec.isControlOp] <;>
    cases cur <;> rfl

theorem msgs_final (cur : Option Spec.Msg) (sv : Bool) (b0 : Nat) (hb : b0 < 3) (key : Key) (payload : Bytes) :
    Spec.messagesAux cur [frameOf sv (b0 + 128) key payload] =
      [match cur with
        | some m => { m with payload := m.payload ++ payload }
        | none => { opcode := b0, compressed := false, payload := payload }] ∧
    Spec.controls [frameOf sv (b0 + 128) key payload] = [] ∧
    curAfter cur [frameOf sv (b0 + 128) key payload] = none := by
  have : b0 = 0 ∨ b0 = 1 ∨ b0 = 2 := by omega
  rcases this with rfl | rfl | rfl <;>
    simp [Spec.messagesAux, Spec.controls, curAfter, frameOf, Spec.isControlOp] <;>
    cases cur <;> rfl

theorem msgs_control (cur : Option Spec.Msg) (sv : Bool) (t : Nat) (ht : t = 9 ∨ t = 10) (key : Key) (data : Bytes) :
    Spec.messagesAux cur [frameOf sv (t + 128) key data] = [] ∧
    Spec.controls [frameOf sv (t + 128) key data] = [(t, data)] ∧
    curAfter cur [frameOf sv (t + 128) key data] = cur := by
  rcases ht with rfl | rfl <;>
    simp [Spec.messagesAux, Spec.controls, curAfter, frameOf, Spec.isControlOp]

/-! ### frameWrite / flushFrame on a healthy connection -/

theorem isControl_small (n : Nat) (h : n < 8) : isControl (n : Int) = false := by
  simp only [isControl, Gen.CloseMessage, Gen.PingMessage, Gen.PongMessage]
  simp
  omega

theorem ne8_small (n : Nat) (h : n < 8) : ((n : Int) == 8) = false := by
  simp
  omega

theorem frameWrite_ok (s : W) (m : MW) (final : Bool) (extra : Bytes) (he : s.writeErr = none)
    (hf : s.faults = []) (hft : m.ft < 8) (hc : m.compress = false)
    (hx : s.isServer = true ∨ extra = []) :
    ∃ key, (frameWrite s m final extra).1 = none ∧ Keep s (frameWrite s m final extra).2 ∧
      (frameWrite s m final extra).2.wire =
        s.wire ++ encode s.isServer (m.ft + (if final then 128 else 0)) key (m.buf ++ extra) ∧
      (frameWrite s m final extra).2.writer = s.writer := by
  have h1 : Gen.finalBit.toNat = 128 := by decide
  unfold frameWrite
  dsimp only
  split
  · rename_i hsv
    have h := connWrite_ok s m.ft s.deadline
      (header true (m.ft + (if final then Gen.finalBit.toNat else 0) + (if m.compress then Gen.rsv1Bit.toNat else 0))
        (m.buf.length + extra.length) default ++ m.buf) extra he hf (ne8_small _ hft)
    refine ⟨default, h.1, h.2.1, ?_, h.2.2.2⟩
    rw [h.2.2.1, hsv, hc, h1]
    simp [encode, List.length_append]
  · rename_i hsv
    have hsv' : s.isServer = false := by simpa using hsv
    have hex : extra = [] := by
      rcases hx with h | h
      · rw [h] at hsv'; cases hsv'
      · exact h
    subst hex
    simp only [List.isEmpty_nil, Bool.not_true, Bool.false_eq_true, if_false]
    have h := connWrite_ok (newKey s).2 m.ft (newKey s).2.deadline
      (header false (m.ft + (if final then Gen.finalBit.toNat else 0) + (if m.compress then Gen.rsv1Bit.toNat else 0))
        (m.buf.length + ([] : Bytes).length) (newKey s).1 ++ maskFrom (newKey s).1 0 m.buf) [] he hf (ne8_small _ hft)
    refine ⟨(newKey s).1, h.1, (Keep.newKey s).trans h.2.1, ?_, h.2.2.2⟩
    rw [h.2.2.1, hsv', hc, h1]
    simp [encode]
    rfl

/-- the messageWriter-level invariant while a data message of opcode `t` is being written:
    `M`, `C` = complete messages / control frames on the wire, `acc` = payload accepted so far -/
structure MidMW (s : W) (m : MW) (t : Nat) (M : List Spec.Msg) (C : List (Nat × Bytes)) (acc : Bytes) : Prop where
  healthy : s.writeErr = none
  noFaults : s.faults = []
  size : maxFrameHeaderSize < s.wbufLen ∧ s.wbufLen < 2 ^ 40
  err : m.err = none
  compress : m.compress = false
  buflen : m.buf.length ≤ s.cap
  wire : ∃ flushed, flushed ++ m.buf = acc ∧
    ((m.ft = t ∧ flushed = [] ∧ WireSt s.wire M C none) ∨
     (m.ft = 0 ∧ WireSt s.wire M C (some ⟨t, false, flushed⟩)))

theorem MidMW.ft_lt {s m t M C acc} (h : MidMW s m t M C acc) (ht : t = 1 ∨ t = 2) : m.ft < 3 := by
  obtain ⟨_, _, hw⟩ := h.wire
  rcases hw with ⟨h1, _⟩ | ⟨h1, _⟩ <;> omega

theorem MidMW.cap_lt {s m t M C acc} (h : MidMW s m t M C acc) : s.cap < 2 ^ 40 ∧ 0 < s.cap := by
  have := h.size
  unfold W.cap
  omega

theorem MidMW.congr {s s' m t M C acc} (h : MidMW s m t M C acc) (h1 : s'.writeErr = s.writeErr)
    (h2 : s'.faults = s.faults) (h3 : s'.wbufLen = s.wbufLen) (h4 : s'.wire = s.wire) : MidMW s' m t M C acc := by
  refine ⟨h1.trans h.healthy, h2.trans h.noFaults, by rw [h3]; exact h.size, h.err, h.compress, ?_, ?_⟩
  · unfold W.cap; rw [h3]; exact h.buflen
  · rw [h4]; exact h.wire

/-- appending a chunk that fits to the buffer -/
theorem MidMW.extend {s m t M C acc} (h : MidMW s m t M C acc) (chunk : Bytes)
    (hc : chunk.length ≤ s.cap - m.buf.length) :
    MidMW s { m with buf := m.buf ++ chunk } t M C (acc ++ chunk) := by
  refine ⟨h.healthy, h.noFaults, h.size, h.err, h.compress, ?_, ?_⟩
  · have := h.buflen
    simp only [List.length_append]; omega
  · obtain ⟨fl, hacc, hw⟩ := h.wire
    exact ⟨fl, by rw [← hacc, List.append_assoc], hw⟩

/-- a non-final flush in the middle of a message -/
theorem flush_mid {s m t M C acc} (h : MidMW s m t M C acc) (ht : t = 1 ∨ t = 2) (extra : Bytes)
    (hel : extra.length < 2 ^ 40) (hx : s.isServer = true ∨ extra = []) :
    (flushFrame s m false extra).1 = none ∧ Keep s (flushFrame s m false extra).2.1 ∧
    (flushFrame s m false extra).2.1.writer = s.writer ∧
    (flushFrame s m false extra).2.2.buf = [] ∧
    MidMW (flushFrame s m false extra).2.1 (flushFrame s m false extra).2.2 t M C (acc ++ extra) := by
  have hft := h.ft_lt ht
  have hcap := h.cap_lt
  have hbl := h.buflen
  obtain ⟨key, hfw⟩ := frameWrite_ok s m false extra h.healthy h.noFaults (by omega) h.compress hx
  unfold flushFrame
  rw [isControl_small m.ft (by omega)]
  simp only [Bool.false_and, Bool.false_eq_true, if_false]
  split
  · rename_i e s' heq
    rw [heq] at hfw
    exact absurd hfw.1 (by simp)
  · rename_i s' heq
    rw [heq] at hfw
    obtain ⟨_, hk, hw, hwr⟩ := hfw
    dsimp only at hk hw hwr
    refine ⟨rfl, hk, hwr, rfl, ?_⟩
    refine ⟨hk.writeErr.trans h.healthy, hk.faults.trans h.noFaults, by rw [hk.wbufLen]; exact h.size, h.err, rfl,
      by simp, ?_⟩
    show ∃ flushed, flushed ++ [] = acc ++ extra ∧ _
    have hlen : (m.buf ++ extra).length < 2 ^ 63 := by
      simp only [List.length_append]; omega
    simp only [Bool.false_eq_true, if_false, Nat.add_zero] at hw
    obtain ⟨fl, hacc, hws⟩ := h.wire
    rcases hws with ⟨hft1, hfl, hws⟩ | ⟨hft0, hws⟩
    · subst hfl
      have hfr := hws.frame s.isServer m.ft key (m.buf ++ extra) (by omega) hlen
      have hm := msgs_nonfinal none s.isServer m.ft hft key (m.buf ++ extra)
      rw [hm.1, hm.2.1, hm.2.2, List.append_nil, List.append_nil, ← hw] at hfr
      refine ⟨m.buf ++ extra, by rw [← hacc]; simp, Or.inr ⟨rfl, ?_⟩⟩
      rw [hft1] at hfr
      exact hfr
    · have hfr := hws.frame s.isServer m.ft key (m.buf ++ extra) (by omega) hlen
      have hm := msgs_nonfinal (some ⟨t, false, fl⟩) s.isServer m.ft hft key (m.buf ++ extra)
      rw [hm.1, hm.2.1, hm.2.2, List.append_nil, List.append_nil, ← hw] at hfr
      refine ⟨fl ++ (m.buf ++ extra), by rw [← hacc]; simp, Or.inr ⟨rfl, ?_⟩⟩
      exact hfr

/-- the final flush (Close) -/
theorem flush_final {s m t M C acc} (h : MidMW s m t M C acc) (ht : t = 1 ∨ t = 2) (extra : Bytes)
    (hel : extra.length < 2 ^ 40) (hx : s.isServer = true ∨ extra = []) :
    (flushFrame s m true extra).1 = none ∧ Keep s (flushFrame s m true extra).2.1 ∧
    (flushFrame s m true extra).2.1.writer = none ∧
    (flushFrame s m true extra).2.2.err.isSome ∧
    WireSt (flushFrame s m true extra).2.1.wire (M ++ [⟨t, false, acc ++ extra⟩]) C none := by
  have hft := h.ft_lt ht
  have hcap := h.cap_lt
  have hbl := h.buflen
  obtain ⟨key, hfw⟩ := frameWrite_ok s m true extra h.healthy h.noFaults (by omega) h.compress hx
  unfold flushFrame
  rw [isControl_small m.ft (by omega)]
  simp only [Bool.false_and, Bool.false_eq_true, if_false]
  split
  · rename_i e s' heq
    rw [heq] at hfw
    exact absurd hfw.1 (by simp)
  · rename_i s' heq
    rw [heq] at hfw
    obtain ⟨_, hk, hw, hwr⟩ := hfw
    dsimp only at hk hw hwr
    simp only [if_true]
    refine ⟨trivial, hk.trans (Keep.endMessage _ _ _), endMessage_writer _ _ _ h.err, endMessage_err _ _ _, ?_⟩
    rw [endMessage_wire]
    have hlen : (m.buf ++ extra).length < 2 ^ 63 := by
      simp only [List.length_append]; omega
    simp only [if_true] at hw
    obtain ⟨fl, hacc, hws⟩ := h.wire
    rcases hws with ⟨hft1, hfl, hws⟩ | ⟨hft0, hws⟩
    · subst hfl
      have hfr := hws.frame s.isServer (m.ft + 128) key (m.buf ++ extra) (by omega) hlen
      have hm := msgs_final none s.isServer m.ft hft key (m.buf ++ extra)
      rw [hm.1, hm.2.1, hm.2.2, List.append_nil, ← hw] at hfr
      rw [hft1] at hfr
      simp only [List.nil_append] at hacc
      rw [← hacc]
      exact hfr
    · have hfr := hws.frame s.isServer (m.ft + 128) key (m.buf ++ extra) (by omega) hlen
      have hm := msgs_final (some ⟨t, false, fl⟩) s.isServer m.ft hft key (m.buf ++ extra)
      rw [hm.1, hm.2.1, hm.2.2, List.append_nil, ← hw] at hfr
      rw [← hacc, List.append_assoc]
      exact hfr

theorem ncopyPrep_mid {s m t M C acc} (h : MidMW s m t M C acc) (ht : t = 1 ∨ t = 2) :
    (ncopyPrep s m).1 = none ∧ Keep s (ncopyPrep s m).2.1 ∧ (ncopyPrep s m).2.1.writer = s.writer ∧
    (ncopyPrep s m).2.2.buf.length < (ncopyPrep s m).2.1.cap ∧
    MidMW (ncopyPrep s m).2.1 (ncopyPrep s m).2.2 t M C acc := by
  unfold ncopyPrep
  split
  · have hf := flush_mid h ht [] (by simp) (Or.inr rfl)
    rw [List.append_nil] at hf
    refine ⟨hf.1, hf.2.1, hf.2.2.1, ?_, hf.2.2.2.2⟩
    rw [hf.2.2.2.1, hf.2.1.cap]
    exact h.cap_lt.2
  · rename_i hlt
    exact ⟨by simp, Keep.refl s, rfl, by dsimp only; omega, h⟩

theorem copyLoop_mid {s m t M C acc} (p : Bytes) (h : MidMW s m t M C acc) (ht : t = 1 ∨ t = 2) :
    (copyLoop s m p).1 = none ∧ Keep s (copyLoop s m p).2.1 ∧ (copyLoop s m p).2.1.writer = s.writer ∧
    MidMW (copyLoop s m p).2.1 (copyLoop s m p).2.2 t M C (acc ++ p) := by
  induction hl : p.length using Nat.strongRecOn generalizing s m p acc with
  | _ n ih =>
    unfold copyLoop
    split
    · rename_i hp
      subst hp
      rw [List.append_nil]
      exact ⟨rfl, Keep.refl s, rfl, h⟩
    · rename_i hp
      have hpre := ncopyPrep_mid h ht
      split
      · rename_i e s' m' heq
        rw [heq] at hpre
        exact absurd hpre.1 (by simp)
      · rename_i s' m' heq
        rw [heq] at hpre
        obtain ⟨_, hk, hwr, hlt, hmid⟩ := hpre
        dsimp only at hk hwr hlt hmid
        have hpl : p.length ≠ 0 := by simpa using hp
        split
        · rename_i hn
          omega
        · rename_i hn
          have hdl : (p.drop (min (s'.cap - m'.buf.length) p.length)).length < n := by
            simp only [List.length_drop]; omega
          have hext := hmid.extend (p.take (min (s'.cap - m'.buf.length) p.length))
            (by simp only [List.length_take]; omega)
          have := ih _ hdl _ hext rfl
          refine ⟨this.1, hk.trans this.2.1, this.2.2.1.trans hwr, ?_⟩
          have hfin := this.2.2.2
          rw [List.append_assoc, List.take_append_drop] at hfin
          exact hfin

theorem mwWrite_mid {s m t M C acc} (p : Bytes) (h : MidMW s m t M C acc) (ht : t = 1 ∨ t = 2)
    (hp : p.length < 2 ^ 40) :
    (mwWrite s m p).1 = none ∧ Keep s (mwWrite s m p).2.1 ∧ (mwWrite s m p).2.1.writer = s.writer ∧
    MidMW (mwWrite s m p).2.1 (mwWrite s m p).2.2 t M C (acc ++ p) := by
  unfold mwWrite
  rw [h.err]
  dsimp only
  split
  · rename_i hc
    have hsv : s.isServer = true := by
      simp only [Bool.and_eq_true] at hc; exact hc.2
    have hf := flush_mid h ht p hp (Or.inl hsv)
    exact ⟨hf.1, hf.2.1, hf.2.2.1, hf.2.2.2.2⟩
  · exact copyLoop_mid p h ht

theorem mwWriteString_mid {s m t M C acc} (p : Bytes) (h : MidMW s m t M C acc) (ht : t = 1 ∨ t = 2) :
    (mwWriteString s m p).1 = none ∧ Keep s (mwWriteString s m p).2.1 ∧
    (mwWriteString s m p).2.1.writer = s.writer ∧
    MidMW (mwWriteString s m p).2.1 (mwWriteString s m p).2.2 t M C (acc ++ p) := by
  unfold mwWriteString
  rw [h.err]
  exact copyLoop_mid p h ht

theorem mwClose_fin {s m t M C acc} (h : MidMW s m t M C acc) (ht : t = 1 ∨ t = 2) :
    (mwClose s m).1 = none ∧ Keep s (mwClose s m).2.1 ∧ (mwClose s m).2.1.writer = none ∧
    (mwClose s m).2.2.err.isSome ∧ WireSt (mwClose s m).2.1.wire (M ++ [⟨t, false, acc⟩]) C none := by
  unfold mwClose
  rw [h.err]
  dsimp only
  have := flush_final h ht [] (by simp) (Or.inr rfl)
  rw [List.append_nil] at this
  exact this

/-- WriteControl (ping / pong, ≤ 125 bytes, deadline not in the past) on a healthy connection -/
theorem writeControl_ok (s : W) (t : Nat) (ht : t = 9 ∨ t = 10) (data : Bytes) (hd : data.length ≤ 125) (d : Nat)
    (he : s.writeErr = none) (hf : s.faults = []) {M C cur} (hw : WireSt s.wire M C cur) :
    (writeControl s t data d).1 = none ∧ Keep s (writeControl s t data d).2 ∧
    (writeControl s t data d).2.writer = s.writer ∧
    WireSt (writeControl s t data d).2.wire M (C ++ [(t, data)]) cur := by
  have hctl : isControl (t : Int) = true := by
    rcases ht with rfl | rfl <;> decide
  have hmax : ¬ data.length > maxControlPayload := by
    have : maxControlPayload = 125 := by decide
    rw [this]; omega
  have hdn : ¬ ((d : Int) < 0) := by omega
  have hne : ((t : Int) == 8) = false := by
    rcases ht with rfl | rfl <;> decide
  unfold writeControl
  rw [hctl]
  simp only [Bool.not_true, Bool.false_eq_true, if_false, hmax, hdn, Int.toNat_natCast]
  have hk := Keep.ctlKey s
  have hkw := ctlKey_wire s
  have h := connWrite_ok (ctlKey s).2 t d (controlFrame s.isServer t data (ctlKey s).1) []
    (hk.writeErr.trans he) (hk.faults.trans hf) hne
  refine ⟨h.1, hk.trans h.2.1, h.2.2.2.trans hkw.2, ?_⟩
  rw [h.2.2.1, hkw.1, List.append_nil, controlFrame_eq' _ _ _ _ hd]
  have hfr := hw.frame s.isServer (t + 128) (ctlKey s).1 data (by omega) (by omega)
  have hm := msgs_control cur s.isServer t ht (ctlKey s).1 data
  rw [hm.1, hm.2.1, hm.2.2, List.append_nil] at hfr
  exact hfr

end WS.Flow
