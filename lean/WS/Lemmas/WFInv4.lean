import WS.Lemmas.WFInv3
/-
  C02 frame level, part 4: Close on a handle, NextWriter, and the API operations.
-/
namespace WS.WFInv
open WS WS.Spec WS.Codec WS.WFSpec

/-- the answers of the compress/flate environment used when closing handle `h` pass the two checks
    of `flateWriteWrapper.Close` (stream ends in 00 00 ff ff; its front is what went downstream) -/
def CloseEnvOK (s : W) (h : Nat) (dn : List Bytes) (full : Bytes) : Prop :=
  ∀ (i : Nat) (sent : Bytes), s.handles[h]? = some (Handle.flate i true none sent) →
    (full.length < 4 || full.drop (full.length - 4) != sync4) = false ∧
    (sent ++ dn.flatten != full.take (full.length - 4)) = false

theorem flushFrame_final_err (s : W) (m : MW) (extra : Bytes) : (flushFrame s m true extra).2.2.err.isSome := by
  unfold flushFrame
  split
  · exact endMessage_err _ _ _
  · split
    · exact endMessage_err _ _ _
    · simp only [if_true]
      exact endMessage_err _ _ _

theorem mwClose_err (s : W) (m : MW) : (mwClose s m).2.2.err.isSome := by
  unfold mwClose
  split
  · rename_i e he; rw [he]; rfl
  · exact flushFrame_final_err s m []

theorem good_setHandle_ended {c : Cfg} {s : W} {i : Nat} {m0 : MW} (x : Handle) (hg : Good c s)
    (hi : i < s.handles.length) (hm0 : s.mws[i]? = some m0) (he : m0.err.isSome) (hx : hidx x = i) :
    Good c (setHandle s i x) ∧ (s.writer = some i → AllEnded s.mws) := by
  have := good_core hg hm0 (setHandle s i x) m0 x hx
    (fun hl => by rw [hl] at he; cases he)
    (fun _ => ⟨⟨(set_same hm0).symm, List.length_set, List.getElem?_set_self hi,
      fun _ hj => List.getElem?_set_ne (fun h => hj h.symm)⟩, rfl, rfl, rfl,
      fun _ h => h.of_eq rfl rfl rfl rfl rfl rfl⟩)
  exact ⟨this.1, fun hw => this.2 hw he⟩

/-- the state after the feed step of `flateWriteWrapper.Close` -/
def closeS1 (s : W) (i : Nat) (m0 : MW) (dn : List Bytes) (sent : Bytes) : W :=
  setHandle (setMW (feed s m0 dn).2.1 i (feed s m0 dn).2.2) i
    (.flate i false (feed s m0 dn).1 (sent ++ dn.flatten))

theorem close_tail_good {c : Cfg} {s : W} {i : Nat} {m0 : MW} (dn : List Bytes) (sent : Bytes) (hg : Good c s)
    (hi : i < s.handles.length) (hm0 : s.mws[i]? = some m0) (hdn : ∀ x ∈ dn, x.length < 2 ^ 40) :
    Good c (setMW (mwClose (closeS1 s i m0 dn sent) (getMW (closeS1 s i m0 dn sent) i)).2.1 i
      (mwClose (closeS1 s i m0 dn sent) (getMW (closeS1 s i m0 dn sent) i)).2.2) ∧
    (s.writer = some i → AllEnded (setMW (mwClose (closeS1 s i m0 dn sent) (getMW (closeS1 s i m0 dn sent) i)).2.1 i
      (mwClose (closeS1 s i m0 dn sent) (getMW (closeS1 s i m0 dn sent) i)).2.2).mws) := by
  have hil : i < s.mws.length := lt_of_getElem? hm0
  have hE := mwClose_err (closeS1 s i m0 dn sent) (getMW (closeS1 s i m0 dn sent) i)
  have := good_core hg hm0
    (setMW (mwClose (closeS1 s i m0 dn sent) (getMW (closeS1 s i m0 dn sent) i)).2.1 i
      (mwClose (closeS1 s i m0 dn sent) (getMW (closeS1 s i m0 dn sent) i)).2.2)
    (mwClose (closeS1 s i m0 dn sent) (getMW (closeS1 s i m0 dn sent) i)).2.2
    (.flate i false (feed s m0 dn).1 (sent ++ dn.flatten)) rfl ?_ ?_
  · exact ⟨this.1, fun hw => this.2 hw hE⟩
  · intro hl o hI hM
    obtain ⟨⟨⟨o1, hI1, hM1⟩, hfr1, hwr1⟩, _, _⟩ := feed_post m0 dn hI hM hdn
    have hmws1 : (closeS1 s i m0 dn sent).mws = s.mws.set i (feed s m0 dn).2.2 := by
      show (feed s m0 dn).2.1.mws.set i _ = _; rw [hfr1.mws]
    have hhs1 : (closeS1 s i m0 dn sent).handles =
        s.handles.set i (.flate i false (feed s m0 dn).1 (sent ++ dn.flatten)) := by
      show (feed s m0 dn).2.1.handles.set i _ = _; rw [hfr1.handles]
    have hget : getMW (closeS1 s i m0 dn sent) i = (feed s m0 dn).2.2 :=
      getMW_eq (by rw [hmws1]; exact List.getElem?_set_self hil)
    rw [hget] at hE ⊢
    have hIS1 : Inn c (closeS1 s i m0 dn sent) o1 := hI1.of_eq rfl rfl rfl rfl rfl rfl
    obtain ⟨⟨⟨o2, hI2, hM2⟩, hfr2, _⟩, _⟩ := mwClose_post (feed s m0 dn).2.2 hIS1 hM1
    refine ⟨⟨?_, ?_, ?_, ?_⟩, fun _ _ _ _ _ _ => hE, ⟨o2, hI2.of_eq rfl rfl rfl rfl rfl rfl, hM2⟩, ?_⟩
    · show (mwClose _ _).2.1.mws.set i _ = _
      rw [hfr2.mws, hmws1, List.set_set]
    · show (mwClose _ _).2.1.handles.length = _
      rw [hfr2.handles, hhs1, List.length_set]
    · show (mwClose _ _).2.1.handles[i]? = _
      rw [hfr2.handles, hhs1]; exact List.getElem?_set_self hi
    · intro j hj
      show (mwClose _ _).2.1.handles[j]? = _
      rw [hfr2.handles, hhs1]; exact List.getElem?_set_ne (fun h => hj h.symm)
    · intro hx; rw [hx] at hE; cases hE
  · intro he
    have hF := feed_ended s m0 dn he
    have hmws1 : (closeS1 s i m0 dn sent).mws = s.mws.set i m0 := by
      show (feed s m0 dn).2.1.mws.set i (feed s m0 dn).2.2 = _; rw [hF.1, hF.2]
    have hhs1 : (closeS1 s i m0 dn sent).handles =
        s.handles.set i (.flate i false (feed s m0 dn).1 (sent ++ dn.flatten)) := by
      show (feed s m0 dn).2.1.handles.set i _ = _; rw [hF.1]
    have hget : getMW (closeS1 s i m0 dn sent) i = m0 :=
      getMW_eq (by rw [hmws1]; exact List.getElem?_set_self hil)
    rw [hget]
    have hC := mwClose_ended (closeS1 s i m0 dn sent) m0 he
    rw [hC.1, hC.2]
    refine ⟨⟨?_, ?_, ?_, ?_⟩, rfl, ?_, ?_, ?_⟩
    · show (closeS1 s i m0 dn sent).mws.set i m0 = _
      rw [hmws1, List.set_set]
    · show (closeS1 s i m0 dn sent).handles.length = _
      rw [hhs1, List.length_set]
    · show (closeS1 s i m0 dn sent).handles[i]? = _
      rw [hhs1]; exact List.getElem?_set_self hi
    · intro j hj
      show (closeS1 s i m0 dn sent).handles[j]? = _
      rw [hhs1]; exact List.getElem?_set_ne (fun h => hj h.symm)
    · show (feed s m0 dn).2.1.writer = _; rw [hF.1]
    · show (feed s m0 dn).2.1.writeErr = _; rw [hF.1]
    · intro o hI
      have : Inn c (feed s m0 dn).2.1 o := by rw [hF.1]; exact hI
      exact this.of_eq rfl rfl rfl rfl rfl rfl

theorem hClose_good {c : Cfg} {s : W} (j : Nat) (dn : List Bytes) (full : Bytes) (hg : Good c s)
    (hdn : ∀ x ∈ dn, x.length < 2 ^ 40) (henv : CloseEnvOK s j dn full) :
    Good c (hClose s j dn full).2 ∧ (s.writer = some j → AllEnded (hClose s j dn full).2.mws) := by
  unfold hClose
  split
  · rename_i heq
    refine ⟨hg, fun hw => ?_⟩
    obtain ⟨o, _, hH, hL⟩ := hg
    rw [hw] at hL
    refine hL.allEnded (fun m hm => ?_)
    have hj : j < s.handles.length := by rw [hH.len]; exact lt_of_getElem? hm
    rw [List.getElem?_eq_getElem hj] at heq
    cases heq
  · rename_i i heq
    obtain ⟨hij, m0, hm0⟩ := hg.handle heq
    simp only [hidx] at hij
    subst hij
    rw [getMW_eq hm0]
    show Good c (setMW (mwClose s m0).2.1 i (mwClose s m0).2.2) ∧
      (s.writer = some i → AllEnded (setMW (mwClose s m0).2.1 i (mwClose s m0).2.2).mws)
    have hE := mwClose_err s m0
    have := good_core hg hm0 (setMW (mwClose s m0).2.1 i (mwClose s m0).2.2) (mwClose s m0).2.2 (.plain i) rfl
      ?_ ?_
    · exact ⟨this.1, fun hw => this.2 hw hE⟩
    · intro hl o hI hM
      have hpost := mwClose_post m0 hI hM
      have := core_of_post (i := i) hpost.1 heq
      exact ⟨this.1, fun _ _ _ _ hx => (by cases hx), this.2.1, this.2.2⟩
    · intro he
      have hC := mwClose_ended s m0 he
      rw [hC.1, hC.2]
      exact end_core heq
  · rename_i i fo de sent heq
    obtain ⟨hij, m0, hm0⟩ := hg.handle heq
    simp only [hidx] at hij
    subst hij
    have hi : i < s.handles.length := lt_of_getElem? heq
    have hclosed : (de.isSome ∨ fo = false) → m0.err.isSome := by
      intro hc
      obtain ⟨o, _, hH, _⟩ := hg
      exact hH.closed _ _ _ _ _ _ heq hc hm0
    have hwall : m0.err.isSome → s.writer = some i → AllEnded s.mws := by
      intro he hw
      obtain ⟨o, _, _, hL⟩ := hg
      rw [hw] at hL
      exact hL.allEnded (fun m hm => by rw [hm0] at hm; cases hm; exact he)
    split
    · rename_i hfo
      have hfo' : fo = false := by simpa using hfo
      exact ⟨hg, hwall (hclosed (Or.inr hfo'))⟩
    · rename_i hfo
      have hfo' : fo = true := by simpa using hfo
      subst hfo'
      split
      · rename_i e
        exact good_setHandle_ended _ hg hi hm0 (hclosed (Or.inl rfl)) rfl
      · rw [getMW_eq hm0]
        dsimp only
        have hck := henv i sent heq
        split
        · rename_i e he1
          -- feed failed: the messageWriter has ended
          have := good_core hg hm0
            (setHandle (setMW (feed s m0 dn).2.1 i (feed s m0 dn).2.2) i
              (.flate i false (feed s m0 dn).1 (sent ++ dn.flatten)))
            (feed s m0 dn).2.2 (.flate i false (feed s m0 dn).1 (sent ++ dn.flatten)) rfl ?_ ?_
          · refine ⟨this.1, fun hw => this.2 hw ?_⟩
            cases hme : m0.err with
            | some e0 => rw [(feed_ended s m0 dn (by rw [hme]; rfl)).2, hme]; rfl
            | none =>
              obtain ⟨o, hI, _, hL⟩ := hg
              rcases hL with ⟨i1, m1, hm1, hl1, hw1, hr1, ho1⟩ | ⟨ha, _⟩
              · by_cases hii : i = i1
                · subst hii
                  rw [hm0] at hm1; cases hm1
                  exact (feed_post m0 dn hI hr1 hdn).2.1 (by rw [he1]; rfl)
                · have := ho1 i m0 hii hm0
                  rw [hme] at this; cases this
              · have := ha i m0 hm0
                rw [hme] at this; cases this
          · intro hl o hI hM
            have hpost := feed_post m0 dn hI hM hdn
            have := core_of_post_h (i := i) (.flate i false (feed s m0 dn).1 (sent ++ dn.flatten)) hpost.1 hi
            refine ⟨this.1, ?_, this.2.1, this.2.2⟩
            intro _ _ _ _ _ _
            exact hpost.2.1 (by rw [he1]; rfl)
          · intro he
            have hE := feed_ended s m0 dn he
            rw [hE.1, hE.2]
            exact end_core_h _ hi
        · rename_i he1
          split
          · rename_i hbad
            rw [hck.1] at hbad; cases hbad
          · split
            · rename_i hbad
              rw [hck.2] at hbad; cases hbad
            · exact close_tail_good dn sent hg hi hm0 hdn

def PrevEnvOK (s : W) (dnp : List Bytes) (fullp : Bytes) : Prop :=
  ∀ h, s.writer = some h → CloseEnvOK s h dnp fullp

theorem Good.congr {c : Cfg} {s s' : W} (hg : Good c s) (h1 : s'.isServer = s.isServer)
    (h2 : s'.nego = s.nego) (h3 : s'.wbufLen = s.wbufLen) (h4 : s'.faults = s.faults)
    (h5 : s'.wire = s.wire) (h6 : s'.writeErr = s.writeErr) (h7 : s'.mws = s.mws)
    (h8 : s'.handles = s.handles) (h9 : s'.writer = s.writer) : Good c s' := by
  obtain ⟨o, hI, hH, hL⟩ := hg
  exact ⟨o, hI.of_eq h1 h2 h3 h4 h5 h6, by rw [h7, h8]; exact hH, by rw [h7, h9, h6]; exact hL⟩

theorem good_clearWriter {c : Cfg} {s : W} (hg : Good c s) (ha : AllEnded s.mws) : Good c (clearWriter s) := by
  obtain ⟨o, hI, hH, hL⟩ := hg
  exact ⟨o, hI.of_eq rfl rfl rfl rfl rfl rfl, hH, Or.inr ⟨ha, hL.ofalse ha⟩⟩

theorem closePrev_good {c : Cfg} {s : W} (dnp : List Bytes) (fullp : Bytes) (hg : Good c s)
    (hdn : ∀ x ∈ dnp, x.length < 2 ^ 40) (henv : PrevEnvOK s dnp fullp) :
    Good c (closePrev s dnp fullp) ∧ AllEnded (closePrev s dnp fullp).mws ∧
    (closePrev s dnp fullp).writer = none := by
  unfold closePrev
  split
  · rename_i h heq
    have := hClose_good h dnp fullp hg hdn (henv h heq)
    exact ⟨good_clearWriter this.1 (this.2 heq), this.2 heq, rfl⟩
  · rename_i heq
    refine ⟨hg, ?_, heq⟩
    obtain ⟨o, _, _, hL⟩ := hg
    rw [heq] at hL
    exact hL.allEnded_none

theorem ensureBuf_good {c : Cfg} {s : W} (hg : Good c s) :
    Good c (ensureBuf s) ∧ (ensureBuf s).mws = s.mws ∧ (ensureBuf s).writer = s.writer ∧
    (ensureBuf s).writeErr = s.writeErr ∧ (ensureBuf s).nego = s.nego := by
  unfold ensureBuf
  split
  · unfold poolGet
    split <;> exact ⟨hg.congr rfl rfl rfl rfl rfl rfl rfl rfl rfl, rfl, rfl, rfl, rfl⟩
  · exact ⟨hg, rfl, rfl, rfl, rfl⟩

theorem opset_of_type (t : Int) (h : ¬ (!isControl t && !isData t) = true) :
    (t.toNat = 8 ∨ t.toNat = 9 ∨ t.toNat = 10) ∧ isData t = false ∨
    (t.toNat = 1 ∨ t.toNat = 2) ∧ isData t = true := by
  simp only [isControl, isData, Gen.CloseMessage, Gen.PingMessage, Gen.PongMessage, Gen.TextMessage,
    Gen.BinaryMessage] at h ⊢
  simp at h ⊢
  omega

theorem beginMessage_good {c : Cfg} {s : W} (t : Int) (dnp : List Bytes) (fullp : Bytes) (hg : Good c s)
    (hdn : ∀ x ∈ dnp, x.length < 2 ^ 40) (henv : PrevEnvOK s dnp fullp) :
    Good c (beginMessage s t dnp fullp).2 ∧ AllEnded (beginMessage s t dnp fullp).2.mws ∧
    (beginMessage s t dnp fullp).2.writer = none ∧
    ∀ m, (beginMessage s t dnp fullp).1 = .ok m →
      m = { ft := t.toNat } ∧ (beginMessage s t dnp fullp).2.writeErr = none ∧
      ((t.toNat = 8 ∨ t.toNat = 9 ∨ t.toNat = 10) ∧ isData t = false ∨
       (t.toNat = 1 ∨ t.toNat = 2) ∧ isData t = true) := by
  unfold beginMessage
  have hp := closePrev_good dnp fullp hg hdn henv
  unfold beginMessage'
  split
  · exact ⟨hp.1, hp.2.1, hp.2.2, fun m hm => by cases hm⟩
  · rename_i ht
    split
    · exact ⟨hp.1, hp.2.1, hp.2.2, fun m hm => by cases hm⟩
    · rename_i hwe
      have he := ensureBuf_good hp.1
      refine ⟨he.1, by rw [he.2.1]; exact hp.2.1, by rw [he.2.2.1]; exact hp.2.2, fun m hm => ?_⟩
      cases hm
      exact ⟨rfl, by rw [he.2.2.2.1]; exact hwe, opset_of_type t ht⟩

/-- NextWriter's bookkeeping: a fresh live messageWriter with its handle -/
theorem good_push {c : Cfg} {s : W} (hg : Good c s) (ha : AllEnded s.mws) (hwe : s.writeErr = none)
    (m : MW) (hl : m.err = none) (hst : Struct c m) (hft : m.ft ≠ 0) (x : Handle) (hx : hidx x = s.mws.length)
    (hxc : ∀ (i : Nat) (fo : Bool) (derr : Option WErr) (sent : Bytes), x = Handle.flate i fo derr sent →
      ¬ (derr.isSome ∨ fo = false)) :
    Good c { s with mws := s.mws ++ [m], handles := s.handles ++ [x], writer := some s.handles.length } := by
  obtain ⟨o, hI, hH, hL⟩ := hg
  have ho : o = false := hL.ofalse ha hwe
  subst ho
  refine ⟨false, hI.of_eq rfl rfl rfl rfl rfl rfl, ⟨?_, ?_, ?_⟩, Or.inl ⟨s.mws.length, m, ?_, hl, ?_, ?_, ?_⟩⟩
  · show (s.handles ++ [x]).length = (s.mws ++ [m]).length
    simp only [List.length_append, List.length_singleton, hH.len]
  · intro h y hy
    show hidx y = h
    have hy' : (s.handles ++ [x])[h]? = some y := hy
    by_cases hh : h < s.handles.length
    · rw [List.getElem?_append_left hh] at hy'
      exact hH.idx h y hy'
    · have hlt := lt_of_getElem? hy'
      simp only [List.length_append, List.length_singleton] at hlt
      have : h = s.handles.length := by omega
      subst this
      rw [List.getElem?_concat_length] at hy'
      cases hy'
      rw [hx, hH.len]
  · intro h i fo derr sent m' hh hc hm'
    have hh' : (s.handles ++ [x])[h]? = some (Handle.flate i fo derr sent) := hh
    have hm'' : (s.mws ++ [m])[i]? = some m' := hm'
    by_cases hlt : h < s.handles.length
    · rw [List.getElem?_append_left hlt] at hh'
      have hi : i = h := hH.idx h _ hh'
      subst hi
      rw [List.getElem?_append_left (by rw [← hH.len]; exact hlt)] at hm''
      exact hH.closed _ _ _ _ _ _ hh' hc hm''
    · have hlt' := lt_of_getElem? hh'
      simp only [List.length_append, List.length_singleton] at hlt'
      have : h = s.handles.length := by omega
      subst this
      rw [List.getElem?_concat_length] at hh'
      cases hh'
      exact absurd hc (hxc _ _ _ _ rfl)
  · exact List.getElem?_concat_length
  · show some s.handles.length = some s.mws.length
    rw [hH.len]
  · exact ⟨fun _ => ⟨hst, fun _ => ⟨fun h => absurd h hft, fun h => by cases h⟩⟩,
      fun he => by rw [hl] at he; cases he⟩
  · intro j m' hj hm'
    have hm'' : (s.mws ++ [m])[j]? = some m' := hm'
    have hlt := lt_of_getElem? hm''
    simp only [List.length_append, List.length_singleton] at hlt
    rw [List.getElem?_append_left (by omega)] at hm''
    exact ha j m' hm''

theorem nextWriter_good {c : Cfg} {s : W} (t : Int) (dnp : List Bytes) (fullp : Bytes) (hg : Good c s)
    (hdn : ∀ x ∈ dnp, x.length < 2 ^ 40) (henv : PrevEnvOK s dnp fullp) :
    Good c (nextWriter s t dnp fullp).2 := by
  unfold nextWriter
  have hb := beginMessage_good t dnp fullp hg hdn henv
  split
  · rename_i e s' heq
    rw [heq] at hb; exact hb.1
  · rename_i m s' heq
    rw [heq] at hb
    obtain ⟨hg', ha', hw', hm'⟩ := hb
    obtain ⟨rfl, hwe', ht⟩ := hm' m rfl
    dsimp only at hg' ha' hw' hwe'
    have hng : s'.nego = c.ng := by obtain ⟨o, hI, _⟩ := hg'; exact hI.nego
    obtain ⟨o, hI, hH, _⟩ := id hg'
    have hft0 : t.toNat ≠ 0 := by omega
    have hops : OpSet t.toNat := by unfold OpSet; omega
    dsimp only
    split
    · rename_i hcond
      simp only [Bool.and_eq_true] at hcond
      obtain ⟨⟨hn, _⟩, hd⟩ := hcond
      have hdata : t.toNat = 1 ∨ t.toNat = 2 := by
        rcases ht with ⟨_, h⟩ | ⟨h, _⟩
        · rw [hd] at h; cases h
        · exact h
      exact good_push hg' ha' hwe' { ft := t.toNat, compress := true } rfl
        ⟨hops, fun _ => ⟨hdata, by rw [← hng]; exact hn⟩, Nat.zero_le _⟩ hft0 _ rfl
        (fun i fo derr sent hx => by cases hx; simp)
    · exact good_push hg' ha' hwe' { ft := t.toNat } rfl
        ⟨hops, fun hx => (by cases hx), Nat.zero_le _⟩ hft0 _ rfl
        (fun i fo derr sent hx => by cases hx)

end WS.WFInv
