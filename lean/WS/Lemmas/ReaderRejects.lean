import WS.Model.Reader
import WS.Spec.Frame
import WS.Lemmas.Mask
import WS.Lemmas.Codec
import WS.Lemmas.SrcLaw
import WS.Lemmas.HdrLogic
import WS.Lemmas.Writer
/-
  C04 / C05 / C06 / C08 (decision core of the reader): a framing violation, a read-limit breach or a
  received close frame ends reading with a permanent error, delivers nothing of the offending frame
  to the application or to a handler, and (where the property says so) writes exactly one close
  frame with the right status; errors are sticky.

  The byte source is the bufio model; use its stream law (WS/Lemmas/SrcLaw.lean: take_ok, take_short,
  read_spec, skip_ok, skip_short) and `headerErrors_nil_iff` / `closecode_spec` of WS/Lemmas/HdrLogic.lean.

-/
namespace WS.ReaderRejects
open WS WS.SrcLaw WS.HdrLogic

/-- a reader positioned at a frame boundary (possibly inside a fragmented message: `final = false`) -/
structure AtBoundary (c : Conn) : Prop where
  noErr : c.r.readErr = none
  rem : c.r.remaining = 0
  wf : WF c.r.buf
  size : 125 ≤ c.r.buf.size

/-- the write side is healthy and fault-free, so a best-effort close frame actually goes out -/
def WHealthy (w : W) : Prop := w.writeErr = none ∧ w.faults = []

/-- the control frame `writeControl` puts on the wire for this connection (key drawn from the key source) -/
def closeFrameBytes (w : W) (payload : Bytes) : Bytes := controlFrame w.isServer 8 payload (ctlKey w).1

/-! ### helper lemmas -/

theorem ctlKey_fields (w : W) : (ctlKey w).2.writeErr = w.writeErr ∧ (ctlKey w).2.faults = w.faults ∧
    (ctlKey w).2.wire = w.wire ∧ (ctlKey w).2.isServer = w.isServer := by
  unfold ctlKey; split
  · exact ⟨rfl, rfl, rfl, rfl⟩
  · exact ⟨rfl, rfl, rfl, rfl⟩

theorem lookupFault_nil (s : W) (h : s.faults = []) : lookupFault s = none := by
  simp [lookupFault, h]

theorem tSetWD_healthy (s : W) (d : Int) (hf : s.faults = []) :
    tSetWD s d = (none, emit { s with tcalls := s.tcalls + 1 } (.swd d none)) := by
  unfold tSetWD
  simp only [lookupFault_nil s hf]

theorem tWrite_healthy (s : W) (b : Bytes) (hf : s.faults = []) :
    tWrite s b = (none, emit { s with tcalls := s.tcalls + 1, wire := s.wire ++ b } (.wr b b.length none)) := by
  unfold tWrite
  simp only [lookupFault_nil s hf]

theorem connWrite_healthy (s : W) (ft d : Int) (b : Bytes) (he : s.writeErr = none) (hf : s.faults = []) :
    (connWrite s ft d b []).2.wire = s.wire ++ b ∧
    (connWrite s ft d b []).2.writeErr = (if ft == 8 then some .closeSent else none) ∧
    (connWrite s ft d b []).2.isServer = s.isServer := by
  unfold connWrite
  simp only [he, tSetWD_healthy s d hf, writeBufs, List.isEmpty_nil, if_true]
  rw [tWrite_healthy _ _ (by exact hf)]
  simp only []
  split
  · simp [writeFatal, emit]
  · simp [emit]

theorem writeControl_healthy (w : W) (t : Int) (data : Bytes) (hw : WHealthy w)
    (ht : isControl t = true) (hd : data.length ≤ 125) :
    (writeControl w t data writeWaitDeadline).2.wire = w.wire ++ controlFrame w.isServer t.toNat data (ctlKey w).1 ∧
    (writeControl w t data writeWaitDeadline).2.writeErr = (if t == 8 then some .closeSent else none) := by
  have hm : maxControlPayload = 125 := by decide
  obtain ⟨k1, k2, k3, k4⟩ := ctlKey_fields w
  unfold writeControl
  have h1 : ¬ data.length > 125 := by omega
  have h2 : ¬ (1000000 : Int) < 0 := by decide
  simp only [ht, Bool.not_true, Bool.false_eq_true, if_false, hm, h1, writeWaitDeadline, h2]
  have := connWrite_healthy (ctlKey w).2 t 1000000 (controlFrame w.isServer t.toNat data (ctlKey w).1)
    (k1.trans hw.1) (k2.trans hw.2)
  rw [k3] at this
  exact ⟨this.1, this.2.1⟩

theorem take_eq (b : Buf) (h : WF b) (n : Nat) (hn : n ≤ b.size) (pre rest : Bytes)
    (hp : b.pending = pre ++ rest) (hl : pre.length = n) :
    ∃ b', b.take n = (pre, none, b') ∧ b'.pending = rest ∧ WF b' ∧ b'.size = b.size := by
  obtain ⟨t1, t2, t3, t4, t5⟩ := take_ok b h n hn (by rw [hp, List.length_append]; omega)
  refine ⟨(b.take n).2.2, ?_, ?_, t4, t5.1⟩
  · rw [hp, List.take_left' hl] at t1
    rw [← t1, ← t2]
  · rw [t3, hp, List.drop_left' hl]

theorem errs_empty (isServer nego final : Bool) (h : Hdr) (hok : ¬ Violates isServer nego (!final) h) :
    (!(headerErrors isServer nego final h).isEmpty) = false := by
  rw [(headerErrors_nil_iff isServer nego final h).mpr hok]; rfl

theorem toNat_ofNat_lt (n : Nat) (h : n < 256) : (UInt8.ofNat n).toNat = n := by
  simp [UInt8.toNat_ofNat']; omega

theorem parseHdr_ctl (b0 : UInt8) (n : Nat) (hn : n ≤ 125) :
    parseHdr b0 (UInt8.ofNat n) = Hdr.mk (b0.toNat % 16) (decide (b0.toNat / 128 % 2 = 1))
      (decide (b0.toNat / 64 % 2 = 1)) (decide (b0.toNat / 32 % 2 = 1))
      (decide (b0.toNat / 16 % 2 = 1)) false n := by
  unfold parseHdr
  rw [toNat_ofNat_lt n (by omega)]
  have h1 : n / 128 % 2 = 0 := by omega
  have h2 : n % 128 = n := by omega
  simp [h1, h2]

theorem ctlKey_emit (w : W) (e : Ev) : (ctlKey (emit w e)).1 = (ctlKey w).1 := by
  unfold ctlKey emit newKey
  simp only []
  split <;> rfl

theorem closePayload_nil_len (code : Nat) : (closePayload code []).length ≤ 125 := by
  unfold closePayload
  split
  · simp
  · simp

theorem sendTooBig_healthy (c : Conn) (hw : WHealthy c.w) :
    (sendTooBig c).r = c.r ∧
    (sendTooBig c).w.wire = c.w.wire ++ closeFrameBytes c.w (closePayload 1009 []) ∧
    (sendTooBig c).w.writeErr = some .closeSent := by
  have h1009 : Gen.CloseMessageTooBig.toNat = 1009 := by decide
  have hwc := writeControl_healthy c.w 8 (closePayload 1009 []) hw (by decide) (closePayload_nil_len 1009)
  unfold sendTooBig
  rw [h1009]
  exact ⟨rfl, hwc.1, hwc.2⟩

theorem wrap64_neg (x : Nat) (h1 : 2 ^ 63 ≤ x) (h2 : x < 2 ^ 64) : wrap64 (x : Int) < 0 := by
  unfold wrap64 two63 two64
  omega

theorem wrap64_id (x : Int) (h0 : 0 ≤ x) (h1 : x < 2 ^ 63) : wrap64 x = x := by
  unfold wrap64 two63 two64
  omega

theorem mask_of_ok (isServer nego inMsg : Bool) (h : Hdr) (hok : ¬ Violates isServer nego inMsg h) :
    h.mask = isServer := by
  unfold Violates at hok
  cases hm : h.mask <;> cases isServer <;> simp_all

/-- C04: the first two bytes of the next frame violate the framing rules ⇒ advanceFrame fails with a
    protocol error, no handler runs, exactly one close frame with status 1002 (and a reason cut to
    125 bytes) is written, and the frame's own payload is never looked at. -/
theorem header_violation_rejected (c : Conn) (hc : AtBoundary c) (hw : WHealthy c.w) (b0 b1 : UInt8) (rest : Bytes)
    (hp : c.r.buf.pending = b0 :: b1 :: rest)
    (hv : Violates c.r.isServer c.r.nego (!c.r.final) (parseHdr b0 b1)) :
    ∃ msg c', advanceFrame c = (.error (.protocol msg), c') ∧
      c'.r.hlog = c.r.hlog ∧ c'.r.buf.pending = rest ∧
      c'.w.wire = c.w.wire ++ closeFrameBytes c.w ((closePayload 1002 (strBytes msg)).take 125) ∧
      c'.w.writeErr = some .closeSent := by
  obtain ⟨b', hT, hb1, hb2, hb3⟩ := take_eq c.r.buf hc.wf 2 (by have := hc.size; omega) [b0, b1] rest hp rfl
  have hrem : ¬ c.r.remaining > 0 := by rw [hc.rem]; decide
  unfold advanceFrame
  have hne : (!(headerErrors c.r.isServer c.r.nego c.r.final (parseHdr b0 b1)).isEmpty) = true := by
    have h := headerErrors_nil_iff c.r.isServer c.r.nego c.r.final (parseHdr b0 b1)
    cases hh : headerErrors c.r.isServer c.r.nego c.r.final (parseHdr b0 b1) with
    | nil => exact absurd hv (h.mp hh)
    | cons _ _ => rfl
  simp only [hrem, if_false, hT, hne, if_true]
  unfold handleProtocolError
  simp only []
  have hm : maxControlPayload = 125 := by decide
  have h1002 : Gen.CloseProtocolError.toNat = 1002 := by decide
  rw [hm, h1002]
  refine ⟨_, _, rfl, rfl, hb1, ?_, ?_⟩
  · exact (writeControl_healthy c.w 8 _ hw (by decide) (by rw [List.length_take]; omega)).1
  · exact (writeControl_healthy c.w 8 _ hw (by decide) (by rw [List.length_take]; omega)).2

/-- C04 / C06: a 64-bit length with the top bit set is refused with ErrReadLimit before any payload
    is looked at; no handler runs; a best-effort 1009 close frame is written (not a 1002) -/
theorem topbit_length_rejected (c : Conn) (hc : AtBoundary c) (hw : WHealthy c.w) (b0 b1 : UInt8) (ext rest : Bytes)
    (hp : c.r.buf.pending = b0 :: b1 :: ext ++ rest) (hext : ext.length = 8)
    (hok : ¬ Violates c.r.isServer c.r.nego (!c.r.final) (parseHdr b0 b1))
    (h127 : (parseHdr b0 b1).len7 = 127) (htop : 2 ^ 63 ≤ beVal ext) :
    ∃ c', advanceFrame c = (.error .readLimit, c') ∧ c'.r.hlog = c.r.hlog ∧ c'.r.buf.pending = rest ∧
      c'.w.wire = c.w.wire ++ closeFrameBytes c.w (closePayload 1009 []) ∧ c'.w.writeErr = some .closeSent := by
  have hsz := hc.size
  obtain ⟨b', hT, hb1, hb2, hb3⟩ := take_eq c.r.buf hc.wf 2 (by omega) [b0, b1] (ext ++ rest) (by rw [hp]; simp) rfl
  obtain ⟨b'', hT2, hc1, hc2, hc3⟩ := take_eq b' hb2 8 (by omega) ext rest hb1 hext
  have hrem : ¬ c.r.remaining > 0 := by rw [hc.rem]; decide
  have herr := errs_empty c.r.isServer c.r.nego c.r.final (parseHdr b0 b1) hok
  have h126 : ((127 : Nat) = 126) = False := by simp
  have hlt : beVal ext < 2 ^ 64 := by have := beVal_lt ext; rw [hext] at this; exact this
  have hneg := wrap64_neg (beVal ext) htop hlt
  unfold advanceFrame
  simp only [hrem, if_false, hT, herr, Bool.false_eq_true, h126, h127, if_true, hT2, hneg]
  exact ⟨_, rfl, rfl, hc1, (sendTooBig_healthy _ hw).2.1, (sendTooBig_healthy _ hw).2.2⟩

/-- errors are permanent: once NextReader has failed, every later call returns the same error (up to
    the documented panic after 1000 calls), runs no handler, writes nothing and consumes nothing -/
theorem nextReader_sticky (c : Conn) (e : RErr) (he : c.r.readErr = some e) (hn : c.r.errCount + 1 < 1000) :
    ∃ c', nextReader c = (.err e, c') ∧ c'.r.readErr = some e ∧ c'.w = c.w ∧ c'.r.hlog = c.r.hlog ∧
      c'.r.buf = c.r.buf ∧ c'.r.errCount = c.r.errCount + 1 := by
  have hn' : ¬ (c.r.errCount + 1 ≥ 1000) := by omega
  unfold nextReader
  simp only [he, hn', if_false, Option.getD_some]
  exact ⟨_, rfl, rfl, rfl, rfl, rfl, rfl⟩

/-- and the documented exception: the 1000th failed call panics -/
theorem nextReader_panics_at_1000 (c : Conn) (e : RErr) (he : c.r.readErr = some e) (hn : 1000 ≤ c.r.errCount + 1) :
    ∃ c', nextReader c = (.panic, c') := by
  have hn' : (c.r.errCount + 1 ≥ 1000) := by omega
  unfold nextReader
  simp only [he, hn', if_true]
  exact ⟨_, rfl⟩

/-- a failed connection delivers no further payload bytes -/
theorem mrRead_after_error (c : Conn) (e : RErr) (he : c.r.readErr = some e) (rid k : Nat) :
    ((mrRead c rid k).1).1 = [] ∧ ((mrRead c rid k).1).2.isSome ∧ (mrRead c rid k).2.w = c.w := by
  unfold mrRead
  split
  · exact ⟨rfl, rfl, rfl⟩
  · unfold mrReadLoop
    simp [he]

/-- the running sum a data frame is added to: a text / binary frame starts a new message -/
def sumBase (c : Conn) (h : Hdr) : Int := if h.opcode = 0 then c.r.length else 0

/-- C06: the data frame whose header makes the running sum exceed the limit is refused before any
    byte of its payload is consumed, ErrReadLimit is returned and a 1009 close frame is written.
    (client reader, 7-bit length) -/
theorem limit_refuses_small (c : Conn) (hc : AtBoundary c) (hw : WHealthy c.w) (b0 b1 : UInt8) (rest : Bytes)
    (hclient : c.r.isServer = false) (hp : c.r.buf.pending = b0 :: b1 :: rest)
    (hok : ¬ Violates c.r.isServer c.r.nego (!c.r.final) (parseHdr b0 b1))
    (hdata : (parseHdr b0 b1).opcode ≤ 2) (hlen : (parseHdr b0 b1).len7 < 126)
    (hlim : 0 < c.r.limit) (hsum : 0 ≤ c.r.length) (hsmall : c.r.length < 2 ^ 62)
    (hover : c.r.limit < sumBase c (parseHdr b0 b1) + (parseHdr b0 b1).len7) :
    ∃ c', advanceFrame c = (.error .readLimit, c') ∧ c'.r.buf.pending = rest ∧ c'.r.hlog = c.r.hlog ∧
      c'.w.wire = c.w.wire ++ closeFrameBytes c.w (closePayload 1009 []) ∧ c'.w.writeErr = some .closeSent := by
  have hsz := hc.size
  obtain ⟨b', hT, hb1, hb2, hb3⟩ := take_eq c.r.buf hc.wf 2 (by omega) [b0, b1] rest hp rfl
  have hrem : ¬ c.r.remaining > 0 := by rw [hc.rem]; decide
  have herr := errs_empty c.r.isServer c.r.nego c.r.final (parseHdr b0 b1) hok
  have hmask : (parseHdr b0 b1).mask = false := by rw [mask_of_ok _ _ _ _ hok, hclient]
  have h126 : ¬ ((parseHdr b0 b1).len7 = 126) := by omega
  have h127 : ¬ ((parseHdr b0 b1).len7 = 127) := by omega
  have hop : ((parseHdr b0 b1).opcode == 0 || (parseHdr b0 b1).opcode == 1 || (parseHdr b0 b1).opcode == 2) = true := by
    simp only [Bool.or_eq_true, beq_iff_eq]; omega
  unfold advanceFrame
  simp only [hrem, if_false, hT, herr, Bool.false_eq_true, h126, h127, hmask, hop, if_true]
  have hbase : (if ((parseHdr b0 b1).opcode == 0) = true then c.r.length else 0) = sumBase c (parseHdr b0 b1) := by
    unfold sumBase; simp only [beq_iff_eq]
  have hB0 : 0 ≤ sumBase c (parseHdr b0 b1) := by unfold sumBase; split <;> omega
  have hB1 : sumBase c (parseHdr b0 b1) < 2 ^ 62 := by unfold sumBase; split <;> omega
  rw [hbase]
  have hwr := wrap64_id (sumBase c (parseHdr b0 b1) + ((parseHdr b0 b1).len7 : Int)) (by omega) (by omega)
  rw [hwr]
  have hcond : (decide (sumBase c (parseHdr b0 b1) + ((parseHdr b0 b1).len7 : Int) < 0) ||
      decide (c.r.limit > 0) && decide (sumBase c (parseHdr b0 b1) + ((parseHdr b0 b1).len7 : Int) > c.r.limit)) = true := by
    simp only [Bool.or_eq_true, Bool.and_eq_true, decide_eq_true_eq]
    right; exact ⟨hlim, hover⟩
  simp only [hcond, if_true]
  exact ⟨_, rfl, hb1, rfl, (sendTooBig_healthy _ hw).2.1, (sendTooBig_healthy _ hw).2.2⟩

/-- C06 (history independence): a text / binary frame within the limit is admitted whatever running
    sum an abandoned earlier message left behind (regression sentinel for finding F2) -/
theorem new_message_restarts_sum (c : Conn) (hc : AtBoundary c) (b0 b1 : UInt8) (rest : Bytes)
    (hclient : c.r.isServer = false) (hp : c.r.buf.pending = b0 :: b1 :: rest)
    (hok : ¬ Violates c.r.isServer c.r.nego (!c.r.final) (parseHdr b0 b1))
    (hdata : (parseHdr b0 b1).opcode = 1 ∨ (parseHdr b0 b1).opcode = 2) (hlen : (parseHdr b0 b1).len7 < 126)
    (hlim : ((parseHdr b0 b1).len7 : Int) ≤ c.r.limit) :
    ∃ c', advanceFrame c = (.ok (parseHdr b0 b1).opcode, c') ∧ c'.r.length = (parseHdr b0 b1).len7 ∧
      c'.r.buf.pending = rest ∧ c'.w = c.w := by
  have hsz := hc.size
  obtain ⟨b', hT, hb1, hb2, hb3⟩ := take_eq c.r.buf hc.wf 2 (by omega) [b0, b1] rest hp rfl
  have hrem : ¬ c.r.remaining > 0 := by rw [hc.rem]; decide
  have herr := errs_empty c.r.isServer c.r.nego c.r.final (parseHdr b0 b1) hok
  have hmask : (parseHdr b0 b1).mask = false := by rw [mask_of_ok _ _ _ _ hok, hclient]
  have h126 : ¬ ((parseHdr b0 b1).len7 = 126) := by omega
  have h127 : ¬ ((parseHdr b0 b1).len7 = 127) := by omega
  have hop : ((parseHdr b0 b1).opcode == 0 || (parseHdr b0 b1).opcode == 1 || (parseHdr b0 b1).opcode == 2) = true := by
    simp only [Bool.or_eq_true, beq_iff_eq]; omega
  have hop0 : ((parseHdr b0 b1).opcode == 0) = false := by
    simp only [beq_eq_false_iff_ne, ne_eq]; omega
  unfold advanceFrame
  simp only [hrem, if_false, hT, herr, Bool.false_eq_true, h126, h127, hmask, hop, if_true]
  simp only [hop0, Bool.false_eq_true, if_false]
  have hwr := wrap64_id ((0 : Int) + ((parseHdr b0 b1).len7 : Int)) (by omega) (by omega)
  rw [hwr]
  have hcond : (decide ((0 : Int) + ((parseHdr b0 b1).len7 : Int) < 0) ||
      decide (c.r.limit > 0) && decide ((0 : Int) + ((parseHdr b0 b1).len7 : Int) > c.r.limit)) = false := by
    simp only [Bool.or_eq_false_iff, Bool.and_eq_false_iff, decide_eq_false_iff_not]
    refine ⟨by omega, Or.inr (by omega)⟩
  simp only [hcond, Bool.false_eq_true, if_false]
  exact ⟨_, rfl, by simp, hb1, rfl⟩

/-- C08: a ping of at most 125 bytes reaches the ping handler once with its exact payload and, with
    the default handler and a healthy write side, is answered by one pong with the identical payload.
    (client reader: peer frames are unmasked) -/
theorem ping_answered (c : Conn) (hc : AtBoundary c) (hw : WHealthy c.w) (hclient : c.r.isServer = false)
    (hd : c.r.hPing = .dflt) (payload rest : Bytes) (hl : payload.length ≤ 125)
    (hp : c.r.buf.pending = [137, UInt8.ofNat payload.length] ++ payload ++ rest) :
    ∃ c', advanceFrame c = (.ok 9, c') ∧ c'.r.hlog = c.r.hlog ++ [.ping payload] ∧ c'.r.buf.pending = rest ∧
      c'.w.wire = c.w.wire ++ controlFrame c.w.isServer 10 payload (ctlKey c.w).1 ∧
      c'.r.readErr = none ∧ c'.r.final = c.r.final := by
  have hsz := hc.size
  obtain ⟨b', hT, hb1, hb2, hb3⟩ := take_eq c.r.buf hc.wf 2 (by omega) [137, UInt8.ofNat payload.length]
    (payload ++ rest) (by rw [hp]; simp) rfl
  have hrem : ¬ c.r.remaining > 0 := by rw [hc.rem]; decide
  have hH := parseHdr_ctl 137 payload.length hl
  have h137a : (137 : UInt8).toNat % 16 = 9 := by decide
  have h137b : decide ((137 : UInt8).toNat / 128 % 2 = 1) = true := by decide
  have h137c : decide ((137 : UInt8).toNat / 64 % 2 = 1) = false := by decide
  have h137d : decide ((137 : UInt8).toNat / 32 % 2 = 1) = false := by decide
  have h137e : decide ((137 : UInt8).toNat / 16 % 2 = 1) = false := by decide
  rw [h137a, h137b, h137c, h137d, h137e] at hH
  have herr : headerErrors false c.r.nego c.r.final
      { opcode := 9, fin := true, rsv1 := false, rsv2 := false, rsv3 := false, mask := false, len7 := payload.length } = [] := by
    have hm : maxControlPayload = 125 := by decide
    have : ¬ payload.length > 125 := by omega
    simp [headerErrors, hm, this]
  have h126 : (payload.length = 126) = False := by simp; omega
  have h127 : (payload.length = 127) = False := by simp; omega
  have hop1 : ((9 : Nat) == 0 || (9 : Nat) == 1 || (9 : Nat) == 2) = false := by decide
  have hop2 : ((9 : Nat) == 1 || (9 : Nat) == 2 || (9 : Nat) == 0) = false := by decide
  have hop3 : ((9 : Nat) == 10) = false := by decide
  have hop4 : ((9 : Nat) == 9) = true := by decide
  have hwc := writeControl_healthy (emit c.w (Ev.hPing payload)) 10 payload hw (by decide) hl
  rw [ctlKey_emit] at hwc
  unfold advanceFrame
  simp only [hrem, hT, hH, hclient, herr, List.isEmpty_nil, Bool.not_true, Bool.false_eq_true, ↓reduceIte,
    h126, h127, hop1, hop2, hop3, hop4]
  by_cases hz : payload.length = 0
  · have hpe : payload = [] := List.eq_nil_of_length_eq_zero hz
    subst hpe
    have hr0 : ¬ ((([] : Bytes).length : Int) > 0) := by simp
    simp only [hr0, ↓reduceIte, runHandler, hd]
    refine ⟨_, rfl, rfl, by simpa using hb1, hwc.1, hc.noErr, rfl⟩
  · have hr0 : ((payload.length : Int) > 0) := by omega
    obtain ⟨b'', hT2, hc1, hc2, hc3⟩ := take_eq b' hb2 payload.length (by omega) payload rest hb1 rfl
    simp only [hr0, ↓reduceIte, Int.toNat_natCast, hT2, runHandler, hd]
    refine ⟨_, rfl, rfl, hc1, hwc.1, hc.noErr, rfl⟩

/-- C08: a close frame with an accepted code and a UTF-8 reason is handed to the close handler once,
    echoed (default handler) by a close frame with the same code and no reason, and reported as
    CloseError{code, reason}. (client reader) -/
theorem close_echoed (c : Conn) (hc : AtBoundary c) (hw : WHealthy c.w) (hclient : c.r.isServer = false)
    (hd : c.r.hClose = .dflt) (code : Nat) (reason rest : Bytes)
    (hcode : isValidReceivedCloseCode code = true) (hc16 : code < 65536) (hutf : Spec.validUtf8 reason = true)
    (hl : reason.length ≤ 123)
    (hp : c.r.buf.pending = [136, UInt8.ofNat (2 + reason.length)] ++ beBytes 2 code ++ reason ++ rest) :
    ∃ c', advanceFrame c = (.error (.close code reason), c') ∧ c'.r.hlog = c.r.hlog ++ [.close code reason] ∧
      c'.w.wire = c.w.wire ++ controlFrame c.w.isServer 8 (closePayload code []) (ctlKey c.w).1 ∧
      c'.w.writeErr = some .closeSent := by
  have hsz := hc.size
  obtain ⟨P, hP⟩ : ∃ P, P = beBytes 2 code ++ reason := ⟨_, rfl⟩
  have hPl : 2 + reason.length = P.length := by rw [hP, List.length_append, beBytes_length]
  have hcode' : beVal (List.take 2 P) = code := by
    rw [hP, List.take_left' (beBytes_length ..)]
    exact beVal_beBytes 2 code (by simpa using hc16)
  have htext : List.drop 2 P = reason := by
    rw [hP, List.drop_left' (beBytes_length ..)]
  rw [List.append_assoc, List.append_assoc, ← List.append_assoc (beBytes 2 code), ← hP, hPl] at hp
  have hl' : P.length ≤ 125 := by omega
  have hge : (P.length ≥ 2) = True := by simp; omega
  clear hP
  obtain ⟨b', hT, hb1, hb2, hb3⟩ := take_eq c.r.buf hc.wf 2 (by omega) [136, UInt8.ofNat P.length]
    (P ++ rest) hp rfl
  have hrem : ¬ c.r.remaining > 0 := by rw [hc.rem]; decide
  have hH := parseHdr_ctl 136 P.length hl'
  have h136a : (136 : UInt8).toNat % 16 = 8 := by decide
  have h136b : decide ((136 : UInt8).toNat / 128 % 2 = 1) = true := by decide
  have h136c : decide ((136 : UInt8).toNat / 64 % 2 = 1) = false := by decide
  have h136d : decide ((136 : UInt8).toNat / 32 % 2 = 1) = false := by decide
  have h136e : decide ((136 : UInt8).toNat / 16 % 2 = 1) = false := by decide
  rw [h136a, h136b, h136c, h136d, h136e] at hH
  have herr : headerErrors false c.r.nego c.r.final
      (Hdr.mk 8 true false false false false P.length) = [] := by
    have hm : maxControlPayload = 125 := by decide
    have : ¬ P.length > 125 := by omega
    simp [headerErrors, hm, this]
  have h126 : (P.length = 126) = False := by simp; omega
  have h127 : (P.length = 127) = False := by simp; omega
  have hop1 : ((8 : Nat) == 0 || (8 : Nat) == 1 || (8 : Nat) == 2) = false := by decide
  have hop2 : ((8 : Nat) == 1 || (8 : Nat) == 2 || (8 : Nat) == 0) = false := by decide
  have hop3 : ((8 : Nat) == 10) = false := by decide
  have hop4 : ((8 : Nat) == 9) = false := by decide
  have hwc := writeControl_healthy (emit c.w (Ev.hClose code reason)) 8 (closePayload code []) hw (by decide)
    (closePayload_nil_len code)
  rw [ctlKey_emit] at hwc
  have hr0 : ((P.length : Int) > 0) := by omega
  obtain ⟨b'', hT2, hc1, hc2, hc3⟩ := take_eq b' hb2 P.length (by omega) P rest hb1 rfl
  unfold advanceFrame
  simp only [hrem, hT, hH, hclient, herr, List.isEmpty_nil, Bool.not_true, Bool.false_eq_true, ↓reduceIte,
    h126, h127, hop1, hop2, hop3, hop4, hr0, Int.toNat_natCast, hT2, hge, hcode', htext, hcode, hutf,
    decide_true, Bool.and_false, runHandler, hd]
  exact ⟨_, rfl, rfl, hwc.1, hwc.2⟩

end WS.ReaderRejects
