import WS.Model.Reader
/-
  Decision logic of the reader's header check and close-code table (C04 / C08).
-/
namespace WS.HdrLogic
open WS

/-- RFC 6455 framing violations visible in the first two header bytes, as listed by property C04:
    reserved bits (RSV1 counts as reserved iff permessage-deflate was not negotiated), reserved
    opcodes, fragmented or oversized control frames, a continuation with no message in progress,
    a new data frame inside an unfinished message, wrong masking for the role. -/
def Violates (readerIsServer nego inMsg : Bool) (h : Hdr) : Prop :=
  h.rsv2 = true ∨ h.rsv3 = true ∨ (h.rsv1 = true ∧ nego = false) ∨
  (3 ≤ h.opcode ∧ h.opcode ≤ 7) ∨ 11 ≤ h.opcode ∨
  ((h.opcode = 8 ∨ h.opcode = 9 ∨ h.opcode = 10) ∧ (h.fin = false ∨ 125 < h.len7)) ∨
  (h.opcode = 0 ∧ inMsg = false) ∨ ((h.opcode = 1 ∨ h.opcode = 2) ∧ inMsg = true) ∨
  h.mask ≠ readerIsServer

private theorem ite_single_nil {α} (c : Prop) [Decidable c] (x : α) : (if c then [x] else []) = [] ↔ ¬ c := by
  split <;> simp [*]

private theorem mid (op l7 : Nat) (fin final : Bool) :
  ((if op == 8 || op == 9 || op == 10 then
     (if l7 > 125 then ["len > 125 for control"] else []) ++
     (if !fin then ["FIN not set on control"] else [])
   else if op == 1 || op == 2 then
     (if !final then ["data before FIN"] else [])
   else if op == 0 then
     (if final then ["continuation after FIN"] else [])
   else ["bad opcode " ++ toString op]) = []) ↔
   ¬ ((3 ≤ op ∧ op ≤ 7) ∨ 11 ≤ op ∨
  ((op = 8 ∨ op = 9 ∨ op = 10) ∧ (fin = false ∨ 125 < l7)) ∨
  (op = 0 ∧ final = true) ∨ ((op = 1 ∨ op = 2) ∧ final = false)) := by
  split
  · rename_i h
    simp only [Bool.or_eq_true, beq_iff_eq] at h
    simp only [List.append_eq_nil_iff, ite_single_nil]
    cases fin <;> simp <;> omega
  · rename_i h
    simp only [Bool.or_eq_true, beq_iff_eq] at h
    split
    · rename_i h2
      simp only [Bool.or_eq_true, beq_iff_eq] at h2
      simp only [ite_single_nil]
      cases final <;> simp <;> omega
    · rename_i h2
      simp only [Bool.or_eq_true, beq_iff_eq] at h2
      split
      · rename_i h3
        simp only [beq_iff_eq] at h3
        simp only [ite_single_nil]
        cases final <;> simp <;> omega
      · rename_i h3
        simp only [beq_iff_eq] at h3
        simp
        omega

/-- the model's header check (which mirrors advanceFrame's list of checks) reports an error exactly
    for the violations; `final` is the reader's readFinal, i.e. "no message in progress" -/
theorem headerErrors_nil_iff (isServer nego final : Bool) (h : Hdr) :
    headerErrors isServer nego final h = [] ↔ ¬ Violates isServer nego (!final) h := by
  have hm : maxControlPayload = 125 := by decide
  obtain ⟨op, fin, r1, r2, r3, mk, l7⟩ := h
  unfold headerErrors Violates
  simp only [hm, List.append_eq_nil_iff, mid, ite_single_nil]
  cases r1 <;> cases r2 <;> cases r3 <;> cases mk <;> cases isServer <;> cases nego <;> cases final <;> simp

/-- every pair of header bytes parses to a header with a 4-bit opcode and 7-bit length -/
theorem parseHdr_bounds (b0 b1 : UInt8) : (parseHdr b0 b1).opcode < 16 ∧ (parseHdr b0 b1).len7 < 128 := by
  unfold parseHdr
  simp only
  omega

/-- the accepted close codes are exactly RFC 6455 §7.4.1 / IANA: 1000–1003, 1007–1013, 3000–4999 -/
theorem closecode_spec (c : Nat) :
    isValidReceivedCloseCode c = true ↔
      ((1000 ≤ c ∧ c ≤ 1003) ∨ (1007 ≤ c ∧ c ≤ 1013) ∨ (3000 ≤ c ∧ c ≤ 4999)) := by
  unfold isValidReceivedCloseCode Gen.validReceivedCloseCodes Gen.closeCodeRangeLo Gen.closeCodeRangeHi
  simp
  omega

/-- the 1002 close payload never exceeds a control frame: handleProtocolError truncates to 125 -/
theorem protocolError_payload_le (c : Conn) (msg : String) :
    ((closePayload 1002 (strBytes msg)).take maxControlPayload).length ≤ 125 := by
  rw [List.length_take]
  have hm : maxControlPayload = 125 := by decide
  omega

end WS.HdrLogic
