import WS.Model.Http
import WS.Model.Server
import WS.Model.Client
/-
  C12 / C13 / C14 / C15: decision logic of the handshakes.

-/
namespace WS.HttpLogic
open WS WS.Http WS.Server WS.Client

/-! ### C13: ASCII case folding -/

def asciiLower (b : UInt8) : UInt8 := if 65 ≤ b.toNat ∧ b.toNat ≤ 90 then b + 32 else b
def isAscii (s : Bytes) : Prop := ∀ b ∈ s, b.toNat < 128

theorem decodeRune_ascii (b : UInt8) (rest : Bytes) (h : b.toNat < 128) :
    decodeRune (b :: rest) = (b.toNat, 1) := by
  unfold decodeRune
  simp only
  rw [if_pos h]

theorem decodeRune_size_pos (b : UInt8) (rest : Bytes) : 1 ≤ (decodeRune (b :: rest)).2 := by
  unfold decodeRune
  simp only
  repeat' split
  all_goals simp

theorem decodeRune_nonascii_ge (b : UInt8) (rest : Bytes) (h : 128 ≤ b.toNat) :
    128 ≤ (decodeRune (b :: rest)).1 := by
  unfold decodeRune
  simp only
  repeat' split
  all_goals simp only [runeError, Bool.and_eq_true, decide_eq_true_eq, beq_iff_eq] at *
  all_goals try omega

theorem asciiLower_toNat (b : UInt8) : (asciiLower b).toNat = foldRune b.toNat := by
  unfold asciiLower foldRune
  by_cases h : 65 ≤ b.toNat ∧ b.toNat ≤ 90
  · rw [if_pos h, if_pos (by simp [h])]
    rw [UInt8.toNat_add]
    have : (32 : UInt8).toNat = 32 := rfl
    omega
  · rw [if_neg h, if_neg (by simpa using h)]

theorem foldRune_lt (n : Nat) (h : n < 128) : foldRune n < 128 := by
  unfold foldRune
  split
  · rename_i h1; simp at h1; omega
  · exact h

theorem foldRune_ge (n : Nat) (h : 128 ≤ n) : foldRune n = n := by
  unfold foldRune
  rw [if_neg]
  simp
  omega

theorem fold_aux_ascii (fuel : Nat) (s t : Bytes) (hs : isAscii s) (hf : s.length < fuel) :
    equalASCIIFoldAux fuel s t = true ↔ t.map asciiLower = s.map asciiLower := by
  induction fuel generalizing s t with
  | zero => omega
  | succ fuel ih =>
    unfold equalASCIIFoldAux
    cases s with
    | nil => cases t <;> simp
    | cons a s' =>
      cases t with
      | nil => simp
      | cons b t' =>
        have ha : a.toNat < 128 := hs a (by simp)
        have hs' : isAscii s' := fun x hx => hs x (by simp [hx])
        simp only [List.isEmpty_cons, Bool.or_self, Bool.false_eq_true, if_false]
        rw [decodeRune_ascii a s' ha]
        simp only [List.map_cons, List.cons.injEq]
        by_cases hb : b.toNat < 128
        · rw [decodeRune_ascii b t' hb]
          simp only [List.drop_succ_cons, List.drop_zero]
          rw [← UInt8.toNat_inj, asciiLower_toNat, asciiLower_toNat]
          by_cases hc : foldRune a.toNat = foldRune b.toNat
          · have : (a.toNat == b.toNat || foldRune a.toNat == foldRune b.toNat) = true := by simp [hc]
            rw [if_pos this, ih s' t' hs' (by simp at hf; omega)]
            simp [hc]
          · have : ¬ (a.toNat == b.toNat || foldRune a.toNat == foldRune b.toNat) = true := by
              simp only [Bool.or_eq_true, beq_iff_eq, not_or]
              refine ⟨fun h => hc (by rw [h]), hc⟩
            rw [if_neg this]
            simp only [Bool.false_eq_true, false_iff, not_and]
            intro h; exact absurd h.symm hc
        · have hge := decodeRune_nonascii_ge b t' (by omega)
          have h1 := foldRune_lt a.toNat ha
          have h2 := foldRune_ge _ hge
          rcases hd : decodeRune (b :: t') with ⟨tr, ts⟩
          rw [hd] at hge h2
          simp only at hge h2 ⊢
          have : ¬ (a.toNat == tr || foldRune a.toNat == foldRune tr) = true := by
            simp only [Bool.or_eq_true, beq_iff_eq, not_or]
            omega
          rw [if_neg this]
          simp only [Bool.false_eq_true, false_iff, not_and]
          intro h
          exfalso
          have h3 := congrArg UInt8.toNat h
          rw [asciiLower_toNat, asciiLower_toNat, foldRune_ge b.toNat (by omega)] at h3
          omega

/-- for an ASCII left side (a Host header is ASCII), equalASCIIFold accepts exactly the strings that
    are equal after byte-wise ASCII lower-casing — same length, no extra label, no look-alike,
    no non-ASCII byte (U+212A KELVIN SIGN and U+017F LONG S do not fold to k / s) -/
theorem fold_ascii_iff (s t : Bytes) (hs : isAscii s) :
    equalASCIIFold s t = true ↔ t.map asciiLower = s.map asciiLower := by
  exact fold_aux_ascii _ s t hs (Nat.lt_succ_self _)

theorem fold_aux_fuel (f1 f2 : Nat) (s t : Bytes)
    (h1 : s.length < f1 ∨ t.length < f1) (h2 : s.length < f2 ∨ t.length < f2) :
    equalASCIIFoldAux f1 s t = equalASCIIFoldAux f2 s t := by
  induction f1 generalizing f2 s t with
  | zero => omega
  | succ f1 ih =>
    cases f2 with
    | zero => omega
    | succ f2 =>
      unfold equalASCIIFoldAux
      cases s with
      | nil => simp
      | cons a s' =>
        cases t with
        | nil => simp
        | cons b t' =>
          simp only [List.isEmpty_cons, Bool.or_self, Bool.false_eq_true, if_false]
          have pa := decodeRune_size_pos a s'
          have pb := decodeRune_size_pos b t'
          rcases hda : decodeRune (a :: s') with ⟨sr, ss⟩
          rcases hdb : decodeRune (b :: t') with ⟨tr, ts⟩
          rw [hda] at pa
          rw [hdb] at pb
          simp only at pa pb ⊢
          split
          · apply ih
            · simp only [List.length_drop, List.length_cons] at h1 ⊢; omega
            · simp only [List.length_drop, List.length_cons] at h2 ⊢; omega
          · rfl

theorem fold_aux_symm (fuel : Nat) (s t : Bytes) :
    equalASCIIFoldAux fuel s t = equalASCIIFoldAux fuel t s := by
  induction fuel generalizing s t with
  | zero => unfold equalASCIIFoldAux; exact Bool.beq_comm
  | succ fuel ih =>
    unfold equalASCIIFoldAux
    rw [Bool.or_comm t.isEmpty, Bool.beq_comm (a := t)]
    split
    · rfl
    · rcases decodeRune s with ⟨sr, ss⟩
      rcases decodeRune t with ⟨tr, ts⟩
      simp only
      rw [Bool.beq_comm (a := tr), Bool.beq_comm (a := foldRune tr), ih]

/-- equalASCIIFold is symmetric -/
theorem fold_symm (s t : Bytes) : equalASCIIFold s t = equalASCIIFold t s := by
  unfold equalASCIIFold
  rw [fold_aux_fuel (s.length + 1) (t.length + 1) s t (by omega) (by omega)]
  exact fold_aux_symm _ s t

/-- Finding F7 (kernel-checked): two *different* invalid UTF-8 bytes compare equal, because both
    decode to U+FFFD -/
theorem fold_invalid_utf8_counterexample : equalASCIIFold [0x61, 0xff] [0x61, 0xfe] = true := by
  decide

/-- default origin policy: accepted iff there is no Origin header, or the Origin parses and its host
    folds to the request Host -/
theorem same_origin_iff (r : Req) (oh : Option Bytes) :
    checkSameOrigin r oh = true ↔ (r.values "Origin" = [] ∨ ∃ h, oh = some h ∧ equalASCIIFold h r.host = true) := by
  unfold checkSameOrigin
  cases r.values "Origin" with
  | nil => simp
  | cons a l => cases oh <;> simp

/-! ### C12: server decision -/

/-- Upgrade succeeds exactly when every condition of the chain holds -/
theorem upgrade_ok_iff (u : UCfg) (r : Req) (rh : RespHdr) (oh : Option Bytes) (hj : Hijack) :
    (∃ a, upgrade u r rh oh hj = .ok a) ↔
      (tokenListContainsValue (r.values "Connection") (strBytes "upgrade") = true ∧
       tokenListContainsValue (r.values "Upgrade") (strBytes "websocket") = true ∧
       r.method = strBytes "GET" ∧
       tokenListContainsValue (r.values "Sec-Websocket-Version") (strBytes "13") = true ∧
       rh.has "Sec-Websocket-Extensions" = false ∧
       (match u.checkOrigin with | some b => b | none => checkSameOrigin r oh) = true ∧
       isValidChallengeKey (r.get "Sec-Websocket-Key") = true ∧
       hj.ok = true) := by
  unfold upgrade
  generalize tokenListContainsValue (r.values "Connection") (strBytes "upgrade") = c1
  generalize tokenListContainsValue (r.values "Upgrade") (strBytes "websocket") = c2
  generalize tokenListContainsValue (r.values "Sec-Websocket-Version") (strBytes "13") = c3
  generalize rh.has "Sec-Websocket-Extensions" = c4
  generalize isValidChallengeKey (r.get "Sec-Websocket-Key") = c5
  generalize hj.ok = c6
  generalize checkSameOrigin r oh = c7
  by_cases hm : r.method = strBytes "GET" <;>
  rcases u.checkOrigin with _ | c8 <;> cases c1 <;> cases c2 <;> cases c3 <;> cases c4 <;> cases c5 <;> cases c6 <;>
    first | (cases c7 <;> simp [hm]; done) | (cases c8 <;> simp [hm])

/-- the status codes: 403 exactly for the origin, 426 exactly for a missing Upgrade token -/
theorem reject_status (u : UCfg) (r : Req) (rh : RespHdr) (oh : Option Bytes) (hj : Hijack) (e : Reject)
    (h : upgrade u r rh oh hj = .error e) :
    (e.status = 403 ↔ e = .origin) ∧ (e.status = 426 ↔ e = .noUpgradeWebsocket) ∧
    (e = .noUpgradeWebsocket → tokenListContainsValue (r.values "Connection") (strBytes "upgrade") = true ∧
        tokenListContainsValue (r.values "Upgrade") (strBytes "websocket") = false) ∧
    (e = .origin → (match u.checkOrigin with | some b => b | none => checkSameOrigin r oh) = false) := by
  refine ⟨by cases e <;> simp [Reject.status], by cases e <;> simp [Reject.status], ?_, ?_⟩
  · intro he
    subst he
    revert h
    unfold upgrade
    generalize tokenListContainsValue (r.values "Connection") (strBytes "upgrade") = c1
    generalize tokenListContainsValue (r.values "Upgrade") (strBytes "websocket") = c2
    cases c1 <;> cases c2 <;> simp
    repeat' split
    all_goals simp
  · intro he
    subst he
    revert h
    unfold upgrade
    generalize checkSameOrigin r oh = c7
    rcases u.checkOrigin with _ | c8
    · cases c7 <;> simp
      repeat' split
      all_goals simp
    · cases c8 <;> simp
      repeat' split
      all_goals simp

/-- compression is on, and announced, only if the server enabled it and the client offered an
    extension named permessage-deflate -/
theorem compress_iff (u : UCfg) (r : Req) (rh : RespHdr) (oh : Option Bytes) (hj : Hijack) (b : Bytes) (a : Accepted)
    (h : upgrade u r rh oh hj = .ok (b, a)) :
    a.compress = (u.enableCompression &&
      (parseExtensions (r.values "Sec-Websocket-Extensions")).any (fun e => e.name == strBytes "permessage-deflate")) := by
  revert h
  unfold upgrade
  repeat' split
  all_goals simp
  all_goals (intro _ h; rw [← h])

/-- the selected subprotocol was offered by the client and is supported by the server (when the
    server lists its protocols) -/
theorem subprotocol_sound (u : UCfg) (r : Req) (rh : RespHdr) (server : List Bytes) (hs : u.subprotocols = some server)
    (hne : selectSubprotocol u r rh ≠ []) :
    selectSubprotocol u r rh ∈ server ∧ selectSubprotocol u r rh ∈ subprotocols (r.get "Sec-Websocket-Protocol") := by
  unfold selectSubprotocol at hne ⊢
  rw [hs] at hne ⊢
  simp only at hne ⊢
  cases hf : (subprotocols (r.get "Sec-Websocket-Protocol")).find? (fun c => server.contains c) with
  | none => rw [hf] at hne; simp at hne
  | some c =>
    simp only
    have h1 := List.find?_some hf
    have h2 := List.mem_of_find?_eq_some hf
    simp at h1
    exact ⟨h1, h2⟩

/-- header values are scrubbed: no byte ≤ 31 (in particular no CR / LF) survives -/
theorem scrub_no_ctl (v : Bytes) : ∀ b ∈ scrub v, 31 < b.toNat := by
  intro b hb
  unfold scrub at hb
  rw [List.mem_map] at hb
  obtain ⟨a, _, rfl⟩ := hb
  split
  · decide
  · omega

theorem splitCRLF_cons_ne (b : UInt8) (rest cur : Bytes) (hb : b ≠ 13) :
    splitCRLF (b :: rest) cur = splitCRLF rest (b :: cur) := by
  rw [splitCRLF]
  intro r h
  cases h
  exact absurd rfl hb

/-- a string without CR splits into exactly one line -/
theorem splitCRLF_single (s cur : Bytes) (h : ∀ b ∈ s, b ≠ 13) : splitCRLF s cur = [cur.reverse ++ s] := by
  induction s generalizing cur with
  | nil => simp [splitCRLF]
  | cons b s ih =>
    rw [splitCRLF_cons_ne b s cur (h b (by simp))]
    rw [ih _ (fun x hx => h x (by simp [hx]))]
    simp

theorem splitCRLF_line_aux (line rest cur : Bytes) (h : ∀ b ∈ line, b ≠ 13) :
    splitCRLF (line ++ crlf ++ rest) cur = (cur.reverse ++ line) :: splitCRLF rest [] := by
  induction line generalizing cur with
  | nil => simp [crlf, splitCRLF]
  | cons b s ih =>
    simp only [List.cons_append]
    rw [splitCRLF_cons_ne b _ cur (h b (by simp))]
    rw [ih _ (fun x hx => h x (by simp [hx]))]
    simp

/-- … and `line ++ CRLF ++ rest` splits into that line followed by the lines of `rest` -/
theorem splitCRLF_line (line rest : Bytes) (h : ∀ b ∈ line, b ≠ 13) :
    splitCRLF (line ++ crlf ++ rest) [] = line :: splitCRLF rest [] := by
  simpa using splitCRLF_line_aux line rest [] h

/-! ### C14 / C15: client decision -/

/-- Dial accepts the reply exactly when status, Upgrade, Connection and Accept prove that the server
    accepted *this* request's key, and the compression answer is acceptable -/
theorem checkReply_ok_iff (key : Bytes) (r : Reply) :
    (∃ d, checkReply key r = .ok d) ↔
      (r.status = 101 ∧
       tokenListContainsValue (r.values "Upgrade") (strBytes "websocket") = true ∧
       tokenListContainsValue (r.values "Connection") (strBytes "upgrade") = true ∧
       r.get "Sec-Websocket-Accept" = Spec.acceptKey Gen.keyGUID key ∧
       (∀ e, (parseExtensions (r.values "Sec-Websocket-Extensions")).find? (fun e => e.name == strBytes "permessage-deflate") = some e →
          e.has (strBytes "server_no_context_takeover") = true ∧ e.has (strBytes "client_no_context_takeover") = true)) := by
  unfold checkReply
  generalize (parseExtensions (r.values "Sec-Websocket-Extensions")).find? (fun e => e.name == strBytes "permessage-deflate") = fo
  generalize tokenListContainsValue (r.values "Upgrade") (strBytes "websocket") = c1
  generalize tokenListContainsValue (r.values "Connection") (strBytes "upgrade") = c2
  by_cases hs : r.status = 101 <;> by_cases ha : r.get "Sec-Websocket-Accept" = Spec.acceptKey Gen.keyGUID key <;>
    cases c1 <;> cases c2 <;> simp [hs, ha]
  cases fo with
  | none => simp
  | some e =>
    simp only [Option.some.injEq, forall_eq']
    generalize e.has (strBytes "server_no_context_takeover") = x
    generalize e.has (strBytes "client_no_context_takeover") = y
    cases x <;> cases y <;> simp

/-- the client compresses iff the reply carries permessage-deflate (with both parameters) -/
theorem client_compress_iff (key : Bytes) (r : Reply) (d : Dialed) (h : checkReply key r = .ok d) :
    d.compress = ((parseExtensions (r.values "Sec-Websocket-Extensions")).any (fun e => e.name == strBytes "permessage-deflate")) := by
  revert h
  unfold checkReply
  split
  · simp
  split
  · rename_i e he
    split
    · simp
    · intro h
      injection h with h
      subst h
      simp only
      symm
      rw [List.any_eq_true]
      exact ⟨e, List.mem_of_find?_eq_some he, List.find?_some (p := fun (e : Ext) => e.name == strBytes "permessage-deflate") he⟩
  · rename_i he
    intro h
    injection h with h
    subst h
    simp only
    symm
    rw [List.find?_eq_none] at he
    rw [List.any_eq_false]
    exact he

/-- URLs that are not ws / wss, or that carry userinfo, are refused before anything is assembled -/
theorem bad_url_refused (d : DCfg) (u : Url) (key : Bytes) (caller : Client.Hdr)
    (h : (u.scheme ≠ strBytes "ws" ∧ u.scheme ≠ strBytes "wss") ∨ u.hasUser = true) :
    buildRequest d u key caller = .error .malformedURL := by
  unfold buildRequest
  split
  · rfl
  · rename_i h1
    split
    · rfl
    · rename_i h2
      simp at h1
      rcases h with ⟨ha, hb⟩ | h
      · exact absurd (h1 ha) hb
      · exact absurd h h2

/-- a caller header map containing a protocol-owned (canonical) key is refused -/
theorem forbidden_refused (d : DCfg) (u : Url) (key : Bytes) (caller : Client.Hdr) (k : Bytes) (vs : List Bytes)
    (hu : (u.scheme = strBytes "ws" ∨ u.scheme = strBytes "wss") ∧ u.hasUser = false)
    (hk : (k, vs) ∈ caller) (hf : forbidden d k = true) (hh : k ≠ strBytes "Host") :
    buildRequest d u key caller = .error .duplicateHeader := by
  unfold buildRequest
  split
  · rename_i h1
    simp at h1
    rcases hu.1 with h | h
    · exact absurd h h1.1
    · exact absurd h h1.2
  split
  · rename_i h2
    rw [hu.2] at h2
    exact absurd h2 (by simp)
  simp only
  split
  · rfl
  · rename_i h3
    exfalso
    apply h3
    rw [List.any_eq_true]
    exact ⟨(k, vs), hk, by simp [hf, hh]⟩

/-- C15: what the Dialer offers is accepted by the Upgrader's negotiation, and what the Upgrader
    announces is accepted by the Dialer — evaluated on the literals found in today's source -/
theorem offer_literal_negotiates :
    (parseExtensions [strBytes "permessage-deflate; server_no_context_takeover; client_no_context_takeover"]).any
      (fun e => e.name == strBytes "permessage-deflate") = true := by
  decide +kernel

theorem announce_literal_accepted :
    ((parseExtensions [strBytes "permessage-deflate; server_no_context_takeover; client_no_context_takeover"]).find?
        (fun e => e.name == strBytes "permessage-deflate")).map
      (fun e => e.has (strBytes "server_no_context_takeover") && e.has (strBytes "client_no_context_takeover")) = some true := by
  decide +kernel

end WS.HttpLogic
