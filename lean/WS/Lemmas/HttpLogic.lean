import WS.Model.Http
import WS.Model.Server
import WS.Model.Client
/-
  C12 / C13 / C14 / C15: decision logic of the handshakes.

-/
namespace WS.HttpLogic
open WS WS.Http WS.Server WS.Client

/-! ### C13: ASCII case folding -/

def asciiLower (b : UInt8) : UInt8 := if 65 ≤ b.toNat ∧ b.toNat ≤ 90 then b + 32 else b

theorem foldByte_eq (b : UInt8) : foldByte b = asciiLower b := by
  unfold foldByte asciiLower
  simp

/-- equalASCIIFold accepts exactly the byte strings that are equal after byte-wise ASCII
    lower-casing — for ALL byte strings: same length, no extra label, no look-alike, no non-ASCII
    byte folds to an ASCII one -/
theorem fold_eq_iff (s t : Bytes) :
    equalASCIIFold s t = true ↔ t.map asciiLower = s.map asciiLower := by
  induction s generalizing t with
  | nil => cases t <;> simp [equalASCIIFold]
  | cons a s ih =>
    cases t with
    | nil => simp [equalASCIIFold]
    | cons b t =>
      simp only [equalASCIIFold, Bool.and_eq_true, beq_iff_eq, ih, foldByte_eq, List.map_cons,
        List.cons.injEq]
      constructor
      · rintro ⟨h1, h2⟩; exact ⟨h1.symm, h2⟩
      · rintro ⟨h1, h2⟩; exact ⟨h1.symm, h2⟩

/-- equalASCIIFold is symmetric -/
theorem fold_symm (s t : Bytes) : equalASCIIFold s t = equalASCIIFold t s := by
  rw [Bool.eq_iff_iff, fold_eq_iff, fold_eq_iff]
  exact eq_comm

/-- equal strings have equal length (no prefix / suffix look-alike passes) -/
theorem fold_length (s t : Bytes) (h : equalASCIIFold s t = true) : s.length = t.length := by
  rw [fold_eq_iff] at h
  have := congrArg List.length h
  simpa using this.symm

/-- regression sentinel for finding F7: two different invalid UTF-8 bytes are different -/
theorem fold_distinguishes_invalid_utf8 : equalASCIIFold [0x61, 0xff] [0x61, 0xfe] = false := by
  decide

/-- U+212A KELVIN SIGN (e2 84 aa) and U+017F LONG S (c5 bf) do not fold to k / s -/
theorem fold_no_unicode_folding :
    equalASCIIFold [0xe2, 0x84, 0xaa] [0x6b] = false ∧ equalASCIIFold [0xc5, 0xbf] [0x73] = false := by
  decide

/-- default origin policy: accepted iff there is no Origin header, or the Origin parses and its host
    folds to the request Host -/
theorem same_origin_iff (r : Req) (oh : Option Bytes) :
    checkSameOrigin r oh = true ↔ (r.values "Origin" = [] ∨ ∃ h, oh = some h ∧ equalASCIIFold h r.host = true) := by
  unfold checkSameOrigin
  cases r.values "Origin" with
  | nil => simp
  | cons a l => cases oh <;> simp

/-! ### C12: server decision -/

/-- Upgrade succeeds exactly when every condition of the chain holds -/
theorem upgrade_ok_iff (u : UCfg) (r : Req) (rh : RespHdr) (oh : Option Bytes) (hj : Hijack) :
    (∃ a, upgrade u r rh oh hj = .ok a) ↔
      (tokenListContainsValue (r.values "Connection") (strBytes "upgrade") = true ∧
       tokenListContainsValue (r.values "Upgrade") (strBytes "websocket") = true ∧
       r.method = strBytes "GET" ∧
       tokenListContainsValue (r.values "Sec-Websocket-Version") (strBytes "13") = true ∧
       rh.has "Sec-Websocket-Extensions" = false ∧
       (match u.checkOrigin with | some b => b | none => checkSameOrigin r oh) = true ∧
       isValidChallengeKey (r.get "Sec-Websocket-Key") = true ∧
       hj.ok = true) := by
  unfold upgrade
  generalize tokenListContainsValue (r.values "Connection") (strBytes "upgrade") = c1
  generalize tokenListContainsValue (r.values "Upgrade") (strBytes "websocket") = c2
  generalize tokenListContainsValue (r.values "Sec-Websocket-Version") (strBytes "13") = c3
  generalize rh.has "Sec-Websocket-Extensions" = c4
  generalize isValidChallengeKey (r.get "Sec-Websocket-Key") = c5
  generalize hj.ok = c6
  generalize checkSameOrigin r oh = c7
  by_cases hm : r.method = strBytes "GET" <;>
  rcases u.checkOrigin with _ | c8 <;> cases c1 <;> cases c2 <;> cases c3 <;> cases c4 <;> cases c5 <;> cases c6 <;>
    first | (cases c7 <;> simp [hm]; done) | (cases c8 <;> simp [hm])

/-- the status codes: 403 exactly for the origin, 426 exactly for a missing Upgrade token -/
theorem reject_status (u : UCfg) (r : Req) (rh : RespHdr) (oh : Option Bytes) (hj : Hijack) (e : Reject)
    (h : upgrade u r rh oh hj = .error e) :
    (e.status = 403 ↔ e = .origin) ∧ (e.status = 426 ↔ e = .noUpgradeWebsocket) ∧
    (e = .noUpgradeWebsocket → tokenListContainsValue (r.values "Connection") (strBytes "upgrade") = true ∧
        tokenListContainsValue (r.values "Upgrade") (strBytes "websocket") = false) ∧
    (e = .origin → (match u.checkOrigin with | some b => b | none => checkSameOrigin r oh) = false) := by
  refine ⟨by cases e <;> simp [Reject.status], by cases e <;> simp [Reject.status], ?_, ?_⟩
  · intro he
    subst he
    revert h
    unfold upgrade
    generalize tokenListContainsValue (r.values "Connection") (strBytes "upgrade") = c1
    generalize tokenListContainsValue (r.values "Upgrade") (strBytes "websocket") = c2
    cases c1 <;> cases c2 <;> simp
    repeat' split
    all_goals simp
  · intro he
    subst he
    revert h
    unfold upgrade
    generalize checkSameOrigin r oh = c7
    rcases u.checkOrigin with _ | c8
    · cases c7 <;> simp
      repeat' split
      all_goals simp
    · cases c8 <;> simp
      repeat' split
      all_goals simp

/-- compression is on, and announced, only if the server enabled it and the client offered an
    extension named permessage-deflate -/
theorem compress_iff (u : UCfg) (r : Req) (rh : RespHdr) (oh : Option Bytes) (hj : Hijack) (b : Bytes) (a : Accepted)
    (h : upgrade u r rh oh hj = .ok (b, a)) :
    a.compress = (u.enableCompression &&
      (parseExtensions (r.values "Sec-Websocket-Extensions")).any (fun e => e.name == strBytes "permessage-deflate")) := by
  revert h
  unfold upgrade
  repeat' split
  all_goals simp
  all_goals (intro _ h; rw [← h])

/-- the selected subprotocol was offered by the client and is supported by the server (when the
    server lists its protocols) -/
theorem subprotocol_sound (u : UCfg) (r : Req) (rh : RespHdr) (server : List Bytes) (hs : u.subprotocols = some server)
    (hne : selectSubprotocol u r rh ≠ []) :
    selectSubprotocol u r rh ∈ server ∧ selectSubprotocol u r rh ∈ subprotocols (r.get "Sec-Websocket-Protocol") := by
  unfold selectSubprotocol at hne ⊢
  rw [hs] at hne ⊢
  simp only at hne ⊢
  cases hf : (subprotocols (r.get "Sec-Websocket-Protocol")).find? (fun c => server.contains c) with
  | none => rw [hf] at hne; simp at hne
  | some c =>
    simp only
    have h1 := List.find?_some hf
    have h2 := List.mem_of_find?_eq_some hf
    simp at h1
    exact ⟨h1, h2⟩

/-- header values are scrubbed: no byte ≤ 31 (in particular no CR / LF) survives -/
theorem scrub_no_ctl (v : Bytes) : ∀ b ∈ scrub v, 31 < b.toNat := by
  intro b hb
  unfold scrub at hb
  rw [List.mem_map] at hb
  obtain ⟨a, _, rfl⟩ := hb
  split
  · decide
  · omega

theorem splitCRLF_cons_ne (b : UInt8) (rest cur : Bytes) (hb : b ≠ 13) :
    splitCRLF (b :: rest) cur = splitCRLF rest (b :: cur) := by
  rw [splitCRLF]
  intro r h
  cases h
  exact absurd rfl hb

/-- a string without CR splits into exactly one line -/
theorem splitCRLF_single (s cur : Bytes) (h : ∀ b ∈ s, b ≠ 13) : splitCRLF s cur = [cur.reverse ++ s] := by
  induction s generalizing cur with
  | nil => simp [splitCRLF]
  | cons b s ih =>
    rw [splitCRLF_cons_ne b s cur (h b (by simp))]
    rw [ih _ (fun x hx => h x (by simp [hx]))]
    simp

theorem splitCRLF_line_aux (line rest cur : Bytes) (h : ∀ b ∈ line, b ≠ 13) :
    splitCRLF (line ++ crlf ++ rest) cur = (cur.reverse ++ line) :: splitCRLF rest [] := by
  induction line generalizing cur with
  | nil => simp [crlf, splitCRLF]
  | cons b s ih =>
    simp only [List.cons_append]
    rw [splitCRLF_cons_ne b _ cur (h b (by simp))]
    rw [ih _ (fun x hx => h x (by simp [hx]))]
    simp

/-- … and `line ++ CRLF ++ rest` splits into that line followed by the lines of `rest` -/
theorem splitCRLF_line (line rest : Bytes) (h : ∀ b ∈ line, b ≠ 13) :
    splitCRLF (line ++ crlf ++ rest) [] = line :: splitCRLF rest [] := by
  simpa using splitCRLF_line_aux line rest [] h

/-- number of header lines the application's response header map contributes -/
def rhLines (rh : RespHdr) : Nat :=
  match rh with
  | none => 0
  | some l => ((l.filter (fun p => p.1 != strBytes "Sec-Websocket-Protocol")).map (fun p => p.2.length)).sum

theorem splitCRLF_line_len (line rest : Bytes) (h : ∀ b ∈ line, b ≠ 13) :
    (splitCRLF (line ++ (crlf ++ rest)) []).length = 1 + (splitCRLF rest []).length := by
  rw [← List.append_assoc, splitCRLF_line line rest h]
  simp [Nat.add_comm]

theorem scrub_ne_cr (v : Bytes) : ∀ b ∈ scrub v, b ≠ 13 := by
  intro b hb h
  have := scrub_no_ctl v b hb
  subst h
  exact absurd this (by decide)

theorem vals_len (k : Bytes) (hk : ∀ b ∈ k, b ≠ 13) (vs : List Bytes) (rest : Bytes) :
    (splitCRLF (vs.flatMap (fun v => k ++ (strBytes ": " ++ (scrub v ++ crlf))) ++ rest) []).length =
      vs.length + (splitCRLF rest []).length := by
  induction vs with
  | nil => simp
  | cons v vs ih =>
    simp only [List.flatMap_cons, List.append_assoc, List.length_cons]
    rw [← List.append_assoc k, ← List.append_assoc (k ++ _), splitCRLF_line_len, ih]
    · omega
    · intro b hb
      simp only [List.mem_append] at hb
      rcases hb with (hb | hb) | hb
      · exact hk b hb
      · revert b; decide +kernel
      · exact scrub_ne_cr v b hb

theorem hdrs_len (l : List (Bytes × List Bytes)) (hk : ∀ p ∈ l, ∀ b ∈ p.1, b ≠ 13) (rest : Bytes) :
    (splitCRLF (l.flatMap (fun p => p.2.flatMap (fun v => p.1 ++ (strBytes ": " ++ (scrub v ++ crlf)))) ++ rest) []).length =
      (l.map (fun p => p.2.length)).sum + (splitCRLF rest []).length := by
  induction l with
  | nil => simp
  | cons p l ih =>
    simp only [List.flatMap_cons, List.append_assoc, List.map_cons, List.sum_cons]
    rw [vals_len p.1 (hk p (by simp)), ih (fun q hq => hk q (by simp [hq]))]
    omega

theorem head_lit :
    strBytes "HTTP/1.1 101 Switching Protocols\r\nUpgrade: websocket\r\nConnection: Upgrade\r\nSec-WebSocket-Accept: " =
    strBytes "HTTP/1.1 101 Switching Protocols" ++ (crlf ++ (strBytes "Upgrade: websocket" ++ (crlf ++
      (strBytes "Connection: Upgrade" ++ (crlf ++ strBytes "Sec-WebSocket-Accept: "))))) := by
  decide +kernel

theorem ext_lit :
    strBytes "Sec-WebSocket-Extensions: permessage-deflate; server_no_context_takeover; client_no_context_takeover\r\n" =
    strBytes "Sec-WebSocket-Extensions: permessage-deflate; server_no_context_takeover; client_no_context_takeover" ++ crlf := by
  decide +kernel

theorem tail_len : (splitCRLF crlf []).length = 2 := by decide

/-- C12 `no_injection`: whatever bytes the application puts into header *values* and into the
    subprotocol, the 101 response consists of exactly the status line, the three fixed headers, the
    optional subprotocol and extension lines, one line per application-supplied value, and the
    empty line that ends the header block. (Header *names* supplied by the application and the
    accept token are assumed free of CR.) -/
theorem no_injection (accept sub : Bytes) (compress : Bool) (rh : RespHdr)
    (ha : ∀ b ∈ accept, b ≠ 13)
    (hk : ∀ l, rh = some l → ∀ p ∈ l, ∀ b ∈ p.1, b ≠ 13) :
    (splitCRLF (response101 accept sub compress rh) []).length =
      4 + (if sub.isEmpty then 0 else 1) + (if compress then 1 else 0) + rhLines rh + 2 := by
  unfold response101
  rw [head_lit]
  simp only [List.append_assoc]
  rw [splitCRLF_line_len _ _ (by decide +kernel), splitCRLF_line_len _ _ (by decide +kernel),
    splitCRLF_line_len _ _ (by decide +kernel)]
  have hacc : ∀ b ∈ strBytes "Sec-WebSocket-Accept: " ++ accept, b ≠ 13 := by
    intro b hb
    simp only [List.mem_append] at hb
    rcases hb with hb | hb
    · revert b; decide +kernel
    · exact ha b hb
  rw [← List.append_assoc _ accept, splitCRLF_line_len _ _ hacc]
  have hc : ∀ rest, (splitCRLF ((if compress then strBytes "Sec-WebSocket-Extensions: permessage-deflate; server_no_context_takeover; client_no_context_takeover\r\n" else []) ++ rest) []).length
      = (if compress then 1 else 0) + (splitCRLF rest []).length := by
    intro rest
    cases compress with
    | false => simp
    | true =>
      simp only [if_true, ext_lit, List.append_assoc]
      rw [splitCRLF_line_len _ _ (by decide +kernel)]
  have hs : ∀ rest, (splitCRLF ((if sub.isEmpty then [] else strBytes "Sec-WebSocket-Protocol: " ++ (scrub sub ++ crlf)) ++ rest) []).length
      = (if sub.isEmpty then 0 else 1) + (splitCRLF rest []).length := by
    intro rest
    split
    · simp
    · simp only [List.append_assoc]
      rw [← List.append_assoc _ (scrub sub), splitCRLF_line_len]
      intro b hb
      simp only [List.mem_append] at hb
      rcases hb with hb | hb
      · revert b; decide +kernel
      · exact scrub_ne_cr sub b hb
  rw [hs, hc]
  cases rh with
  | none =>
    simp only [rhLines, List.nil_append, tail_len]
    omega
  | some l =>
    simp only [rhLines]
    rw [hdrs_len _ (fun p hp => hk l rfl p (List.mem_filter.mp hp).1), tail_len]
    omega

theorem b64Char_ok (n : Nat) : Spec.b64Char n ≠ 13 ∧ Spec.b64Char n ≠ 10 := by
  by_cases h : n < 64
  · have : ∀ m : Fin 64, Spec.b64Char m.val ≠ 13 ∧ Spec.b64Char m.val ≠ 10 := by decide
    exact this ⟨n, h⟩
  · have : Spec.b64Char n = 47 := by
      unfold Spec.b64Char
      repeat' split
      all_goals first | omega | rfl
    rw [this]; decide

/-- base64 output never contains CR or LF, so the accept token cannot break a line -/
theorem base64_no_crlf (xs : Bytes) : ∀ b ∈ Spec.base64 xs, b ≠ 13 ∧ b ≠ 10 := by
  fun_induction Spec.base64 xs with
  | case1 a b c rest n ih =>
    intro x hx
    simp only [List.cons_append, List.nil_append, List.mem_cons] at hx
    rcases hx with rfl | rfl | rfl | rfl | hx
    · exact b64Char_ok _
    · exact b64Char_ok _
    · exact b64Char_ok _
    · exact b64Char_ok _
    · exact ih x hx
  | case2 a b n =>
    intro x hx
    simp only [List.mem_cons, List.not_mem_nil, or_false] at hx
    rcases hx with rfl | rfl | rfl | rfl
    · exact b64Char_ok _
    · exact b64Char_ok _
    · exact b64Char_ok _
    · decide
  | case3 a n =>
    intro x hx
    simp only [List.mem_cons, List.not_mem_nil, or_false] at hx
    rcases hx with rfl | rfl | rfl | rfl
    · exact b64Char_ok _
    · exact b64Char_ok _
    · decide
    · decide
  | case4 => simp

/-! ### C14 / C15: client decision -/

/-- Dial accepts the reply exactly when status, Upgrade, Connection and Accept prove that the server
    accepted *this* request's key, and the compression answer is acceptable -/
theorem checkReply_ok_iff (key : Bytes) (r : Reply) :
    (∃ d, checkReply key r = .ok d) ↔
      (r.status = 101 ∧
       tokenListContainsValue (r.values "Upgrade") (strBytes "websocket") = true ∧
       tokenListContainsValue (r.values "Connection") (strBytes "upgrade") = true ∧
       r.get "Sec-Websocket-Accept" = Spec.acceptKey Gen.keyGUID key ∧
       (∀ e, (parseExtensions (r.values "Sec-Websocket-Extensions")).find? (fun e => e.name == strBytes "permessage-deflate") = some e →
          e.has (strBytes "server_no_context_takeover") = true ∧ e.has (strBytes "client_no_context_takeover") = true)) := by
  unfold checkReply
  generalize (parseExtensions (r.values "Sec-Websocket-Extensions")).find? (fun e => e.name == strBytes "permessage-deflate") = fo
  generalize tokenListContainsValue (r.values "Upgrade") (strBytes "websocket") = c1
  generalize tokenListContainsValue (r.values "Connection") (strBytes "upgrade") = c2
  by_cases hs : r.status = 101 <;> by_cases ha : r.get "Sec-Websocket-Accept" = Spec.acceptKey Gen.keyGUID key <;>
    cases c1 <;> cases c2 <;> simp [hs, ha]
  cases fo with
  | none => simp
  | some e =>
    simp only [Option.some.injEq, forall_eq']
    generalize e.has (strBytes "server_no_context_takeover") = x
    generalize e.has (strBytes "client_no_context_takeover") = y
    cases x <;> cases y <;> simp

/-- the client compresses iff the reply carries permessage-deflate (with both parameters) -/
theorem client_compress_iff (key : Bytes) (r : Reply) (d : Dialed) (h : checkReply key r = .ok d) :
    d.compress = ((parseExtensions (r.values "Sec-Websocket-Extensions")).any (fun e => e.name == strBytes "permessage-deflate")) := by
  revert h
  unfold checkReply
  split
  · simp
  split
  · rename_i e he
    split
    · simp
    · intro h
      injection h with h
      subst h
      simp only
      symm
      rw [List.any_eq_true]
      exact ⟨e, List.mem_of_find?_eq_some he, List.find?_some (p := fun (e : Ext) => e.name == strBytes "permessage-deflate") he⟩
  · rename_i he
    intro h
    injection h with h
    subst h
    simp only
    symm
    rw [List.find?_eq_none] at he
    rw [List.any_eq_false]
    exact he

/-- URLs that are not ws / wss, or that carry userinfo, are refused before anything is assembled -/
theorem bad_url_refused (d : DCfg) (u : Url) (key : Bytes) (caller : Client.Hdr)
    (h : (u.scheme ≠ strBytes "ws" ∧ u.scheme ≠ strBytes "wss") ∨ u.hasUser = true) :
    buildRequest d u key caller = .error .malformedURL := by
  unfold buildRequest
  split
  · rfl
  · rename_i h1
    split
    · rfl
    · rename_i h2
      simp at h1
      rcases h with ⟨ha, hb⟩ | h
      · exact absurd (h1 ha) hb
      · exact absurd h h2

theorem canon_lits (d : DCfg) (k : Bytes) (hf : forbidden d k = true) : canonicalKey k = k := by
  unfold forbidden at hf
  simp only [Bool.or_eq_true, Bool.and_eq_true, beq_iff_eq] at hf
  rcases hf with ((((h | h) | h) | h) | h) | ⟨h, _⟩ <;> subst h <;> decide +kernel

/-- a caller header map containing a protocol-owned (canonical) key is refused -/
theorem forbidden_refused (d : DCfg) (u : Url) (key : Bytes) (caller : Client.Hdr) (k : Bytes) (vs : List Bytes)
    (hu : (u.scheme = strBytes "ws" ∨ u.scheme = strBytes "wss") ∧ u.hasUser = false)
    (hk : (k, vs) ∈ caller) (hf : forbidden d k = true) (hh : k ≠ strBytes "Host") :
    buildRequest d u key caller = .error .duplicateHeader := by
  unfold buildRequest
  split
  · rename_i h1
    simp at h1
    rcases hu.1 with h | h
    · exact absurd h h1.1
    · exact absurd h h1.2
  split
  · rename_i h2
    rw [hu.2] at h2
    exact absurd h2 (by simp)
  simp only
  split
  · rfl
  · rename_i h3
    exfalso
    apply h3
    rw [List.any_eq_true]
    exact ⟨(k, vs), hk, by simp [canon_lits d k hf, hf, hh]⟩

/-- C15: what the Dialer offers is accepted by the Upgrader's negotiation, and what the Upgrader
    announces is accepted by the Dialer — evaluated on the literals found in today's source -/
theorem offer_literal_negotiates :
    (parseExtensions [strBytes "permessage-deflate; server_no_context_takeover; client_no_context_takeover"]).any
      (fun e => e.name == strBytes "permessage-deflate") = true := by
  decide +kernel

theorem announce_literal_accepted :
    ((parseExtensions [strBytes "permessage-deflate; server_no_context_takeover; client_no_context_takeover"]).find?
        (fun e => e.name == strBytes "permessage-deflate")).map
      (fun e => e.has (strBytes "server_no_context_takeover") && e.has (strBytes "client_no_context_takeover")) = some true := by
  decide +kernel

end WS.HttpLogic
