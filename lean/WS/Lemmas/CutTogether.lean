import WS.Lemmas.CutProgram
/-
  Toward `cut_program_never_complete_fits_anyend_partial` (the corner `together = true ∧ cut = 0`):
  one-Read lemmas that hold without the `St.tog` field. A Read inside a data frame that returns an
  error (with or without bytes) latches that error on the connection; it reports io.EOF only when the
  frame is final, the Read took all of its remaining bytes and the source said io.EOF; after it nothing
  more is reported complete.
-/
namespace WS.CutTogether
open WS WS.Codec WS.ReaderDecodes WS.ReadProgram WS.CutProgram

/-- one Read inside a data frame (`remaining > 0`, nothing latched): what it returns, and that a
    returned error is latched -/
theorem read_in_frame (f : Nat) (c : Conn) (rid k : Nat) (hne : c.r.readErr = none) (hrem : c.r.remaining > 0) :
    ∃ out e' c', mrReadLoop (f + 1) c rid k = ((out, e'), c') ∧ c'.r.readErr = e' ∧
      c'.r.msgReader = c.r.msgReader ∧
      out.length = (c.r.buf.read (min k c.r.remaining.toNat)).1.length ∧
      (e' = some .eof → c.r.final = true ∧
        c.r.remaining ≤ ((c.r.buf.read (min k c.r.remaining.toNat)).1.length : Int) ∧
        (c.r.buf.read (min k c.r.remaining.toNat)).2.1 = some .eof) := by
  generalize hr : c.r.buf.read (min k c.r.remaining.toNat) = r
  obtain ⟨bs, e, b⟩ := r
  unfold mrReadLoop
  simp only [hne, hrem, if_true, hr]
  refine ⟨_, _, _, rfl, rfl, rfl, ?_, ?_⟩
  · split <;> simp [maskFrom_length]
  · intro h
    by_cases hc : (c.r.remaining - (bs.length : Int) > 0 || !c.r.final) = true ∧ e = some RErr.eof
    · rw [if_pos (by simpa using hc)] at h
      cases h
    · rw [if_neg (by simpa using hc)] at h
      subst h
      simp only [Bool.or_eq_true, decide_eq_true_eq, Bool.not_eq_true',
        and_true, not_or] at hc
      refine ⟨by simpa using hc.2, ?_, rfl⟩
      omega

/-- program level: once a Read inside a data frame returns an error, the only message still reported
    complete is the one being read, and only when that error is io.EOF (then with the bytes returned
    together with it appended) -/
theorem read_err_tail (c : Conn) (rid k : Nat) (ops : List ROp) (t : Nat) (acc : Bytes)
    (hm : c.r.msgReader = some rid) (hne : c.r.readErr = none) (hrem : c.r.remaining > 0)
    (bs : Bytes) (e : RErr) (c' : Conn) (hr : mrRead c rid (k + 1) = ((bs, some e), c')) :
    completedAux (runProg (.read k :: ops) c (some rid)).1 (some (t, acc)) =
      if e = .eof then [(t, acc ++ bs)] else [] := by
  obtain ⟨out, e', c1, h1, h2, _, _, _⟩ := read_in_frame c.fuel c rid (k + 1) hne hrem
  have hr' : mrReadLoop (c.fuel + 1) c rid (k + 1) = ((bs, some e), c') := by
    rw [← hr]; unfold mrRead; rw [if_neg (by simp [hm])]
  rw [h1] at hr'
  injection hr' with ha hb
  injection ha with ha1 ha2
  subst hb ha1 ha2
  have hl := latched_nil e ops c1 (some rid) h2
  simp only [runProg, hr]
  by_cases he : e = .eof
  · subst he
    rw [if_pos rfl]
    show (t, acc ++ out) :: completedAux (runProg ops c1 (some rid)).1 none = _
    rw [hl]
  · rw [if_neg he, cA_ret_err _ _ _ _ he]
    exact hl

end WS.CutTogether
