import WS.Model.Source
import WS.Lemmas.SrcT
/-
  Stream law of the bufio model (refinement L0 ⊑ L1): the byte source the reader sees behaves like
  a plain byte stream `pending` with a terminal error delivered after all bytes before it, whatever
  the transport chunking, buffer size and read sizes are.

-/
namespace WS.SrcLaw
open WS

/-- well-formed source: non-empty chunks, buffer within its size, an error is latched only once the
    transport script is exhausted (and then it is the terminal error) -/
structure WF (b : Buf) : Prop where
  size_pos : 0 < b.size
  len_le : b.buf.length ≤ b.size
  chunks : ∀ c ∈ b.t.chunks, c ≠ []
  latched : ∀ e, b.err = some e → b.t.chunks = [] ∧ e = b.t.term

/-- size and terminal error never change -/
def Same (b b' : Buf) : Prop := b'.size = b.size ∧ b'.t.term = b.t.term ∧ b'.t.together = b.t.together

/-- what Conn.read reports for the terminal error -/
def mapEOF (e : RErr) : RErr := if e = .eof then .unexpectedEOF else e

theorem Same.refl (b : Buf) : Same b b := ⟨rfl, rfl, rfl⟩

theorem Same.trans {a b c : Buf} (h1 : Same a b) (h2 : Same b c) : Same a c :=
  ⟨h2.1.trans h1.1, h2.2.1.trans h1.2.1, h2.2.2.trans h1.2.2⟩

theorem tpending_nil_iff (t : TSrc) (hc : ∀ c ∈ t.chunks, c ≠ []) : t.pending = [] ↔ t.chunks = [] := by
  unfold TSrc.pending
  constructor
  · intro h
    cases hch : t.chunks with
    | nil => rfl
    | cons c rest =>
      rw [hch] at h
      have := hc c (by simp [hch])
      simp at h
      exact absurd h.1 this
  · intro h; rw [h]; rfl

theorem fill_eq (b : Buf) : b.fill =
    { b with buf := b.buf ++ (b.t.read (b.size - b.buf.length)).1,
             err := (b.t.read (b.size - b.buf.length)).2.1,
             t := (b.t.read (b.size - b.buf.length)).2.2 } := rfl

theorem fill_spec (b : Buf) (h : WF b) (hroom : b.buf.length < b.size) :
    b.fill.pending = b.pending ∧ WF b.fill ∧ Same b b.fill ∧
    (b.buf.length < b.fill.buf.length ∨ b.fill.err.isSome) := by
  have hr : 0 < b.size - b.buf.length := by omega
  obtain ⟨h1, h2, h3, h4, h5, h6, h7, h8⟩ := tread_spec b.t _ hr h.chunks
  rw [fill_eq]
  refine ⟨?_, ⟨?_, ?_, ?_, ?_⟩, ⟨rfl, h7, h8⟩, ?_⟩
  · simp only [Buf.pending]
    rw [List.append_assoc, h1]
  · exact h.size_pos
  · simp only [List.length_append]; omega
  · exact h6
  · intro e he
    have := h4 e he
    exact ⟨this.1, by rw [this.2, h7]⟩
  · by_cases hch : b.t.chunks = []
    · right; simp [(h5 hch).1]
    · left
      have := h3 hch
      have : 0 < (b.t.read (b.size - b.buf.length)).1.length := List.length_pos_iff.mpr this
      simp only [List.length_append]; omega

theorem peekLoop_err (fuel : Nat) (b : Buf) (n : Nat) (he : b.err.isSome) : b.peekLoop fuel n = b := by
  cases fuel with
  | zero => rfl
  | succ f =>
    unfold Buf.peekLoop
    have : b.err.isNone = false := by
      cases hb : b.err with
      | none => simp [hb] at he
      | some e => rfl
    simp [this]

theorem peekLoop_spec (fuel : Nat) : ∀ (b : Buf) (n : Nat), WF b → n < fuel + b.buf.length →
    (b.peekLoop fuel n).pending = b.pending ∧ WF (b.peekLoop fuel n) ∧ Same b (b.peekLoop fuel n) ∧
    (n ≤ (b.peekLoop fuel n).buf.length ∨ (b.peekLoop fuel n).size ≤ (b.peekLoop fuel n).buf.length ∨
      (b.peekLoop fuel n).err.isSome) := by
  induction fuel with
  | zero =>
    intro b n h hn
    refine ⟨rfl, h, Same.refl b, ?_⟩
    left; show n ≤ b.buf.length; omega
  | succ f ih =>
    intro b n h hn
    unfold Buf.peekLoop
    split
    next hc =>
      simp only [Bool.and_eq_true, decide_eq_true_eq] at hc
      obtain ⟨⟨hc1, hc2⟩, hc3⟩ := hc
      obtain ⟨f1, f2, f3, f4⟩ := fill_spec b h hc2
      rcases f4 with f4 | f4
      · obtain ⟨i1, i2, i3, i4⟩ := ih b.fill n f2 (by omega)
        exact ⟨i1.trans f1, i2, f3.trans i3, i4⟩
      · rw [peekLoop_err f b.fill n f4]
        exact ⟨f1, f2, f3, Or.inr (Or.inr f4)⟩
    next hc =>
      refine ⟨rfl, h, Same.refl b, ?_⟩
      simp only [Bool.and_eq_true, decide_eq_true_eq, not_and] at hc
      by_cases h1 : b.buf.length < n
      · by_cases h2 : b.buf.length < b.size
        · right; right
          have := hc ⟨h1, h2⟩
          cases hb : b.err with
          | none => simp [hb] at this
          | some e => rfl
        · right; left; omega
      · left; omega


theorem pending_of_err (b : Buf) (h : WF b) (he : b.err.isSome) : b.pending = b.buf ∧ b.t.pending = [] := by
  cases hb : b.err with
  | none => simp [hb] at he
  | some e =>
    have := (h.latched e hb).1
    simp [Buf.pending, TSrc.pending, this]

theorem take_ok (b : Buf) (h : WF b) (n : Nat) (hn : n ≤ b.size) (hp : n ≤ b.pending.length) :
    (b.take n).1 = b.pending.take n ∧ (b.take n).2.1 = none ∧
    (b.take n).2.2.pending = b.pending.drop n ∧ WF (b.take n).2.2 ∧ Same b (b.take n).2.2 := by
  obtain ⟨p1, p2, p3, p4⟩ := peekLoop_spec (n + 1) b n h (by omega)
  have hsz : (b.peekLoop (n + 1) n).size = b.size := p3.1
  have hlen : n ≤ (b.peekLoop (n + 1) n).buf.length := by
    rcases p4 with p4 | p4 | p4
    · exact p4
    · omega
    · have := (pending_of_err _ p2 p4).1
      rw [← this, p1]; exact hp
  unfold Buf.take
  simp only []
  rw [if_neg (by omega), if_pos hlen]
  refine ⟨?_, rfl, ?_, ⟨?_, ?_, ?_, ?_⟩, ?_⟩
  · rw [← p1]; simp only [Buf.pending]
    rw [List.take_append_of_le_length hlen]
  · rw [← p1]; simp only [Buf.pending]
    rw [List.drop_append_of_le_length hlen]
  · exact p2.size_pos
  · have := p2.len_le
    simp only [List.length_drop]; omega
  · exact p2.chunks
  · exact p2.latched
  · exact p3

theorem take_short (b : Buf) (h : WF b) (n : Nat) (hn : n ≤ b.size) (hp : b.pending.length < n) :
    (b.take n).1 = b.pending ∧ (b.take n).2.1 = some (mapEOF b.t.term) ∧
    (b.take n).2.2.pending = [] ∧ WF (b.take n).2.2 ∧ Same b (b.take n).2.2 := by
  obtain ⟨p1, p2, p3, p4⟩ := peekLoop_spec (n + 1) b n h (by omega)
  have hsz : (b.peekLoop (n + 1) n).size = b.size := p3.1
  have hble : (b.peekLoop (n + 1) n).buf.length ≤ b.pending.length := by
    rw [← p1]; simp [Buf.pending]
  have herr : (b.peekLoop (n + 1) n).err.isSome := by
    rcases p4 with p4 | p4 | p4
    · omega
    · omega
    · exact p4
  obtain ⟨q1, q2⟩ := pending_of_err _ p2 herr
  unfold Buf.take
  simp only []
  rw [if_neg (by omega), if_neg (by omega)]
  cases hb : (b.peekLoop (n + 1) n).err with
  | none => simp [hb] at herr
  | some e =>
    obtain ⟨l1, l2⟩ := p2.latched e hb
    refine ⟨?_, ?_, ?_, ⟨?_, ?_, ?_, ?_⟩, ?_⟩
    · rw [← p1, q1]
    · simp only [mapEOF, l2, p3.2.1]
    · simp only [Buf.pending, q2, List.append_nil]
    · exact p2.size_pos
    · simp
    · exact p2.chunks
    · intro e he; simp at he
    · exact p3

theorem read_spec (b : Buf) (h : WF b) (k : Nat) (hk : 0 < k) :
    (b.read k).1 ++ (b.read k).2.2.pending = b.pending ∧ (b.read k).1.length ≤ k ∧
    (b.pending ≠ [] → (b.read k).1 ≠ []) ∧
    (∀ e, (b.read k).2.1 = some e → (b.read k).2.2.pending = [] ∧ e = b.t.term) ∧
    (b.pending = [] → (b.read k).2.1 = some b.t.term) ∧
    WF (b.read k).2.2 ∧ Same b (b.read k).2.2 := by
  have hpn := tpending_nil_iff b.t h.chunks
  unfold Buf.read
  split
  next hemp =>
    have hbuf : b.buf = [] := by simpa using hemp
    have hpend : b.pending = b.t.pending := by simp [Buf.pending, hbuf]
    split
    next e he =>
      obtain ⟨l1, l2⟩ := h.latched e he
      have hp0 : b.t.pending = [] := hpn.mpr l1
      refine ⟨?_, ?_, ?_, ?_, ?_, ⟨h.size_pos, h.len_le, h.chunks, ?_⟩, Same.refl b⟩
      · simp [Buf.pending, hbuf, hp0]
      · simp
      · intro hne; rw [hpend, hp0] at hne; exact absurd rfl hne
      · intro e' he'
        simp at he'
        exact ⟨by simp [Buf.pending, hbuf, hp0], by rw [← he', l2]⟩
      · intro _; simp [l2]
      · intro e' he'; simp at he'
    next he =>
      split
      next hks =>
        obtain ⟨h1, h2, h3, h4, h5, h6, h7, h8⟩ := tread_spec b.t k hk h.chunks
        refine ⟨?_, h2, ?_, ?_, ?_, ⟨h.size_pos, h.len_le, h6, ?_⟩, ⟨rfl, h7, h8⟩⟩
        · simp only [Buf.pending, hbuf, List.nil_append]; exact h1
        · intro hne; rw [hpend] at hne
          exact h3 (fun hc => hne (hpn.mpr hc))
        · intro e' he'
          obtain ⟨a1, a2⟩ := h4 e' he'
          refine ⟨?_, a2⟩
          simp only [Buf.pending, hbuf, List.nil_append, TSrc.pending, a1, List.flatten_nil]
        · intro hp; rw [hpend] at hp
          exact (h5 (hpn.mp hp)).1
        · intro e' he'; simp only [he] at he'; exact absurd he' (by simp)
      next hks =>
        obtain ⟨h1, h2, h3, h4, h5, h6, h7, h8⟩ := tread_spec b.t b.size h.size_pos h.chunks
        simp only []
        split
        next hbs =>
          have hbs' : (b.t.read b.size).1 = [] := by simpa using hbs
          have hch : b.t.chunks = [] := by
            by_cases hc : b.t.chunks = []
            · exact hc
            · exact absurd hbs' (h3 hc)
          obtain ⟨c1, c2, c3⟩ := h5 hch
          have hp0 : b.t.pending = [] := hpn.mpr hch
          refine ⟨?_, ?_, ?_, ?_, ?_, ⟨h.size_pos, h.len_le, h6, ?_⟩, ⟨rfl, h7, h8⟩⟩
          · simp only [Buf.pending, hbuf, List.nil_append, c3]
          · simp
          · intro hne; rw [hpend, hp0] at hne; exact absurd rfl hne
          · intro e' he'
            obtain ⟨a1, a2⟩ := h4 e' he'
            refine ⟨?_, a2⟩
            simp only [Buf.pending, hbuf, List.nil_append, c3, hp0]
          · intro _; exact c1
          · intro e' he'; simp only [he] at he'; exact absurd he' (by simp)
        next hbs =>
          have hbs' : (b.t.read b.size).1 ≠ [] := by simpa using hbs
          refine ⟨?_, ?_, ?_, ?_, ?_, ⟨h.size_pos, ?_, h6, ?_⟩, ⟨rfl, h7, h8⟩⟩
          · simp only [Buf.pending]
            rw [← List.append_assoc, List.take_append_drop, hbuf, List.nil_append, h1]
          · simp only [List.length_take]; omega
          · intro _ hc
            have := congrArg List.length hc
            rw [List.length_take, List.length_nil] at this
            have : 0 < (b.t.read b.size).1.length := List.length_pos_iff.mpr hbs'
            omega
          · intro e' he'; exact absurd he' (by simp)
          · intro hp; rw [hpend] at hp
            exact absurd (h5 (hpn.mp hp)).2.1 hbs'
          · simp only [List.length_drop]; omega
          · intro e' he'
            obtain ⟨a1, a2⟩ := h4 e' he'
            exact ⟨a1, by rw [a2, h7]⟩
  next hemp =>
    have hbuf : b.buf ≠ [] := by simpa using hemp
    have hpos : 0 < b.buf.length := List.length_pos_iff.mpr hbuf
    refine ⟨?_, ?_, ?_, ?_, ?_, ⟨h.size_pos, ?_, h.chunks, h.latched⟩, Same.refl b⟩
    · simp only [Buf.pending]
      rw [← List.append_assoc, List.take_append_drop]
    · simp only [List.length_take]; omega
    · intro _ hc
      have := congrArg List.length hc
      rw [List.length_take, List.length_nil] at this
      omega
    · intro e' he'; exact absurd he' (by simp)
    · intro hp
      simp [Buf.pending] at hp
      exact absurd hp.1 hbuf
    · have := h.len_le
      simp only [List.length_drop]; omega

theorem skipLoop_ok (fuel : Nat) : ∀ (b : Buf) (n : Nat), WF b → n < fuel → n ≤ b.pending.length →
    (b.skipLoop fuel n).1 = none ∧ (b.skipLoop fuel n).2.pending = b.pending.drop n ∧
    WF (b.skipLoop fuel n).2 ∧ Same b (b.skipLoop fuel n).2 := by
  induction fuel with
  | zero => intro b n _ hn; omega
  | succ f ih =>
    intro b n h hf hp
    unfold Buf.skipLoop
    split
    next hn0 => subst hn0; exact ⟨rfl, by simp, h, Same.refl b⟩
    next hn0 =>
      have hk : 0 < min 8192 n := by omega
      obtain ⟨r1, r2, r3, r4, r5, r6, r7⟩ := read_spec b h (min 8192 n) hk
      generalize hr : b.read (min 8192 n) = r at r1 r2 r3 r4 r5 r6 r7
      obtain ⟨bs, e, b'⟩ := r
      simp only [] at r1 r2 r3 r4 r5 r6 r7 ⊢
      have hlen : bs.length + b'.pending.length = b.pending.length := by
        rw [← r1, List.length_append]
      have hpne : b.pending ≠ [] := by
        intro hc; rw [hc] at hp; simp at hp; omega
      have hbs : 0 < bs.length := List.length_pos_iff.mpr (r3 hpne)
      have herr : ∀ e', e = some e' → (n - bs.length = 0) ∧ b'.pending = List.drop n b.pending := by
        intro e' he'
        obtain ⟨a1, a2⟩ := r4 e' he'
        rw [a1] at hlen
        simp at hlen
        refine ⟨by omega, ?_⟩
        rw [a1]; symm
        apply List.drop_eq_nil_of_le; omega
      split
      next =>
        obtain ⟨a1, a2⟩ := herr _ rfl
        exact ⟨by simp [a1], a2, r6, r7⟩
      next e' _ =>
        obtain ⟨a1, a2⟩ := herr _ rfl
        exact ⟨by simp [a1], a2, r6, r7⟩
      next =>
        rw [if_neg (by simpa using (r3 hpne))]
        obtain ⟨i1, i2, i3, i4⟩ := ih b' (n - bs.length) r6 (by omega) (by omega)
        refine ⟨i1, ?_, i3, r7.trans i4⟩
        rw [i2, ← r1, List.drop_append]
        have hm : min 8192 n ≤ n := by omega
        have : bs.length ≤ n := by omega
        rw [List.drop_eq_nil_of_le (by omega : bs.length ≤ n), List.nil_append]

theorem skipLoop_short (fuel : Nat) : ∀ (b : Buf) (n : Nat), WF b → n < fuel → b.pending.length < n →
    (b.skipLoop fuel n).1 = some b.t.term ∧ (b.skipLoop fuel n).2.pending = [] ∧
    WF (b.skipLoop fuel n).2 ∧ Same b (b.skipLoop fuel n).2 := by
  induction fuel with
  | zero => intro b n _ hn; omega
  | succ f ih =>
    intro b n h hf hp
    unfold Buf.skipLoop
    split
    next hn0 => omega
    next hn0 =>
      have hk : 0 < min 8192 n := by omega
      obtain ⟨r1, r2, r3, r4, r5, r6, r7⟩ := read_spec b h (min 8192 n) hk
      generalize hr : b.read (min 8192 n) = r at r1 r2 r3 r4 r5 r6 r7
      obtain ⟨bs, e, b'⟩ := r
      simp only [] at r1 r2 r3 r4 r5 r6 r7 ⊢
      have hlen : bs.length + b'.pending.length = b.pending.length := by
        rw [← r1, List.length_append]
      have herr : ∀ e', e = some e' → ¬ (n - bs.length = 0) ∧ b'.pending = [] ∧ e' = b.t.term := by
        intro e' he'
        obtain ⟨a1, a2⟩ := r4 e' he'
        rw [a1] at hlen
        simp at hlen
        exact ⟨by omega, a1, a2⟩
      split
      next =>
        obtain ⟨a1, a2, a3⟩ := herr _ rfl
        exact ⟨by rw [if_neg a1, a3], a2, r6, r7⟩
      next e' _ =>
        obtain ⟨a1, a2, a3⟩ := herr _ rfl
        exact ⟨by rw [if_neg a1, a3], a2, r6, r7⟩
      next =>
        have hpne : b.pending ≠ [] := by
          intro hc
          have := r5 hc
          exact absurd this (by simp)
        have hbs : 0 < bs.length := List.length_pos_iff.mpr (r3 hpne)
        rw [if_neg (by simpa using (r3 hpne))]
        obtain ⟨i1, i2, i3, i4⟩ := ih b' (n - bs.length) r6 (by omega) (by omega)
        exact ⟨by rw [i1, r7.2.1], i2, i3, r7.trans i4⟩

theorem skip_ok (b : Buf) (h : WF b) (n : Nat) (hp : n ≤ b.pending.length) :
    (b.skip n).1 = none ∧ (b.skip n).2.pending = b.pending.drop n ∧ WF (b.skip n).2 ∧ Same b (b.skip n).2 := by
  exact skipLoop_ok (n + 1) b n h (by omega) hp

theorem skip_short (b : Buf) (h : WF b) (n : Nat) (hp : b.pending.length < n) :
    (b.skip n).1 = some b.t.term ∧ (b.skip n).2.pending = [] ∧ WF (b.skip n).2 ∧ Same b (b.skip n).2 := by
  exact skipLoop_short (n + 1) b n h (by omega) hp

end WS.SrcLaw
