import WS.Model.Prepared
import WS.Lemmas.Content
import WS.Lemmas.Codec
/-
  C19: a PreparedMessage equals WriteMessage on every connection it is sent to.

-/
namespace WS.PreparedLogic
open WS WS.Content

theorem prepConn_idle (isServer : Bool) (level : Int) (keys : Bytes) (ki : Nat) :
    Idle (prepConn ⟨isServer, false, level⟩ keys ki) where
  healthy := rfl
  noFaults := rfl
  noWriter := rfl
  dead := by intro m hm; cases hm
  size := by
    show maxFrameHeaderSize < defaultWriteBufferSize + maxFrameHeaderSize ∧
      defaultWriteBufferSize + maxFrameHeaderSize < 2 ^ 40
    decide
  whole := ⟨[], rfl, rfl⟩
  plain := rfl

theorem lookup_append (pm : PM) (k : PKey) (img : Bytes) (x : PKey × Bytes) (h : pm.lookup k = some img) :
    ({ pm with cache := pm.cache ++ [x] } : PM).lookup k = some img := by
  unfold PM.lookup at h ⊢
  cases hf : pm.cache.find? (·.1 == k) with
  | none => rw [hf] at h; cases h
  | some y =>
    rw [hf] at h
    simp only [List.find?_append, hf, Option.some_or]
    exact h


/-- the key WritePreparedMessage uses is computed from the connection's state at the time of the call -/
theorem key_is_live (s : W) (pm : PM) :
    prepKey s pm = ⟨s.isServer, s.nego && s.enableWC && isData pm.t, s.level⟩ := by
  rfl

/-- an uncompressed image is, by construction, what WriteMessage writes on a fresh connection of that
    role with a 4096-byte write buffer -/
theorem render_is_writeMessage (k : PKey) (t : Int) (data keys : Bytes) (ki : Nat) :
    (renderPlain k t data keys ki).2.1 = (writeMessage (prepConn k keys ki) t data).2.wire := by
  rfl

/-- prepared_equiv (uncompressed keys, data messages): the image decodes to exactly one message with
    the type and payload given at creation, for every payload size (larger than the 4096-byte buffer
    included) and either role -/
theorem prepared_equiv_plain (isServer : Bool) (level : Int) (t : Nat) (ht : t = 1 ∨ t = 2) (data keys : Bytes) (ki : Nat)
    (hd : data.length < 2 ^ 40) :
    let r := renderPlain ⟨isServer, false, level⟩ t data keys ki
    r.1 = none ∧
    Spec.messages (Spec.decodePrefixAux r.2.1.length r.2.1) = [⟨t, false, data⟩] := by
  have hi : Idle (prepConn ⟨isServer, false, level⟩ keys ki) := prepConn_idle isServer level keys ki
  have h := writeMessage_roundtrip _ hi t ht data hd
  have hw : wireMessages (prepConn ⟨isServer, false, level⟩ keys ki) = [] := rfl
  rw [hw, List.nil_append] at h
  exact ⟨h.1, h.2.2.1⟩

/-- with no writer open the implicit close of `NextWriter` / `WriteMessage` / `WritePreparedMessage`
    does nothing -/
theorem closePrev_none (s : W) (dnp : List Bytes) (fullp : Bytes) (h : s.writer = none) :
    closePrev s dnp fullp = s := by
  unfold closePrev; rw [h]

/-- the send half: for a control type, or when the application left no writer open, it is exactly one
    `Conn.write` of the image under the connection's deadline (the behaviour before the repair of F8);
    for a data type with a writer open that writer is closed first -/
theorem writePreparedImage_eq (s : W) (t : Int) (img : Bytes) (dnp : List Bytes) (fullp : Bytes) :
    writePreparedImage s t img dnp fullp =
      connWrite (if isData t = true then closePrev s dnp fullp else s) t
        (if isData t = true then closePrev s dnp fullp else s).deadline img [] := rfl

theorem writePreparedImage_noWriter (s : W) (t : Int) (img : Bytes) (dnp : List Bytes) (fullp : Bytes)
    (h : isData t = false ∨ s.writer = none) :
    writePreparedImage s t img dnp fullp = connWrite s t s.deadline img [] := by
  rw [writePreparedImage_eq]
  rcases h with h | h
  · rw [h]; rfl
  · rw [closePrev_none s dnp fullp h]; split <;> rfl

/-- a cache hit sends the cached image (after the implicit close of an open writer, for a data message)
    in one transport write under the connection's deadline -/
theorem cached_image_sent (s : W) (pm : PM) (img : Bytes) (dnp : List Bytes) (fullp : Bytes)
    (h : pm.lookup (prepKey s pm) = some img) :
    writePrepared s pm none dnp fullp =
      ((writePreparedImage s pm.t img dnp fullp).1, (writePreparedImage s pm.t img dnp fullp).2, pm) := by
  unfold writePrepared
  simp only [h]

/-- cache_sound: sending never changes or removes an entry that is already cached, and never
    changes the type or the payload fixed at creation -/
theorem cache_monotone (s : W) (pm : PM) (env : Option (Bytes × Bytes)) (dnp : List Bytes) (fullp : Bytes)
    (k : PKey) (img : Bytes) (h : pm.lookup k = some img) :
    (writePrepared s pm env dnp fullp).2.2.lookup k = some img ∧ (writePrepared s pm env dnp fullp).2.2.t = pm.t ∧
    (writePrepared s pm env dnp fullp).2.2.data = pm.data := by
  have hl : ∀ x : PKey × Bytes, ({ pm with cache := pm.cache ++ [x] } : PM).lookup k = some img :=
    fun x => lookup_append pm k img x h
  unfold writePrepared
  dsimp only
  split
  · exact ⟨h, rfl, rfl⟩
  · split
    · split
      · exact ⟨h, rfl, rfl⟩
      · split
        · exact ⟨hl _, rfl, rfl⟩
        · exact ⟨h, rfl, rfl⟩
    · split
      · exact ⟨hl _, rfl, rfl⟩
      · exact ⟨hl _, rfl, rfl⟩

/-- an entry added for an uncompressed key is the rendering for exactly that key (never another key's image) -/
theorem cache_adds_own_key (s : W) (pm : PM) (env : Option (Bytes × Bytes)) (dnp : List Bytes) (fullp : Bytes)
    (hmiss : pm.lookup (prepKey s pm) = none) (hplain : (prepKey s pm).compress = false) :
    (writePrepared s pm env dnp fullp).2.2.cache =
      pm.cache ++ [(prepKey s pm, (renderPlain (prepKey s pm) pm.t pm.data s.keys s.keyIdx).2.1)] := by
  unfold writePrepared
  simp only [hmiss, hplain, Bool.false_eq_true, if_false]
  split
  · rename_i e img ki heq
    rw [heq]
  · rename_i img ki heq
    rw [heq]

/-- a compressed image supplied by the environment is cached only if it decodes to one complete,
    well-formed compressed message of the right type whose payload is the deflate stream minus its
    4-byte tail -/
theorem compressed_image_checked (k : PKey) (t : Int) (full keys : Bytes) (ki : Nat) (img : Bytes)
    (h : imageOk k t full keys ki img = true) :
    ∃ fs, Spec.decodeStream img = some fs ∧ Spec.WellFormed ⟨!k.isServer, true⟩ fs ∧
      Spec.messages fs = [⟨t.toNat, true, full.take (full.length - 4)⟩] := by
  unfold imageOk at h
  split at h
  · cases h
  · rename_i fs hfs
    simp only [Bool.and_eq_true, decide_eq_true_eq, beq_iff_eq] at h
    exact ⟨fs, hfs, h.1.1.1.1.1.1, h.1.1.1.1.1.2⟩

end WS.PreparedLogic
