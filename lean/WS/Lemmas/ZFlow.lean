import WS.Lemmas.Content
/-
  Generalisation of WS/Lemmas/Flow.lean to messages whose first frame may carry RSV1
  (`m.compress`), plus preservation of `enableWC` by every step of the write path.
-/
namespace WS.ZFlow
open WS WS.Codec WS.Stream WS.WireInv WS.Flow

/-! ### nothing on the write path touches `enableWC` -/

theorem writeFatal_wc (s : W) (e : WErr) : (writeFatal s e).enableWC = s.enableWC := by
  unfold writeFatal; split <;> rfl

theorem tSetWD_wc (s : W) (d : Int) : (tSetWD s d).2.enableWC = s.enableWC := by
  unfold tSetWD; dsimp only; split <;> rfl

theorem tWrite_wc (s : W) (b : Bytes) : (tWrite s b).2.enableWC = s.enableWC := by
  unfold tWrite; dsimp only; split <;> rfl

theorem writeBufs_wc (s : W) (b0 b1 : Bytes) : (writeBufs s b0 b1).2.enableWC = s.enableWC := by
  unfold writeBufs
  split
  · exact tWrite_wc s b0
  · have h0 := tWrite_wc s b0
    split
    · rename_i e s1 heq; rw [heq] at h0; exact h0
    · rename_i s1 heq; rw [heq] at h0
      rw [tWrite_wc]; exact h0

theorem connWrite_wc (s : W) (ft d : Int) (b0 b1 : Bytes) : (connWrite s ft d b0 b1).2.enableWC = s.enableWC := by
  unfold connWrite
  split
  · rfl
  · have h1 := tSetWD_wc s d
    split
    · rename_i e s1 heq; rw [heq] at h1
      show (writeFatal s1 e).enableWC = _
      rw [writeFatal_wc]; exact h1
    · rename_i s1 heq; rw [heq] at h1
      have h2 := writeBufs_wc s1 b0 b1
      split
      · rename_i e s2 heq2; rw [heq2] at h2
        show (writeFatal s2 e).enableWC = _
        rw [writeFatal_wc]; exact h2.trans h1
      · rename_i s2 heq2; rw [heq2] at h2
        dsimp only
        split
        · rw [writeFatal_wc]; exact h2.trans h1
        · exact h2.trans h1

theorem frameWrite_wc (s : W) (m : MW) (final : Bool) (extra : Bytes) :
    (frameWrite s m final extra).2.enableWC = s.enableWC := by
  unfold frameWrite
  dsimp only
  split
  · exact connWrite_wc ..
  · split
    · show (writeFatal (newKey s).2 .internalExtra).enableWC = _
      rw [writeFatal_wc]; rfl
    · rw [connWrite_wc]; rfl

theorem poolPut_wc (s : W) : (poolPut s).enableWC = s.enableWC := by
  unfold poolPut; split <;> rfl

theorem poolGet_wc (s : W) : (poolGet s).enableWC = s.enableWC := by
  unfold poolGet; split <;> rfl

theorem ensureBuf_wc (s : W) : (ensureBuf s).enableWC = s.enableWC := by
  unfold ensureBuf; split
  · exact poolGet_wc s
  · rfl

theorem endMessage_wc (s : W) (m : MW) (e : WErr) : (endMessage s m e).1.enableWC = s.enableWC := by
  unfold endMessage
  split
  · rfl
  · dsimp only
    split
    · rw [poolPut_wc]
    · rfl

theorem flushFrame_wc (s : W) (m : MW) (final : Bool) (extra : Bytes) :
    (flushFrame s m final extra).2.1.enableWC = s.enableWC := by
  unfold flushFrame
  split
  · exact endMessage_wc ..
  · have h := frameWrite_wc s m final extra
    split
    · rename_i e s1 heq; rw [heq] at h
      show (endMessage s1 _ e).1.enableWC = _
      rw [endMessage_wc]; exact h
    · rename_i s1 heq; rw [heq] at h
      split
      · show (endMessage s1 _ _).1.enableWC = _
        rw [endMessage_wc]; exact h
      · exact h

theorem ncopyPrep_wc (s : W) (m : MW) : (ncopyPrep s m).2.1.enableWC = s.enableWC := by
  unfold ncopyPrep; split
  · exact flushFrame_wc ..
  · rfl

theorem copyLoop_wc (s : W) (m : MW) (p : Bytes) : (copyLoop s m p).2.1.enableWC = s.enableWC := by
  induction hl : p.length using Nat.strongRecOn generalizing s m p with
  | _ n ih =>
    unfold copyLoop
    split
    · rfl
    · rename_i hp
      have hpre := ncopyPrep_wc s m
      split
      · rename_i e s' m' heq; rw [heq] at hpre; exact hpre
      · rename_i s' m' heq; rw [heq] at hpre
        have hpl : p.length ≠ 0 := by simpa using hp
        split
        · exact hpre
        · rename_i hn
          have hdl : (p.drop (min (s'.cap - m'.buf.length) p.length)).length < n := by
            simp only [List.length_drop]; omega
          rw [ih _ hdl _ _ _ rfl]; exact hpre

theorem mwWrite_wc (s : W) (m : MW) (p : Bytes) : (mwWrite s m p).2.1.enableWC = s.enableWC := by
  unfold mwWrite
  split
  · rfl
  · split
    · exact flushFrame_wc ..
    · exact copyLoop_wc ..

theorem mwClose_wc (s : W) (m : MW) : (mwClose s m).2.1.enableWC = s.enableWC := by
  unfold mwClose
  split
  · rfl
  · exact flushFrame_wc ..

theorem feed_wc (s : W) (m : MW) (cs : List Bytes) : (feed s m cs).2.1.enableWC = s.enableWC := by
  induction cs generalizing s m with
  | nil => rfl
  | cons c cs ih =>
    unfold feed
    have h := mwWrite_wc s m c
    split
    · rename_i e s1 m1 heq; rw [heq] at h; exact h
    · rename_i s1 m1 heq; rw [heq] at h
      rw [ih]; exact h

/-! ### spec-side bookkeeping for a first frame that may carry RSV1 -/

theorem msgs_first_nonfinal (sv : Bool) (t : Nat) (ht : t = 1 ∨ t = 2) (z : Bool) (key : Key) (payload : Bytes) :
    Spec.messagesAux none [frameOf sv (t + (if z = true then 64 else 0)) key payload] = [] ∧
    Spec.controls [frameOf sv (t + (if z = true then 64 else 0)) key payload] = [] ∧
    curAfter none [frameOf sv (t + (if z = true then 64 else 0)) key payload] =
      some { opcode := t, compressed := z, payload := payload } := by
  rcases ht with rfl | rfl <;> cases z <;>
    simp [Spec.messagesAux, Spec.controls, curAfter, frameOf, Spec.isControlOp]

theorem msgs_first_final (sv : Bool) (t : Nat) (ht : t = 1 ∨ t = 2) (z : Bool) (key : Key) (payload : Bytes) :
    Spec.messagesAux none [frameOf sv (t + 128 + (if z = true then 64 else 0)) key payload] =
      [{ opcode := t, compressed := z, payload := payload }] ∧
    Spec.controls [frameOf sv (t + 128 + (if z = true then 64 else 0)) key payload] = [] ∧
    curAfter none [frameOf sv (t + 128 + (if z = true then 64 else 0)) key payload] = none := by
  rcases ht with rfl | rfl <;> cases z <;>
    simp [Spec.messagesAux, Spec.controls, curAfter, frameOf, Spec.isControlOp]

theorem msgs_cont_nonfinal (m : Spec.Msg) (sv : Bool) (key : Key) (payload : Bytes) :
    Spec.messagesAux (some m) [frameOf sv 0 key payload] = [] ∧
    Spec.controls [frameOf sv 0 key payload] = [] ∧
    curAfter (some m) [frameOf sv 0 key payload] = some { m with payload := m.payload ++ payload } := by
  simp [Spec.messagesAux, Spec.controls, curAfter, frameOf, Spec.isControlOp]

theorem msgs_cont_final (m : Spec.Msg) (sv : Bool) (key : Key) (payload : Bytes) :
    Spec.messagesAux (some m) [frameOf sv (0 + 128) key payload] = [{ m with payload := m.payload ++ payload }] ∧
    Spec.controls [frameOf sv (0 + 128) key payload] = [] ∧
    curAfter (some m) [frameOf sv (0 + 128) key payload] = none := by
  simp [Spec.messagesAux, Spec.controls, curAfter, frameOf, Spec.isControlOp]

/-! ### frameWrite / flushFrame on a healthy connection, RSV1 allowed -/

theorem frameWrite_okZ (s : W) (m : MW) (final : Bool) (extra : Bytes) (he : s.writeErr = none)
    (hf : s.faults = []) (hft : m.ft < 8)
    (hx : s.isServer = true ∨ extra = []) :
    ∃ key, (frameWrite s m final extra).1 = none ∧ Keep s (frameWrite s m final extra).2 ∧
      (frameWrite s m final extra).2.wire =
        s.wire ++ encode s.isServer (m.ft + (if final = true then 128 else 0) + (if m.compress = true then 64 else 0)) key (m.buf ++ extra) ∧
      (frameWrite s m final extra).2.writer = s.writer := by
  have h1 : Gen.finalBit.toNat = 128 := by decide
  have h2 : Gen.rsv1Bit.toNat = 64 := by decide
  unfold frameWrite
  dsimp only
  split
  · rename_i hsv
    have h := connWrite_ok s m.ft s.deadline
      (header true (m.ft + (if final then Gen.finalBit.toNat else 0) + (if m.compress then Gen.rsv1Bit.toNat else 0))
        (m.buf.length + extra.length) default ++ m.buf) extra he hf (ne8_small _ hft)
    refine ⟨default, h.1, h.2.1, ?_, h.2.2.2⟩
    rw [h.2.2.1, hsv, h1, h2]
    simp [encode, List.length_append]
  · rename_i hsv
    have hsv' : s.isServer = false := by simpa using hsv
    have hex : extra = [] := by
      rcases hx with h | h
      · rw [h] at hsv'; cases hsv'
      · exact h
    subst hex
    simp only [List.isEmpty_nil, Bool.not_true, Bool.false_eq_true, if_false]
    have h := connWrite_ok (newKey s).2 m.ft (newKey s).2.deadline
      (header false (m.ft + (if final then Gen.finalBit.toNat else 0) + (if m.compress then Gen.rsv1Bit.toNat else 0))
        (m.buf.length + ([] : Bytes).length) (newKey s).1 ++ maskFrom (newKey s).1 0 m.buf) [] he hf (ne8_small _ hft)
    refine ⟨(newKey s).1, h.1, (Keep.newKey s).trans h.2.1, ?_, h.2.2.2⟩
    rw [h.2.2.1, hsv', h1, h2]
    simp [encode]
    rfl

/-- the messageWriter-level invariant while a data message of opcode `t` is being written; `z` =
    the message is compressed (RSV1 goes on the first frame only) -/
structure MidZ (s : W) (m : MW) (t : Nat) (z : Bool) (M : List Spec.Msg) (C : List (Nat × Bytes)) (acc : Bytes) : Prop where
  healthy : s.writeErr = none
  noFaults : s.faults = []
  size : maxFrameHeaderSize < s.wbufLen ∧ s.wbufLen < 2 ^ 40
  err : m.err = none
  buflen : m.buf.length ≤ s.cap
  wire : ∃ flushed, flushed ++ m.buf = acc ∧
    ((m.ft = t ∧ m.compress = z ∧ flushed = [] ∧ WireSt s.wire M C none) ∨
     (m.ft = 0 ∧ m.compress = false ∧ WireSt s.wire M C (some ⟨t, z, flushed⟩)))

theorem MidZ.ft_lt {s m t z M C acc} (h : MidZ s m t z M C acc) (ht : t = 1 ∨ t = 2) : m.ft < 3 := by
  obtain ⟨_, _, hw⟩ := h.wire
  rcases hw with ⟨h1, _⟩ | ⟨h1, _⟩ <;> omega

theorem MidZ.cap_lt {s m t z M C acc} (h : MidZ s m t z M C acc) : s.cap < 2 ^ 40 ∧ 0 < s.cap := by
  have := h.size
  unfold W.cap
  omega

theorem MidZ.congr {s s' m t z M C acc} (h : MidZ s m t z M C acc) (h1 : s'.writeErr = s.writeErr)
    (h2 : s'.faults = s.faults) (h3 : s'.wbufLen = s.wbufLen) (h4 : s'.wire = s.wire) : MidZ s' m t z M C acc := by
  refine ⟨h1.trans h.healthy, h2.trans h.noFaults, by rw [h3]; exact h.size, h.err, ?_, ?_⟩
  · unfold W.cap; rw [h3]; exact h.buflen
  · rw [h4]; exact h.wire

theorem MidZ.extend {s m t z M C acc} (h : MidZ s m t z M C acc) (chunk : Bytes)
    (hc : chunk.length ≤ s.cap - m.buf.length) :
    MidZ s { m with buf := m.buf ++ chunk } t z M C (acc ++ chunk) := by
  refine ⟨h.healthy, h.noFaults, h.size, h.err, ?_, ?_⟩
  · have := h.buflen
    simp only [List.length_append]; omega
  · obtain ⟨fl, hacc, hw⟩ := h.wire
    exact ⟨fl, by rw [← hacc, List.append_assoc], hw⟩

theorem b0_lt256 (t : Nat) (ht : t = 1 ∨ t = 2) (z : Bool) :
    t + (if z = true then 64 else 0) < 256 ∧ t + 128 + (if z = true then 64 else 0) < 256 := by
  constructor <;> split <;> omega

/-- a non-final flush in the middle of a message -/
theorem flush_midZ {s m t z M C acc} (h : MidZ s m t z M C acc) (ht : t = 1 ∨ t = 2) (extra : Bytes)
    (hel : extra.length < 2 ^ 40) (hx : s.isServer = true ∨ extra = []) :
    (flushFrame s m false extra).1 = none ∧ Keep s (flushFrame s m false extra).2.1 ∧
    (flushFrame s m false extra).2.1.writer = s.writer ∧
    (flushFrame s m false extra).2.2.buf = [] ∧
    MidZ (flushFrame s m false extra).2.1 (flushFrame s m false extra).2.2 t z M C (acc ++ extra) := by
  have hft := h.ft_lt ht
  have hcap := h.cap_lt
  have hbl := h.buflen
  obtain ⟨key, hfw⟩ := frameWrite_okZ s m false extra h.healthy h.noFaults (by omega) hx
  unfold flushFrame
  rw [isControl_small m.ft (by omega)]
  simp only [Bool.false_and, Bool.false_eq_true, if_false]
  split
  · rename_i e s' heq
    rw [heq] at hfw
    exact absurd hfw.1 (by simp)
  · rename_i s' heq
    rw [heq] at hfw
    obtain ⟨_, hk, hw, hwr⟩ := hfw
    dsimp only at hk hw hwr
    refine ⟨rfl, hk, hwr, rfl, ?_⟩
    refine ⟨hk.writeErr.trans h.healthy, hk.faults.trans h.noFaults, by rw [hk.wbufLen]; exact h.size, h.err,
      by simp, ?_⟩
    show ∃ flushed, flushed ++ [] = acc ++ extra ∧ _
    have hlen : (m.buf ++ extra).length < 2 ^ 63 := by
      simp only [List.length_append]; omega
    obtain ⟨fl, hacc, hws⟩ := h.wire
    rcases hws with ⟨hft1, hcz, hfl, hws⟩ | ⟨hft0, hcz, hws⟩
    · subst hfl
      rw [hft1, hcz] at hw
      simp only [Bool.false_eq_true, if_false, Nat.add_zero] at hw
      have hfr := hws.frame s.isServer (t + (if z = true then 64 else 0)) key (m.buf ++ extra) (b0_lt256 t ht z).1 hlen
      have hm := msgs_first_nonfinal s.isServer t ht z key (m.buf ++ extra)
      rw [hm.1, hm.2.1, hm.2.2, List.append_nil, List.append_nil, ← hw] at hfr
      exact ⟨m.buf ++ extra, by rw [← hacc]; simp, Or.inr ⟨rfl, rfl, hfr⟩⟩
    · rw [hft0, hcz] at hw
      simp only [Bool.false_eq_true, if_false, Nat.add_zero] at hw
      have hfr := hws.frame s.isServer 0 key (m.buf ++ extra) (by omega) hlen
      have hm := msgs_cont_nonfinal ⟨t, z, fl⟩ s.isServer key (m.buf ++ extra)
      rw [hm.1, hm.2.1, hm.2.2, List.append_nil, List.append_nil, ← hw] at hfr
      exact ⟨fl ++ (m.buf ++ extra), by rw [← hacc]; simp, Or.inr ⟨rfl, rfl, hfr⟩⟩

/-- the final flush (Close) -/
theorem flush_finalZ {s m t z M C acc} (h : MidZ s m t z M C acc) (ht : t = 1 ∨ t = 2) (extra : Bytes)
    (hel : extra.length < 2 ^ 40) (hx : s.isServer = true ∨ extra = []) :
    (flushFrame s m true extra).1 = none ∧ Keep s (flushFrame s m true extra).2.1 ∧
    (flushFrame s m true extra).2.1.writer = none ∧
    (flushFrame s m true extra).2.2.err.isSome ∧
    WireSt (flushFrame s m true extra).2.1.wire (M ++ [⟨t, z, acc ++ extra⟩]) C none := by
  have hft := h.ft_lt ht
  have hcap := h.cap_lt
  have hbl := h.buflen
  obtain ⟨key, hfw⟩ := frameWrite_okZ s m true extra h.healthy h.noFaults (by omega) hx
  unfold flushFrame
  rw [isControl_small m.ft (by omega)]
  simp only [Bool.false_and, Bool.false_eq_true, if_false]
  split
  · rename_i e s' heq
    rw [heq] at hfw
    exact absurd hfw.1 (by simp)
  · rename_i s' heq
    rw [heq] at hfw
    obtain ⟨_, hk, hw, hwr⟩ := hfw
    dsimp only at hk hw hwr
    simp only [if_true]
    refine ⟨trivial, hk.trans (Keep.endMessage _ _ _), endMessage_writer _ _ _ h.err, endMessage_err _ _ _, ?_⟩
    rw [endMessage_wire]
    have hlen : (m.buf ++ extra).length < 2 ^ 63 := by
      simp only [List.length_append]; omega
    obtain ⟨fl, hacc, hws⟩ := h.wire
    rcases hws with ⟨hft1, hcz, hfl, hws⟩ | ⟨hft0, hcz, hws⟩
    · subst hfl
      rw [hft1, hcz] at hw
      simp only [if_true] at hw
      have hfr := hws.frame s.isServer (t + 128 + (if z = true then 64 else 0)) key (m.buf ++ extra) (b0_lt256 t ht z).2 hlen
      have hm := msgs_first_final s.isServer t ht z key (m.buf ++ extra)
      rw [hm.1, hm.2.1, hm.2.2, List.append_nil, ← hw] at hfr
      simp only [List.nil_append] at hacc
      rw [← hacc]
      exact hfr
    · rw [hft0, hcz] at hw
      simp only [if_true, Bool.false_eq_true, if_false, Nat.add_zero] at hw
      have hfr := hws.frame s.isServer (0 + 128) key (m.buf ++ extra) (by omega) hlen
      have hm := msgs_cont_final ⟨t, z, fl⟩ s.isServer key (m.buf ++ extra)
      rw [hm.1, hm.2.1, hm.2.2, List.append_nil, ← hw] at hfr
      rw [← hacc, List.append_assoc]
      exact hfr

theorem ncopyPrep_midZ {s m t z M C acc} (h : MidZ s m t z M C acc) (ht : t = 1 ∨ t = 2) :
    (ncopyPrep s m).1 = none ∧ Keep s (ncopyPrep s m).2.1 ∧ (ncopyPrep s m).2.1.writer = s.writer ∧
    (ncopyPrep s m).2.2.buf.length < (ncopyPrep s m).2.1.cap ∧
    MidZ (ncopyPrep s m).2.1 (ncopyPrep s m).2.2 t z M C acc := by
  unfold ncopyPrep
  split
  · have hf := flush_midZ h ht [] (by simp) (Or.inr rfl)
    rw [List.append_nil] at hf
    refine ⟨hf.1, hf.2.1, hf.2.2.1, ?_, hf.2.2.2.2⟩
    rw [hf.2.2.2.1, hf.2.1.cap]
    exact h.cap_lt.2
  · rename_i hlt
    exact ⟨by simp, Keep.refl s, rfl, by dsimp only; omega, h⟩

theorem copyLoop_midZ {s m t z M C acc} (p : Bytes) (h : MidZ s m t z M C acc) (ht : t = 1 ∨ t = 2) :
    (copyLoop s m p).1 = none ∧ Keep s (copyLoop s m p).2.1 ∧ (copyLoop s m p).2.1.writer = s.writer ∧
    MidZ (copyLoop s m p).2.1 (copyLoop s m p).2.2 t z M C (acc ++ p) := by
  induction hl : p.length using Nat.strongRecOn generalizing s m p acc with
  | _ n ih =>
    unfold copyLoop
    split
    · rename_i hp
      subst hp
      rw [List.append_nil]
      exact ⟨rfl, Keep.refl s, rfl, h⟩
    · rename_i hp
      have hpre := ncopyPrep_midZ h ht
      split
      · rename_i e s' m' heq
        rw [heq] at hpre
        exact absurd hpre.1 (by simp)
      · rename_i s' m' heq
        rw [heq] at hpre
        obtain ⟨_, hk, hwr, hlt, hmid⟩ := hpre
        dsimp only at hk hwr hlt hmid
        have hpl : p.length ≠ 0 := by simpa using hp
        split
        · rename_i hn
          omega
        · rename_i hn
          have hdl : (p.drop (min (s'.cap - m'.buf.length) p.length)).length < n := by
            simp only [List.length_drop]; omega
          have hext := hmid.extend (p.take (min (s'.cap - m'.buf.length) p.length))
            (by simp only [List.length_take]; omega)
          have := ih _ hdl _ hext rfl
          refine ⟨this.1, hk.trans this.2.1, this.2.2.1.trans hwr, ?_⟩
          have hfin := this.2.2.2
          rw [List.append_assoc, List.take_append_drop] at hfin
          exact hfin

theorem mwWrite_midZ {s m t z M C acc} (p : Bytes) (h : MidZ s m t z M C acc) (ht : t = 1 ∨ t = 2)
    (hp : p.length < 2 ^ 40) :
    (mwWrite s m p).1 = none ∧ Keep s (mwWrite s m p).2.1 ∧ (mwWrite s m p).2.1.writer = s.writer ∧
    MidZ (mwWrite s m p).2.1 (mwWrite s m p).2.2 t z M C (acc ++ p) := by
  unfold mwWrite
  rw [h.err]
  dsimp only
  split
  · rename_i hc
    have hsv : s.isServer = true := by
      simp only [Bool.and_eq_true] at hc; exact hc.2
    have hf := flush_midZ h ht p hp (Or.inl hsv)
    exact ⟨hf.1, hf.2.1, hf.2.2.1, hf.2.2.2.2⟩
  · exact copyLoop_midZ p h ht

theorem mwClose_finZ {s m t z M C acc} (h : MidZ s m t z M C acc) (ht : t = 1 ∨ t = 2) :
    (mwClose s m).1 = none ∧ Keep s (mwClose s m).2.1 ∧ (mwClose s m).2.1.writer = none ∧
    (mwClose s m).2.2.err.isSome ∧ WireSt (mwClose s m).2.1.wire (M ++ [⟨t, z, acc⟩]) C none := by
  unfold mwClose
  rw [h.err]
  dsimp only
  have := flush_finalZ h ht [] (by simp) (Or.inr rfl)
  rw [List.append_nil] at this
  exact this

theorem feed_midZ {s m t z M C acc} (cs : List Bytes) (h : MidZ s m t z M C acc) (ht : t = 1 ∨ t = 2)
    (hcs : ∀ c ∈ cs, c.length < 2 ^ 40) :
    (feed s m cs).1 = none ∧ Keep s (feed s m cs).2.1 ∧ (feed s m cs).2.1.writer = s.writer ∧
    MidZ (feed s m cs).2.1 (feed s m cs).2.2 t z M C (acc ++ cs.flatten) := by
  induction cs generalizing s m acc with
  | nil =>
    simp only [List.flatten_nil, List.append_nil]
    exact ⟨rfl, Keep.refl s, rfl, h⟩
  | cons c cs ih =>
    unfold feed
    have hw := mwWrite_midZ c h ht (hcs c (by simp))
    split
    · rename_i e s1 m1 heq
      rw [heq] at hw
      exact absurd hw.1 (by simp)
    · rename_i s1 m1 heq
      rw [heq] at hw
      obtain ⟨_, hk, hwr, hmid⟩ := hw
      dsimp only at hk hwr hmid
      have := ih hmid (fun c' hc' => hcs c' (by simp [hc']))
      refine ⟨this.1, hk.trans this.2.1, this.2.2.1.trans hwr, ?_⟩
      have hfin := this.2.2.2
      rw [List.append_assoc] at hfin
      simpa only [List.flatten_cons] using hfin

end WS.ZFlow
