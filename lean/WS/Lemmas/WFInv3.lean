import WS.Lemmas.WFInv2
/-
  C02 frame level, part 3: handles, the one-live-writer discipline, and every API operation.
-/
namespace WS.WFInv
open WS WS.Spec WS.Codec WS.WFSpec

def hidx : Handle → Nat
  | .plain i => i
  | .flate i _ _ _ => i

def AllEnded (mws : List MW) : Prop := ∀ (j : Nat) (m : MW), mws[j]? = some m → m.err.isSome

/-- handles and messageWriters are created in pairs; a flate wrapper that failed or was closed has
    ended its messageWriter -/
structure HInv (hs : List Handle) (mws : List MW) : Prop where
  len : hs.length = mws.length
  idx : ∀ (h : Nat) (x : Handle), hs[h]? = some x → hidx x = h
  closed : ∀ (h i : Nat) (fo : Bool) (derr : Option WErr) (sent : Bytes) (m : MW),
    hs[h]? = some (Handle.flate i fo derr sent) → (derr.isSome ∨ fo = false) →
    mws[i]? = some m → m.err.isSome

/-- at most one messageWriter is live; it is `c.writer`, and it agrees with the wire -/
def LiveC (c : Cfg) (mws : List MW) (writer : Option Nat) (we : Option WErr) (o : Bool) : Prop :=
  (∃ i m, mws[i]? = some m ∧ m.err = none ∧ writer = some i ∧ MRel c we o m ∧
    ∀ (j : Nat) (m' : MW), j ≠ i → mws[j]? = some m' → m'.err.isSome) ∨
  (AllEnded mws ∧ (we = none → o = false))

def Good (c : Cfg) (s : W) : Prop :=
  ∃ o, Inn c s o ∧ HInv s.handles s.mws ∧ LiveC c s.mws s.writer s.writeErr o

theorem Inn.of_eq {c : Cfg} {s s' : W} {o : Bool} (h : Inn c s o) (h1 : s'.isServer = s.isServer)
    (h2 : s'.nego = s.nego) (h3 : s'.wbufLen = s.wbufLen) (h4 : s'.faults = s.faults)
    (h5 : s'.wire = s.wire) (h6 : s'.writeErr = s.writeErr) : Inn c s' o :=
  ⟨h1.trans h.isv, h2.trans h.nego, h3.trans h.len, h4.trans h.flt, h.lo, h.hi, by rw [h5, h6]; exact h.wire⟩

theorem set_same {α : Type} {l : List α} {i : Nat} {a : α} (h : l[i]? = some a) : l.set i a = l := by
  obtain ⟨hi, rfl⟩ := List.getElem?_eq_some_iff.mp h
  exact List.set_getElem_self hi

theorem lt_of_getElem? {α : Type} {l : List α} {i : Nat} {a : α} (h : l[i]? = some a) : i < l.length :=
  (List.getElem?_eq_some_iff.mp h).1

theorem HInv.update {hs hs' : List Handle} {mws : List MW} (hH : HInv hs mws) (i : Nat) (x : Handle) (m' : MW)
    (hlen : hs'.length = hs.length) (hat : hs'[i]? = some x) (hne : ∀ j, j ≠ i → hs'[j]? = hs[j]?)
    (hx : hidx x = i)
    (hcl : ∀ i' fo derr sent, x = .flate i' fo derr sent → (derr.isSome ∨ fo = false) → m'.err.isSome) :
    HInv hs' (mws.set i m') := by
  refine ⟨by rw [hlen, List.length_set]; exact hH.len, ?_, ?_⟩
  · intro h y hy
    by_cases hh : h = i
    · subst hh; rw [hat] at hy; cases hy; exact hx
    · rw [hne h hh] at hy; exact hH.idx h y hy
  · intro h i' fo derr sent m hh hc hm
    by_cases heq : h = i
    · subst heq
      rw [hat] at hh
      cases hh
      have hi' : i' = h := hx
      subst hi'
      rw [List.getElem?_set] at hm
      simp only [if_true] at hm
      split at hm
      · cases hm; exact hcl _ _ _ _ rfl hc
      · cases hm
    · rw [hne h heq] at hh
      have hi' : i' = h := hH.idx h _ hh
      subst hi'
      rw [List.getElem?_set_ne (fun hx' => heq hx'.symm)] at hm
      exact hH.closed _ _ _ _ _ _ hh hc hm

theorem LiveC.allEnded {c : Cfg} {mws : List MW} {j : Nat} {we : Option WErr} {o : Bool}
    (h : LiveC c mws (some j) we o) (hj : ∀ m, mws[j]? = some m → m.err.isSome) : AllEnded mws := by
  rcases h with ⟨i, m, hm, hl, hw, _, _⟩ | ⟨h, _⟩
  · cases hw
    have := hj m hm
    rw [hl] at this; cases this
  · exact h

theorem LiveC.allEnded_none {c : Cfg} {mws : List MW} {we : Option WErr} {o : Bool}
    (h : LiveC c mws none we o) : AllEnded mws := by
  rcases h with ⟨i, m, hm, hl, hw, _, _⟩ | ⟨h, _⟩
  · cases hw
  · exact h

theorem LiveC.ofalse {c : Cfg} {mws : List MW} {w : Option Nat} {we : Option WErr} {o : Bool}
    (h : LiveC c mws w we o) (ha : AllEnded mws) : we = none → o = false := by
  rcases h with ⟨i, m, hm, hl, _, _, _⟩ | ⟨_, h⟩
  · have := ha i m hm
    rw [hl] at this; cases this
  · exact h

/-- the final state differs from `s` in `mws` at `i` and possibly in `handles` at `i` -/
def SOK (s S : W) (i : Nat) (m' : MW) (x : Handle) : Prop :=
  S.mws = s.mws.set i m' ∧ S.handles.length = s.handles.length ∧ S.handles[i]? = some x ∧
    ∀ j, j ≠ i → S.handles[j]? = s.handles[j]?

def HCl (x : Handle) (m' : MW) : Prop :=
  ∀ (i' : Nat) (fo : Bool) (derr : Option WErr) (sent : Bytes), x = Handle.flate i' fo derr sent →
    (derr.isSome ∨ fo = false) → m'.err.isSome

/-- the common shape of every operation on the messageWriter at index `i` -/
theorem good_core {c : Cfg} {s : W} (hg : Good c s) {i : Nat} {m0 : MW} (hm0 : s.mws[i]? = some m0)
    (S : W) (m' : MW) (x : Handle) (hx : hidx x = i)
    (hlive : m0.err = none → ∀ o, Inn c s o → MRel c s.writeErr o m0 →
      SOK s S i m' x ∧ HCl x m' ∧
      (∃ o', Inn c S o' ∧ MRel c S.writeErr o' m') ∧ (m'.err = none → S.writer = s.writer))
    (hend : m0.err.isSome → SOK s S i m' x ∧ m' = m0 ∧ S.writer = s.writer ∧ S.writeErr = s.writeErr ∧
      ∀ o, Inn c s o → Inn c S o) :
    Good c S ∧ (s.writer = some i → m'.err.isSome → AllEnded S.mws) := by
  obtain ⟨o, hI, hH, hL⟩ := hg
  have hi : i < s.mws.length := lt_of_getElem? hm0
  cases hme : m0.err with
  | none =>
    -- the live writer is `i`
    have hmain : s.writer = some i ∧ MRel c s.writeErr o m0 ∧
        ∀ j m', j ≠ i → s.mws[j]? = some m' → m'.err.isSome := by
      rcases hL with ⟨i1, m1, hm1, hl1, hw1, hr1, ho1⟩ | ⟨ha, _⟩
      · by_cases hii : i = i1
        · subst hii
          rw [hm0] at hm1; cases hm1
          exact ⟨hw1, hr1, ho1⟩
        · have := ho1 i m0 hii hm0
          rw [hme] at this; cases this
      · have := ha i m0 hm0
        rw [hme] at this; cases this
    obtain ⟨hw, hr, hoth⟩ := hmain
    obtain ⟨⟨hmws, hlen, hat, hne⟩, hcl, ⟨o', hI', hM'⟩, hwr⟩ := hlive hme o hI hr
    have hHS : HInv S.handles S.mws := by
      rw [hmws]; exact hH.update i x m' hlen hat hne hx hcl
    have hothS : ∀ j m'', j ≠ i → S.mws[j]? = some m'' → m''.err.isSome := by
      intro j m'' hj hmj
      rw [hmws, List.getElem?_set_ne (fun hx' => hj hx'.symm)] at hmj
      exact hoth j m'' hj hmj
    have hSi : S.mws[i]? = some m' := by rw [hmws]; exact List.getElem?_set_self hi
    have hall : m'.err.isSome → AllEnded S.mws := by
      intro he j m'' hmj
      by_cases hj : j = i
      · subst hj; rw [hSi] at hmj; cases hmj; exact he
      · exact hothS j m'' hj hmj
    refine ⟨⟨o', hI', hHS, ?_⟩, fun _ he => hall he⟩
    cases hx' : m'.err with
    | none => exact Or.inl ⟨i, m', hSi, hx', (hwr hx').trans hw, hM', hothS⟩
    | some e =>
      have he : m'.err.isSome := by rw [hx']; rfl
      exact Or.inr ⟨hall he, hM'.2 he⟩
  | some e =>
    have hm0e : m0.err.isSome := by rw [hme]; rfl
    obtain ⟨⟨hmws, hlen, hat, hne⟩, rfl, hw, hwe, hII⟩ := hend hm0e
    have hHS : HInv S.handles S.mws := by
      rw [hmws]; exact hH.update i x m' hlen hat hne hx (fun _ _ _ _ _ _ => hm0e)
    have hmws' : S.mws = s.mws := by rw [hmws]; exact set_same hm0
    refine ⟨⟨o, hII o hI, hHS, by rw [hmws', hw, hwe]; exact hL⟩, fun hwi _ => ?_⟩
    rw [hmws']
    rw [hwi] at hL
    exact hL.allEnded (fun m hm => by rw [hm0] at hm; cases hm; exact hm0e)

theorem getMW_eq {s : W} {i : Nat} {m : MW} (h : s.mws[i]? = some m) : getMW s i = m := by
  unfold getMW
  rw [List.getD_eq_getElem?_getD, h]
  rfl

theorem Good.handle {c : Cfg} {s : W} (hg : Good c s) {j : Nat} {x : Handle} (heq : s.handles[j]? = some x) :
    hidx x = j ∧ ∃ m0, s.mws[j]? = some m0 := by
  obtain ⟨o, _, hH, _⟩ := hg
  refine ⟨hH.idx j x heq, ?_⟩
  have hj : j < s.mws.length := by rw [← hH.len]; exact lt_of_getElem? heq
  exact ⟨s.mws[j], List.getElem?_eq_getElem hj⟩

/-- a step on a copy, written back with `setMW` (handles untouched) -/
theorem core_of_post {c : Cfg} {s s' : W} {m' : MW} {i : Nat} {x : Handle} (hp : Post c s s' m')
    (heq : s.handles[i]? = some x) :
    SOK s (setMW s' i m') i m' x ∧
    (∃ o', Inn c (setMW s' i m') o' ∧ MRel c (setMW s' i m').writeErr o' m') ∧
    (m'.err = none → (setMW s' i m').writer = s.writer) := by
  obtain ⟨⟨o', hI', hM'⟩, hfr, hwr⟩ := hp
  refine ⟨⟨?_, ?_, ?_, ?_⟩, ⟨o', hI'.of_eq rfl rfl rfl rfl rfl rfl, hM'⟩, hwr⟩
  · show s'.mws.set i m' = _; rw [hfr.mws]
  · show s'.handles.length = _; rw [hfr.handles]
  · show s'.handles[i]? = _; rw [hfr.handles]; exact heq
  · intro j _; show s'.handles[j]? = _; rw [hfr.handles]

/-- a step on a copy, written back with `setMW` and `setHandle` -/
theorem core_of_post_h {c : Cfg} {s s' : W} {m' : MW} {i : Nat} (x : Handle) (hp : Post c s s' m')
    (hi : i < s.handles.length) :
    SOK s (setHandle (setMW s' i m') i x) i m' x ∧
    (∃ o', Inn c (setHandle (setMW s' i m') i x) o' ∧ MRel c (setHandle (setMW s' i m') i x).writeErr o' m') ∧
    (m'.err = none → (setHandle (setMW s' i m') i x).writer = s.writer) := by
  obtain ⟨⟨o', hI', hM'⟩, hfr, hwr⟩ := hp
  refine ⟨⟨?_, ?_, ?_, ?_⟩, ⟨o', hI'.of_eq rfl rfl rfl rfl rfl rfl, hM'⟩, hwr⟩
  · show s'.mws.set i m' = _; rw [hfr.mws]
  · show (s'.handles.set i x).length = _; rw [List.length_set, hfr.handles]
  · show (s'.handles.set i x)[i]? = _; rw [hfr.handles]; exact List.getElem?_set_self hi
  · intro j hj; show (s'.handles.set i x)[j]? = _
    rw [hfr.handles]; exact List.getElem?_set_ne (fun h => hj h.symm)

theorem end_core {c : Cfg} {s : W} {i : Nat} {m0 : MW} {x : Handle} (heq : s.handles[i]? = some x) :
    SOK s (setMW s i m0) i m0 x ∧ m0 = m0 ∧ (setMW s i m0).writer = s.writer ∧
    (setMW s i m0).writeErr = s.writeErr ∧ ∀ o, Inn c s o → Inn c (setMW s i m0) o :=
  ⟨⟨rfl, rfl, heq, fun _ _ => rfl⟩, rfl, rfl, rfl, fun _ h => h.of_eq rfl rfl rfl rfl rfl rfl⟩

theorem end_core_h {c : Cfg} {s : W} {i : Nat} {m0 : MW} (x : Handle) (hi : i < s.handles.length) :
    SOK s (setHandle (setMW s i m0) i x) i m0 x ∧ m0 = m0 ∧ (setHandle (setMW s i m0) i x).writer = s.writer ∧
    (setHandle (setMW s i m0) i x).writeErr = s.writeErr ∧ ∀ o, Inn c s o → Inn c (setHandle (setMW s i m0) i x) o :=
  ⟨⟨rfl, List.length_set, List.getElem?_set_self hi, fun _ hj => List.getElem?_set_ne (fun h => hj h.symm)⟩,
    rfl, rfl, rfl, fun _ h => h.of_eq rfl rfl rfl rfl rfl rfl⟩

theorem mwWrite_ended (s : W) (m : MW) (p : Bytes) (h : m.err.isSome) :
    (mwWrite s m p).2.1 = s ∧ (mwWrite s m p).2.2 = m := by
  unfold mwWrite
  split
  · exact ⟨rfl, rfl⟩
  · rename_i hn; rw [hn] at h; cases h

theorem mwWriteString_ended (s : W) (m : MW) (p : Bytes) (h : m.err.isSome) :
    (mwWriteString s m p).2.1 = s ∧ (mwWriteString s m p).2.2 = m := by
  unfold mwWriteString
  split
  · exact ⟨rfl, rfl⟩
  · rename_i hn; rw [hn] at h; cases h

theorem mwClose_ended (s : W) (m : MW) (h : m.err.isSome) :
    (mwClose s m).2.1 = s ∧ (mwClose s m).2.2 = m := by
  unfold mwClose
  split
  · exact ⟨rfl, rfl⟩
  · rename_i hn; rw [hn] at h; cases h

theorem mwReadFrom_ended (s : W) (m : MW) (r : Src) (h : m.err.isSome) :
    (mwReadFrom s m r).2.1 = s ∧ (mwReadFrom s m r).2.2 = m := by
  unfold mwReadFrom
  split
  · exact ⟨rfl, rfl⟩
  · rename_i hn; rw [hn] at h; cases h

theorem feed_ended (s : W) (m : MW) (cs : List Bytes) (h : m.err.isSome) :
    (feed s m cs).2.1 = s ∧ (feed s m cs).2.2 = m := by
  cases cs with
  | nil => exact ⟨rfl, rfl⟩
  | cons x cs =>
    unfold feed
    have hw := mwWrite_ended s m x h
    split
    · rename_i e s' m' heq
      rw [heq] at hw; exact hw
    · rename_i s' m' heq
      exfalso
      have : (mwWrite s m x).1.isSome := by
        unfold mwWrite
        split
        · rfl
        · rename_i hn; rw [hn] at h; cases h
      rw [heq] at this; cases this

theorem hWrite_good {c : Cfg} {s : W} (j : Nat) (p : Bytes) (dn : List Bytes) (a : Bool) (hg : Good c s)
    (hp : p.length < 2 ^ 40) (hdn : ∀ x ∈ dn, x.length < 2 ^ 40) : Good c (hWrite s j p dn a).2 := by
  unfold hWrite
  split
  · exact hg
  · rename_i i heq
    obtain ⟨hij, m0, hm0⟩ := hg.handle heq
    simp only [hidx] at hij
    subst hij
    rw [getMW_eq hm0]
    dsimp only
    split
    · refine (good_core hg hm0 _ (mwWriteString s m0 p).2.2 (.plain i) rfl ?_ ?_).1
      · intro hl o hI hM
        have hpost := mwWriteString_post m0 p hI hM
        have := core_of_post (i := i) hpost.1 heq
        exact ⟨this.1, fun _ _ _ _ hx => (by cases hx), this.2.1, this.2.2⟩
      · intro he
        have hE := mwWriteString_ended s m0 p he
        rw [hE.1, hE.2]
        exact end_core heq
    · refine (good_core hg hm0 _ (mwWrite s m0 p).2.2 (.plain i) rfl ?_ ?_).1
      · intro hl o hI hM
        have hpost := mwWrite_post m0 p hI hM hp
        have := core_of_post (i := i) hpost.1 heq
        exact ⟨this.1, fun _ _ _ _ hx => (by cases hx), this.2.1, this.2.2⟩
      · intro he
        have hE := mwWrite_ended s m0 p he
        rw [hE.1, hE.2]
        exact end_core heq
  · rename_i i fo de sent heq
    obtain ⟨hij, m0, hm0⟩ := hg.handle heq
    simp only [hidx] at hij
    subst hij
    have hi : i < s.handles.length := lt_of_getElem? heq
    split
    · exact hg
    · split
      · exact hg
      · rw [getMW_eq hm0]
        dsimp only
        refine (good_core hg hm0 _ (feed s m0 dn).2.2
          (.flate i true (feed s m0 dn).1 (sent ++ dn.flatten)) rfl ?_ ?_).1
        · intro hl o hI hM
          have hpost := feed_post m0 dn hI hM hdn
          have := core_of_post_h (i := i) (.flate i true (feed s m0 dn).1 (sent ++ dn.flatten)) hpost.1 hi
          refine ⟨this.1, ?_, this.2.1, this.2.2⟩
          intro i' fo' derr' sent' hx hc
          cases hx
          rcases hc with hc | hc
          · exact hpost.2.1 hc
          · cases hc
        · intro he
          have hE := feed_ended s m0 dn he
          rw [hE.1, hE.2]
          exact end_core_h _ hi

theorem hReadFrom_good {c : Cfg} {s : W} (j : Nat) (r : Src) (hg : Good c s) : Good c (hReadFrom s j r).2 := by
  unfold hReadFrom
  split
  · rename_i i heq
    obtain ⟨hij, m0, hm0⟩ := hg.handle heq
    simp only [hidx] at hij
    subst hij
    rw [getMW_eq hm0]
    show Good c (setMW (mwReadFrom s m0 r).2.1 i (mwReadFrom s m0 r).2.2)
    refine (good_core hg hm0 _ (mwReadFrom s m0 r).2.2 (.plain i) rfl ?_ ?_).1
    · intro hl o hI hM
      have hpost := mwReadFrom_post m0 r hI hM
      have := core_of_post (i := i) hpost heq
      exact ⟨this.1, fun _ _ _ _ hx => (by cases hx), this.2.1, this.2.2⟩
    · intro he
      have hE := mwReadFrom_ended s m0 r he
      rw [hE.1, hE.2]
      exact end_core heq
  · exact hg

end WS.WFInv
