import WS.Lemmas.CutLogic
import WS.Lemmas.ReaderMore
import WS.Lemmas.LimitHistory
import WS.Lemmas.RoleGeneric
/-
  Helper lemmas for WS/Lemmas/OverLimit.lean: the reader on a conformant message whose payload
  exceeds the read limit. The frames before the data frame at which the running sum crosses the
  limit are read normally; the crossing frame is refused with ErrReadLimit from its header.
-/
namespace WS.OverLimitAux
open WS WS.Codec WS.SrcLaw WS.ReaderDecodes WS.AdvFrame WS.ReaderRejects WS.RoleGeneric WS.LimitHistoryAux

/-- advanceFrame at a frame boundary on a data frame that takes the running sum over the limit -/
theorem adv_over (c : Conn) (hc : AtBoundary c) (f : PFrame) (tail : Bytes)
    (hp : c.r.buf.pending = f.enc c.r.isServer ++ tail)
    (hop : (f.op = 0 ∧ c.r.final = false) ∨ ((f.op = 1 ∨ f.op = 2) ∧ c.r.final = true))
    (hlen : f.payload.length < 2 ^ 62) (h0 : 0 ≤ c.r.length) (h1 : c.r.length < 2 ^ 62)
    (hlim : 0 < c.r.limit) (hover : c.r.limit < lenBase f.op c + (f.payload.length : Int)) :
    ∃ c', advanceFrame c = (.error .readLimit, c') := by
  have hop16 : f.op < 16 := by omega
  have herrs := hdrErrs_data c.r.isServer c.r.nego c.r.final f.fin f.op (l7 f.payload.length) hop
  obtain ⟨b1, a1, a2, a3, a4⟩ := advance_prefix c hc tail f.op f.fin f.key f.payload hp hop16 herrs hlen
  have hopb : (f.op == 0 || f.op == 1 || f.op == 2) = true := by
    rcases hop with ⟨h, _⟩ | ⟨h | h, _⟩ <;> rw [h] <;> rfl
  have hb0 : 0 ≤ lenBase f.op c := lenBase_nonneg f.op c h0
  have hb1 : lenBase f.op c ≤ c.r.length := lenBase_le f.op c h0
  unfold afRest at a1
  simp only [hopb, if_true] at a1
  have a1' := a1.trans (afData_over _ _ f.payload.length (by rfl) (by exact hb0)
    (by show lenBase f.op c + _ < _; omega) (by exact hlim)
    (by show c.r.limit < lenBase f.op c + _; exact hover))
  exact ⟨_, a1'⟩

theorem mrReadLoop_adv_err (fuel : Nat) (c : Conn) (rid k : Nat) (h : c.r.readErr = none)
    (hrem : ¬ c.r.remaining > 0) (hf : c.r.final = false) (e : RErr) (c' : Conn)
    (ha : advanceFrame c = (.error e, c')) (hne : e ≠ .eof) :
    mrReadLoop (fuel + 2) c rid k = (([], some e), { c' with r := { c'.r with readErr := some e } }) := by
  have hne' : (e = RErr.eof) = False := eq_false hne
  unfold mrReadLoop
  simp only [h, hrem, hf, Bool.false_eq_true, if_false, ha]
  unfold mrReadLoop
  simp only [hne', decide_false, Bool.false_and, Bool.false_eq_true, if_false]

theorem mrReadLoop_adv_ok (fuel : Nat) (c : Conn) (rid k : Nat) (h : c.r.readErr = none)
    (hrem : ¬ c.r.remaining > 0) (hf : c.r.final = false) (t : Nat) (c' : Conn)
    (ha : advanceFrame c = (.ok t, c')) (ht : (t == 1 || t == 2) = false) :
    mrReadLoop (fuel + 1) c rid k = mrReadLoop fuel c' rid k := by
  conv => lhs; unfold mrReadLoop
  simp only [h]
  rw [if_neg hrem]
  simp only [hf, Bool.false_eq_true, if_false, ha, ht]

/-- the reader inside a message whose remaining frames take the running sum over the limit `L` -/
structure Ov (S : Bool) (rid : Nat) (rest : Bytes) (L : Int) (c : Conn) (wire : Bytes) (more : List PFrame) : Prop where
  st : St S c wire more rest
  mr : c.r.msgReader = some rid
  lim : c.r.limit = L
  le : c.r.length ≤ L
  over : L < c.r.length + ((dataPayload more).length : Int)
  bnd : c.r.length + ((dataPayload more).length : Int) < 2 ^ 62

/-- one Read: a piece of the payload (and the reader is still before the crossing frame), or
    ErrReadLimit with nothing delivered -/
def MrOut (S : Bool) (rid k : Nat) (rest : Bytes) (L : Int) (fuel : Nat) (c : Conn) (wire : Bytes)
    (more : List PFrame) : Prop :=
  (∃ out c' wire' more', mrReadLoop fuel c rid k = ((out, none), c') ∧ Ov S rid rest L c' wire' more' ∧
      unmask c wire ++ dataPayload more = out ++ (unmask c' wire' ++ dataPayload more') ∧
      c'.r.length + (wire.length : Int) = c.r.length + (wire'.length : Int) + (out.length : Int) ∧
      c'.r.buf.pending.length < c.r.buf.pending.length) ∨
  (∃ c', mrReadLoop fuel c rid k = (([], some .readLimit), c'))

theorem mr_data_over (S : Bool) (rid k : Nat) (rest : Bytes) (L : Int) (hL : 0 < L) (fuel : Nat)
    (ih : ∀ (c : Conn) (wire : Bytes) (more : List PFrame), Ov S rid rest L c wire more →
      c.r.buf.pending.length < fuel → MrOut S rid k rest L fuel c wire more)
    (c : Conn) (f : PFrame) (fs : List PFrame) (hov : Ov S rid rest L c [] (f :: fs))
    (hfin : c.r.final = false) (h1 : f.op = 0) (h3 : f.payload.length < 2 ^ 62)
    (hT : f.fin = true → fs = []) (hF : f.fin = false → Tail fs)
    (hf : c.r.buf.pending.length < fuel + 1) : MrOut S rid k rest L (fuel + 1) c [] (f :: fs) := by
  obtain ⟨hst, hmr, hlim, hle, hover, hbnd⟩ := hov
  have hsrv := hst.srv
  subst hsrv
  have hd : f.isCtl = false := isCtl_of_data (Or.inl h1)
  have hp := hst.pend
  rw [encAll_cons, List.append_assoc] at hp
  have hrem0 : c.r.remaining = 0 := by have := hst.rem; simpa using this
  have hrem : ¬ c.r.remaining > 0 := by rw [hrem0]; decide
  have hlb : lenBase f.op c = c.r.length := by rw [h1]; rfl
  have hlen0 := hst.len0
  rw [dataPayload_data _ hd, List.length_append] at hover hbnd
  have hpl : 2 ≤ c.r.buf.pending.length := by
    rw [hp]; simp only [List.length_append, enc_length, List.length_nil]; omega
  by_cases hcross : c.r.limit < c.r.length + (f.payload.length : Int)
  · right
    obtain ⟨c', ha⟩ := adv_over c ⟨hst.noErr, hrem0, hst.env.wf, hst.env.size⟩ f _ (by simpa using hp)
      (Or.inl ⟨h1, hfin⟩) h3 hst.len0 (by omega) (by rw [hlim]; exact hL) (by rw [hlb]; exact hcross)
    cases fuel with
    | zero => omega
    | succ n =>
      exact ⟨_, mrReadLoop_adv_err n c rid k hst.noErr hrem hfin _ c' ha (by intro h; cases h)⟩
  · obtain ⟨c', a1, a2, a3, a4, a5, a6, a7, a8, a9, a10, a11, a12, a13, a14⟩ :=
      adv_data' c [] (encAll c.r.isServer fs ++ rest) f hst.env hst.rem hp (Or.inl ⟨h1, hfin⟩) h3 hst.len0
        (by rw [hlb]; omega) (Or.inr (by rw [hlb]; omega))
    have hstep : mrReadLoop (fuel + 1) c rid k = mrReadLoop fuel c' rid k :=
      mrReadLoop_adv_ok fuel c rid k hst.noErr hrem hfin f.op c' a1 (by rw [h1]; rfl)
    have hst' : St c.r.isServer c' (body c.r.isServer f.key f.payload) fs rest := by
      refine ⟨a3, a2.isServer, ?_, ?_, a12, ?_, ?_, ?_, ?_⟩
      · rw [a4]; exact hst.noErr
      · rw [a8, body_length]
      · rw [a9]; exact hT
      · rw [a9]; exact hF
      · rw [a10, hlb]; omega
      · rw [a2.same.together]; exact hst.tog
    have hov' : Ov c.r.isServer rid rest L c' (body c.r.isServer f.key f.payload) fs := by
      refine ⟨hst', by rw [a5]; exact hmr, by rw [a2.limit]; exact hlim, ?_, ?_, ?_⟩
      · rw [a10, hlb]; omega
      · rw [a10, hlb]; omega
      · rw [a10, hlb]; omega
    rcases ih c' _ fs hov' (by omega) with ⟨out, c2, w2, m2, b1, b2, b3, b4, b5⟩ | ⟨c2, b1⟩
    · left
      rw [a13] at b3
      rw [body_length, a10, hlb] at b4
      refine ⟨out, c2, w2, m2, by rw [hstep]; exact b1, b2, ?_, ?_, by omega⟩
      · rw [unmask_nil, List.nil_append, dataPayload_data _ hd]; exact b3
      · simp only [List.length_nil]; omega
    · right
      exact ⟨c2, by rw [hstep]; exact b1⟩

theorem mrReadLoop_over (S : Bool) (rid k : Nat) (hk : 0 < k) (rest : Bytes) (L : Int) (hL : 0 < L) (fuel : Nat) :
    ∀ (c : Conn) (wire : Bytes) (more : List PFrame), Ov S rid rest L c wire more →
      c.r.buf.pending.length < fuel → MrOut S rid k rest L fuel c wire more := by
  induction fuel with
  | zero => intro c wire more _ h; omega
  | succ fuel ih =>
    intro c wire more hov hf
    by_cases hw : wire = []
    · subst hw
      cases hfin : c.r.final with
      | true =>
        exfalso
        have hm := hov.st.finT hfin
        have h1 := hov.over
        have h2 := hov.le
        rw [hm] at h1
        simp at h1
        omega
      | false =>
        have ht := hov.st.finF hfin
        cases ht with
        | last f h1 h2 h3 =>
          exact mr_data_over S rid k rest L hL fuel ih c f [] hov hfin h1 h3 (fun _ => rfl)
            (fun h => by rw [h2] at h; cases h) hf
        | cont f fs h1 h2 h3 h4 =>
          exact mr_data_over S rid k rest L hL fuel ih c f fs hov hfin h1 h3
            (fun h => by rw [h2] at h; cases h) (fun _ => h4) hf
        | ctl f fs h1 h4 =>
          obtain ⟨hst, hmr, hlim, hle, hover, hbnd⟩ := hov
          have hd : f.isCtl = true := isCtl_of_ctlOk h1
          have hp := hst.pend
          rw [encAll_cons, List.append_assoc, ← hst.srv] at hp
          obtain ⟨c', a1, a2, a3, a4, a5, a6, a7, a8, a9, a10, a11, a12⟩ := adv_ctl c [] _ f hst.env hst.rem hp h1
          have htb : (f.op == 1 || f.op == 2) = false := by rcases h1.1 with h | h <;> rw [h] <;> rfl
          have hrem : ¬ c.r.remaining > 0 := by have := hst.rem; simp at this; omega
          have hstep := mrReadLoop_adv_ok fuel c rid k hst.noErr hrem hfin f.op c' a1 htb
          have hst' : St S c' [] fs rest := by
            refine ⟨a3, a2.isServer.trans hst.srv, ?_, ?_, ?_, ?_, ?_, ?_, ?_⟩
            · rw [a4]; exact hst.noErr
            · rw [a8]; rfl
            · rw [a11, hst.srv]; rfl
            · rw [a9, hfin]; intro h; cases h
            · intro _; exact h4
            · rw [a10]; exact hst.len0
            · rw [a2.same.together]; exact hst.tog
          rw [dataPayload_ctl _ hd] at hover hbnd
          have hov' : Ov S rid rest L c' [] fs :=
            ⟨hst', by rw [a5]; exact hmr, by rw [a2.limit]; exact hlim, by rw [a10]; exact hle,
              by rw [a10]; exact hover, by rw [a10]; exact hbnd⟩
          rcases ih c' [] fs hov' (by omega) with ⟨out, c2, w2, m2, b1, b2, b3, b4, b5⟩ | ⟨c2, b1⟩
          · left
            refine ⟨out, c2, w2, m2, by rw [hstep]; exact b1, b2, ?_, ?_, by omega⟩
            · rw [dataPayload_ctl _ hd]; simpa using b3
            · rw [a10] at b4; exact b4
          · right
            exact ⟨c2, by rw [hstep]; exact b1⟩
    · left
      obtain ⟨out, c', wire', a1, a2, a3, a4, a5, a6, a7, a8, a9⟩ :=
        mrRead_data S c rid k wire more rest hov.st hw hk fuel
      refine ⟨out, c', wire', more, a1, ⟨a3, by rw [a5]; exact hov.mr, by rw [a4.limit]; exact hov.lim,
        by rw [a6]; exact hov.le, by rw [a6]; exact hov.over, by rw [a6]; exact hov.bnd⟩, ?_, ?_, a9⟩
      · rw [a8, List.append_assoc]
      · have := congrArg List.length a8
        simp only [List.length_append, unmask_length] at this
        rw [a6]; omega

/-- reading on: ErrReadLimit after a prefix of what was left of the payload -/
theorem readAllLoop_over (S : Bool) (rid k : Nat) (hk : 0 < k) (rest : Bytes) (L : Int) (hL : 0 < L) (fuel : Nat) :
    ∀ (c : Conn) (wire : Bytes) (more : List PFrame) (acc : List Bytes), Ov S rid rest L c wire more →
      c.r.buf.pending.length < fuel →
      ∃ got c2, readAllLoop fuel c rid k acc = ((acc.reverse.flatten ++ got, some .readLimit), c2) ∧
        got <+: unmask c wire ++ dataPayload more ∧ (got.length : Int) + c.r.length ≤ L + (wire.length : Int) := by
  induction fuel with
  | zero => intro c wire more acc _ h; omega
  | succ fuel ih =>
    intro c wire more acc hov hf
    have hmr : mrRead c rid k = mrReadLoop (c.fuel + 1) c rid k := by
      unfold mrRead
      rw [if_neg (by rw [hov.mr]; simp)]
    have hcf : c.r.buf.pending.length < c.fuel + 1 := by
      have := hov.st.env.fuel
      unfold Conn.fuel; omega
    unfold readAllLoop
    rw [hmr]
    rcases mrReadLoop_over S rid k hk rest L hL (c.fuel + 1) c wire more hov hcf with
      ⟨out, c2, w2, m2, b1, b2, b3, b4, b5⟩ | ⟨c2, b1⟩
    · rw [b1]
      simp only []
      obtain ⟨got, c3, d1, d2, d3⟩ := ih c2 w2 m2 (out :: acc) b2 (by omega)
      refine ⟨out ++ got, c3, ?_, ?_, ?_⟩
      · rw [d1]; simp [List.append_assoc]
      · rw [b3]; exact (List.prefix_append_right_inj out).mpr d2
      · simp only [List.length_append, Int.natCast_add]; omega
    · rw [b1]
      simp only []
      refine ⟨[], c2, by simp, List.nil_prefix, ?_⟩
      have := hov.le
      simp only [List.length_nil]; omega

theorem nextReaderLoop_adv_err (fuel : Nat) (c : Conn) (h : c.r.readErr = none) (e : RErr) (c' : Conn)
    (ha : advanceFrame c = (.error e, c')) :
    nextReaderLoop (fuel + 1) c = (.err e, { c' with r := { c'.r with readErr := some e } }) := by
  unfold nextReaderLoop
  simp only [h, ha]

/-- the loop of NextReader from an idle reader on an over-limit message: either the first data frame
    already crosses the limit (ErrReadLimit), or the message is opened and the crossing frame is
    still to come -/
theorem nextReaderLoop_over (S : Bool) (t : Nat) (ht : t = 1 ∨ t = 2) (rest : Bytes) (L : Int) (hL : 0 < L)
    (fuel : Nat) :
    ∀ (c : Conn) (fs : List PFrame), St S c [] [] (encAll S fs ++ rest) → c.r.final = true → MsgShape t fs →
      (c.r.buf.t.together = false ∨ rest ≠ []) → c.r.limit = L → c.r.length = 0 →
      L < ((dataPayload fs).length : Int) → (dataPayload fs).length < 2 ^ 62 → c.r.buf.pending.length < fuel →
      (∃ c1, nextReaderLoop fuel c = (.err .readLimit, c1) ∧ c1.r.readErr = some .readLimit) ∨
      (∃ c1 wire1 more1, nextReaderLoop fuel c = (.msg t c.r.nextId false, c1) ∧
         Ov S c.r.nextId rest L c1 wire1 more1 ∧ unmask c1 wire1 ++ dataPayload more1 = dataPayload fs ∧
         c1.r.length = (wire1.length : Int)) := by
  induction fuel with
  | zero => intro c fs _ _ _ _ _ _ _ _ h; omega
  | succ fuel ih =>
    intro c fs hst hfin hs htog hlim hlen0 hover hsz hf
    have hp := hst.pend
    simp only [encAll_nil, List.nil_append] at hp
    have hrem0 : c.r.remaining = 0 := by have := hst.rem; simpa using this
    have hbd : AtBoundary c := ⟨hst.noErr, hrem0, hst.env.wf, hst.env.size⟩
    cases hs with
    | single f h1 h2 h3 =>
      have hd : f.isCtl = false := isCtl_of_data (by omega)
      have hlb : lenBase f.op c = 0 := lenBase_start f.op c (by omega)
      rw [dataPayload_data _ hd] at hover
      simp only [dataPayload_nil, List.append_nil] at hover
      simp only [encAll_cons, encAll_nil, List.append_nil] at hp
      rw [← hst.srv] at hp
      left
      obtain ⟨c', ha⟩ := adv_over c hbd f rest hp (Or.inr ⟨by omega, hfin⟩) h3 (by omega) (by omega)
        (by rw [hlim]; exact hL) (by rw [hlb, hlim]; omega)
      exact ⟨_, nextReaderLoop_adv_err fuel c hst.noErr _ c' ha, rfl⟩
    | frag f fs h1 h2 h3 h4 =>
      have hd : f.isCtl = false := isCtl_of_data (by omega)
      have hlb : lenBase f.op c = 0 := lenBase_start f.op c (by omega)
      rw [dataPayload_data _ hd, List.length_append] at hover hsz
      rw [encAll_cons, List.append_assoc, ← hst.srv] at hp
      by_cases hcross : L < (f.payload.length : Int)
      · left
        obtain ⟨c', ha⟩ := adv_over c hbd f _ hp (Or.inr ⟨by omega, hfin⟩) h3 (by omega) (by omega)
          (by rw [hlim]; exact hL) (by rw [hlb, hlim]; omega)
        exact ⟨_, nextReaderLoop_adv_err fuel c hst.noErr _ c' ha, rfl⟩
      · right
        obtain ⟨c', a1, a2, a3, a4, a5, a6, a7, a8, a9, a10, a11, a12, a13, a14⟩ :=
          adv_data' c [] (encAll c.r.isServer fs ++ rest) f hst.env hst.rem hp (Or.inr ⟨by omega, hfin⟩) h3
            (by omega) (by rw [hlb]; omega) (Or.inr (by rw [hlb, hlim]; omega))
        have htb : (t == 1 || t == 2) = true := by rcases ht with h | h <;> rw [h] <;> rfl
        have hst' : St S c' (body S f.key f.payload) fs rest := by
          rw [← hst.srv]
          refine ⟨a3, a2.isServer, ?_, ?_, a12, ?_, ?_, ?_, ?_⟩
          · rw [a4]; exact hst.noErr
          · rw [a8, body_length]
          · rw [a9, h2]; intro h; cases h
          · intro _; exact h4
          · rw [a10, hlb]; omega
          · rw [a2.same.together]; exact htog
        refine ⟨{ c' with r := { c'.r with msgReader := some c'.r.nextId, nextId := c'.r.nextId + 1 } }, _, fs, ?_,
          ⟨hst'.congr rfl rfl rfl rfl rfl rfl rfl hst'.len0, ?_, ?_, ?_, ?_, ?_⟩, ?_, ?_⟩
        · unfold nextReaderLoop
          simp only [hst.noErr, a1, htb, if_true, h1, a6, a11]
        · simp only [a6]
        · show c'.r.limit = L
          rw [a2.limit]; exact hlim
        · show c'.r.length ≤ L
          rw [a10, hlb]; omega
        · show L < c'.r.length + _
          rw [a10, hlb]; omega
        · show c'.r.length + _ < _
          rw [a10, hlb]; omega
        · show unmask c' _ ++ _ = _
          rw [← hst.srv, a13, dataPayload_data _ hd]
        · show c'.r.length = _
          rw [a10, hlb, body_length]; omega
    | ctl f fs h1 h4 =>
      have hd : f.isCtl = true := isCtl_of_ctlOk h1
      rw [encAll_cons, List.append_assoc, ← hst.srv] at hp
      obtain ⟨c', a1, a2, a3, a4, a5, a6, a7, a8, a9, a10, a11, a12⟩ := adv_ctl c [] _ f hst.env hst.rem hp h1
      have htb : (f.op == 1 || f.op == 2) = false := by rcases h1.1 with h | h <;> rw [h] <;> rfl
      have hstep : nextReaderLoop (fuel + 1) c = nextReaderLoop fuel c' := by
        conv => lhs; unfold nextReaderLoop
        simp only [hst.noErr, a1, htb, Bool.false_eq_true, if_false]
      rw [hstep]
      have hst' : St S c' [] [] (encAll S fs ++ rest) := by
        refine ⟨a3, a2.isServer.trans hst.srv, ?_, ?_, ?_, fun _ => rfl, ?_, ?_, ?_⟩
        · rw [a4]; exact hst.noErr
        · rw [a8]; rfl
        · rw [a11, hst.srv]; rfl
        · rw [a9, hfin]; intro h; cases h
        · rw [a10]; exact hst.len0
        · right; intro hc
          exact encAll_ne_nil h4 (List.append_eq_nil_iff.mp hc).1
      rw [dataPayload_ctl _ hd] at hover hsz
      rcases ih c' fs hst' (by rw [a9]; exact hfin) h4 (by rw [a2.same.together]; exact htog)
        (by rw [a2.limit]; exact hlim) (by rw [a10]; exact hlen0) hover hsz (by omega) with
        ⟨c1, b1, b2⟩ | ⟨c1, w1, m1, b1, b2, b3, b4⟩
      · left; exact ⟨c1, b1, b2⟩
      · right
        rw [a6] at b1 b2
        exact ⟨c1, w1, m1, b1, b2, by rw [b3, dataPayload_ctl _ hd], b4⟩

end WS.OverLimitAux
