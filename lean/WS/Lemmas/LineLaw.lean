import WS.Lemmas.SrcLaw
/-
  C17 (client side): http.ReadResponse reads the 101 header block line by line (ReadSlice('\n'))
  from the connection's own bufio.Reader; whatever the transport chunking and the buffer size, it
  consumes exactly the header lines, so the first frame the Conn reads starts at the byte after the
  empty line — bytes glued to the handshake are neither lost nor duplicated.
-/
namespace WS.LineLaw
open WS WS.SrcLaw

theorem split_none (rest : Bytes) : ∀ (buf line tp : Bytes), (10 : UInt8) ∉ buf → (10 : UInt8) ∉ line →
    buf ++ tp = line ++ 10 :: rest → ∃ line', line = buf ++ line' ∧ tp = line' ++ 10 :: rest := by
  intro buf
  induction buf with
  | nil => intro line tp _ _ h; exact ⟨line, rfl, by simpa using h⟩
  | cons x buf ih =>
    intro line tp hb hl h
    cases line with
    | nil =>
      simp at h
      exact absurd h.1 (by intro hx; apply hb; simp [hx])
    | cons y line =>
      simp at h
      obtain ⟨hxy, h⟩ := h
      obtain ⟨l', e1, e2⟩ := ih line tp (by intro hc; apply hb; simp [hc]) (by intro hc; apply hl; simp [hc]) h
      exact ⟨l', by rw [hxy, e1]; rfl, e2⟩

theorem split_some (rest : Bytes) : ∀ (buf line tp : Bytes) (i : Nat), buf.idxOf? (10 : UInt8) = some i →
    (10 : UInt8) ∉ line → buf ++ tp = line ++ 10 :: rest → buf.drop (i + 1) ++ tp = rest := by
  intro buf
  induction buf with
  | nil => intro line tp i h; simp at h
  | cons x buf ih =>
    intro line tp i hi hl h
    rw [List.idxOf?_cons] at hi
    cases line with
    | nil =>
      simp at h
      simp [h.1] at hi
      subst hi
      simpa using h.2
    | cons y line =>
      simp at h
      obtain ⟨hxy, h⟩ := h
      have hx : x ≠ 10 := by intro hc; apply hl; simp [← hxy, hc]
      simp [hx] at hi
      obtain ⟨j, hj, rfl⟩ := hi
      have := ih line tp j hj (by intro hc; apply hl; simp [hc]) h
      simpa using this

theorem readLine_total (fuel : Nat) : ∀ b : Buf, (b.readLine fuel).total = b.total := by
  induction fuel with
  | zero => intro b; rfl
  | succ f ih =>
    intro b
    unfold Buf.readLine
    split
    · rfl
    · split
      · rfl
      · split
        · rw [ih]
        · rw [ih, fill_eq]

theorem readLine_aux (rest : Bytes) (fuel : Nat) : ∀ (b : Buf) (line : Bytes), WF b → (10 : UInt8) ∉ line →
    b.pending = line ++ 10 :: rest → 2 * b.pending.length + 1 ≤ fuel + b.buf.length →
    WF (b.readLine fuel) ∧ (b.readLine fuel).pending = rest ∧ Same b (b.readLine fuel) := by
  induction fuel with
  | zero =>
    intro b line h hl hp hf
    have : b.buf.length ≤ b.pending.length := by simp [Buf.pending]
    have : 0 < b.pending.length := by rw [hp]; simp; omega
    omega
  | succ f ih =>
    intro b line h hl hp hf
    have hble : b.buf.length ≤ b.pending.length := by simp [Buf.pending]
    unfold Buf.readLine
    split
    next i hi =>
      refine ⟨⟨h.size_pos, ?_, h.chunks, h.latched⟩, ?_, Same.refl b⟩
      · have := h.len_le
        simp only [List.length_drop]; omega
      · exact split_some rest b.buf line b.t.pending i hi hl hp
    next hnone =>
      have hnb : (10 : UInt8) ∉ b.buf := List.idxOf?_eq_none_iff.mp hnone
      obtain ⟨line', e1, e2⟩ := split_none rest b.buf line b.t.pending hnb hl hp
      have hl' : (10 : UInt8) ∉ line' := by intro hc; apply hl; rw [e1]; simp [hc]
      have hch : b.t.chunks ≠ [] := by
        intro hc
        have : b.t.pending = [] := by simp [TSrc.pending, hc]
        rw [this] at e2
        simp at e2
      split
      next he =>
        cases hb : b.err with
        | none => simp [hb] at he
        | some e => exact absurd (h.latched e hb).1 hch
      next he =>
        split
        next hfull =>
          have hpos := h.size_pos
          obtain ⟨i1, i2, i3⟩ := ih { b with buf := [] } line' ⟨h.size_pos, by simp, h.chunks, h.latched⟩ hl'
            (by simpa [Buf.pending] using e2)
            (by
              have : b.pending.length = b.buf.length + b.t.pending.length := by simp [Buf.pending]
              simp only [Buf.pending, List.nil_append, List.length_nil]
              omega)
          exact ⟨i1, i2, i3⟩
        next hfull =>
          obtain ⟨f1, f2, f3, f4⟩ := fill_spec b h (by omega)
          have f4' : b.buf.length < b.fill.buf.length := by
            rcases f4 with f4 | f4
            · exact f4
            · have q := (pending_of_err _ f2 f4).1
              have hne : b.t.pending ≠ [] := fun hc => hch ((tpending_nil_iff b.t h.chunks).mp hc)
              have hpos : 0 < b.t.pending.length := List.length_pos_iff.mpr hne
              have hlen : b.pending.length = b.buf.length + b.t.pending.length := by simp [Buf.pending]
              rw [← q, f1]; omega
          obtain ⟨i1, i2, i3⟩ := ih b.fill line f2 hl (by rw [f1, hp]) (by rw [f1]; omega)
          exact ⟨i1, i2, f3.trans i3⟩

/-- one header line: the bytes up to and including the first newline are consumed, nothing else -/
theorem readLine_spec (b : Buf) (h : WF b) (hs : 16 ≤ b.size) (line rest : Bytes) (hl : (10 : UInt8) ∉ line)
    (hp : b.pending = line ++ 10 :: rest) (fuel : Nat) (hf : 2 * b.pending.length + 2 ≤ fuel) :
    WF (b.readLine fuel) ∧ (b.readLine fuel).pending = rest ∧ Same b (b.readLine fuel) := by
  have _ := hs
  exact readLine_aux rest fuel b line h hl hp (by omega)

/-- the header block as a list of lines (each without its newline) followed by `rest` -/
def block (lines : List Bytes) (rest : Bytes) : Bytes :=
  (lines.map (fun l => l ++ [10])).flatten ++ rest

/-- reading as many lines as the block has leaves exactly `rest` pending (with the fuel the driver
    uses: twice the ghost size of the transport script, plus two) -/
theorem readLines_spec (lines : List Bytes) (hl : ∀ l ∈ lines, (10 : UInt8) ∉ l) (b : Buf) (h : WF b) (hs : 16 ≤ b.size)
    (htot : b.pending.length ≤ b.total)
    (rest : Bytes) (hp : b.pending = block lines rest) :
    let b' := lines.foldl (fun b _ => b.readLine (2 * b.total + 2)) b
    WF b' ∧ b'.pending = rest ∧ Same b b' ∧ b'.total = b.total := by
  induction lines generalizing b with
  | nil =>
    refine ⟨h, ?_, Same.refl b, rfl⟩
    simpa [block] using hp
  | cons l ls ih =>
    have hp' : b.pending = l ++ 10 :: block ls rest := by
      rw [hp]; simp [block]
    obtain ⟨r1, r2, r3⟩ := readLine_spec b h hs l (block ls rest) (hl l (by simp)) hp'
      (2 * b.total + 2) (by omega)
    have ht := readLine_total (2 * b.total + 2) b
    have hlen : (b.readLine (2 * b.total + 2)).pending.length ≤ (b.readLine (2 * b.total + 2)).total := by
      rw [r2, ht]
      have : b.pending.length = l.length + ((block ls rest).length + 1) := by rw [hp']; simp
      omega
    obtain ⟨i1, i2, i3, i4⟩ := ih (fun l' h' => hl l' (by simp [h'])) (b.readLine (2 * b.total + 2)) r1
      (by rw [r3.1]; exact hs) hlen r2
    exact ⟨i1, i2, r3.trans i3, i4.trans ht⟩

end WS.LineLaw
