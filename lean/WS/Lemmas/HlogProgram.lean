import WS.Lemmas.ReadProgram
/-
  C08 for EVERY read program: whatever sequence of NextReader / Read(k) calls the application makes on a
  stream of conformant messages, the handlers have seen a prefix of the stream's control frames, in wire
  order, each at most once. The invariant is `LimitHistoryAux.Ab'` (reader inside / after a message,
  `c.r.hlog ++ ctlEvents more = H`) and `LimitHistoryAux.Pre` for NextReader.
-/
namespace WS.HlogProgram
open WS WS.Codec WS.ReaderDecodes WS.Sequences WS.ReadProgram WS.LimitHistoryAux

theorem ab_read (S : Bool) (rid : Nat) (rest1 : Bytes) (H : List REv) (n : Nat) (L : Int) (tg : Bool) (c : Conn)
    (k : Nat) (h : Ab' S rid rest1 H n L tg c) : Ab' S rid rest1 H n L tg (mrRead c rid (k + 1)).2 :=
  partialReads_spec' S rid rest1 H n L tg [k] c h

theorem ab_pre {S : Bool} {rid : Nat} {rest1 : Bytes} {H : List REv} {n : Nat} {L : Int} {tg : Bool} {c : Conn}
    (h : Ab' S rid rest1 H n L tg c) : Pre S rest1 H n L tg c := by
  obtain ⟨w, m, e1, _, _, e4, e5, e6, e7⟩ := h
  exact ⟨w, m, e1.congr (c' := rst c) rfl rfl rfl rfl rfl rfl rfl (Int.le_refl 0), e4, e5, e6, e7⟩

theorem pre_hlog {S : Bool} {rest1 : Bytes} {H : List REv} {n : Nat} {L : Int} {tg : Bool} {c : Conn}
    (h : Pre S rest1 H n L tg c) (X : List REv) : c.r.hlog <+: H ++ X := by
  obtain ⟨_, m, _, _, e, _, _⟩ := h
  rw [← e, List.append_assoc]
  exact List.prefix_append _ _

def HeldH (S : Bool) (rest : Bytes) (L : Int) (tg : Bool) (ops : List ROp) : Prop :=
  ∀ (msgs : List (Nat × List PFrame)) (c : Conn) (rid : Nat) (n : Nat) (H : List REv), MsgsOk L msgs →
    Ab' S rid (wireOf S msgs rest) H n L tg c → n < 2 ^ 62 → (L ≤ 0 ∨ (n : Int) ≤ L) →
    (ops.filter ROp.isNext).length ≤ msgs.length →
    (runProg ops c (some rid)).2.r.hlog <+: H ++ (msgs.map (fun m => ctlEvents m.2)).flatten

theorem next_caseH (S : Bool) (rest : Bytes) (L : Int) (tg : Bool) (htog : tg = false ∨ rest ≠ []) (ops : List ROp)
    (ih : HeldH S rest L tg ops) (msgs : List (Nat × List PFrame)) (c : Conn) (n : Nat) (cur : Option Nat)
    (H : List REv) (hm : MsgsOk L msgs) (hpre : Pre S (wireOf S msgs rest) H n L tg c)
    (hn : n < 2 ^ 62) (hnL : L ≤ 0 ∨ (n : Int) ≤ L)
    (hf : ((ROp.next :: ops).filter ROp.isNext).length ≤ msgs.length) :
    (runProg (.next :: ops) c cur).2.r.hlog <+: H ++ (msgs.map (fun m => ctlEvents m.2)).flatten := by
  cases msgs with
  | nil => simp [ROp.isNext] at hf
  | cons m ms =>
    rw [wireOf_cons] at hpre
    obtain ⟨mt, ms1, msz, mfit⟩ := hm m (by simp)
    have htog' : tg = false ∨ wireOf S ms rest ≠ [] := by
      rcases htog with h | h
      · exact Or.inl h
      · right; intro hc; exact h (List.append_eq_nil_iff.mp hc).2
    have hlimc := hpre.limit
    have htg : c.r.buf.t.together = tg := by
      obtain ⟨_, _, _, _, _, _, h⟩ := hpre; exact h
    obtain ⟨c1, rid, w1, m1, b1, b2, b3, b4, b5, b6, b7⟩ := pre_next S m.1 mt _ H n L tg c m.2 hpre ms1 htog' hn msz
      (by rcases hnL with h | h
          · exact Or.inl h
          · rcases mfit with h' | h'
            · exact Or.inl h'
            · exact Or.inr ⟨h, h'⟩)
    have hlen : w1.length + (dataPayload m1).length ≤ (dataPayload m.2).length := by
      have := congrArg List.length b6
      simp only [List.length_append, unmask_length] at this
      omega
    have hab : Ab' S rid (wireOf S ms rest) (H ++ ctlEvents m.2) (dataPayload m.2).length L tg c1 :=
      ⟨w1, m1, b2, Or.inl b4, b5, hlen, b7, by rw [b3.limit, hlimc], by rw [b3.same.together]; exact htg⟩
    have hf' : (ops.filter ROp.isNext).length ≤ ms.length := by
      have he : (ROp.next :: ops).filter ROp.isNext = .next :: ops.filter ROp.isNext := rfl
      rw [he] at hf
      simp only [List.length_cons] at hf
      omega
    have hrec := ih ms c1 rid _ _ (fun x hx => hm x (by simp [hx])) hab msz mfit hf'
    simp only [runProg, b1]
    simpa [List.append_assoc] using hrec

theorem run_heldH (S : Bool) (rest : Bytes) (L : Int) (tg : Bool) (htog : tg = false ∨ rest ≠ []) :
    ∀ ops : List ROp, HeldH S rest L tg ops := by
  intro ops
  induction ops with
  | nil =>
    intro msgs c rid n H _ hab _ _ _
    simp only [runProg]
    exact pre_hlog (ab_pre hab) _
  | cons op ops ih =>
    intro msgs c rid n H hm hab hn hnL hf
    cases op with
    | next => exact next_caseH S rest L tg htog ops ih msgs c n (some rid) H hm (ab_pre hab) hn hnL hf
    | read k =>
      have hf' : (ops.filter ROp.isNext).length ≤ msgs.length := by
        simpa [ROp.isNext] using hf
      have hab' := ab_read S rid _ H n L tg c k hab
      generalize hr : mrRead c rid (k + 1) = r at hab'
      obtain ⟨⟨bs, e⟩, c1⟩ := r
      simp only [runProg, hr]
      exact ih msgs c1 rid n H hm hab' hn hnL hf'

theorem run_idleH (S : Bool) (rest : Bytes) (L : Int) (tg : Bool) (htog : tg = false ∨ rest ≠ []) :
    ∀ (ops : List ROp) (msgs : List (Nat × List PFrame)) (c : Conn) (n : Nat) (H : List REv), MsgsOk L msgs →
      Pre S (wireOf S msgs rest) H n L tg c → n < 2 ^ 62 → (L ≤ 0 ∨ (n : Int) ≤ L) →
      (ops.filter ROp.isNext).length ≤ msgs.length →
      (runProg ops c none).2.r.hlog <+: H ++ (msgs.map (fun m => ctlEvents m.2)).flatten := by
  intro ops
  induction ops with
  | nil =>
    intro msgs c n H _ hpre _ _ _
    simp only [runProg]
    exact pre_hlog hpre _
  | cons op ops ih =>
    intro msgs c n H hm hpre hn hnL hf
    cases op with
    | next => exact next_caseH S rest L tg htog ops (run_heldH S rest L tg htog ops) msgs c n none H hm hpre hn hnL hf
    | read k =>
      have hf' : (ops.filter ROp.isNext).length ≤ msgs.length := by
        simpa [ROp.isNext] using hf
      simp only [runProg]
      exact ih msgs c n H hm hpre hn hnL hf'

/-- C08 for every read program: the handler log is a prefix of the stream's control frames, in wire order -/
theorem any_read_program_hlog (c : Conn) (hc : ReaderIdle c) (msgs : List (Nat × List PFrame))
    (hm : ∀ m ∈ msgs, (m.1 = 1 ∨ m.1 = 2) ∧ MsgShape m.1 m.2 ∧ (dataPayload m.2).length < 2 ^ 62 ∧
            (c.r.limit ≤ 0 ∨ ((dataPayload m.2).length : Int) ≤ c.r.limit))
    (rest : Bytes)
    (hp : c.r.buf.pending = (msgs.map (fun m => encAll c.r.isServer m.2)).flatten ++ rest)
    (hend : c.r.buf.t.together = false ∨ rest ≠ [])
    (ops : List ROp) (hn : (ops.filter ROp.isNext).length ≤ msgs.length) :
    (runProg ops c none).2.r.hlog <+: c.r.hlog ++ (msgs.map (fun m => ctlEvents m.2)).flatten := by
  exact run_idleH c.r.isServer rest c.r.limit c.r.buf.t.together hend ops msgs c 0 c.r.hlog hm
    (pre_idle c hc _ hp (by
      rcases hend with h | h
      · exact Or.inl h
      · right; intro hcn; exact h (List.append_eq_nil_iff.mp hcn).2))
    (by omega) (by omega) hn

end WS.HlogProgram
