import WS.Lemmas.LimitHistoryAux
import WS.Lemmas.CutAnyLimit
/-
  Reader-level lemmas for WS/Lemmas/CutProgram.lean: NextReader called while the reader is anywhere
  inside a message, when what follows on the wire is a message cut strictly inside it (or when the
  reader is inside that cut message), and the state a failing Read leaves behind.
-/
namespace WS.CutProgramAux
open WS WS.Codec WS.SrcLaw WS.ReaderDecodes WS.AdvFrame WS.CutAdv WS.CutLoops WS.RobustAux
open WS.CutLoopsL (LenOv)

/-- the connection after the rest of the current frame has been skipped -/
def skipped (c : Conn) (b' : Buf) : Conn := { c with r := { c.r with buf := b', remaining := 0 } }

theorem afHead_rem (c : Conn) (b' : Buf) :
    afHead { c with r := { c.r with buf := b' } } = afHead (skipped c b') ∨
    ∃ e x y, afHead { c with r := { c.r with buf := b' } } = (.error e, x) ∧ afHead (skipped c b') = (.error e, y) := by
  unfold afHead skipped
  simp only []
  generalize b'.take 2 = r
  obtain ⟨p, e, b⟩ := r
  simp only []
  cases e with
  | some e => right; exact ⟨e, _, _, rfl, rfl⟩
  | none =>
    match p with
    | [] => right; exact ⟨.any, _, _, rfl, rfl⟩
    | [_] => right; exact ⟨.any, _, _, rfl, rfl⟩
    | [b0, b1] => left; rfl
    | _ :: _ :: _ :: _ => right; exact ⟨.any, _, _, rfl, rfl⟩

/-- advanceFrame first skips the unread rest of the current frame -/
theorem adv_norm (c : Conn) (wire tail : Bytes) (hrem : c.r.remaining = (wire.length : Int))
    (hwf : WF c.r.buf) (hp : c.r.buf.pending = wire ++ tail) :
    ∃ b', b'.pending = tail ∧ WF b' ∧ Same2 c.r.buf b' ∧
      (advanceFrame c = advanceFrame (skipped c b') ∨
       ∃ e x y, advanceFrame c = (.error e, x) ∧ advanceFrame (skipped c b') = (.error e, y)) := by
  obtain ⟨b', h1, h2, h3, h4⟩ := afSkip_ok c wire tail hrem hwf hp
  refine ⟨b', h2, h3, h4, ?_⟩
  rw [advanceFrame_eq, advanceFrame_eq, h1, afSkip_zero (skipped c b') rfl]
  exact afHead_rem c b'

theorem nrl_norm (fuel : Nat) (c : Conn) (b' : Buf) (hne : c.r.readErr = none)
    (h : advanceFrame c = advanceFrame (skipped c b') ∨
       ∃ e x y, advanceFrame c = (.error e, x) ∧ advanceFrame (skipped c b') = (.error e, y)) :
    nextReaderLoop (fuel + 1) c = nextReaderLoop (fuel + 1) (skipped c b') ∨
    ∃ e c1, nextReaderLoop (fuel + 1) c = (.err e, c1) := by
  have hne' : (skipped c b').r.readErr = none := hne
  rcases h with h | ⟨e, x, y, h1, _⟩
  · left
    conv => lhs; unfold nextReaderLoop
    conv => rhs; unfold nextReaderLoop
    simp only [hne, hne', h]
  · right
    unfold nextReaderLoop
    simp only [hne, h1]
    exact ⟨_, _, rfl⟩

/-- a Read that gets bytes of the current frame latches the error it returns -/
theorem mrReadLoop_data_latch (fuel : Nat) (c : Conn) (rid k : Nat) (h : c.r.readErr = none)
    (hpos : c.r.remaining > 0) :
    (mrReadLoop (fuel + 1) c rid k).2.r.readErr = (mrReadLoop (fuel + 1) c rid k).1.2 := by
  unfold mrReadLoop
  simp only [h]
  rw [if_pos hpos]

/-- `mrReadLoop_cut` with the state a failing Read leaves behind: the error is latched, or (out of
    fuel) the reader is still inside the cut message -/
theorem mrReadLoop_cut2 (S : Bool) (rid k : Nat) (hk : 0 < k) (fuel : Nat) :
    ∀ (c : Conn) (wire : Bytes) (more : List PFrame) (m : Nat), CSt S c wire more m → c.r.msgReader = some rid →
      LenOv c (dataPayload more).length →
      (∃ out c' wire' more' m', mrReadLoop fuel c rid k = ((out, none), c') ∧ CSt S c' wire' more' m' ∧
        c'.r.msgReader = some rid ∧ LenOv c' (dataPayload more').length) ∨
      (∃ out e c', mrReadLoop fuel c rid k = ((out, some e), c') ∧ e ≠ .eof ∧
        ((∃ e', c'.r.readErr = some e') ∨
         (∃ wire' more' m', CSt S c' wire' more' m' ∧ c'.r.msgReader = some rid ∧
           LenOv c' (dataPayload more').length))) := by
  induction fuel with
  | zero =>
    intro c wire more m hst hm hl
    right
    exact ⟨[], .any, c, rfl, (by intro h; cases h), Or.inr ⟨wire, more, m, hst, hm, hl⟩⟩
  | succ fuel ih =>
    intro c wire more m hst hm hl
    by_cases hw : wire = []
    · subst hw
      have hrem : ¬ c.r.remaining > 0 := by have := hst.rem; simp at this; omega
      cases hfin : c.r.final with
      | true =>
        exfalso
        have hmore := hst.finT hfin
        subst hmore
        have := hst.cut
        simp at this
      | false =>
        rcases WS.CutLoopsL.cstep_tail S c more m hst hfin 0 (by simpa using hl) with ⟨e, c', a1, a2⟩ |
          ⟨t, c', wire', more', m', a1, a2, a3, a4, a5, a6, a7, a8⟩
        · right
          have hstep : mrReadLoop (fuel + 1) c rid k =
              mrReadLoop fuel { c' with r := { c'.r with readErr := some e } } rid k := by
            conv => lhs; unfold mrReadLoop
            simp only [hst.noErr]
            rw [if_neg hrem]
            simp only [hfin, Bool.false_eq_true, if_false, a1]
          obtain ⟨e', b1, b2⟩ := mrReadLoop_err fuel { c' with r := { c'.r with readErr := some e } } rid k e rfl a2
          rw [hstep, b1]
          exact ⟨[], e', _, rfl, b2, Or.inl ⟨e, rfl⟩⟩
        · have hstep : mrReadLoop (fuel + 1) c rid k = mrReadLoop fuel c' rid k := by
            conv => lhs; unfold mrReadLoop
            simp only [hst.noErr]
            rw [if_neg hrem]
            simp only [hfin, Bool.false_eq_true, if_false, a1, a2]
          rw [hstep]
          exact ih c' wire' more' m' a3 (by rw [a5]; exact hm) (by simpa using a7)
    · have hpos : c.r.remaining > 0 := by
        have hwl : 0 < wire.length := List.length_pos_iff.mpr hw
        rw [hst.rem]; omega
      have hlatch := mrReadLoop_data_latch fuel c rid k hst.noErr hpos
      rcases mrRead_cut S c rid k wire more m hst hw hk fuel with
        ⟨out, c', wire', m', a1, a2, a3, a4, a5, a6⟩ | ⟨out, e, c', a1, a2, a3⟩
      · left
        refine ⟨out, c', wire', more, m', a1, a2, by rw [a4]; exact hm, ?_⟩
        unfold LenOv at hl ⊢; rw [a5]; exact hl
      · right
        rw [a1] at hlatch
        exact ⟨out, e, c', a1, a2, Or.inl ⟨e, hlatch⟩⟩

/-- the loop of NextReader started inside a cut message: it fails -/
theorem nrl_cut_fails (S : Bool) (fuel : Nat) :
    ∀ (c : Conn) (wire : Bytes) (more : List PFrame) (m : Nat), CSt S c wire more m →
      LenOv c (dataPayload more).length → ∃ e c1, nextReaderLoop fuel c = (.err e, c1) := by
  induction fuel with
  | zero => intro c _ _ _ _ _; exact ⟨.any, c, rfl⟩
  | succ fuel ih =>
    have base : ∀ (c : Conn) (more : List PFrame) (m : Nat), CSt S c [] more m →
        LenOv c (dataPayload more).length → ∃ e c1, nextReaderLoop (fuel + 1) c = (.err e, c1) := by
      intro c more m hst hl
      cases hfin : c.r.final with
      | true =>
        exfalso
        have hmore := hst.finT hfin
        subst hmore
        have := hst.cut
        simp at this
      | false =>
        rcases WS.CutLoopsL.cstep_tail S c more m hst hfin 0 (by simpa using hl) with ⟨e, c', a1, a2⟩ |
          ⟨t, c', wire', more', m', a1, a2, a3, a4, a5, a6, a7, a8⟩
        · unfold nextReaderLoop
          simp only [hst.noErr, a1]
          exact ⟨_, _, rfl⟩
        · have hstep : nextReaderLoop (fuel + 1) c = nextReaderLoop fuel c' := by
            conv => lhs; unfold nextReaderLoop
            simp only [hst.noErr, a1, a2, Bool.false_eq_true, if_false]
          rw [hstep]
          exact ih c' wire' more' m' a3 (by simpa using a7)
    intro c wire more m hst hl
    have hcut := hst.cut
    by_cases hmw : m < wire.length
    · have hpos : c.r.remaining > 0 := by rw [hst.rem]; omega
      obtain ⟨s1, _⟩ := skip_short c.r.buf hst.env.wf c.r.remaining.toNat
        (by rw [hst.pend, List.length_take]; have := hst.rem; omega)
      have hadv : ∃ e c', advanceFrame c = (.error e, c') := by
        rw [advanceFrame_eq]
        unfold afSkip
        rw [if_pos hpos]
        generalize c.r.buf.skip c.r.remaining.toNat = r at s1
        obtain ⟨e, b⟩ := r
        simp only [] at s1
        subst s1
        exact ⟨_, _, rfl⟩
      obtain ⟨e, c', hadv⟩ := hadv
      unfold nextReaderLoop
      simp only [hst.noErr, hadv]
      exact ⟨_, _, rfl⟩
    · have hp' : c.r.buf.pending = wire ++ (encAll S more).take (m - wire.length) := by
        rw [hst.pend, take_append_ge _ _ _ (by omega)]
      obtain ⟨b', p1, p2, p3, p4⟩ := adv_norm c wire _ hst.rem hst.env.wf hp'
      have hst' : CSt S (skipped c b') [] more (m - wire.length) := by
        refine ⟨⟨p2, ?_, hst.env.hp, hst.env.hq⟩, hst.srv, hst.noErr, rfl, ?_, ?_, hst.finT, hst.finF, hst.len0⟩
        · show 125 ≤ b'.size
          rw [p3.size]; exact hst.env.size
        · show b'.pending = _
          rw [p1]; simp
        · simp only [List.length_append, List.nil_append] at hcut ⊢
          omega
      rcases nrl_norm fuel c b' hst.noErr p4 with h | h
      · rw [h]
        exact base (skipped c b') more _ hst' hl
      · exact h

/-- the result of NextReader from the result of its loop -/
theorem nextReader_of_loop_err (c : Conn) (hne : c.r.readErr = none) (e : RErr) (c1 : Conn)
    (h : nextReaderLoop c.fuel (c0 c) = (.err e, c1)) :
    (∃ e' c2, nextReader c = (.err e', c2)) ∨ (∃ c2, nextReader c = (.panic, c2)) := by
  rw [nextReader_eq, nrRes_none c hne, h, nrFinish_err]
  split
  · right; exact ⟨_, rfl⟩
  · left; exact ⟨_, _, rfl⟩

theorem nextReader_of_loop_msg (c : Conn) (hne : c.r.readErr = none) (t rid : Nat) (z : Bool) (c1 : Conn)
    (h : nextReaderLoop c.fuel (c0 c) = (.msg t rid z, c1)) : nextReader c = (.msg t rid z, c1) := by
  rw [nextReader_eq, nrRes_none c hne, h, nrFinish_msg]

/-- NextReader called inside a cut message fails -/
theorem nextReader_cut_fails (S : Bool) (c : Conn) (wire : Bytes) (more : List PFrame) (m : Nat)
    (hst : CSt S c wire more m) (hl : LenOv c (dataPayload more).length) :
    (∃ e c1, nextReader c = (.err e, c1)) ∨ (∃ c1, nextReader c = (.panic, c1)) := by
  have hlen0 := hst.len0
  unfold LenOv at hl
  have hst0 : CSt S (c0 c) wire more m := hst.congr rfl rfl rfl rfl rfl rfl rfl (Int.le_refl 0)
  have hl0 : LenOv (c0 c) (dataPayload more).length := by
    show (0 : Int) + ((dataPayload more).length : Int) < 9223372036854775808
    omega
  obtain ⟨e, c1, h⟩ := nrl_cut_fails S c.fuel (c0 c) wire more m hst0 hl0
  exact nextReader_of_loop_err c hst.noErr e c1 h

/-- the loop of NextReader started anywhere inside a whole message that is followed by a cut message:
    an error, or the cut message is opened -/
theorem nrl_into_cut (S : Bool) (t : Nat) (ht : t = 1 ∨ t = 2) (fs : List PFrame) (hs : MsgShape t fs) (cut : Nat)
    (hcut : cut < (encAll S fs).length) (extra : Nat) (L : Int)
    (hB : ∀ x : Int, 0 ≤ x → x + (extra : Int) < 9223372036854775808 → (L ≤ 0 ∨ x + (extra : Int) ≤ L) →
      x + ((dataPayload fs).length : Int) < 9223372036854775808) (fuel : Nat) :
    ∀ (c : Conn) (wire : Bytes) (more : List PFrame), St S c wire more ((encAll S fs).take cut) → c.r.limit = L →
      LenOk c ((dataPayload more).length + extra) →
      (∃ e c1, nextReaderLoop fuel c = (.err e, c1)) ∨
      (∃ c1 w1 m1 n1, nextReaderLoop fuel c = (.msg t c.r.nextId false, c1) ∧ CSt S c1 w1 m1 n1 ∧
        c1.r.msgReader = some c.r.nextId ∧ LenOv c1 (dataPayload m1).length) := by
  induction fuel with
  | zero => intro c _ _ _ _ _; left; exact ⟨.any, c, rfl⟩
  | succ fuel ih =>
    intro c wire more hst hlim hl
    cases hfin : c.r.final with
    | false =>
      obtain ⟨t', c', wire', more', a1, a2, a3, a4, a5, a6, a7, a8, a9, a10⟩ :=
        step_tail S c wire more _ hst hfin extra hl
      have hstep : nextReaderLoop (fuel + 1) c = nextReaderLoop fuel c' := by
        conv => lhs; unfold nextReaderLoop
        simp only [hst.noErr, a1, a2, Bool.false_eq_true, if_false]
      rw [hstep]
      rcases ih c' wire' more' a3 (a4.limit.trans hlim) a7 with ⟨e, c1, b1⟩ | ⟨c1, w1, m1, n1, b1, b2, b3, b4⟩
      · left; exact ⟨e, c1, b1⟩
      · right
        exact ⟨c1, w1, m1, n1, by rw [b1, a6], b2, by rw [b3, a6], b4⟩
    | true =>
      have hmore := hst.finT hfin
      subst hmore
      have hp : c.r.buf.pending = wire ++ (encAll S fs).take cut := by
        have := hst.pend
        simpa using this
      obtain ⟨b', p1, p2, p3, p4⟩ := adv_norm c wire _ hst.rem hst.env.wf hp
      have hlov : LenOv (skipped c b') (dataPayload fs).length := by
        obtain ⟨l1, l2⟩ := hl
        simp only [dataPayload_nil, List.length_nil, Nat.zero_add] at l1 l2
        show c.r.length + ((dataPayload fs).length : Int) < 9223372036854775808
        exact hB c.r.length hst.len0 l1 (by rw [← hlim]; exact l2)
      have hi : WS.CutLoopsL.CIdle S t (skipped c b') fs cut := by
        refine ⟨⟨p2, ?_, hst.env.hp, hst.env.hq⟩, hst.srv, hst.noErr, rfl, hfin, hst.len0, p1, hcut, hs, hlov⟩
        show 125 ≤ b'.size
        rw [p3.size]; exact hst.env.size
      have hcutl := WS.CutLoopsL.nextReaderLoop_cut S t ht (fuel + 1) (skipped c b') fs cut hi
      rcases nrl_norm fuel c b' hst.noErr p4 with h | h
      · rw [h]
        rcases hcutl with ⟨e, c1, b1⟩ | ⟨c1, w1, m1, n1, b1, b2, b3, b4, _⟩
        · left; exact ⟨e, c1, b1⟩
        · right; exact ⟨c1, w1, m1, n1, b1, b2, b3, b4⟩
      · left; exact h

/-- NextReader called anywhere inside (or after) a whole message of at most `n` payload bytes that is
    followed by a cut message: it fails or opens the cut message -/
theorem nextReader_into_cut (S : Bool) (t : Nat) (ht : t = 1 ∨ t = 2) (fs : List PFrame) (hs : MsgShape t fs)
    (hsz : (dataPayload fs).length < 2 ^ 62) (cut : Nat) (hcut : cut < (encAll S fs).length)
    (c : Conn) (wire : Bytes) (more : List PFrame)
    (hst : St S (c0 c) wire more ((encAll S fs).take cut)) (n : Nat) (hmn : (dataPayload more).length ≤ n)
    (hn : n < 2 ^ 62) (hnL : c.r.limit ≤ 0 ∨ (n : Int) ≤ c.r.limit) :
    (∃ c1 rid w1 m1 n1, nextReader c = (.msg t rid false, c1) ∧ CSt S c1 w1 m1 n1 ∧
      c1.r.msgReader = some rid ∧ LenOv c1 (dataPayload m1).length) ∨
    (∃ e c1, nextReader c = (.err e, c1)) ∨ (∃ c1, nextReader c = (.panic, c1)) := by
  have hne : c.r.readErr = none := hst.noErr
  have key : ∀ extra : Nat,
      (∀ x : Int, 0 ≤ x → x + (extra : Int) < 9223372036854775808 → (c.r.limit ≤ 0 ∨ x + (extra : Int) ≤ c.r.limit) →
        x + ((dataPayload fs).length : Int) < 9223372036854775808) →
      LenOk (c0 c) ((dataPayload more).length + extra) →
      (∃ c1 rid w1 m1 n1, nextReader c = (.msg t rid false, c1) ∧ CSt S c1 w1 m1 n1 ∧
        c1.r.msgReader = some rid ∧ LenOv c1 (dataPayload m1).length) ∨
      (∃ e c1, nextReader c = (.err e, c1)) ∨ (∃ c1, nextReader c = (.panic, c1)) := by
    intro extra hB hl
    rcases nrl_into_cut S t ht fs hs cut hcut extra c.r.limit hB c.fuel (c0 c) wire more hst rfl hl with
      ⟨e, c1, b1⟩ | ⟨c1, w1, m1, n1, b1, b2, b3, b4⟩
    · right; exact nextReader_of_loop_err c hne e c1 b1
    · left
      exact ⟨c1, _, w1, m1, n1, nextReader_of_loop_msg c hne _ _ _ c1 b1, b2, b3, b4⟩
  by_cases hbig : c.r.limit ≤ 0 ∨ 9223372036854775807 ≤ c.r.limit
  · apply key (9223372036854775807 - (dataPayload more).length)
    · intro x _ h1 _
      omega
    · refine ⟨?_, ?_⟩
      · show (0 : Int) + _ < _
        omega
      · show c.r.limit ≤ 0 ∨ (0 : Int) + _ ≤ c.r.limit
        rcases hbig with h | h
        · exact Or.inl h
        · right; omega
  · have hL : (n : Int) ≤ c.r.limit := by omega
    apply key (c.r.limit - ((dataPayload more).length : Int)).toNat
    · intro x _ _ h2
      omega
    · refine ⟨?_, ?_⟩
      · show (0 : Int) + _ < _
        omega
      · show c.r.limit ≤ 0 ∨ (0 : Int) + _ ≤ c.r.limit
        right; omega

end WS.CutProgramAux
