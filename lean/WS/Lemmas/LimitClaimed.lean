import WS.Lemmas.RoleGeneric
/-
  C06 for every length a frame header can claim: 7-bit, 16-bit and 64-bit encodings (minimal or
  not), any claimed length below 2^63, any running sum — including sums that leave the int64 range
  (the Go code adds int64s; the model wraps with `wrap64`). The frame is refused FROM ITS HEADER:
  nothing of the payload needs to have arrived.
-/
namespace WS.LimitClaimed
open WS WS.Codec WS.SrcLaw WS.HdrLogic WS.ReaderDecodes WS.ReaderRejects WS.ReaderLift WS.ReaderMore WS.RoleGeneric

/-- the length a header claims: the 7-bit field, or the big-endian value of the extension bytes -/
def claimed (h : Hdr) (ext : Bytes) : Nat := if h.len7 = 126 ∨ h.len7 = 127 then beVal ext else h.len7

/-- number of extension bytes the header announces -/
def extLen (h : Hdr) : Nat := if h.len7 = 126 then 2 else if h.len7 = 127 then 8 else 0

/-! ### helper lemmas -/
section Helpers
open WS.AdvFrame

/-- steps 3-7 -/
def afTail (h : Hdr) (c : Conn) : Except RErr Nat × Conn :=
  match afLen h c with
  | (some e, c) => (.error e, c)
  | (none, c) =>
  match afKey h c with
  | (some e, c) => (.error e, c)
  | (none, c) => afRest h c

theorem afHdr_eq_tail (c : Conn) (b0 b1 : UInt8)
    (hok : ¬ Violates c.r.isServer c.r.nego (!c.r.final) (parseHdr b0 b1)) :
    afHdr c b0 b1 = afTail (parseHdr b0 b1)
      { c with r := { c.r with remaining := ((parseHdr b0 b1).len7 : Int),
                               decompress := (parseHdr b0 b1).rsv1 && c.r.nego,
                               final := finalAfter (parseHdr b0 b1).opcode (parseHdr b0 b1).fin c } } := by
  unfold afHdr afTail afRest finalAfter
  simp only [errs_empty _ _ _ _ hok, Bool.false_eq_true, if_false]
  rfl

theorem len4 (k : Bytes) (h : k.length = 4) : ∃ key : Key, k = key.bytes := by
  match k, h with
  | [a, b, c, d], _ => exact ⟨⟨a, b, c, d⟩, rfl⟩

/-- step 3 for any encoding of a length below 2^63 -/
theorem afLen_claimed (h : Hdr) (c : Conn) (ext tail : Bytes)
    (hrem : c.r.remaining = (h.len7 : Int)) (hext : ext.length = extLen h) (hL : claimed h ext < 2 ^ 63)
    (hwf : WF c.r.buf) (hsz : 8 ≤ c.r.buf.size) (hp : c.r.buf.pending = ext ++ tail) :
    ∃ b', afLen h c = (none, { c with r := { c.r with buf := b', remaining := (claimed h ext : Int) } }) ∧
      b'.pending = tail ∧ WF b' ∧ Same2 c.r.buf b' := by
  unfold afLen
  by_cases h126 : h.len7 = 126
  · have hcl : claimed h ext = beVal ext := by unfold claimed; rw [if_pos (Or.inl h126)]
    have he : ext.length = 2 := by rw [hext]; unfold extLen; rw [if_pos h126]
    rw [if_pos h126]
    obtain ⟨b', t1, t2, t3, t4⟩ := take_exact c.r.buf hwf 2 (by omega) _ _ hp he
    rw [t1, hcl]
    exact ⟨b', rfl, t2, t3, t4⟩
  · by_cases h127 : h.len7 = 127
    · have hcl : claimed h ext = beVal ext := by unfold claimed; rw [if_pos (Or.inr h127)]
      have he : ext.length = 8 := by rw [hext]; unfold extLen; rw [if_neg h126, if_pos h127]
      rw [if_neg h126, if_pos h127]
      obtain ⟨b', t1, t2, t3, t4⟩ := take_exact c.r.buf hwf 8 hsz _ _ hp he
      rw [t1, hcl]
      rw [hcl] at hL
      have hw : wrap64 ((beVal ext : Nat) : Int) = (beVal ext : Int) :=
        AdvFrame.wrap64_id _ (by omega) (by omega)
      simp only [hw]
      rw [if_neg (by omega)]
      exact ⟨b', rfl, t2, t3, t4⟩
    · have hcl : claimed h ext = h.len7 := by
        unfold claimed; rw [if_neg (by omega)]
      have he : ext = [] := by
        apply List.eq_nil_of_length_eq_zero
        rw [hext]; unfold extLen; rw [if_neg h126, if_neg h127]
      rw [if_neg h126, if_neg h127, hcl]
      subst he
      refine ⟨c.r.buf, ?_, by simpa using hp, hwf, Same2.refl _⟩
      rw [← hrem]

/-- step 4 on a key of the announced size -/
theorem afKey_claimed (h : Hdr) (c : Conn) (keyb tail : Bytes)
    (hkey : keyb.length = if h.mask then 4 else 0)
    (hwf : WF c.r.buf) (hsz : 4 ≤ c.r.buf.size) (hp : c.r.buf.pending = keyb ++ tail) :
    ∃ b' mp mk, afKey h c = (none, { c with r := { c.r with buf := b', maskPos := mp, maskKey := mk } }) ∧
      b'.pending = tail ∧ WF b' ∧ Same2 c.r.buf b' := by
  cases hm : h.mask with
  | true =>
    rw [hm, if_pos rfl] at hkey
    obtain ⟨key, rfl⟩ := len4 keyb hkey
    obtain ⟨b', t1, t2, t3, t4⟩ := afKey_ok h c true key tail hm hwf hsz (by simpa [keyBytes] using hp)
    exact ⟨b', _, _, t1, t2, t3, t4⟩
  | false =>
    rw [hm, if_neg (by decide)] at hkey
    have he : keyb = [] := List.eq_nil_of_length_eq_zero hkey
    subst he
    obtain ⟨b', t1, t2, t3, t4⟩ := afKey_ok h c false default tail hm hwf hsz (by simpa [keyBytes] using hp)
    exact ⟨b', _, _, t1, t2, t3, t4⟩

theorem wrap64_over (x lim : Int) (h0 : 0 ≤ x) (h1 : x < 18446744073709551616) (hover : lim < x) :
    wrap64 x < 0 ∨ lim < wrap64 x := by
  unfold wrap64 two63 two64
  omega

/-- step 5 refusing a data frame, whether or not the int64 sum wraps -/
theorem afData_over_wrap (h : Hdr) (c : Conn) (L : Nat) (hrem : c.r.remaining = (L : Int))
    (h0 : 0 ≤ c.r.length) (h1 : c.r.length < 2 ^ 63) (hL : L < 2 ^ 63)
    (hlim : 0 < c.r.limit) (hover : c.r.limit < (if h.opcode = 0 then c.r.length else 0) + (L : Int)) :
    ∃ len, afData h c = (.error .readLimit, sendTooBig { c with r := { c.r with length := len } }) := by
  unfold afData
  have hb : (if (h.opcode == 0) = true then c.r.length else 0) = (if h.opcode = 0 then c.r.length else 0) := by
    simp only [beq_iff_eq]
  have hx := wrap64_over ((if h.opcode = 0 then c.r.length else 0) + (L : Int)) c.r.limit
    (by split <;> omega) (by split <;> omega) hover
  simp only [hb, hrem]
  rw [if_pos]
  · exact ⟨_, rfl⟩
  · simp only [Bool.or_eq_true, Bool.and_eq_true, decide_eq_true_eq]
    omega

/-- steps 3-5 on the bytes after the two header bytes -/
theorem afTail_claimed (h : Hdr) (c : Conn) (ext keyb rest : Bytes)
    (hrem : c.r.remaining = (h.len7 : Int)) (hdata : h.opcode ≤ 2)
    (hext : ext.length = extLen h) (hkey : keyb.length = if h.mask then 4 else 0)
    (hwf : WF c.r.buf) (hsz : 8 ≤ c.r.buf.size) (hp : c.r.buf.pending = ext ++ (keyb ++ rest))
    (hL : claimed h ext < 2 ^ 63) (h0 : 0 ≤ c.r.length) (h1 : c.r.length < 2 ^ 63)
    (hlim : 0 < c.r.limit)
    (hover : c.r.limit < (if h.opcode = 0 then c.r.length else 0) + (claimed h ext : Int)) :
    ∃ c', afTail h c = (.error .readLimit, c') ∧ c'.r.buf.pending = rest ∧ c'.r.hlog = c.r.hlog ∧
      c'.w = (sendTooBig c).w := by
  unfold afTail
  obtain ⟨b1, s1, s2, s3, s4⟩ := afLen_claimed h c ext (keyb ++ rest) hrem hext hL hwf hsz hp
  rw [s1]
  simp only []
  obtain ⟨b2, mp, mk, t1, t2, t3, t4⟩ := afKey_claimed h
    { c with r := { c.r with buf := b1, remaining := (claimed h ext : Int) } } keyb rest hkey s3
    (by have := s4.size; simp only [] at this ⊢; omega) s2
  rw [t1]
  simp only []
  have hopb : (h.opcode == 0 || h.opcode == 1 || h.opcode == 2) = true := by
    simp only [Bool.or_eq_true, beq_iff_eq]; omega
  unfold afRest
  rw [if_pos hopb]
  obtain ⟨len, hd⟩ := afData_over_wrap h
    { c with r := { c.r with buf := b2, remaining := (claimed h ext : Int), maskPos := mp, maskKey := mk } }
    (claimed h ext) rfl h0 h1 hL hlim hover
  rw [hd]
  exact ⟨_, rfl, t2, rfl, rfl⟩

end Helpers

open WS.AdvFrame

/-- the frame whose CLAIMED length takes the message over the limit — in the mathematical integers,
    whether or not the int64 sum wraps — is refused as soon as its header (2 bytes + extension +
    masking key) has arrived: ErrReadLimit, exactly the header is consumed, no handler runs, a 1009
    close frame is written. Either role, first frame or continuation, every length encoding. -/
theorem limit_refuses_claimed (c : Conn) (hc : AtBoundary c) (hw : WHealthy c.w)
    (b0 b1 : UInt8) (ext keyb rest : Bytes)
    (hok : ¬ Violates c.r.isServer c.r.nego (!c.r.final) (parseHdr b0 b1))
    (hdata : (parseHdr b0 b1).opcode ≤ 2)
    (hext : ext.length = extLen (parseHdr b0 b1))
    (hkey : keyb.length = if (parseHdr b0 b1).mask then 4 else 0)
    (hp : c.r.buf.pending = b0 :: b1 :: (ext ++ keyb ++ rest))
    (hL : claimed (parseHdr b0 b1) ext < 2 ^ 63)
    (hsum : 0 ≤ c.r.length) (hsum' : c.r.length < 2 ^ 63)
    (hlim : 0 < c.r.limit)
    (hover : c.r.limit < sumBase c (parseHdr b0 b1) + (claimed (parseHdr b0 b1) ext : Int)) :
    ∃ c', advanceFrame c = (.error .readLimit, c') ∧ c'.r.buf.pending = rest ∧ c'.r.hlog = c.r.hlog ∧
      c'.w.wire = c.w.wire ++ closeFrameBytes c.w (closePayload 1009 []) ∧ c'.w.writeErr = some .closeSent := by
  have hsz := hc.size
  rw [advanceFrame_eq]
  obtain ⟨b1', s1, s2, s3, s4⟩ := afSkip_ok c [] _ (by rw [hc.rem]; rfl) hc.wf (by simp only [List.nil_append]; exact hp)
  rw [s1]
  simp only []
  obtain ⟨b2', t1, t2, t3, t4⟩ := afHead_ok { c with r := { c.r with buf := b1' } } _ _ _ s3
    (by have := s4.size; simp only [] at this ⊢; omega) s2
  rw [t1, afHdr_eq_tail _ _ _ (by exact hok)]
  have hover' : c.r.limit < (if (parseHdr b0 b1).opcode = 0 then c.r.length else 0) +
      (claimed (parseHdr b0 b1) ext : Int) := hover
  obtain ⟨c', u1, u2, u3, u4⟩ := afTail_claimed (parseHdr b0 b1)
    { c with r := { c.r with buf := b2', remaining := ((parseHdr b0 b1).len7 : Int),
                             decompress := (parseHdr b0 b1).rsv1 && c.r.nego,
                             final := finalAfter (parseHdr b0 b1).opcode (parseHdr b0 b1).fin c } }
    ext keyb rest rfl hdata hext hkey t3
    (by have := s4.size; have := t4.size; simp only [] at *; omega)
    (by simp only [List.append_assoc] at t2; exact t2) hL hsum hsum' hlim hover'
  refine ⟨c', u1, u2, u3, ?_, ?_⟩
  · rw [u4]; exact (sendTooBig_healthy c hw).2.1
  · rw [u4]; exact (sendTooBig_healthy c hw).2.2

/-- a 64-bit length with the top bit set is refused the same way whatever the limit is (even with
    no limit set), before the masking key is read -/
theorem topbit_refused_claimed (c : Conn) (hc : AtBoundary c) (hw : WHealthy c.w)
    (b0 b1 : UInt8) (ext rest : Bytes)
    (hok : ¬ Violates c.r.isServer c.r.nego (!c.r.final) (parseHdr b0 b1))
    (h127 : (parseHdr b0 b1).len7 = 127) (hext : ext.length = 8)
    (hp : c.r.buf.pending = b0 :: b1 :: (ext ++ rest))
    (hL : 2 ^ 63 ≤ beVal ext) :
    ∃ c', advanceFrame c = (.error .readLimit, c') ∧ c'.r.buf.pending = rest ∧ c'.r.hlog = c.r.hlog ∧
      c'.w.wire = c.w.wire ++ closeFrameBytes c.w (closePayload 1009 []) := by
  obtain ⟨c', h1, h2, h3, h4, _⟩ := topbit_length_rejected c hc hw b0 b1 ext rest (by rw [hp]; simp) hext hok h127 hL
  exact ⟨c', h1, h3, h2, h4⟩

/-- API level: NextReader on an idle reader meeting such a first frame returns ErrReadLimit, latches
    it, and the 1009 frame is on the wire — for any claimed length below 2^63 in any encoding -/
theorem nextReader_over_limit_claimed (c : Conn) (hc : ReaderIdle c) (hi : CountInv c) (hw : WHealthy c.w)
    (b0 b1 : UInt8) (ext keyb rest : Bytes)
    (hok : ¬ Violates c.r.isServer c.r.nego false (parseHdr b0 b1))
    (hdata : (parseHdr b0 b1).opcode = 1 ∨ (parseHdr b0 b1).opcode = 2)
    (hext : ext.length = extLen (parseHdr b0 b1))
    (hkey : keyb.length = if (parseHdr b0 b1).mask then 4 else 0)
    (hp : c.r.buf.pending = b0 :: b1 :: (ext ++ keyb ++ rest))
    (hL : claimed (parseHdr b0 b1) ext < 2 ^ 63)
    (hlim : 0 < c.r.limit) (hover : c.r.limit < (claimed (parseHdr b0 b1) ext : Int)) :
    ∃ c', nextReader c = (.err .readLimit, c') ∧ c'.r.readErr = some .readLimit ∧
      c'.w.wire = c.w.wire ++ closeFrameBytes c.w (closePayload 1009 []) := by
  have h0 : c.r.errCount = 0 := hi hc.noErr
  have hfin : c.r.final = true := hc.fin
  obtain ⟨c', ha, _, _, h3, _⟩ := limit_refuses_claimed (RobustAux.c0 c) (idle_c0_boundary c hc) hw b0 b1 ext keyb rest
    (by show ¬ Violates c.r.isServer c.r.nego (!c.r.final) (parseHdr b0 b1)
        rw [hfin]; exact hok)
    (by rcases hdata with h | h <;> omega) hext hkey hp hL (Int.le_refl 0)
    (by show (0 : Int) < 2 ^ 63; decide) hlim
    (by show c.r.limit < (if (parseHdr b0 b1).opcode = 0 then (0 : Int) else 0) + _
        split <;> omega)
  have hn := nextReader_adv_err c hc.noErr _ c' ha
  rw [h0, if_neg (by decide)] at hn
  exact ⟨_, hn, rfl, h3⟩

end WS.LimitClaimed
