import WS.Model.Writer
import WS.Spec.Frame
import WS.Lemmas.Mask
import WS.Lemmas.Writer
import WS.Lemmas.Codec
import WS.Lemmas.WireInv
import WS.Lemmas.Stream
import WS.Lemmas.Flow
/-
  C01 / C02: the unmasked payloads on the wire reproduce exactly what the application wrote, one
  wire message per API-level message, in call order — for every buffer size, role and split of the
  application's writes, with control messages in between.

-/
namespace WS.Content
open WS WS.Codec WS.WireInv

/-- the data messages / control frames the wire encodes, as judged by the strict RFC decoder -/
def wireMessages (s : W) : List Spec.Msg := Spec.messages (Spec.decodePrefixAux s.wire.length s.wire)
def wireControls (s : W) : List (Nat × Bytes) := Spec.controls (Spec.decodePrefixAux s.wire.length s.wire)

/-- a connection between messages: healthy, no writer open, whole frames on the wire, no
    unfinished message on the wire -/
structure Idle (s : W) : Prop where
  healthy : s.writeErr = none
  noFaults : s.faults = []
  noWriter : s.writer = none
  dead : ∀ m ∈ s.mws, m.err.isSome
  size : maxFrameHeaderSize < s.wbufLen ∧ s.wbufLen < 2 ^ 40
  whole : ∃ fs, Spec.decodeStream s.wire = some fs ∧ Spec.endsInMsg false fs = false
  plain : s.nego = false

/-- one API-level data message written through NextWriter: any split into Write / WriteString
    calls, with WriteControl calls (valid, ≤ 125 bytes, deadline not in the past) in between, then Close -/
inductive Piece
  | write (p : Bytes) (asString : Bool)
  | control (t : Nat) (data : Bytes) (d : Nat)

def Piece.ok : Piece → Prop
  | .write p _ => p.length < 2 ^ 40
  | .control t data _ => (t = 9 ∨ t = 10) ∧ data.length ≤ 125

def Piece.op (h : Nat) : Piece → Op
  | .write p a => .write h p [] a
  | .control t data d => .writeControl t data d

def Piece.bytes : Piece → Bytes
  | .write p _ => p
  | .control _ _ _ => []

def Piece.ctl : Piece → List (Nat × Bytes)
  | .write _ _ => []
  | .control t data _ => [(t, data)]

/-- the handle NextWriter will return in state `s` -/
def nextHandle (s : W) : Nat := s.handles.length

/-- NextWriter(t); pieces…; Close -/
def messageOps (s : W) (t : Nat) (ps : List Piece) : List Op :=
  [.nextWriter t [] []] ++ ps.map (Piece.op (nextHandle s)) ++ [.close (nextHandle s) [] []]


/-! ### helper lemmas -/
section Helpers
open WS.Stream WS.Flow

theorem Idle.wireSt {s : W} (hi : Idle s) : WireSt s.wire (wireMessages s) (wireControls s) none := by
  obtain ⟨fs, hd, he⟩ := hi.whole
  exact WireSt.of_stream hd he

theorem wire_of_wireSt {s : W} {M C cur} (h : WireSt s.wire M C cur) : wireMessages s = M ∧ wireControls s = C :=
  h.prefix

/-- state-level invariant while the data message of handle `h` (opcode `t`) is being written -/
structure Mid (s : W) (h : Nat) (t : Nat) (M : List Spec.Msg) (C : List (Nat × Bytes)) (acc : Bytes) : Prop where
  plain : s.nego = false
  mw : ∃ pre m, s.mws = pre ++ [m] ∧ (∀ x ∈ pre, x.err.isSome) ∧ s.handles[h]? = some (.plain pre.length) ∧
    MidMW s m t M C acc

theorem run_append (s : W) (a b : List Op) : run s (a ++ b) = run (run s a) b := by
  induction a generalizing s with
  | nil => rfl
  | cons op a ih => simp only [List.cons_append, run]; exact ih _

theorem set_last (pre : List MW) (m m' : MW) : (pre ++ [m]).set pre.length m' = pre ++ [m'] := by
  simp

theorem getMW_last (s : W) (pre : List MW) (m : MW) (h : s.mws = pre ++ [m]) : getMW s pre.length = m := by
  simp [getMW, h]

theorem beginMessage_idle {s : W} (hi : Idle s) (t : Nat) (ht : t = 1 ∨ t = 2) :
    beginMessage s (t : Int) [] [] = (.ok { ft := t }, ensureBuf s) := by
  have hd : (!isControl (t : Int) && !isData (t : Int)) = false := by
    rcases ht with rfl | rfl <;> decide
  unfold beginMessage closePrev beginMessage'
  rw [hi.noWriter]
  simp only [hd, Bool.false_eq_true, if_false, hi.healthy, Int.toNat_natCast]

theorem midMW_start {s : W} (hi : Idle s) (t : Nat) (s1 : W) (hk : Keep s s1) (hw : s1.wire = s.wire) :
    MidMW s1 { ft := t } t (wireMessages s) (wireControls s) [] := by
  refine ⟨hk.writeErr.trans hi.healthy, hk.faults.trans hi.noFaults, by rw [hk.wbufLen]; exact hi.size,
    rfl, rfl, by simp, [], rfl, Or.inl ⟨rfl, rfl, ?_⟩⟩
  rw [hw]; exact hi.wireSt

theorem nextWriter_idle {s : W} (hi : Idle s) (t : Nat) (ht : t = 1 ∨ t = 2) :
    (nextWriter s (t : Int) [] []).1 = .ok (nextHandle s) ∧
    Mid (nextWriter s (t : Int) [] []).2 (nextHandle s) t (wireMessages s) (wireControls s) [] := by
  have hk := Keep.ensureBuf s
  have hn : (ensureBuf s).nego = false := hk.nego.trans hi.plain
  unfold nextWriter
  rw [beginMessage_idle hi t ht]
  simp only [hn, Bool.false_and, Bool.false_eq_true, if_false]
  refine ⟨by rw [hk.handles]; rfl, rfl, (ensureBuf s).mws, { ft := t }, rfl, ?_, ?_, ?_⟩
  · rw [hk.mws]; exact hi.dead
  · simp [nextHandle, hk.handles]
  · exact (midMW_start hi t (ensureBuf s) hk (ensureBuf_wire s).1).congr rfl rfl rfl rfl

theorem hWrite_mid {s : W} {h t : Nat} {M C acc} (hM : Mid s h t M C acc) (ht : t = 1 ∨ t = 2) (p : Bytes)
    (hp : p.length < 2 ^ 40) (a : Bool) :
    (hWrite s h p [] a).1.2 = none ∧ Mid (hWrite s h p [] a).2 h t M C (acc ++ p) := by
  obtain ⟨pre, m, hmws, hdead, hh, hmid⟩ := hM.mw
  have hget := getMW_last s pre m hmws
  unfold hWrite
  rw [hh]
  dsimp only
  rw [hget]
  cases a with
  | false =>
    simp only [Bool.false_eq_true, if_false]
    have hw := mwWrite_mid p hmid ht hp
    refine ⟨hw.1, hw.2.1.nego.trans hM.plain, pre, (mwWrite s m p).2.2, ?_, hdead, ?_, ?_⟩
    · show (mwWrite s m p).2.1.mws.set pre.length _ = _
      rw [hw.2.1.mws, hmws, set_last]
    · show (mwWrite s m p).2.1.handles[h]? = _
      rw [hw.2.1.handles]; exact hh
    · exact hw.2.2.2.congr rfl rfl rfl rfl
  | true =>
    simp only [if_true]
    have hw := mwWriteString_mid p hmid ht
    refine ⟨hw.1, hw.2.1.nego.trans hM.plain, pre, (mwWriteString s m p).2.2, ?_, hdead, ?_, ?_⟩
    · show (mwWriteString s m p).2.1.mws.set pre.length _ = _
      rw [hw.2.1.mws, hmws, set_last]
    · show (mwWriteString s m p).2.1.handles[h]? = _
      rw [hw.2.1.handles]; exact hh
    · exact hw.2.2.2.congr rfl rfl rfl rfl

theorem midMW_control {s : W} {m : MW} {t : Nat} {M C acc} (h : MidMW s m t M C acc) (ct : Nat)
    (hct : ct = 9 ∨ ct = 10) (data : Bytes) (hd : data.length ≤ 125) (d : Nat) :
    (writeControl s ct data d).1 = none ∧ Keep s (writeControl s ct data d).2 ∧
    MidMW (writeControl s ct data d).2 m t M (C ++ [(ct, data)]) acc := by
  obtain ⟨fl, hacc, hws⟩ := h.wire
  rcases hws with ⟨h1, h2, hws⟩ | ⟨h1, hws⟩
  · have hc := writeControl_ok s ct hct data hd d h.healthy h.noFaults hws
    refine ⟨hc.1, hc.2.1, hc.2.1.writeErr.trans h.healthy, hc.2.1.faults.trans h.noFaults,
      by rw [hc.2.1.wbufLen]; exact h.size, h.err, h.compress, by rw [hc.2.1.cap]; exact h.buflen,
      fl, hacc, Or.inl ⟨h1, h2, hc.2.2.2⟩⟩
  · have hc := writeControl_ok s ct hct data hd d h.healthy h.noFaults hws
    refine ⟨hc.1, hc.2.1, hc.2.1.writeErr.trans h.healthy, hc.2.1.faults.trans h.noFaults,
      by rw [hc.2.1.wbufLen]; exact h.size, h.err, h.compress, by rw [hc.2.1.cap]; exact h.buflen,
      fl, hacc, Or.inr ⟨h1, hc.2.2.2⟩⟩

theorem writeControl_mid {s : W} {h t : Nat} {M C acc} (hM : Mid s h t M C acc) (ct : Nat)
    (hct : ct = 9 ∨ ct = 10) (data : Bytes) (hd : data.length ≤ 125) (d : Nat) :
    (writeControl s ct data d).1 = none ∧ Mid (writeControl s ct data d).2 h t M (C ++ [(ct, data)]) acc := by
  obtain ⟨pre, m, hmws, hdead, hh, hmid⟩ := hM.mw
  have hc := midMW_control hmid ct hct data hd d
  refine ⟨hc.1, hc.2.1.nego.trans hM.plain, pre, m, by rw [hc.2.1.mws]; exact hmws, hdead,
    by rw [hc.2.1.handles]; exact hh, hc.2.2⟩

theorem hClose_mid {s : W} {h t : Nat} {M C acc} (hM : Mid s h t M C acc) (ht : t = 1 ∨ t = 2) :
    (hClose s h [] []).1 = none ∧ Idle (hClose s h [] []).2 ∧
    wireMessages (hClose s h [] []).2 = M ++ [⟨t, false, acc⟩] ∧ wireControls (hClose s h [] []).2 = C := by
  obtain ⟨pre, m, hmws, hdead, hh, hmid⟩ := hM.mw
  have hget := getMW_last s pre m hmws
  unfold hClose
  rw [hh]
  dsimp only
  rw [hget]
  have hc := mwClose_fin hmid ht
  obtain ⟨he, hk, hwr, herr, hws⟩ := hc
  have hsz : maxFrameHeaderSize < (mwClose s m).2.1.wbufLen ∧ (mwClose s m).2.1.wbufLen < 2 ^ 40 := by
    rw [hk.wbufLen]; exact hmid.size
  have hwire := wire_of_wireSt (s := setMW (mwClose s m).2.1 pre.length (mwClose s m).2.2) hws
  refine ⟨he, ⟨hk.writeErr.trans hmid.healthy, hk.faults.trans hmid.noFaults, hwr, ?_,
    hsz,
    WireSt.ends hws, hk.nego.trans hM.plain⟩, hwire.1, hwire.2⟩
  intro x hx
  have hx' : x ∈ pre ++ [(mwClose s m).2.2] := by
    have : (setMW (mwClose s m).2.1 pre.length (mwClose s m).2.2).mws = pre ++ [(mwClose s m).2.2] := by
      show (mwClose s m).2.1.mws.set pre.length _ = _
      rw [hk.mws, hmws, set_last]
    rw [← this]; exact hx
  rcases List.mem_append.mp hx' with hx' | hx'
  · exact hdead x hx'
  · rw [List.mem_singleton] at hx'; subst hx'; exact herr

theorem applyOp_piece {s : W} {h t : Nat} {M C acc} (hM : Mid s h t M C acc) (ht : t = 1 ∨ t = 2) (p : Piece)
    (hp : p.ok) :
    (applyOp s (p.op h)).1 = none ∧ Mid (applyOp s (p.op h)).2 h t M (C ++ p.ctl) (acc ++ p.bytes) := by
  cases p with
  | write q a =>
    have := hWrite_mid hM ht q hp a
    simp only [Piece.ctl, Piece.bytes, List.append_nil]
    exact this
  | control ct data d =>
    have := writeControl_mid hM ct hp.1 data hp.2 d
    simp only [Piece.ctl, Piece.bytes, List.append_nil]
    exact this

theorem run_pieces {s : W} {h t : Nat} {M C acc} (hM : Mid s h t M C acc) (ht : t = 1 ∨ t = 2) (ps : List Piece)
    (hps : ∀ p ∈ ps, p.ok) :
    Mid (run s (ps.map (Piece.op h))) h t M (C ++ (ps.map Piece.ctl).flatten) (acc ++ (ps.map Piece.bytes).flatten) := by
  induction ps generalizing s C acc with
  | nil => simpa [run] using hM
  | cons p ps ih =>
    have h1 := (applyOp_piece hM ht p (hps p (by simp))).2
    have h2 := ih h1 (fun q hq => hps q (by simp [hq]))
    simp only [List.map_cons, run, List.flatten_cons]
    rw [← List.append_assoc, ← List.append_assoc]
    exact h2

theorem applyOp_nextWriter_snd (s : W) (t : Int) (a : List Bytes) (b : Bytes) :
    (applyOp s (.nextWriter t a b)).2 = (nextWriter s t a b).2 := by
  simp only [applyOp]
  split <;> (rename_i heq; rw [heq])

end Helpers

/-- C01 `accepted` + C02 content, NextWriter path: from an idle connection, a data message
    (t = 1 or 2) written in any pieces is accepted (every call returns no error), the connection is
    idle again, and the wire has gained exactly one message with the concatenated payload (and the
    interleaved control frames, in order). -/
theorem message_roundtrip (s : W) (hi : Idle s) (t : Nat) (ht : t = 1 ∨ t = 2) (ps : List Piece) (hps : ∀ p ∈ ps, p.ok) :
    let s' := run s (messageOps s t ps)
    Idle s' ∧
    wireMessages s' = wireMessages s ++ [⟨t, false, (ps.map Piece.bytes).flatten⟩] ∧
    wireControls s' = wireControls s ++ (ps.map Piece.ctl).flatten := by
  intro s'
  have hnw := nextWriter_idle hi t ht
  have hs' : s' = (hClose (run (nextWriter s (t : Int) [] []).2 (ps.map (Piece.op (nextHandle s)))) (nextHandle s) [] []).2 := by
    show run s (messageOps s t ps) = _
    unfold messageOps
    rw [run_append, run_append]
    simp only [run, applyOp_nextWriter_snd]
    rfl
  have hmid := WS.Content.run_pieces hnw.2 ht ps hps
  have hc := hClose_mid hmid ht
  rw [← hs'] at hc
  simp only [List.nil_append] at hc
  exact hc.2

/-- the same for WriteMessage (fast path on servers, NextWriter+Write+Close otherwise) -/
theorem writeMessage_roundtrip (s : W) (hi : Idle s) (t : Nat) (ht : t = 1 ∨ t = 2) (data : Bytes) (hd : data.length < 2 ^ 40) :
    (writeMessage s t data).1 = none ∧ Idle (writeMessage s t data).2 ∧
    wireMessages (writeMessage s t data).2 = wireMessages s ++ [⟨t, false, data⟩] ∧
    wireControls (writeMessage s t data).2 = wireControls s := by
  open WS.Stream WS.Flow in
  unfold writeMessage
  split
  · rename_i hc
    have hsv : s.isServer = true := by
      simp only [Bool.and_eq_true] at hc; exact hc.1
    rw [beginMessage_idle hi t ht]
    dsimp only
    have hk := Keep.ensureBuf s
    have hw0 := ensureBuf_wire s
    have hcap : (ensureBuf s).cap < 2 ^ 40 := by
      have := hi.size
      rw [hk.cap]; unfold W.cap; omega
    have hmid : MidMW (ensureBuf s) { ft := t, buf := data.take (min (ensureBuf s).cap data.length) } t
        (wireMessages s) (wireControls s) (data.take (min (ensureBuf s).cap data.length)) := by
      refine ⟨hk.writeErr.trans hi.healthy, hk.faults.trans hi.noFaults, by rw [hk.wbufLen]; exact hi.size,
        rfl, rfl, ?_, [], rfl, Or.inl ⟨rfl, rfl, ?_⟩⟩
      · simp only [List.length_take]; omega
      · rw [hw0.1]; exact hi.wireSt
    have hf := flush_final hmid ht (data.drop (min (ensureBuf s).cap data.length))
      (by simp only [List.length_drop]; omega) (Or.inl (hk.isServer.trans hsv))
    rw [List.take_append_drop] at hf
    obtain ⟨he, hk2, hwr, _, hws⟩ := hf
    have hkk := hk.trans hk2
    have hwire := wire_of_wireSt hws
    refine ⟨he, ⟨hkk.writeErr.trans hi.healthy, hkk.faults.trans hi.noFaults, hwr, ?_, ?_, WireSt.ends hws,
      hkk.nego.trans hi.plain⟩, hwire.1, hwire.2⟩
    · rw [hkk.mws]; exact hi.dead
    · rw [hkk.wbufLen]; exact hi.size
  · have hnw := nextWriter_idle hi t ht
    split
    · rename_i e s1 heq
      rw [heq] at hnw
      exact absurd hnw.1 (by simp)
    · rename_i h s1 heq
      rw [heq] at hnw
      obtain ⟨hh, hmid⟩ := hnw
      simp only [Except.ok.injEq] at hh
      subst hh
      have hw := hWrite_mid hmid ht data hd false
      split
      · rename_i n e s2 heq2
        rw [heq2] at hw
        exact absurd hw.1 (by simp)
      · rename_i n s2 heq2
        rw [heq2] at hw
        have hc := hClose_mid hw.2 ht
        simp only [List.nil_append] at hc
        exact hc

/-- a control message of at most 125 bytes sent with WriteControl is accepted and appears as one
    control frame with the same payload -/
theorem writeControl_roundtrip (s : W) (hi : Idle s) (t : Nat) (ht : t = 9 ∨ t = 10) (data : Bytes) (hd : data.length ≤ 125) (d : Nat) :
    (writeControl s t data d).1 = none ∧ Idle (writeControl s t data d).2 ∧
    wireMessages (writeControl s t data d).2 = wireMessages s ∧
    wireControls (writeControl s t data d).2 = wireControls s ++ [(t, data)] := by
  open WS.Stream WS.Flow in
  have hc := writeControl_ok s t ht data hd d hi.healthy hi.noFaults hi.wireSt
  obtain ⟨he, hk, hwr, hws⟩ := hc
  have hwire := wire_of_wireSt hws
  refine ⟨he, ⟨hk.writeErr.trans hi.healthy, hk.faults.trans hi.noFaults, hwr.trans hi.noWriter, ?_, ?_,
    WireSt.ends hws, hk.nego.trans hi.plain⟩, hwire.1, hwire.2⟩
  · rw [hk.mws]; exact hi.dead
  · rw [hk.wbufLen]; exact hi.size

end WS.Content
