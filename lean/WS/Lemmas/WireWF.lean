import WS.Model.Writer
import WS.Spec.Frame
import WS.Lemmas.Mask
import WS.Lemmas.Writer
import WS.Lemmas.Codec
import WS.Lemmas.WireInv
import WS.Lemmas.WFInv5
/-
  C02: everything a connection writes is well-formed RFC 6455 framing — at the level of decoded
  frame records: masked iff client, RSV2/RSV3 clear, RSV1 only on the first frame of a data
  message and only if permessage-deflate was negotiated, control frames unfragmented with at most
  125 payload bytes, each data message one text/binary frame followed only by continuations.

-/
namespace WS.WireWF
open WS WS.Codec WS.WireInv

/-- a prepared image that is one control frame (ping / pong / close) for this role -/
def ImgControl (isServer : Bool) (img : Bytes) : Prop :=
  ∃ (t : Nat) (key : Key) (data : Bytes), (t = 8 ∨ t = 9 ∨ t = 10) ∧ data.length ≤ 125 ∧
    img = encode isServer (t + 128) key data

/-- a prepared image that is one complete, well-formed data message for this role -/
def ImgData (isServer nego : Bool) (img : Bytes) : Prop :=
  ∃ fs, Spec.decodeStream img = some fs ∧ Spec.WellFormed ⟨!isServer, nego⟩ fs ∧
    Spec.endsInMsg false fs = false ∧ fs ≠ [] ∧ ∀ f ∈ fs, Spec.isControlOp f.opcode = false

/-- no message writer is open -/
def NoOpenWriter (s : W) : Prop := ∀ m ∈ s.mws, m.err.isSome

/-- side conditions of a program, checked along its execution: sizes as in WireInv.OpOK, and a
    prepared image is one control frame or one complete data message for this role.  Since the repair
    of finding F8 of DESIGN.md (`WritePreparedMessage` of a data message first closes the message writer
    the application left open) a prepared data message may be sent at any time — `NoOpenWriter` is
    no longer required when the message type is a data type, which `WritePreparedMessage` guarantees for
    a data image.  (The model's `Op.writePrepared t img` takes type and image separately; for the
    impossible combination "data image sent with a control type" nothing is closed first, and only
    there `NoOpenWriter` is still asked for.) -/
def Admissible (s : W) : List Op → Prop
  | [] => True
  | op :: ops =>
    OpOK s.isServer op ∧
    (match op with
     | .writePrepared t img _ _ =>
       ImgControl s.isServer img ∨ (ImgData s.isServer s.nego img ∧ (isData t = true ∨ NoOpenWriter s))
     | _ => True) ∧
    Admissible (applyOp s op).2 ops

/-
  The two statements below are FALSE for the model as written:

  theorem wire_wellformed (s0 : W) (h0 : Fresh s0) (hf : s0.faults = []) (ops : List Op) (ha : Admissible s0 ops) :
      ∃ fs, Spec.decodeStream (run s0 ops).wire = some fs ∧ Spec.WellFormed ⟨!s0.isServer, s0.nego⟩ fs

  theorem wire_wellformed_prefix (s0 : W) (h0 : Fresh s0) (ops : List Op) (ha : Admissible s0 ops) :
      Spec.WellFormed ⟨!s0.isServer, s0.nego⟩ (Spec.decodePrefixAux (run s0 ops).wire.length (run s0 ops).wire)

  Counterexample (`cexS`, `cexOps` below; no faults, so it refutes both): a server with negotiated
  compression opens a text message, pushes 31 deflated bytes downstream (one non-final frame), and
  then Close on the flate wrapper is answered by the environment with a deflate stream `full = []`
  that does not end in 00 00 ff ff.  `flateWriteWrapper.Close` returns "unexpected bytes at end of
  flate stream" *without* closing the messageWriter, the wrapper is now closed (`fw = nil`), and the next
  NextWriter (whose implicit `c.writer.Close()` is a no-op returning errWriteClosed) starts a new text
  message in the middle of the unfinished one: TEXT(fin=0) TEXT(fin=1).
  The same happens with `deflateMismatch`, and through the `dnp/fullp`, `full` answers of
  nextWriter / writeMessage / writeJSON.  `wire_wellformed_false` is the kernel-checked refutation.

  The closest true statements add the hypothesis `EnvAdmissible`: wherever a flate wrapper is closed,
  the environment's deflate answers pass the two checks of `flateWriteWrapper.Close`
  (`WFInv.CloseEnvOK`).  They are `wire_wellformed_partial` and `wire_wellformed_prefix_partial`.
-/

def cexS : W := { isServer := true, wbufLen := 15, pool := false, nego := true }
def cexOps : List Op := [
  .nextWriter 1 [] [],
  .write 0 [] [List.replicate 31 0] false,
  .close 0 [] [],
  .nextWriter 1 [] [],
  .close 1 [] [0, 0, 0xff, 0xff] ]

theorem cex_fresh : Fresh cexS := ⟨rfl, rfl, rfl, rfl, rfl, by decide, by decide⟩

theorem cex_admissible : Admissible cexS cexOps := by
  simp [Admissible, OpOK, cexOps]

theorem cex_wire : (run cexS cexOps).wire = [65, 31] ++ List.replicate 31 0 ++ [193, 0] := by
  rfl

theorem cex_decode : Spec.decodeStream ([65, 31] ++ List.replicate 31 0 ++ [193, 0]) =
    some [⟨false, true, false, false, 1, none, List.replicate 31 0⟩, ⟨true, true, false, false, 1, none, []⟩] := by
  decide

/-- kernel-checked refutation of the original `wire_wellformed` (and, there being no faults, of
    `wire_wellformed_prefix`) -/
theorem wire_wellformed_false :
    ¬ ∀ (s0 : W), Fresh s0 → s0.faults = [] → ∀ (ops : List Op), Admissible s0 ops →
      ∃ fs, Spec.decodeStream (run s0 ops).wire = some fs ∧ Spec.WellFormed ⟨!s0.isServer, s0.nego⟩ fs := by
  intro h
  obtain ⟨fs, hdec, hwf⟩ := h cexS cex_fresh rfl cexOps cex_admissible
  rw [cex_wire, cex_decode] at hdec
  cases hdec
  revert hwf
  decide

theorem wire_wellformed_prefix_false :
    ¬ ∀ (s0 : W), Fresh s0 → ∀ (ops : List Op), Admissible s0 ops →
      Spec.WellFormed ⟨!s0.isServer, s0.nego⟩
        (Spec.decodePrefixAux (run s0 ops).wire.length (run s0 ops).wire) := by
  intro h
  have hwf := h cexS cex_fresh cexOps cex_admissible
  rw [cex_wire] at hwf
  revert hwf
  decide

/-- the compress/flate environment is consistent wherever the program closes a flate wrapper
    (checked along the execution, like `Admissible`) -/
def EnvAdmissible (s : W) : List Op → Prop
  | [] => True
  | op :: ops => WFInv.EnvOK s op ∧ EnvAdmissible (applyOp s op).2 ops

open WS.WFInv in
theorem applyOp_good {c : Cfg} {s : W} (op : Op) (hg : Good c s)
    (hpre : match op with
      | .writePrepared t img _ _ =>
        ImgControl s.isServer img ∨ (ImgData s.isServer s.nego img ∧ (isData t = true ∨ NoOpenWriter s))
      | _ => True)
    (hop : OpOK s.isServer op) (henv : EnvOK s op) : Good c (applyOp s op).2 := by
  have hsv : s.isServer = c.sv := by obtain ⟨o, hI, _⟩ := hg; exact hI.isv
  have hng : s.nego = c.ng := by obtain ⟨o, hI, _⟩ := hg; exact hI.nego
  cases op with
  | nextWriter t dnp fullp =>
    have := nextWriter_good t dnp fullp hg hop henv
    simp only [applyOp]
    split
    · rename_i heq; rw [heq] at this; exact this
    · rename_i heq; rw [heq] at this; exact this
  | write j p dn a => exact hWrite_good j p dn a hg hop.1 hop.2
  | readFrom j r => exact hReadFrom_good j r hg
  | close j dn full => exact (hClose_good j dn full hg hop henv).1
  | writeMessage t data dnp fullp dn full =>
    exact writeMessage_good t data dnp fullp dn full hg hop.1 hop.2.1 hop.2.2 henv
  | writeJSON enc dnp fullp dn full =>
    exact writeJSON_good enc dnp fullp dn full hg hop.1 hop.2.1 hop.2.2 henv
  | writeControl t data d => exact writeControl_good t data d hg
  | writePrepared t img dnp fullp =>
    simp only [applyOp]
    dsimp only at hpre
    have hdn : isData t = true → ∀ x ∈ dnp, x.length < 2 ^ 40 := hop.2
    have henv' : isData t = true → PrevEnvOK s dnp fullp := henv
    rcases hpre with ⟨t', key, data, ht', hd, rfl⟩ | ⟨⟨gs, hdec, hwf, hend, _, _⟩, hno⟩
    · rw [hsv]
      exact good_preparedCtl t t' key data dnp fullp hg ht' hd hdn henv'
    · refine good_preparedData t img dnp fullp gs hg hdec ?_ hend hno hdn henv'
      rw [hsv, hng] at hwf
      exact hwf
  | setWriteDeadline d => exact hg.congr rfl rfl rfl rfl rfl rfl rfl rfl rfl
  | enableWriteCompression b => exact hg.congr rfl rfl rfl rfl rfl rfl rfl rfl rfl
  | setCompressionLevel l =>
    simp only [applyOp, setCompressionLevel]
    split
    · exact hg.congr rfl rfl rfl rfl rfl rfl rfl rfl rfl
    · exact hg

open WS.WFInv in
theorem run_good {c : Cfg} (s : W) (ops : List Op) (hg : Good c s) (hsv : s.isServer = c.sv)
    (ha : Admissible s ops) (he : EnvAdmissible s ops) : Good c (run s ops) := by
  induction ops generalizing s with
  | nil => exact hg
  | cons op ops ih =>
    obtain ⟨h1, h2, h3⟩ := ha
    obtain ⟨e1, e2⟩ := he
    have hg' := applyOp_good op hg h2 h1 e1
    have hsv' : (applyOp s op).2.isServer = c.sv := by obtain ⟨o, hI, _⟩ := hg'; exact hI.isv
    unfold run
    exact ih _ hg' hsv' h3 e2

open WS.WFInv in
theorem Fresh.good {s : W} (h : Fresh s) : Good ⟨s.isServer, s.nego, s.wbufLen, s.faults⟩ s := by
  obtain ⟨hw, he, hm, hh, hwr, hlo, hhi⟩ := h
  refine ⟨false, ⟨rfl, rfl, rfl, rfl, hlo, hhi, ?_⟩, ?_, Or.inr ⟨?_, fun _ => rfl⟩⟩
  · rw [hw]
    exact ⟨[], [], rfl, ⟨fun f hf => (by cases hf), rfl⟩, fun _ => rfl, fun _ => rfl⟩
  · rw [hm, hh]
    exact ⟨rfl, fun h x hx => by simp at hx, fun h i fo derr sent m hx => by simp at hx⟩
  · rw [hm]; intro j m hm'; simp at hm'

/-- C02 (frame level), corrected: for every admissible program without transport faults and with a
    consistent compress/flate environment, whatever the other environment answers, buffer size, role
    and compression settings, the wire decodes (strictly) to a well-formed frame sequence. -/
theorem wire_wellformed_partial (s0 : W) (h0 : Fresh s0) (hf : s0.faults = []) (ops : List Op)
    (ha : Admissible s0 ops) (he : EnvAdmissible s0 ops) :
    ∃ fs, Spec.decodeStream (run s0 ops).wire = some fs ∧ Spec.WellFormed ⟨!s0.isServer, s0.nego⟩ fs := by
  obtain ⟨o, hI, _, _⟩ := run_good s0 ops (Fresh.good h0) rfl ha he
  obtain ⟨more, fs, hdec, hwf, hmore, _⟩ := hI.wire
  have : more = [] := hmore (Or.inr hf)
  subst this
  rw [List.append_nil] at hdec
  exact ⟨fs, hdec, hwf⟩

/-- with transport faults (and a consistent compress/flate environment): the whole frames that
    reached the wire are still well-formed -/
theorem wire_wellformed_prefix_partial (s0 : W) (h0 : Fresh s0) (ops : List Op) (ha : Admissible s0 ops)
    (he : EnvAdmissible s0 ops) :
    Spec.WellFormed ⟨!s0.isServer, s0.nego⟩
      (Spec.decodePrefixAux (run s0 ops).wire.length (run s0 ops).wire) := by
  obtain ⟨o, hI, _, _⟩ := run_good s0 ops (Fresh.good h0) rfl ha he
  obtain ⟨more, fs, hdec, hwf, _, _⟩ := hI.wire
  exact WFSpec.WellFormed.prefix hwf (WFSpec.decodePrefixAux_prefix more _ _ _ fs hdec)

end WS.WireWF
