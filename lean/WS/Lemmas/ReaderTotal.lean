import WS.Lemmas.ReaderDecodes
import WS.Lemmas.ReaderTotalAux
/-
  C07 for frame bytes, for EVERY input (not only conformant streams): the loops of NextReader and of
  messageReader.Read carry a fuel argument in the model, and fuel exhaustion is the model's "hang"
  outcome. These theorems say it is unreachable: on any byte stream whatsoever — conformant or
  garbage, complete or cut — every iteration that does not end the loop has consumed at least two
  bytes of input, so the fuel the model passes (`Conn.fuel`, respectively `Conn.fuel + 1`) is never
  exhausted, and any larger fuel gives the same result.

  Hypotheses allowed: `WF c.r.buf` (well-formed byte source) and `c.r.buf.pending.length ≤ c.r.buf.total`
  (the ghost counter `total` is the number of bytes the transport script held when it was installed;
  both hold in every state reachable from `newConn` and are preserved by every reader operation —
  see ReaderIdle.wf / ReaderIdle.fuel and the `St`/`Env` invariants in ReaderDecodes). If you find you
  need one more invariant of reachable states, add it as an explicit hypothesis, say why it holds in
  reachable states, and keep the statement otherwise unchanged.
-/
namespace WS.ReaderTotal
open WS WS.SrcLaw

/-- a latched error ends the Read loop at once, whatever the (non-zero) fuel -/
theorem mrReadLoop_latched (fuel : Nat) (c : Conn) (rid k : Nat) (e : RErr) (h : c.r.readErr = some e) :
    mrReadLoop (fuel + 1) c rid k =
      (([], some (if e = .eof && c.r.msgReader = some rid then .unexpectedEOF else e)), c) := by
  unfold mrReadLoop
  simp only [h]

/-- the Read loop with enough fuel never takes the fuel-0 branch: an error it returns is io.EOF or
    is latched -/
theorem mrReadLoop_total (rid k : Nat) (fuel : Nat) : ∀ c : Conn, WF c.r.buf →
    c.r.buf.pending.length + 2 ≤ fuel →
    ∀ out e c', mrReadLoop fuel c rid k = ((out, some e), c') → e = .eof ∨ c'.r.readErr ≠ none := by
  induction fuel with
  | zero => intro c _ h; omega
  | succ n ih =>
    intro c hw hf out e c' h
    unfold mrReadLoop at h
    split at h
    · rename_i e0 he0
      simp only [Prod.mk.injEq] at h
      right; rw [← h.2, he0]; exact fun hh => by cases hh
    · split at h
      · simp only [] at h
        generalize c.r.buf.read (min k c.r.remaining.toNat) = x at h
        obtain ⟨bs, e1, b⟩ := x
        simp only [Prod.mk.injEq] at h
        obtain ⟨⟨_, h2⟩, h3⟩ := h
        right; rw [← h3]; simp only []; rw [h2]; exact fun hh => by cases hh
      · split at h
        · simp only [Prod.mk.injEq, Option.some.injEq] at h
          left; exact h.1.2.symm
        · have h1 := ReaderProg.advanceFrame_prog c hw
          generalize advanceFrame c = x at h1 h
          obtain ⟨res, c1⟩ := x
          cases res with
          | error e1 =>
            simp only [] at h1 h
            obtain ⟨n', rfl⟩ : ∃ n', n = n' + 1 := ⟨n - 1, by omega⟩
            rw [mrReadLoop_latched n' _ rid k e1 rfl] at h
            simp only [Prod.mk.injEq] at h
            right; rw [← h.2]; exact fun hh => by cases hh
          | ok t =>
            simp only [] at h1 h
            have h2 := h1.2 t rfl
            split at h
            · obtain ⟨n', rfl⟩ : ∃ n', n = n' + 1 := ⟨n - 1, by omega⟩
              rw [mrReadLoop_latched n' _ rid k .internalData rfl] at h
              simp only [Prod.mk.injEq] at h
              right; rw [← h.2]; exact fun hh => by cases hh
            · exact ih c1 h1.1.wf (by omega) out e c' h

/-- progress: a frame that advanceFrame accepts has taken at least its two header bytes from the
    input -/
theorem advanceFrame_ok_consumes (c c' : Conn) (t : Nat) (hwf : WF c.r.buf)
    (h : advanceFrame c = (.ok t, c')) :
    c'.r.buf.pending.length + 2 ≤ c.r.buf.pending.length ∧ WF c'.r.buf ∧ c'.r.buf.total = c.r.buf.total ∧
      c'.r.buf.size = c.r.buf.size := by
  have p := ReaderProg.advanceFrame_prog c hwf
  rw [h] at p
  exact ⟨p.2 t rfl, p.1.wf, p.1.total, p.1.size⟩

/-- the NextReader loop never runs out of fuel: with any fuel above half the pending input (in
    particular with `Conn.fuel`) it ends with a message or with an error that has been latched — the
    fuel-0 branch (which would return an error WITHOUT latching one) is never taken -/
theorem nextReaderLoop_no_hang (n : Nat) (c : Conn) (hwf : WF c.r.buf) (he : c.r.readErr = none)
    (hn : c.r.buf.pending.length + 1 ≤ n) :
    (∃ t rid z c', nextReaderLoop n c = (.msg t rid z, c')) ∨
    (∃ e c', nextReaderLoop n c = (.err e, c') ∧ c'.r.readErr = some e) := by
  induction n generalizing c with
  | zero => omega
  | succ n ih =>
    unfold nextReaderLoop
    split
    · rename_i e0 he0; rw [he] at he0; cases he0
    · have h1 := ReaderProg.advanceFrame_prog c hwf
      have h3 := ReaderTotalAux.advanceFrame_re c
      generalize advanceFrame c = x at h1 h3 ⊢
      obtain ⟨res, c1⟩ := x
      cases res with
      | error e => exact Or.inr ⟨e, _, rfl, rfl⟩
      | ok t =>
        simp only [] at h1 h3 ⊢
        split
        · exact Or.inl ⟨_, _, _, _, rfl⟩
        · have h2 := h1.2 t rfl
          exact ih c1 h1.1.wf (h3.trans he) (by omega)

/-- … and the fuel is an artefact: any fuel above the bound gives the same result -/
theorem nextReaderLoop_fuel (n m : Nat) (c : Conn) (hwf : WF c.r.buf)
    (hn : c.r.buf.pending.length + 1 ≤ n) (hm : c.r.buf.pending.length + 1 ≤ m) :
    nextReaderLoop n c = nextReaderLoop m c := by
  induction n generalizing m c with
  | zero => omega
  | succ n ih =>
    obtain ⟨m', rfl⟩ : ∃ m', m = m' + 1 := ⟨m - 1, by omega⟩
    unfold nextReaderLoop
    split
    · rfl
    · have h1 := ReaderProg.advanceFrame_prog c hwf
      generalize advanceFrame c = x at h1 ⊢
      obtain ⟨res, c1⟩ := x
      cases res with
      | error e => rfl
      | ok t =>
        simp only [] at h1 ⊢
        split
        · rfl
        · have h2 := h1.2 t rfl
          exact ih m' c1 h1.1.wf (by omega) (by omega)

/-- NextReader on ANY input: a message, the documented panic, or an error that is the latched one -/
theorem nextReader_total (c : Conn) (hwf : WF c.r.buf) (hfuel : c.r.buf.pending.length ≤ c.r.buf.total) :
    (∃ t rid z c', nextReader c = (.msg t rid z, c')) ∨
    (∃ c', nextReader c = (.panic, c') ∧ 1000 ≤ c.r.errCount + 1) ∨
    (∃ e c', nextReader c = (.err e, c') ∧ c'.r.readErr = some e) := by
  rw [RobustAux.nextReader_eq]
  cases he : c.r.readErr with
  | some e0 =>
    rw [RobustAux.nrRes_some c e0 he]
    unfold RobustAux.nrFinish
    simp only []
    split
    · rename_i hc
      exact Or.inr (Or.inl ⟨_, rfl, hc⟩)
    · refine Or.inr (Or.inr ⟨_, _, rfl, ?_⟩)
      show c.r.readErr = some (c.r.readErr.getD .any)
      rw [he]; rfl
  | none =>
    rw [RobustAux.nrRes_none c he]
    have hec := (RobustAux.nextReaderLoop_spec c.fuel (RobustAux.c0 c)).1
    have hf : (RobustAux.c0 c).r.buf.pending.length + 1 ≤ c.fuel := by
      show c.r.buf.pending.length + 1 ≤ c.r.buf.total + c.r.buf.size + 2
      omega
    rcases nextReaderLoop_no_hang c.fuel (RobustAux.c0 c) hwf he hf with ⟨t, rid, z, c1, h⟩ | ⟨e, c1, h, hre⟩
    · rw [h]; exact Or.inl ⟨t, rid, z, c1, rfl⟩
    · rw [h] at hec ⊢
      simp only [] at hec
      unfold RobustAux.nrFinish
      simp only []
      split
      · rename_i hc
        refine Or.inr (Or.inl ⟨_, rfl, ?_⟩)
        rw [hec] at hc
        exact hc
      · refine Or.inr (Or.inr ⟨_, _, rfl, ?_⟩)
        show c1.r.readErr = some (c1.r.readErr.getD .any)
        rw [hre]; rfl

/-- messageReader.Read: the fuel is an artefact for the Read loop as well -/
theorem mrReadLoop_fuel (n m : Nat) (c : Conn) (rid k : Nat) (hwf : WF c.r.buf)
    (hn : c.r.buf.pending.length + 2 ≤ n) (hm : c.r.buf.pending.length + 2 ≤ m) :
    mrReadLoop n c rid k = mrReadLoop m c rid k := by
  induction n generalizing m c with
  | zero => omega
  | succ n ih =>
    obtain ⟨m', rfl⟩ : ∃ m', m = m' + 1 := ⟨m - 1, by omega⟩
    unfold mrReadLoop
    split
    · rfl
    · split
      · rfl
      · split
        · rfl
        · have h1 := ReaderProg.advanceFrame_prog c hwf
          generalize advanceFrame c = x at h1 ⊢
          obtain ⟨res, c1⟩ := x
          obtain ⟨n', rfl⟩ : ∃ n', n = n' + 1 := ⟨n - 1, by omega⟩
          obtain ⟨m'', rfl⟩ : ∃ m'', m' = m'' + 1 := ⟨m' - 1, by omega⟩
          cases res with
          | error e =>
            simp only []
            rw [mrReadLoop_latched n' _ rid k e rfl, mrReadLoop_latched m'' _ rid k e rfl]
          | ok t =>
            simp only [] at h1 ⊢
            have h2 := h1.2 t rfl
            split
            · rw [mrReadLoop_latched n' _ rid k _ rfl, mrReadLoop_latched m'' _ rid k _ rfl]
            · exact ih (m'' + 1) c1 h1.1.wf (by omega) (by omega)

/-- Read on ANY input returns data, end of message, or an error that is latched (or, for a stale
    reader, io.EOF): never the fuel-exhaustion outcome -/
theorem mrRead_total (c : Conn) (rid k : Nat) (hk : 0 < k) (hwf : WF c.r.buf)
    (hfuel : c.r.buf.pending.length ≤ c.r.buf.total) :
    ∀ out e c', mrRead c rid k = ((out, some e), c') →
      e = .eof ∨ c'.r.readErr ≠ none := by
  intro out e c' h
  have _ := hk
  unfold mrRead at h
  split at h
  · simp only [Prod.mk.injEq, Option.some.injEq] at h
    exact Or.inl h.1.2.symm
  · refine mrReadLoop_total rid k (c.fuel + 1) c hwf ?_ out e c' h
    show c.r.buf.pending.length + 2 ≤ c.r.buf.total + c.r.buf.size + 2 + 1
    omega

end WS.ReaderTotal
