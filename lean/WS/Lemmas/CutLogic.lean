import WS.Lemmas.ReaderDecodes
import WS.Lemmas.ReaderRejects
import WS.Lemmas.CutLoops
/-
  C05 (message level): a partially received message is never reported as complete.
-/
namespace WS.CutLogic
open WS WS.Codec WS.SrcLaw WS.ReaderDecodes

/-- the outcome of "open the next message and read it to the end with reads of size k" -/
inductive Outcome
  | complete (t : Nat) (payload : Bytes)      -- NextReader ok, reader returned io.EOF after `payload`
  | failedOpen (e : RErr)                     -- NextReader returned an error
  | failedRead (t : Nat) (got : Bytes) (e : RErr)  -- NextReader ok, the reader returned error `e` after `got`
  | panicked

def openAndRead (c : Conn) (k : Nat) : Outcome :=
  match nextReader c with
  | (.msg t rid _, c1) =>
    match readAll c1 rid k with
    | ((bs, none), _) => .complete t bs
    | ((bs, some e), _) => .failedRead t bs e
  | (.err e, _) => .failedOpen e
  | (.panic, _) => .panicked

/-! ### helper lemmas -/
section Helpers
open WS.CutLoops

theorem openAndRead_err (c : Conn) (k : Nat) (e : RErr) (c1 : Conn) (h : nextReader c = (.err e, c1)) :
    openAndRead c k = .failedOpen e := by
  unfold openAndRead
  rw [h]

theorem openAndRead_panic (c : Conn) (k : Nat) (c1 : Conn) (h : nextReader c = (.panic, c1)) :
    openAndRead c k = .panicked := by
  unfold openAndRead
  rw [h]

theorem openAndRead_failed (c : Conn) (k t rid : Nat) (z : Bool) (c1 c2 : Conn) (got : Bytes) (e : RErr)
    (h : nextReader c = (.msg t rid z, c1)) (h2 : readAll c1 rid k = ((got, some e), c2)) :
    openAndRead c k = .failedRead t got e := by
  unfold openAndRead
  rw [h]
  simp only []
  rw [h2]

theorem openAndRead_complete (c : Conn) (k t rid : Nat) (z : Bool) (c1 c2 : Conn) (got : Bytes)
    (h : nextReader c = (.msg t rid z, c1)) (h2 : readAll c1 rid k = ((got, none), c2)) :
    openAndRead c k = .complete t got := by
  unfold openAndRead
  rw [h]
  simp only []
  rw [h2]

end Helpers

/-
  ORIGINAL STATEMENT (FALSE for the model as written):

  theorem cut_never_complete (c : Conn) (hc : ReaderIdle c) (t : Nat) (ht : t = 1 ∨ t = 2) (fs : List PFrame)
      (hs : MsgShape t fs) (cut : Nat) (hcut : cut < (encAll c.r.isServer fs).length)
      (hp : c.r.buf.pending = (encAll c.r.isServer fs).take cut)
      (hsz : (dataPayload fs).length < 2 ^ 62) (hlim : c.r.limit ≤ 0)
      (k : Nat) (hk : 0 < k) :
      (∃ e, openAndRead c k = .failedOpen e) ∨
      (∃ got e, openAndRead c k = .failedRead t got e ∧ e ≠ .eof ∧ got <+: dataPayload fs)

  COUNTEREXAMPLE: `ReaderIdle` does not bound the failed-call counter `errCount`. With
  `c.r.errCount = 999` and the stream cut inside the first frame header, NextReader fails for the
  1000th time and the model answers with the documented panic ("repeated read on failed websocket
  connection"), so `openAndRead c k = .panicked`, which is neither `.failedOpen` nor `.failedRead`.
  The concrete instance is `cxC` / `cxF` below; `cut_never_complete_counterexample` checks that it
  satisfies every hypothesis of the original statement and that the outcome is `.panicked`.
  (In the Go code the counter is only ever incremented once `readErr` is set, so the state is not
  reachable there; the model's `ReaderIdle` simply does not record that.)

  Closest true statements: `cut_never_complete_partial` (extra hypothesis `c.r.errCount + 1 < 1000`,
  conclusion unchanged) and `cut_never_complete_or_panic_partial` (no extra hypothesis, third
  alternative: the 1000th failed call panics).
-/

/-- the message of the counterexample: one unfragmented text frame -/
def cxF : PFrame := { op := 1, fin := true, key := default, payload := [1, 2, 3] }

/-- the connection of the counterexample: client reader, idle, 999 failed calls counted, one byte of
    the frame pending, then EOF -/
def cxC : Conn :=
  { w := { isServer := false, wbufLen := 0, pool := false, nego := false },
    r := { isServer := false, nego := false, errCount := 999,
           buf := { size := 4096, t := { chunks := [[129]], term := .eof }, total := 1 } } }

theorem cut_never_complete_counterexample :
    ReaderIdle cxC ∧ MsgShape 1 [cxF] ∧ 1 < (encAll cxC.r.isServer [cxF]).length ∧
    cxC.r.buf.pending = (encAll cxC.r.isServer [cxF]).take 1 ∧ (dataPayload [cxF]).length < 2 ^ 62 ∧
    cxC.r.limit ≤ 0 ∧ openAndRead cxC 1 = .panicked := by
  refine ⟨⟨rfl, rfl, rfl, ⟨by decide, by decide, ?_, ?_⟩, by decide, by decide, ?_, ?_⟩, ?_, by decide, by decide,
    by decide, by decide, rfl⟩
  · intro c hc
    have : c = [129] := by simpa [cxC] using hc
    rw [this]; exact List.cons_ne_nil _ _
  · intro e he; cases he
  · intro id h; cases h
  · intro id h; cases h
  · exact MsgShape.single cxF rfl rfl (by decide)

/-- C05 (general form): the transport ends (EOF, error or timeout; alone or together with the last
    bytes) somewhere strictly inside a conformant message — at any byte offset `cut`, for any chunking,
    buffer size and read size. Then the message is never reported complete: either NextReader fails
    (with an error, or with the documented panic when this is the 1000th failed call), or the reader
    fails with a non-nil error that is not io.EOF, having delivered only a prefix of the payload. -/
theorem cut_never_complete_or_panic_partial (c : Conn) (hc : ReaderIdle c) (t : Nat) (ht : t = 1 ∨ t = 2)
    (fs : List PFrame)
    (hs : MsgShape t fs) (cut : Nat) (hcut : cut < (encAll c.r.isServer fs).length)
    (hp : c.r.buf.pending = (encAll c.r.isServer fs).take cut)
    (hsz : (dataPayload fs).length < 2 ^ 62) (hlim : c.r.limit ≤ 0)
    (k : Nat) (hk : 0 < k) :
    (∃ e, openAndRead c k = .failedOpen e ∧ c.r.errCount + 1 < 1000) ∨
    (∃ got e, openAndRead c k = .failedRead t got e ∧ e ≠ .eof ∧ got <+: dataPayload fs) ∨
    (1000 ≤ c.r.errCount + 1 ∧ openAndRead c k = .panicked) := by
  have hl : LenOk (WS.RobustAux.c0 c) (dataPayload fs).length := by
    refine ⟨?_, Or.inl hlim⟩
    show (0 : Int) + ((dataPayload fs).length : Int) < 9223372036854775808
    omega
  have hi : WS.CutLoops.CIdle c.r.isServer t (WS.RobustAux.c0 c) fs cut :=
    ⟨⟨hc.wf, hc.size, hc.hp, hc.hq⟩, rfl, hc.noErr, hc.rem, hc.fin, Int.le_refl 0, hp, hcut, hs, hl⟩
  rcases WS.CutLoops.nextReader_cut c.r.isServer t ht c fs cut hi with
    ⟨c1, rid, w1, m1, n1, h1, h2, h3, h4, h5⟩ | ⟨e, c1, h1, h2⟩ | ⟨c1, h1, h2⟩
  · right; left
    obtain ⟨got, e, c2, d1, d2, d3⟩ :=
      WS.CutLoops.readAllLoop_cut c.r.isServer rid k hk (c1.fuel + 2) c1 w1 m1 n1 [] h2 h3 h4
    refine ⟨got, e, ?_, d2, by rw [← h5]; exact d3⟩
    apply openAndRead_failed c k t rid false c1 c2 got e h1
    unfold readAll
    rw [d1]
    simp
  · left
    exact ⟨e, openAndRead_err c k e c1 h1, h2⟩
  · right; right
    exact ⟨h2, openAndRead_panic c k c1 h1⟩

/-- C05 (closest true form of `cut_never_complete`): the same statement for a reader that is not one
    failed call away from the documented 1000-call panic. -/
theorem cut_never_complete_partial (c : Conn) (hc : ReaderIdle c) (t : Nat) (ht : t = 1 ∨ t = 2) (fs : List PFrame)
    (hs : MsgShape t fs) (cut : Nat) (hcut : cut < (encAll c.r.isServer fs).length)
    (hp : c.r.buf.pending = (encAll c.r.isServer fs).take cut)
    (hsz : (dataPayload fs).length < 2 ^ 62) (hlim : c.r.limit ≤ 0)
    (hec : c.r.errCount + 1 < 1000)
    (k : Nat) (hk : 0 < k) :
    (∃ e, openAndRead c k = .failedOpen e) ∨
    (∃ got e, openAndRead c k = .failedRead t got e ∧ e ≠ .eof ∧ got <+: dataPayload fs) := by
  rcases cut_never_complete_or_panic_partial c hc t ht fs hs cut hcut hp hsz hlim k hk with
    ⟨e, h1, _⟩ | h | ⟨h1, _⟩
  · exact Or.inl ⟨e, h1⟩
  · exact Or.inr h
  · omega

/-- and when the whole message did arrive before the transport ended, it is reported complete and
    byte-identical, whatever the terminal error is (delivered after the last byte) -/
theorem whole_message_then_error (c : Conn) (hc : ReaderIdle c) (t : Nat) (ht : t = 1 ∨ t = 2) (fs : List PFrame)
    (hs : MsgShape t fs)
    (hp : c.r.buf.pending = encAll c.r.isServer fs) (htog : c.r.buf.t.together = false)
    (hsz : (dataPayload fs).length < 2 ^ 62) (hlim : c.r.limit ≤ 0)
    (k : Nat) (hk : 0 < k) :
    openAndRead c k = .complete t (dataPayload fs) := by
  obtain ⟨c1, rid, h1, c2, h2, _⟩ := read_message c hc t ht fs hs [] (by rw [hp]; simp) (Or.inl htog) hsz
    (Or.inl hlim) k hk
  exact openAndRead_complete c k t rid false c1 c2 _ h1 h2

end WS.CutLogic
