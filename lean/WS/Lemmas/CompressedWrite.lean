import WS.Lemmas.Content
import WS.Lemmas.ZFlow
/-
  C01 / C02 / C15 (write side, negotiated compression): a compressed data message puts on the wire
  exactly one message with RSV1 on its first frame whose payload is the deflate stream minus its
  4-byte tail, however compress/flate chunks its output and whatever the buffer size is.

  compress/flate is an environment: `dn*` are the chunks it pushed (through truncWriter) into the
  message writer during each call, `full` the complete deflate stream (ending in 00 00 ff ff) as an
  independent deflater produced it. The model refuses inconsistent answers (deflateMismatch).

-/
namespace WS.CompressedWrite
open WS WS.Codec WS.Content

/-- a connection between messages with permessage-deflate negotiated and write compression enabled -/
structure IdleZ (s : W) : Prop where
  healthy : s.writeErr = none
  noFaults : s.faults = []
  noWriter : s.writer = none
  dead : ∀ m ∈ s.mws, m.err.isSome
  size : maxFrameHeaderSize < s.wbufLen ∧ s.wbufLen < 2 ^ 40
  whole : ∃ fs, Spec.decodeStream s.wire = some fs ∧ Spec.endsInMsg false fs = false
  nego : s.nego = true
  enabled : s.enableWC = true

/-- NextWriter(t); Write(p_i) with flate pushing chunks dn_i; Close with flate's flush chunks dnC -/
def zOps (s : W) (t : Nat) (writes : List (Bytes × List Bytes)) (dnC : List Bytes) (full : Bytes) : List Op :=
  [.nextWriter t [] []] ++ writes.map (fun w => Op.write (nextHandle s) w.1 w.2 false) ++ [.close (nextHandle s) dnC full]

/-- everything flate pushed downstream during the message -/
def pushed (writes : List (Bytes × List Bytes)) (dnC : List Bytes) : Bytes :=
  (writes.map (fun w => w.2.flatten)).flatten ++ dnC.flatten


/-! ### helper lemmas -/
section Helpers
open WS.Stream WS.Flow WS.ZFlow

/-- `Idle` without any assumption about negotiation -/
structure IdleG (s : W) : Prop where
  healthy : s.writeErr = none
  noFaults : s.faults = []
  noWriter : s.writer = none
  dead : ∀ m ∈ s.mws, m.err.isSome
  size : maxFrameHeaderSize < s.wbufLen ∧ s.wbufLen < 2 ^ 40
  whole : ∃ fs, Spec.decodeStream s.wire = some fs ∧ Spec.endsInMsg false fs = false

theorem IdleZ.toG {s : W} (hi : IdleZ s) : IdleG s :=
  ⟨hi.healthy, hi.noFaults, hi.noWriter, hi.dead, hi.size, hi.whole⟩

theorem IdleG.wireSt {s : W} (hi : IdleG s) : WireSt s.wire (wireMessages s) (wireControls s) none := by
  obtain ⟨fs, hd, he⟩ := hi.whole
  exact WireSt.of_stream hd he

theorem isData_t (t : Nat) (ht : t = 1 ∨ t = 2) : isData (t : Int) = true := by
  rcases ht with rfl | rfl <;> decide

theorem beginMessage_idleG {s : W} (hi : IdleG s) (t : Nat) (ht : t = 1 ∨ t = 2) :
    beginMessage s (t : Int) [] [] = (.ok { ft := t }, ensureBuf s) := by
  have hd : (!isControl (t : Int) && !isData (t : Int)) = false := by
    rcases ht with rfl | rfl <;> decide
  unfold beginMessage closePrev beginMessage'
  rw [hi.noWriter]
  simp only [hd, Bool.false_eq_true, if_false, hi.healthy, Int.toNat_natCast]

theorem midZ_start {s : W} (hi : IdleG s) (t : Nat) (z : Bool) (s1 : W) (hk : Keep s s1) (hw : s1.wire = s.wire) :
    MidZ s1 { ft := t, compress := z } t z (wireMessages s) (wireControls s) [] := by
  refine ⟨hk.writeErr.trans hi.healthy, hk.faults.trans hi.noFaults, by rw [hk.wbufLen]; exact hi.size,
    rfl, by simp, [], rfl, Or.inl ⟨rfl, rfl, rfl, ?_⟩⟩
  rw [hw]; exact hi.wireSt

/-- invariant while a compressed message is being written through flate handle `h` -/
structure MidF (s : W) (h : Nat) (t : Nat) (M : List Spec.Msg) (C : List (Nat × Bytes)) (acc : Bytes) : Prop where
  nego : s.nego = true
  enabled : s.enableWC = true
  mw : ∃ pre m, s.mws = pre ++ [m] ∧ (∀ x ∈ pre, x.err.isSome) ∧
    s.handles[h]? = some (.flate pre.length true none acc) ∧ MidZ s m t true M C acc

/-- invariant while an uncompressed message is being written through plain handle `h` -/
structure MidP (s : W) (h : Nat) (t : Nat) (M : List Spec.Msg) (C : List (Nat × Bytes)) (acc : Bytes) : Prop where
  mw : ∃ pre m, s.mws = pre ++ [m] ∧ (∀ x ∈ pre, x.err.isSome) ∧
    s.handles[h]? = some (.plain pre.length) ∧ MidZ s m t false M C acc

theorem nextWriter_idleZ {s : W} (hi : IdleZ s) (t : Nat) (ht : t = 1 ∨ t = 2) :
    (nextWriter s (t : Int) [] []).1 = .ok (nextHandle s) ∧
    MidF (nextWriter s (t : Int) [] []).2 (nextHandle s) t (wireMessages s) (wireControls s) [] := by
  have hk := Keep.ensureBuf s
  have hn : (ensureBuf s).nego = true := hk.nego.trans hi.nego
  have he : (ensureBuf s).enableWC = true := (ensureBuf_wc s).trans hi.enabled
  unfold nextWriter
  rw [beginMessage_idleG hi.toG t ht]
  simp only [hn, he, isData_t t ht, Bool.and_self, if_true]
  refine ⟨by rw [hk.handles]; rfl, rfl, rfl, (ensureBuf s).mws, { ft := t, compress := true }, rfl, ?_, ?_, ?_⟩
  · rw [hk.mws]; exact hi.dead
  · simp [nextHandle, hk.handles]
  · exact (midZ_start hi.toG t true (ensureBuf s) hk (ensureBuf_wire s).1).congr rfl rfl rfl rfl

theorem nextWriter_idleP {s : W} (hi : IdleG s) (hz : (s.nego && s.enableWC) = false) (t : Nat) (ht : t = 1 ∨ t = 2) :
    (nextWriter s (t : Int) [] []).1 = .ok (nextHandle s) ∧
    MidP (nextWriter s (t : Int) [] []).2 (nextHandle s) t (wireMessages s) (wireControls s) [] := by
  have hk := Keep.ensureBuf s
  have hz' : ((ensureBuf s).nego && (ensureBuf s).enableWC) = false := by
    rw [hk.nego, ensureBuf_wc]; exact hz
  unfold nextWriter
  rw [beginMessage_idleG hi t ht]
  simp only [hz', Bool.false_and, Bool.false_eq_true, if_false]
  refine ⟨by rw [hk.handles]; rfl, (ensureBuf s).mws, { ft := t }, rfl, ?_, ?_, ?_⟩
  · rw [hk.mws]; exact hi.dead
  · simp [nextHandle, hk.handles]
  · exact (midZ_start hi t false (ensureBuf s) hk (ensureBuf_wire s).1).congr rfl rfl rfl rfl

theorem handle_lt {s : W} {h : Nat} {x : Handle} (hh : s.handles[h]? = some x) : h < s.handles.length := by
  obtain ⟨hlt, _⟩ := List.getElem?_eq_some_iff.mp hh
  exact hlt

theorem hWrite_midF {s : W} {h t : Nat} {M C acc} (hM : MidF s h t M C acc) (ht : t = 1 ∨ t = 2) (p : Bytes)
    (dn : List Bytes) (hdn : ∀ c ∈ dn, c.length < 2 ^ 40) :
    (hWrite s h p dn false).1.2 = none ∧ MidF (hWrite s h p dn false).2 h t M C (acc ++ dn.flatten) := by
  obtain ⟨pre, m, hmws, hdead, hh, hmid⟩ := hM.mw
  have hget := getMW_last s pre m hmws
  have hlt := handle_lt hh
  unfold hWrite
  rw [hh]
  simp only [Bool.not_true, Bool.false_eq_true, if_false]
  rw [hget]
  have hw := feed_midZ dn hmid ht hdn
  have hwc := feed_wc s m dn
  rw [hw.1]
  refine ⟨rfl, hw.2.1.nego.trans hM.nego, hwc.trans hM.enabled, pre, (feed s m dn).2.2, ?_, hdead, ?_, ?_⟩
  · show (feed s m dn).2.1.mws.set pre.length _ = _
    rw [hw.2.1.mws, hmws, set_last]
  · show ((feed s m dn).2.1.handles.set h _)[h]? = _
    rw [hw.2.1.handles, List.getElem?_set_self hlt]
  · exact hw.2.2.2.congr rfl rfl rfl rfl

theorem hWrite_midP {s : W} {h t : Nat} {M C acc} (hM : MidP s h t M C acc) (ht : t = 1 ∨ t = 2) (p : Bytes)
    (hp : p.length < 2 ^ 40) (dn : List Bytes) :
    (hWrite s h p dn false).1.2 = none ∧ MidP (hWrite s h p dn false).2 h t M C (acc ++ p) := by
  obtain ⟨pre, m, hmws, hdead, hh, hmid⟩ := hM.mw
  have hget := getMW_last s pre m hmws
  unfold hWrite
  rw [hh]
  dsimp only
  rw [hget]
  simp only [Bool.false_eq_true, if_false]
  have hw := mwWrite_midZ p hmid ht hp
  refine ⟨hw.1, pre, (mwWrite s m p).2.2, ?_, hdead, ?_, ?_⟩
  · show (mwWrite s m p).2.1.mws.set pre.length _ = _
    rw [hw.2.1.mws, hmws, set_last]
  · show (mwWrite s m p).2.1.handles[h]? = _
    rw [hw.2.1.handles]; exact hh
  · exact hw.2.2.2.congr rfl rfl rfl rfl

/-- what Close leaves behind -/
theorem close_result {s : W} {pre : List MW} {m : MW} {t : Nat} {z : Bool} {M C acc}
    (hmws : s.mws = pre ++ [m]) (hdead : ∀ x ∈ pre, x.err.isSome) (hmid : MidZ s m t z M C acc) (ht : t = 1 ∨ t = 2) :
    (mwClose s m).1 = none ∧ IdleG (setMW (mwClose s m).2.1 pre.length (mwClose s m).2.2) ∧
    wireMessages (setMW (mwClose s m).2.1 pre.length (mwClose s m).2.2) = M ++ [⟨t, z, acc⟩] ∧
    wireControls (setMW (mwClose s m).2.1 pre.length (mwClose s m).2.2) = C ∧
    (setMW (mwClose s m).2.1 pre.length (mwClose s m).2.2).nego = s.nego ∧
    (setMW (mwClose s m).2.1 pre.length (mwClose s m).2.2).enableWC = s.enableWC := by
  obtain ⟨he, hk, hwr, herr, hws⟩ := mwClose_finZ hmid ht
  have hsz : maxFrameHeaderSize < (mwClose s m).2.1.wbufLen ∧ (mwClose s m).2.1.wbufLen < 2 ^ 40 := by
    rw [hk.wbufLen]; exact hmid.size
  have hwire := wire_of_wireSt (s := setMW (mwClose s m).2.1 pre.length (mwClose s m).2.2) hws
  refine ⟨he, ⟨hk.writeErr.trans hmid.healthy, hk.faults.trans hmid.noFaults, hwr, ?_, hsz, WireSt.ends hws⟩,
    hwire.1, hwire.2, hk.nego, mwClose_wc s m⟩
  intro x hx
  have hx' : x ∈ pre ++ [(mwClose s m).2.2] := by
    have : (setMW (mwClose s m).2.1 pre.length (mwClose s m).2.2).mws = pre ++ [(mwClose s m).2.2] := by
      show (mwClose s m).2.1.mws.set pre.length _ = _
      rw [hk.mws, hmws, set_last]
    rw [← this]; exact hx
  rcases List.mem_append.mp hx' with hx' | hx'
  · exact hdead x hx'
  · rw [List.mem_singleton] at hx'; subst hx'; exact herr

theorem hClose_midP {s : W} {h t : Nat} {M C acc} (hM : MidP s h t M C acc) (ht : t = 1 ∨ t = 2)
    (dn : List Bytes) (full : Bytes) :
    (hClose s h dn full).1 = none ∧ IdleG (hClose s h dn full).2 ∧
    wireMessages (hClose s h dn full).2 = M ++ [⟨t, false, acc⟩] ∧ wireControls (hClose s h dn full).2 = C := by
  obtain ⟨pre, m, hmws, hdead, hh, hmid⟩ := hM.mw
  have hget := getMW_last s pre m hmws
  unfold hClose
  rw [hh]
  dsimp only
  rw [hget]
  have hc := close_result hmws hdead hmid ht
  exact ⟨hc.1, hc.2.1, hc.2.2.1, hc.2.2.2.1⟩

theorem hClose_midF {s : W} {h t : Nat} {M C acc} (hM : MidF s h t M C acc) (ht : t = 1 ∨ t = 2)
    (dn : List Bytes) (hdn : ∀ c ∈ dn, c.length < 2 ^ 40) (full : Bytes)
    (htail : 4 ≤ full.length ∧ full.drop (full.length - 4) = sync4)
    (hcons : acc ++ dn.flatten = full.take (full.length - 4)) :
    (hClose s h dn full).1 = none ∧ IdleZ (hClose s h dn full).2 ∧
    wireMessages (hClose s h dn full).2 = M ++ [⟨t, true, acc ++ dn.flatten⟩] ∧
    wireControls (hClose s h dn full).2 = C := by
  obtain ⟨pre, m, hmws, hdead, hh, hmid⟩ := hM.mw
  have hget := getMW_last s pre m hmws
  have hlt := handle_lt hh
  have hw := feed_midZ dn hmid ht hdn
  have hwc := feed_wc s m dn
  have hc1 : (full.length < 4 || full.drop (full.length - 4) != sync4) = false := by
    rw [htail.2]; simp; omega
  have hc2 : (acc ++ dn.flatten != full.take (full.length - 4)) = false := by
    rw [hcons]; simp
  unfold hClose
  rw [hh]
  simp only [Bool.not_true, Bool.false_eq_true, if_false]
  rw [hget, hw.1]
  simp only [hc1, hc2, Bool.false_eq_true, if_false]
  -- the state just before mwClose
  have hmws2 : (setHandle (setMW (feed s m dn).2.1 pre.length (feed s m dn).2.2) h
      (.flate pre.length false none (acc ++ dn.flatten))).mws = pre ++ [(feed s m dn).2.2] := by
    show (feed s m dn).2.1.mws.set pre.length _ = _
    rw [hw.2.1.mws, hmws, set_last]
  rw [getMW_last _ pre _ hmws2]
  have hmid2 : MidZ (setHandle (setMW (feed s m dn).2.1 pre.length (feed s m dn).2.2) h
      (.flate pre.length false none (acc ++ dn.flatten))) (feed s m dn).2.2 t true M C (acc ++ dn.flatten) :=
    hw.2.2.2.congr rfl rfl rfl rfl
  have hc := close_result hmws2 hdead hmid2 ht
  obtain ⟨he, hi, hm, hcs, hn, hen⟩ := hc
  refine ⟨he, ⟨hi.healthy, hi.noFaults, hi.noWriter, hi.dead, hi.size, hi.whole, ?_, ?_⟩, hm, hcs⟩
  · rw [hn]; exact hw.2.1.nego.trans hM.nego
  · rw [hen]; exact hwc.trans hM.enabled

theorem run_writes {s : W} {h t : Nat} {M C acc} (hM : MidF s h t M C acc) (ht : t = 1 ∨ t = 2)
    (writes : List (Bytes × List Bytes)) (hsz : ∀ w ∈ writes, ∀ c ∈ w.2, c.length < 2 ^ 40) :
    MidF (run s (writes.map (fun w => Op.write h w.1 w.2 false))) h t M C
      (acc ++ (writes.map (fun w => w.2.flatten)).flatten) := by
  induction writes generalizing s acc with
  | nil => simpa [run] using hM
  | cons w ws ih =>
    have h1 := (hWrite_midF hM ht w.1 w.2 (hsz w (by simp))).2
    have h2 := ih h1 (fun q hq => hsz q (by simp [hq]))
    simp only [List.map_cons, run, List.flatten_cons]
    rw [← List.append_assoc]
    exact h2

/-- WriteMessage on a connection that will not compress the next message -/
theorem writeMessage_plainG (s : W) (hi : IdleG s) (hz : (s.nego && s.enableWC) = false) (t : Nat)
    (ht : t = 1 ∨ t = 2) (data : Bytes) (hd : data.length < 2 ^ 40) :
    (writeMessage s t data).1 = none ∧
    wireMessages (writeMessage s t data).2 = wireMessages s ++ [⟨t, false, data⟩] := by
  unfold writeMessage
  split
  · rename_i hc
    have hsv : s.isServer = true := by
      simp only [Bool.and_eq_true] at hc; exact hc.1
    rw [beginMessage_idleG hi t ht]
    dsimp only
    have hk := Keep.ensureBuf s
    have hw0 := ensureBuf_wire s
    have hcap : (ensureBuf s).cap < 2 ^ 40 := by
      have := hi.size
      rw [hk.cap]; unfold W.cap; omega
    have hmid : MidZ (ensureBuf s) { ft := t, buf := data.take (min (ensureBuf s).cap data.length) } t false
        (wireMessages s) (wireControls s) (data.take (min (ensureBuf s).cap data.length)) := by
      refine ⟨hk.writeErr.trans hi.healthy, hk.faults.trans hi.noFaults, by rw [hk.wbufLen]; exact hi.size,
        rfl, ?_, [], rfl, Or.inl ⟨rfl, rfl, rfl, ?_⟩⟩
      · simp only [List.length_take]; omega
      · rw [hw0.1]; exact hi.wireSt
    have hf := flush_finalZ hmid ht (data.drop (min (ensureBuf s).cap data.length))
      (by simp only [List.length_drop]; omega) (Or.inl (hk.isServer.trans hsv))
    rw [List.take_append_drop] at hf
    obtain ⟨he, hk2, hwr, _, hws⟩ := hf
    exact ⟨he, (wire_of_wireSt hws).1⟩
  · have hnw := nextWriter_idleP hi hz t ht
    split
    · rename_i e s1 heq
      rw [heq] at hnw
      exact absurd hnw.1 (by simp)
    · rename_i h s1 heq
      rw [heq] at hnw
      obtain ⟨hh, hmid⟩ := hnw
      simp only [Except.ok.injEq] at hh
      subst hh
      have hw := hWrite_midP hmid ht data hd []
      split
      · rename_i n e s2 heq2
        rw [heq2] at hw
        exact absurd hw.1 (by simp)
      · rename_i n s2 heq2
        rw [heq2] at hw
        have hc := hClose_midP hw.2 ht [] []
        simp only [List.nil_append] at hc
        exact ⟨hc.1, hc.2.2.1⟩

end Helpers

/-- if the environment is consistent (what was pushed is the deflate stream minus its tail), the
    message is accepted and the wire gains exactly one compressed message with that payload -/
theorem compressed_message_roundtrip (s : W) (hi : IdleZ s) (t : Nat) (ht : t = 1 ∨ t = 2)
    (writes : List (Bytes × List Bytes)) (dnC : List Bytes) (full : Bytes)
    (hsz : ∀ w ∈ writes, ∀ c ∈ w.2, c.length < 2 ^ 40) (hszC : ∀ c ∈ dnC, c.length < 2 ^ 40)
    (htail : 4 ≤ full.length ∧ full.drop (full.length - 4) = sync4)
    (hcons : pushed writes dnC = full.take (full.length - 4)) :
    let s' := run s (zOps s t writes dnC full)
    IdleZ s' ∧
    wireMessages s' = wireMessages s ++ [⟨t, true, full.take (full.length - 4)⟩] ∧
    wireControls s' = wireControls s := by
  intro s'
  have hnw := nextWriter_idleZ hi t ht
  have hs' : s' = (hClose (run (nextWriter s (t : Int) [] []).2
      (writes.map (fun w => Op.write (nextHandle s) w.1 w.2 false))) (nextHandle s) dnC full).2 := by
    show run s (zOps s t writes dnC full) = _
    unfold zOps
    rw [run_append, run_append]
    simp only [run, applyOp_nextWriter_snd]
    rfl
  have hmid := run_writes hnw.2 ht writes hsz
  simp only [List.nil_append] at hmid
  have hc := hClose_midF hmid ht dnC hszC full htail hcons
  rw [← hs'] at hc
  have hp : (writes.map (fun w => w.2.flatten)).flatten ++ dnC.flatten = full.take (full.length - 4) := hcons
  rw [hp] at hc
  exact hc.2

/-- with write compression switched off (EnableWriteCompression(false)) the same connection sends the
    next message uncompressed — each message is either plain or RSV1 + deflate, both of which a
    negotiated peer accepts (C15 toggle safety) -/
theorem toggled_off_message_plain (s : W) (hi : IdleZ s) (t : Nat) (ht : t = 1 ∨ t = 2) (data : Bytes) (hd : data.length < 2 ^ 40) :
    let s1 := enableWriteCompression s false
    (writeMessage s1 t data).1 = none ∧
    wireMessages (writeMessage s1 t data).2 = wireMessages s ++ [⟨t, false, data⟩] := by
  intro s1
  have hi1 : IdleG s1 := ⟨hi.healthy, hi.noFaults, hi.noWriter, hi.dead, hi.size, hi.whole⟩
  have hz : (s1.nego && s1.enableWC) = false := by
    show (s.nego && false) = false
    simp
  exact writeMessage_plainG s1 hi1 hz t ht data hd

end WS.CompressedWrite
