import WS.Model.Mask
import WS.Model.Trunc
import WS.Lemmas.Mask
/-
  C01 helper theorems about data transformation: word-at-a-time masking equals RFC byte-wise
  masking for every alignment, key, offset and length; truncWriter forwards all but the last four
  bytes for every chunking.
-/
namespace WS.MaskTrunc
open WS


/-- prefix bytes ++ whole words ++ tail bytes, with the tail masked from the *un-advanced* offset -/
theorem mask_split (k : Key) (pos n : Nat) (b : Bytes) (hn : n ≤ b.length) :
    maskFrom k pos (b.take n)
      ++ xorWords ((List.range 8).map (fun i => k.at (pos + n + i))) ((b.drop n).length / 8)
           ((b.drop n).take ((b.drop n).length / 8 * 8))
      ++ maskFrom k (pos + n) ((b.drop n).drop ((b.drop n).length / 8 * 8))
    = maskFrom k pos b := by
  generalize hb1 : b.drop n = b1
  have hlen : (b1.take (b1.length / 8 * 8)).length = b1.length / 8 * 8 := by
    rw [List.length_take]; omega
  rw [xorWords_eq k (pos + n) _ _ hlen]
  rw [maskFrom_congr k (p := pos + n) (q := pos + n + (b1.take (b1.length / 8 * 8)).length)
        (by rw [hlen]; omega) (b1.drop (b1.length / 8 * 8))]
  have htn : (b.take n).length = n := by rw [List.length_take]; omega
  rw [List.append_assoc, ← maskFrom_append]
  rw [List.take_append_drop]
  have := maskFrom_append k pos (b.take n) b1
  rw [htn, ← hb1, List.take_append_drop] at this
  rw [this, hb1]

theorem mask_pos (pos n l : Nat) : (pos + n + (l - l / 8 * 8)) % 4 = (pos + n + l) % 4 := by
  omega

/-- mask.go's word-at-a-time algorithm = RFC 6455 §5.3 byte-wise masking, for every address
    alignment `a`, key, starting offset and length; and it returns the right next offset -/
theorem mask_words_eq_bytes (k : Key) (pos a : Nat) (b : Bytes) :
    maskBytesGo k pos a b = (maskFrom k pos b, (pos + b.length) % 4) := by
  unfold maskBytesGo
  split
  · rfl
  · rename_i hlt
    have hn : (if a % wordSize ≠ 0 then wordSize - a % wordSize else 0) ≤ b.length := by
      have hws : wordSize = 8 := rfl
      split <;> omega
    generalize (if a % wordSize ≠ 0 then wordSize - a % wordSize else 0) = n at hn
    simp only [wordSize]
    rw [mask_split k pos n b hn, mask_pos, List.length_drop]
    congr 2
    omega

def writeAll (cs : List Bytes) : Trunc := cs.foldl Trunc.write {}


/-- the "write p[:m]; slide; refill from the end of q" step, on a full 4-byte buffer -/
theorem slide (p1 q1 : Bytes) (hp : p1.length = 4) :
    p1.take (min q1.length 4) ++ q1.take (q1.length - min q1.length 4)
        ++ (p1.drop (min q1.length 4) ++ q1.drop (q1.length - min q1.length 4)) = p1 ++ q1 ∧
    (p1.drop (min q1.length 4) ++ q1.drop (q1.length - min q1.length 4)).length = 4 := by
  refine ⟨?_, by simp only [List.length_append, List.length_drop]; omega⟩
  by_cases hq : 4 ≤ q1.length
  · have hm : min q1.length 4 = 4 := by omega
    rw [hm, List.take_of_length_le (by omega), List.drop_of_length_le (by omega : p1.length ≤ 4)]
    simp
  · have hm : min q1.length 4 = q1.length := by omega
    rw [hm]
    simp [← List.append_assoc]

theorem Trunc.write_inv (w : Trunc) (q : Bytes)
    (h : w.p.length = min 4 (w.forwarded ++ w.p).length) :
    (w.write q).forwarded ++ (w.write q).p = w.forwarded ++ w.p ++ q ∧
    (w.write q).p.length = min 4 (w.forwarded ++ w.p ++ q).length := by
  have hpl : w.p.length ≤ 4 := by omega
  have hf : w.p.length < 4 → w.forwarded = [] := by
    intro hlt
    apply List.eq_nil_of_length_eq_zero
    rw [List.length_append] at h
    omega
  unfold Trunc.write
  simp only
  generalize hn : min (4 - w.p.length) q.length = n
  split
  · rename_i hemp
    have hqn : q.length ≤ n := by
      simpa [List.isEmpty_iff, List.drop_eq_nil_iff] using hemp
    have htake : q.take n = q := List.take_of_length_le hqn
    simp only [Trunc.forwarded, htake]
    refine ⟨by simp [List.append_assoc], ?_⟩
    by_cases hlt : w.p.length < 4
    · have := hf hlt
      simp only [Trunc.forwarded] at this
      simp only [this, List.length_append, List.length_nil]
      omega
    · simp only [List.length_append]
      omega
  · rename_i hne
    have hqn : n < q.length := by
      have : ¬ q.length ≤ n := by
        simpa [List.isEmpty_iff, List.drop_eq_nil_iff] using hne
      omega
    have hp1 : (w.p ++ q.take n).length = 4 := by
      rw [List.length_append, List.length_take]; omega
    have hsl := slide (w.p ++ q.take n) (q.drop n) hp1
    simp only [Trunc.forwarded, List.flatten_append, List.flatten_cons, List.flatten_nil,
      List.append_nil]
    refine ⟨?_, ?_⟩
    · rw [List.append_assoc w.out.flatten, List.append_assoc w.out.flatten, hsl.1]
      simp [List.append_assoc]
    · rw [hsl.2]
      simp only [List.length_append]
      omega

theorem foldl_write_inv (cs : List Bytes) (w : Trunc)
    (h : w.p.length = min 4 (w.forwarded ++ w.p).length) :
    (cs.foldl Trunc.write w).forwarded ++ (cs.foldl Trunc.write w).p
        = w.forwarded ++ w.p ++ cs.flatten ∧
    (cs.foldl Trunc.write w).p.length = min 4 (w.forwarded ++ w.p ++ cs.flatten).length := by
  induction cs generalizing w with
  | nil => simpa using h
  | cons c cs ih =>
    have hw := Trunc.write_inv w c h
    have := ih (w.write c) (by rw [hw.1]; exact hw.2)
    simp only [List.foldl_cons, List.flatten_cons]
    rw [hw.1] at this
    simpa [List.append_assoc] using this

/-- for every chunking of a stream: what was forwarded ++ what is held = the stream, and exactly
    min(4, length) bytes are held -/
theorem trunc_any_chunking (cs : List Bytes) :
    (writeAll cs).forwarded ++ (writeAll cs).p = cs.flatten ∧
    (writeAll cs).p.length = min 4 cs.flatten.length := by
  have := foldl_write_inv cs {} (by simp [Trunc.forwarded])
  simpa [writeAll, Trunc.forwarded] using this

end WS.MaskTrunc
