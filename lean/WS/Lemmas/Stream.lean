import WS.Spec.Frame
import WS.Lemmas.Codec
/-
  Spec-side helper lemmas for C01/C02: the strict stream decoder over appended whole-frame
  streams, the prefix decoder on whole-frame streams, and `messages` / `controls` over append.
-/
namespace WS.Stream
open WS WS.Spec WS.Codec

/-! ### decodeFrame is monotone in trailing bytes -/

theorem decodeLen_append {n : Nat} {rest rest1 : Bytes} {len : Nat} (x : Bytes)
    (h : decodeLen n rest = some (len, rest1)) : decodeLen n (rest ++ x) = some (len, rest1 ++ x) := by
  unfold decodeLen at h ⊢
  split at h
  · rename_i h1
    simp only [Option.some.injEq, Prod.mk.injEq] at h
    obtain ⟨hv, hr⟩ := h
    subst hr
    rw [if_pos h1, hv]
  · rename_i h1
    rw [if_neg h1]
    split at h
    · rename_i h2
      rw [if_pos h2]
      split at h
      · cases h
      · rename_i h3
        dsimp only at h
        split at h
        · cases h
        · rename_i h4
          simp only [Option.some.injEq, Prod.mk.injEq] at h
          obtain ⟨hv, hr⟩ := h
          have hl : 2 ≤ rest.length := by omega
          have ht : (rest ++ x).take 2 = rest.take 2 := by
            rw [List.take_append_of_le_length hl]
          have hd : (rest ++ x).drop 2 = rest.drop 2 ++ x := by
            rw [List.drop_append_of_le_length hl]
          have hlen : ¬ (rest ++ x).length < 2 := by simp only [List.length_append]; omega
          rw [if_neg hlen]
          dsimp only
          rw [ht, hd, if_neg h4, hv, hr]
    · rename_i h2
      rw [if_neg h2]
      split at h
      · cases h
      · rename_i h3
        dsimp only at h
        split at h
        · cases h
        · rename_i h4
          simp only [Option.some.injEq, Prod.mk.injEq] at h
          obtain ⟨hv, hr⟩ := h
          have hl : 8 ≤ rest.length := by omega
          have ht : (rest ++ x).take 8 = rest.take 8 := by
            rw [List.take_append_of_le_length hl]
          have hd : (rest ++ x).drop 8 = rest.drop 8 ++ x := by
            rw [List.drop_append_of_le_length hl]
          have hlen : ¬ (rest ++ x).length < 8 := by simp only [List.length_append]; omega
          rw [if_neg hlen]
          dsimp only
          rw [ht, hd, if_neg h4, hv, hr]

theorem decodeKey_append {m : Bool} {rest rest2 : Bytes} {key : Option Key} (x : Bytes)
    (h : decodeKey m rest = some (key, rest2)) : decodeKey m (rest ++ x) = some (key, rest2 ++ x) := by
  unfold decodeKey at h ⊢
  cases m with
  | true =>
    simp only [if_true] at h ⊢
    split at h
    · simp only [Option.some.injEq, Prod.mk.injEq] at h
      obtain ⟨hk, hr⟩ := h
      subst hk hr
      rfl
    · cases h
  | false =>
    simp only [Bool.false_eq_true, if_false, Option.some.injEq, Prod.mk.injEq] at h ⊢
    obtain ⟨hk, hr⟩ := h
    subst hk hr
    exact ⟨rfl, rfl⟩

theorem decodeFrame_append {bs r : Bytes} {f : Frame} (x : Bytes) (h : decodeFrame bs = some (f, r)) :
    decodeFrame (bs ++ x) = some (f, r ++ x) := by
  unfold decodeFrame at h
  split at h
  · rename_i b0 b1 rest
    split at h
    · cases h
    · rename_i len rest1 hl
      split at h
      · cases h
      · rename_i key rest2 hk
        split at h
        · cases h
        · rename_i hlen
          simp only [Option.some.injEq, Prod.mk.injEq] at h
          obtain ⟨hf, hr⟩ := h
          have hle : len ≤ rest2.length := by omega
          have ht : (rest2 ++ x).take len = rest2.take len := List.take_append_of_le_length hle
          have hd : (rest2 ++ x).drop len = rest2.drop len ++ x := List.drop_append_of_le_length hle
          have hlen' : ¬ (rest2 ++ x).length < len := by simp only [List.length_append]; omega
          show decodeFrame (b0 :: b1 :: (rest ++ x)) = _
          unfold decodeFrame
          simp only [decodeLen_append x hl, decodeKey_append x hk, hlen', if_false, ht, hd, hf, hr]
  · cases h

/-! ### decodeStream, one frame at a time -/

theorem decodeStream_step {bs r : Bytes} {f : Frame} (h : decodeFrame bs = some (f, r)) :
    decodeStream bs = (decodeStream r).map (f :: ·) := by
  have hl := decodeFrame_length h
  unfold decodeStream
  cases bs with
  | nil => simp at hl
  | cons b bs =>
    simp only [List.length_cons, decodeStreamAux, h]
    rw [decodeStreamAux_fuel bs.length r.length r (by simp only [List.length_cons] at hl; omega) (Nat.le_refl _)]

theorem decodeStream_none {bs : Bytes} (hne : bs ≠ []) (h : decodeFrame bs = none) : decodeStream bs = none := by
  unfold decodeStream
  cases bs with
  | nil => exact absurd rfl hne
  | cons b bs => simp only [List.length_cons, decodeStreamAux, h]

/-- whole frames followed by whole frames -/
theorem decodeStream_append (w v : Bytes) (fs : List Frame) (h : decodeStream w = some fs) :
    decodeStream (w ++ v) = (decodeStream v).map (fs ++ ·) := by
  induction hl : w.length using Nat.strongRecOn generalizing w fs with
  | _ n ih =>
    by_cases hw : w = []
    · subst hw
      rw [decodeStream_nil] at h
      cases h
      rw [List.nil_append]
      cases hv : decodeStream v <;> simp
    · cases hd : decodeFrame w with
      | none => rw [decodeStream_none hw hd] at h; cases h
      | some p =>
        obtain ⟨f, r⟩ := p
        rw [decodeStream_step hd] at h
        cases hr : decodeStream r with
        | none => rw [hr] at h; cases h
        | some gs =>
          rw [hr] at h
          simp only [Option.map_some, Option.some.injEq] at h
          subst h
          have hlen := decodeFrame_length hd
          rw [decodeStream_step (decodeFrame_append v hd), ih r.length (by omega) r gs hr rfl]
          cases hv : decodeStream v <;> simp

theorem decodeStream_snoc (w fb : Bytes) (fs : List Frame) (f : Frame) (h : decodeStream w = some fs)
    (hf : decodeFrame fb = some (f, [])) : decodeStream (w ++ fb) = some (fs ++ [f]) := by
  rw [decodeStream_append w fb fs h, decodeStream_step hf, decodeStream_nil]
  rfl

/-! ### the prefix decoder on a whole-frame stream -/

theorem decodePrefixAux_of_streamAux (fuel : Nat) (bs : Bytes) (fs : List Frame)
    (h : decodeStreamAux fuel bs = some fs) : decodePrefixAux fuel bs = fs := by
  induction fuel generalizing bs fs with
  | zero =>
    cases bs with
    | nil => simp only [decodeStreamAux, Option.some.injEq] at h; subst h; rfl
    | cons b bs => simp [decodeStreamAux] at h
  | succ fuel ih =>
    cases bs with
    | nil =>
      simp only [decodeStreamAux, Option.some.injEq] at h; subst h
      simp [decodePrefixAux, decodeFrame]
    | cons b bs =>
      simp only [decodeStreamAux] at h
      simp only [decodePrefixAux]
      cases hd : decodeFrame (b :: bs) with
      | none => rw [hd] at h; cases h
      | some p =>
        obtain ⟨f, r⟩ := p
        rw [hd] at h
        simp only at h ⊢
        cases hr : decodeStreamAux fuel r with
        | none => rw [hr] at h; cases h
        | some gs =>
          rw [hr] at h
          simp only [Option.map_some, Option.some.injEq] at h
          subst h
          rw [ih r gs hr]

theorem decodePrefix_of_stream (bs : Bytes) (fs : List Frame) (h : decodeStream bs = some fs) :
    decodePrefixAux bs.length bs = fs := decodePrefixAux_of_streamAux _ _ _ h

/-! ### messages / controls over append -/

/-- the open-message accumulator after a frame list -/
def curAfter : Option Msg → List Frame → Option Msg
  | cur, [] => cur
  | cur, f :: fs =>
    if isControlOp f.opcode then curAfter cur fs
    else
      let m : Msg := match cur with
        | some m => { m with payload := m.payload ++ f.payload }
        | none => { opcode := f.opcode, compressed := f.rsv1, payload := f.payload }
      if f.fin then curAfter none fs else curAfter (some m) fs

theorem messagesAux_append (cur : Option Msg) (fs gs : List Frame) :
    messagesAux cur (fs ++ gs) = messagesAux cur fs ++ messagesAux (curAfter cur fs) gs := by
  induction fs generalizing cur with
  | nil => simp [messagesAux, curAfter]
  | cons f fs ih =>
    simp only [List.cons_append, messagesAux, curAfter]
    split
    · exact ih cur
    · split
      · simp [ih]
      · exact ih _

theorem curAfter_append (cur : Option Msg) (fs gs : List Frame) :
    curAfter cur (fs ++ gs) = curAfter (curAfter cur fs) gs := by
  induction fs generalizing cur with
  | nil => simp [curAfter]
  | cons f fs ih =>
    simp only [List.cons_append, curAfter]
    split
    · exact ih cur
    · split
      · exact ih _
      · exact ih _

theorem curAfter_isSome (cur : Option Msg) (fs : List Frame) :
    (curAfter cur fs).isSome = endsInMsg cur.isSome fs := by
  induction fs generalizing cur with
  | nil => simp [curAfter, endsInMsg]
  | cons f fs ih =>
    simp only [curAfter, endsInMsg]
    split
    · exact ih cur
    · split
      · rename_i hf; rw [ih]; simp [hf]
      · rename_i hf; rw [ih]; simp [hf]

theorem controls_append (fs gs : List Frame) : controls (fs ++ gs) = controls fs ++ controls gs := by
  simp [controls]

/-- summary of a wire of whole frames: complete messages, control frames, open message -/
def WireSt (w : Bytes) (M : List Msg) (C : List (Nat × Bytes)) (cur : Option Msg) : Prop :=
  ∃ fs, decodeStream w = some fs ∧ messages fs = M ∧ controls fs = C ∧ curAfter none fs = cur

theorem WireSt.prefix {w M C cur} (h : WireSt w M C cur) :
    messages (decodePrefixAux w.length w) = M ∧ controls (decodePrefixAux w.length w) = C := by
  obtain ⟨fs, hd, hM, hC, _⟩ := h
  rw [decodePrefix_of_stream w fs hd]
  exact ⟨hM, hC⟩

theorem WireSt.of_stream {w : Bytes} {fs : List Frame} (hd : decodeStream w = some fs)
    (he : endsInMsg false fs = false) :
    WireSt w (messages (decodePrefixAux w.length w)) (controls (decodePrefixAux w.length w)) none := by
  refine ⟨fs, hd, ?_, ?_, ?_⟩
  · rw [decodePrefix_of_stream w fs hd]
  · rw [decodePrefix_of_stream w fs hd]
  · have := curAfter_isSome none fs
    simp only [Option.isSome_none, he] at this
    cases hc : curAfter none fs with
    | none => rfl
    | some _ => rw [hc] at this; simp at this

theorem WireSt.ends {w M C} (h : WireSt w M C none) :
    ∃ fs, decodeStream w = some fs ∧ endsInMsg false fs = false := by
  obtain ⟨fs, hd, _, _, hc⟩ := h
  refine ⟨fs, hd, ?_⟩
  have := curAfter_isSome none fs
  rw [hc] at this
  simpa using this.symm

/-- one more encoded frame on the wire -/
theorem WireSt.frame {w M C cur} (h : WireSt w M C cur) (sv : Bool) (b0 : Nat) (key : Key) (payload : Bytes)
    (hb : b0 < 256) (hl : payload.length < 2 ^ 63) :
    WireSt (w ++ encode sv b0 key payload) (M ++ messagesAux cur [frameOf sv b0 key payload])
      (C ++ controls [frameOf sv b0 key payload]) (curAfter cur [frameOf sv b0 key payload]) := by
  obtain ⟨fs, hd, hM, hC, hc⟩ := h
  have hf : decodeFrame (encode sv b0 key payload) = some (frameOf sv b0 key payload, []) := by
    have := decode_encode sv b0 key payload [] hb hl
    simpa using this
  refine ⟨fs ++ [frameOf sv b0 key payload], decodeStream_snoc w _ fs _ hd hf, ?_, ?_, ?_⟩
  · unfold messages at hM ⊢
    rw [messagesAux_append, hM, hc]
  · rw [controls_append, hC]
  · rw [curAfter_append, hc]

end WS.Stream
