import WS.Lemmas.CutLoops
/-
  The loops of WS/Lemmas/CutLoops.lean without any assumption on the read limit: a data frame that
  takes the running sum over the limit makes advanceFrame fail with ErrReadLimit, which is one more
  "error that is not io.EOF". Only the int64 no-overflow half of `LenOk` is kept (`LenOv`).
-/
namespace WS.CutLoopsL
open WS WS.Codec WS.SrcLaw WS.ReaderDecodes WS.AdvFrame WS.CutAdv WS.CutLoops

/-- no int64 overflow when `n` more payload bytes are counted -/
def LenOv (c : Conn) (n : Nat) : Prop :=
  c.r.length + (n : Int) < 9223372036854775808

/-- step 5 on a data frame whose running sum does not overflow: accepted, or refused with ErrReadLimit -/
theorem afData_any (h : Hdr) (c : Conn) (len : Nat) (hrem : c.r.remaining = (len : Int)) (h0 : 0 ≤ lenBase h.opcode c)
    (h1 : lenBase h.opcode c + len < 9223372036854775808) :
    afData h c = (.ok h.opcode, { c with r := { c.r with length := lenBase h.opcode c + len } }) ∨
    ∃ c', afData h c = (.error .readLimit, c') := by
  by_cases hlim : c.r.limit ≤ 0 ∨ lenBase h.opcode c + len ≤ c.r.limit
  · exact Or.inl (afData_ok h c len hrem h0 h1 hlim)
  · right
    unfold afData
    have hw : wrap64 ((if h.opcode == 0 then c.r.length else 0) + c.r.remaining) = lenBase h.opcode c + len := by
      rw [hrem]; exact wrap64_id _ (by unfold lenBase at h0; omega) h1
    simp only [hw]
    rw [if_pos]
    · exact ⟨_, rfl⟩
    · simp only [Bool.or_eq_true, Bool.and_eq_true, decide_eq_true_eq]
      omega

theorem afHdr_data_cut (c : Conn) (T : Bytes) (m : Nat) (op : Nat) (fin : Bool) (key : Key) (payload : Bytes)
    (hwf : WF c.r.buf) (hsz : 125 ≤ c.r.buf.size)
    (hp : c.r.buf.pending = (ext payload.length ++ (keyBytes c.r.isServer key ++ T)).take m)
    (hop : (op = 0 ∧ c.r.final = false) ∨ ((op = 1 ∨ op = 2) ∧ c.r.final = true))
    (hlen : payload.length < 2 ^ 62) (h0 : 0 ≤ lenBase op c)
    (h1 : lenBase op c + payload.length < 9223372036854775808) :
    (∃ b', afHdr c (UInt8.ofNat (op + if fin then 128 else 0)) (UInt8.ofNat (mbit c.r.isServer + l7 payload.length)) =
        (.ok op, { c with r := { c.r with buf := b', remaining := (payload.length : Int), decompress := false, final := fin, maskPos := (if c.r.isServer then 0 else c.r.maskPos), maskKey := (if c.r.isServer then key else c.r.maskKey), length := lenBase op c + payload.length } }) ∧
      (ext payload.length).length + (keyBytes c.r.isServer key).length ≤ m ∧
      b'.pending = T.take (m - (ext payload.length).length - (keyBytes c.r.isServer key).length) ∧ WF b' ∧
      Same2 c.r.buf b') ∨
    (∃ e c', afHdr c (UInt8.ofNat (op + if fin then 128 else 0)) (UInt8.ofNat (mbit c.r.isServer + l7 payload.length)) =
        (.error e, c') ∧ e ≠ .eof) := by
  have hop16 : op < 16 := by omega
  have hopb : (op == 1 || op == 2 || op == 0) = true := by
    rcases hop with ⟨rfl, _⟩ | ⟨rfl | rfl, _⟩ <;> rfl
  have hopb' : (op == 0 || op == 1 || op == 2) = true := by
    rcases hop with ⟨rfl, _⟩ | ⟨rfl | rfl, _⟩ <;> rfl
  unfold afHdr
  simp only [parseHdr_enc op fin c.r.isServer _ hop16 (l7_lt _), hdrErrs_data _ _ _ _ _ _ hop, hopb, hopb',
    List.isEmpty_nil, Bool.not_true, Bool.false_eq_true, if_false, if_true, Bool.false_and]
  rcases afLen_cut ⟨op, fin, false, false, false, c.r.isServer, l7 payload.length⟩
    { c with r := { c.r with remaining := ((l7 payload.length : Nat) : Int), decompress := false, final := fin } }
    payload.length _ m rfl rfl hlen hwf (by simp only []; omega) hp with ⟨hm1, b1, s1, s2, s3, s4⟩ | ⟨e, c', s1, s2⟩
  · rw [s1]
    simp only []
    rcases afKey_cut ⟨op, fin, false, false, false, c.r.isServer, l7 payload.length⟩
      { c with r := { c.r with buf := b1, remaining := (payload.length : Int), decompress := false, final := fin } }
      c.r.isServer key T _ rfl s3 (by have := s4.size; simp only [] at this ⊢; omega) s2 with
      ⟨hm2, b2, t1, t2, t3, t4⟩ | ⟨e, c', t1, t2⟩
    · rw [t1]
      simp only []
      rcases afData_any ⟨op, fin, false, false, false, c.r.isServer, l7 payload.length⟩
        { c with r := { c.r with buf := b2, remaining := (payload.length : Int), decompress := false, final := fin, maskPos := (if c.r.isServer then 0 else c.r.maskPos), maskKey := (if c.r.isServer then key else c.r.maskKey) } }
        payload.length rfl h0 h1 with hd | ⟨c', hd⟩
      · left
        exact ⟨b2, hd, by omega, t2, t3, s4.trans t4⟩
      · right
        exact ⟨.readLimit, c', hd, by intro h; cases h⟩
    · right
      rw [t1]
      exact ⟨e, c', rfl, t2⟩
  · right
    rw [s1]
    exact ⟨e, c', rfl, s2⟩

/-- advanceFrame at a frame boundary, data frame of the peer cut anywhere (or not at all) -/
theorem advance_data_cut (c : Conn) (tail : Bytes) (m : Nat) (op : Nat) (fin : Bool) (key : Key) (payload : Bytes)
    (hrem : c.r.remaining = 0) (hwf : WF c.r.buf) (hsz : 125 ≤ c.r.buf.size)
    (hp : c.r.buf.pending = (Codec.encode (!c.r.isServer) (op + if fin then 128 else 0) key payload ++ tail).take m)
    (hop : (op = 0 ∧ c.r.final = false) ∨ ((op = 1 ∨ op = 2) ∧ c.r.final = true))
    (hlen : payload.length < 2 ^ 62) (h0 : 0 ≤ lenBase op c)
    (h1 : lenBase op c + payload.length < 9223372036854775808) :
    (∃ b', advanceFrame c =
        (.ok op, { c with r := { c.r with buf := b', remaining := (payload.length : Int), decompress := false, final := fin, maskPos := (if c.r.isServer then 0 else c.r.maskPos), maskKey := (if c.r.isServer then key else c.r.maskKey), length := lenBase op c + payload.length } }) ∧
      2 + (ext payload.length).length + (keyBytes c.r.isServer key).length ≤ m ∧
      b'.pending = (body c.r.isServer key payload ++ tail).take
        (m - (2 + (ext payload.length).length + (keyBytes c.r.isServer key).length)) ∧
      WF b' ∧ Same2 c.r.buf b') ∨
    (∃ e c', advanceFrame c = (.error e, c') ∧ e ≠ .eof) := by
  rw [advanceFrame_eq, afSkip_zero c hrem]
  simp only []
  rw [encode_eq] at hp
  simp only [List.cons_append, List.append_assoc] at hp
  rcases afHead_cut c _ _ _ m hwf (by omega) hp with ⟨hm0, b2, t1, t2, t3, t4⟩ | ⟨e, c', t1, t2⟩
  · rw [t1]
    rcases afHdr_data_cut { c with r := { c.r with buf := b2 } } (body c.r.isServer key payload ++ tail) (m - 2)
      op fin key payload t3 (by have := t4.size; simp only [] at *; omega) t2 hop hlen h0 h1 with
      ⟨b3, u1, u2, u3, u4, u5⟩ | ⟨e, c', u1, u2⟩
    · left
      refine ⟨b3, u1, ?_, ?_, u4, t4.trans u5⟩
      · simp only [] at u2; omega
      · rw [u3]
        simp only []
        congr 1
        omega
    · right
      exact ⟨e, c', u1, u2⟩
  · right
    exact ⟨e, c', t1, t2⟩

/-- advanceFrame at a frame boundary on a data frame of the peer, the stream cut after `m` bytes -/
theorem cadv_data (S : Bool) (c : Conn) (f : PFrame) (fs : List PFrame) (m : Nat) (env : CEnv c)
    (srv : c.r.isServer = S) (noErr : c.r.readErr = none) (hrem : c.r.remaining = 0)
    (hp : c.r.buf.pending = (f.enc S ++ encAll S fs).take m)
    (hm : m < (f.enc S ++ encAll S fs).length)
    (hop : (f.op = 0 ∧ c.r.final = false) ∨ ((f.op = 1 ∨ f.op = 2) ∧ c.r.final = true))
    (hlen : f.payload.length < 2 ^ 62) (h0 : 0 ≤ c.r.length)
    (hT : f.fin = true → fs = []) (hF : f.fin = false → Tail fs)
    (extra : Nat) (hl : LenOv c (f.payload.length + (dataPayload fs).length + extra)) :
    (∃ e c', advanceFrame c = (.error e, c') ∧ e ≠ .eof) ∨
    (∃ c' m', advanceFrame c = (.ok f.op, c') ∧ CSt S c' (body S f.key f.payload) fs m' ∧ Keep c c' ∧
      c'.r.msgReader = c.r.msgReader ∧ c'.r.nextId = c.r.nextId ∧ c'.r.decompress = false ∧
      LenOv c' ((dataPayload fs).length + extra) ∧ unmask c' (body S f.key f.payload) = f.payload) := by
  subst srv
  have hb0 := lenBase_nonneg f.op c h0
  have hb1 := lenBase_le f.op c h0
  have hp' : c.r.buf.pending = (Codec.encode (!c.r.isServer) (f.op + if f.fin then 128 else 0) f.key f.payload ++
      encAll c.r.isServer fs).take m := hp
  rcases advance_data_cut c _ m f.op f.fin f.key f.payload hrem env.wf env.size hp' hop hlen hb0
    (by have := hl; unfold LenOv at this; omega) with ⟨b', h1, h2, h3, h4, h5⟩ | ⟨e, c', h1, h2⟩
  · right
    have hk : Keep c { c with r := { c.r with buf := b', remaining := (f.payload.length : Int), decompress := false, final := f.fin, maskPos := (if c.r.isServer then 0 else c.r.maskPos), maskKey := (if c.r.isServer then f.key else c.r.maskKey), length := lenBase f.op c + f.payload.length } } :=
      ⟨rfl, rfl, rfl, rfl, h5⟩
    refine ⟨_, m - (2 + (ext f.payload.length).length + (keyBytes c.r.isServer f.key).length), h1,
      ⟨⟨h4, ?_, env.hp, env.hq⟩, rfl, noErr, ?_, h3, ?_, hT, hF, ?_⟩, hk, rfl, rfl, rfl, ?_, ?_⟩
    · show 125 ≤ b'.size
      rw [h5.size]; exact env.size
    · show ((f.payload.length : Nat) : Int) = _
      rw [body_length]
    · simp only [List.length_append, enc_length, body_length] at hm ⊢
      omega
    · show 0 ≤ lenBase f.op c + f.payload.length
      omega
    · unfold LenOv at hl
      show lenBase f.op c + f.payload.length + _ < _
      omega
    · unfold unmask body
      simp only []
      cases c.r.isServer
      · rfl
      · simp only [if_true]; exact maskFrom_involutive _ _ _
  · left
    exact ⟨e, c', h1, h2⟩

/-- one frame of the tail of a message (continuation, ping or pong) is passed, or the cut is hit -/
theorem cstep_tail (S : Bool) (c : Conn) (more : List PFrame) (m : Nat)
    (hst : CSt S c [] more m) (hfin : c.r.final = false) (extra : Nat)
    (hl : LenOv c ((dataPayload more).length + extra)) :
    (∃ e c', advanceFrame c = (.error e, c') ∧ e ≠ .eof) ∨
    (∃ t c' wire' more' m', advanceFrame c = (.ok t, c') ∧ (t == 1 || t == 2) = false ∧ CSt S c' wire' more' m' ∧
      Keep c c' ∧ c'.r.msgReader = c.r.msgReader ∧ c'.r.nextId = c.r.nextId ∧
      LenOv c' ((dataPayload more').length + extra) ∧
      unmask c' wire' ++ dataPayload more' = dataPayload more) := by
  have ht := hst.finF hfin
  have hp := hst.pend
  have hcut := hst.cut
  have hrem : c.r.remaining = 0 := by simpa using hst.rem
  simp only [List.nil_append] at hp hcut
  cases ht with
  | last f h1 h2 h3 =>
    have hd : f.isCtl = false := isCtl_of_data (Or.inl h1)
    rw [encAll_cons] at hp hcut
    rw [dataPayload_data _ hd, List.length_append] at hl
    rcases cadv_data S c f [] m hst.env hst.srv hst.noErr hrem hp hcut (Or.inl ⟨h1, hfin⟩) h3 hst.len0
      (fun _ => rfl) (fun h => by rw [h2] at h; cases h) extra hl with ⟨e, c', a1, a2⟩ | ⟨c', m', a1, a2, a3, a4, a5, a6, a7, a8⟩
    · left; exact ⟨e, c', a1, a2⟩
    · right
      refine ⟨f.op, c', _, [], m', a1, by rw [h1]; rfl, a2, a3, a4, a5, a7, ?_⟩
      rw [a8, dataPayload_data _ hd]
  | cont f fs h1 h2 h3 h4 =>
    have hd : f.isCtl = false := isCtl_of_data (Or.inl h1)
    rw [encAll_cons] at hp hcut
    rw [dataPayload_data _ hd, List.length_append] at hl
    rcases cadv_data S c f fs m hst.env hst.srv hst.noErr hrem hp hcut (Or.inl ⟨h1, hfin⟩) h3 hst.len0
      (fun h => by rw [h2] at h; cases h) (fun _ => h4) extra hl with ⟨e, c', a1, a2⟩ | ⟨c', m', a1, a2, a3, a4, a5, a6, a7, a8⟩
    · left; exact ⟨e, c', a1, a2⟩
    · right
      refine ⟨f.op, c', _, fs, m', a1, by rw [h1]; rfl, a2, a3, a4, a5, a7, ?_⟩
      rw [a8, dataPayload_data _ hd]
  | ctl f fs h1 h4 =>
    have hd : f.isCtl = true := isCtl_of_ctlOk h1
    rw [encAll_cons] at hp hcut
    rw [dataPayload_ctl _ hd] at hl
    rcases cadv_ctl S c f fs m hst.env hst.srv hrem hp h1 with ⟨e, c', a1, a2⟩ |
      ⟨c', a1, a2, a3, a4, a5, a6, a7, a8, a9, a10, a11⟩
    · left; exact ⟨e, c', a1, a2⟩
    · right
      refine ⟨f.op, c', [], fs, m - (f.enc S).length, a1, ?_,
        ⟨a3, a2.isServer.trans hst.srv, ?_, ?_, ?_, ?_, ?_, ?_, ?_⟩, a2, a5, a6, ?_, ?_⟩
      · rcases h1.1 with h | h <;> rw [h] <;> rfl
      · rw [a4]; exact hst.noErr
      · rw [a7]; rfl
      · rw [a11]; rfl
      · simp only [List.nil_append, List.length_append] at hcut ⊢
        omega
      · rw [a8, hfin]; intro h; cases h
      · intro _; exact h4
      · rw [a9]; exact hst.len0
      · unfold LenOv at hl ⊢; rw [a9]; exact hl
      · rw [unmask_nil, List.nil_append, dataPayload_ctl _ hd]

/-- one messageReader.Read on a cut message: a piece of the message and the invariant again, or an
    error that is not io.EOF together with a prefix of what was left -/
theorem mrReadLoop_cut (S : Bool) (rid k : Nat) (hk : 0 < k) (fuel : Nat) :
    ∀ (c : Conn) (wire : Bytes) (more : List PFrame) (m : Nat), CSt S c wire more m → c.r.msgReader = some rid →
      LenOv c (dataPayload more).length →
      (∃ out c' wire' more' m', mrReadLoop fuel c rid k = ((out, none), c') ∧ CSt S c' wire' more' m' ∧
        c'.r.msgReader = some rid ∧ LenOv c' (dataPayload more').length ∧
        unmask c wire ++ dataPayload more = out ++ (unmask c' wire' ++ dataPayload more')) ∨
      (∃ out e c', mrReadLoop fuel c rid k = ((out, some e), c') ∧ e ≠ .eof ∧
        out <+: unmask c wire ++ dataPayload more) := by
  induction fuel with
  | zero =>
    intro c wire more m _ _ _
    right
    exact ⟨[], .any, c, rfl, (by intro h; cases h), List.nil_prefix⟩
  | succ fuel ih =>
    intro c wire more m hst hm hl
    by_cases hw : wire = []
    · subst hw
      have hrem : ¬ c.r.remaining > 0 := by have := hst.rem; simp at this; omega
      cases hfin : c.r.final with
      | true =>
        exfalso
        have hmore := hst.finT hfin
        subst hmore
        have := hst.cut
        simp at this
      | false =>
        rcases cstep_tail S c more m hst hfin 0 (by simpa using hl) with ⟨e, c', a1, a2⟩ |
          ⟨t, c', wire', more', m', a1, a2, a3, a4, a5, a6, a7, a8⟩
        · right
          have hstep : mrReadLoop (fuel + 1) c rid k =
              mrReadLoop fuel { c' with r := { c'.r with readErr := some e } } rid k := by
            conv => lhs; unfold mrReadLoop
            simp only [hst.noErr]
            rw [if_neg hrem]
            simp only [hfin, Bool.false_eq_true, if_false, a1]
          obtain ⟨e', b1, b2⟩ := mrReadLoop_err fuel { c' with r := { c'.r with readErr := some e } } rid k e rfl a2
          rw [hstep, b1]
          exact ⟨[], e', _, rfl, b2, List.nil_prefix⟩
        · have hstep : mrReadLoop (fuel + 1) c rid k = mrReadLoop fuel c' rid k := by
            conv => lhs; unfold mrReadLoop
            simp only [hst.noErr]
            rw [if_neg hrem]
            simp only [hfin, Bool.false_eq_true, if_false, a1, a2]
          rw [hstep]
          rcases ih c' wire' more' m' a3 (by rw [a5]; exact hm) (by simpa using a7) with
            ⟨out, c2, w2, m2, n2, b1, b2, b3, b4, b5⟩ | ⟨out, e, c2, b1, b2, b3⟩
          · left
            refine ⟨out, c2, w2, m2, n2, b1, b2, b3, b4, ?_⟩
            rw [unmask_nil, List.nil_append, ← a8, b5]
          · right
            refine ⟨out, e, c2, b1, b2, ?_⟩
            rw [unmask_nil, List.nil_append, ← a8]
            exact b3
    · rcases mrRead_cut S c rid k wire more m hst hw hk fuel with
        ⟨out, c', wire', m', a1, a2, a3, a4, a5, a6⟩ | ⟨out, e, c', a1, a2, a3⟩
      · left
        refine ⟨out, c', wire', more, m', a1, a2, by rw [a4]; exact hm, ?_, ?_⟩
        · unfold LenOv at hl ⊢; rw [a5]; exact hl
        · rw [a6, List.append_assoc]
      · right
        exact ⟨out, e, c', a1, a2, a3.trans (List.prefix_append _ _)⟩

/-- reading a cut message to its "end": always an error that is not io.EOF, after a prefix -/
theorem readAllLoop_cut (S : Bool) (rid k : Nat) (hk : 0 < k) (fuel : Nat) :
    ∀ (c : Conn) (wire : Bytes) (more : List PFrame) (m : Nat) (acc : List Bytes), CSt S c wire more m →
      c.r.msgReader = some rid → LenOv c (dataPayload more).length →
      ∃ got e c2, readAllLoop fuel c rid k acc = ((acc.reverse.flatten ++ got, some e), c2) ∧ e ≠ .eof ∧
        got <+: unmask c wire ++ dataPayload more := by
  induction fuel with
  | zero =>
    intro c wire more m acc _ _ _
    exact ⟨[], .any, c, (by simp [readAllLoop]), (by intro h; cases h), List.nil_prefix⟩
  | succ fuel ih =>
    intro c wire more m acc hst hm hl
    have hmr : mrRead c rid k = mrReadLoop (c.fuel + 1) c rid k := by
      unfold mrRead
      rw [if_neg (by rw [hm]; simp)]
    rcases mrReadLoop_cut S rid k hk (c.fuel + 1) c wire more m hst hm hl with
      ⟨out, c2, w2, m2, n2, b1, b2, b3, b4, b5⟩ | ⟨out, e, c2, b1, b2, b3⟩
    · obtain ⟨got, e, c3, d1, d2, d3⟩ := ih c2 w2 m2 n2 (out :: acc) b2 b3 b4
      refine ⟨out ++ got, e, c3, ?_, d2, ?_⟩
      · unfold readAllLoop
        rw [hmr, b1]
        simp only []
        rw [d1]
        simp [List.append_assoc]
      · rw [b5]
        exact (List.prefix_append_right_inj out).mpr d3
    · refine ⟨out, e, c2, ?_, b2, b3⟩
      rw [readAllLoop_stop fuel c rid k acc out e c2 (by rw [hmr, b1]) b2]
      simp

/-- an idle reader in front of a message whose bytes stop arriving after `m` bytes -/
structure CIdle (S : Bool) (t : Nat) (c : Conn) (fs : List PFrame) (m : Nat) : Prop where
  env : CEnv c
  srv : c.r.isServer = S
  noErr : c.r.readErr = none
  rem : c.r.remaining = 0
  fin : c.r.final = true
  len0 : 0 ≤ c.r.length
  pend : c.r.buf.pending = (encAll S fs).take m
  cut : m < (encAll S fs).length
  shape : MsgShape t fs
  lenOk : LenOv c (dataPayload fs).length

/-- the loop of NextReader on a cut message: an error, or the message is opened and its rest is cut -/
theorem nextReaderLoop_cut (S : Bool) (t : Nat) (ht : t = 1 ∨ t = 2) (fuel : Nat) :
    ∀ (c : Conn) (fs : List PFrame) (m : Nat), CIdle S t c fs m →
      (∃ e c1, nextReaderLoop fuel c = (.err e, c1)) ∨
      (∃ c1 wire1 more1 m1, nextReaderLoop fuel c = (.msg t c.r.nextId false, c1) ∧ CSt S c1 wire1 more1 m1 ∧
        c1.r.msgReader = some c.r.nextId ∧ LenOv c1 (dataPayload more1).length ∧
        unmask c1 wire1 ++ dataPayload more1 = dataPayload fs) := by
  induction fuel with
  | zero => intro c fs m _; left; exact ⟨.any, c, rfl⟩
  | succ fuel ih =>
    intro c fs m hi
    have hp := hi.pend
    have hcut := hi.cut
    have hl := hi.lenOk
    have htb : (t == 1 || t == 2) = true := by rcases ht with h | h <;> rw [h] <;> rfl
    cases hi.shape with
    | single f h1 h2 h3 =>
      have hd : f.isCtl = false := isCtl_of_data (by omega)
      rw [dataPayload_data _ hd] at hl
      rcases cadv_data S c f [] m hi.env hi.srv hi.noErr hi.rem hp hcut (Or.inr ⟨by omega, hi.fin⟩) h3 hi.len0
        (fun _ => rfl) (fun h => by rw [h2] at h; cases h) 0 (by simpa using hl) with
        ⟨e, c', a1, a2⟩ | ⟨c', m', a1, a2, a3, a4, a5, a6, a7, a8⟩
      · left
        unfold nextReaderLoop
        simp only [hi.noErr, a1]
        exact ⟨_, _, rfl⟩
      · right
        refine ⟨{ c' with r := { c'.r with msgReader := some c'.r.nextId, nextId := c'.r.nextId + 1 } }, _, [], m', ?_,
          a2.congr rfl rfl rfl rfl rfl rfl rfl a2.len0, ?_, ?_, ?_⟩
        · unfold nextReaderLoop
          simp only [hi.noErr, a1, htb, if_true, a6, h1, a5]
        · simp only [a5]
        · exact (by simpa using a7 : LenOv c' _)
        · show unmask c' _ ++ _ = _
          rw [a8, dataPayload_data _ hd]
    | frag f fs' h1 h2 h3 h4 =>
      have hd : f.isCtl = false := isCtl_of_data (by omega)
      rw [dataPayload_data _ hd] at hl
      rw [encAll_cons] at hp hcut
      rcases cadv_data S c f fs' m hi.env hi.srv hi.noErr hi.rem hp hcut (Or.inr ⟨by omega, hi.fin⟩) h3 hi.len0
        (fun h => by rw [h2] at h; cases h) (fun _ => h4) 0 (by simpa using hl) with
        ⟨e, c', a1, a2⟩ | ⟨c', m', a1, a2, a3, a4, a5, a6, a7, a8⟩
      · left
        unfold nextReaderLoop
        simp only [hi.noErr, a1]
        exact ⟨_, _, rfl⟩
      · right
        refine ⟨{ c' with r := { c'.r with msgReader := some c'.r.nextId, nextId := c'.r.nextId + 1 } }, _, fs', m', ?_,
          a2.congr rfl rfl rfl rfl rfl rfl rfl a2.len0, ?_, ?_, ?_⟩
        · unfold nextReaderLoop
          simp only [hi.noErr, a1, htb, if_true, a6, h1, a5]
        · simp only [a5]
        · exact (by simpa using a7 : LenOv c' _)
        · show unmask c' _ ++ _ = _
          rw [a8, dataPayload_data _ hd]
    | ctl f fs' h1 h4 =>
      have hd : f.isCtl = true := isCtl_of_ctlOk h1
      rw [encAll_cons] at hp hcut
      rcases cadv_ctl S c f fs' m hi.env hi.srv hi.rem hp h1 with ⟨e, c', a1, a2⟩ |
        ⟨c', a1, a2, a3, a4, a5, a6, a7, a8, a9, a10, a11⟩
      · left
        unfold nextReaderLoop
        simp only [hi.noErr, a1]
        exact ⟨_, _, rfl⟩
      · have htf : (f.op == 1 || f.op == 2) = false := by rcases h1.1 with h | h <;> rw [h] <;> rfl
        have hstep : nextReaderLoop (fuel + 1) c = nextReaderLoop fuel c' := by
          conv => lhs; unfold nextReaderLoop
          simp only [hi.noErr, a1, htf, Bool.false_eq_true, if_false]
        rw [hstep]
        have hi' : CIdle S t c' fs' (m - (f.enc S).length) := by
          refine ⟨a3, a2.isServer.trans hi.srv, ?_, a7, ?_, ?_, a11, ?_, h4, ?_⟩
          · rw [a4]; exact hi.noErr
          · rw [a8]; exact hi.fin
          · rw [a9]; exact hi.len0
          · simp only [List.length_append] at hcut
            omega
          · unfold LenOv at hl ⊢
            rw [a9]
            simpa [dataPayload_ctl _ hd] using hl
        rcases ih c' fs' _ hi' with ⟨e, c1, b1⟩ | ⟨c1, w1, m1, n1, b1, b2, b3, b4, b5⟩
        · left; exact ⟨e, c1, b1⟩
        · right
          refine ⟨c1, w1, m1, n1, by rw [b1, a6], b2, by rw [b3, a6], b4, ?_⟩
          rw [b5, dataPayload_ctl _ hd]

/-- NextReader on a cut message: the message is opened (its rest is cut), or an error is returned, or
    (1000th failed call) the documented panic -/
theorem nextReader_cut (S : Bool) (t : Nat) (ht : t = 1 ∨ t = 2) (c : Conn) (fs : List PFrame) (m : Nat)
    (hi : CIdle S t (WS.RobustAux.c0 c) fs m) :
    (∃ c1 rid wire1 more1 m1, nextReader c = (.msg t rid false, c1) ∧ CSt S c1 wire1 more1 m1 ∧
      c1.r.msgReader = some rid ∧ LenOv c1 (dataPayload more1).length ∧
      unmask c1 wire1 ++ dataPayload more1 = dataPayload fs) ∨
    (∃ e c1, nextReader c = (.err e, c1) ∧ c.r.errCount + 1 < 1000) ∨
    (∃ c1, nextReader c = (.panic, c1) ∧ 1000 ≤ c.r.errCount + 1) := by
  have hne : c.r.readErr = none := hi.noErr
  have hres : WS.RobustAux.nrRes c = nextReaderLoop c.fuel (WS.RobustAux.c0 c) := by
    unfold WS.RobustAux.nrRes
    rw [hne]
  have hec := (WS.RobustAux.nextReaderLoop_spec c.fuel (WS.RobustAux.c0 c)).1
  rw [WS.RobustAux.nextReader_eq, hres]
  rcases nextReaderLoop_cut S t ht c.fuel (WS.RobustAux.c0 c) fs m hi with
    ⟨e, c1, b1⟩ | ⟨c1, w1, m1, n1, b1, b2, b3, b4, b5⟩
  · right
    rw [b1] at hec
    have hec' : c1.r.errCount = c.r.errCount := hec
    rw [b1, nrFinish_err, hec']
    by_cases hcnt : c.r.errCount + 1 ≥ 1000
    · right
      rw [if_pos hcnt]
      exact ⟨_, rfl, hcnt⟩
    · left
      rw [if_neg hcnt]
      exact ⟨_, _, rfl, by omega⟩
  · left
    rw [b1, nrFinish_msg]
    exact ⟨c1, _, w1, m1, n1, rfl, b2, b3, b4, b5⟩

end WS.CutLoopsL
