import WS.Lemmas.PoolStepZ
import WS.Lemmas.WFInv5
/-
  Handle / operation level development for PoolInvZ: the inductive invariant `ZInv` (SInv of
  PoolInv.lean generalised to flate handles) is preserved by every operation whose compress/flate
  environment answers are consistent (`WFInv.EnvOK`).
-/
namespace WS.PoolInvZ
open WS WS.PoolInv WS.WFInv

/-- the messageWriter a handle wraps -/
def hix : Handle → Nat
  | .plain i => i
  | .flate i _ _ _ => i

/-- `x` is a handle through which messageWriter `i` can still be written and closed:
    the messageWriter itself, or an open flate wrapper whose flate writer has not failed -/
def Wr (x : Handle) (i : Nat) : Prop := x = .plain i ∨ ∃ sent, x = .flate i true none sent

theorem Wr.idx {x : Handle} {i : Nat} (h : Wr x i) : hix x = i := by
  rcases h with h | ⟨sent, h⟩ <;> subst h <;> rfl

/-- the inductive invariant -/
structure ZInv (s : W) : Prop where
  cap : maxFrameHeaderSize < s.wbufLen
  hA : ∀ (h : Nat) (x : Handle), s.handles[h]? = some x → hix x < s.mws.length
  hB : ∀ (i : Nat) (m : MW), s.mws[i]? = some m → m.err = none →
        ∃ h x, s.writer = some h ∧ s.handles[h]? = some x ∧ Wr x i
  hT : (∃ (i : Nat) (m : MW), s.mws[i]? = some m ∧ m.err = none) → BalTZ s
  hF : (∀ (i : Nat) (m : MW), s.mws[i]? = some m → m.err ≠ none) → BalFZ s

theorem ZInv.cap_pos {s : W} (a : ZInv s) : 0 < s.cap := by
  have := a.cap
  unfold W.cap; omega

theorem ZInv.congr {s s' : W} (h : key s' = key s) (hw : s'.wbufLen = s.wbufLen) (a : ZInv s) : ZInv s' := by
  refine ⟨?_, ?_, ?_, ?_, ?_⟩
  · rw [hw]; exact a.cap
  · rw [key_handles h, key_mws h]; exact a.hA
  · rw [key_handles h, key_mws h, key_writer h]; exact a.hB
  · rw [key_mws h]; exact fun x => (a.hT x).congr h
  · rw [key_mws h]; exact fun x => (a.hF x).congr h

theorem ZInv.uniq {s : W} (a : ZInv s) {i j : Nat} {mi mj : MW} (hi : s.mws[i]? = some mi) (hj : s.mws[j]? = some mj)
    (ei : mi.err = none) (ej : mj.err = none) : i = j := by
  obtain ⟨h1, x1, hw1, hh1, hr1⟩ := a.hB i mi hi ei
  obtain ⟨h2, x2, hw2, hh2, hr2⟩ := a.hB j mj hj ej
  rw [hw1] at hw2
  cases hw2
  rw [hh1] at hh2
  cases hh2
  rw [← hr1.idx, ← hr2.idx]

theorem ZInv.of_noLive {s : W} (hc : maxFrameHeaderSize < s.wbufLen)
    (hA : ∀ (h : Nat) (x : Handle), s.handles[h]? = some x → hix x < s.mws.length)
    (hn : NoLive s) (hb : BalFZ s) : ZInv s :=
  ⟨hc, hA, fun i m hi he => absurd he (hn i m hi), fun ⟨i, m, hi, he⟩ => absurd he (hn i m hi), fun _ => hb⟩

theorem ZInv.balF {s : W} (a : ZInv s) (hn : NoLive s) : BalFZ s := a.hF hn

/-- everything live is reachable through the current writer handle -/
theorem ZInv.live_writer {s : W} (a : ZInv s) {h : Nat} (hw : s.writer = some h) {j : Nat} {mj : MW}
    (hj : s.mws[j]? = some mj) (ej : mj.err = none) : ∃ x, s.handles[h]? = some x ∧ Wr x j := by
  obtain ⟨h2, x2, hw2, hh2, hr2⟩ := a.hB j mj hj ej
  rw [hw] at hw2; cases hw2
  exact ⟨x2, hh2, hr2⟩

theorem ZInv.noLive_of_not_wr {s : W} (a : ZInv s) {h : Nat} (hw : s.writer = some h)
    (hx : ∀ x j, s.handles[h]? = some x → ¬ Wr x j) : NoLive s := by
  intro j mj hj ej
  obtain ⟨x, hh, hr⟩ := a.live_writer hw hj ej
  exact hx x j hh hr

theorem setMW_mws (s : W) (i : Nat) (m : MW) : (setMW s i m).mws = s.mws.set i m := rfl
theorem setMW_handles (s : W) (i : Nat) (m : MW) : (setMW s i m).handles = s.handles := rfl
theorem setMW_writer (s : W) (i : Nat) (m : MW) : (setMW s i m).writer = s.writer := rfl
theorem setMW_wbufLen (s : W) (i : Nat) (m : MW) : (setMW s i m).wbufLen = s.wbufLen := rfl
theorem setHandle_mws (s : W) (h : Nat) (x : Handle) : (setHandle s h x).mws = s.mws := rfl
theorem setHandle_handles (s : W) (h : Nat) (x : Handle) : (setHandle s h x).handles = s.handles.set h x := rfl
theorem setHandle_writer (s : W) (h : Nat) (x : Handle) : (setHandle s h x).writer = s.writer := rfl
theorem setHandle_wbufLen (s : W) (h : Nat) (x : Handle) : (setHandle s h x).wbufLen = s.wbufLen := rfl

theorem BalTZ.setMW {s : W} (b : BalTZ s) (i : Nat) (m : MW) : BalTZ (setMW s i m) := ⟨b.pool, b.nil0, b.buf, b.cnt⟩
theorem BalFZ.setMW {s : W} (b : BalFZ s) (i : Nat) (m : MW) : BalFZ (setMW s i m) := ⟨b.pool, b.nil0, b.buf, b.cnt⟩
theorem BalTZ.setHandle {s : W} (b : BalTZ s) (h : Nat) (x : Handle) : BalTZ (setHandle s h x) := ⟨b.pool, b.nil0, b.buf, b.cnt⟩
theorem BalFZ.setHandle {s : W} (b : BalFZ s) (h : Nat) (x : Handle) : BalFZ (setHandle s h x) := ⟨b.pool, b.nil0, b.buf, b.cnt⟩

/-- storing back the result of a messageWriter-level step keeps the invariant -/
theorem ZInv.apply_step {s s' : W} {i : Nat} {m m' : MW} (a : ZInv s) (hi : s.mws[i]? = some m)
    (st : StepZ s m s' m') : ZInv (setMW s' i m') := by
  have hlt : i < s.mws.length := (List.getElem?_eq_some_iff.mp hi).1
  have hmws := st.mws
  have hhs := st.handles
  have hnew_i : (setMW s' i m').mws[i]? = some m' := by
    show (s'.mws.set i m')[i]? = some m'
    rw [hmws]; exact List.getElem?_set_self hlt
  have hnew_ne : ∀ j, j ≠ i → (setMW s' i m').mws[j]? = s.mws[j]? := by
    intro j hj
    show (s'.mws.set i m')[j]? = s.mws[j]?
    rw [hmws]; exact List.getElem?_set_ne (Ne.symm hj)
  have hlen : (setMW s' i m').mws.length = s.mws.length := by
    show (s'.mws.set i m').length = s.mws.length
    rw [hmws]; simp
  have hhs' : (setMW s' i m').handles = s.handles := hhs
  have hc' : maxFrameHeaderSize < (setMW s' i m').wbufLen := by
    show maxFrameHeaderSize < s'.wbufLen
    rw [st.wl]; exact a.cap
  have hA' : ∀ (h : Nat) (x : Handle), (setMW s' i m').handles[h]? = some x →
      hix x < (setMW s' i m').mws.length := by
    rw [hhs', hlen]; exact a.hA
  by_cases hm : m.err = none
  · by_cases hm' : m'.err = none
    · -- stays live
      have hk := st.live hm hm'
      refine ⟨hc', hA', ?_, fun _ => ((a.hT ⟨i, m, hi, hm⟩).congr hk).setMW _ _, fun hall => absurd hm' (hall i m' hnew_i)⟩
      intro j mj hj ej
      rw [hhs']
      show ∃ h x, s'.writer = some h ∧ _
      rw [key_writer hk]
      by_cases hji : j = i
      · subst hji; exact a.hB j m hi hm
      · rw [hnew_ne j hji] at hj; exact a.hB j mj hj ej
    · -- ends
      have hf := st.fin hm hm'
      have hothers : ∀ (j : Nat) (mj : MW), (setMW s' i m').mws[j]? = some mj → mj.err ≠ none := by
        intro j mj hj ej
        by_cases hji : j = i
        · subst hji; rw [hnew_i] at hj; cases hj; exact hm' ej
        · rw [hnew_ne j hji] at hj
          exact hji (a.uniq hj hi ej hm)
      exact ZInv.of_noLive hc' hA' hothers ((hf.2.2 (a.hT ⟨i, m, hi, hm⟩)).setMW _ _)
  · -- was already ended
    obtain ⟨hk, hm'⟩ := st.dead hm
    refine ⟨hc', hA', ?_, ?_, ?_⟩
    · intro j mj hj ej
      rw [hhs']
      show ∃ h x, s'.writer = some h ∧ _
      rw [key_writer hk]
      by_cases hji : j = i
      · subst hji; rw [hnew_i] at hj; cases hj; exact absurd ej hm'
      · rw [hnew_ne j hji] at hj; exact a.hB j mj hj ej
    · rintro ⟨j, mj, hj, ej⟩
      by_cases hji : j = i
      · subst hji; rw [hnew_i] at hj; cases hj; exact absurd ej hm'
      · rw [hnew_ne j hji] at hj
        exact ((a.hT ⟨j, mj, hj, ej⟩).congr hk).setMW _ _
    · intro hall
      refine ((a.hF ?_).congr hk).setMW _ _
      intro j mj hj
      by_cases hji : j = i
      · subst hji; rw [hi] at hj; cases hj; exact hm
      · rw [← hnew_ne j hji] at hj; exact hall j mj hj

/-- replacing a handle by one for the same messageWriter keeps the invariant, provided the new
    handle can still write whenever the old one could and the messageWriter is live -/
theorem ZInv.setHandle {s : W} {h : Nat} {x x' : Handle} (a : ZInv s) (hh : s.handles[h]? = some x)
    (hx : hix x' = hix x)
    (hw : Wr x (hix x) → (∃ m, s.mws[hix x]? = some m ∧ m.err = none) → Wr x' (hix x)) :
    ZInv (setHandle s h x') := by
  have hlt : h < s.handles.length := (List.getElem?_eq_some_iff.mp hh).1
  refine ⟨a.cap, ?_, ?_, fun hl => (a.hT hl).setHandle _ _, fun hl => (a.hF hl).setHandle _ _⟩
  · intro k y hy
    have hy' : (s.handles.set h x')[k]? = some y := hy
    show hix y < s.mws.length
    by_cases hkh : k = h
    · subst hkh
      rw [List.getElem?_set_self hlt] at hy'
      cases hy'
      rw [hx]; exact a.hA k x hh
    · rw [List.getElem?_set_ne (Ne.symm hkh)] at hy'
      exact a.hA k y hy'
  · intro j mj hj ej
    obtain ⟨h0, x0, hw0, hh0, hr0⟩ := a.hB j mj hj ej
    show ∃ k y, s.writer = some k ∧ (s.handles.set h x')[k]? = some y ∧ Wr y j
    by_cases hkh : h0 = h
    · subst hkh
      rw [hh] at hh0; cases hh0
      have hj' := hr0.idx
      subst hj'
      exact ⟨h0, x', hw0, List.getElem?_set_self hlt, hw hr0 ⟨mj, hj, ej⟩⟩
    · exact ⟨h0, x0, hw0, by rw [List.getElem?_set_ne (Ne.symm hkh)]; exact hh0, hr0⟩

theorem NoLive.setHandle {s : W} (a : NoLive s) (h : Nat) (x : Handle) : NoLive (setHandle s h x) := a

theorem ZInv.handle_get {s : W} (a : ZInv s) {h : Nat} {x : Handle} (hh : s.handles[h]? = some x) :
    ∃ m, s.mws[hix x]? = some m :=
  ⟨s.mws[hix x]'(a.hA h x hh), List.getElem?_eq_getElem (a.hA h x hh)⟩

theorem not_wr_closed {i j : Nat} {de : Option WErr} {sent : Bytes} : ¬ Wr (.flate i false de sent) j := by
  rintro (h | ⟨_, h⟩) <;> cases h

theorem not_wr_err {i j : Nat} {fo : Bool} {e : WErr} {sent : Bytes} : ¬ Wr (.flate i fo (some e) sent) j := by
  rintro (h | ⟨_, h⟩) <;> cases h

/-- after the messageWriter behind the current writer handle has ended, nothing is live -/
theorem ZInv.noLive_set {s S : W} {h i : Nat} {x : Handle} {m' : MW} (a : ZInv s) (hw : s.writer = some h)
    (hh : s.handles[h]? = some x) (hxi : hix x = i) (hS : S.mws = s.mws.set i m') (hd : m'.err ≠ none) :
    NoLive S := by
  have hlt : i < s.mws.length := by rw [← hxi]; exact a.hA h x hh
  intro j mj hj ej
  rw [hS] at hj
  by_cases hji : j = i
  · subst hji; rw [List.getElem?_set_self hlt] at hj; cases hj; exact hd ej
  · rw [List.getElem?_set_ne (Ne.symm hji)] at hj
    obtain ⟨x2, hh2, hr2⟩ := a.live_writer hw hj ej
    rw [hh] at hh2; cases hh2
    exact hji (hr2.idx.symm.trans hxi)

theorem StepZ.setMW_mws {s s' : W} {m m' : MW} (st : StepZ s m s' m') (i : Nat) :
    (setMW s' i m').mws = s.mws.set i m' := by
  show s'.mws.set i m' = _
  rw [st.mws]

theorem hWrite_invZ (s : W) (h : Nat) (p : Bytes) (dn : List Bytes) (asString : Bool) (a : ZInv s) :
    ZInv (hWrite s h p dn asString).2 := by
  unfold hWrite
  split
  · exact a
  · rename_i i hh
    obtain ⟨m, hm⟩ := a.handle_get hh
    change s.mws[i]? = some m at hm
    rw [getMW_of hm]
    cases asString
    · exact a.apply_step hm (mwWrite_stepZ s m p)
    · exact a.apply_step hm (mwWriteString_stepZ s m p)
  · rename_i i fo de sent hh
    obtain ⟨m, hm⟩ := a.handle_get hh
    change s.mws[i]? = some m at hm
    split
    · exact a
    · rename_i hfo
      have hfo' : fo = true := by simpa using hfo
      subst hfo'
      split
      · exact a
      · rw [getMW_of hm]
        dsimp only
        have st := feed_stepZ s m dn
        have a2 := a.apply_step hm st
        have hh2 : (setMW (feed s m dn).2.1 i (feed s m dn).2.2).handles[h]? = some (.flate i true none sent) := by
          rw [setMW_handles, st.handles]; exact hh
        have hm2 : (setMW (feed s m dn).2.1 i (feed s m dn).2.2).mws[i]? = some (feed s m dn).2.2 := by
          rw [st.setMW_mws]
          exact List.getElem?_set_self (List.getElem?_eq_some_iff.mp hm).1
        refine a2.setHandle hh2 rfl ?_
        rintro _ ⟨m', hm', el⟩
        change (setMW (feed s m dn).2.1 i (feed s m dn).2.2).mws[i]? = some m' at hm'
        rw [hm2] at hm'; cases hm'
        show Wr _ i
        cases he : (feed s m dn).1 with
        | none => exact Or.inr ⟨_, rfl⟩
        | some e =>
          exact absurd el (feed_err_dead s m dn a.cap_pos (by rw [he]; simp))

theorem hReadFrom_invZ (s : W) (h : Nat) (r : Src) (a : ZInv s) : ZInv (hReadFrom s h r).2 := by
  unfold hReadFrom
  split
  · rename_i i hh
    obtain ⟨m, hm⟩ := a.handle_get hh
    change s.mws[i]? = some m at hm
    rw [getMW_of hm]
    exact a.apply_step hm (mwReadFrom_stepZ s m r)
  · exact a

/-- the tail of `flateWriteWrapper.Close`: the wrapper is marked closed and the messageWriter is closed -/
theorem ZInv.close_tail {s2 : W} {h i : Nat} {x x' : Handle} {m1 : MW} (a2 : ZInv s2)
    (hh : s2.handles[h]? = some x) (hxi : hix x = i) (hx' : hix x' = i) (hm1 : s2.mws[i]? = some m1) :
    ZInv (setMW (mwClose (WS.setHandle s2 h x') m1).2.1 i (mwClose (WS.setHandle s2 h x') m1).2.2) := by
  have hm3 : (WS.setHandle s2 h x').mws[i]? = some m1 := hm1
  have st := mwClose_stepZ (WS.setHandle s2 h x') m1
  by_cases hl : m1.err = none
  · -- still live: close it; everything else is already ended
    have hd := mwClose_dead (WS.setHandle s2 h x') m1
    have hf := st.fin hl hd
    have bt : BalTZ (WS.setHandle s2 h x') := (a2.hT ⟨i, m1, hm1, hl⟩).setHandle _ _
    have hlt : i < s2.mws.length := (List.getElem?_eq_some_iff.mp hm1).1
    have hhlt : h < s2.handles.length := (List.getElem?_eq_some_iff.mp hh).1
    refine ZInv.of_noLive ?_ ?_ ?_ ((hf.2.2 bt).setMW _ _)
    · rw [setMW_wbufLen, st.wl]; exact a2.cap
    · intro k y hy
      rw [setMW_handles, hf.2.1, setHandle_handles] at hy
      rw [st.setMW_mws, setHandle_mws, List.length_set]
      by_cases hkh : k = h
      · subst hkh
        rw [List.getElem?_set_self hhlt] at hy
        cases hy
        rw [hx']; exact hlt
      · rw [List.getElem?_set_ne (Ne.symm hkh)] at hy
        exact a2.hA k y hy
    · intro j mj hj ej
      rw [st.setMW_mws, setHandle_mws] at hj
      by_cases hji : j = i
      · subst hji; rw [List.getElem?_set_self hlt] at hj; cases hj; exact hd ej
      · rw [List.getElem?_set_ne (Ne.symm hji)] at hj
        exact hji (a2.uniq hj hm1 ej hl)
  · have a3 : ZInv (WS.setHandle s2 h x') := by
      refine a2.setHandle hh (hx'.trans hxi.symm) ?_
      rintro _ ⟨m', hm', el⟩
      rw [hxi, hm1] at hm'; cases hm'
      exact absurd el hl
    exact a3.apply_step hm3 st

theorem hClose_invZ (s : W) (h : Nat) (dn : List Bytes) (full : Bytes) (a : ZInv s)
    (henv : CloseEnvOK s h dn full) :
    ZInv (hClose s h dn full).2 ∧ (s.writer = some h → NoLive (hClose s h dn full).2) := by
  unfold hClose
  split
  · rename_i hh
    exact ⟨a, fun hw => a.noLive_of_not_wr hw (fun x j hx => by rw [hh] at hx; cases hx)⟩
  · rename_i i hh
    obtain ⟨m, hm⟩ := a.handle_get hh
    change s.mws[i]? = some m at hm
    rw [getMW_of hm]
    have st := mwClose_stepZ s m
    exact ⟨a.apply_step hm st, fun hw => a.noLive_set hw hh rfl (st.setMW_mws i) (mwClose_dead s m)⟩
  · rename_i i fo de sent hh
    obtain ⟨m, hm⟩ := a.handle_get hh
    change s.mws[i]? = some m at hm
    split
    · rename_i hfo
      have hfo' : fo = false := by simpa using hfo
      subst hfo'
      exact ⟨a, fun hw => a.noLive_of_not_wr hw (fun x j hx => by rw [hh] at hx; cases hx; exact not_wr_closed)⟩
    · rename_i hfo
      have hfo' : fo = true := by simpa using hfo
      subst hfo'
      split
      · rename_i e
        refine ⟨a.setHandle hh rfl (fun hwr _ => absurd hwr not_wr_err), fun hw => ?_⟩
        exact NoLive.setHandle (a.noLive_of_not_wr hw (fun x j hx => by rw [hh] at hx; cases hx; exact not_wr_err)) _ _
      · rw [getMW_of hm]
        dsimp only
        have hck := henv i sent hh
        have st := feed_stepZ s m dn
        have a2 := a.apply_step hm st
        have hlt : i < s.mws.length := (List.getElem?_eq_some_iff.mp hm).1
        have hh2 : (setMW (feed s m dn).2.1 i (feed s m dn).2.2).handles[h]? = some (.flate i true none sent) := by
          rw [setMW_handles, st.handles]; exact hh
        have hm2 : (setMW (feed s m dn).2.1 i (feed s m dn).2.2).mws[i]? = some (feed s m dn).2.2 := by
          rw [st.setMW_mws]
          exact List.getElem?_set_self hlt
        split
        · rename_i e he1
          have hd : (feed s m dn).2.2.err ≠ none := feed_err_dead s m dn a.cap_pos (by rw [he1]; simp)
          refine ⟨a2.setHandle hh2 rfl ?_, fun hw => ?_⟩
          · rintro _ ⟨m', hm', el⟩
            change (setMW (feed s m dn).2.1 i (feed s m dn).2.2).mws[i]? = some m' at hm'
            rw [hm2] at hm'; cases hm'
            exact absurd el hd
          · exact NoLive.setHandle (a.noLive_set hw hh rfl (st.setMW_mws i) hd) _ _
        · rename_i he1
          split
          · rename_i hbad
            rw [hck.1] at hbad; cases hbad
          · split
            · rename_i hbad
              rw [hck.2] at hbad; cases hbad
            · have hg : getMW (setHandle (setMW (feed s m dn).2.1 i (feed s m dn).2.2) h
                  (.flate i false (feed s m dn).1 (sent ++ dn.flatten))) i = (feed s m dn).2.2 := getMW_of hm2
              rw [hg]
              refine ⟨a2.close_tail hh2 rfl rfl hm2, fun hw => ?_⟩
              have st2 := mwClose_stepZ (setHandle (setMW (feed s m dn).2.1 i (feed s m dn).2.2) h
                  (.flate i false (feed s m dn).1 (sent ++ dn.flatten))) (feed s m dn).2.2
              have hS := st2.setMW_mws i
              rw [setHandle_mws, st.setMW_mws, List.set_set] at hS
              exact a.noLive_set hw hh rfl hS (mwClose_dead _ _)

theorem closePrev_invZ (s : W) (dnp : List Bytes) (fullp : Bytes) (a : ZInv s) (henv : PrevEnvOK s dnp fullp) :
    ZInv (closePrev s dnp fullp) ∧ NoLive (closePrev s dnp fullp) := by
  unfold closePrev
  split
  · rename_i h hw
    obtain ⟨h1, h2⟩ := hClose_invZ s h dnp fullp a (henv h hw)
    have h2' := h2 hw
    refine ⟨ZInv.of_noLive h1.cap h1.hA h2' ?_, h2'⟩
    have b := h1.balF h2'
    exact ⟨b.pool, b.nil0, b.buf, b.cnt⟩
  · rename_i hw
    refine ⟨a, ?_⟩
    intro j mj hj ej
    obtain ⟨h2, x2, hw2, _⟩ := a.hB j mj hj ej
    rw [hw] at hw2; cases hw2

/-- state after a successful beginMessage: nothing stored is live, but a buffer is held for the
    message writer about to be created -/
structure BegunZ (s : W) : Prop where
  cap : maxFrameHeaderSize < s.wbufLen
  hA : ∀ (h : Nat) (x : Handle), s.handles[h]? = some x → hix x < s.mws.length
  hN : NoLive s
  hT : BalTZ s

theorem ensureBuf_begunZ (s : W) (a : ZInv s) (hn : NoLive s) : BegunZ (ensureBuf s) := by
  have b := a.balF hn
  unfold ensureBuf
  rw [b.buf]
  dsimp only
  have hg := poolGet_balZ s b
  refine ⟨?_, ?_, ?_, hg.1⟩
  · rw [wl_poolGet]; exact a.cap
  · rw [hg.2.2.1, hg.2.1]; exact a.hA
  · unfold NoLive; rw [hg.2.1]; exact hn

theorem beginMessage'_invZ (s : W) (t : Int) (a : ZInv s) (hn : NoLive s) :
    (∀ e s', beginMessage' s t = (.error e, s') → ZInv s') ∧
    (∀ m s', beginMessage' s t = (.ok m, s') → BegunZ s' ∧ m.err = none) := by
  unfold beginMessage'
  split
  · exact ⟨fun e s' h => (by cases h; exact a), fun m s' h => by cases h⟩
  · split
    · exact ⟨fun e s' h => (by cases h; exact a), fun m s' h => by cases h⟩
    · exact ⟨fun e s' h => (by cases h), fun m s' h => by cases h; exact ⟨ensureBuf_begunZ s a hn, rfl⟩⟩

theorem beginMessage_invZ (s : W) (t : Int) (dnp : List Bytes) (fullp : Bytes) (a : ZInv s)
    (henv : PrevEnvOK s dnp fullp) :
    (∀ e s', beginMessage s t dnp fullp = (.error e, s') → ZInv s') ∧
    (∀ m s', beginMessage s t dnp fullp = (.ok m, s') → BegunZ s' ∧ m.err = none) := by
  unfold beginMessage
  have h := closePrev_invZ s dnp fullp a henv
  exact beginMessage'_invZ _ t h.1 h.2

/-- registering the fresh message writer (and its handle) after a successful beginMessage -/
theorem BegunZ.register {s : W} {m : MW} {x : Handle} (bg : BegunZ s) (hm : m.err = none) (hx : Wr x s.mws.length) :
    ZInv { s with mws := s.mws ++ [m], handles := s.handles ++ [x], writer := some s.handles.length } := by
  refine ⟨bg.cap, ?_, ?_, ?_, ?_⟩
  · intro h y hy
    show hix y < (s.mws ++ [m]).length
    have hy' : (s.handles ++ [x])[h]? = some y := hy
    rcases getElem?_snoc_cases _ _ _ _ hy' with ⟨_, hy''⟩ | ⟨_, hy''⟩
    · have := bg.hA h y hy''
      simp; omega
    · rw [hy'', hx.idx]; simp
  · intro j mj hj ej
    have hj' : (s.mws ++ [m])[j]? = some mj := hj
    rcases getElem?_snoc_cases _ _ _ _ hj' with ⟨_, hj''⟩ | ⟨hjl, _⟩
    · exact absurd ej (bg.hN j mj hj'')
    · refine ⟨s.handles.length, x, rfl, ?_, ?_⟩
      · show (s.handles ++ [x])[s.handles.length]? = some x
        simp
      · rw [hjl]; exact hx
  · intro _
    exact ⟨bg.hT.pool, bg.hT.nil0, bg.hT.buf, bg.hT.cnt⟩
  · intro hall
    have : (s.mws ++ [m])[s.mws.length]? = some m := by simp
    exact absurd hm (hall s.mws.length m this)

theorem nextWriter_invZ (s : W) (t : Int) (dnp : List Bytes) (fullp : Bytes) (a : ZInv s)
    (henv : PrevEnvOK s dnp fullp) : ZInv (nextWriter s t dnp fullp).2 := by
  unfold nextWriter
  have hb := beginMessage_invZ s t dnp fullp a henv
  split
  · rename_i e s' heq; exact hb.1 _ _ heq
  · rename_i m s' heq
    obtain ⟨bg, hm⟩ := hb.2 _ _ heq
    dsimp only
    split
    · exact bg.register (m := { m with compress := true }) hm (Or.inr ⟨[], rfl⟩)
    · exact bg.register hm (Or.inl rfl)

/-- the fast path of WriteMessage: the local message writer always ends -/
theorem BegunZ.finish {s s' : W} {m m' : MW} (bg : BegunZ s) (hm : m.err = none) (st : StepZ s m s' m')
    (hd : m'.err ≠ none) : ZInv s' := by
  obtain ⟨hmws, hhs, hb⟩ := st.fin hm hd
  refine ZInv.of_noLive ?_ ?_ ?_ (hb bg.hT)
  · rw [st.wl]; exact bg.cap
  · rw [hhs, hmws]; exact bg.hA
  · unfold NoLive; rw [hmws]; exact bg.hN

theorem writeMessage_invZ (s : W) (t : Int) (data : Bytes) (dnp : List Bytes) (fullp : Bytes) (dn : List Bytes)
    (full : Bytes) (a : ZInv s) (henv : EnvOK s (.writeMessage t data dnp fullp dn full)) :
    ZInv (writeMessage s t data dnp fullp dn full).2 := by
  obtain ⟨hp, hc⟩ := henv
  revert hc
  unfold writeMessage
  intro hc
  split
  · have hb := beginMessage_invZ s t dnp fullp a hp
    split
    · rename_i e s' heq; exact hb.1 _ _ heq
    · rename_i m s' heq
      obtain ⟨bg, hm⟩ := hb.2 _ _ heq
      exact bg.finish (m := { m with buf := data.take (min s'.cap data.length) }) hm
        (flushFrame_stepZ _ _ _ _) (flushFrame_final_dead _ _ _)
  · have hn := nextWriter_invZ s t dnp fullp a hp
    split
    · rename_i e s' heq; rw [heq] at hn; exact hn
    · rename_i h s' heq
      rw [heq] at hn
      have hw := hWrite_invZ s' h data dn false hn
      have hc' := hc h s' heq
      split
      · rename_i n e s'' heq'; rw [heq'] at hw; exact hw
      · rename_i n s'' heq'; rw [heq'] at hw hc'
        exact (hClose_invZ s'' h [] full hw hc').1

theorem writeJSON_invZ (s : W) (enc : Bytes) (dnp : List Bytes) (fullp : Bytes) (dn : List Bytes)
    (full : Bytes) (a : ZInv s) (henv : EnvOK s (.writeJSON enc dnp fullp dn full)) :
    ZInv (writeJSON s enc dnp fullp dn full).2 := by
  obtain ⟨hp, hc⟩ := henv
  unfold writeJSON
  have hn := nextWriter_invZ s 1 dnp fullp a hp
  split
  · rename_i e s' heq; rw [heq] at hn; exact hn
  · rename_i h s' heq
    rw [heq] at hn
    exact (hClose_invZ _ h [] full (hWrite_invZ s' h enc dn false hn) (hc h s' heq)).1

theorem applyOp_invZ (s : W) (op : Op) (a : ZInv s) (henv : EnvOK s op) : ZInv (applyOp s op).2 := by
  cases op with
  | nextWriter t dnp fullp =>
    have := nextWriter_invZ s t dnp fullp a henv
    simp only [applyOp]
    split
    · rename_i heq; rw [heq] at this; exact this
    · rename_i heq; rw [heq] at this; exact this
  | write h p dn asString => exact hWrite_invZ s h p dn asString a
  | readFrom h r => exact hReadFrom_invZ s h r a
  | close h dn full => exact (hClose_invZ s h dn full a henv).1
  | writeMessage t data dnp fullp dn full => exact writeMessage_invZ s t data dnp fullp dn full a henv
  | writeJSON enc dnp fullp dn full => exact writeJSON_invZ s enc dnp fullp dn full a henv
  | writeControl t data d => exact a.congr (key_writeControl s t data d) (wl_writeControl s t data d)
  | writePrepared t img dnp fullp =>
    have henv' : isData t = true → PrevEnvOK s dnp fullp := henv
    have hp : ZInv (if isData t = true then closePrev s dnp fullp else s) := by
      split
      · rename_i ht; exact (closePrev_invZ s dnp fullp a (henv' ht)).1
      · exact a
    refine hp.congr (key_writePreparedImage s t img dnp fullp) ?_
    refine (wl_writePreparedImage s t img dnp fullp).trans ?_
    split
    · exact (wl_closePrev s dnp fullp).symm
    · rfl
  | setWriteDeadline d =>
    have hk : key (applyOp s (.setWriteDeadline d)).2 = key s := rfl
    exact a.congr hk rfl
  | enableWriteCompression b =>
    have hk : key (applyOp s (.enableWriteCompression b)).2 = key s := rfl
    exact a.congr hk rfl
  | setCompressionLevel l =>
    have hk : key (applyOp s (.setCompressionLevel l)).2 = key s := by
      simp only [applyOp, setCompressionLevel]
      split <;> rfl
    have hw : (applyOp s (.setCompressionLevel l)).2.wbufLen = s.wbufLen := by
      simp only [applyOp, setCompressionLevel]
      split <;> rfl
    exact a.congr hk hw

theorem ZInv.inv {s : W} (a : ZInv s) : Inv s := by
  refine ⟨?_, ?_, ?_⟩
  · intro hb
    by_cases hl : ∃ (i : Nat) (m : MW), s.mws[i]? = some m ∧ m.err = none
    · exact absurd hb (a.hT hl).buf
    · exact (a.hF (fun i m hi he => hl ⟨i, m, hi, he⟩)).cnt
  · intro hb
    by_cases hl : ∃ (i : Nat) (m : MW), s.mws[i]? = some m ∧ m.err = none
    · refine ⟨(a.hT hl).cnt, ?_⟩
      obtain ⟨i, m, hi, he⟩ := hl
      exact ⟨m, List.mem_of_getElem? hi, he⟩
    · exact absurd (a.hF (fun i m hi he => hl ⟨i, m, hi, he⟩)).buf hb
  · intro i j mi mj hi hj ei ej
    exact a.uniq hi hj ei ej

theorem ZInv.nil0 {s : W} (a : ZInv s) : nilPuts s.log = 0 := by
  by_cases hl : ∃ (i : Nat) (m : MW), s.mws[i]? = some m ∧ m.err = none
  · exact (a.hT hl).nil0
  · exact (a.hF (fun i m hi he => hl ⟨i, m, hi, he⟩)).nil0

end WS.PoolInvZ
