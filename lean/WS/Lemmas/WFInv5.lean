import WS.Lemmas.WFInv4
/-
  C02 frame level, part 5: WriteMessage, WriteJSON, WriteControl, WritePreparedMessage.
-/
namespace WS.WFInv
open WS WS.Spec WS.Codec WS.WFSpec

/-- per-operation consistency of the compress/flate environment answers (see `CloseEnvOK`) -/
def EnvOK (s : W) : Op → Prop
  | .close h dn full => CloseEnvOK s h dn full
  | .nextWriter _ dnp fullp => PrevEnvOK s dnp fullp
  | .writeMessage t data dnp fullp dn full =>
    PrevEnvOK s dnp fullp ∧
    ∀ h s1, nextWriter s t dnp fullp = (.ok h, s1) → CloseEnvOK (hWrite s1 h data dn).2 h [] full
  | .writeJSON enc dnp fullp dn full =>
    PrevEnvOK s dnp fullp ∧
    ∀ h s1, nextWriter s 1 dnp fullp = (.ok h, s1) → CloseEnvOK (hWrite s1 h enc dn).2 h [] full
  -- a prepared *data* message closes the writer the application left open first (repair of F8)
  | .writePrepared t _ dnp fullp => isData t = true → PrevEnvOK s dnp fullp
  | _ => True

/-- WriteMessage's fast path: one final frame from a fresh messageWriter that is never stored -/
theorem good_fast {c : Cfg} {s : W} (m : MW) (extra : Bytes) (hg : Good c s) (ha : AllEnded s.mws)
    (hwe : s.writeErr = none) (hl : m.err = none) (hst : Struct c m) (hft : m.ft ≠ 0)
    (he : extra.length < 2 ^ 40) : Good c (flushFrame s m true extra).2.1 := by
  obtain ⟨o, hI, hH, hL⟩ := hg
  have ho : o = false := hL.ofalse ha hwe
  subst ho
  have hM : MRel c s.writeErr false m :=
    ⟨fun _ => ⟨hst, fun _ => ⟨fun h => absurd h hft, fun h => by cases h⟩⟩, fun h => by rw [hl] at h; cases h⟩
  obtain ⟨⟨⟨o', hI', hM'⟩, hfr, _⟩, _, hend, _⟩ := flushFrame_post m true extra hI hM hl he
  have hended := hend rfl
  refine ⟨o', hI', by rw [hfr.mws, hfr.handles]; exact hH, Or.inr ⟨by rw [hfr.mws]; exact ha, hM'.2 hended⟩⟩

theorem writeMessage_good {c : Cfg} {s : W} (t : Int) (data : Bytes) (dnp : List Bytes) (fullp : Bytes)
    (dn : List Bytes) (full : Bytes) (hg : Good c s) (hd : data.length < 2 ^ 40)
    (hdnp : ∀ x ∈ dnp, x.length < 2 ^ 40) (hdn : ∀ x ∈ dn, x.length < 2 ^ 40)
    (henv : EnvOK s (.writeMessage t data dnp fullp dn full)) :
    Good c (writeMessage s t data dnp fullp dn full).2 := by
  obtain ⟨henv1, henv2⟩ := henv
  unfold writeMessage
  split
  · have hb := beginMessage_good t dnp fullp hg hdnp henv1
    split
    · rename_i e s' heq
      rw [heq] at hb; exact hb.1
    · rename_i m s' heq
      rw [heq] at hb
      obtain ⟨hg', ha', _, hm'⟩ := hb
      obtain ⟨rfl, hwe', ht⟩ := hm' m rfl
      dsimp only at hg' ha' hwe' ⊢
      obtain ⟨o, hI, _, _⟩ := id hg'
      have hcap : s'.cap = c.L - maxFrameHeaderSize := by unfold W.cap; rw [hI.len]
      refine good_fast _ _ hg' ha' hwe' rfl ⟨?_, fun hx => (by cases hx), ?_⟩ ?_ ?_
      · show OpSet t.toNat; unfold OpSet; omega
      · show (data.take (min s'.cap data.length)).length ≤ _
        simp only [List.length_take]; omega
      · show t.toNat ≠ 0; omega
      · simp only [List.length_drop]; omega
  · have hn := nextWriter_good t dnp fullp hg hdnp henv1
    split
    · rename_i e s' heq
      rw [heq] at hn; exact hn
    · rename_i j s' heq
      rw [heq] at hn
      dsimp only at hn
      have hw := hWrite_good j data dn false hn hd hdn
      have henv3 := henv2 j s' heq
      split
      · rename_i heq2
        rw [heq2] at hw; exact hw
      · rename_i heq2
        rw [heq2] at hw henv3
        exact (hClose_good j [] full hw (by simp) henv3).1

theorem writeJSON_good {c : Cfg} {s : W} (enc : Bytes) (dnp : List Bytes) (fullp : Bytes)
    (dn : List Bytes) (full : Bytes) (hg : Good c s) (hd : enc.length < 2 ^ 40)
    (hdnp : ∀ x ∈ dnp, x.length < 2 ^ 40) (hdn : ∀ x ∈ dn, x.length < 2 ^ 40)
    (henv : EnvOK s (.writeJSON enc dnp fullp dn full)) :
    Good c (writeJSON s enc dnp fullp dn full).2 := by
  obtain ⟨henv1, henv2⟩ := henv
  unfold writeJSON
  have hn := nextWriter_good 1 dnp fullp hg hdnp henv1
  split
  · rename_i e s' heq
    rw [heq] at hn; exact hn
  · rename_i j s' heq
    rw [heq] at hn
    dsimp only at hn ⊢
    have hw := hWrite_good j enc dn false hn hd hdn
    exact (hClose_good j [] full hw (by simp) (henv2 j s' heq)).1

theorem MRel.mono {c : Cfg} {we we' : Option WErr} {o : Bool} {m : MW} (h : MRel c we o m)
    (hw : we' = none → we = none) : MRel c we' o m :=
  ⟨fun hl => ⟨(h.1 hl).1, fun hx => (h.1 hl).2 (hw hx)⟩, fun he hx => h.2 he (hw hx)⟩

theorem LiveC.mono {c : Cfg} {mws : List MW} {w : Option Nat} {we we' : Option WErr} {o : Bool}
    (h : LiveC c mws w we o) (hw : we' = none → we = none) : LiveC c mws w we' o := by
  rcases h with ⟨i, m, h1, h2, h3, h4, h5⟩ | ⟨h1, h2⟩
  · exact Or.inl ⟨i, m, h1, h2, h3, h4.mono hw, h5⟩
  · exact Or.inr ⟨h1, fun hx => h2 (hw hx)⟩

theorem connWrite_we (s : W) (ft d : Int) (b0 b1 : Bytes) :
    (connWrite s ft d b0 b1).2.writeErr = none → s.writeErr = none := by
  intro h
  cases hs : s.writeErr with
  | none => rfl
  | some e =>
    rw [connWrite_of_err s ft d b0 b1 e hs] at h
    rw [hs] at h; cases h

/-- `Conn.write` of frames that do not change the fragmentation state -/
theorem good_connWrite {c : Cfg} {s : W} (ft d : Int) (b0 b1 : Bytes) (gs : List Frame) (hg : Good c s)
    (hgs : s.writeErr = none → decodeStream (b0 ++ b1) = some gs ∧ (∀ f ∈ gs, frameOk c.ctx f = true) ∧
      ∀ o, LiveC c s.mws s.writer s.writeErr o → grammar o gs = true ∧ endsInMsg o gs = o) :
    Good c (connWrite s ft d b0 b1).2 := by
  obtain ⟨o, hI, hH, hL⟩ := hg
  have := connWrite_inn ft d b0 b1 gs o hI
    (fun hn => ⟨(hgs hn).1, (hgs hn).2.1, ((hgs hn).2.2 o hL).1, ((hgs hn).2.2 o hL).2⟩)
  obtain ⟨hI', hfr, hwr, _, _⟩ := this
  refine ⟨o, hI', by rw [hfr.mws, hfr.handles]; exact hH, ?_⟩
  rw [hfr.mws, hwr]
  exact hL.mono (connWrite_we s ft d b0 b1)

theorem grammar_ctl (sv o : Bool) (t : Nat) (key : Key) (data : Bytes) (ht : t = 8 ∨ t = 9 ∨ t = 10) :
    grammar o [frameOf sv (t + 128) key data] = true ∧ endsInMsg o [frameOf sv (t + 128) key data] = o := by
  rcases ht with rfl | rfl | rfl <;> cases o <;> simp [grammar, endsInMsg, frameOf, isControlOp]

theorem frameOk_ctl (sv ng : Bool) (t : Nat) (key : Key) (data : Bytes) (ht : t = 8 ∨ t = 9 ∨ t = 10)
    (hd : data.length ≤ 125) : frameOk ⟨!sv, ng⟩ (frameOf sv (t + 128) key data) = true := by
  have := frameOk_frameOf sv ng t true false key data (by unfold OpSet; omega) (fun h => by cases h)
    (fun _ => ⟨rfl, hd⟩)
  exact this

/-- one control frame for this role -/
theorem good_ctl {c : Cfg} {s : W} (ft d : Int) (t : Nat) (key : Key) (data : Bytes) (hg : Good c s)
    (ht : t = 8 ∨ t = 9 ∨ t = 10) (hd : data.length ≤ 125) :
    Good c (connWrite s ft d (encode c.sv (t + 128) key data) []).2 := by
  refine good_connWrite ft d _ [] [frameOf c.sv (t + 128) key data] hg (fun _ => ⟨?_, ?_, ?_⟩)
  · rw [List.append_nil]
    exact decodeStream_encode _ _ _ _ (by omega) (by omega)
  · intro f hf
    rw [List.mem_singleton] at hf
    subst hf
    exact frameOk_ctl c.sv c.ng t key data ht hd
  · intro o _
    exact grammar_ctl c.sv o t key data ht

theorem ctlKey_good {c : Cfg} {s : W} (hg : Good c s) : Good c (ctlKey s).2 := by
  unfold ctlKey
  split
  · exact hg
  · exact hg.congr rfl rfl rfl rfl rfl rfl rfl rfl rfl

theorem writeControl_good {c : Cfg} {s : W} (t : Int) (data : Bytes) (d : Int) (hg : Good c s) :
    Good c (writeControl s t data d).2 := by
  unfold writeControl
  split
  · exact hg
  · rename_i ht
    split
    · exact hg
    · rename_i hlen
      dsimp only
      split
      · exact ctlKey_good hg
      · have hlen' : data.length ≤ 125 := by
          have : maxControlPayload = 125 := by decide
          rw [this] at hlen; omega
        have ht' : t.toNat = 8 ∨ t.toNat = 9 ∨ t.toNat = 10 := by
          simp only [isControl, Gen.CloseMessage, Gen.PingMessage, Gen.PongMessage] at ht
          simp at ht
          omega
        have hsv : s.isServer = c.sv := by obtain ⟨o, hI, _⟩ := hg; exact hI.isv
        rw [WS.WireInv.controlFrame_eq' _ _ _ _ hlen', hsv]
        exact good_ctl _ _ _ _ _ (ctlKey_good hg) ht' hlen'

/-- the state in which `writePreparedImage` calls `Conn.write`: for a data type the writer the
    application left open has been closed (as in `beginMessage`) -/
theorem good_preparedPrev {c : Cfg} {s : W} (t : Int) (dnp : List Bytes) (fullp : Bytes) (hg : Good c s)
    (hdn : isData t = true → ∀ x ∈ dnp, x.length < 2 ^ 40)
    (henv : isData t = true → PrevEnvOK s dnp fullp) :
    Good c (if isData t = true then closePrev s dnp fullp else s) ∧
    (isData t = true → AllEnded (if isData t = true then closePrev s dnp fullp else s).mws) := by
  split
  · rename_i ht
    have := closePrev_good dnp fullp hg (hdn ht) (henv ht)
    exact ⟨this.1, fun _ => this.2.1⟩
  · rename_i ht
    exact ⟨hg, fun h => absurd h ht⟩

/-- `Conn.write` of one complete data message while no messageWriter is open -/
theorem good_dataWrite {c : Cfg} {s : W} (t d : Int) (img : Bytes) (gs : List Frame) (hg : Good c s)
    (hdec : decodeStream img = some gs) (hwf : WellFormed c.ctx gs) (hend : endsInMsg false gs = false)
    (ha : AllEnded s.mws) : Good c (connWrite s t d img []).2 := by
  refine good_connWrite _ _ _ [] gs hg (fun hn => ⟨by rw [List.append_nil]; exact hdec, hwf.1, ?_⟩)
  intro o hL
  have ho : o = false := hL.ofalse ha hn
  subst ho
  exact ⟨hwf.2, hend⟩

/-- a prepared data message may be sent at any time when its type is a data type — the open
    messageWriter, if any, is closed first (repair of F8) —, and otherwise (type / image mismatch,
    impossible through `WritePreparedMessage`) when no messageWriter is open -/
theorem good_preparedData {c : Cfg} {s : W} (t : Int) (img : Bytes) (dnp : List Bytes) (fullp : Bytes)
    (gs : List Frame) (hg : Good c s)
    (hdec : decodeStream img = some gs) (hwf : WellFormed c.ctx gs) (hend : endsInMsg false gs = false)
    (hno : isData t = true ∨ ∀ m ∈ s.mws, m.err.isSome)
    (hdn : isData t = true → ∀ x ∈ dnp, x.length < 2 ^ 40)
    (henv : isData t = true → PrevEnvOK s dnp fullp) :
    Good c (writePreparedImage s t img dnp fullp).2 := by
  unfold writePreparedImage
  dsimp only
  obtain ⟨hg', ha'⟩ := good_preparedPrev t dnp fullp hg hdn henv
  refine good_dataWrite _ _ _ gs hg' hdec hwf hend ?_
  rcases hno with ht | hno
  · exact ha' ht
  · by_cases ht : isData t = true
    · exact ha' ht
    · rw [if_neg ht]
      exact fun j m hm => hno m (List.mem_of_getElem? hm)

theorem good_preparedCtl {c : Cfg} {s : W} (ft : Int) (t : Nat) (key : Key) (data : Bytes)
    (dnp : List Bytes) (fullp : Bytes) (hg : Good c s)
    (ht : t = 8 ∨ t = 9 ∨ t = 10) (hd : data.length ≤ 125)
    (hdn : isData ft = true → ∀ x ∈ dnp, x.length < 2 ^ 40)
    (henv : isData ft = true → PrevEnvOK s dnp fullp) :
    Good c (writePreparedImage s ft (encode c.sv (t + 128) key data) dnp fullp).2 := by
  unfold writePreparedImage
  dsimp only
  exact good_ctl _ _ _ _ _ (good_preparedPrev ft dnp fullp hg hdn henv).1 ht hd

end WS.WFInv
