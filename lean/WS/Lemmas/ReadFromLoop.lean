import WS.Model.Writer
import WS.Lemmas.Flow
/-
  The `messageWriter.ReadFrom` loop (`readFromLoop`) on a healthy connection, for a source that ends
  with io.EOF: one law for `Src.read`, a generic loop lemma over an abstract invariant that is
  preserved by the non-final flush of a full buffer and by appending a chunk that fits, and its two
  instances (plain success / the `MidMW` invariant of the content theorems).
-/
namespace WS.ReadFromLoop
open WS WS.Flow

/-! ### one Read of the scripted source -/

theorem size_cons (c : Bytes) (rest : List Bytes) (t : Option Nat) (b : Bool) :
    Src.size { chunks := c :: rest, term := t, together := b } =
      c.length + 1 + Src.size { chunks := rest, term := t, together := b } := by
  simp [Src.size]

/-- a Read into a non-empty room of a source whose terminal is io.EOF: either it reports EOF and has
    handed out everything that was left, or it reports no error, the source got smaller, and what it
    handed out followed by what is left is what was there before -/
theorem read_spec (r : Src) (room : Nat) (hroom : 0 < room) (hr : r.term = none) :
    (r.read room).1.length ≤ room ∧
    (((r.read room).2.1 = some none ∧ (r.read room).1 = r.chunks.flatten) ∨
     ((r.read room).2.1 = none ∧ (r.read room).2.2.term = none ∧ (r.read room).2.2.size < r.size ∧
      (r.read room).1 ++ (r.read room).2.2.chunks.flatten = r.chunks.flatten)) := by
  obtain ⟨chunks, term, tog⟩ := r
  dsimp only at hr
  subst hr
  cases chunks with
  | nil =>
    refine ⟨by simp [Src.read], Or.inl ⟨rfl, rfl⟩⟩
  | cons c rest =>
    unfold Src.read
    dsimp only
    have hlen : (c.take (min room c.length)).length ≤ room := by
      simp only [List.length_take]; omega
    split
    · rename_i hemp
      have hdrop : c.drop (min room c.length) = [] := by simpa using hemp
      have hge : c.length ≤ min room c.length := by
        have := congrArg List.length hdrop
        simp only [List.length_drop, List.length_nil] at this
        omega
      have htake : c.take (min room c.length) = c := List.take_of_length_le hge
      split
      · rename_i hboth
        simp only [Bool.and_eq_true, List.isEmpty_iff] at hboth
        obtain ⟨hrest, _⟩ := hboth
        subst hrest
        refine ⟨hlen, Or.inl ⟨rfl, ?_⟩⟩
        dsimp only
        rw [htake]; simp
      · refine ⟨hlen, Or.inr ⟨rfl, rfl, ?_, ?_⟩⟩
        · dsimp only
          rw [size_cons]; omega
        · dsimp only
          rw [htake]; simp
    · rename_i hemp
      have hne : c.drop (min room c.length) ≠ [] := by simpa using hemp
      have hlt : min room c.length < c.length := by
        have : (c.drop (min room c.length)).length ≠ 0 := by
          intro h0; exact hne (List.length_eq_zero_iff.mp h0)
        simp only [List.length_drop] at this
        omega
      refine ⟨hlen, Or.inr ⟨rfl, rfl, ?_, ?_⟩⟩
      · dsimp only
        rw [size_cons, size_cons]
        simp only [List.length_drop]
        omega
      · dsimp only
        simp only [List.flatten_cons]
        rw [← List.append_assoc, List.take_append_drop]

/-! ### the loop over an abstract invariant -/

/-- what the loop needs of an invariant `P s m acc` (`acc` = bytes accepted so far) -/
structure LoopInv (P : W → MW → Bytes → Prop) : Prop where
  room : ∀ s m acc, P s m acc → 0 < s.cap ∧ m.buf.length ≤ s.cap
  flush : ∀ s m acc, P s m acc →
    (flushFrame s m false []).1 = none ∧ (flushFrame s m false []).2.2.buf = [] ∧
    P (flushFrame s m false []).2.1 (flushFrame s m false []).2.2 acc
  extend : ∀ s m acc (chunk : Bytes), P s m acc → chunk.length ≤ s.cap - m.buf.length →
    P s { m with buf := m.buf ++ chunk } (acc ++ chunk)

theorem readFromPrep_inv {P} (hP : LoopInv P) {s m acc} (h : P s m acc) :
    (readFromPrep s m).1 = none ∧ (readFromPrep s m).2.2.buf.length < (readFromPrep s m).2.1.cap ∧
    P (readFromPrep s m).2.1 (readFromPrep s m).2.2 acc := by
  unfold readFromPrep
  split
  · have hf := hP.flush s m acc h
    refine ⟨hf.1, ?_, hf.2.2⟩
    rw [hf.2.1]
    exact (hP.room _ _ _ hf.2.2).1
  · rename_i hne
    have hne' : m.buf.length ≠ s.cap := by simpa using hne
    have := (hP.room s m acc h).2
    exact ⟨rfl, by dsimp only; omega, h⟩

/-- with `r.size + 1` fuel the loop reaches io.EOF: it reports every byte of the source and no
    error (in particular never `.hang`), and the invariant holds with the bytes appended -/
theorem readFromLoop_inv {P} (hP : LoopInv P) (fuel : Nat) {s m acc} (r : Src) (nn : Nat)
    (h : P s m acc) (hr : r.term = none) (hfuel : r.size + 1 ≤ fuel) :
    (readFromLoop fuel s m r nn).1 = (nn + r.chunks.flatten.length, none) ∧
    P (readFromLoop fuel s m r nn).2.1 (readFromLoop fuel s m r nn).2.2 (acc ++ r.chunks.flatten) := by
  induction fuel generalizing s m acc r nn with
  | zero => omega
  | succ fuel ih =>
    unfold readFromLoop
    have hpre := readFromPrep_inv hP h
    split
    · rename_i e s' m' heq
      rw [heq] at hpre
      exact absurd hpre.1 (by simp)
    · rename_i s' m' heq
      rw [heq] at hpre
      obtain ⟨_, hlt, hp'⟩ := hpre
      dsimp only at hlt hp'
      have hrd := read_spec r (s'.cap - m'.buf.length) (by omega) hr
      split
      · rename_i bs r' heq2
        rw [heq2] at hrd
        obtain ⟨hlen, hc | hc⟩ := hrd
        · dsimp only at hlen hc
          obtain ⟨_, hbs⟩ := hc
          subst hbs
          exact ⟨rfl, hP.extend _ _ _ _ hp' hlen⟩
        · exact absurd hc.1 (by simp)
      · rename_i bs id r' heq2
        rw [heq2] at hrd
        obtain ⟨_, hc | hc⟩ := hrd
        · exact absurd hc.1 (by simp)
        · exact absurd hc.1 (by simp)
      · rename_i bs r' heq2
        rw [heq2] at hrd
        obtain ⟨hlen, hc | hc⟩ := hrd
        · exact absurd hc.1 (by simp)
        · dsimp only at hlen hc
          obtain ⟨_, hterm, hsz, hcat⟩ := hc
          have hext := hP.extend _ _ _ _ hp' hlen
          have := ih r' (nn + bs.length) hext hterm (by omega)
          rw [List.append_assoc, hcat] at this
          refine ⟨?_, this.2⟩
          rw [this.1, ← hcat, List.length_append, Nat.add_assoc]

/-! ### instance 1: plain success -/

/-- healthy, fault-free connection; a buffer that fits; the frame in progress is not a control frame -/
def Plain (s : W) (m : MW) (_acc : Bytes) : Prop :=
  s.writeErr = none ∧ s.faults = [] ∧ 0 < s.cap ∧ m.buf.length ≤ s.cap ∧ isControl m.ft = false

theorem ne8_of_not_control (n : Nat) (h : isControl (n : Int) = false) : ((n : Int) == 8) = false := by
  simp only [isControl, Gen.CloseMessage, Bool.or_eq_false_iff] at h
  exact h.1.1

theorem frameWrite_succeeds (s : W) (m : MW) (final : Bool) (he : s.writeErr = none) (hf : s.faults = [])
    (hft : isControl m.ft = false) :
    (frameWrite s m final []).1 = none ∧ Keep s (frameWrite s m final []).2 := by
  unfold frameWrite
  dsimp only
  split
  · have h := connWrite_ok s m.ft s.deadline
      (header true (m.ft + (if final then Gen.finalBit.toNat else 0) + (if m.compress then Gen.rsv1Bit.toNat else 0))
        (m.buf.length + ([] : Bytes).length) default ++ m.buf) [] he hf (ne8_of_not_control _ hft)
    exact ⟨h.1, h.2.1⟩
  · simp only [List.isEmpty_nil, Bool.not_true, Bool.false_eq_true, if_false]
    have h := connWrite_ok (newKey s).2 m.ft (newKey s).2.deadline
      (header false (m.ft + (if final then Gen.finalBit.toNat else 0) + (if m.compress then Gen.rsv1Bit.toNat else 0))
        (m.buf.length + ([] : Bytes).length) (newKey s).1 ++ maskFrom (newKey s).1 0 m.buf) [] he hf
        (ne8_of_not_control _ hft)
    exact ⟨h.1, (Keep.newKey s).trans h.2.1⟩

theorem flush_plain (s : W) (m : MW) (he : s.writeErr = none) (hf : s.faults = [])
    (hft : isControl m.ft = false) :
    (flushFrame s m false []).1 = none ∧ Keep s (flushFrame s m false []).2.1 ∧
    (flushFrame s m false []).2.2.buf = [] ∧ (flushFrame s m false []).2.2.ft = 0 := by
  have hfw := frameWrite_succeeds s m false he hf hft
  unfold flushFrame
  rw [hft]
  simp only [Bool.false_and, Bool.false_eq_true, if_false]
  split
  · rename_i e s' heq
    rw [heq] at hfw
    exact absurd hfw.1 (by simp)
  · rename_i s' heq
    rw [heq] at hfw
    exact ⟨rfl, hfw.2, rfl, rfl⟩

theorem plain_loopInv : LoopInv Plain where
  room := fun s m acc h => ⟨h.2.2.1, h.2.2.2.1⟩
  flush := fun s m acc h => by
    obtain ⟨he, hf, hcap, hb, hft⟩ := h
    have hfl := flush_plain s m he hf hft
    refine ⟨hfl.1, hfl.2.2.1, hfl.2.1.writeErr.trans he, hfl.2.1.faults.trans hf, ?_, ?_, ?_⟩
    · rw [hfl.2.1.cap]; exact hcap
    · rw [hfl.2.2.1]; simp
    · rw [hfl.2.2.2]; decide
  extend := fun s m acc chunk h hc => by
    obtain ⟨he, hf, hcap, hb, hft⟩ := h
    refine ⟨he, hf, hcap, ?_, hft⟩
    simp only [List.length_append]; omega

/-! ### instance 2: the content invariant -/

/-- `MidMW` relative to a start state `s0` -/
def MidFrom (s0 : W) (t : Nat) (M : List Spec.Msg) (C : List (Nat × Bytes)) (s : W) (m : MW) (acc : Bytes) : Prop :=
  Keep s0 s ∧ s.writer = s0.writer ∧ MidMW s m t M C acc

theorem mid_loopInv (s0 : W) (t : Nat) (ht : t = 1 ∨ t = 2) (M : List Spec.Msg) (C : List (Nat × Bytes)) :
    LoopInv (MidFrom s0 t M C) where
  room := fun s m acc h => ⟨h.2.2.cap_lt.2, h.2.2.buflen⟩
  flush := fun s m acc h => by
    have hf := flush_mid h.2.2 ht [] (by simp) (Or.inr rfl)
    rw [List.append_nil] at hf
    exact ⟨hf.1, hf.2.2.2.1, h.1.trans hf.2.1, hf.2.2.1.trans h.2.1, hf.2.2.2.2⟩
  extend := fun s m acc chunk h hc => ⟨h.1, h.2.1, h.2.2.extend chunk hc⟩

/-- messageWriter.ReadFrom of a source ending in io.EOF while a data message is being written -/
theorem mwReadFrom_mid {s m t M C acc} (r : Src) (h : MidMW s m t M C acc) (ht : t = 1 ∨ t = 2)
    (hr : r.term = none) :
    (mwReadFrom s m r).1 = (r.chunks.flatten.length, none) ∧ Keep s (mwReadFrom s m r).2.1 ∧
    (mwReadFrom s m r).2.1.writer = s.writer ∧
    MidMW (mwReadFrom s m r).2.1 (mwReadFrom s m r).2.2 t M C (acc ++ r.chunks.flatten) := by
  unfold mwReadFrom
  rw [h.err]
  dsimp only
  have := readFromLoop_inv (mid_loopInv s t ht M C) (r.size + 2) r 0 ⟨Keep.refl s, rfl, h⟩ hr (by omega)
  rw [Nat.zero_add] at this
  exact ⟨this.1, this.2.1, this.2.2.1, this.2.2.2⟩

end WS.ReadFromLoop
