import WS.Lemmas.PairRoundtrip
import WS.Lemmas.KeyFlow
/-
  "exactly once, in send order", for any number of messages, as one statement (C01 / C03):
  sequences of messages, by induction over the list, from the one-message theorems.
-/
namespace WS.Sequences
open WS WS.Codec WS.ReaderDecodes

/-- read `n` messages one after the other: NextReader, then read to the end of the message with
    reads of size `k`; stops at the first call that does not deliver a complete message -/
def readMsgs (k : Nat) : Nat → Conn → List (Nat × Bytes) × Conn
  | 0, c => ([], c)
  | n + 1, c =>
    match nextReader c with
    | (.msg t rid _, c1) =>
      match readAll c1 rid k with
      | ((d, none), c2) => (((t, d) :: (readMsgs k n c2).1), (readMsgs k n c2).2)
      | (_, c2) => ([], c2)
    | (_, c1) => ([], c1)

/-- WriteMessage for each message of the list, in order -/
def writeMsgs (s : W) : List (Nat × Bytes) → W
  | [] => s
  | (t, d) :: ms => writeMsgs (writeMessage s t d).2 ms

/-! ### helper lemmas -/
section Helpers

/-- `read_message`, additionally recording what the reader never changes (role, limit, the
    transport's size / terminal error / `together` flag) -/
theorem read_message_keep (c : Conn) (hc : ReaderIdle c) (t : Nat) (ht : t = 1 ∨ t = 2) (fs : List PFrame)
    (hs : MsgShape t fs) (rest : Bytes)
    (hp : c.r.buf.pending = encAll c.r.isServer fs ++ rest)
    (hend : c.r.buf.t.together = false ∨ rest ≠ [])
    (hsz : (dataPayload fs).length < 2 ^ 62)
    (hlim : c.r.limit ≤ 0 ∨ ((dataPayload fs).length : Int) ≤ c.r.limit)
    (k : Nat) (hk : 0 < k) :
    ∃ c1 rid, nextReader c = (.msg t rid false, c1) ∧
      ∃ c2, readAll c1 rid k = ((dataPayload fs, none), c2) ∧ ReaderIdle c2 ∧ c2.r.buf.pending = rest ∧
        c2.r.hlog = c.r.hlog ++ ctlEvents fs ∧ Keep c c2 := by
  have hst := idle_St c hc fs rest hp hend
  obtain ⟨c1, rid, w1, m1, b1, b2, b3, b4, b5, b6, b7⟩ :=
    nextReader_spec c.r.isServer t ht rest c [] [] fs hst hs hend (by simp; omega) (by simpa using hlim)
  have hf : c1.r.buf.pending.length < c1.fuel + 2 := by
    have := b2.env.fuel
    unfold Conn.fuel; omega
  obtain ⟨c2, d1, d2, d3, d4, d5⟩ :=
    readAllLoop_spec c.r.isServer rid k hk rest (c1.fuel + 2) c1 w1 m1 [] b2 b4 b5 hf
  obtain ⟨i1, i2⟩ := d2.idle d3
  refine ⟨c1, rid, b1, c2, ?_, i1, i2, ?_, b3.trans d4⟩
  · unfold readAll
    rw [d1, b6]
    simp
  · rw [d5]
    have b7' : c1.r.hlog ++ ctlEvents m1 = c.r.hlog ++ ctlEvents fs := by simpa using b7
    exact b7'

theorem readMsgs_succ (k n : Nat) (c c1 c2 : Conn) (t rid : Nat) (z : Bool) (d : Bytes)
    (h1 : nextReader c = (.msg t rid z, c1)) (h2 : readAll c1 rid k = ((d, none), c2)) :
    readMsgs k (n + 1) c = ((t, d) :: (readMsgs k n c2).1, (readMsgs k n c2).2) := by
  rw [readMsgs, h1]
  dsimp only
  rw [h2]

/-- `read_messages` with the invariance facts needed by the induction -/
theorem read_messages_keep (k : Nat) (hk : 0 < k) (rest : Bytes) (msgs : List (Nat × List PFrame)) :
    ∀ (c : Conn), ReaderIdle c →
      (∀ m ∈ msgs, (m.1 = 1 ∨ m.1 = 2) ∧ MsgShape m.1 m.2 ∧ (dataPayload m.2).length < 2 ^ 62) →
      c.r.buf.pending = (msgs.map (fun m => encAll c.r.isServer m.2)).flatten ++ rest →
      (c.r.buf.t.together = false ∨ rest ≠ []) → c.r.limit ≤ 0 →
      ∃ c', readMsgs k msgs.length c = (msgs.map (fun m => (m.1, dataPayload m.2)), c') ∧
        ReaderIdle c' ∧ c'.r.buf.pending = rest ∧
        c'.r.hlog = c.r.hlog ++ (msgs.map (fun m => ctlEvents m.2)).flatten ∧ Keep c c' := by
  induction msgs with
  | nil =>
    intro c hc _ hp _ _
    exact ⟨c, rfl, hc, by simpa using hp, by simp, Keep.refl c⟩
  | cons m ms ih =>
    intro c hc hm hp hend hlim
    obtain ⟨ht, hs, hsz⟩ := hm m (by simp)
    have hp1 : c.r.buf.pending =
        encAll c.r.isServer m.2 ++ ((ms.map (fun m => encAll c.r.isServer m.2)).flatten ++ rest) := by
      rw [hp]; simp
    have hend1 : c.r.buf.t.together = false ∨
        (ms.map (fun m => encAll c.r.isServer m.2)).flatten ++ rest ≠ [] := by
      rcases hend with h | h
      · exact Or.inl h
      · right; intro hcn; exact h (List.append_eq_nil_iff.mp hcn).2
    obtain ⟨c1, rid, h1, c2, h2, h3, h4, h5, h6⟩ :=
      read_message_keep c hc m.1 ht m.2 hs _ hp1 hend1 hsz (Or.inl hlim) k hk
    obtain ⟨c', e1, e2, e3, e4, e5⟩ := ih c2 h3 (fun x hx => hm x (by simp [hx]))
      (by rw [h4, h6.isServer]) (by rw [h6.same.together]; exact hend) (by rw [h6.limit]; exact hlim)
    refine ⟨c', ?_, e2, e3, ?_, h6.trans e5⟩
    · rw [List.length_cons, readMsgs_succ k ms.length c c1 c2 m.1 rid false _ h1 h2, e1]
      rfl
    · rw [e4, h5]
      simp

/-- WriteMessage of a data message keeps the role -/
theorem writeMessage_isServer (s : W) (hi : Content.Idle s) (t : Nat) (ht : t = 1 ∨ t = 2) (data : Bytes)
    (hd : data.length < 2 ^ 40) : (writeMessage s t data).2.isServer = s.isServer := by
  obtain ⟨n, _, hk⟩ := KeyFlow.writeMessage_k s hi t ht data hd
  exact hk.hsv

/-- the frames a sequence of WriteMessage calls appends, as reader-side `PFrame`s -/
theorem writeMsgs_frames (msgs : List (Nat × Bytes)) :
    ∀ (s : W), Content.Idle s → (∀ m ∈ msgs, (m.1 = 1 ∨ m.1 = 2) ∧ m.2.length < 2 ^ 40) →
      ∃ fss : List (Nat × List PFrame),
        fss.map (fun m => (m.1, dataPayload m.2)) = msgs ∧
        (∀ m ∈ fss, (m.1 = 1 ∨ m.1 = 2) ∧ MsgShape m.1 m.2 ∧ (dataPayload m.2).length < 2 ^ 62) ∧
        (fss.map (fun m => ctlEvents m.2)).flatten = [] ∧
        (writeMsgs s msgs).wire = s.wire ++ (fss.map (fun m => encAll (!s.isServer) m.2)).flatten ∧
        Content.Idle (writeMsgs s msgs) := by
  induction msgs with
  | nil =>
    intro s hi _
    exact ⟨[], rfl, by simp, rfl, by simp [writeMsgs], hi⟩
  | cons m ms ih =>
    intro s hi hm
    obtain ⟨t, d⟩ := m
    obtain ⟨ht, hd⟩ := hm (t, d) (by simp)
    dsimp only at ht hd
    obtain ⟨fs, f1, f2, f3, f4⟩ := PairRoundtrip.writeMessage_frames s hi t ht d hd
    have hi1 := (Content.writeMessage_roundtrip s hi t ht d hd).2.1
    have hsv := writeMessage_isServer s hi t ht d hd
    obtain ⟨fss, g1, g2, g3, g4, g5⟩ := ih (writeMessage s t d).2 hi1 (fun x hx => hm x (by simp [hx]))
    refine ⟨(t, fs) :: fss, ?_, ?_, ?_, ?_, ?_⟩
    · simp only [List.map_cons, f2, g1]
    · intro x hx
      rcases List.mem_cons.mp hx with hx | hx
      · subst hx
        exact ⟨ht, f1, by dsimp only; rw [f2]; omega⟩
      · exact g2 x hx
    · simp only [List.map_cons, List.flatten_cons, f3, g3, List.append_nil]
    · show (writeMsgs (writeMessage s t d).2 ms).wire = _
      rw [g4, f4, hsv]
      simp
    · exact g5

end Helpers

/-- C03, any number of messages: from an idle reader, a stream consisting of ANY number of
    conformant messages (each with any fragmentation, control frames between fragments) followed
    by `rest` is read as exactly those messages, in order, each exactly once; the handlers saw the
    interleaved control frames in wire order; the reader is idle again with `rest` untouched -/
theorem read_messages (c : Conn) (hc : ReaderIdle c) (msgs : List (Nat × List PFrame))
    (hm : ∀ m ∈ msgs, (m.1 = 1 ∨ m.1 = 2) ∧ MsgShape m.1 m.2 ∧ (dataPayload m.2).length < 2 ^ 62)
    (rest : Bytes)
    (hp : c.r.buf.pending = (msgs.map (fun m => encAll c.r.isServer m.2)).flatten ++ rest)
    (hend : c.r.buf.t.together = false ∨ rest ≠ []) (hlim : c.r.limit ≤ 0) (k : Nat) (hk : 0 < k) :
    ∃ c', readMsgs k msgs.length c = (msgs.map (fun m => (m.1, dataPayload m.2)), c') ∧
      ReaderIdle c' ∧ c'.r.buf.pending = rest ∧
      c'.r.hlog = c.r.hlog ++ (msgs.map (fun m => ctlEvents m.2)).flatten := by
  obtain ⟨c', h1, h2, h3, h4, _⟩ := read_messages_keep k hk rest msgs c hc hm hp hend hlim
  exact ⟨c', h1, h2, h3, h4⟩

/-- C01, any number of messages: whatever a sequence of WriteMessage calls on one connection puts
    on the wire, a connection of the opposite role reads as exactly that sequence of (type, payload)
    pairs — each exactly once, in send order — with reads of any size, through any bufio size and
    transport chunking; no handler is invoked and the following bytes are untouched -/
theorem round_trip_sequence (s : W) (hi : Content.Idle s) (msgs : List (Nat × Bytes))
    (hm : ∀ m ∈ msgs, (m.1 = 1 ∨ m.1 = 2) ∧ m.2.length < 2 ^ 40)
    (c : Conn) (hc : ReaderIdle c) (hrole : c.r.isServer = !s.isServer) (rest : Bytes)
    (hp : c.r.buf.pending = (writeMsgs s msgs).wire.drop s.wire.length ++ rest)
    (hend : c.r.buf.t.together = false ∨ rest ≠ []) (hlim : c.r.limit ≤ 0) (k : Nat) (hk : 0 < k) :
    ∃ c', readMsgs k msgs.length c = (msgs, c') ∧ ReaderIdle c' ∧ c'.r.buf.pending = rest ∧
      c'.r.hlog = c.r.hlog ∧ Content.Idle (writeMsgs s msgs) := by
  obtain ⟨fss, g1, g2, g3, g4, g5⟩ := writeMsgs_frames msgs s hi hm
  have hp' : c.r.buf.pending = (fss.map (fun m => encAll c.r.isServer m.2)).flatten ++ rest := by
    rw [hp, g4, List.drop_left, hrole]
  obtain ⟨c', h1, h2, h3, h4⟩ := read_messages c hc fss g2 rest hp' hend hlim k hk
  have hlen : msgs.length = fss.length := by rw [← g1, List.length_map]
  refine ⟨c', ?_, h2, h3, ?_, g5⟩
  · rw [hlen, h1, g1]
  · rw [h4, g3, List.append_nil]

/-! ### data messages and control frames interleaved -/

/-- one call of a writer program: WriteMessage of a data message, or WriteControl (ping = 9 /
    pong = 10) with a deadline that is not in the past -/
inductive Item
  | data (t : Nat) (d : Bytes)
  | ctl (t : Nat) (d : Bytes) (deadline : Nat)

def Item.ok : Item → Prop
  | .data t d => (t = 1 ∨ t = 2) ∧ d.length < 2 ^ 40
  | .ctl t d _ => (t = 9 ∨ t = 10) ∧ d.length ≤ 125

/-- the calls of the program, in order, on one connection -/
def writeItems (s : W) : List Item → W
  | [] => s
  | .data t d :: is => writeItems (writeMessage s t d).2 is
  | .ctl t d dl :: is => writeItems (writeControl s t d dl).2 is

/-- the data messages of the program, in send order -/
def dataOf : List Item → List (Nat × Bytes)
  | [] => []
  | .data t d :: is => (t, d) :: dataOf is
  | .ctl _ _ _ :: is => dataOf is

/-- the handler invocations the control frames of the program must cause, in send order -/
def ctlOf : List Item → List REv
  | [] => []
  | .data _ _ :: is => ctlOf is
  | .ctl t d _ :: is => (if t == 9 then REv.ping d else REv.pong d) :: ctlOf is

section Helpers2
open WS.AdvFrame

/-- the wire image of a program as reader-side messages: every control frame is attached to the
    data message that follows it -/
def Framed (s : W) (items : List Item) : Prop :=
  ∃ fss : List (Nat × List PFrame),
    fss.map (fun m => (m.1, dataPayload m.2)) = dataOf items ∧
    (∀ m ∈ fss, (m.1 = 1 ∨ m.1 = 2) ∧ MsgShape m.1 m.2 ∧ (dataPayload m.2).length < 2 ^ 62) ∧
    (fss.map (fun m => ctlEvents m.2)).flatten = ctlOf items ∧
    (writeItems s items).wire = s.wire ++ (fss.map (fun m => encAll (!s.isServer) m.2)).flatten ∧
    Content.Idle (writeItems s items)

theorem framed_nil (s : W) (hi : Content.Idle s) : Framed s [] :=
  ⟨[], rfl, by simp, rfl, by simp [writeItems], hi⟩

theorem framed_data (s : W) (hi : Content.Idle s) (t : Nat) (d : Bytes) (ht : t = 1 ∨ t = 2)
    (hd : d.length < 2 ^ 40) (is : List Item) (h : Framed (writeMessage s t d).2 is) :
    Content.Idle (writeMessage s t d).2 ∧ Framed s (.data t d :: is) := by
  obtain ⟨fs, f1, f2, f3, f4⟩ := PairRoundtrip.writeMessage_frames s hi t ht d hd
  have hi1 := (Content.writeMessage_roundtrip s hi t ht d hd).2.1
  have hsv := writeMessage_isServer s hi t ht d hd
  obtain ⟨fss, g1, g2, g3, g4, g5⟩ := h
  refine ⟨hi1, (t, fs) :: fss, ?_, ?_, ?_, ?_, ?_⟩
  · simp only [List.map_cons, f2, g1, dataOf]
  · intro x hx
    rcases List.mem_cons.mp hx with hx | hx
    · subst hx
      exact ⟨ht, f1, by dsimp only; rw [f2]; omega⟩
    · exact g2 x hx
  · simp only [List.map_cons, List.flatten_cons, f3, g3, List.nil_append, ctlOf]
  · show (writeItems (writeMessage s t d).2 is).wire = _
    rw [g4, f4, hsv]
    simp
  · exact g5

/-- what WriteControl (ping / pong) does to an idle connection -/
theorem writeControl_frame (s : W) (hi : Content.Idle s) (t : Nat) (ht : t = 9 ∨ t = 10) (d : Bytes)
    (hd : d.length ≤ 125) (dl : Nat) :
    Content.Idle (writeControl s t d dl).2 ∧ (writeControl s t d dl).2.isServer = s.isServer ∧
    ∃ key, (writeControl s t d dl).2.wire = s.wire ++ PFrame.enc (!s.isServer) ⟨t, true, key, d⟩ := by
  have hi1 := (Content.writeControl_roundtrip s hi t ht d hd dl).2.1
  have hk := (Flow.writeControl_ok s t ht d hd dl hi.healthy hi.noFaults hi.wireSt).2.1
  refine ⟨hi1, hk.isServer, (ctlKey s).1, ?_⟩
  have hctl : isControl (t : Int) = true := by
    rcases ht with rfl | rfl <;> decide
  have hmax : ¬ d.length > maxControlPayload := by
    have : maxControlPayload = 125 := by decide
    rw [this]; omega
  have hdn : ¬ ((dl : Int) < 0) := by omega
  have hne : ((t : Int) == 8) = false := by
    rcases ht with rfl | rfl <;> decide
  have hkk := Flow.Keep.ctlKey s
  have hkw := Flow.ctlKey_wire s
  have h := Flow.connWrite_ok (ctlKey s).2 t dl (controlFrame s.isServer t d (ctlKey s).1) []
    (hkk.writeErr.trans hi.healthy) (hkk.faults.trans hi.noFaults) hne
  rw [PairRoundtrip.enc_mk]
  unfold writeControl
  rw [hctl]
  simp only [Bool.not_true, Bool.false_eq_true, if_false, hmax, hdn, Int.toNat_natCast]
  rw [h.2.2.1, hkw.1, List.append_nil, WireInv.controlFrame_eq' _ _ _ _ hd]
  rfl

theorem framed_ctl (s : W) (hi : Content.Idle s) (t : Nat) (d : Bytes) (dl : Nat) (ht : t = 9 ∨ t = 10)
    (hd : d.length ≤ 125) (is : List Item) (h : Framed (writeControl s t d dl).2 is)
    (hne : dataOf is ≠ []) : Framed s (.ctl t d dl :: is) := by
  obtain ⟨hi1, hsv, key, hw⟩ := writeControl_frame s hi t ht d hd dl
  obtain ⟨fss, g1, g2, g3, g4, g5⟩ := h
  cases fss with
  | nil => exact absurd g1.symm hne
  | cons m fss =>
    obtain ⟨t0, fs0⟩ := m
    have hok : (⟨t, true, key, d⟩ : PFrame).ctlOk := ⟨ht, rfl, hd⟩
    have hc : (⟨t, true, key, d⟩ : PFrame).isCtl = true := isCtl_of_ctlOk hok
    obtain ⟨m1, m2, m3⟩ := g2 (t0, fs0) (by simp)
    refine ⟨(t0, ⟨t, true, key, d⟩ :: fs0) :: fss, ?_, ?_, ?_, ?_, g5⟩
    · simp only [List.map_cons, dataPayload_ctl _ hc, dataOf]
      simpa using g1
    · intro x hx
      rcases List.mem_cons.mp hx with hx | hx
      · subst hx
        exact ⟨m1, MsgShape.ctl _ _ hok m2, by dsimp only; rw [dataPayload_ctl _ hc]; exact m3⟩
      · exact g2 x (by simp [hx])
    · simp only [List.map_cons, List.flatten_cons, ctlEvents_ctl _ hc, ctlOf, List.cons_append]
      congr 1
    · show (writeItems (writeControl s t d dl).2 is).wire = _
      rw [g4, hw, hsv]
      simp

theorem dataOf_snoc_ne (is : List Item) (t : Nat) (d : Bytes) : dataOf (is ++ [.data t d]) ≠ [] := by
  induction is with
  | nil => simp [dataOf]
  | cons it is ih =>
    cases it with
    | data t' d' => simp [dataOf]
    | ctl t' d' dl => simpa [dataOf] using ih

/-- a program that ends with a data message -/
theorem framed_snoc (items : List Item) (t : Nat) (d : Bytes) (ht : t = 1 ∨ t = 2) (hd : d.length < 2 ^ 40) :
    ∀ (s : W), Content.Idle s → (∀ it ∈ items, it.ok) → Framed s (items ++ [.data t d]) := by
  induction items with
  | nil =>
    intro s hi _
    have hi1 := (Content.writeMessage_roundtrip s hi t ht d hd).2.1
    exact (framed_data s hi t d ht hd [] (framed_nil _ hi1)).2
  | cons it is ih =>
    intro s hi hok
    have hit := hok it (by simp)
    have hrest : ∀ x ∈ is, x.ok := fun x hx => hok x (by simp [hx])
    cases it with
    | data t' d' =>
      have hi1 := (Content.writeMessage_roundtrip s hi t' hit.1 d' hit.2).2.1
      exact (framed_data s hi t' d' hit.1 hit.2 _ (ih _ hi1 hrest)).2
    | ctl t' d' dl =>
      have hi1 := (writeControl_frame s hi t' hit.1 d' hit.2 dl).1
      exact framed_ctl s hi t' d' dl hit.1 hit.2 _ (ih _ hi1 hrest) (dataOf_snoc_ne is t d)

end Helpers2

/-- C01 with control frames, any number of calls: a program of WriteMessage (text / binary) and
    WriteControl (ping / pong, at most 125 bytes) calls on one connection, ending with a data message
    (control frames after the last data message are not consumed before a further NextReader call), is
    read by a connection of the opposite role as exactly the data messages, each exactly once, in send
    order, and the reader's handlers are invoked for exactly the control frames, in send order (the
    default ping handler's pong goes to the reader connection's own writer, whatever its state). -/
theorem round_trip_sequence_with_controls (s : W) (hi : Content.Idle s) (items : List Item)
    (hok : ∀ it ∈ items, it.ok)
    (hlast : items = [] ∨ ∃ pre t d, items = pre ++ [.data t d])
    (c : Conn) (hc : ReaderIdle c) (hrole : c.r.isServer = !s.isServer) (rest : Bytes)
    (hp : c.r.buf.pending = (writeItems s items).wire.drop s.wire.length ++ rest)
    (hend : c.r.buf.t.together = false ∨ rest ≠ []) (hlim : c.r.limit ≤ 0) (k : Nat) (hk : 0 < k) :
    ∃ c', readMsgs k (dataOf items).length c = (dataOf items, c') ∧ ReaderIdle c' ∧
      c'.r.buf.pending = rest ∧ c'.r.hlog = c.r.hlog ++ ctlOf items ∧
      Content.Idle (writeItems s items) := by
  have hfr : Framed s items := by
    rcases hlast with h | ⟨pre, t, d, h⟩
    · subst h; exact framed_nil s hi
    · subst h
      have hlastok := hok (.data t d) (by simp)
      exact framed_snoc pre t d hlastok.1 hlastok.2 s hi (fun x hx => hok x (by simp [hx]))
  obtain ⟨fss, g1, g2, g3, g4, g5⟩ := hfr
  have hp' : c.r.buf.pending = (fss.map (fun m => encAll c.r.isServer m.2)).flatten ++ rest := by
    rw [hp, g4, List.drop_left, hrole]
  obtain ⟨c', h1, h2, h3, h4⟩ := read_messages c hc fss g2 rest hp' hend hlim k hk
  have hlen : (dataOf items).length = fss.length := by rw [← g1, List.length_map]
  refine ⟨c', ?_, h2, h3, ?_, g5⟩
  · rw [hlen, h1, g1]
  · rw [h4, g3]

end WS.Sequences
