import WS.Lemmas.CutProgram
import WS.Lemmas.ReaderLift
import WS.Lemmas.NegoKeep
/-
  C04 for EVERY read program: a peer stream of whole conformant messages followed by a frame whose
  header violates RFC 6455 framing (any of the violations the property lists) and then ANY bytes.
  Whatever sequence of NextReader / Read(k) calls the application makes, with any read limit: the
  messages reported complete form a sublist of the whole messages, in order (nothing from the violating
  frame or after it is ever delivered as a message), and the handlers have been called only for control
  frames of the whole messages, in wire order (nothing from the violating frame or after it reaches a
  handler).
-/
namespace WS.ViolProgram
open WS WS.Codec WS.HdrLogic WS.ReaderDecodes WS.ReadProgram WS.CutProgram

section Helpers
open WS.LimitHistoryAux WS.CutProgramAux WS.RobustAux WS.NegoKeep WS.AdvFrame WS.SrcLaw WS.ReaderRejects

theorem nextReaderLoop_ng (fuel : Nat) : ∀ c : Conn, (nextReaderLoop fuel c).2.r.nego = c.r.nego := by
  induction fuel with
  | zero => intro c; rfl
  | succ n ih =>
    intro c
    unfold nextReaderLoop
    split
    · rfl
    · have h1 := advanceFrame_ng c
      generalize advanceFrame c = x at h1 ⊢
      obtain ⟨res, c1⟩ := x
      cases res with
      | error e => exact h1
      | ok t =>
        simp only [] at h1 ⊢
        split
        · exact h1
        · exact (ih c1).trans h1

theorem nrFinish_ng (res : NRRes × Conn) : (nrFinish res).2.r.nego = res.2.r.nego := by
  obtain ⟨r, c⟩ := res
  cases r with
  | msg t rid z => rfl
  | err e => unfold nrFinish; simp only []; split <;> rfl
  | panic => unfold nrFinish; simp only []; split <;> rfl

theorem nextReader_ng (c : Conn) : (nextReader c).2.r.nego = c.r.nego := by
  rw [nextReader_eq, nrFinish_ng]
  unfold nrRes
  split
  · rfl
  · exact nextReaderLoop_ng _ (c0 c)

/-- advanceFrame at a frame boundary on a violating header fails (whatever the write side does) -/
theorem viol_adv (c : Conn) (hrem : c.r.remaining = 0) (hwf : WF c.r.buf) (hsz : 125 ≤ c.r.buf.size)
    (b0 b1 : UInt8) (rest : Bytes) (hp : c.r.buf.pending = b0 :: b1 :: rest)
    (hv : Violates c.r.isServer c.r.nego (!c.r.final) (parseHdr b0 b1)) :
    ∃ e c', advanceFrame c = (.error e, c') := by
  obtain ⟨b', hT, _⟩ := take_eq c.r.buf hwf 2 (by omega) [b0, b1] rest hp rfl
  have hrem' : ¬ c.r.remaining > 0 := by rw [hrem]; decide
  unfold advanceFrame
  have hne : (!(headerErrors c.r.isServer c.r.nego c.r.final (parseHdr b0 b1)).isEmpty) = true := by
    have h := headerErrors_nil_iff c.r.isServer c.r.nego c.r.final (parseHdr b0 b1)
    cases hh : headerErrors c.r.isServer c.r.nego c.r.final (parseHdr b0 b1) with
    | nil => exact absurd hv (h.mp hh)
    | cons _ _ => rfl
  simp only [hrem', if_false, hT, hne, if_true]
  unfold handleProtocolError
  exact ⟨_, _, rfl⟩

/-- the loop of NextReader started anywhere inside a whole message that is followed by a violating header -/
theorem nrl_viol (S N : Bool) (b0 b1 : UInt8) (tail : Bytes) (hv : Violates S N false (parseHdr b0 b1)) (fuel : Nat) :
    ∀ (c : Conn) (wire : Bytes) (more : List PFrame), St S c wire more (b0 :: b1 :: tail) → c.r.nego = N →
      LenOk c (dataPayload more).length → ∃ e c1, nextReaderLoop fuel c = (.err e, c1) := by
  induction fuel with
  | zero => intro c _ _ _ _ _; exact ⟨.any, c, rfl⟩
  | succ fuel ih =>
    intro c wire more hst hN hl
    cases hfin : c.r.final with
    | false =>
      obtain ⟨t', c', wire', more', a1, a2, a3, a4, a5, a6, a7, a8, a9, a10⟩ :=
        step_tail S c wire more _ hst hfin 0 (by simpa using hl)
      have hstep : nextReaderLoop (fuel + 1) c = nextReaderLoop fuel c' := by
        conv => lhs; unfold nextReaderLoop
        simp only [hst.noErr, a1, a2, Bool.false_eq_true, if_false]
      rw [hstep]
      have hN' : c'.r.nego = N := by
        have := advanceFrame_ng c; rw [a1] at this; exact this.trans hN
      exact ih c' wire' more' a3 hN' (by simpa using a7)
    | true =>
      have hmore := hst.finT hfin
      subst hmore
      have hp : c.r.buf.pending = wire ++ b0 :: b1 :: tail := by
        have := hst.pend
        simpa using this
      obtain ⟨b', p1, p2, p3, p4⟩ := adv_norm c wire _ hst.rem hst.env.wf hp
      have hv' : Violates (skipped c b').r.isServer (skipped c b').r.nego (!(skipped c b').r.final) (parseHdr b0 b1) := by
        show Violates c.r.isServer c.r.nego (!c.r.final) (parseHdr b0 b1)
        rw [hst.srv, hN, hfin]; exact hv
      obtain ⟨e, c', hadv⟩ := viol_adv (skipped c b') rfl p2
        (by show 125 ≤ b'.size; rw [p3.size]; exact hst.env.size) b0 b1 tail p1 hv'
      rcases nrl_norm fuel c b' hst.noErr p4 with h | h
      · rw [h]
        have hne' : (skipped c b').r.readErr = none := hst.noErr
        unfold nextReaderLoop
        simp only [hne', hadv]
        exact ⟨_, _, rfl⟩
      · exact h

/-- NextReader called when no whole message is left: it fails, nothing is reported complete -/
theorem viol_end (S N : Bool) (b0 b1 : UInt8) (tail : Bytes) (hv : Violates S N false (parseHdr b0 b1))
    (L : Int) (tg : Bool) (ops : List ROp) (c : Conn) (n : Nat) (cur : Option Nat) (cst : Option (Nat × Bytes))
    (hN : c.r.nego = N) (hpre : ∃ H, Pre S (b0 :: b1 :: tail) H n L tg c) (hn : n < 2 ^ 62)
    (hnL : L ≤ 0 ∨ (n : Int) ≤ L) :
    completedAux (runProg (.next :: ops) c cur).1 cst = [] := by
  obtain ⟨H, hpre⟩ := hpre
  have hlimc := hpre.limit
  obtain ⟨wire, more, hst, hwn, _, _, _⟩ := hpre
  have hl : LenOk (c0 c) (dataPayload more).length := by
    refine ⟨?_, ?_⟩
    · show (0 : Int) + _ < _
      omega
    · show c.r.limit ≤ 0 ∨ (0 : Int) + _ ≤ c.r.limit
      rw [hlimc]
      rcases hnL with h | h
      · exact Or.inl h
      · right; omega
  obtain ⟨e, c1, h⟩ := nrl_viol S N b0 b1 tail hv c.fuel (c0 c) wire more hst hN hl
  rcases nextReader_of_loop_err c hst.noErr e c1 h with ⟨e', c2, h1⟩ | ⟨c2, h1⟩
  · simp only [runProg, h1]
    rfl
  · simp only [runProg, h1]
    rfl

/-- the claim for a program run while the application holds a reader of a whole message -/
def HeldSubV (S N : Bool) (R : Bytes) (L : Int) (tg : Bool) (ops : List ROp) : Prop :=
  ∀ (msgs : List (Nat × List PFrame)) (c : Conn) (rid : Nat) (o : Option Bytes) (n : Nat)
    (cst : Option (Nat × Bytes)), MsgsOk L msgs → c.r.nego = N →
    Inv S (wireOf S msgs R) n L tg c rid o → n < 2 ^ 62 → (L ≤ 0 ∨ (n : Int) ≤ L) →
    (cst.isSome = true → o.isSome = true) →
    List.Sublist (completedAux (runProg ops c (some rid)).1 cst)
      (headOf cst o ++ msgs.map (fun m => (m.1, dataPayload m.2)))

/-- a NextReader call, from any state -/
theorem next_subV (S N : Bool) (R : Bytes) (L : Int) (tg : Bool) (htog : tg = false ∨ R ≠ [])
    (hEnd : ∀ (ops : List ROp) (c : Conn) (n : Nat) (cur : Option Nat) (cst : Option (Nat × Bytes)), c.r.nego = N →
      (∃ H, Pre S R H n L tg c) → n < 2 ^ 62 → (L ≤ 0 ∨ (n : Int) ≤ L) →
      completedAux (runProg (.next :: ops) c cur).1 cst = []) (ops : List ROp)
    (ih : HeldSubV S N R L tg ops) (msgs : List (Nat × List PFrame)) (c : Conn) (n : Nat)
    (cur : Option Nat) (cst : Option (Nat × Bytes)) (pre : List (Nat × Bytes)) (hm : MsgsOk L msgs) (hN : c.r.nego = N)
    (hpre : ∃ H, Pre S (wireOf S msgs R) H n L tg c)
    (hn : n < 2 ^ 62) (hnL : L ≤ 0 ∨ (n : Int) ≤ L) :
    List.Sublist (completedAux (runProg (.next :: ops) c cur).1 cst)
      (pre ++ msgs.map (fun m => (m.1, dataPayload m.2))) := by
  obtain ⟨H, hpre⟩ := hpre
  cases msgs with
  | nil =>
    have hw : wireOf S [] R = R := by simp [wireOf]
    rw [hw] at hpre
    rw [hEnd ops c n cur cst hN ⟨H, hpre⟩ hn hnL]
    exact List.nil_sublist _
  | cons m ms =>
    rw [wireOf_cons] at hpre
    obtain ⟨mt, ms1, msz, mfit⟩ := hm m (by simp)
    have htog' : tg = false ∨ wireOf S ms R ≠ [] := by
      rcases htog with h | h
      · exact Or.inl h
      · right; intro hc; exact h (List.append_eq_nil_iff.mp hc).2
    obtain ⟨c1, rid, e1, e2⟩ := open_step S m.1 mt _ H n L tg c m.2 hpre ms1 htog' hn msz
      (by rcases hnL with h | h
          · exact Or.inl h
          · rcases mfit with h' | h'
            · exact Or.inl h'
            · exact Or.inr ⟨h, h'⟩)
    have hN1 : c1.r.nego = N := by
      have := nextReader_ng c; rw [e1] at this; exact this.trans hN
    have hrec := ih ms c1 rid _ _ (some (m.1, [])) (fun x hx => hm x (by simp [hx])) hN1 e2 msz mfit (fun _ => rfl)
    simp only [runProg, e1, List.map_cons]
    have : completedAux (REvt.opened m.1 :: (runProg ops c1 (some rid)).1) cst =
        completedAux (runProg ops c1 (some rid)).1 (some (m.1, [])) := rfl
    rw [this]
    have hh : headOf (some (m.1, [])) (some (dataPayload m.2)) = [(m.1, dataPayload m.2)] := by
      simp [headOf]
    rw [hh] at hrec
    exact hrec.trans (List.sublist_append_right pre _)

theorem held_subV (S N : Bool) (R : Bytes) (L : Int) (tg : Bool) (htog : tg = false ∨ R ≠ [])
    (hEnd : ∀ (ops : List ROp) (c : Conn) (n : Nat) (cur : Option Nat) (cst : Option (Nat × Bytes)), c.r.nego = N →
      (∃ H, Pre S R H n L tg c) → n < 2 ^ 62 → (L ≤ 0 ∨ (n : Int) ≤ L) →
      completedAux (runProg (.next :: ops) c cur).1 cst = []) :
    ∀ ops : List ROp, HeldSubV S N R L tg ops := by
  intro ops
  induction ops with
  | nil =>
    intro msgs c rid o n cst _ _ _ _ _ _
    exact List.nil_sublist _
  | cons op ops ih =>
    intro msgs c rid o n cst hm hN hinv hn hnL hco
    cases op with
    | next =>
      exact next_subV S N R L tg htog hEnd ops ih msgs c n (some rid) cst _ hm hN (inv_pre hinv) hn hnL
    | read k =>
      cases o with
      | none =>
        have hcst : cst = none := by
          cases cst with
          | none => rfl
          | some x => exact absurd (hco rfl) (by simp)
        subst hcst
        have hr := read_none hinv (k + 1)
        simp only [runProg, hr]
        rw [cA_ret_none]
        exact ih msgs c rid none n none hm hN hinv hn hnL hco
      | some p =>
        rcases read_some hinv k with ⟨bs, rem, c', r1, r2, r3, r4, r5⟩ | ⟨c', r1, r2, r3⟩
        · subst r4
          simp only [runProg, r1]
          rw [cA_data]
          have hrec := ih msgs c' rid (some rem) n (cst.map (fun x => (x.1, x.2 ++ bs))) hm (by have := mrRead_ng c rid (k + 1); rw [r1] at this; exact this.trans hN) r5 hn hnL (fun _ => rfl)
          have hh : headOf (cst.map (fun x => (x.1, x.2 ++ bs))) (some rem) = headOf cst (some (bs ++ rem)) := by
            cases cst with
            | none => rfl
            | some x => obtain ⟨t', acc⟩ := x; simp [headOf, List.append_assoc]
          rw [hh] at hrec
          exact hrec
        · subst r2
          simp only [runProg, r1]
          have hrec := ih msgs c' rid none n none hm (by have := mrRead_ng c rid (k + 1); rw [r1] at this; exact this.trans hN) r3 hn hnL (fun h => by simp at h)
          have hh : headOf none (none : Option Bytes) = [] := rfl
          rw [hh, List.nil_append] at hrec
          cases cst with
          | none =>
            rw [cA_ret_none]
            exact hrec
          | some x =>
            obtain ⟨t', acc⟩ := x
            have : completedAux (REvt.ret [] (some RErr.eof) :: (runProg ops c' (some rid)).1) (some (t', acc)) =
                (t', acc ++ []) :: completedAux (runProg ops c' (some rid)).1 none := rfl
            rw [this]
            have hh2 : headOf (some (t', acc)) (some ([] : Bytes)) = [(t', acc ++ [])] := rfl
            rw [hh2]
            exact List.Sublist.cons_cons _ hrec

theorem idle_subV (S N : Bool) (R : Bytes) (L : Int) (tg : Bool) (htog : tg = false ∨ R ≠ [])
    (hEnd : ∀ (ops : List ROp) (c : Conn) (n : Nat) (cur : Option Nat) (cst : Option (Nat × Bytes)), c.r.nego = N →
      (∃ H, Pre S R H n L tg c) → n < 2 ^ 62 → (L ≤ 0 ∨ (n : Int) ≤ L) →
      completedAux (runProg (.next :: ops) c cur).1 cst = []) :
    ∀ (ops : List ROp) (msgs : List (Nat × List PFrame)) (c : Conn) (n : Nat), MsgsOk L msgs → c.r.nego = N →
      (∃ H, Pre S (wireOf S msgs R) H n L tg c) → n < 2 ^ 62 → (L ≤ 0 ∨ (n : Int) ≤ L) →
      List.Sublist (completedAux (runProg ops c none).1 none) (msgs.map (fun m => (m.1, dataPayload m.2))) := by
  intro ops
  induction ops with
  | nil =>
    intro msgs c n _ _ _ _ _
    exact List.nil_sublist _
  | cons op ops ih =>
    intro msgs c n hm hN hpre hn hnL
    cases op with
    | next =>
      exact next_subV S N R L tg htog hEnd ops (held_subV S N R L tg htog hEnd ops)
        msgs c n none none [] hm hN hpre hn hnL
    | read k =>
      simp only [runProg]
      exact ih msgs c n hm hN hpre hn hnL

end Helpers

/-- part (1) of `violation_program` (what is reported complete) when every whole message is within the
    read limit -/
theorem violation_program_fits_completed_partial (c : Conn) (hc : ReaderIdle c) (msgs : List (Nat × List PFrame))
    (hm : ∀ m ∈ msgs, (m.1 = 1 ∨ m.1 = 2) ∧ MsgShape m.1 m.2 ∧ (dataPayload m.2).length < 2 ^ 62 ∧
      (c.r.limit ≤ 0 ∨ ((dataPayload m.2).length : Int) ≤ c.r.limit))
    (b0 b1 : UInt8) (tail : Bytes)
    (hv : Violates c.r.isServer c.r.nego false (parseHdr b0 b1))
    (hp : c.r.buf.pending = (msgs.map (fun m => encAll c.r.isServer m.2)).flatten ++ b0 :: b1 :: tail)
    (ops : List ROp) :
    List.Sublist (completed (runProg ops c none).1) (msgs.map (fun m => (m.1, dataPayload m.2))) := by
  have hR : c.r.buf.t.together = false ∨ b0 :: b1 :: tail ≠ [] := Or.inr (by simp)
  have hne : c.r.buf.t.together = false ∨
      (msgs.map (fun m => encAll c.r.isServer m.2)).flatten ++ b0 :: b1 :: tail ≠ [] := Or.inr (by simp)
  exact idle_subV c.r.isServer c.r.nego (b0 :: b1 :: tail) c.r.limit c.r.buf.t.together hR
    (fun ops c' n cur cst hN hpre hn hnL =>
      viol_end c.r.isServer c.r.nego b0 b1 tail hv c.r.limit c.r.buf.t.together ops c' n cur cst hN hpre hn hnL)
    ops msgs c 0 hm rfl ⟨_, WS.LimitHistoryAux.pre_idle c hc _ hp hne⟩ (by omega) (by omega)

/- NOT PROVEN HERE (kept for reference; believed true, no counterexample found):

theorem violation_program (c : Conn) (hc : ReaderIdle c) (msgs : List (Nat × List PFrame))
    (hm : ∀ m ∈ msgs, (m.1 = 1 ∨ m.1 = 2) ∧ MsgShape m.1 m.2 ∧ (dataPayload m.2).length < 2 ^ 62)
    (b0 b1 : UInt8) (tail : Bytes)
    (hv : Violates c.r.isServer c.r.nego false (parseHdr b0 b1))
    (hp : c.r.buf.pending = (msgs.map (fun m => encAll c.r.isServer m.2)).flatten ++ b0 :: b1 :: tail)
    (ops : List ROp) :
    List.Sublist (completed (runProg ops c none).1) (msgs.map (fun m => (m.1, dataPayload m.2))) ∧
    (runProg ops c none).2.r.hlog <+: c.r.hlog ++ (msgs.map (fun m => ctlEvents m.2)).flatten

   Missing: (a) whole messages above the read limit (step lemmas without `LenOk`, as for
   `cut_program_never_complete`); (b) part (2), the handler-log prefix: `ReadProgram.Inv` does not carry the
   handler log; it needs `c.r.hlog ++ ctlEvents more = H` threaded through `read_some` / `open_step`
   (`mrReadLoop_spec`, `pre_next`, `step_tail` all export it) and "hlog unchanged" for the failing NextReader
   and for Reads / NextReader on a failed connection.
-/

end WS.ViolProgram
