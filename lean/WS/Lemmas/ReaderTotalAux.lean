import WS.Lemmas.ReaderProg
/-
  Helper lemmas for WS/Lemmas/ReaderTotal.lean: advanceFrame never touches the latched read error
  `readErr` (same proof pattern as the `errCount` lemmas of WS/Lemmas/RobustReader.lean).
-/
namespace WS.ReaderTotalAux
open WS WS.AdvFrame WS.RobustAux

theorem rh_re (m : HMode) (c : Conn) (ev : REv) : (runHandler m c ev).2.r.readErr = c.r.readErr := by
  unfold runHandler; split <;> rfl

/-- generic projection lemmas: stated over arbitrary field values, so that neither the elaborator nor
    the kernel ever has to compare an updated record with the original one field by field (which
    would make them evaluate `wrap64 (beVal p)` on an open term). -/
theorem re_pair {α : Type} (a : α) (w : W) (f1 f2 : Bool) (f3 : Option RErr) (f4 : Int) (f5 : Bool) (f6 f7 : Int)
    (f8 : Nat) (f9 : Key) (f10 : Bool) (f11 : Nat) (f12 : Option Nat) (f13 : Nat) (f14 f15 f16 : HMode)
    (f17 : Buf) (f18 : List REv) :
    (a, Conn.mk w (R.mk f1 f2 f3 f4 f5 f6 f7 f8 f9 f10 f11 f12 f13 f14 f15 f16 f17 f18)).snd.r.readErr = f3 := rfl

theorem re_pair_stb {α : Type} (a : α) (w : W) (f1 f2 : Bool) (f3 : Option RErr) (f4 : Int) (f5 : Bool) (f6 f7 : Int)
    (f8 : Nat) (f9 : Key) (f10 : Bool) (f11 : Nat) (f12 : Option Nat) (f13 : Nat) (f14 f15 f16 : HMode)
    (f17 : Buf) (f18 : List REv) :
    (a, sendTooBig (Conn.mk w (R.mk f1 f2 f3 f4 f5 f6 f7 f8 f9 f10 f11 f12 f13 f14 f15 f16 f17 f18))).snd.r.readErr = f3 := rfl

theorem afSkip_re (c : Conn) : (afSkip c).2.r.readErr = c.r.readErr := by
  unfold afSkip; split <;> rfl

theorem afLen_re (h : Hdr) (c : Conn) : (afLen h c).2.r.readErr = c.r.readErr := by
  unfold afLen
  split
  · generalize c.r.buf.take 2 = x
    obtain ⟨p, e, b⟩ := x
    cases e <;> rfl
  · split
    · generalize c.r.buf.take 8 = x
      obtain ⟨p, e, b⟩ := x
      cases e
      · simp only []
        split
        · exact re_pair_stb ..
        · exact re_pair ..
      · rfl
    · rfl

theorem afKey_re (h : Hdr) (c : Conn) : (afKey h c).2.r.readErr = c.r.readErr := by
  unfold afKey
  split
  · generalize c.r.buf.take 4 = x
    obtain ⟨p, e, b⟩ := x
    cases e
    · simp only []
      cases Key.ofBytes p <;> rfl
    · rfl
  · rfl

theorem afData_re (h : Hdr) (c : Conn) : (afData h c).2.r.readErr = c.r.readErr := by
  unfold afData
  simp only []
  generalize (if (h.opcode == 0) = true then c.r.length else 0) = base
  split
  · exact re_pair_stb ..
  · exact re_pair ..

theorem afPayload_re (c : Conn) : (afPayload c).2.2.r.readErr = c.r.readErr := by
  unfold afPayload
  split
  · generalize c.r.buf.take c.r.remaining.toNat = x
    obtain ⟨p, e, b⟩ := x
    cases e <;> rfl
  · rfl
theorem re_w {α : Type} (a : α) (w : W) (c : Conn) : (a, ({ c with w := w } : Conn)).snd.r.readErr = c.r.readErr := rfl
theorem re_id {α : Type} (a : α) (c : Conn) : (a, c).snd.r.readErr = c.r.readErr := rfl

/-- result of a handler call followed by the optional reply -/
theorem rh_tail_re (m : HMode) (c : Conn) (ev : REv) (f : Conn → Except RErr Nat × Conn)
    (hf : ∀ c', (f c').2.r.readErr = c'.r.readErr) :
    (match runHandler m c ev with
      | (e, c) => match e with
        | some e => ((.error e : Except RErr Nat), c)
        | none => f c).2.r.readErr = c.r.readErr := by
  have h := rh_re m c ev
  generalize runHandler m c ev = x at h ⊢
  obtain ⟨e, c'⟩ := x
  cases e
  · exact (hf c').trans h
  · exact h

theorem afDispatch_re (h : Hdr) (p : Bytes) (c : Conn) : (afDispatch h p c).2.r.readErr = c.r.readErr := by
  unfold afDispatch
  split
  · exact rh_tail_re _ _ _ (fun c => (.ok 10, c)) (fun _ => rfl)
  · split
    · exact rh_tail_re _ _ _ (fun c => (.ok 9, if c.r.hPing = .dflt then { c with w := (writeControl c.w 10 p writeWaitDeadline).2 } else c))
        (fun c' => by simp only []; split <;> rfl)
    · extract_lets code text
      split
      · exact congrArg R.readErr (hpe_r _ _)
      · split
        · exact congrArg R.readErr (hpe_r _ _)
        · exact rh_tail_re _ _ _ (fun c => (.error (.close code text), if c.r.hClose = .dflt then { c with w := (writeControl c.w 8 (closePayload code []) writeWaitDeadline).2 } else c))
            (fun c' => by simp only []; split <;> rfl)

theorem afHdr_re (c : Conn) (b0 b1 : UInt8) : (afHdr c b0 b1).2.r.readErr = c.r.readErr := by
  unfold afHdr
  extract_lets h errs final' src c1
  have h0 : c1.r.readErr = c.r.readErr := rfl
  split
  · exact (congrArg R.readErr (hpe_r _ _)).trans h0
  · have h1 := afLen_re h c1
    generalize afLen h c1 = x at h1 ⊢
    obtain ⟨e, c2⟩ := x
    cases e
    · simp only [] at h1 ⊢
      have h2 := afKey_re h c2
      generalize afKey h c2 = x at h2 ⊢
      obtain ⟨e, c3⟩ := x
      cases e
      · simp only [] at h2 ⊢
        split
        · exact (afData_re h c3).trans (h2.trans (h1.trans h0))
        · have h3 := afPayload_re c3
          generalize afPayload c3 = x at h3 ⊢
          obtain ⟨e, p, c4⟩ := x
          cases e
          · simp only [] at h3 ⊢
            exact (afDispatch_re h p c4).trans (h3.trans (h2.trans (h1.trans h0)))
          · exact h3.trans (h2.trans (h1.trans h0))
      · exact h2.trans (h1.trans h0)
    · exact h1.trans h0

theorem afHead_re (c : Conn) : (afHead c).2.r.readErr = c.r.readErr := by
  unfold afHead
  generalize c.r.buf.take 2 = x
  obtain ⟨p, e, b⟩ := x
  simp only []
  split
  · rfl
  · exact afHdr_re _ _ _
  · rfl

theorem advanceFrame_re (c : Conn) : (advanceFrame c).2.r.readErr = c.r.readErr := by
  rw [advanceFrame_eq]
  have h1 := afSkip_re c
  generalize afSkip c = x at h1 ⊢
  obtain ⟨e, c1⟩ := x
  cases e
  · exact (afHead_re c1).trans h1
  · exact h1

end WS.ReaderTotalAux
