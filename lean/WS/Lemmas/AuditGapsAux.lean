import WS.Lemmas.RoleGeneric
import WS.Lemmas.PreparedSend
/-
  Helper lemmas for WS/Lemmas/AuditGaps.lean: what `connWrite` does to the sticky error, the exact
  error of the write API once an error is latched, and the dispatch step of `advanceFrame` on close
  frames with a bad code / bad UTF-8 / empty body and on a ping with a failing handler.
-/
namespace WS.AuditGaps
open WS WS.Codec WS.SrcLaw WS.HdrLogic WS.ReaderDecodes WS.ReaderRejects WS.ReaderLift WS.ReaderMore WS.RoleGeneric
open WS.AdvFrame

/-! ### writer -/

theorem tSetWD_writeErr (s : W) (d : Int) : (tSetWD s d).2.writeErr = s.writeErr := by
  unfold tSetWD
  dsimp only
  split <;> rfl

theorem tWrite_writeErr (s : W) (b : Bytes) : (tWrite s b).2.writeErr = s.writeErr := by
  unfold tWrite
  dsimp only
  split <;> rfl

theorem writeBufs_writeErr (s : W) (b0 b1 : Bytes) : (writeBufs s b0 b1).2.writeErr = s.writeErr := by
  unfold writeBufs
  split
  · exact tWrite_writeErr s b0
  · split
    · rename_i e s' heq
      have := tWrite_writeErr s b0
      rw [heq] at this; exact this
    · rename_i s' heq
      have := tWrite_writeErr s b0
      rw [heq] at this
      rw [tWrite_writeErr]; exact this

theorem writeFatal_of_none (s : W) (e : WErr) (h : s.writeErr = none) : (writeFatal s e).writeErr = some e := by
  unfold writeFatal
  rw [h]

theorem connWrite_error_is_sticky' (s : W) (ft d : Int) (b0 b1 : Bytes) (h : (connWrite s ft d b0 b1).1.isSome) :
    (connWrite s ft d b0 b1).2.writeErr.isSome := by
  unfold connWrite at h ⊢
  cases hs : s.writeErr with
  | some e => simp [hs]
  | none =>
    rw [hs] at h
    dsimp only at h ⊢
    rcases h1 : tSetWD s d with ⟨e1, s1⟩
    rw [h1] at h
    cases e1 with
    | some e1 => exact writeFatal_isSome _ _
    | none =>
      dsimp only at h ⊢
      rcases h2 : writeBufs s1 b0 b1 with ⟨e2, s2⟩
      rw [h2] at h
      cases e2 with
      | some e2 => exact writeFatal_isSome _ _
      | none => simp at h

theorem connWrite_error_latched' (s : W) (ft d : Int) (b0 b1 : Bytes) (e : WErr) (hs : s.writeErr = none)
    (h : (connWrite s ft d b0 b1).1 = some e) : (connWrite s ft d b0 b1).2.writeErr = some e := by
  unfold connWrite at h ⊢
  rw [hs] at h ⊢
  dsimp only at h ⊢
  have h1 := tSetWD_writeErr s d
  split
  · rename_i e1 s1 heq1
    rw [heq1] at h h1
    dsimp only at h
    cases h
    exact writeFatal_of_none _ _ (h1.trans hs)
  · rename_i s1 heq1
    rw [heq1] at h h1
    dsimp only at h h1
    have h2 := writeBufs_writeErr s1 b0 b1
    split
    · rename_i e2 s2 heq2
      rw [heq2] at h h2
      dsimp only at h
      cases h
      exact writeFatal_of_none _ _ (h2.trans (h1.trans hs))
    · rename_i s2 heq2
      rw [heq2] at h
      simp at h

theorem close_sets_closeSent' (s : W) (d : Int) (b0 b1 : Bytes) (h : (connWrite s 8 d b0 b1).1 = none) :
    (connWrite s 8 d b0 b1).2.writeErr = some .closeSent := by
  unfold connWrite at h ⊢
  cases hs : s.writeErr with
  | some e => rw [hs] at h; simp at h
  | none =>
    rw [hs] at h
    dsimp only at h ⊢
    have h1 := tSetWD_writeErr s d
    split
    · rename_i e1 s1 heq1
      rw [heq1] at h; simp at h
    · rename_i s1 heq1
      rw [heq1] at h h1
      dsimp only at h h1
      have h2 := writeBufs_writeErr s1 b0 b1
      split
      · rename_i e2 s2 heq2
        rw [heq2] at h; simp at h
      · rename_i s2 heq2
        rw [heq2] at h2
        dsimp only at h2
        rw [if_pos (by rfl)]
        exact writeFatal_of_none _ _ (h2.trans (h1.trans hs))

theorem closePrev_err (s : W) (dnp : List Bytes) (fullp : Bytes) (e : WErr) (h : s.writeErr = some e) :
    (closePrev s dnp fullp).writeErr = some e ∧ (closePrev s dnp fullp).wire = s.wire := by
  have hc := closePrev_of_err s dnp fullp (by rw [h]; rfl)
  exact ⟨(core_writeErr hc).trans h, core_wire hc⟩

theorem beginMessage'_data_err (s : W) (t : Int) (ht : t = 1 ∨ t = 2) (e : WErr) (h : s.writeErr = some e) :
    beginMessage' s t = (.error e, s) := by
  unfold beginMessage'
  rw [h]
  rcases ht with rfl | rfl
  · rw [if_neg (by decide)]
  · rw [if_neg (by decide)]

theorem beginMessage_data_err (s : W) (t : Int) (ht : t = 1 ∨ t = 2) (dnp : List Bytes) (fullp : Bytes) (e : WErr)
    (h : s.writeErr = some e) :
    beginMessage s t dnp fullp = (.error e, closePrev s dnp fullp) := by
  unfold beginMessage
  exact beginMessage'_data_err _ t ht e (closePrev_err s dnp fullp e h).1

theorem nextWriter_data_err (s : W) (t : Int) (ht : t = 1 ∨ t = 2) (dnp : List Bytes) (fullp : Bytes) (e : WErr)
    (h : s.writeErr = some e) :
    nextWriter s t dnp fullp = (.error e, closePrev s dnp fullp) := by
  unfold nextWriter
  rw [beginMessage_data_err s t ht dnp fullp e h]

theorem writeMessage_data_err (s : W) (t : Int) (ht : t = 1 ∨ t = 2) (data : Bytes) (dnp : List Bytes) (fullp : Bytes)
    (dn : List Bytes) (full : Bytes) (e : WErr) (h : s.writeErr = some e) :
    writeMessage s t data dnp fullp dn full = (some e, closePrev s dnp fullp) := by
  unfold writeMessage
  split
  · rw [beginMessage_data_err s t ht dnp fullp e h]
  · rw [nextWriter_data_err s t ht dnp fullp e h]

theorem ctlKey_err (s : W) : (ctlKey s).2.writeErr = s.writeErr ∧ (ctlKey s).2.wire = s.wire := by
  unfold ctlKey; split
  · exact ⟨rfl, rfl⟩
  · exact ⟨rfl, rfl⟩

theorem writeControl_err (s : W) (t : Int) (ht : t = 8 ∨ t = 9 ∨ t = 10) (data : Bytes) (hl : data.length ≤ 125)
    (d : Int) (hd : 0 ≤ d) (e : WErr) (h : s.writeErr = some e) :
    (writeControl s t data d).1 = some e ∧ (writeControl s t data d).2.wire = s.wire := by
  have hm : maxControlPayload = 125 := by decide
  have hc : isControl t = true := by rcases ht with rfl | rfl | rfl <;> decide
  unfold writeControl
  rw [hc, hm]
  rw [if_neg (by decide), if_neg (by omega)]
  dsimp only
  rw [if_neg (by omega)]
  rw [connWrite_of_err _ _ _ _ _ e ((ctlKey_err s).1.trans h)]
  exact ⟨rfl, (ctlKey_err s).2⟩

theorem writePreparedImage_err (s : W) (t : Int) (img : Bytes) (dnp : List Bytes) (fullp : Bytes) (e : WErr)
    (h : s.writeErr = some e) :
    (writePreparedImage s t img dnp fullp).1 = some e ∧ (writePreparedImage s t img dnp fullp).2.wire = s.wire := by
  unfold writePreparedImage
  dsimp only
  have hc : (if isData t then closePrev s dnp fullp else s).writeErr = some e ∧
      (if isData t then closePrev s dnp fullp else s).wire = s.wire := by
    split
    · exact closePrev_err s dnp fullp e h
    · exact ⟨h, rfl⟩
  rw [connWrite_of_err _ _ _ _ _ e hc.1]
  exact ⟨rfl, hc.2⟩

theorem requests_fail_with_closeSent' (s : W) (h : s.writeErr = some .closeSent) :
    (∀ t data, (t = 1 ∨ t = 2) → (writeMessage s t data).1 = some .closeSent ∧ (writeMessage s t data).2.wire = s.wire) ∧
    (∀ t, (t = 1 ∨ t = 2) → ∃ s', nextWriter s t = (.error .closeSent, s') ∧ s'.wire = s.wire) ∧
    (∀ t data d, (t = 8 ∨ t = 9 ∨ t = 10) → data.length ≤ 125 → 0 ≤ d →
        (writeControl s t data d).1 = some .closeSent ∧ (writeControl s t data d).2.wire = s.wire) ∧
    (∀ t img, (writePreparedImage s t img).1 = some .closeSent ∧ (writePreparedImage s t img).2.wire = s.wire) := by
  refine ⟨?_, ?_, ?_, ?_⟩
  · intro t data ht
    rw [writeMessage_data_err s t ht data [] [] [] [] _ h]
    exact ⟨rfl, (closePrev_err s [] [] _ h).2⟩
  · intro t ht
    exact ⟨_, nextWriter_data_err s t ht [] [] _ h, (closePrev_err s [] [] _ h).2⟩
  · intro t data d ht hl hd
    exact writeControl_err s t ht data hl d hd _ h
  · intro t img
    exact writePreparedImage_err s t img [] [] _ h

/-! ### reader -/

theorem hpe_healthy (c : Conn) (hw : WHealthy c.w) (msg : String) :
    (handleProtocolError c msg).1 = .protocol msg ∧ (handleProtocolError c msg).2.r = c.r ∧
    (handleProtocolError c msg).2.w.wire = c.w.wire ++ closeFrameBytes c.w ((closePayload 1002 (strBytes msg)).take 125) ∧
    (handleProtocolError c msg).2.w.writeErr = some .closeSent := by
  have hm : maxControlPayload = 125 := by decide
  have h1002 : Gen.CloseProtocolError.toNat = 1002 := by decide
  unfold handleProtocolError
  simp only []
  rw [hm, h1002]
  refine ⟨trivial, trivial, ?_, ?_⟩
  · exact (writeControl_healthy c.w 8 _ hw (by decide) (by rw [List.length_take]; omega)).1
  · exact (writeControl_healthy c.w 8 _ hw (by decide) (by rw [List.length_take]; omega)).2

theorem afDispatch_badcode (h : Hdr) (c : Conn) (hop : h.opcode = 8) (code : Nat) (reason : Bytes)
    (hcode : isValidReceivedCloseCode code = false) (hc16 : code < 65536) :
    afDispatch h (beBytes 2 code ++ reason) c =
      (.error (handleProtocolError c ("bad close code " ++ toString code)).1,
       (handleProtocolError c ("bad close code " ++ toString code)).2) := by
  have hge : ((beBytes 2 code ++ reason).length ≥ 2) = True := by
    simp only [List.length_append, beBytes_length, ge_iff_le, Nat.le_add_right]
  have hcode' : beVal (List.take 2 (beBytes 2 code ++ reason)) = code := by
    rw [List.take_left' (beBytes_length ..)]
    exact beVal_beBytes 2 code (by simpa using hc16)
  unfold afDispatch
  rw [hop]
  simp only [show ((8 : Nat) == 10) = false from rfl, show ((8 : Nat) == 9) = false from rfl,
    Bool.false_eq_true, if_false, if_true, hge, hcode', hcode, decide_true, Bool.not_false,
    Bool.and_true]

theorem afDispatch_badutf (h : Hdr) (c : Conn) (hop : h.opcode = 8) (code : Nat) (reason : Bytes)
    (hcode : isValidReceivedCloseCode code = true) (hc16 : code < 65536) (hutf : Spec.validUtf8 reason = false) :
    afDispatch h (beBytes 2 code ++ reason) c =
      (.error (handleProtocolError c "invalid utf8 payload in close frame").1,
       (handleProtocolError c "invalid utf8 payload in close frame").2) := by
  have hge : ((beBytes 2 code ++ reason).length ≥ 2) = True := by
    simp only [List.length_append, beBytes_length, ge_iff_le, Nat.le_add_right]
  have hcode' : beVal (List.take 2 (beBytes 2 code ++ reason)) = code := by
    rw [List.take_left' (beBytes_length ..)]
    exact beVal_beBytes 2 code (by simpa using hc16)
  have htext : List.drop 2 (beBytes 2 code ++ reason) = reason := by
    rw [List.drop_left' (beBytes_length ..)]
  unfold afDispatch
  rw [hop]
  simp only [show ((8 : Nat) == 10) = false from rfl, show ((8 : Nat) == 9) = false from rfl,
    Bool.false_eq_true, if_false, if_true, hge, hcode', htext, hcode, hutf, decide_true, Bool.not_false,
    Bool.not_true, Bool.and_true, Bool.and_false]

theorem afDispatch_empty_close (h : Hdr) (c : Conn) (hop : h.opcode = 8) (hd : c.r.hClose = .dflt) :
    afDispatch h [] c =
      (.error (.close 1005 []),
       { w := (writeControl (emit c.w (.hClose 1005 [])) 8 (closePayload 1005 []) writeWaitDeadline).2,
         r := { c.r with hlog := c.r.hlog ++ [.close 1005 []] } }) := by
  have h1005 : Gen.CloseNoStatusReceived.toNat = 1005 := by decide
  have hge : (([] : Bytes).length ≥ 2) = False := by simp
  unfold afDispatch
  rw [hop]
  simp only [show ((8 : Nat) == 10) = false from rfl, show ((8 : Nat) == 9) = false from rfl,
    Bool.false_eq_true, if_false, hge, h1005, decide_false, Bool.false_and, runHandler, hd]
  rfl

theorem afDispatch_ping_fail (h : Hdr) (payload : Bytes) (c : Conn) (hop : h.opcode = 9) (id : Nat)
    (hd : c.r.hPing = .fail id) :
    afDispatch h payload c =
      (.error (.handler id), { w := (emit c.w (Ev.hPing payload)),
                               r := { c.r with hlog := c.r.hlog ++ [.ping payload] } }) := by
  unfold afDispatch
  rw [hop]
  simp only [show ((9 : Nat) == 10) = false from rfl, show ((9 : Nat) == 9) = true from rfl,
    Bool.false_eq_true, if_false, if_true, runHandler, hd]
  rfl

/-- a well-formed control frame at a frame boundary reaches the dispatch step with its payload -/
theorem advance_ctl (c : Conn) (hc : AtBoundary c) (op : Nat) (hop : op = 8 ∨ op = 9 ∨ op = 10)
    (key : Key) (payload rest : Bytes) (hl : payload.length ≤ 125)
    (hp : c.r.buf.pending = PFrame.enc c.r.isServer ⟨op, true, key, payload⟩ ++ rest) :
    ∃ c2, advanceFrame c = afDispatch ⟨op, true, false, false, false, c.r.isServer, l7 payload.length⟩ payload c2 ∧
      c2.w = c.w ∧ c2.r.hlog = c.r.hlog ∧ c2.r.hClose = c.r.hClose ∧ c2.r.hPing = c.r.hPing := by
  have hsz := hc.size
  have h7 : l7 payload.length = payload.length := by
    unfold l7; rw [if_neg (by omega), if_neg (by omega)]
  have hop16 : op < 16 := by omega
  have hopb : (op == 0 || op == 1 || op == 2) = false := by
    rcases hop with rfl | rfl | rfl <;> rfl
  obtain ⟨b1, a1, a2, a3, a4⟩ := advance_prefix c hc rest op true key payload hp hop16
    (hdrErrs_ctl3 _ _ _ op _ hop (by rw [h7]; exact hl)) (by omega)
  obtain ⟨b2, r1, r2, r3, r4⟩ := afRest_ctl ⟨op, true, false, false, false, c.r.isServer, l7 payload.length⟩
    { c with r := { c.r with buf := b1, remaining := (payload.length : Int), decompress := false, final := finalAfter op true c, maskPos := (if c.r.isServer then 0 else c.r.maskPos), maskKey := (if c.r.isServer then key else c.r.maskKey) } }
    key payload rest hopb rfl a3 (by have := a4.size; simp only [] at this ⊢; omega) a2
    (by intro h; simp only [] at h ⊢; rw [if_pos h])
  rw [r1] at a1
  exact ⟨_, a1, rfl, rfl, rfl, rfl⟩

theorem bad_close_code_rejected' (c : Conn) (hc : AtBoundary c) (hw : WHealthy c.w)
    (key : Key) (code : Nat) (reason rest : Bytes)
    (hcode : isValidReceivedCloseCode code = false) (hc16 : code < 65536) (hl : reason.length ≤ 123)
    (hp : c.r.buf.pending = PFrame.enc c.r.isServer ⟨8, true, key, beBytes 2 code ++ reason⟩ ++ rest) :
    ∃ msg c', advanceFrame c = (.error (.protocol msg), c') ∧ c'.r.hlog = c.r.hlog ∧
      c'.w.wire = c.w.wire ++ closeFrameBytes c.w ((closePayload 1002 (strBytes msg)).take 125) ∧
      c'.w.writeErr = some .closeSent := by
  have hPl : (beBytes 2 code ++ reason).length = 2 + reason.length := by
    rw [List.length_append, beBytes_length]
  obtain ⟨c2, a1, e1, e2, e3, e4⟩ := advance_ctl c hc 8 (Or.inl rfl) key (beBytes 2 code ++ reason) rest (by omega) hp
  rw [afDispatch_badcode _ c2 rfl code reason hcode hc16] at a1
  obtain ⟨p1, p2, p3, p4⟩ := hpe_healthy c2 (by rw [e1]; exact hw) ("bad close code " ++ toString code)
  rw [p1] at a1
  rw [e1] at p3
  exact ⟨_, _, a1, by rw [p2, e2], p3, p4⟩

theorem bad_close_utf8_rejected' (c : Conn) (hc : AtBoundary c) (hw : WHealthy c.w)
    (key : Key) (code : Nat) (reason rest : Bytes)
    (hcode : isValidReceivedCloseCode code = true) (hc16 : code < 65536) (hutf : Spec.validUtf8 reason = false)
    (hl : reason.length ≤ 123)
    (hp : c.r.buf.pending = PFrame.enc c.r.isServer ⟨8, true, key, beBytes 2 code ++ reason⟩ ++ rest) :
    ∃ msg c', advanceFrame c = (.error (.protocol msg), c') ∧ c'.r.hlog = c.r.hlog ∧
      c'.w.wire = c.w.wire ++ closeFrameBytes c.w ((closePayload 1002 (strBytes msg)).take 125) ∧
      c'.w.writeErr = some .closeSent := by
  have hPl : (beBytes 2 code ++ reason).length = 2 + reason.length := by
    rw [List.length_append, beBytes_length]
  obtain ⟨c2, a1, e1, e2, e3, e4⟩ := advance_ctl c hc 8 (Or.inl rfl) key (beBytes 2 code ++ reason) rest (by omega) hp
  rw [afDispatch_badutf _ c2 rfl code reason hcode hc16 hutf] at a1
  obtain ⟨p1, p2, p3, p4⟩ := hpe_healthy c2 (by rw [e1]; exact hw) "invalid utf8 payload in close frame"
  rw [p1] at a1
  rw [e1] at p3
  exact ⟨_, _, a1, by rw [p2, e2], p3, p4⟩

theorem controlFrame_length_pos (S : Bool) (t : Nat) (data : Bytes) (k : Key) : 0 < (controlFrame S t data k).length := by
  unfold controlFrame
  split <;> simp

theorem empty_close_is_1005' (c : Conn) (hc : AtBoundary c) (hw : WHealthy c.w) (hd : c.r.hClose = .dflt)
    (key : Key) (rest : Bytes)
    (hp : c.r.buf.pending = PFrame.enc c.r.isServer ⟨8, true, key, []⟩ ++ rest) :
    ∃ c', advanceFrame c = (.error (.close 1005 []), c') ∧ c'.r.hlog = c.r.hlog ++ [.close 1005 []] ∧
      c'.w.writeErr = some .closeSent ∧ c.w.wire.length < c'.w.wire.length := by
  obtain ⟨c2, a1, e1, e2, e3, e4⟩ := advance_ctl c hc 8 (Or.inl rfl) key [] rest (by simp) hp
  rw [afDispatch_empty_close _ c2 rfl (e3.trans hd)] at a1
  have hwc := writeControl_healthy (emit c2.w (Ev.hClose 1005 [])) 8 (closePayload 1005 []) (by rw [e1]; exact hw)
    (by decide) (closePayload_nil_len 1005)
  refine ⟨_, a1, by rw [e2], hwc.2, ?_⟩
  show c.w.wire.length < (writeControl (emit c2.w (Ev.hClose 1005 [])) 8 (closePayload 1005 []) writeWaitDeadline).2.wire.length
  rw [hwc.1, List.length_append, e1]
  have := controlFrame_length_pos (emit c.w (Ev.hClose 1005 [])).isServer (8 : Int).toNat (closePayload 1005 [])
    (ctlKey (emit c.w (Ev.hClose 1005 []))).1
  show (c.w.wire).length < (c.w.wire).length + _
  omega

end WS.AuditGaps
