import WS.Lemmas.ReaderProg
/-
  Two things no reader step changes, without any hypothesis on the byte source: the identity of the
  current message reader (`msgReader`) across advanceFrame, and the transport's `together` flag.
  Consequence: a classification of the `messageReader.Read` calls that return io.EOF.
-/
namespace WS.ZCutAux
open WS WS.SrcLaw WS.AdvFrame WS.RobustAux WS.ReaderProg

/-! ### the `together` flag of the transport -/

theorem tread_tog (t : TSrc) (room : Nat) : (t.read room).2.2.together = t.together := by
  unfold TSrc.read
  split
  · rfl
  · simp only []
    split
    · split <;> rfl
    · rfl

theorem fill_tog (b : Buf) : b.fill.t.together = b.t.together := by
  unfold Buf.fill
  exact tread_tog b.t _

theorem peekLoop_tog (fuel : Nat) : ∀ (b : Buf) (n : Nat), (b.peekLoop fuel n).t.together = b.t.together := by
  induction fuel with
  | zero => intro b n; rfl
  | succ f ih =>
    intro b n
    unfold Buf.peekLoop
    split
    · rw [ih]; exact fill_tog b
    · rfl

theorem take_tog (b : Buf) (n : Nat) : (b.take n).2.2.t.together = b.t.together := by
  unfold Buf.take
  simp only []
  split
  · exact peekLoop_tog _ _ _
  · split
    · exact peekLoop_tog _ _ _
    · exact peekLoop_tog _ _ _

theorem read_tog (b : Buf) (k : Nat) : (b.read k).2.2.t.together = b.t.together := by
  unfold Buf.read
  split
  · split
    · rfl
    · split
      · exact tread_tog b.t k
      · simp only []
        split
        · exact tread_tog b.t b.size
        · exact tread_tog b.t b.size
  · rfl

theorem skipLoop_tog (fuel : Nat) : ∀ (b : Buf) (n : Nat), (b.skipLoop fuel n).2.t.together = b.t.together := by
  induction fuel with
  | zero => intro b n; rfl
  | succ f ih =>
    intro b n
    unfold Buf.skipLoop
    split
    · rfl
    · have ht := read_tog b (min 8192 n)
      generalize b.read (min 8192 n) = r at ht
      obtain ⟨bs, e, b'⟩ := r
      simp only [] at ht ⊢
      split
      · exact ht
      · exact ht
      · split
        · exact ht
        · rw [ih]; exact ht

theorem skip_tog (b : Buf) (n : Nat) : (b.skip n).2.t.together = b.t.together := skipLoop_tog _ _ _

/-! ### advanceFrame: `msgReader` -/

theorem rh_mr (m : HMode) (c : Conn) (ev : REv) : (runHandler m c ev).2.r.msgReader = c.r.msgReader := by
  unfold runHandler; split <;> rfl

theorem mr_pair {α : Type} (a : α) (w : W) (f1 f2 : Bool) (f3 : Option RErr) (f4 : Int) (f5 : Bool) (f6 f7 : Int)
    (f8 : Nat) (f9 : Key) (f10 : Bool) (f11 : Nat) (f12 : Option Nat) (f13 : Nat) (f14 f15 f16 : HMode)
    (f17 : Buf) (f18 : List REv) :
    (a, Conn.mk w (R.mk f1 f2 f3 f4 f5 f6 f7 f8 f9 f10 f11 f12 f13 f14 f15 f16 f17 f18)).snd.r.msgReader = f12 := rfl

theorem mr_pair_stb {α : Type} (a : α) (w : W) (f1 f2 : Bool) (f3 : Option RErr) (f4 : Int) (f5 : Bool) (f6 f7 : Int)
    (f8 : Nat) (f9 : Key) (f10 : Bool) (f11 : Nat) (f12 : Option Nat) (f13 : Nat) (f14 f15 f16 : HMode)
    (f17 : Buf) (f18 : List REv) :
    (a, sendTooBig (Conn.mk w (R.mk f1 f2 f3 f4 f5 f6 f7 f8 f9 f10 f11 f12 f13 f14 f15 f16 f17 f18))).snd.r.msgReader = f12 := rfl

theorem afSkip_mr (c : Conn) : (afSkip c).2.r.msgReader = c.r.msgReader := by
  unfold afSkip; split <;> rfl

theorem afLen_mr (h : Hdr) (c : Conn) : (afLen h c).2.r.msgReader = c.r.msgReader := by
  unfold afLen
  split
  · generalize c.r.buf.take 2 = x
    obtain ⟨p, e, b⟩ := x
    cases e <;> rfl
  · split
    · generalize c.r.buf.take 8 = x
      obtain ⟨p, e, b⟩ := x
      cases e
      · simp only []
        split
        · exact mr_pair_stb ..
        · exact mr_pair ..
      · rfl
    · rfl

theorem afKey_mr (h : Hdr) (c : Conn) : (afKey h c).2.r.msgReader = c.r.msgReader := by
  unfold afKey
  split
  · generalize c.r.buf.take 4 = x
    obtain ⟨p, e, b⟩ := x
    cases e
    · simp only []
      cases Key.ofBytes p <;> rfl
    · rfl
  · rfl

theorem afData_mr (h : Hdr) (c : Conn) : (afData h c).2.r.msgReader = c.r.msgReader := by
  unfold afData
  simp only []
  generalize (if (h.opcode == 0) = true then c.r.length else 0) = base
  split
  · exact mr_pair_stb ..
  · exact mr_pair ..

theorem afPayload_mr (c : Conn) : (afPayload c).2.2.r.msgReader = c.r.msgReader := by
  unfold afPayload
  split
  · generalize c.r.buf.take c.r.remaining.toNat = x
    obtain ⟨p, e, b⟩ := x
    cases e <;> rfl
  · rfl

theorem rh_tail_mr (m : HMode) (c : Conn) (ev : REv) (f : Conn → Except RErr Nat × Conn)
    (hf : ∀ c', (f c').2.r.msgReader = c'.r.msgReader) :
    (match runHandler m c ev with
      | (e, c) => match e with
        | some e => ((.error e : Except RErr Nat), c)
        | none => f c).2.r.msgReader = c.r.msgReader := by
  have h := rh_mr m c ev
  generalize runHandler m c ev = x at h ⊢
  obtain ⟨e, c'⟩ := x
  cases e
  · exact (hf c').trans h
  · exact h

theorem afDispatch_mr (h : Hdr) (p : Bytes) (c : Conn) : (afDispatch h p c).2.r.msgReader = c.r.msgReader := by
  unfold afDispatch
  split
  · exact rh_tail_mr _ _ _ (fun c => (.ok 10, c)) (fun _ => rfl)
  · split
    · exact rh_tail_mr _ _ _ (fun c => (.ok 9, if c.r.hPing = .dflt then { c with w := (writeControl c.w 10 p writeWaitDeadline).2 } else c))
        (fun c' => by simp only []; split <;> rfl)
    · extract_lets code text
      split
      · exact congrArg R.msgReader (hpe_r _ _)
      · split
        · exact congrArg R.msgReader (hpe_r _ _)
        · exact rh_tail_mr _ _ _ (fun c => (.error (.close code text), if c.r.hClose = .dflt then { c with w := (writeControl c.w 8 (closePayload code []) writeWaitDeadline).2 } else c))
            (fun c' => by simp only []; split <;> rfl)

theorem afHdr_mr (c : Conn) (b0 b1 : UInt8) : (afHdr c b0 b1).2.r.msgReader = c.r.msgReader := by
  unfold afHdr
  extract_lets h errs final' src c1
  have h0 : c1.r.msgReader = c.r.msgReader := rfl
  split
  · exact (congrArg R.msgReader (hpe_r _ _)).trans h0
  · have h1 := afLen_mr h c1
    generalize afLen h c1 = x at h1 ⊢
    obtain ⟨e, c2⟩ := x
    cases e
    · simp only [] at h1 ⊢
      have h2 := afKey_mr h c2
      generalize afKey h c2 = x at h2 ⊢
      obtain ⟨e, c3⟩ := x
      cases e
      · simp only [] at h2 ⊢
        split
        · exact (afData_mr h c3).trans (h2.trans (h1.trans h0))
        · have h3 := afPayload_mr c3
          generalize afPayload c3 = x at h3 ⊢
          obtain ⟨e, p, c4⟩ := x
          cases e
          · simp only [] at h3 ⊢
            exact (afDispatch_mr h p c4).trans (h3.trans (h2.trans (h1.trans h0)))
          · exact h3.trans (h2.trans (h1.trans h0))
      · exact h2.trans (h1.trans h0)
    · exact h1.trans h0

theorem afHead_mr (c : Conn) : (afHead c).2.r.msgReader = c.r.msgReader := by
  unfold afHead
  generalize c.r.buf.take 2 = x
  obtain ⟨p, e, b⟩ := x
  simp only []
  split
  · rfl
  · exact afHdr_mr _ _ _
  · rfl

theorem advanceFrame_mr (c : Conn) : (advanceFrame c).2.r.msgReader = c.r.msgReader := by
  rw [advanceFrame_eq]
  have h1 := afSkip_mr c
  generalize afSkip c = x at h1 ⊢
  obtain ⟨e, c1⟩ := x
  cases e
  · exact (afHead_mr c1).trans h1
  · exact h1

/-! ### advanceFrame: the `together` flag -/

/-- same `together` flag -/
def Tg (b b' : Buf) : Prop := b'.t.together = b.t.together

theorem Tg.refl (b : Buf) : Tg b b := rfl
theorem Tg.trans {a b c : Buf} (h1 : Tg a b) (h2 : Tg b c) : Tg a c := Eq.trans h2 h1

theorem afSkip_tg (c : Conn) : Tg c.r.buf (afSkip c).2.r.buf := by
  unfold afSkip
  split
  · have h : Tg c.r.buf (c.r.buf.skip c.r.remaining.toNat).2 := skip_tog c.r.buf c.r.remaining.toNat
    generalize c.r.buf.skip c.r.remaining.toNat = x at h ⊢
    obtain ⟨e, b⟩ := x
    exact h
  · exact Tg.refl _

theorem afLen_tg (h : Hdr) (c : Conn) : Tg c.r.buf (afLen h c).2.r.buf := by
  unfold afLen
  split
  · have ht : Tg c.r.buf (c.r.buf.take 2).2.2 := take_tog c.r.buf 2
    generalize c.r.buf.take 2 = x at ht ⊢
    obtain ⟨p, e, b⟩ := x
    cases e <;> exact ht
  · split
    · have ht : Tg c.r.buf (c.r.buf.take 8).2.2 := take_tog c.r.buf 8
      generalize c.r.buf.take 8 = x at ht ⊢
      obtain ⟨p, e, b⟩ := x
      cases e
      · simp only [] at ht ⊢
        split
        · exact ht
        · exact ht
      · exact ht
    · exact Tg.refl _

theorem afKey_tg (h : Hdr) (c : Conn) : Tg c.r.buf (afKey h c).2.r.buf := by
  unfold afKey
  split
  · have ht : Tg c.r.buf (c.r.buf.take 4).2.2 := take_tog c.r.buf 4
    generalize c.r.buf.take 4 = x at ht ⊢
    obtain ⟨p, e, b⟩ := x
    cases e
    · simp only [] at ht ⊢
      cases Key.ofBytes p <;> exact ht
    · exact ht
  · exact Tg.refl _

theorem afPayload_tg (c : Conn) : Tg c.r.buf (afPayload c).2.2.r.buf := by
  unfold afPayload
  split
  · have ht : Tg c.r.buf (c.r.buf.take c.r.remaining.toNat).2.2 := take_tog c.r.buf c.r.remaining.toNat
    generalize c.r.buf.take c.r.remaining.toNat = x at ht ⊢
    obtain ⟨p, e, b⟩ := x
    cases e <;> exact ht
  · exact Tg.refl _

theorem afHdr_tg (c : Conn) (b0 b1 : UInt8) : Tg c.r.buf (afHdr c b0 b1).2.r.buf := by
  unfold afHdr
  extract_lets h errs final' src c1
  have h0 : Tg c.r.buf c1.r.buf := Tg.refl _
  split
  · rw [congrArg R.buf (hpe_r _ _)]; exact h0
  · have h1 := afLen_tg h c1
    generalize afLen h c1 = x at h1 ⊢
    obtain ⟨e, c2⟩ := x
    cases e
    · simp only [] at h1 ⊢
      have h2 := afKey_tg h c2
      generalize afKey h c2 = x at h2 ⊢
      obtain ⟨e, c3⟩ := x
      cases e
      · simp only [] at h2 ⊢
        split
        · rw [afData_buf]; exact h0.trans (h1.trans h2)
        · have h3 := afPayload_tg c3
          generalize afPayload c3 = x at h3 ⊢
          obtain ⟨e, p, c4⟩ := x
          cases e
          · simp only [] at h3 ⊢
            rw [afDispatch_buf]; exact h0.trans (h1.trans (h2.trans h3))
          · exact h0.trans (h1.trans (h2.trans h3))
      · exact h0.trans (h1.trans h2)
    · exact h0.trans h1

theorem afHead_tg (c : Conn) : Tg c.r.buf (afHead c).2.r.buf := by
  unfold afHead
  have ht : Tg c.r.buf (c.r.buf.take 2).2.2 := take_tog c.r.buf 2
  generalize c.r.buf.take 2 = x at ht ⊢
  obtain ⟨p, e, b⟩ := x
  simp only [] at ht ⊢
  cases e with
  | some e => exact ht
  | none =>
    rcases p with _ | ⟨b0, _ | ⟨b1, _ | ⟨b2, p⟩⟩⟩
    · exact ht
    · exact ht
    · exact ht.trans (afHdr_tg { c with r := { c.r with buf := b } } b0 b1)
    · exact ht

theorem advanceFrame_tg (c : Conn) : Tg c.r.buf (advanceFrame c).2.r.buf := by
  rw [advanceFrame_eq]
  have h1 := afSkip_tg c
  generalize afSkip c = x at h1 ⊢
  obtain ⟨e, c1⟩ := x
  cases e
  · simp only [] at h1 ⊢
    exact h1.trans (afHead_tg c1)
  · exact h1

/-- the part of a connection that no reader step changes, whatever the bytes are -/
structure Fix (c c' : Conn) : Prop where
  mr : c'.r.msgReader = c.r.msgReader
  tog : c'.r.buf.t.together = c.r.buf.t.together

theorem Fix.refl (c : Conn) : Fix c c := ⟨rfl, rfl⟩

theorem Fix.trans {a b c : Conn} (h1 : Fix a b) (h2 : Fix b c) : Fix a c :=
  ⟨h2.mr.trans h1.mr, h2.tog.trans h1.tog⟩

theorem advanceFrame_fix (c : Conn) : Fix c (advanceFrame c).2 := ⟨advanceFrame_mr c, advanceFrame_tg c⟩


/-- how a Read can have ended the message: the reader is detached, or (only on a transport that
    reports its error together with bytes) io.EOF came with the last bytes of the final frame -/
def Done (rid : Nat) (c c' : Conn) : Prop :=
  c'.r.msgReader = none ∨
    (c.r.buf.t.together = true ∧ c'.r.msgReader = some rid ∧ c'.r.readErr = some .eof ∧
      c'.r.remaining ≤ 0 ∧ c'.r.final = true)

theorem mrReadLoop_class (rid k : Nat) (fuel : Nat) : ∀ c : Conn, c.r.msgReader = some rid →
    ((mrReadLoop fuel c rid k).1.2 = none → Fix c (mrReadLoop fuel c rid k).2) ∧
    ((mrReadLoop fuel c rid k).1.2 = some .eof → Done rid c (mrReadLoop fuel c rid k).2) := by
  induction fuel with
  | zero => intro c _; exact ⟨(fun h => by cases h), (fun h => by cases h)⟩
  | succ n ih =>
    intro c hm
    unfold mrReadLoop
    split
    · rename_i e0 he0
      refine ⟨(fun h => by cases h), fun h => ?_⟩
      exfalso
      simp only [hm] at h
      by_cases h0 : e0 = .eof
      · subst h0; simp at h
      · simp [h0] at h
    · split
      · rename_i hrem
        simp only []
        have htg := read_tog c.r.buf (min k c.r.remaining.toNat)
        have het := read_err_together c.r.buf (min k c.r.remaining.toNat)
        generalize c.r.buf.read (min k c.r.remaining.toNat) = x at htg het ⊢
        obtain ⟨bs, e, b⟩ := x
        simp only [] at htg het ⊢
        constructor
        · intro _; exact ⟨rfl, htg⟩
        · intro h
          right
          split at h
          · cases h
          · rename_i hc
            subst h
            simp only [decide_true, Bool.and_true, Bool.or_eq_true, decide_eq_true_eq, Bool.not_eq_true',
              not_or, Bool.not_eq_false] at hc
            have hne : bs ≠ [] := by
              intro hb
              rw [hb] at hc
              simp only [List.length_nil] at hc
              omega
            refine ⟨het _ rfl hne, hm, ?_, (show c.r.remaining - (bs.length : Int) ≤ 0 by omega), hc.2⟩
            show (if _ then _ else _) = _
            rw [if_neg]
            simp only [decide_true, Bool.and_true, Bool.or_eq_true, decide_eq_true_eq, Bool.not_eq_true',
              not_or, Bool.not_eq_false]
            exact hc
      · split
        · exact ⟨(fun h => by cases h), fun _ => Or.inl rfl⟩
        · have h1 := advanceFrame_fix c
          generalize advanceFrame c = x at h1 ⊢
          obtain ⟨res, c1⟩ := x
          simp only [] at h1
          have key : ∀ c2 : Conn, Fix c1 c2 →
              ((mrReadLoop n c2 rid k).1.2 = none → Fix c (mrReadLoop n c2 rid k).2) ∧
              ((mrReadLoop n c2 rid k).1.2 = some .eof → Done rid c (mrReadLoop n c2 rid k).2) := by
            intro c2 h2
            have h12 := h1.trans h2
            obtain ⟨i1, i2⟩ := ih c2 (by rw [h12.mr]; exact hm)
            refine ⟨fun h => h12.trans (i1 h), fun h => ?_⟩
            rcases i2 h with d | ⟨d1, d2⟩
            · exact Or.inl d
            · exact Or.inr ⟨by rw [← h12.tog]; exact d1, d2⟩
          cases res with
          | error e => exact key _ ⟨rfl, rfl⟩
          | ok t =>
            simp only []
            split
            · exact key _ ⟨rfl, rfl⟩
            · exact key _ (Fix.refl _)

theorem mrRead_class (c : Conn) (rid k : Nat) (hm : c.r.msgReader = some rid) :
    ((mrRead c rid k).1.2 = none → Fix c (mrRead c rid k).2) ∧
    ((mrRead c rid k).1.2 = some .eof → Done rid c (mrRead c rid k).2) := by
  unfold mrRead
  rw [if_neg (by rw [hm]; simp)]
  exact mrReadLoop_class rid k _ c hm


theorem Done.of_fix {rid : Nat} {c c1 c' : Conn} (h : Fix c c1) (d : Done rid c1 c') : Done rid c c' := by
  rcases d with d | ⟨d1, d2⟩
  · exact Or.inl d
  · exact Or.inr ⟨by rw [← h.tog]; exact d1, d2⟩

/-! ### the loops over Read -/

theorem zFills_class (rid : Nat) : ∀ (ks : List Nat) (c : Conn) (acc : List Bytes), c.r.msgReader = some rid →
    ((zFills ks c rid acc).1.2 = none → Fix c (zFills ks c rid acc).2) ∧
    ((zFills ks c rid acc).1.2 = some .eof → Done rid c (zFills ks c rid acc).2) := by
  intro ks
  induction ks with
  | nil => intro c acc _; exact ⟨(fun _ => Fix.refl c), (fun h => by cases h)⟩
  | cons k ks ih =>
    intro c acc hm
    unfold zFills
    have h := mrRead_class c rid k hm
    generalize mrRead c rid k = x at h ⊢
    obtain ⟨⟨bs, e⟩, c1⟩ := x
    cases e with
    | none =>
      simp only []
      have hf : Fix c c1 := h.1 rfl
      obtain ⟨i1, i2⟩ := ih c1 (bs :: acc) (by rw [hf.mr]; exact hm)
      exact ⟨fun g => hf.trans (i1 g), fun g => (i2 g).of_fix hf⟩
    | some e =>
      simp only []
      refine ⟨(fun g => by cases g), fun g => ?_⟩
      exact h.2 g

theorem readAllLoop_class (rid k : Nat) (fuel : Nat) : ∀ (c : Conn) (acc : List Bytes), c.r.msgReader = some rid →
    (readAllLoop fuel c rid k acc).1.2 = none → Done rid c (readAllLoop fuel c rid k acc).2 := by
  induction fuel with
  | zero => intro c acc _ h; cases h
  | succ n ih =>
    intro c acc hm
    unfold readAllLoop
    have h := mrRead_class c rid k hm
    split
    · rename_i bs c1 heq
      rw [heq] at h
      have hf := h.1 rfl
      intro g
      exact (ih c1 (bs :: acc) (by rw [hf.mr]; exact hm) g).of_fix hf
    · rename_i bs c1 heq
      rw [heq] at h
      intro _
      exact h.2 rfl
    · intro g; cases g

/-- the decompressing reader reports the message complete only after a Read of the raw message has
    ended it -/
theorem zReadToEnd_class (c : Conn) (rid : Nat) (hm : c.r.msgReader = some rid) (env : ZEnv)
    (raw : Bytes) (c' : Conn) (h : zReadToEnd c rid env = ((raw, .complete), c')) : Done rid c c' := by
  unfold zReadToEnd at h
  have hz := zFills_class rid env.reqs c [] hm
  split at h
  · rename_i raw1 c1 heq
    rw [heq] at hz
    have hc : c1 = c' := congrArg Prod.snd h
    rw [← hc]
    exact hz.2 rfl
  · cases h
  · rename_i raw1 c1 heq
    rw [heq] at hz
    have hf := hz.1 rfl
    split at h
    · cases h
    · have hr := readAllLoop_class rid env.drainK (c1.fuel + 2) c1 [] (by rw [hf.mr]; exact hm)
      split at h
      · rename_i bs c2 heq2
        have hc : c2 = c' := congrArg Prod.snd h
        unfold readAll at heq2
        rw [heq2] at hr
        rw [← hc]
        exact (hr rfl).of_fix hf
      · cases h

end WS.ZCutAux
