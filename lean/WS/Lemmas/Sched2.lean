/-
  C11: frames reach the transport contiguously under every interleaving, and a WriteControl that
  cannot get the connection times out cleanly.

  The model refines WS/Model/Sched.lean: the transport write of one frame is no longer atomic — a
  thread that holds the mutex appends the frame to the wire in any number of parts (short writes,
  the two buffers of header+extra), and other threads may run in between. The wire records, for
  every byte chunk that reached it, which thread wrote it and the number of that thread's frame.

-/
namespace WS.Sched2

inductive Phase
  | idle
  | waiting                 -- wants the mutex (Conn.write: forever; WriteControl: until its deadline)
  | locked                  -- holds mu, has not looked at writeErr yet
  | writing (parts : Nat)   -- holds mu, saw writeErr = nil, set the deadline, `parts` chunks written so far
  | done                    -- holds mu, frame fully written (or write failed), about to release
  deriving DecidableEq, Repr

/-- one chunk on the wire: (thread, that thread's frame number) -/
abbrev Chunk := Nat × Nat

structure G where
  holder : Option Nat
  writeErr : Bool
  wire : List Chunk
  phase : Nat → Phase
  frameNo : Nat → Nat        -- number of frames thread t has started

def upd {α : Type} (f : Nat → α) (t : Nat) (p : α) : Nat → α := fun u => if u = t then p else f u

inductive Step : G → G → Prop
  | want (g t) (h : g.phase t = .idle) : Step g { g with phase := upd g.phase t .waiting }
  | acquire (g t) (h : g.phase t = .waiting) (hf : g.holder = none) :
      Step g { g with holder := some t, phase := upd g.phase t .locked }
  /-- WriteControl's deadline expires while it waits: nothing else changes -/
  | timeout (g t) (h : g.phase t = .waiting) : Step g { g with phase := upd g.phase t .idle }
  | checkFail (g t) (h : g.phase t = .locked) (he : g.writeErr = true) :
      Step g { g with holder := none, phase := upd g.phase t .idle }
  | checkOk (g t) (h : g.phase t = .locked) (he : g.writeErr = false) :
      Step g { g with phase := upd g.phase t (.writing 0), frameNo := upd g.frameNo t (g.frameNo t + 1) }
  /-- one more part of the current frame reaches the transport -/
  | part (g t n) (h : g.phase t = .writing n) :
      Step g { g with wire := g.wire ++ [(t, g.frameNo t)], phase := upd g.phase t (.writing (n + 1)) }
  /-- the frame is complete -/
  | finish (g t n) (h : g.phase t = .writing n) : Step g { g with phase := upd g.phase t .done }
  /-- the transport fails in the middle of the frame -/
  | fail (g t n) (h : g.phase t = .writing n) :
      Step g { g with writeErr := true, phase := upd g.phase t .done }
  | release (g t) (h : g.phase t = .done) :
      Step g { g with holder := none, phase := upd g.phase t .idle }

def init : G := { holder := none, writeErr := false, wire := [], phase := fun _ => .idle, frameNo := fun _ => 0 }

inductive Reach : G → Prop
  | init : Reach init
  | step {g g'} : Reach g → Step g g' → Reach g'

/-- all chunks of one frame are adjacent on the wire -/
def Contiguous (w : List Chunk) : Prop :=
  ∀ i j k, i < j → j < k → k < w.length → w[i]? = w[k]? → w[j]? = w[i]?

/-! ### helper invariant -/

def holds (p : Phase) : Bool :=
  match p with
  | .idle | .waiting => false
  | _ => true

/-- every occurrence of `c` in `w` is followed only by `c` -/
def SuffixOf (w : List Chunk) (c : Chunk) : Prop :=
  ∀ i j, i < j → j < w.length → w[i]? = some c → w[j]? = some c

structure Inv (g : G) : Prop where
  lock   : ∀ t, holds (g.phase t) = true → g.holder = some t
  bound  : ∀ c, c ∈ g.wire → c.2 ≤ g.frameNo c.1
  suffix : ∀ t n, g.phase t = .writing n → SuffixOf g.wire (t, g.frameNo t)
  contig : Contiguous g.wire

theorem inv_init : Inv init := by
  constructor <;> simp [init, holds, Contiguous, SuffixOf]

@[simp] theorem upd_same {α : Type} (f : Nat → α) (t : Nat) (p : α) : upd f t p t = p := by simp [upd]
theorem upd_other {α : Type} (f : Nat → α) {t u : Nat} (p : α) (e : u ≠ t) : upd f t p u = f u := by
  simp [upd, e]

theorem holder_unique {g : G} (hi : Inv g) {t u : Nat} (ht : holds (g.phase t) = true)
    (hu : holds (g.phase u) = true) : u = t := by
  have a := hi.lock t ht; have b := hi.lock u hu; simp_all

/-- Frame lemma: a step by thread `t` that keeps `wire` and `frameNo` and moves `t` to phase `p`. -/
theorem inv_local {g : G} (hi : Inv g) (t : Nat) (p : Phase) (holder' : Option Nat) (we' : Bool)
    (hhold : ∀ u, u ≠ t → holds (g.phase u) = true → holder' = some u)
    (hself : holds p = true → holder' = some t)
    (hwr : ∀ n, p = .writing n → ∃ m, g.phase t = .writing m) :
    Inv { g with holder := holder', writeErr := we', phase := upd g.phase t p } := by
  obtain ⟨hl, hb, hs, hc⟩ := hi
  refine ⟨?_, hb, ?_, hc⟩
  · intro u hu
    by_cases e : u = t
    · subst e; exact hself (by simpa using hu)
    · exact hhold u e (by simpa [upd_other _ _ e] using hu)
  · intro u n hu
    by_cases e : u = t
    · subst e
      obtain ⟨m, hm⟩ := hwr n (by simpa using hu)
      exact hs u m hm
    · exact hs u n (by simpa [upd_other _ _ e] using hu)

theorem contiguous_append {w : List Chunk} {c : Chunk} (hc : Contiguous w) (hs : SuffixOf w c) :
    Contiguous (w ++ [c]) := by
  intro i j k hij hjk hk e
  simp at hk
  have hi' : i < w.length := by omega
  have hj' : j < w.length := by omega
  rw [List.getElem?_append_left hi'] at e ⊢
  rw [List.getElem?_append_left hj']
  by_cases hkl : k < w.length
  · rw [List.getElem?_append_left hkl] at e
    exact hc i j k hij hjk hkl e
  · have hk' : k = w.length := by omega
    subst hk'
    have e' : w[i]? = some c := by simpa using e
    rw [e']
    exact hs i j hij hjk e'

theorem suffixOf_append_self {w : List Chunk} {c : Chunk} (hs : SuffixOf w c) : SuffixOf (w ++ [c]) c := by
  intro i j hij hj e
  simp at hj
  by_cases hjl : j < w.length
  · rw [List.getElem?_append_left (by omega)] at e
    rw [List.getElem?_append_left hjl]
    exact hs i j hij hjl e
  · have : j = w.length := by omega
    subst this
    simp

theorem inv_step {g g' : G} (hi : Inv g) (hs : Step g g') : Inv g' := by
  have hl := hi.lock
  cases hs with
  | want t h =>
    exact inv_local hi t .waiting g.holder g.writeErr (fun u _ hu => hl u hu) (by simp [holds]) (by simp)
  | acquire t h hf =>
    exact inv_local hi t .locked (some t) g.writeErr
      (fun u _ hu => by have := hl u hu; simp_all) (by simp) (by simp)
  | timeout t h =>
    exact inv_local hi t .idle g.holder g.writeErr (fun u _ hu => hl u hu) (by simp [holds]) (by simp)
  | checkFail t h he =>
    have ht : holds (g.phase t) = true := by simp [h, holds]
    exact inv_local hi t .idle none g.writeErr
      (fun u e hu => absurd (holder_unique hi ht hu) e) (by simp [holds]) (by simp)
  | checkOk t h he =>
    have ht : holds (g.phase t) = true := by simp [h, holds]
    refine ⟨?_, ?_, ?_, hi.contig⟩
    · intro u hu
      by_cases e : u = t
      · subst e; exact hl u ht
      · exact hl u (by simpa [upd_other _ _ e] using hu)
    · intro c hc
      have := hi.bound c hc
      show c.2 ≤ upd g.frameNo t (g.frameNo t + 1) c.1
      by_cases e : c.1 = t
      · rw [e, upd_same]; rw [e] at this; omega
      · rw [upd_other _ _ e]; exact this
    · intro u n hu
      by_cases e : u = t
      · subst e
        intro i j hij hj hw
        exfalso
        have hw' : g.wire[i]? = some (u, g.frameNo u + 1) := by simpa using hw
        have hm := List.mem_of_getElem? hw'
        have := hi.bound _ hm
        simp at this
        omega
      · have hu' : g.phase u = .writing n := by simpa [upd_other _ _ e] using hu
        have := hi.suffix u n hu'
        show SuffixOf g.wire (u, upd g.frameNo t (g.frameNo t + 1) u)
        rw [upd_other _ _ e]; exact this
  | part t n h =>
    have ht : holds (g.phase t) = true := by simp [h, holds]
    have hsuf := hi.suffix t n h
    refine ⟨?_, ?_, ?_, contiguous_append hi.contig hsuf⟩
    · intro u hu
      by_cases e : u = t
      · subst e; exact hl u ht
      · exact hl u (by simpa [upd_other _ _ e] using hu)
    · intro c hc
      have hc' : c ∈ g.wire ∨ c = (t, g.frameNo t) := by simpa using hc
      rcases hc' with hc' | hc'
      · exact hi.bound c hc'
      · subst hc'; exact Nat.le_refl _
    · intro u m hu
      by_cases e : u = t
      · subst e; exact suffixOf_append_self hsuf
      · have hu' : g.phase u = .writing m := by simpa [upd_other _ _ e] using hu
        have : holds (g.phase u) = true := by simp [hu', holds]
        exact absurd (holder_unique hi ht this) e
  | finish t n h =>
    have ht : holds (g.phase t) = true := by simp [h, holds]
    exact inv_local hi t .done g.holder g.writeErr (fun u _ hu => hl u hu) (fun _ => hl t ht) (by simp)
  | fail t n h =>
    have ht : holds (g.phase t) = true := by simp [h, holds]
    exact inv_local hi t .done g.holder true (fun u _ hu => hl u hu) (fun _ => hl t ht) (by simp)
  | release t h =>
    have ht : holds (g.phase t) = true := by simp [h, holds]
    exact inv_local hi t .idle none g.writeErr
      (fun u e hu => absurd (holder_unique hi ht hu) e) (by simp [holds]) (by simp)

theorem inv_reach {g : G} (h : Reach g) : Inv g := by
  induction h with
  | init => exact inv_init
  | step _ hs ih => exact inv_step ih hs

theorem holds_of_ne {p : Phase} (h : p ≠ .idle ∧ p ≠ .waiting) : holds p = true := by
  cases p <;> simp_all [holds]


/-- frames_atomic: in every reachable state of every interleaving of any number of threads, the
    chunks of each frame are contiguous on the wire: control frames appear only between whole frames -/
theorem frames_atomic {g : G} (h : Reach g) : Contiguous g.wire :=
  (inv_reach h).contig

/-- writecontrol_timeout_clean: a waiter that gives up changes nothing but its own phase: nothing is
    written and the connection is not poisoned -/
theorem timeout_clean (g : G) (t : Nat) (h : g.phase t = .waiting) :
    ∃ g', Step g g' ∧ g'.wire = g.wire ∧ g'.writeErr = g.writeErr ∧ g'.holder = g.holder ∧ g'.phase t = .idle :=
  ⟨_, Step.timeout g t h, rfl, rfl, rfl, by simp⟩

/-- the timeout is always enabled while waiting (a blocked writer cannot keep WriteControl from
    returning at its deadline) — in particular while another thread holds the mutex -/
theorem timeout_always_enabled {g : G} (t u : Nat) (h : g.phase t = .waiting) (hu : g.holder = some u) :
    ∃ g', Step g g' ∧ g'.phase t = .idle ∧ g'.holder = some u :=
  ⟨_, Step.timeout g t h, by simp, hu⟩

/-- mutual exclusion: at most one thread is past the lock -/
theorem mutex {g : G} (h : Reach g) (t u : Nat)
    (ht : g.phase t ≠ .idle ∧ g.phase t ≠ .waiting) (hu : g.phase u ≠ .idle ∧ g.phase u ≠ .waiting) : t = u :=
  holder_unique (inv_reach h) (holds_of_ne hu) (holds_of_ne ht)

end WS.Sched2
