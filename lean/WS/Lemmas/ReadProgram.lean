import WS.Lemmas.LimitHistory
import WS.Lemmas.MixedReads
/-
  C03 at its full quantifier: "the result does not depend on how the application sizes its read calls,
  … on whether it abandons a message part-way". For EVERY program over the read API — NextReader and
  Read(k) in any order, any number, any sizes; reading on after the end of a message; opening the next
  message while the current one is unread, partly read or fully read — run against a stream of
  conformant messages, every event the application observes is the one the messages dictate:
  the i-th NextReader opens the i-th message (none is skipped, none delivered twice) with its type;
  every Read returns a non-empty piece (at most the size asked for) continuing exactly where the
  previous Read of that message stopped, with no error; end-of-message is reported exactly when the
  whole payload has been delivered (and again on every later Read of that reader).
-/
namespace WS.ReadProgram
open WS WS.Codec WS.ReaderDecodes WS.Sequences

/-- operations of the read API; `read k` asks for k + 1 bytes (Read with an empty buffer is not modelled) -/
inductive ROp
  | next
  | read (k : Nat)
  deriving DecidableEq, Repr

def ROp.isNext : ROp → Bool
  | .next => true
  | .read _ => false

/-- what the application observes -/
inductive REvt
  | opened (t : Nat)                       -- NextReader returned a message of type t
  | ret (bs : Bytes) (e : Option RErr)     -- Read returned these bytes and this error
  | failed (e : RErr)                      -- NextReader returned an error
  | panicked
  deriving DecidableEq, Repr

/-- run a program; `cur` is the identity of the message reader the application holds (the one returned
    by its last successful NextReader); a Read before any NextReader is skipped; the run stops at the
    first NextReader failure -/
def runProg : List ROp → Conn → Option Nat → List REvt × Conn
  | [], c, _ => ([], c)
  | .next :: ops, c, _ =>
    match nextReader c with
    | (.msg t rid _, c1) => (.opened t :: (runProg ops c1 (some rid)).1, (runProg ops c1 (some rid)).2)
    | (.err e, c1) => ([.failed e], c1)
    | (.panic, c1) => ([.panicked], c1)
  | .read _ :: ops, c, none => runProg ops c none
  | .read k :: ops, c, some rid =>
    match mrRead c rid (k + 1) with
    | ((bs, e), c1) => (.ret bs e :: (runProg ops c1 (some rid)).1, (runProg ops c1 (some rid)).2)

/-- the specification: `Ok ops msgs open held evs` — running `ops` when the messages still to be opened
    are `msgs` (type, payload), the undelivered rest of the currently open message is `open` (`none`: no
    message open, or its end has been reported) and `held` says whether the application holds a reader,
    may produce exactly the events `evs` -/
inductive Ok : List ROp → List (Nat × Bytes) → Option Bytes → Bool → List REvt → Prop
  | done (ms o h) : Ok [] ms o h []
  | next (ops t p ms o h evs) : Ok ops ms (some p) true evs → Ok (.next :: ops) ((t, p) :: ms) o h (.opened t :: evs)
  | readNoReader (ops k ms o evs) : Ok ops ms o false evs → Ok (.read k :: ops) ms o false evs
  | readData (ops k ms bs rem evs) : bs ≠ [] → bs.length ≤ k + 1 → Ok ops ms (some rem) true evs →
      Ok (.read k :: ops) ms (some (bs ++ rem)) true (.ret bs none :: evs)
  | readEnd (ops k ms evs) : Ok ops ms none true evs → Ok (.read k :: ops) ms (some []) true (.ret [] (some .eof) :: evs)
  | readAfterEnd (ops k ms evs) : Ok ops ms none true evs → Ok (.read k :: ops) ms none true (.ret [] (some .eof) :: evs)

section Helpers
open WS.LimitHistoryAux WS.MixedReads WS.ZCutLoops

def MsgsOk (L : Int) (msgs : List (Nat × List PFrame)) : Prop :=
  ∀ m ∈ msgs, (m.1 = 1 ∨ m.1 = 2) ∧ MsgShape m.1 m.2 ∧ (dataPayload m.2).length < 2 ^ 62 ∧
    (L ≤ 0 ∨ ((dataPayload m.2).length : Int) ≤ L)

def wireOf (S : Bool) (msgs : List (Nat × List PFrame)) (rest : Bytes) : Bytes :=
  (msgs.map (fun m => encAll S m.2)).flatten ++ rest

theorem wireOf_cons (S : Bool) (m : Nat × List PFrame) (ms : List (Nat × List PFrame)) (rest : Bytes) :
    wireOf S (m :: ms) rest = encAll S m.2 ++ wireOf S ms rest := by
  simp [wireOf]

/-- the reader `rid` the application holds: inside its message with the payload `p` undelivered
    (`o = some p`), or after the end of the message has been reported (`o = none`) -/
def Inv (S : Bool) (rest1 : Bytes) (n : Nat) (L : Int) (tg : Bool) (c : Conn) (rid : Nat) (o : Option Bytes) : Prop :=
  ∃ wire more, St S c wire more rest1 ∧ LenOk c (dataPayload more).length ∧
    wire.length + (dataPayload more).length ≤ n ∧ c.r.limit = L ∧ c.r.buf.t.together = tg ∧
    ((c.r.msgReader = some rid ∧ o = some (unmask c wire ++ dataPayload more)) ∨ (c.r.msgReader = none ∧ o = none))

theorem inv_pre {S : Bool} {rest1 : Bytes} {n : Nat} {L : Int} {tg : Bool} {c : Conn} {rid : Nat} {o : Option Bytes}
    (h : Inv S rest1 n L tg c rid o) : ∃ H, Pre S rest1 H n L tg c := by
  obtain ⟨w, m, hst, _, hn, hlim, htg, _⟩ := h
  exact ⟨_, w, m, hst.congr (c' := rst c) rfl rfl rfl rfl rfl rfl rfl (Int.le_refl 0), hn, rfl, hlim, htg⟩

/-- a Read after the end of the message was reported -/
theorem read_none {S : Bool} {rest1 : Bytes} {n : Nat} {L : Int} {tg : Bool} {c : Conn} {rid : Nat}
    (h : Inv S rest1 n L tg c rid none) (k : Nat) : mrRead c rid k = (([], some .eof), c) := by
  obtain ⟨w, m, _, _, _, _, _, h | h⟩ := h
  · exact absurd h.2 (by simp)
  · unfold mrRead
    rw [if_pos (by rw [h.1]; simp)]

/-- a Read inside the message -/
theorem read_some {S : Bool} {rest1 : Bytes} {n : Nat} {L : Int} {tg : Bool} {c : Conn} {rid : Nat} {p : Bytes}
    (h : Inv S rest1 n L tg c rid (some p)) (k : Nat) :
    (∃ bs rem c', mrRead c rid (k + 1) = ((bs, none), c') ∧ bs ≠ [] ∧ bs.length ≤ k + 1 ∧ p = bs ++ rem ∧
      Inv S rest1 n L tg c' rid (some rem)) ∨
    (∃ c', mrRead c rid (k + 1) = (([], some .eof), c') ∧ p = [] ∧ Inv S rest1 n L tg c' rid none) := by
  obtain ⟨wire, more, hst, hl, hn, hlim, htg, h | h⟩ := h
  · obtain ⟨hm, ho⟩ := h
    have ho' : p = unmask c wire ++ dataPayload more := by simpa using ho
    have hcf : c.r.buf.pending.length < c.fuel + 1 := by
      have := hst.env.fuel
      unfold Conn.fuel; omega
    have hlen := mrReadLoop_len S rid (k + 1) (by omega) rest1 (c.fuel + 1) c wire more hst hl hcf
    rw [mrRead_eq_loop c rid (k + 1) hm]
    rcases mrReadLoop_spec S rid (k + 1) (by omega) rest1 (c.fuel + 1) c wire more hst hm hl hcf with
      ⟨out, c2, w2, m2, b1, b2, b3, b4, b5, b6, b7, b8, b9⟩ | ⟨c2, b1, b2, b3, b4, b5, b6, b7, b8⟩
    · left
      rw [b1] at hlen
      refine ⟨out, unmask c2 w2 ++ dataPayload m2, c2, b1, b2, hlen, by rw [ho', b7], w2, m2, b3, b6, ?_,
        by rw [b4.limit]; exact hlim, by rw [b4.same.together]; exact htg, Or.inl ⟨b5, rfl⟩⟩
      have := congrArg List.length b7
      simp only [List.length_append, unmask_length] at this
      omega
    · right
      refine ⟨c2, b1, by rw [ho', b2], [], [], b3, by simpa using b8, by simp,
        by rw [b5.limit]; exact hlim, by rw [b5.same.together]; exact htg, Or.inr ⟨b6, rfl⟩⟩
  · exact absurd h.2 (by simp)

/-- NextReader from any state opens the following message -/
theorem open_step (S : Bool) (t : Nat) (ht : t = 1 ∨ t = 2) (rest : Bytes) (H : List REv) (n : Nat) (L : Int)
    (tg : Bool) (c : Conn) (fs : List PFrame) (hpre : Pre S (encAll S fs ++ rest) H n L tg c)
    (hs : MsgShape t fs) (htog : tg = false ∨ rest ≠ []) (hn : n < 2 ^ 62) (hf : (dataPayload fs).length < 2 ^ 62)
    (hL : L ≤ 0 ∨ ((n : Int) ≤ L ∧ ((dataPayload fs).length : Int) ≤ L)) :
    ∃ c1 rid, nextReader c = (.msg t rid false, c1) ∧
      Inv S rest (dataPayload fs).length L tg c1 rid (some (dataPayload fs)) := by
  obtain ⟨c1, rid, w1, m1, b1, b2, b3, b4, b5, b6, b7⟩ := pre_next S t ht rest H n L tg c fs hpre hs htog hn hf hL
  have hlimc := hpre.limit
  obtain ⟨_, _, _, _, _, _, htg⟩ := hpre
  refine ⟨c1, rid, b1, w1, m1, b2, b5, ?_, by rw [b3.limit, hlimc], by rw [b3.same.together]; exact htg,
    Or.inl ⟨b4, by rw [b6]⟩⟩
  have := congrArg List.length b6
  simp only [List.length_append, unmask_length] at this
  omega

/-- the claim for a program run while the application holds a reader -/
def HeldOk (S : Bool) (rest : Bytes) (L : Int) (tg : Bool) (ops : List ROp) : Prop :=
  ∀ (msgs : List (Nat × List PFrame)) (c : Conn) (rid : Nat) (o : Option Bytes) (n : Nat), MsgsOk L msgs →
    Inv S (wireOf S msgs rest) n L tg c rid o → n < 2 ^ 62 → (L ≤ 0 ∨ (n : Int) ≤ L) →
    (ops.filter ROp.isNext).length ≤ msgs.length →
    Ok ops (msgs.map (fun m => (m.1, dataPayload m.2))) o true (runProg ops c (some rid)).1

/-- a NextReader call, from any state -/
theorem next_case (S : Bool) (rest : Bytes) (L : Int) (tg : Bool) (htog : tg = false ∨ rest ≠ []) (ops : List ROp)
    (ih : HeldOk S rest L tg ops) (msgs : List (Nat × List PFrame)) (c : Conn) (n : Nat) (cur : Option Nat)
    (o : Option Bytes) (h : Bool) (hm : MsgsOk L msgs) (hpre : ∃ H, Pre S (wireOf S msgs rest) H n L tg c)
    (hn : n < 2 ^ 62) (hnL : L ≤ 0 ∨ (n : Int) ≤ L)
    (hf : ((ROp.next :: ops).filter ROp.isNext).length ≤ msgs.length) :
    Ok (.next :: ops) (msgs.map (fun m => (m.1, dataPayload m.2))) o h (runProg (.next :: ops) c cur).1 := by
  cases msgs with
  | nil => simp [ROp.isNext] at hf
  | cons m ms =>
    obtain ⟨H, hpre⟩ := hpre
    rw [wireOf_cons] at hpre
    obtain ⟨mt, ms1, msz, mfit⟩ := hm m (by simp)
    have htog' : tg = false ∨ wireOf S ms rest ≠ [] := by
      rcases htog with h | h
      · exact Or.inl h
      · right; intro hc; exact h (List.append_eq_nil_iff.mp hc).2
    obtain ⟨c1, rid, e1, e2⟩ := open_step S m.1 mt _ H n L tg c m.2 hpre ms1 htog' hn msz
      (by rcases hnL with h | h
          · exact Or.inl h
          · rcases mfit with h' | h'
            · exact Or.inl h'
            · exact Or.inr ⟨h, h'⟩)
    have hf' : (ops.filter ROp.isNext).length ≤ ms.length := by
      have he : (ROp.next :: ops).filter ROp.isNext = .next :: ops.filter ROp.isNext := rfl
      rw [he] at hf
      simp only [List.length_cons] at hf
      omega
    have hrec := ih ms c1 rid _ _ (fun x hx => hm x (by simp [hx])) e2 msz mfit hf'
    simp only [runProg, e1, List.map_cons]
    exact Ok.next _ _ _ _ _ _ _ hrec

theorem run_held (S : Bool) (rest : Bytes) (L : Int) (tg : Bool) (htog : tg = false ∨ rest ≠ []) :
    ∀ ops : List ROp, HeldOk S rest L tg ops := by
  intro ops
  induction ops with
  | nil =>
    intro msgs c rid o n _ _ _ _ _
    simp only [runProg]
    exact Ok.done _ _ _
  | cons op ops ih =>
    intro msgs c rid o n hm hinv hn hnL hf
    cases op with
    | next => exact next_case S rest L tg htog ops ih msgs c n (some rid) o true hm (inv_pre hinv) hn hnL hf
    | read k =>
      have hf' : (ops.filter ROp.isNext).length ≤ msgs.length := by
        simpa [ROp.isNext] using hf
      cases o with
      | none =>
        have hr := read_none hinv (k + 1)
        simp only [runProg, hr]
        exact Ok.readAfterEnd _ _ _ _ (ih msgs c rid none n hm hinv hn hnL hf')
      | some p =>
        rcases read_some hinv k with ⟨bs, rem, c', r1, r2, r3, r4, r5⟩ | ⟨c', r1, r2, r3⟩
        · subst r4
          simp only [runProg, r1]
          exact Ok.readData _ _ _ _ _ _ r2 r3 (ih msgs c' rid (some rem) n hm r5 hn hnL hf')
        · subst r2
          simp only [runProg, r1]
          exact Ok.readEnd _ _ _ _ (ih msgs c' rid none n hm r3 hn hnL hf')

theorem run_idle (S : Bool) (rest : Bytes) (L : Int) (tg : Bool) (htog : tg = false ∨ rest ≠ []) :
    ∀ (ops : List ROp) (msgs : List (Nat × List PFrame)) (c : Conn) (n : Nat), MsgsOk L msgs →
      (∃ H, Pre S (wireOf S msgs rest) H n L tg c) → n < 2 ^ 62 → (L ≤ 0 ∨ (n : Int) ≤ L) →
      (ops.filter ROp.isNext).length ≤ msgs.length →
      Ok ops (msgs.map (fun m => (m.1, dataPayload m.2))) none false (runProg ops c none).1 := by
  intro ops
  induction ops with
  | nil =>
    intro msgs c n _ _ _ _ _
    simp only [runProg]
    exact Ok.done _ _ _
  | cons op ops ih =>
    intro msgs c n hm hpre hn hnL hf
    cases op with
    | next => exact next_case S rest L tg htog ops (run_held S rest L tg htog ops) msgs c n none none false hm hpre hn hnL hf
    | read k =>
      have hf' : (ops.filter ROp.isNext).length ≤ msgs.length := by
        simpa [ROp.isNext] using hf
      simp only [runProg]
      exact Ok.readNoReader _ _ _ _ _ (ih msgs c n hm hpre hn hnL hf')

end Helpers

/-- every read program on a stream of conformant messages observes exactly what the messages dictate
    (with or without a read limit, each message within it; the program opens at most as many messages
    as the stream holds) -/
theorem any_read_program (c : Conn) (hc : ReaderIdle c) (msgs : List (Nat × List PFrame))
    (hm : ∀ m ∈ msgs, (m.1 = 1 ∨ m.1 = 2) ∧ MsgShape m.1 m.2 ∧ (dataPayload m.2).length < 2 ^ 62 ∧
            (c.r.limit ≤ 0 ∨ ((dataPayload m.2).length : Int) ≤ c.r.limit))
    (rest : Bytes)
    (hp : c.r.buf.pending = (msgs.map (fun m => encAll c.r.isServer m.2)).flatten ++ rest)
    (hend : c.r.buf.t.together = false ∨ rest ≠ [])
    (ops : List ROp) (hn : (ops.filter ROp.isNext).length ≤ msgs.length) :
    Ok ops (msgs.map (fun m => (m.1, dataPayload m.2))) none false (runProg ops c none).1 := by
  open WS.LimitHistoryAux in
  exact run_idle c.r.isServer rest c.r.limit c.r.buf.t.together hend ops msgs c 0 hm
    ⟨_, pre_idle c hc _ hp (by
      rcases hend with h | h
      · exact Or.inl h
      · right; intro hcn; exact h (List.append_eq_nil_iff.mp hcn).2)⟩
    (by omega) (by omega) hn

end WS.ReadProgram
