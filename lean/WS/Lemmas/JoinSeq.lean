import WS.Lemmas.JoinLaw
import WS.Lemmas.Sequences
/-
  JoinMessages for any number of messages (C03 / C01: "exactly the messages the stream encodes, in
  order", through JoinMessages), with or without a read limit.
-/
namespace WS.JoinSeq
open WS WS.Codec WS.ReaderDecodes WS.JoinLaw WS.Sequences

/-- read the joined reader until `n` messages (each followed by the terminator) have been delivered
    or an error occurs; returns everything delivered, concatenated -/
def joinMsgs (fuel : Nat) (term : Bytes) (k : Nat) : Nat → Conn → Bytes → (Bytes × Option RErr) × Conn
  | 0, c, acc => ((acc, none), c)
  | n + 1, c, acc =>
    match joinMsg fuel c .idle term k [] with
    | ((bs, none), c', .idle) => joinMsgs fuel term k n c' (acc ++ bs)
    | ((bs, e), c', _) => ((acc ++ bs, e), c')

/-- one message through JoinMessages with a read limit in force (join_message has `limit ≤ 0`) -/
theorem join_message_limited (c : Conn) (hc : ReaderIdle c) (t : Nat) (ht : t = 1 ∨ t = 2) (fs : List PFrame)
    (hs : MsgShape t fs) (rest : Bytes)
    (hp : c.r.buf.pending = encAll c.r.isServer fs ++ rest)
    (hend : c.r.buf.t.together = false ∨ rest ≠ [])
    (hsz : (dataPayload fs).length < 2 ^ 62)
    (hlim : c.r.limit ≤ 0 ∨ ((dataPayload fs).length : Int) ≤ c.r.limit)
    (term : Bytes) (k : Nat) (hk : 0 < k) (fuel : Nat) (hf : (dataPayload fs).length + term.length + 3 ≤ fuel) :
    ∃ c', joinMsg fuel c .idle term k [] = ((dataPayload fs ++ term, none), c', .idle) ∧
      ReaderIdle c' ∧ c'.r.buf.pending = rest ∧ c'.r.hlog = c.r.hlog ++ ctlEvents fs ∧ Keep c c' := by
  have hst := idle_St c hc fs rest hp hend
  obtain ⟨c1, rid, w1, m1, b1, b2, b3, b4, b5, b6, b7⟩ := nextReader_spec c.r.isServer t ht rest c [] [] fs hst hs hend
    (by simp; omega) (by simpa using hlim)
  obtain ⟨fuel, rfl⟩ : ∃ f, fuel = f + 1 := ⟨fuel - 1, by omega⟩
  have hstep : joinMsg (fuel + 1) c .idle term k [] =
      joinMsg (fuel + 1) c1 (if term.isEmpty then .plain rid else .msg rid) term k [] := by
    rw [joinMsg_succ, joinMsg_succ, joinRead_idle c c1 t rid false term k b1]
  rw [hstep]
  simp only [ctlEvents_nil, List.append_nil] at b7
  cases term with
  | nil =>
    obtain ⟨c2, d1, d2, d3, d4, d5⟩ := plain_loop c.r.isServer rid k hk rest [] (fuel + 1) c1 w1 m1 [] b2 b4 b5
      (by rw [b6]; simp only [List.length_nil] at hf; omega)
    obtain ⟨i1, i2⟩ := d2.idle d3
    refine ⟨c2, ?_, i1, i2, by rw [d5, b7], b3.trans d4⟩
    simp only [List.isEmpty_nil, if_true]
    rw [d1, b6]; simp
  | cons b r =>
    obtain ⟨c2, d1, d2, d3, d4, d5⟩ := msg_loop c.r.isServer rid k hk rest (b :: r) (by simp) (fuel + 1) c1 w1 m1 [] b2 b4 b5
      (by rw [b6]; omega)
    obtain ⟨i1, i2⟩ := d2.idle d3
    refine ⟨c2, ?_, i1, i2, by rw [d5, b7], b3.trans d4⟩
    simp only [List.isEmpty_cons, Bool.false_eq_true, if_false]
    rw [d1, b6]; simp

theorem joinMsgs_succ (fuel : Nat) (term : Bytes) (k n : Nat) (c c' : Conn) (acc bs : Bytes)
    (h : joinMsg fuel c .idle term k [] = ((bs, none), c', .idle)) :
    joinMsgs fuel term k (n + 1) c acc = joinMsgs fuel term k n c' (acc ++ bs) := by
  rw [joinMsgs, h]

/-- `join_messages` with an accumulator and the invariance facts needed by the induction -/
theorem join_messages_keep (term : Bytes) (k : Nat) (hk : 0 < k) (fuel : Nat) (rest : Bytes)
    (msgs : List (Nat × List PFrame)) :
    ∀ (c : Conn) (acc : Bytes), ReaderIdle c →
      (∀ m ∈ msgs, (m.1 = 1 ∨ m.1 = 2) ∧ MsgShape m.1 m.2 ∧ (dataPayload m.2).length < 2 ^ 62 ∧
            (c.r.limit ≤ 0 ∨ ((dataPayload m.2).length : Int) ≤ c.r.limit)) →
      c.r.buf.pending = (msgs.map (fun m => encAll c.r.isServer m.2)).flatten ++ rest →
      (c.r.buf.t.together = false ∨ rest ≠ []) →
      (∀ m ∈ msgs, (dataPayload m.2).length + term.length + 3 ≤ fuel) →
      ∃ c', joinMsgs fuel term k msgs.length c acc =
          ((acc ++ (msgs.map (fun m => dataPayload m.2 ++ term)).flatten, none), c') ∧
        ReaderIdle c' ∧ c'.r.buf.pending = rest ∧
        c'.r.hlog = c.r.hlog ++ (msgs.map (fun m => ctlEvents m.2)).flatten ∧ Keep c c' := by
  induction msgs with
  | nil =>
    intro c acc hc _ hp _ _
    exact ⟨c, by simp [joinMsgs], hc, by simpa using hp, by simp, Keep.refl c⟩
  | cons m ms ih =>
    intro c acc hc hm hp hend hf
    obtain ⟨ht, hs, hsz, hlim⟩ := hm m (by simp)
    have hp1 : c.r.buf.pending =
        encAll c.r.isServer m.2 ++ ((ms.map (fun m => encAll c.r.isServer m.2)).flatten ++ rest) := by
      rw [hp]; simp
    have hend1 : c.r.buf.t.together = false ∨
        (ms.map (fun m => encAll c.r.isServer m.2)).flatten ++ rest ≠ [] := by
      rcases hend with h | h
      · exact Or.inl h
      · right; intro hcn; exact h (List.append_eq_nil_iff.mp hcn).2
    obtain ⟨c1, h1, h2, h3, h4, h5⟩ :=
      join_message_limited c hc m.1 ht m.2 hs _ hp1 hend1 hsz hlim term k hk fuel (hf m (by simp))
    obtain ⟨c', e1, e2, e3, e4, e5⟩ := ih c1 (acc ++ (dataPayload m.2 ++ term)) h2
      (fun x hx => by
        obtain ⟨x1, x2, x3, x4⟩ := hm x (by simp [hx])
        exact ⟨x1, x2, x3, by rw [h5.limit]; exact x4⟩)
      (by rw [h3, h5.isServer]) (by rw [h5.same.together]; exact hend)
      (fun x hx => hf x (by simp [hx]))
    refine ⟨c', ?_, e2, e3, ?_, h5.trans e5⟩
    · rw [List.length_cons, joinMsgs_succ fuel term k ms.length c c1 acc _ h1, e1]
      simp
    · rw [e4, h4]
      simp

/-- any number of messages: the joined reader delivers payload₁ ++ term ++ payload₂ ++ term ++ …,
    nothing lost, nothing mixed, in wire order; the handlers saw the interleaved control frames -/
theorem join_messages (c : Conn) (hc : ReaderIdle c) (msgs : List (Nat × List PFrame))
    (hm : ∀ m ∈ msgs, (m.1 = 1 ∨ m.1 = 2) ∧ MsgShape m.1 m.2 ∧ (dataPayload m.2).length < 2 ^ 62 ∧
            (c.r.limit ≤ 0 ∨ ((dataPayload m.2).length : Int) ≤ c.r.limit))
    (rest : Bytes)
    (hp : c.r.buf.pending = (msgs.map (fun m => encAll c.r.isServer m.2)).flatten ++ rest)
    (hend : c.r.buf.t.together = false ∨ rest ≠ [])
    (term : Bytes) (k : Nat) (hk : 0 < k) (fuel : Nat)
    (hf : ∀ m ∈ msgs, (dataPayload m.2).length + term.length + 3 ≤ fuel) :
    ∃ c', joinMsgs fuel term k msgs.length c [] =
        (((msgs.map (fun m => dataPayload m.2 ++ term)).flatten, none), c') ∧
      ReaderIdle c' ∧ c'.r.buf.pending = rest ∧
      c'.r.hlog = c.r.hlog ++ (msgs.map (fun m => ctlEvents m.2)).flatten := by
  obtain ⟨c', h1, h2, h3, h4, _⟩ := join_messages_keep term k hk fuel rest msgs c [] hc hm hp hend hf
  exact ⟨c', by simpa using h1, h2, h3, h4⟩

end WS.JoinSeq
