import WS.Lemmas.CutAdv
import WS.Lemmas.RobustReader
/-
  The reader loops (NextReader, messageReader.Read, ReadAll) on a stream that ends strictly inside a
  conformant message: the pending bytes are `(wire ++ encAll S more).take m` with `m` smaller than the
  length. No loop ever reports end-of-message: each one either makes progress (the invariant `CSt`
  holds again) or fails with an error different from io.EOF, having delivered a prefix.
-/
namespace WS.CutLoops
open WS WS.Codec WS.SrcLaw WS.ReaderDecodes WS.AdvFrame WS.CutAdv

/-- buffer health and handler modes (no fuel bookkeeping: running out of fuel is an error too) -/
structure CEnv (c : Conn) : Prop where
  wf : WF c.r.buf
  size : 125 ≤ c.r.buf.size
  hp : ∀ id, c.r.hPing ≠ .fail id
  hq : ∀ id, c.r.hPong ≠ .fail id

/-- the reader inside a message whose bytes stop arriving after `m` more bytes: `wire` is the rest of
    the current frame as it would be on the wire, `more` the frames still to come -/
structure CSt (S : Bool) (c : Conn) (wire : Bytes) (more : List PFrame) (m : Nat) : Prop where
  env : CEnv c
  srv : c.r.isServer = S
  noErr : c.r.readErr = none
  rem : c.r.remaining = (wire.length : Int)
  pend : c.r.buf.pending = (wire ++ encAll S more).take m
  cut : m < (wire ++ encAll S more).length
  finT : c.r.final = true → more = []
  finF : c.r.final = false → Tail more
  len0 : 0 ≤ c.r.length

theorem CSt.congr {S : Bool} {c c' : Conn} {wire : Bytes} {more : List PFrame} {m : Nat}
    (h : CSt S c wire more m) (h1 : c'.r.readErr = c.r.readErr) (h2 : c'.r.remaining = c.r.remaining)
    (h3 : c'.r.buf = c.r.buf) (h4 : c'.r.final = c.r.final) (h5 : c'.r.isServer = c.r.isServer)
    (h6 : c'.r.hPing = c.r.hPing) (h7 : c'.r.hPong = c.r.hPong) (h8 : 0 ≤ c'.r.length) :
    CSt S c' wire more m := by
  refine ⟨⟨?_, ?_, ?_, ?_⟩, ?_, ?_, ?_, ?_, h.cut, ?_, ?_, h8⟩
  · rw [h3]; exact h.env.wf
  · rw [h3]; exact h.env.size
  · rw [h6]; exact h.env.hp
  · rw [h7]; exact h.env.hq
  · rw [h5]; exact h.srv
  · rw [h1]; exact h.noErr
  · rw [h2]; exact h.rem
  · rw [h3]; exact h.pend
  · rw [h4]; exact h.finT
  · rw [h4]; exact h.finF

/-- advanceFrame at a frame boundary on a data frame of the peer, the stream cut after `m` bytes -/
theorem cadv_data (S : Bool) (c : Conn) (f : PFrame) (fs : List PFrame) (m : Nat) (env : CEnv c)
    (srv : c.r.isServer = S) (noErr : c.r.readErr = none) (hrem : c.r.remaining = 0)
    (hp : c.r.buf.pending = (f.enc S ++ encAll S fs).take m)
    (hm : m < (f.enc S ++ encAll S fs).length)
    (hop : (f.op = 0 ∧ c.r.final = false) ∨ ((f.op = 1 ∨ f.op = 2) ∧ c.r.final = true))
    (hlen : f.payload.length < 2 ^ 62) (h0 : 0 ≤ c.r.length)
    (hT : f.fin = true → fs = []) (hF : f.fin = false → Tail fs)
    (extra : Nat) (hl : LenOk c (f.payload.length + (dataPayload fs).length + extra)) :
    (∃ e c', advanceFrame c = (.error e, c') ∧ e ≠ .eof) ∨
    (∃ c' m', advanceFrame c = (.ok f.op, c') ∧ CSt S c' (body S f.key f.payload) fs m' ∧ Keep c c' ∧
      c'.r.msgReader = c.r.msgReader ∧ c'.r.nextId = c.r.nextId ∧ c'.r.decompress = false ∧
      LenOk c' ((dataPayload fs).length + extra) ∧ unmask c' (body S f.key f.payload) = f.payload) := by
  subst srv
  have hb0 := lenBase_nonneg f.op c h0
  have hb1 := lenBase_le f.op c h0
  have hp' : c.r.buf.pending = (Codec.encode (!c.r.isServer) (f.op + if f.fin then 128 else 0) f.key f.payload ++
      encAll c.r.isServer fs).take m := hp
  rcases advance_data_cut c _ m f.op f.fin f.key f.payload hrem env.wf env.size hp' hop hlen hb0
    (by have := hl.1; omega)
    (by rcases hl.2 with h | h
        · exact Or.inl h
        · exact Or.inr (by omega)) with ⟨b', h1, h2, h3, h4, h5⟩ | ⟨e, c', h1, h2⟩
  · right
    have hk : Keep c { c with r := { c.r with buf := b', remaining := (f.payload.length : Int), decompress := false, final := f.fin, maskPos := (if c.r.isServer then 0 else c.r.maskPos), maskKey := (if c.r.isServer then f.key else c.r.maskKey), length := lenBase f.op c + f.payload.length } } :=
      ⟨rfl, rfl, rfl, rfl, h5⟩
    refine ⟨_, m - (2 + (ext f.payload.length).length + (keyBytes c.r.isServer f.key).length), h1,
      ⟨⟨h4, ?_, env.hp, env.hq⟩, rfl, noErr, ?_, h3, ?_, hT, hF, ?_⟩, hk, rfl, rfl, rfl, ?_, ?_⟩
    · show 125 ≤ b'.size
      rw [h5.size]; exact env.size
    · show ((f.payload.length : Nat) : Int) = _
      rw [body_length]
    · simp only [List.length_append, enc_length, body_length] at hm ⊢
      omega
    · show 0 ≤ lenBase f.op c + f.payload.length
      omega
    · obtain ⟨l1, l2⟩ := hl
      refine ⟨?_, ?_⟩
      · show lenBase f.op c + f.payload.length + _ < _
        omega
      · show c.r.limit ≤ 0 ∨ lenBase f.op c + f.payload.length + _ ≤ c.r.limit
        rcases l2 with l2 | l2
        · exact Or.inl l2
        · exact Or.inr (by omega)
    · unfold unmask body
      simp only []
      cases c.r.isServer
      · rfl
      · simp only [if_true]; exact maskFrom_involutive _ _ _
  · left
    exact ⟨e, c', h1, h2⟩

/-- advanceFrame at a frame boundary on a ping / pong of the peer, the stream cut after `m` bytes -/
theorem cadv_ctl (S : Bool) (c : Conn) (f : PFrame) (fs : List PFrame) (m : Nat) (env : CEnv c)
    (srv : c.r.isServer = S) (hrem : c.r.remaining = 0)
    (hp : c.r.buf.pending = (f.enc S ++ encAll S fs).take m) (hf : f.ctlOk) :
    (∃ e c', advanceFrame c = (.error e, c') ∧ e ≠ .eof) ∨
    (∃ c', advanceFrame c = (.ok f.op, c') ∧ Keep c c' ∧ CEnv c' ∧
      c'.r.readErr = c.r.readErr ∧ c'.r.msgReader = c.r.msgReader ∧ c'.r.nextId = c.r.nextId ∧
      c'.r.remaining = 0 ∧ c'.r.final = c.r.final ∧ c'.r.length = c.r.length ∧
      (f.enc S).length ≤ m ∧ c'.r.buf.pending = (encAll S fs).take (m - (f.enc S).length)) := by
  subst srv
  obtain ⟨hop, hfin, hlen⟩ := hf
  have hp' : c.r.buf.pending = (Codec.encode (!c.r.isServer) (f.op + 128) f.key f.payload ++ encAll c.r.isServer fs).take m := by
    rw [hp]; simp [PFrame.enc, PFrame.b0, hfin]
  rcases advance_ctl_cut c _ m f.op f.key f.payload hrem env.wf env.size hp' hop hlen env.hp env.hq with
    ⟨b', w', h1, h2, h3, h4, h5⟩ | ⟨e, c', h1, h2⟩
  · right
    have hk : Keep c { w := w', r := { c.r with buf := b', remaining := 0, decompress := false, maskPos := (if c.r.isServer then 0 else c.r.maskPos), maskKey := (if c.r.isServer then f.key else c.r.maskKey), hlog := c.r.hlog ++ [ctlEv f.op f.payload] } } :=
      ⟨rfl, rfl, rfl, rfl, h5⟩
    refine ⟨_, h1, hk, ⟨h4, ?_, env.hp, env.hq⟩, rfl, rfl, rfl, rfl, rfl, rfl, ?_, ?_⟩
    · show 125 ≤ b'.size
      rw [h5.size]; exact env.size
    · rw [enc_length]; omega
    · show b'.pending = _
      rw [h3, enc_length]
  · left
    exact ⟨e, c', h1, h2⟩

/-- one frame of the tail of a message (continuation, ping or pong) is passed, or the cut is hit -/
theorem cstep_tail (S : Bool) (c : Conn) (more : List PFrame) (m : Nat)
    (hst : CSt S c [] more m) (hfin : c.r.final = false) (extra : Nat)
    (hl : LenOk c ((dataPayload more).length + extra)) :
    (∃ e c', advanceFrame c = (.error e, c') ∧ e ≠ .eof) ∨
    (∃ t c' wire' more' m', advanceFrame c = (.ok t, c') ∧ (t == 1 || t == 2) = false ∧ CSt S c' wire' more' m' ∧
      Keep c c' ∧ c'.r.msgReader = c.r.msgReader ∧ c'.r.nextId = c.r.nextId ∧
      LenOk c' ((dataPayload more').length + extra) ∧
      unmask c' wire' ++ dataPayload more' = dataPayload more) := by
  have ht := hst.finF hfin
  have hp := hst.pend
  have hcut := hst.cut
  have hrem : c.r.remaining = 0 := by simpa using hst.rem
  simp only [List.nil_append] at hp hcut
  cases ht with
  | last f h1 h2 h3 =>
    have hd : f.isCtl = false := isCtl_of_data (Or.inl h1)
    rw [encAll_cons] at hp hcut
    rw [dataPayload_data _ hd, List.length_append] at hl
    rcases cadv_data S c f [] m hst.env hst.srv hst.noErr hrem hp hcut (Or.inl ⟨h1, hfin⟩) h3 hst.len0
      (fun _ => rfl) (fun h => by rw [h2] at h; cases h) extra hl with ⟨e, c', a1, a2⟩ | ⟨c', m', a1, a2, a3, a4, a5, a6, a7, a8⟩
    · left; exact ⟨e, c', a1, a2⟩
    · right
      refine ⟨f.op, c', _, [], m', a1, by rw [h1]; rfl, a2, a3, a4, a5, a7, ?_⟩
      rw [a8, dataPayload_data _ hd]
  | cont f fs h1 h2 h3 h4 =>
    have hd : f.isCtl = false := isCtl_of_data (Or.inl h1)
    rw [encAll_cons] at hp hcut
    rw [dataPayload_data _ hd, List.length_append] at hl
    rcases cadv_data S c f fs m hst.env hst.srv hst.noErr hrem hp hcut (Or.inl ⟨h1, hfin⟩) h3 hst.len0
      (fun h => by rw [h2] at h; cases h) (fun _ => h4) extra hl with ⟨e, c', a1, a2⟩ | ⟨c', m', a1, a2, a3, a4, a5, a6, a7, a8⟩
    · left; exact ⟨e, c', a1, a2⟩
    · right
      refine ⟨f.op, c', _, fs, m', a1, by rw [h1]; rfl, a2, a3, a4, a5, a7, ?_⟩
      rw [a8, dataPayload_data _ hd]
  | ctl f fs h1 h4 =>
    have hd : f.isCtl = true := isCtl_of_ctlOk h1
    rw [encAll_cons] at hp hcut
    rw [dataPayload_ctl _ hd] at hl
    rcases cadv_ctl S c f fs m hst.env hst.srv hrem hp h1 with ⟨e, c', a1, a2⟩ |
      ⟨c', a1, a2, a3, a4, a5, a6, a7, a8, a9, a10, a11⟩
    · left; exact ⟨e, c', a1, a2⟩
    · right
      refine ⟨f.op, c', [], fs, m - (f.enc S).length, a1, ?_,
        ⟨a3, a2.isServer.trans hst.srv, ?_, ?_, ?_, ?_, ?_, ?_, ?_⟩, a2, a5, a6, ?_, ?_⟩
      · rcases h1.1 with h | h <;> rw [h] <;> rfl
      · rw [a4]; exact hst.noErr
      · rw [a7]; rfl
      · rw [a11]; rfl
      · simp only [List.nil_append, List.length_append] at hcut ⊢
        omega
      · rw [a8, hfin]; intro h; cases h
      · intro _; exact h4
      · rw [a9]; exact hst.len0
      · unfold LenOk at hl ⊢; rw [a9, a2.limit]; exact hl
      · rw [unmask_nil, List.nil_append, dataPayload_ctl _ hd]

theorem unmask_prefix (c : Conn) (bs wire : Bytes) (h : bs <+: wire) :
    (if c.r.isServer then maskFrom c.r.maskKey c.r.maskPos bs else bs) <+: unmask c wire := by
  obtain ⟨t, rfl⟩ := h
  unfold unmask
  cases c.r.isServer
  · simp only [Bool.false_eq_true, if_false]
    exact List.prefix_append _ _
  · simp only [if_true]
    rw [maskFrom_append]
    exact List.prefix_append _ _

/-- messageReader.Read inside a frame whose bytes may stop arriving: a prefix of the rest of the frame,
    and an error (never io.EOF) if the stream ended -/
theorem mrRead_cut (S : Bool) (c : Conn) (rid k : Nat) (wire : Bytes) (more : List PFrame) (m : Nat)
    (hst : CSt S c wire more m) (hw : wire ≠ []) (hk : 0 < k) (fuel : Nat) :
    (∃ out c' wire' m', mrReadLoop (fuel + 1) c rid k = ((out, none), c') ∧ CSt S c' wire' more m' ∧
      Keep c c' ∧ c'.r.msgReader = c.r.msgReader ∧ c'.r.length = c.r.length ∧
      unmask c wire = out ++ unmask c' wire') ∨
    (∃ out e c', mrReadLoop (fuel + 1) c rid k = ((out, some e), c') ∧ e ≠ .eof ∧ out <+: unmask c wire) := by
  have hwl : 0 < wire.length := List.length_pos_iff.mpr hw
  have hpos : c.r.remaining > 0 := by rw [hst.rem]; omega
  have hk' : 0 < min k c.r.remaining.toNat := by omega
  obtain ⟨r1, r2, r3, r4, r5, r6, r7⟩ := read_spec c.r.buf hst.env.wf _ hk'
  have ht := read_total c.r.buf (min k c.r.remaining.toNat)
  have hcut := hst.cut
  have hrem := hst.rem
  unfold mrReadLoop
  simp only [hst.noErr]
  rw [if_pos hpos]
  generalize c.r.buf.read (min k c.r.remaining.toNat) = r at r1 r2 r3 r4 r5 r6 r7 ht ⊢
  obtain ⟨bs, e, b'⟩ := r
  simp only [] at r1 r2 r3 r4 r5 r6 r7 ht ⊢
  have hpl : c.r.buf.pending.length = m := by
    rw [hst.pend, List.length_take]; omega
  have hbm : bs.length + b'.pending.length = m := by
    rw [← hpl, ← r1, List.length_append]
  have hbw : bs.length ≤ wire.length := by omega
  have hpre : bs = wire.take bs.length := by
    have h1 : (bs ++ b'.pending).take bs.length = ((wire ++ encAll S more).take m).take bs.length := by
      rw [r1, hst.pend]
    rw [List.take_left' rfl, List.take_take, Nat.min_eq_left (by omega), List.take_append_of_le_length hbw] at h1
    exact h1
  have hxs : wire = bs ++ wire.drop bs.length := by
    conv => lhs; rw [← List.take_append_drop bs.length wire]
    rw [← hpre]
  have hpend : b'.pending = (wire.drop bs.length ++ encAll S more).take (m - bs.length) := by
    have h1 : (bs ++ b'.pending).drop bs.length = ((wire ++ encAll S more).take m).drop bs.length := by
      rw [r1, hst.pend]
    rw [List.drop_left' rfl, List.drop_take, List.drop_append_of_le_length hbw] at h1
    exact h1
  cases e with
  | none =>
    left
    have he : ∀ x : Bool, (if (x && decide ((none : Option RErr) = some RErr.eof)) = true
        then some RErr.unexpectedEOF else (none : Option RErr)) = none := by intro x; simp
    simp only [he]
    have hkp : Keep c { c with r := { c.r with buf := b', readErr := none, remaining := c.r.remaining - (bs.length : Int), maskPos := if c.r.isServer then (c.r.maskPos + bs.length) % 4 else c.r.maskPos } } :=
      ⟨rfl, rfl, rfl, rfl, ⟨r7.1, r7.2.1, r7.2.2, ht⟩⟩
    refine ⟨_, _, wire.drop bs.length, m - bs.length, rfl,
      ⟨⟨r6, ?_, hst.env.hp, hst.env.hq⟩, hst.srv, rfl, ?_, hpend, ?_, hst.finT, hst.finF, hst.len0⟩,
      hkp, rfl, rfl, ?_⟩
    · show 125 ≤ b'.size
      rw [r7.1]; exact hst.env.size
    · show c.r.remaining - (bs.length : Int) = _
      simp only [List.length_drop]
      omega
    · simp only [List.length_append, List.length_drop] at hcut ⊢
      omega
    · unfold unmask
      simp only []
      cases c.r.isServer
      · exact hxs
      · simp only [if_true]
        conv => lhs; rw [hxs, maskFrom_append]
        congr 1
        exact maskFrom_congr _ (by omega) _
  | some err =>
    right
    obtain ⟨a1, a2⟩ := r4 err rfl
    have hbl : bs.length = m := by rw [a1] at hbm; simpa using hbm
    have hout : (if c.r.isServer then maskFrom c.r.maskKey c.r.maskPos bs else bs) <+: unmask c wire :=
      unmask_prefix c bs wire ⟨_, hxs.symm⟩
    by_cases hee : err = RErr.eof
    · subst hee
      have hcond : (decide (c.r.remaining - (bs.length : Int) > 0) || !c.r.final) = true := by
        cases hfin : c.r.final with
        | false => simp
        | true =>
          have hm := hst.finT hfin
          subst hm
          simp only [encAll_nil, List.append_nil] at hcut
          simp only [Bool.not_true, Bool.or_false, decide_eq_true_eq]
          omega
      rw [hcond]
      simp only [Bool.true_and, decide_true, if_true]
      exact ⟨_, _, _, rfl, (by intro h; cases h), hout⟩
    · have he : ∀ x : Bool, (if (x && decide (some err = some RErr.eof)) = true
          then some RErr.unexpectedEOF else some err) = some err := by intro x; simp [hee]
      simp only [he]
      exact ⟨_, _, _, rfl, hee, hout⟩

theorem mrReadLoop_err (fuel : Nat) (c : Conn) (rid k : Nat) (e : RErr) (h : c.r.readErr = some e)
    (he : e ≠ .eof) : ∃ e', mrReadLoop fuel c rid k = (([], some e'), c) ∧ e' ≠ .eof := by
  cases fuel with
  | zero => exact ⟨.any, rfl, by intro h; cases h⟩
  | succ f =>
    unfold mrReadLoop
    simp only [h]
    refine ⟨_, rfl, ?_⟩
    split
    · intro h; cases h
    · exact he

/-- one messageReader.Read on a cut message: a piece of the message and the invariant again, or an
    error that is not io.EOF together with a prefix of what was left -/
theorem mrReadLoop_cut (S : Bool) (rid k : Nat) (hk : 0 < k) (fuel : Nat) :
    ∀ (c : Conn) (wire : Bytes) (more : List PFrame) (m : Nat), CSt S c wire more m → c.r.msgReader = some rid →
      LenOk c (dataPayload more).length →
      (∃ out c' wire' more' m', mrReadLoop fuel c rid k = ((out, none), c') ∧ CSt S c' wire' more' m' ∧
        c'.r.msgReader = some rid ∧ LenOk c' (dataPayload more').length ∧
        unmask c wire ++ dataPayload more = out ++ (unmask c' wire' ++ dataPayload more')) ∨
      (∃ out e c', mrReadLoop fuel c rid k = ((out, some e), c') ∧ e ≠ .eof ∧
        out <+: unmask c wire ++ dataPayload more) := by
  induction fuel with
  | zero =>
    intro c wire more m _ _ _
    right
    exact ⟨[], .any, c, rfl, (by intro h; cases h), List.nil_prefix⟩
  | succ fuel ih =>
    intro c wire more m hst hm hl
    by_cases hw : wire = []
    · subst hw
      have hrem : ¬ c.r.remaining > 0 := by have := hst.rem; simp at this; omega
      cases hfin : c.r.final with
      | true =>
        exfalso
        have hmore := hst.finT hfin
        subst hmore
        have := hst.cut
        simp at this
      | false =>
        rcases cstep_tail S c more m hst hfin 0 (by simpa using hl) with ⟨e, c', a1, a2⟩ |
          ⟨t, c', wire', more', m', a1, a2, a3, a4, a5, a6, a7, a8⟩
        · right
          have hstep : mrReadLoop (fuel + 1) c rid k =
              mrReadLoop fuel { c' with r := { c'.r with readErr := some e } } rid k := by
            conv => lhs; unfold mrReadLoop
            simp only [hst.noErr]
            rw [if_neg hrem]
            simp only [hfin, Bool.false_eq_true, if_false, a1]
          obtain ⟨e', b1, b2⟩ := mrReadLoop_err fuel { c' with r := { c'.r with readErr := some e } } rid k e rfl a2
          rw [hstep, b1]
          exact ⟨[], e', _, rfl, b2, List.nil_prefix⟩
        · have hstep : mrReadLoop (fuel + 1) c rid k = mrReadLoop fuel c' rid k := by
            conv => lhs; unfold mrReadLoop
            simp only [hst.noErr]
            rw [if_neg hrem]
            simp only [hfin, Bool.false_eq_true, if_false, a1, a2]
          rw [hstep]
          rcases ih c' wire' more' m' a3 (by rw [a5]; exact hm) (by simpa using a7) with
            ⟨out, c2, w2, m2, n2, b1, b2, b3, b4, b5⟩ | ⟨out, e, c2, b1, b2, b3⟩
          · left
            refine ⟨out, c2, w2, m2, n2, b1, b2, b3, b4, ?_⟩
            rw [unmask_nil, List.nil_append, ← a8, b5]
          · right
            refine ⟨out, e, c2, b1, b2, ?_⟩
            rw [unmask_nil, List.nil_append, ← a8]
            exact b3
    · rcases mrRead_cut S c rid k wire more m hst hw hk fuel with
        ⟨out, c', wire', m', a1, a2, a3, a4, a5, a6⟩ | ⟨out, e, c', a1, a2, a3⟩
      · left
        refine ⟨out, c', wire', more, m', a1, a2, by rw [a4]; exact hm, ?_, ?_⟩
        · unfold LenOk at hl ⊢; rw [a5, a3.limit]; exact hl
        · rw [a6, List.append_assoc]
      · right
        exact ⟨out, e, c', a1, a2, a3.trans (List.prefix_append _ _)⟩

theorem readAllLoop_stop (fuel : Nat) (c : Conn) (rid k : Nat) (acc : List Bytes) (bs : Bytes) (e : RErr) (c' : Conn)
    (h : mrRead c rid k = ((bs, some e), c')) (he : e ≠ .eof) :
    readAllLoop (fuel + 1) c rid k acc = (((bs :: acc).reverse.flatten, some e), c') := by
  unfold readAllLoop
  rw [h]
  cases e <;> first | exact absurd rfl he | rfl

/-- reading a cut message to its "end": always an error that is not io.EOF, after a prefix -/
theorem readAllLoop_cut (S : Bool) (rid k : Nat) (hk : 0 < k) (fuel : Nat) :
    ∀ (c : Conn) (wire : Bytes) (more : List PFrame) (m : Nat) (acc : List Bytes), CSt S c wire more m →
      c.r.msgReader = some rid → LenOk c (dataPayload more).length →
      ∃ got e c2, readAllLoop fuel c rid k acc = ((acc.reverse.flatten ++ got, some e), c2) ∧ e ≠ .eof ∧
        got <+: unmask c wire ++ dataPayload more := by
  induction fuel with
  | zero =>
    intro c wire more m acc _ _ _
    exact ⟨[], .any, c, (by simp [readAllLoop]), (by intro h; cases h), List.nil_prefix⟩
  | succ fuel ih =>
    intro c wire more m acc hst hm hl
    have hmr : mrRead c rid k = mrReadLoop (c.fuel + 1) c rid k := by
      unfold mrRead
      rw [if_neg (by rw [hm]; simp)]
    rcases mrReadLoop_cut S rid k hk (c.fuel + 1) c wire more m hst hm hl with
      ⟨out, c2, w2, m2, n2, b1, b2, b3, b4, b5⟩ | ⟨out, e, c2, b1, b2, b3⟩
    · obtain ⟨got, e, c3, d1, d2, d3⟩ := ih c2 w2 m2 n2 (out :: acc) b2 b3 b4
      refine ⟨out ++ got, e, c3, ?_, d2, ?_⟩
      · unfold readAllLoop
        rw [hmr, b1]
        simp only []
        rw [d1]
        simp [List.append_assoc]
      · rw [b5]
        exact (List.prefix_append_right_inj out).mpr d3
    · refine ⟨out, e, c2, ?_, b2, b3⟩
      rw [readAllLoop_stop fuel c rid k acc out e c2 (by rw [hmr, b1]) b2]
      simp

/-- an idle reader in front of a message whose bytes stop arriving after `m` bytes -/
structure CIdle (S : Bool) (t : Nat) (c : Conn) (fs : List PFrame) (m : Nat) : Prop where
  env : CEnv c
  srv : c.r.isServer = S
  noErr : c.r.readErr = none
  rem : c.r.remaining = 0
  fin : c.r.final = true
  len0 : 0 ≤ c.r.length
  pend : c.r.buf.pending = (encAll S fs).take m
  cut : m < (encAll S fs).length
  shape : MsgShape t fs
  lenOk : LenOk c (dataPayload fs).length

/-- the loop of NextReader on a cut message: an error, or the message is opened and its rest is cut -/
theorem nextReaderLoop_cut (S : Bool) (t : Nat) (ht : t = 1 ∨ t = 2) (fuel : Nat) :
    ∀ (c : Conn) (fs : List PFrame) (m : Nat), CIdle S t c fs m →
      (∃ e c1, nextReaderLoop fuel c = (.err e, c1)) ∨
      (∃ c1 wire1 more1 m1, nextReaderLoop fuel c = (.msg t c.r.nextId false, c1) ∧ CSt S c1 wire1 more1 m1 ∧
        c1.r.msgReader = some c.r.nextId ∧ LenOk c1 (dataPayload more1).length ∧
        unmask c1 wire1 ++ dataPayload more1 = dataPayload fs) := by
  induction fuel with
  | zero => intro c fs m _; left; exact ⟨.any, c, rfl⟩
  | succ fuel ih =>
    intro c fs m hi
    have hp := hi.pend
    have hcut := hi.cut
    have hl := hi.lenOk
    have htb : (t == 1 || t == 2) = true := by rcases ht with h | h <;> rw [h] <;> rfl
    cases hi.shape with
    | single f h1 h2 h3 =>
      have hd : f.isCtl = false := isCtl_of_data (by omega)
      rw [dataPayload_data _ hd] at hl
      rcases cadv_data S c f [] m hi.env hi.srv hi.noErr hi.rem hp hcut (Or.inr ⟨by omega, hi.fin⟩) h3 hi.len0
        (fun _ => rfl) (fun h => by rw [h2] at h; cases h) 0 (by simpa using hl) with
        ⟨e, c', a1, a2⟩ | ⟨c', m', a1, a2, a3, a4, a5, a6, a7, a8⟩
      · left
        unfold nextReaderLoop
        simp only [hi.noErr, a1]
        exact ⟨_, _, rfl⟩
      · right
        refine ⟨{ c' with r := { c'.r with msgReader := some c'.r.nextId, nextId := c'.r.nextId + 1 } }, _, [], m', ?_,
          a2.congr rfl rfl rfl rfl rfl rfl rfl a2.len0, ?_, ?_, ?_⟩
        · unfold nextReaderLoop
          simp only [hi.noErr, a1, htb, if_true, a6, h1, a5]
        · simp only [a5]
        · exact (by simpa using a7 : LenOk c' _)
        · show unmask c' _ ++ _ = _
          rw [a8, dataPayload_data _ hd]
    | frag f fs' h1 h2 h3 h4 =>
      have hd : f.isCtl = false := isCtl_of_data (by omega)
      rw [dataPayload_data _ hd] at hl
      rw [encAll_cons] at hp hcut
      rcases cadv_data S c f fs' m hi.env hi.srv hi.noErr hi.rem hp hcut (Or.inr ⟨by omega, hi.fin⟩) h3 hi.len0
        (fun h => by rw [h2] at h; cases h) (fun _ => h4) 0 (by simpa using hl) with
        ⟨e, c', a1, a2⟩ | ⟨c', m', a1, a2, a3, a4, a5, a6, a7, a8⟩
      · left
        unfold nextReaderLoop
        simp only [hi.noErr, a1]
        exact ⟨_, _, rfl⟩
      · right
        refine ⟨{ c' with r := { c'.r with msgReader := some c'.r.nextId, nextId := c'.r.nextId + 1 } }, _, fs', m', ?_,
          a2.congr rfl rfl rfl rfl rfl rfl rfl a2.len0, ?_, ?_, ?_⟩
        · unfold nextReaderLoop
          simp only [hi.noErr, a1, htb, if_true, a6, h1, a5]
        · simp only [a5]
        · exact (by simpa using a7 : LenOk c' _)
        · show unmask c' _ ++ _ = _
          rw [a8, dataPayload_data _ hd]
    | ctl f fs' h1 h4 =>
      have hd : f.isCtl = true := isCtl_of_ctlOk h1
      rw [encAll_cons] at hp hcut
      rcases cadv_ctl S c f fs' m hi.env hi.srv hi.rem hp h1 with ⟨e, c', a1, a2⟩ |
        ⟨c', a1, a2, a3, a4, a5, a6, a7, a8, a9, a10, a11⟩
      · left
        unfold nextReaderLoop
        simp only [hi.noErr, a1]
        exact ⟨_, _, rfl⟩
      · have htf : (f.op == 1 || f.op == 2) = false := by rcases h1.1 with h | h <;> rw [h] <;> rfl
        have hstep : nextReaderLoop (fuel + 1) c = nextReaderLoop fuel c' := by
          conv => lhs; unfold nextReaderLoop
          simp only [hi.noErr, a1, htf, Bool.false_eq_true, if_false]
        rw [hstep]
        have hi' : CIdle S t c' fs' (m - (f.enc S).length) := by
          refine ⟨a3, a2.isServer.trans hi.srv, ?_, a7, ?_, ?_, a11, ?_, h4, ?_⟩
          · rw [a4]; exact hi.noErr
          · rw [a8]; exact hi.fin
          · rw [a9]; exact hi.len0
          · simp only [List.length_append] at hcut
            omega
          · unfold LenOk at hl ⊢
            rw [a9, a2.limit]
            simpa [dataPayload_ctl _ hd] using hl
        rcases ih c' fs' _ hi' with ⟨e, c1, b1⟩ | ⟨c1, w1, m1, n1, b1, b2, b3, b4, b5⟩
        · left; exact ⟨e, c1, b1⟩
        · right
          refine ⟨c1, w1, m1, n1, by rw [b1, a6], b2, by rw [b3, a6], b4, ?_⟩
          rw [b5, dataPayload_ctl _ hd]

theorem nrFinish_err (e : RErr) (c1 : Conn) :
    WS.RobustAux.nrFinish (.err e, c1) =
      if c1.r.errCount + 1 ≥ 1000 then (.panic, { c1 with r := { c1.r with errCount := c1.r.errCount + 1 } })
      else (.err (c1.r.readErr.getD .any), { c1 with r := { c1.r with errCount := c1.r.errCount + 1 } }) := rfl

theorem nrFinish_msg (t rid : Nat) (z : Bool) (c1 : Conn) :
    WS.RobustAux.nrFinish (.msg t rid z, c1) = (.msg t rid z, c1) := rfl

/-- NextReader on a cut message: the message is opened (its rest is cut), or an error is returned, or
    (1000th failed call) the documented panic -/
theorem nextReader_cut (S : Bool) (t : Nat) (ht : t = 1 ∨ t = 2) (c : Conn) (fs : List PFrame) (m : Nat)
    (hi : CIdle S t (WS.RobustAux.c0 c) fs m) :
    (∃ c1 rid wire1 more1 m1, nextReader c = (.msg t rid false, c1) ∧ CSt S c1 wire1 more1 m1 ∧
      c1.r.msgReader = some rid ∧ LenOk c1 (dataPayload more1).length ∧
      unmask c1 wire1 ++ dataPayload more1 = dataPayload fs) ∨
    (∃ e c1, nextReader c = (.err e, c1) ∧ c.r.errCount + 1 < 1000) ∨
    (∃ c1, nextReader c = (.panic, c1) ∧ 1000 ≤ c.r.errCount + 1) := by
  have hne : c.r.readErr = none := hi.noErr
  have hres : WS.RobustAux.nrRes c = nextReaderLoop c.fuel (WS.RobustAux.c0 c) := by
    unfold WS.RobustAux.nrRes
    rw [hne]
  have hec := (WS.RobustAux.nextReaderLoop_spec c.fuel (WS.RobustAux.c0 c)).1
  rw [WS.RobustAux.nextReader_eq, hres]
  rcases nextReaderLoop_cut S t ht c.fuel (WS.RobustAux.c0 c) fs m hi with
    ⟨e, c1, b1⟩ | ⟨c1, w1, m1, n1, b1, b2, b3, b4, b5⟩
  · right
    rw [b1] at hec
    have hec' : c1.r.errCount = c.r.errCount := hec
    rw [b1, nrFinish_err, hec']
    by_cases hcnt : c.r.errCount + 1 ≥ 1000
    · right
      rw [if_pos hcnt]
      exact ⟨_, rfl, hcnt⟩
    · left
      rw [if_neg hcnt]
      exact ⟨_, _, rfl, by omega⟩
  · left
    rw [b1, nrFinish_msg]
    exact ⟨c1, _, w1, m1, n1, rfl, b2, b3, b4, b5⟩

end WS.CutLoops
