import WS.Lemmas.Content
import WS.Lemmas.WireInv
/-
  Helper lemmas for WriterMore.lean: the healthy, fault-free write path restated with the extra
  information the key theorems need (which masking key every frame carries, how the process-wide
  key source advances), and for frame types other than data (ping / pong through WriteMessage).
-/
namespace WS.KeyFlow
open WS WS.Codec WS.Stream WS.Flow WS.Content

/-- the `i`-th draw from a key source -/
def keyOf (keys : Bytes) (i : Nat) : Key :=
  match Key.ofBytes ((keys.drop (4 * (if keys.length / 4 = 0 then 0 else i % (keys.length / 4)))).take 4) with
  | some k => k
  | none => default

theorem newKey_fst (s : W) : (newKey s).1 = keyOf s.keys s.keyIdx := rfl

/-- the key-source part of the state -/
def kc (s : W) : Bytes × Nat := (s.keys, s.keyIdx)

theorem kc_keys {s s' : W} (h : kc s' = kc s) : s'.keys = s.keys := congrArg Prod.fst h
theorem kc_keyIdx {s s' : W} (h : kc s' = kc s) : s'.keyIdx = s.keyIdx := congrArg Prod.snd h

theorem kc_tSetWD (s : W) (d : Int) : kc (tSetWD s d).2 = kc s := by
  unfold tSetWD; dsimp only; split <;> rfl

theorem kc_tWrite (s : W) (b : Bytes) : kc (tWrite s b).2 = kc s := by
  unfold tWrite; dsimp only; split <;> rfl

theorem kc_writeBufs (s : W) (b0 b1 : Bytes) : kc (writeBufs s b0 b1).2 = kc s := by
  unfold writeBufs
  split
  · exact kc_tWrite s b0
  · have h0 := kc_tWrite s b0
    split
    · rename_i e s1 heq; rw [heq] at h0; exact h0
    · rename_i s1 heq; rw [heq] at h0; exact (kc_tWrite s1 b1).trans h0

theorem kc_writeFatal (s : W) (e : WErr) : kc (writeFatal s e) = kc s := by
  unfold writeFatal; split <;> rfl

theorem kc_connWrite (s : W) (ft d : Int) (b0 b1 : Bytes) : kc (connWrite s ft d b0 b1).2 = kc s := by
  unfold connWrite
  split
  · rfl
  · have h1 := kc_tSetWD s d
    split
    · rename_i e s1 heq; rw [heq] at h1; exact (kc_writeFatal _ _).trans h1
    · rename_i s1 heq; rw [heq] at h1
      have h2 := kc_writeBufs s1 b0 b1
      split
      · rename_i e s2 heq2; rw [heq2] at h2; exact (kc_writeFatal _ _).trans (h2.trans h1)
      · rename_i s2 heq2; rw [heq2] at h2
        dsimp only
        split
        · exact (kc_writeFatal _ _).trans (h2.trans h1)
        · exact h2.trans h1

theorem kc_poolPut (s : W) : kc (poolPut s) = kc s := by
  unfold poolPut; split <;> rfl

theorem kc_poolGet (s : W) : kc (poolGet s) = kc s := by
  unfold poolGet; split <;> rfl

theorem kc_ensureBuf (s : W) : kc (ensureBuf s) = kc s := by
  unfold ensureBuf; split
  · exact kc_poolGet s
  · rfl

theorem kc_endMessage (s : W) (m : MW) (e : WErr) : kc (endMessage s m e).1 = kc s := by
  unfold endMessage
  split
  · rfl
  · dsimp only
    split
    · exact (kc_poolPut _).trans rfl
    · rfl

theorem encode_server_key (b0 : Nat) (k k' : Key) (p : Bytes) : encode true b0 k p = encode true b0 k' p := by
  simp [encode, header]

/-- `frameWrite_ok` for every non-close frame type, with the key and the key-source bookkeeping -/
theorem frameWrite_ok2 (s : W) (m : MW) (final : Bool) (extra : Bytes) (he : s.writeErr = none)
    (hf : s.faults = []) (hft : ((m.ft : Int) == 8) = false) (hc : m.compress = false)
    (hx : s.isServer = true ∨ extra = []) :
    (frameWrite s m final extra).1 = none ∧ Keep s (frameWrite s m final extra).2 ∧
      (frameWrite s m final extra).2.wire =
        s.wire ++ encode s.isServer (m.ft + (if final then 128 else 0)) (keyOf s.keys s.keyIdx) (m.buf ++ extra) ∧
      (frameWrite s m final extra).2.writer = s.writer ∧
      (frameWrite s m final extra).2.keys = s.keys ∧
      (frameWrite s m final extra).2.keyIdx = s.keyIdx + (if s.isServer then 0 else 1) := by
  have h1 : Gen.finalBit.toNat = 128 := by decide
  unfold frameWrite
  dsimp only
  split
  · rename_i hsv
    have h := connWrite_ok s m.ft s.deadline
      (header true (m.ft + (if final then Gen.finalBit.toNat else 0) + (if m.compress then Gen.rsv1Bit.toNat else 0))
        (m.buf.length + extra.length) default ++ m.buf) extra he hf hft
    have hk := kc_connWrite s m.ft s.deadline
      (header true (m.ft + (if final then Gen.finalBit.toNat else 0) + (if m.compress then Gen.rsv1Bit.toNat else 0))
        (m.buf.length + extra.length) default ++ m.buf) extra
    refine ⟨h.1, h.2.1, ?_, h.2.2.2, kc_keys hk, ?_⟩
    · rw [h.2.2.1, hsv, hc, h1, encode_server_key _ _ default]
      simp [encode, List.length_append]
    · rw [kc_keyIdx hk]; simp
  · rename_i hsv
    have hsv' : s.isServer = false := by simpa using hsv
    have hex : extra = [] := by
      rcases hx with h | h
      · rw [h] at hsv'; cases hsv'
      · exact h
    subst hex
    simp only [List.isEmpty_nil, Bool.not_true, Bool.false_eq_true, if_false]
    have h := connWrite_ok (newKey s).2 m.ft (newKey s).2.deadline
      (header false (m.ft + (if final then Gen.finalBit.toNat else 0) + (if m.compress then Gen.rsv1Bit.toNat else 0))
        (m.buf.length + ([] : Bytes).length) (newKey s).1 ++ maskFrom (newKey s).1 0 m.buf) [] he hf hft
    have hk := kc_connWrite (newKey s).2 m.ft (newKey s).2.deadline
      (header false (m.ft + (if final then Gen.finalBit.toNat else 0) + (if m.compress then Gen.rsv1Bit.toNat else 0))
        (m.buf.length + ([] : Bytes).length) (newKey s).1 ++ maskFrom (newKey s).1 0 m.buf) []
    refine ⟨h.1, (Keep.newKey s).trans h.2.1, ?_, h.2.2.2, (kc_keys hk).trans rfl, ?_⟩
    · rw [h.2.2.1, hsv', hc, h1, ← newKey_fst]
      simp [encode]
      rfl
    · rw [kc_keyIdx hk]; rfl

/-- flushFrame on a healthy fault-free connection, for any frame that passes the control check -/
theorem flushFrame_ok2 (s : W) (m : MW) (final : Bool) (extra : Bytes) (he : s.writeErr = none)
    (hf : s.faults = []) (hft : ((m.ft : Int) == 8) = false) (hc : m.compress = false)
    (hx : s.isServer = true ∨ extra = []) (hm : m.err = none)
    (hctl : isControl (m.ft : Int) = false ∨ (final = true ∧ m.buf.length + extra.length ≤ maxControlPayload)) :
    (flushFrame s m final extra).1 = none ∧ Keep s (flushFrame s m final extra).2.1 ∧
      (flushFrame s m final extra).2.1.wire =
        s.wire ++ encode s.isServer (m.ft + (if final then 128 else 0)) (keyOf s.keys s.keyIdx) (m.buf ++ extra) ∧
      (flushFrame s m final extra).2.1.writer = (if final then none else s.writer) ∧
      (flushFrame s m final extra).2.1.keys = s.keys ∧
      (flushFrame s m final extra).2.1.keyIdx = s.keyIdx + (if s.isServer then 0 else 1) ∧
      (final = true → (flushFrame s m final extra).2.2.err.isSome) ∧
      (final = false → (flushFrame s m final extra).2.2 = { m with compress := false, buf := [], ft := 0 }) := by
  have hcond : (isControl (m.ft : Int) && (!final || decide (m.buf.length + extra.length > maxControlPayload))) = false := by
    rcases hctl with h | ⟨h1, h2⟩
    · simp [h]
    · subst h1
      have : ¬ (m.buf.length + extra.length > maxControlPayload) := by omega
      simp [this]
  have hfw := frameWrite_ok2 s m final extra he hf hft hc hx
  unfold flushFrame
  rw [hcond]
  simp only [Bool.false_eq_true, if_false]
  split
  · rename_i e s' heq
    rw [heq] at hfw
    exact absurd hfw.1 (by simp)
  · rename_i s' heq
    rw [heq] at hfw
    obtain ⟨_, hk, hw, hwr, hks, hki⟩ := hfw
    dsimp only at hk hw hwr hks hki
    cases final with
    | true =>
      simp only [if_true]
      have hkc := kc_endMessage s' { m with compress := false } .writeClosed
      refine ⟨trivial, hk.trans (Keep.endMessage _ _ _), ?_, endMessage_writer _ _ _ hm, ?_, ?_,
        fun _ => endMessage_err _ _ _, fun h => by cases h⟩
      · rw [endMessage_wire]; simpa using hw
      · rw [kc_keys hkc]; exact hks
      · rw [kc_keyIdx hkc]; exact hki
    | false =>
      simp only [Bool.false_eq_true, if_false]
      refine ⟨trivial, hk, by simpa using hw, hwr, hks, hki, ?_, ?_⟩ <;> simp

/-! ### the keys of the frames on the wire -/

/-- summary of a wire of whole frames: the mask fields, in order -/
def KSt (w : Bytes) (K : List (Option Key)) : Prop :=
  ∃ fs, Spec.decodeStream w = some fs ∧ fs.map (·.mask) = K

theorem KSt.prefix {w K} (h : KSt w K) : (Spec.decodePrefixAux w.length w).map (·.mask) = K := by
  obtain ⟨fs, hd, hK⟩ := h
  rw [decodePrefix_of_stream w fs hd]
  exact hK

theorem KSt.of_idle {s : W} (hi : Idle s) :
    KSt s.wire ((Spec.decodePrefixAux s.wire.length s.wire).map (·.mask)) := by
  obtain ⟨fs, hd, _⟩ := hi.whole
  exact ⟨fs, hd, by rw [decodePrefix_of_stream s.wire fs hd]⟩

theorem KSt.frame {w K} (h : KSt w K) (sv : Bool) (b0 : Nat) (key : Key) (payload : Bytes)
    (hb : b0 < 256) (hl : payload.length < 2 ^ 63) :
    KSt (w ++ encode sv b0 key payload) (K ++ [if sv then none else some key]) := by
  obtain ⟨fs, hd, hK⟩ := h
  have hf : Spec.decodeFrame (encode sv b0 key payload) = some (frameOf sv b0 key payload, []) := by
    have := decode_encode sv b0 key payload [] hb hl
    simpa using this
  refine ⟨fs ++ [frameOf sv b0 key payload], decodeStream_snoc w _ fs _ hd hf, ?_⟩
  rw [List.map_append, hK]
  rfl

/-- progress of one WriteMessage relative to its start (`sv`, `keys`, `k0`, `K0`): `n` frames
    written so far, each carrying the next draw (clients) or no key (servers) -/
structure KInv (sv : Bool) (keys : Bytes) (k0 : Nat) (K0 : List (Option Key)) (s : W) (n : Nat) : Prop where
  hsv : s.isServer = sv
  hkeys : s.keys = keys
  hidx : s.keyIdx = k0 + (if sv then 0 else n)
  hwire : KSt s.wire (K0 ++ (List.range n).map (fun i => if sv then none else some (keyOf keys (k0 + i))))

theorem KInv.start {s : W} (hi : Idle s) :
    KInv s.isServer s.keys s.keyIdx ((Spec.decodePrefixAux s.wire.length s.wire).map (·.mask)) s 0 := by
  refine ⟨rfl, rfl, by simp, ?_⟩
  simpa using KSt.of_idle hi

theorem KInv.congr {sv keys k0 K0 n} {s s' : W} (h : KInv sv keys k0 K0 s n) (h1 : s'.isServer = s.isServer)
    (h2 : s'.keys = s.keys) (h3 : s'.keyIdx = s.keyIdx) (h4 : s'.wire = s.wire) : KInv sv keys k0 K0 s' n :=
  ⟨h1.trans h.hsv, h2.trans h.hkeys, h3.trans h.hidx, by rw [h4]; exact h.hwire⟩

/-- one more frame -/
theorem KInv.step {sv keys k0 K0 n} {s s' : W} (h : KInv sv keys k0 K0 s n) (b0 : Nat) (payload : Bytes)
    (hb : b0 < 256) (hl : payload.length < 2 ^ 63)
    (h1 : s'.isServer = s.isServer) (h2 : s'.keys = s.keys)
    (h3 : s'.keyIdx = s.keyIdx + (if s.isServer then 0 else 1))
    (h4 : s'.wire = s.wire ++ encode s.isServer b0 (keyOf s.keys s.keyIdx) payload) :
    KInv sv keys k0 K0 s' (n + 1) := by
  obtain ⟨hsv, hks, hki, hw⟩ := h
  refine ⟨h1.trans hsv, h2.trans hks, ?_, ?_⟩
  · rw [h3, hki, hsv]
    cases sv <;> simp <;> omega
  · rw [h4]
    have := hw.frame s.isServer b0 (keyOf s.keys s.keyIdx) payload hb hl
    rw [List.range_succ, List.map_append, ← List.append_assoc]
    rw [hsv, hks, hki] at this ⊢
    cases sv
    · simpa using this
    · simpa using this

/-! ### data messages: the key invariant along the lemmas of Flow.lean -/

section Data
variable {sv : Bool} {keys : Bytes} {k0 : Nat} {K0 : List (Option Key)}

theorem flush_k {s m t M C acc n} (h : MidMW s m t M C acc) (ht : t = 1 ∨ t = 2) (final : Bool) (extra : Bytes)
    (hel : extra.length < 2 ^ 40) (hx : s.isServer = true ∨ extra = []) (hk : KInv sv keys k0 K0 s n) :
    KInv sv keys k0 K0 (flushFrame s m final extra).2.1 (n + 1) := by
  have hft := h.ft_lt ht
  have hcap := h.cap_lt
  have hbl := h.buflen
  have hf := flushFrame_ok2 s m final extra h.healthy h.noFaults (ne8_small _ (by omega)) h.compress hx h.err
    (Or.inl (isControl_small _ (by omega)))
  obtain ⟨_, hkp, hw, _, hks, hki, _, _⟩ := hf
  refine hk.step (m.ft + (if final then 128 else 0)) (m.buf ++ extra) ?_ ?_ hkp.isServer hks hki hw
  · split <;> omega
  · simp only [List.length_append]; omega

theorem ncopyPrep_k {s m t M C acc n} (h : MidMW s m t M C acc) (ht : t = 1 ∨ t = 2)
    (hk : KInv sv keys k0 K0 s n) :
    ∃ n', n ≤ n' ∧ KInv sv keys k0 K0 (ncopyPrep s m).2.1 n' := by
  unfold ncopyPrep
  split
  · exact ⟨n + 1, by omega, flush_k h ht false [] (by simp) (Or.inr rfl) hk⟩
  · exact ⟨n, Nat.le_refl _, hk⟩

theorem copyLoop_k {s m t M C acc n} (p : Bytes) (h : MidMW s m t M C acc) (ht : t = 1 ∨ t = 2)
    (hk : KInv sv keys k0 K0 s n) :
    ∃ n', n ≤ n' ∧ KInv sv keys k0 K0 (copyLoop s m p).2.1 n' := by
  induction hl : p.length using Nat.strongRecOn generalizing s m p acc n with
  | _ len ih =>
    unfold copyLoop
    split
    · exact ⟨n, Nat.le_refl _, hk⟩
    · rename_i hp
      have hpre := ncopyPrep_mid h ht
      have hpk := ncopyPrep_k h ht hk
      split
      · rename_i e s' m' heq
        rw [heq] at hpre
        exact absurd hpre.1 (by simp)
      · rename_i s' m' heq
        rw [heq] at hpre hpk
        obtain ⟨_, _, _, hlt, hmid⟩ := hpre
        obtain ⟨n1, hn1, hk1⟩ := hpk
        dsimp only at hlt hmid hk1
        have hpl : p.length ≠ 0 := by simpa using hp
        split
        · rename_i hn
          omega
        · rename_i hn
          have hdl : (p.drop (min (s'.cap - m'.buf.length) p.length)).length < len := by
            simp only [List.length_drop]; omega
          have hext := hmid.extend (p.take (min (s'.cap - m'.buf.length) p.length))
            (by simp only [List.length_take]; omega)
          obtain ⟨n2, hn2, hk2⟩ := ih _ hdl _ hext hk1 rfl
          exact ⟨n2, by omega, hk2⟩

theorem mwWrite_k {s m t M C acc n} (p : Bytes) (h : MidMW s m t M C acc) (ht : t = 1 ∨ t = 2)
    (hp : p.length < 2 ^ 40) (hk : KInv sv keys k0 K0 s n) :
    ∃ n', n ≤ n' ∧ KInv sv keys k0 K0 (mwWrite s m p).2.1 n' := by
  unfold mwWrite
  rw [h.err]
  dsimp only
  split
  · rename_i hc
    have hsv : s.isServer = true := by
      simp only [Bool.and_eq_true] at hc; exact hc.2
    exact ⟨n + 1, by omega, flush_k h ht false p hp (Or.inl hsv) hk⟩
  · exact copyLoop_k p h ht hk

theorem mwClose_k {s m t M C acc n} (h : MidMW s m t M C acc) (ht : t = 1 ∨ t = 2)
    (hk : KInv sv keys k0 K0 s n) :
    KInv sv keys k0 K0 (mwClose s m).2.1 (n + 1) := by
  unfold mwClose
  rw [h.err]
  exact flush_k h ht true [] (by simp) (Or.inr rfl) hk

theorem hWrite_k {s : W} {h t : Nat} {M C acc n} (hM : Mid s h t M C acc) (ht : t = 1 ∨ t = 2) (p : Bytes)
    (hp : p.length < 2 ^ 40) (hk : KInv sv keys k0 K0 s n) :
    ∃ n', n ≤ n' ∧ KInv sv keys k0 K0 (hWrite s h p []).2 n' := by
  obtain ⟨pre, m, hmws, hdead, hh, hmid⟩ := hM.mw
  have hget := getMW_last s pre m hmws
  unfold hWrite
  rw [hh]
  dsimp only
  rw [hget]
  simp only [Bool.false_eq_true, if_false]
  obtain ⟨n', hn', hk'⟩ := mwWrite_k p hmid ht hp hk
  exact ⟨n', hn', hk'.congr rfl rfl rfl rfl⟩

theorem hClose_k {s : W} {h t : Nat} {M C acc n} (hM : Mid s h t M C acc) (ht : t = 1 ∨ t = 2)
    (hk : KInv sv keys k0 K0 s n) :
    KInv sv keys k0 K0 (hClose s h [] []).2 (n + 1) := by
  obtain ⟨pre, m, hmws, hdead, hh, hmid⟩ := hM.mw
  have hget := getMW_last s pre m hmws
  unfold hClose
  rw [hh]
  dsimp only
  rw [hget]
  exact (mwClose_k hmid ht hk).congr rfl rfl rfl rfl

theorem nextWriter_k {s : W} (hi : Idle s) (t : Nat) (ht : t = 1 ∨ t = 2) {n} (hk : KInv sv keys k0 K0 s n) :
    KInv sv keys k0 K0 (nextWriter s (t : Int) [] []).2 n := by
  have hke := Keep.ensureBuf s
  have hn : (ensureBuf s).nego = false := hke.nego.trans hi.plain
  have hkc := kc_ensureBuf s
  unfold nextWriter
  rw [beginMessage_idle hi t ht]
  simp only [hn, Bool.false_and, Bool.false_eq_true, if_false]
  exact hk.congr hke.isServer (kc_keys hkc) (kc_keyIdx hkc) (ensureBuf_wire s).1

/-- one WriteMessage of a data message writes `n > 0` frames, each with the next key -/
theorem writeMessage_k (s : W) (hi : Idle s) (t : Nat) (ht : t = 1 ∨ t = 2) (data : Bytes)
    (hd : data.length < 2 ^ 40) :
    ∃ n, 0 < n ∧ KInv s.isServer s.keys s.keyIdx ((Spec.decodePrefixAux s.wire.length s.wire).map (·.mask))
      (writeMessage s t data).2 n := by
  have hk0 := KInv.start hi
  unfold writeMessage
  split
  · rename_i hc
    have hsv : s.isServer = true := by
      simp only [Bool.and_eq_true] at hc; exact hc.1
    rw [beginMessage_idle hi t ht]
    dsimp only
    have hk := Keep.ensureBuf s
    have hw0 := ensureBuf_wire s
    have hkc := kc_ensureBuf s
    have hcap : (ensureBuf s).cap < 2 ^ 40 := by
      have := hi.size
      rw [hk.cap]; unfold W.cap; omega
    have hmid : MidMW (ensureBuf s) { ft := t, buf := data.take (min (ensureBuf s).cap data.length) } t
        (wireMessages s) (wireControls s) (data.take (min (ensureBuf s).cap data.length)) := by
      refine ⟨hk.writeErr.trans hi.healthy, hk.faults.trans hi.noFaults, by rw [hk.wbufLen]; exact hi.size,
        rfl, rfl, ?_, [], rfl, Or.inl ⟨rfl, rfl, ?_⟩⟩
      · simp only [List.length_take]; omega
      · rw [hw0.1]; exact hi.wireSt
    have hk1 := hk0.congr (s' := ensureBuf s) hk.isServer (kc_keys hkc) (kc_keyIdx hkc) hw0.1
    exact ⟨1, by omega, flush_k hmid ht true (data.drop (min (ensureBuf s).cap data.length))
      (by simp only [List.length_drop]; omega) (Or.inl (hk.isServer.trans hsv)) hk1⟩
  · have hnw := nextWriter_idle hi t ht
    have hnk := nextWriter_k hi t ht hk0
    split
    · rename_i e s1 heq
      rw [heq] at hnw
      exact absurd hnw.1 (by simp)
    · rename_i h s1 heq
      rw [heq] at hnw hnk
      obtain ⟨hh, hmid⟩ := hnw
      simp only [Except.ok.injEq] at hh
      subst hh
      have hw := hWrite_mid hmid ht data hd false
      obtain ⟨n1, _, hk1⟩ := hWrite_k hmid ht data hd hnk
      split
      · rename_i n e s2 heq2
        rw [heq2] at hw
        exact absurd hw.1 (by simp)
      · rename_i n s2 heq2
        rw [heq2] at hw hk1
        exact ⟨n1 + 1, by omega, hClose_k hw.2 ht hk1⟩

end Data

/-! ### ping / pong through WriteMessage -/

theorem beginMessage_idle_ctl {s : W} (hi : Idle s) (t : Nat) (ht : t = 9 ∨ t = 10) :
    beginMessage s (t : Int) [] [] = (.ok { ft := t }, ensureBuf s) := by
  have hd : (!isControl (t : Int) && !isData (t : Int)) = false := by
    rcases ht with rfl | rfl <;> decide
  unfold beginMessage closePrev beginMessage'
  rw [hi.noWriter]
  simp only [hd, Bool.false_eq_true, if_false, hi.healthy, Int.toNat_natCast]

theorem isControl_ctl (t : Nat) (ht : t = 9 ∨ t = 10) : isControl (t : Int) = true := by
  rcases ht with rfl | rfl <;> decide

theorem ne8_ctl (t : Nat) (ht : t = 9 ∨ t = 10) : ((t : Int) == 8) = false := by
  rcases ht with rfl | rfl <;> decide

theorem isData_ctl (t : Nat) (ht : t = 9 ∨ t = 10) : isData (t : Int) = false := by
  rcases ht with rfl | rfl <;> decide

/-- the final flush of a whole control message held in the buffer (plus `extra` on servers) -/
theorem flush_ctl {s : W} {m : MW} {M C} (t : Nat) (ht : t = 9 ∨ t = 10) (extra : Bytes)
    (he : s.writeErr = none) (hf : s.faults = []) (hft : m.ft = t) (hc : m.compress = false)
    (hm : m.err = none) (hx : s.isServer = true ∨ extra = [])
    (hlen : m.buf.length + extra.length ≤ 125) (hw : WireSt s.wire M C none) :
    (flushFrame s m true extra).1 = none ∧ Keep s (flushFrame s m true extra).2.1 ∧
    (flushFrame s m true extra).2.1.writer = none ∧
    (flushFrame s m true extra).2.2.err.isSome ∧
    WireSt (flushFrame s m true extra).2.1.wire M (C ++ [(t, m.buf ++ extra)]) none := by
  have hmax : maxControlPayload = 125 := by decide
  have hf2 := flushFrame_ok2 s m true extra he hf (by rw [hft]; exact ne8_ctl t ht) hc hx hm
    (Or.inr ⟨rfl, by rw [hmax]; exact hlen⟩)
  obtain ⟨h1, hk, hwire, hwr, _, _, herr, _⟩ := hf2
  refine ⟨h1, hk, by simpa using hwr, herr rfl, ?_⟩
  rw [hwire]
  simp only [if_true, hft]
  have hfr := hw.frame s.isServer (t + 128) (keyOf s.keys s.keyIdx) (m.buf ++ extra)
    (by rcases ht with rfl | rfl <;> omega) (by simp only [List.length_append]; omega)
  have hmc := msgs_control none s.isServer t ht (keyOf s.keys s.keyIdx) (m.buf ++ extra)
  rw [hmc.1, hmc.2.1, hmc.2.2, List.append_nil] at hfr
  exact hfr

/-- a write that fits into the empty buffer is just buffered -/
theorem copyLoop_fits (s : W) (m : MW) (p : Bytes) (hb : m.buf = []) (hp : p.length ≤ s.cap) :
    copyLoop s m p = (none, s, { m with buf := p }) := by
  unfold copyLoop
  split
  · rename_i h
    subst h
    rw [← hb]
  · rename_i hpne
    have hpl : p.length ≠ 0 := by simpa using hpne
    have hnp : ncopyPrep s m = (none, s, m) := by
      unfold ncopyPrep
      rw [hb]
      simp only [List.length_nil]
      rw [if_neg (by omega)]
    rw [hnp]
    dsimp only
    have hmin : min (s.cap - m.buf.length) p.length = p.length := by
      rw [hb]; simp only [List.length_nil]; omega
    rw [dif_neg (by rw [hmin]; exact hpl)]
    rw [hmin, List.take_length, List.drop_length, hb, List.nil_append]
    unfold copyLoop
    simp

theorem hWrite_fits {s : W} {h : Nat} {pre : List MW} {m : MW} (hmws : s.mws = pre ++ [m])
    (hh : s.handles[h]? = some (.plain pre.length)) (herr : m.err = none) (hbuf : m.buf = [])
    (hcl : s.isServer = false) (p : Bytes) (hp : p.length ≤ s.cap) :
    hWrite s h p [] = ((p.length, none), setMW s pre.length { m with buf := p }) := by
  have hget := getMW_last s pre m hmws
  unfold hWrite
  rw [hh]
  dsimp only
  rw [hget]
  simp only [Bool.false_eq_true, if_false]
  unfold mwWrite
  rw [herr]
  dsimp only
  rw [hcl]
  simp only [Bool.and_false, Bool.false_eq_true, if_false]
  rw [copyLoop_fits s m p hbuf hp]
  simp [herr]

theorem hClose_plain {s : W} {h : Nat} {pre : List MW} {m : MW} (hmws : s.mws = pre ++ [m])
    (hh : s.handles[h]? = some (.plain pre.length)) (herr : m.err = none) :
    hClose s h [] [] = ((flushFrame s m true []).1,
      setMW (flushFrame s m true []).2.1 pre.length (flushFrame s m true []).2.2) := by
  have hget := getMW_last s pre m hmws
  unfold hClose
  rw [hh]
  dsimp only
  rw [hget]
  unfold mwClose
  rw [herr]

/-- Write + Close of a control message that fits the buffer, on the handle NextWriter returned -/
theorem ctl_tail {s : W} {h : Nat} {pre : List MW} {m : MW} {M C} (t : Nat) (ht : t = 9 ∨ t = 10)
    (hmws : s.mws = pre ++ [m]) (hh : s.handles[h]? = some (.plain pre.length))
    (hft : m.ft = t) (herr : m.err = none) (hbuf : m.buf = []) (hc : m.compress = false)
    (hcl : s.isServer = false) (he : s.writeErr = none) (hf : s.faults = [])
    (data : Bytes) (hp : data.length ≤ s.cap) (hd : data.length ≤ 125) (hw : WireSt s.wire M C none) :
    ∃ s2 s3 m3, hWrite s h data [] = ((data.length, none), s2) ∧ hClose s2 h [] [] = (none, s3) ∧
      s3.writeErr = none ∧ s3.faults = [] ∧ s3.writer = none ∧ s3.mws = pre ++ [m3] ∧ m3.err.isSome ∧
      s3.wbufLen = s.wbufLen ∧ s3.nego = s.nego ∧ WireSt s3.wire M (C ++ [(t, data)]) none := by
  have hmws2 : (setMW s pre.length { m with buf := data }).mws = pre ++ [{ m with buf := data }] := by
    show s.mws.set pre.length _ = _
    rw [hmws, set_last]
  have hcl2 := hClose_plain (s := setMW s pre.length { m with buf := data }) (h := h) hmws2 hh herr
  have hfl := flush_ctl (s := setMW s pre.length { m with buf := data }) (m := { m with buf := data })
    (M := M) (C := C) t ht [] he hf hft hc herr (Or.inr rfl) (by simpa using hd) hw
  obtain ⟨h1, hk, hwr, herr3, hws⟩ := hfl
  rw [h1] at hcl2
  refine ⟨_, _, _, hWrite_fits hmws hh herr hbuf hcl data hp, hcl2, hk.writeErr.trans he, hk.faults.trans hf,
    hwr, ?_, herr3, hk.wbufLen, hk.nego, ?_⟩
  · show (flushFrame _ _ true []).2.1.mws.set pre.length _ = _
    rw [hk.mws, hmws2, set_last]
  · have hws' : WireSt (flushFrame (setMW s pre.length { m with buf := data }) { m with buf := data } true []).2.1.wire
        M (C ++ [(t, data)]) none := by simpa using hws
    exact hws'

end WS.KeyFlow
