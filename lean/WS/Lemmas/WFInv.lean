import WS.Lemmas.WFSpec
import WS.Lemmas.Writer
/-
  State invariant behind C02 at frame level: the wire decodes to a well-formed frame list, and the
  fragmentation state of that list (`endsInMsg`) agrees with the one live messageWriter, if any.
-/
namespace WS.WFInv
open WS WS.Spec WS.Codec WS.WFSpec

structure Cfg where
  sv : Bool
  ng : Bool
  L : Nat
  F : List (Nat × Fault)

def Cfg.ctx (c : Cfg) : Ctx := ⟨!c.sv, c.ng⟩

/-- what the functions working on a messageWriter copy never change -/
structure Fr (s s' : W) : Prop where
  isv : s'.isServer = s.isServer
  nego : s'.nego = s.nego
  len : s'.wbufLen = s.wbufLen
  flt : s'.faults = s.faults
  mws : s'.mws = s.mws
  handles : s'.handles = s.handles

theorem Fr.refl (s : W) : Fr s s := ⟨rfl, rfl, rfl, rfl, rfl, rfl⟩

theorem Fr.trans {a b c : W} (h1 : Fr a b) (h2 : Fr b c) : Fr a c :=
  ⟨h2.isv.trans h1.isv, h2.nego.trans h1.nego, h2.len.trans h1.len, h2.flt.trans h1.flt,
    h2.mws.trans h1.mws, h2.handles.trans h1.handles⟩

/-- the wire, possibly completed by the unsent rest of a failed write, decodes to well-formed frames;
    `o` = a data message is open at the end -/
def WOK (c : Cfg) (wire : Bytes) (we : Option WErr) (o : Bool) : Prop :=
  ∃ (more : Bytes) (fs : List Frame), decodeStream (wire ++ more) = some fs ∧ WellFormed c.ctx fs ∧
    ((we = none ∨ c.F = []) → more = []) ∧ (we = none → endsInMsg false fs = o)

theorem WOK.of_some {c : Cfg} {w : Bytes} {e : WErr} {o o' : Bool} (h : WOK c w (some e) o) :
    WOK c w (some e) o' := by
  obtain ⟨more, fs, h1, h2, h3, _⟩ := h
  exact ⟨more, fs, h1, h2, h3, fun h => by cases h⟩

theorem WOK.to_some {c : Cfg} {w : Bytes} {o o' : Bool} (e : WErr) (h : WOK c w none o) :
    WOK c w (some e) o' := by
  obtain ⟨more, fs, h1, h2, h3, _⟩ := h
  exact ⟨more, fs, h1, h2, fun _ => h3 (Or.inl rfl), fun h => by cases h⟩

structure Inn (c : Cfg) (s : W) (o : Bool) : Prop where
  isv : s.isServer = c.sv
  nego : s.nego = c.ng
  len : s.wbufLen = c.L
  flt : s.faults = c.F
  lo : maxFrameHeaderSize < c.L
  hi : c.L < 2 ^ 40
  wire : WOK c s.wire s.writeErr o

theorem Inn.fr {c : Cfg} {s s' : W} {o o' : Bool} (h : Inn c s o) (f : Fr s s')
    (hw : WOK c s'.wire s'.writeErr o') : Inn c s' o' :=
  ⟨f.isv.trans h.isv, f.nego.trans h.nego, f.len.trans h.len, f.flt.trans h.flt, h.lo, h.hi, hw⟩

theorem Inn.same {c : Cfg} {s s' : W} {o : Bool} (h : Inn c s o) (f : Fr s s')
    (h1 : s'.wire = s.wire) (h2 : s'.writeErr = s.writeErr) : Inn c s' o :=
  h.fr f (by rw [h1, h2]; exact h.wire)

theorem Inn.reo {c : Cfg} {s : W} {o o' : Bool} (h : Inn c s o) (he : s.writeErr.isSome) : Inn c s o' := by
  refine h.fr (Fr.refl s) ?_
  have := h.wire
  cases hx : s.writeErr with
  | none => rw [hx] at he; cases he
  | some e => rw [hx] at this; exact this.of_some

/-! ### transport -/

theorem tSetWD_fr (s : W) (d : Int) :
    Fr s (tSetWD s d).2 ∧ (tSetWD s d).2.wire = s.wire ∧ (tSetWD s d).2.writeErr = s.writeErr ∧
    (tSetWD s d).2.writer = s.writer := by
  unfold tSetWD
  dsimp only
  split <;> exact ⟨⟨rfl, rfl, rfl, rfl, rfl, rfl⟩, rfl, rfl, rfl⟩

theorem faults_ne_of_lookup {s : W} {f : Fault} (h : lookupFault s = some f) : s.faults ≠ [] := by
  intro hf
  unfold lookupFault at h
  rw [hf] at h
  simp at h

theorem tWrite_fr (s : W) (b : Bytes) :
    Fr s (tWrite s b).2 ∧ (tWrite s b).2.writeErr = s.writeErr ∧ (tWrite s b).2.writer = s.writer ∧
    ∃ p q, p ++ q = b ∧ (tWrite s b).2.wire = s.wire ++ p ∧
      ((tWrite s b).1 = none → q = []) ∧ ((tWrite s b).1.isSome → s.faults ≠ []) := by
  unfold tWrite
  dsimp only
  split
  · exact ⟨⟨rfl, rfl, rfl, rfl, rfl, rfl⟩, rfl, rfl, b, [], by simp, rfl, fun _ => rfl, fun h => by cases h⟩
  · rename_i id heq
    have := faults_ne_of_lookup heq
    exact ⟨⟨rfl, rfl, rfl, rfl, rfl, rfl⟩, rfl, rfl, [], b, by simp, by simp [emit], fun h => (by cases h), fun _ => this⟩
  · rename_i n id heq
    have := faults_ne_of_lookup heq
    exact ⟨⟨rfl, rfl, rfl, rfl, rfl, rfl⟩, rfl, rfl, b.take (min n b.length), b.drop (min n b.length),
      List.take_append_drop _ _, rfl, fun h => (by cases h), fun _ => this⟩

theorem writeBufs_fr (s : W) (b0 b1 : Bytes) :
    Fr s (writeBufs s b0 b1).2 ∧ (writeBufs s b0 b1).2.writeErr = s.writeErr ∧
    (writeBufs s b0 b1).2.writer = s.writer ∧
    ∃ p q, p ++ q = b0 ++ b1 ∧ (writeBufs s b0 b1).2.wire = s.wire ++ p ∧
      ((writeBufs s b0 b1).1 = none → q = []) ∧ ((writeBufs s b0 b1).1.isSome → s.faults ≠ []) := by
  unfold writeBufs
  split
  · rename_i h1
    have h1' : b1 = [] := by simpa using h1
    subst h1'
    simpa using tWrite_fr s b0
  · have h0 := tWrite_fr s b0
    split
    · rename_i e s1 heq
      rw [heq] at h0
      obtain ⟨hb1, he1, hwr1, p, q, hpq, hw, hn, hs⟩ := h0
      exact ⟨hb1, he1, hwr1, p, q ++ b1, by rw [← hpq]; simp, hw, fun h => (by cases h), hs⟩
    · rename_i s1 heq
      rw [heq] at h0
      obtain ⟨hb1, he1, hwr1, p, q, hpq, hw, hn, hs⟩ := h0
      have hq : q = [] := hn rfl
      subst hq
      rw [List.append_nil] at hpq
      subst hpq
      have h2 := tWrite_fr s1 b1
      obtain ⟨hb2, he2, hwr2, p2, q2, hpq2, hw2, hn2, hs2⟩ := h2
      dsimp only at hb1 he1 hwr1 hw
      refine ⟨hb1.trans hb2, he2.trans he1, hwr2.trans hwr1, p ++ p2, q2, by rw [← hpq2]; simp, ?_, hn2, ?_⟩
      · rw [hw2, hw]; simp
      · intro h; have := hs2 h; rw [hb1.flt] at this; exact this

theorem writeFatal_fr (s : W) (e : WErr) :
    Fr s (writeFatal s e) ∧ (writeFatal s e).wire = s.wire ∧ (writeFatal s e).writer = s.writer ∧
    (writeFatal s e).writeErr.isSome ∧ (s.writeErr.isSome → (writeFatal s e).writeErr = s.writeErr) := by
  unfold writeFatal
  split
  · rename_i h
    exact ⟨⟨rfl, rfl, rfl, rfl, rfl, rfl⟩, rfl, rfl, rfl, fun hs => by rw [h] at hs; cases hs⟩
  · rename_i e' h
    exact ⟨Fr.refl s, rfl, rfl, by rw [h]; rfl, fun _ => rfl⟩

/-- `Conn.write` of bytes that decode to frames `gs` which may legally follow -/
theorem connWrite_inn {c : Cfg} {s : W} {o : Bool} (ft d : Int) (b0 b1 : Bytes) (gs : List Frame) (o1 : Bool)
    (h : Inn c s o)
    (hg : s.writeErr = none → decodeStream (b0 ++ b1) = some gs ∧ (∀ f ∈ gs, frameOk c.ctx f = true) ∧
      grammar o gs = true ∧ endsInMsg o gs = o1) :
    Inn c (connWrite s ft d b0 b1).2 o1 ∧ Fr s (connWrite s ft d b0 b1).2 ∧
    (connWrite s ft d b0 b1).2.writer = s.writer ∧
    ((connWrite s ft d b0 b1).1.isSome → (connWrite s ft d b0 b1).2.writeErr.isSome) ∧
    ((connWrite s ft d b0 b1).1 = none → s.writeErr = none) := by
  unfold connWrite
  split
  · rename_i e he
    exact ⟨h.reo (by rw [he]; rfl), Fr.refl s, rfl, fun _ => by rw [he]; rfl, fun hx => by cases hx⟩
  · rename_i hnone
    obtain ⟨hdec, hfok, hgr, hend⟩ := hg hnone
    have hw0 := h.wire
    rw [hnone] at hw0
    obtain ⟨more, fs, hd0, hwf0, hm0, ho0⟩ := hw0
    have hmore : more = [] := hm0 (Or.inl rfl)
    subst hmore
    rw [List.append_nil] at hd0
    have ho : endsInMsg false fs = o := ho0 rfl
    have h1 := tSetWD_fr s d
    split
    · rename_i e s1 heq
      rw [heq] at h1
      obtain ⟨hf1, hw1, he1, hwr1⟩ := h1
      dsimp only at hf1 hw1 he1 hwr1
      have hF := writeFatal_fr s1 e
      obtain ⟨hf2, hw2, hwr2, hs2, _⟩ := hF
      refine ⟨h.fr (hf1.trans hf2) ?_, hf1.trans hf2, hwr2.trans hwr1, fun _ => hs2, fun hx => by cases hx⟩
      cases hx : (writeFatal s1 e).writeErr with
      | none => rw [hx] at hs2; cases hs2
      | some e' =>
        rw [hw2, hw1]
        exact WOK.to_some e' ⟨[], fs, by rw [List.append_nil]; exact hd0, hwf0, fun _ => rfl, fun _ => ho⟩
    · rename_i s1 heq
      rw [heq] at h1
      obtain ⟨hf1, hw1, he1, hwr1⟩ := h1
      dsimp only at hf1 hw1 he1 hwr1
      have h2 := writeBufs_fr s1 b0 b1
      have hwfall : WellFormed c.ctx (fs ++ gs) := WFSpec.WellFormed.append hwf0 hfok (by rw [ho]; exact hgr)
      split
      · rename_i e s2 heq2
        rw [heq2] at h2
        obtain ⟨hf2, he2, hwr2, p, q, hpq, hw2, hn2, hs2⟩ := h2
        dsimp only at hf2 he2 hwr2 hw2 hs2
        have hF := writeFatal_fr s2 e
        obtain ⟨hf3, hw3, hwr3, hs3, _⟩ := hF
        refine ⟨h.fr ((hf1.trans hf2).trans hf3) ?_, (hf1.trans hf2).trans hf3,
          hwr3.trans (hwr2.trans hwr1), fun _ => hs3, fun hx => by cases hx⟩
        have hFne : c.F ≠ [] := by
          have := hs2 rfl
          rw [hf1.flt, h.flt] at this
          exact this
        cases hx : (writeFatal s2 e).writeErr with
        | none => rw [hx] at hs3; cases hs3
        | some e' =>
          rw [hw3, hw2, hw1]
          refine ⟨q, fs ++ gs, ?_, hwfall, ?_, fun hh => by cases hh⟩
          · rw [List.append_assoc, hpq]
            exact decodeStream_append hd0 hdec
          · intro hh
            rcases hh with hh | hh
            · cases hh
            · exact absurd hh hFne
      · rename_i s2 heq2
        rw [heq2] at h2
        obtain ⟨hf2, he2, hwr2, p, q, hpq, hw2, hn2, hs2⟩ := h2
        dsimp only at hf2 he2 hwr2 hw2 hn2
        have hq := hn2 rfl
        subst hq
        rw [List.append_nil] at hpq
        subst hpq
        have hwok : ∀ we, WOK c (s.wire ++ (b0 ++ b1)) we o1 := by
          intro we
          refine ⟨[], fs ++ gs, ?_, hwfall, fun _ => rfl, fun _ => ?_⟩
          · rw [List.append_nil]; exact decodeStream_append hd0 hdec
          · rw [endsInMsg_append, ho]; exact hend
        have hI : Inn c s2 o1 := h.fr (hf1.trans hf2) (by rw [hw2, hw1]; exact hwok _)
        split
        · have hF := writeFatal_fr s2 .closeSent
          obtain ⟨hf3, hw3, hwr3, hs3, _⟩ := hF
          refine ⟨hI.fr hf3 ?_, (hf1.trans hf2).trans hf3, hwr3.trans (hwr2.trans hwr1),
            fun hx => (by cases hx), fun _ => hnone⟩
          rw [hw3, hw2, hw1]; exact hwok _
        · exact ⟨hI, hf1.trans hf2, hwr2.trans hwr1, fun hx => (by cases hx), fun _ => hnone⟩

end WS.WFInv
