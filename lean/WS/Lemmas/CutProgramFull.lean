import WS.Lemmas.CutProgram
import WS.Lemmas.OverLimitAux
/-
  Steps towards the full `cut_program_never_complete` (whole messages above the read limit):
  a Read that fails with ErrReadLimit leaves the connection failed (readErr latched), so that
  `CutProgram.latched_nil` applies afterwards; a Read on a message above the limit either delivers
  a piece (the reader stays before the crossing frame) or fails with ErrReadLimit and latches.
-/
namespace WS.CutProgramFull
open WS WS.Codec WS.ReaderDecodes WS.ReadProgram WS.CutProgram WS.OverLimitAux

/-- a Read that returns ErrReadLimit leaves the connection failed -/
theorem mrReadLoop_readLimit_latched : ∀ (fuel : Nat) (c : Conn) (rid k : Nat) (out : Bytes) (c' : Conn),
    mrReadLoop fuel c rid k = ((out, some .readLimit), c') → ∃ e, c'.r.readErr = some e := by
  intro fuel
  induction fuel with
  | zero =>
    intro c rid k out c' h
    unfold mrReadLoop at h
    simp at h
  | succ fuel ih =>
    intro c rid k out c' h
    unfold mrReadLoop at h
    split at h
    · rename_i e he
      have : c' = c := by
        have := congrArg Prod.snd h
        exact this.symm
      subst this
      exact ⟨e, he⟩
    · split at h
      · have h2 := congrArg Prod.snd h
        have h1 := congrArg (fun x => x.1.2) h
        simp only [] at h1 h2
        subst h2
        exact ⟨.readLimit, h1⟩
      · split at h
        · simp at h
        · split at h
          · exact ih _ _ _ _ _ h
          · split at h
            · exact ih _ _ _ _ _ h
            · exact ih _ _ _ _ _ h

/-- while the application only reads a message that exceeds the read limit (opened, the crossing
    frame still to come), nothing is reported complete: each Read delivers a piece of the payload
    before the crossing frame, or fails with ErrReadLimit, after which the connection is failed -/
theorem over_reads_nil (S : Bool) (rid : Nat) (rest : Bytes) (L : Int) (hL : 0 < L) :
    ∀ (ops : List ROp) (c : Conn) (wire : Bytes) (more : List PFrame) (cst : Option (Nat × Bytes)),
      Ov S rid rest L c wire more → (∀ op ∈ ops, op.isNext = false) →
      completedAux (runProg ops c (some rid)).1 cst = [] := by
  intro ops
  induction ops with
  | nil => intro c _ _ cst _ _; rfl
  | cons op ops ih =>
    intro c wire more cst hov hops
    cases op with
    | next => exact absurd (hops .next (by simp)) (by simp [ROp.isNext])
    | read k =>
      have hops' : ∀ op ∈ ops, op.isNext = false := fun op h => hops op (by simp [h])
      have hcf : c.r.buf.pending.length < c.fuel + 1 := by
        have := hov.st.env.fuel
        unfold Conn.fuel; omega
      have hmr := WS.ZCutLoops.mrRead_eq_loop c rid (k + 1) hov.mr
      rcases mrReadLoop_over S rid (k + 1) (by omega) rest L hL (c.fuel + 1) c wire more hov hcf with
        ⟨out, c', w', m', b1, b2, _, _, _⟩ | ⟨c', b1⟩
      · rw [← hmr] at b1
        simp only [runProg, b1]
        rw [cA_data]
        exact ih c' w' m' _ b2 hops'
      · obtain ⟨e, he⟩ := mrReadLoop_readLimit_latched _ _ _ _ _ _ b1
        rw [← hmr] at b1
        simp only [runProg, b1]
        rw [cA_ret_err _ _ _ _ (by simp)]
        exact latched_nil e ops c' (some rid) he

end WS.CutProgramFull
