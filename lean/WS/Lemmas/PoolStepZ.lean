import WS.Lemmas.PoolInv
/-
  Message-writer level development for PoolInvZ (pool balance with permessage-deflate negotiated):
  the `Step` relation of PoolInv.lean without the `nego = false` restriction, plus the two facts the
  flate wrapper needs: the buffer size never changes, and (with a non-empty buffer) a failing
  messageWriter.Write always leaves the messageWriter ended.
-/
namespace WS.PoolInvZ
open WS WS.PoolInv

/-! ### wbufLen never changes -/

theorem wl_writeFatal (s : W) (e : WErr) : (writeFatal s e).wbufLen = s.wbufLen := by
  unfold writeFatal; split <;> rfl

theorem wl_tSetWD (s : W) (d : Int) : (tSetWD s d).2.wbufLen = s.wbufLen := by
  unfold tSetWD
  dsimp only
  split <;> rfl

theorem wl_tWrite (s : W) (b : Bytes) : (tWrite s b).2.wbufLen = s.wbufLen := by
  unfold tWrite
  dsimp only
  split <;> rfl

theorem wl_writeBufs (s : W) (b0 b1 : Bytes) : (writeBufs s b0 b1).2.wbufLen = s.wbufLen := by
  unfold writeBufs
  split
  · exact wl_tWrite s b0
  · have h0 := wl_tWrite s b0
    split
    · rename_i e s' heq; rw [heq] at h0; exact h0
    · rename_i s' heq; rw [heq] at h0
      exact (wl_tWrite s' b1).trans h0

theorem wl_connWrite (s : W) (ft d : Int) (b0 b1 : Bytes) : (connWrite s ft d b0 b1).2.wbufLen = s.wbufLen := by
  unfold connWrite
  split
  · rfl
  · have h0 := wl_tSetWD s d
    split
    · rename_i e s' heq; rw [heq] at h0
      exact (wl_writeFatal _ _).trans h0
    · rename_i s' heq; rw [heq] at h0
      have h1 := wl_writeBufs s' b0 b1
      split
      · rename_i e s'' heq'; rw [heq'] at h1
        exact (wl_writeFatal _ _).trans (h1.trans h0)
      · rename_i s'' heq'; rw [heq'] at h1
        dsimp only
        split
        · exact (wl_writeFatal _ _).trans (h1.trans h0)
        · exact h1.trans h0

theorem wl_newKey (s : W) : (newKey s).2.wbufLen = s.wbufLen := rfl

theorem wl_frameWrite (s : W) (m : MW) (final : Bool) (extra : Bytes) :
    (frameWrite s m final extra).2.wbufLen = s.wbufLen := by
  unfold frameWrite
  dsimp only
  split
  · exact wl_connWrite _ _ _ _ _
  · split
    · exact (wl_writeFatal _ _).trans (wl_newKey s)
    · exact (wl_connWrite _ _ _ _ _).trans (wl_newKey s)

theorem wl_ctlKey (s : W) : (ctlKey s).2.wbufLen = s.wbufLen := by
  unfold ctlKey; split <;> rfl

theorem wl_writeControl (s : W) (t : Int) (data : Bytes) (d : Int) : (writeControl s t data d).2.wbufLen = s.wbufLen := by
  unfold writeControl
  split
  · rfl
  · split
    · rfl
    · dsimp only
      split
      · exact wl_ctlKey s
      · exact (wl_connWrite _ _ _ _ _).trans (wl_ctlKey s)

theorem wl_poolPut (s : W) : (poolPut s).wbufLen = s.wbufLen := by
  unfold poolPut; split <;> rfl

theorem wl_poolGet (s : W) : (poolGet s).wbufLen = s.wbufLen := by
  unfold poolGet; split <;> rfl

theorem wl_endMessage (s : W) (m : MW) (e : WErr) : (endMessage s m e).1.wbufLen = s.wbufLen := by
  unfold endMessage
  split
  · rfl
  · dsimp only
    split
    · exact wl_poolPut _
    · rfl

/-! ### balance without the `nego = false` restriction -/

structure BalTZ (s : W) : Prop where
  pool : s.pool = true
  nil0 : nilPuts s.log = 0
  buf : s.bufRef ≠ .nil
  cnt : gets s.log = puts s.log + 1

structure BalFZ (s : W) : Prop where
  pool : s.pool = true
  nil0 : nilPuts s.log = 0
  buf : s.bufRef = .nil
  cnt : gets s.log = puts s.log

theorem BalTZ.congr {s s' : W} (h : key s' = key s) (b : BalTZ s) : BalTZ s' :=
  ⟨(key_pool h).trans b.pool, (key_nilPuts h).trans b.nil0,
   by rw [key_bufRef h]; exact b.buf, by rw [key_gets h, key_puts h]; exact b.cnt⟩

theorem BalFZ.congr {s s' : W} (h : key s' = key s) (b : BalFZ s) : BalFZ s' :=
  ⟨(key_pool h).trans b.pool, (key_nilPuts h).trans b.nil0,
   by rw [key_bufRef h]; exact b.buf, by rw [key_gets h, key_puts h]; exact b.cnt⟩

theorem poolPut_balZ (s : W) (b : BalTZ s) :
    BalFZ (poolPut s) ∧ (poolPut s).mws = s.mws ∧ (poolPut s).handles = s.handles ∧ (poolPut s).writer = s.writer := by
  obtain ⟨hp, h0, hb, hc⟩ := b
  unfold poolPut
  split
  · refine ⟨⟨hp, ?_, rfl, ?_⟩, rfl, rfl, rfl⟩
    · simpa [emit, nilPuts, List.filter_append] using h0
    · simp [emit, gets, puts, List.filter_append] at hc ⊢; exact hc
  · refine ⟨⟨hp, ?_, rfl, ?_⟩, rfl, rfl, rfl⟩
    · simpa [emit, nilPuts, List.filter_append] using h0
    · simp [emit, gets, puts, List.filter_append] at hc ⊢; exact hc
  · rename_i h; exact absurd h hb

theorem poolGet_balZ (s : W) (b : BalFZ s) :
    BalTZ (poolGet s) ∧ (poolGet s).mws = s.mws ∧ (poolGet s).handles = s.handles ∧ (poolGet s).writer = s.writer ∧
    (poolGet s).writeErr = s.writeErr := by
  obtain ⟨hp, h0, hb, hc⟩ := b
  unfold poolGet
  split
  · refine ⟨⟨hp, ?_, by simp [emit], ?_⟩, rfl, rfl, rfl, rfl⟩
    · simpa [emit, nilPuts, List.filter_append] using h0
    · simp [emit, gets, puts, List.filter_append] at hc ⊢; exact hc
  · refine ⟨⟨hp, ?_, by simp [emit], ?_⟩, rfl, rfl, rfl, rfl⟩
    · simpa [emit, nilPuts, List.filter_append] using h0
    · simp [emit, gets, puts, List.filter_append] at hc ⊢; exact hc

/-! ### the step relation -/

structure StepZ (s : W) (m : MW) (s' : W) (m' : MW) : Prop where
  wl : s'.wbufLen = s.wbufLen
  dead : m.err ≠ none → key s' = key s ∧ m'.err ≠ none
  live : m.err = none → m'.err = none → key s' = key s
  fin : m.err = none → m'.err ≠ none → s'.mws = s.mws ∧ s'.handles = s.handles ∧ (BalTZ s → BalFZ s')

theorem StepZ.of_key {s s' : W} {m m' : MW} (hw : s'.wbufLen = s.wbufLen) (hk : key s' = key s) (he : m'.err = m.err) :
    StepZ s m s' m' :=
  ⟨hw, fun h => ⟨hk, by rw [he]; exact h⟩, fun _ _ => hk, fun h h' => absurd (he.trans h) h'⟩

theorem StepZ.trans {s s1 s2 : W} {m m1 m2 : MW} (a : StepZ s m s1 m1) (b : StepZ s1 m1 s2 m2) : StepZ s m s2 m2 := by
  refine ⟨b.wl.trans a.wl, fun h => ?_, fun h h2 => ?_, fun h h2 => ?_⟩
  · have ha := a.dead h
    have hb := b.dead ha.2
    exact ⟨hb.1.trans ha.1, hb.2⟩
  · by_cases h1 : m1.err = none
    · exact (b.live h1 h2).trans (a.live h h1)
    · exact absurd h2 (b.dead h1).2
  · by_cases h1 : m1.err = none
    · have ha := a.live h h1
      have hb := b.fin h1 h2
      exact ⟨hb.1.trans (key_mws ha), hb.2.1.trans (key_handles ha), fun bt => hb.2.2 (bt.congr ha)⟩
    · have ha := a.fin h h1
      have hb := (b.dead h1).1
      exact ⟨(key_mws hb).trans ha.1, (key_handles hb).trans ha.2.1, fun bt => (ha.2.2 bt).congr hb⟩

theorem StepZ.mws {s s' : W} {m m' : MW} (st : StepZ s m s' m') : s'.mws = s.mws := by
  by_cases hm : m.err = none
  · by_cases hm' : m'.err = none
    · exact key_mws (st.live hm hm')
    · exact (st.fin hm hm').1
  · exact key_mws (st.dead hm).1

theorem StepZ.handles {s s' : W} {m m' : MW} (st : StepZ s m s' m') : s'.handles = s.handles := by
  by_cases hm : m.err = none
  · by_cases hm' : m'.err = none
    · exact key_handles (st.live hm hm')
    · exact (st.fin hm hm').2.1
  · exact key_handles (st.dead hm).1

/-- a live writer stays live only if it was live -/
theorem StepZ.was_live {s s' : W} {m m' : MW} (st : StepZ s m s' m') (h : m'.err = none) : m.err = none := by
  by_cases hm : m.err = none
  · exact hm
  · exact absurd h (st.dead hm).2

theorem endMessage_stepZ (s : W) (m : MW) (e : WErr) : StepZ s m (endMessage s m e).1 (endMessage s m e).2 := by
  have hwl := wl_endMessage s m e
  revert hwl
  unfold endMessage
  split
  · intro _; exact StepZ.of_key rfl rfl rfl
  · rename_i hs
    intro hwl
    refine ⟨hwl, fun h => ?_, fun _ h' => ?_, fun _ _ => ?_⟩
    · cases hm : m.err with
      | none => exact absurd hm h
      | some x => rw [hm] at hs; simp at hs
    · simp at h'
    · dsimp only
      refine ⟨?_, ?_, fun bt => ?_⟩
      · split
        · unfold poolPut; split <;> rfl
        · rfl
      · split
        · unfold poolPut; split <;> rfl
        · rfl
      · have bt' : BalTZ { s with writer := none } := ⟨bt.pool, bt.nil0, bt.buf, bt.cnt⟩
        have hp : ({ s with writer := none } : W).pool = true := bt.pool
        rw [if_pos hp]
        exact (poolPut_balZ _ bt').1

theorem flushFrame_stepZ (s : W) (m : MW) (final : Bool) (extra : Bytes) :
    StepZ s m (flushFrame s m final extra).2.1 (flushFrame s m final extra).2.2 := by
  unfold flushFrame
  split
  · exact endMessage_stepZ s m _
  · have hk := key_frameWrite s m final extra
    have hw := wl_frameWrite s m final extra
    split
    · rename_i e s1 heq
      rw [heq] at hk hw
      have a : StepZ s m s1 { m with compress := false } := StepZ.of_key hw hk rfl
      exact a.trans (endMessage_stepZ s1 _ e)
    · rename_i s1 heq
      rw [heq] at hk hw
      have a : StepZ s m s1 { m with compress := false } := StepZ.of_key hw hk rfl
      split
      · exact a.trans (endMessage_stepZ s1 _ _)
      · exact StepZ.of_key hw hk rfl

theorem ncopyPrep_stepZ (s : W) (m : MW) : StepZ s m (ncopyPrep s m).2.1 (ncopyPrep s m).2.2 := by
  unfold ncopyPrep
  split
  · exact flushFrame_stepZ _ _ _ _
  · exact StepZ.of_key rfl rfl rfl

theorem readFromPrep_stepZ (s : W) (m : MW) : StepZ s m (readFromPrep s m).2.1 (readFromPrep s m).2.2 := by
  unfold readFromPrep
  split
  · exact flushFrame_stepZ _ _ _ _
  · exact StepZ.of_key rfl rfl rfl

theorem copyLoop_stepZ (s : W) (m : MW) (p : Bytes) : StepZ s m (copyLoop s m p).2.1 (copyLoop s m p).2.2 := by
  induction hl : p.length using Nat.strongRecOn generalizing s m p with
  | _ n ih =>
    unfold copyLoop
    split
    · exact StepZ.of_key rfl rfl rfl
    · rename_i hp
      have hpre := ncopyPrep_stepZ s m
      split
      · rename_i e s' m' heq
        rw [heq] at hpre; exact hpre
      · rename_i s' m' heq
        rw [heq] at hpre
        split
        · exact hpre
        · rename_i hn
          have hlt : (p.drop (min (s'.cap - m'.buf.length) p.length)).length < n := by
            have : p.length ≠ 0 := by simpa using hp
            simp only [List.length_drop]; omega
          have a : StepZ s' m' s' { m' with buf := m'.buf ++ p.take (min (s'.cap - m'.buf.length) p.length) } :=
            StepZ.of_key rfl rfl rfl
          exact hpre.trans (a.trans (ih _ hlt s' _ _ rfl))

theorem readFromLoop_stepZ (fuel : Nat) (s : W) (m : MW) (r : Src) (nn : Nat) :
    StepZ s m (readFromLoop fuel s m r nn).2.1 (readFromLoop fuel s m r nn).2.2 := by
  induction fuel generalizing s m r nn with
  | zero => exact StepZ.of_key rfl rfl rfl
  | succ fuel ih =>
    unfold readFromLoop
    have hpre := readFromPrep_stepZ s m
    split
    · rename_i e s' m' heq
      rw [heq] at hpre; exact hpre
    · rename_i s' m' heq
      rw [heq] at hpre
      split
      · exact hpre.trans (StepZ.of_key rfl rfl rfl)
      · exact hpre.trans (StepZ.of_key rfl rfl rfl)
      · rename_i bs r' _
        have a : StepZ s' m' s' { m' with buf := m'.buf ++ bs } := StepZ.of_key rfl rfl rfl
        exact hpre.trans (a.trans (ih _ _ _ _))

theorem mwWrite_stepZ (s : W) (m : MW) (p : Bytes) : StepZ s m (mwWrite s m p).2.1 (mwWrite s m p).2.2 := by
  unfold mwWrite
  split
  · exact StepZ.of_key rfl rfl rfl
  · split
    · exact flushFrame_stepZ _ _ _ _
    · exact copyLoop_stepZ _ _ _

theorem mwWriteString_stepZ (s : W) (m : MW) (p : Bytes) :
    StepZ s m (mwWriteString s m p).2.1 (mwWriteString s m p).2.2 := by
  unfold mwWriteString
  split
  · exact StepZ.of_key rfl rfl rfl
  · exact copyLoop_stepZ _ _ _

theorem mwClose_stepZ (s : W) (m : MW) : StepZ s m (mwClose s m).2.1 (mwClose s m).2.2 := by
  unfold mwClose
  split
  · exact StepZ.of_key rfl rfl rfl
  · exact flushFrame_stepZ _ _ _ _

theorem mwReadFrom_stepZ (s : W) (m : MW) (r : Src) : StepZ s m (mwReadFrom s m r).2.1 (mwReadFrom s m r).2.2 := by
  unfold mwReadFrom
  split
  · exact StepZ.of_key rfl rfl rfl
  · exact readFromLoop_stepZ _ _ _ _ _

theorem feed_stepZ (s : W) (m : MW) (cs : List Bytes) : StepZ s m (feed s m cs).2.1 (feed s m cs).2.2 := by
  induction cs generalizing s m with
  | nil => exact StepZ.of_key rfl rfl rfl
  | cons c cs ih =>
    unfold feed
    have h1 := mwWrite_stepZ s m c
    split
    · rename_i e s' m' heq; rw [heq] at h1; exact h1
    · rename_i s' m' heq; rw [heq] at h1
      exact h1.trans (ih s' m')

/-! ### Close on a handle, the implicit close, and the prepared send do not change the buffer size -/

theorem wl_hClose (s : W) (h : Nat) (dn : List Bytes) (full : Bytes) : (hClose s h dn full).2.wbufLen = s.wbufLen := by
  unfold hClose
  split
  · rfl
  · exact (mwClose_stepZ _ _).wl
  · dsimp only
    split
    · rfl
    · split
      · rfl
      · rename_i i fwOpen derr sent _ _
        have h1 : (feed s (getMW s i) dn).2.1.wbufLen = s.wbufLen := (feed_stepZ s (getMW s i) dn).wl
        split
        · exact h1
        · split
          · exact h1
          · split
            · exact h1
            · exact ((mwClose_stepZ _ _).wl).trans h1

theorem wl_closePrev (s : W) (dnp : List Bytes) (fullp : Bytes) : (closePrev s dnp fullp).wbufLen = s.wbufLen := by
  unfold closePrev
  split
  · exact wl_hClose s _ dnp fullp
  · rfl

theorem wl_writePreparedImage (s : W) (t : Int) (img : Bytes) (dnp : List Bytes) (fullp : Bytes) :
    (writePreparedImage s t img dnp fullp).2.wbufLen = s.wbufLen := by
  unfold writePreparedImage
  refine (wl_connWrite _ _ _ _ _).trans ?_
  split
  · exact wl_closePrev s dnp fullp
  · rfl

/-! ### a failing Write ends the messageWriter (buffer not empty: no `hang`) -/

theorem flushFrame_err_dead (s : W) (m : MW) (final : Bool) (extra : Bytes)
    (he : (flushFrame s m final extra).1 ≠ none) : (flushFrame s m final extra).2.2.err ≠ none := by
  revert he
  unfold flushFrame
  split
  · intro _; exact endMessage_dead _ _ _
  · split
    · intro _; exact endMessage_dead _ _ _
    · split
      · intro _; exact endMessage_dead _ _ _
      · intro he; exact absurd rfl he

/-- after a successful non-final flush the buffer is empty -/
theorem flushFrame_ok_buf (s : W) (m : MW) (extra : Bytes)
    (he : (flushFrame s m false extra).1 = none) : (flushFrame s m false extra).2.2.buf = [] := by
  revert he
  unfold flushFrame
  split
  · intro he; cases he
  · split
    · intro he; cases he
    · intro _; rfl

theorem ncopyPrep_err_dead (s : W) (m : MW) (he : (ncopyPrep s m).1 ≠ none) : (ncopyPrep s m).2.2.err ≠ none := by
  revert he
  unfold ncopyPrep
  split
  · exact flushFrame_err_dead _ _ _ _
  · intro he; exact absurd rfl he

theorem ncopyPrep_ok_room (s : W) (m : MW) (hc : 0 < s.cap) (he : (ncopyPrep s m).1 = none) :
    (ncopyPrep s m).2.2.buf.length < (ncopyPrep s m).2.1.cap := by
  have hw : (ncopyPrep s m).2.1.cap = s.cap := by
    unfold W.cap; rw [(ncopyPrep_stepZ s m).wl]
  rw [hw]
  revert he
  unfold ncopyPrep
  split
  · intro he
    rw [flushFrame_ok_buf s m [] he]
    exact hc
  · rename_i h
    intro _
    exact Nat.lt_of_not_le h

theorem copyLoop_err_dead (s : W) (m : MW) (p : Bytes) (hc : 0 < s.cap)
    (he : (copyLoop s m p).1 ≠ none) : (copyLoop s m p).2.2.err ≠ none := by
  induction hl : p.length using Nat.strongRecOn generalizing s m p with
  | _ n ih =>
    revert he
    unfold copyLoop
    split
    · intro he; exact absurd rfl he
    · rename_i hp
      have hd := ncopyPrep_err_dead s m
      have hr := ncopyPrep_ok_room s m hc
      have hw := (ncopyPrep_stepZ s m).wl
      split
      · rename_i e s' m' heq
        rw [heq] at hd
        intro _
        exact hd (by simp)
      · rename_i s' m' heq
        rw [heq] at hr hw
        have hr' : m'.buf.length < s'.cap := hr rfl
        have hpl : p.length ≠ 0 := by simpa using hp
        split
        · rename_i hn
          exfalso
          omega
        · rename_i hn
          have hlt : (p.drop (min (s'.cap - m'.buf.length) p.length)).length < n := by
            simp only [List.length_drop]; omega
          have hc' : 0 < s'.cap := by
            have : s'.wbufLen = s.wbufLen := hw
            unfold W.cap; rw [this]; exact hc
          intro he
          exact ih _ hlt s' _ _ hc' he rfl

theorem mwWrite_err_dead (s : W) (m : MW) (p : Bytes) (hc : 0 < s.cap)
    (he : (mwWrite s m p).1 ≠ none) : (mwWrite s m p).2.2.err ≠ none := by
  revert he
  unfold mwWrite
  split
  · rename_i e hm; intro _; dsimp only; rw [hm]; simp
  · split
    · exact flushFrame_err_dead _ _ _ _
    · exact copyLoop_err_dead _ _ _ hc

theorem feed_err_dead (s : W) (m : MW) (cs : List Bytes) (hc : 0 < s.cap)
    (he : (feed s m cs).1 ≠ none) : (feed s m cs).2.2.err ≠ none := by
  induction cs generalizing s m with
  | nil => exact absurd rfl he
  | cons c cs ih =>
    revert he
    unfold feed
    have h1 := mwWrite_err_dead s m c hc
    have hw := (mwWrite_stepZ s m c).wl
    split
    · rename_i e s' m' heq
      rw [heq] at h1
      intro _; exact h1 (by simp)
    · rename_i s' m' heq
      rw [heq] at hw
      have hc' : 0 < s'.cap := by
        have : s'.wbufLen = s.wbufLen := hw
        unfold W.cap; rw [this]; exact hc
      exact ih s' m' hc'

end WS.PoolInvZ
