import WS.Model.Writer
import WS.Spec.Frame
import WS.Lemmas.Mask
/-
  Codec lemmas for C02: every frame the writer model builds is decoded by the strict RFC decoder
  (WS.Spec.decodeFrame) to exactly the intended frame, leaving the rest of the stream.
-/
namespace WS.Codec
open WS WS.Spec

/-- the frame record a header byte `b0` (< 256), a key and an application payload stand for -/
def frameOf (isServer : Bool) (b0 : Nat) (key : Key) (payload : Bytes) : Frame :=
  { fin := decide (b0 / 128 % 2 = 1), rsv1 := decide (b0 / 64 % 2 = 1), rsv2 := decide (b0 / 32 % 2 = 1),
    rsv3 := decide (b0 / 16 % 2 = 1), opcode := b0 % 16,
    mask := if isServer then none else some key, payload := payload }

/-- bytes of one frame as the writer model hands them to the transport -/
def encode (isServer : Bool) (b0 : Nat) (key : Key) (payload : Bytes) : Bytes :=
  header isServer b0 payload.length key ++ (if isServer then payload else maskFrom key 0 payload)


theorem toNat_ofNat_lt (n : Nat) (h : n < 256) : (UInt8.ofNat n).toNat = n := by
  simp [UInt8.toNat_ofNat']; omega

theorem decodeLen_small (n : Nat) (r : Bytes) (h : n < 126) : decodeLen n r = some (n, r) := by
  simp [decodeLen, h]

theorem decodeLen_mid (len : Nat) (r : Bytes) (h1 : 125 < len) (h2 : len < 65536) :
    decodeLen 126 (beBytes 2 len ++ r) = some (len, r) := by
  have hv : beVal ((beBytes 2 len ++ r).take 2) = len := by
    rw [List.take_left' (beBytes_length ..)]
    exact beVal_beBytes 2 len (by simpa using h2)
  have hd : (beBytes 2 len ++ r).drop 2 = r := List.drop_left' (beBytes_length ..)
  unfold decodeLen
  simp only [hv, hd]
  simp
  omega

theorem decodeLen_big (len : Nat) (r : Bytes) (h1 : 65536 ≤ len) (h2 : len < 2 ^ 63) :
    decodeLen 127 (beBytes 8 len ++ r) = some (len, r) := by
  have hv : beVal ((beBytes 8 len ++ r).take 8) = len := by
    rw [List.take_left' (beBytes_length ..)]
    exact beVal_beBytes 8 len (by omega)
  have hd : (beBytes 8 len ++ r).drop 8 = r := List.drop_left' (beBytes_length ..)
  unfold decodeLen
  simp only [hv, hd]
  simp
  omega


theorem bitSet_ofNat (b0 v : Nat) (hb : b0 < 256) : bitSet (UInt8.ofNat b0) v = decide (b0 / v % 2 = 1) := by
  unfold bitSet; rw [toNat_ofNat_lt b0 hb]

/-- unmasked frame: header bytes, extension, payload -/
theorem decodeFrame_unmasked (b0 n7 : Nat) (ext payload rest : Bytes) (hb : b0 < 256) (hn : n7 < 128)
    (hlen : decodeLen n7 (ext ++ (payload ++ rest)) = some (payload.length, payload ++ rest)) :
    decodeFrame (UInt8.ofNat b0 :: UInt8.ofNat n7 :: (ext ++ (payload ++ rest))) =
      some (frameOf true b0 default payload, rest) := by
  have h1 : (UInt8.ofNat n7).toNat = n7 := toNat_ofNat_lt n7 (by omega)
  unfold decodeFrame
  simp only [h1, Nat.mod_eq_of_lt hn, hlen]
  have hd : decide (n7 ≥ 128) = false := by simp; omega
  simp only [hd, decodeKey]
  simp [frameOf, bitSet_ofNat _ _ hb, toNat_ofNat_lt b0 hb]

theorem decodeFrame_masked (b0 n7 : Nat) (key : Key) (ext payload rest : Bytes) (hb : b0 < 256) (hn : n7 < 128)
    (hlen : decodeLen n7 (ext ++ (key.bytes ++ (maskFrom key 0 payload ++ rest))) =
      some (payload.length, key.bytes ++ (maskFrom key 0 payload ++ rest))) :
    decodeFrame (UInt8.ofNat b0 :: UInt8.ofNat (128 + n7) :: (ext ++ (key.bytes ++ (maskFrom key 0 payload ++ rest)))) =
      some (frameOf false b0 key payload, rest) := by
  have h1 : (UInt8.ofNat (128 + n7)).toNat = 128 + n7 := toNat_ofNat_lt _ (by omega)
  have h2 : (128 + n7) % 128 = n7 := by omega
  unfold decodeFrame
  simp only [h1, h2, hlen]
  have hd : decide (128 + n7 ≥ 128) = true := by simp
  simp only [hd, decodeKey, Key.bytes, List.cons_append, List.nil_append]
  have ht : (maskFrom key 0 payload ++ rest).take payload.length = maskFrom key 0 payload :=
    List.take_left' (maskFrom_length ..)
  have hdr : (maskFrom key 0 payload ++ rest).drop payload.length = rest :=
    List.drop_left' (maskFrom_length ..)
  simp [frameOf, bitSet_ofNat _ _ hb, toNat_ofNat_lt b0 hb, ht, hdr, maskFrom_involutive]


theorem decodeFrame_length {bs r : Bytes} {f : Frame} (h : decodeFrame bs = some (f, r)) :
    r.length + 2 ≤ bs.length := by
  unfold decodeFrame at h
  split at h
  · rename_i b0 b1 rest
    split at h
    · cases h
    · rename_i len rest1 hl
      split at h
      · cases h
      · rename_i key rest2 hk
        split at h
        · cases h
        · simp only [Option.some.injEq, Prod.mk.injEq] at h
          obtain ⟨_, hr⟩ := h
          subst hr
          have h1 : rest1.length ≤ rest.length := by
            unfold decodeLen at hl
            split at hl
            · simp only [Option.some.injEq, Prod.mk.injEq] at hl; rw [← hl.2]; exact Nat.le_refl _
            · split at hl
              · split at hl
                · cases hl
                · dsimp only at hl
                  split at hl
                  · cases hl
                  · simp only [Option.some.injEq, Prod.mk.injEq] at hl; rw [← hl.2]; simp
              · split at hl
                · cases hl
                · dsimp only at hl
                  split at hl
                  · cases hl
                  · simp only [Option.some.injEq, Prod.mk.injEq] at hl; rw [← hl.2]; simp
          have h2 : rest2.length ≤ rest1.length := by
            unfold decodeKey at hk
            split at hk
            · split at hk
              · simp only [Option.some.injEq, Prod.mk.injEq] at hk; rw [← hk.2]; simp; omega
              · cases hk
            · simp only [Option.some.injEq, Prod.mk.injEq] at hk; rw [← hk.2]; exact Nat.le_refl _
          simp only [List.length_cons, List.length_drop]
          omega
  · cases h

theorem decodeStreamAux_fuel (f1 f2 : Nat) (bs : Bytes) (h1 : bs.length ≤ f1) (h2 : bs.length ≤ f2) :
    decodeStreamAux f1 bs = decodeStreamAux f2 bs := by
  induction f1 generalizing f2 bs with
  | zero =>
    have : bs = [] := List.eq_nil_of_length_eq_zero (by omega)
    subst this
    cases f2 <;> rfl
  | succ f1 ih =>
    cases bs with
    | nil => cases f2 <;> rfl
    | cons b bs =>
      cases f2 with
      | zero => simp at h2
      | succ f2 =>
        simp only [decodeStreamAux]
        cases hd : decodeFrame (b :: bs) with
        | none => rfl
        | some p =>
          obtain ⟨f, r⟩ := p
          have := decodeFrame_length hd
          simp only [List.length_cons] at this h1 h2
          simp only []
          rw [ih f2 r (by omega) (by omega)]

/-- strict decoding inverts the writer's encoding, for every length below 2^63, both roles, any key -/
theorem decode_encode (isServer : Bool) (b0 : Nat) (key : Key) (payload rest : Bytes)
    (hb : b0 < 256) (hl : payload.length < 2 ^ 63) :
    decodeFrame (encode isServer b0 key payload ++ rest) = some (frameOf isServer b0 key payload, rest) := by
  cases isServer with
  | true =>
    have hfo : frameOf true b0 key payload = frameOf true b0 default payload := rfl
    rw [hfo]
    unfold encode header
    simp only [if_true, Nat.zero_add]
    split
    · rename_i h
      have := decodeFrame_unmasked b0 127 (beBytes 8 payload.length) payload rest hb (by omega)
        (decodeLen_big _ _ h hl)
      simpa using this
    · split
      · rename_i h1 h2
        have := decodeFrame_unmasked b0 126 (beBytes 2 payload.length) payload rest hb (by omega)
          (decodeLen_mid _ _ h2 (by omega))
        simpa using this
      · rename_i h1 h2
        have := decodeFrame_unmasked b0 payload.length [] payload rest hb (by omega)
          (decodeLen_small _ _ (by omega))
        simpa using this
  | false =>
    unfold encode header
    simp only [Bool.false_eq_true, if_false]
    split
    · rename_i h
      have := decodeFrame_masked b0 127 key (beBytes 8 payload.length) payload rest hb (by omega)
        (decodeLen_big _ _ h hl)
      simpa using this
    · split
      · rename_i h1 h2
        have := decodeFrame_masked b0 126 key (beBytes 2 payload.length) payload rest hb (by omega)
          (decodeLen_mid _ _ h2 (by omega))
        simpa using this
      · rename_i h1 h2
        have := decodeFrame_masked b0 payload.length key [] payload rest hb (by omega)
          (decodeLen_small _ _ (by omega))
        simpa using this

/-- the frame WriteControl builds is `encode` with FIN set -/
theorem controlFrame_eq (isServer : Bool) (t : Nat) (data : Bytes) (key : Key)
    (ht : t < 16) (hd : data.length ≤ 125) :
    controlFrame isServer t data key = encode isServer (t + 128) key data := by
  have _ := ht
  have h1 : ¬ data.length ≥ 65536 := by omega
  have h2 : ¬ data.length > 125 := by omega
  cases isServer with
  | true => simp [controlFrame, encode, header, h1, h2]
  | false => simp [controlFrame, encode, header, h1, h2, Nat.add_comm]

/-- a stream of whole frames decodes frame by frame -/
theorem decodeStream_cons (fb rest : Bytes) (f : Frame) (h : decodeFrame (fb ++ rest) = some (f, rest))
    (hne : fb ≠ []) :
    decodeStream (fb ++ rest) = (decodeStream rest).map (f :: ·) := by
  unfold decodeStream
  cases fb with
  | nil => exact absurd rfl hne
  | cons b fb =>
    simp only [List.cons_append, List.length_cons] at h ⊢
    simp only [decodeStreamAux, h]
    rw [decodeStreamAux_fuel (fb ++ rest).length rest.length rest (by simp) (Nat.le_refl _)]

theorem decodeStream_nil : decodeStream [] = some [] := by
  rfl

end WS.Codec
