import WS.Lemmas.ZCut
/-
  C03 "reads of any sizes", with the size changing from one Read to the next: a conformant message is
  delivered byte-identically whatever sequence of request sizes the application uses — in particular
  for io.ReadAll / ReadMessage, whose requests follow the capacities the Go allocator picks for the
  growing buffer (`readAllGrow`, capacities = environment answer).
-/
namespace WS.MixedReads
open WS WS.Codec WS.ReaderDecodes


section Helpers
open WS.SrcLaw WS.AdvFrame WS.ZCutLoops

/-- messageReader.Read never hands out more than was asked for -/
theorem mrReadLoop_len (S : Bool) (rid k : Nat) (hk : 0 < k) (rest : Bytes) (fuel : Nat) :
    ∀ (c : Conn) (wire : Bytes) (more : List PFrame), St S c wire more rest →
      LenOk c (dataPayload more).length → c.r.buf.pending.length < fuel →
      (mrReadLoop fuel c rid k).1.1.length ≤ k := by
  induction fuel with
  | zero => intro c wire more _ _ h; omega
  | succ fuel ih =>
    intro c wire more hst hl hf
    by_cases hw : wire = []
    · subst hw
      have hrem : ¬ c.r.remaining > 0 := by have := hst.rem; simp at this; omega
      cases hfin : c.r.final with
      | true =>
        unfold mrReadLoop
        simp only [hst.noErr]
        rw [if_neg hrem]
        simp only [hfin, if_true]
        simp
      | false =>
        obtain ⟨t, c', wire', more', a1, a2, a3, a4, a5, a6, a7, a8, a9, a10⟩ :=
          step_tail S c [] more rest hst hfin 0 (by simpa using hl)
        have hstep : mrReadLoop (fuel + 1) c rid k = mrReadLoop fuel c' rid k := by
          conv => lhs; unfold mrReadLoop
          simp only [hst.noErr]
          rw [if_neg hrem]
          simp only [hfin, Bool.false_eq_true, if_false, a1, a2]
        rw [hstep]
        exact ih c' wire' more' a3 (by simpa using a7) (by omega)
    · have hwl : 0 < wire.length := List.length_pos_iff.mpr hw
      have hpos : c.r.remaining > 0 := by rw [hst.rem]; omega
      have hk' : 0 < min k c.r.remaining.toNat := by omega
      obtain ⟨_, r2, _⟩ := read_spec c.r.buf hst.env.wf _ hk'
      generalize hrd : c.r.buf.read (min k c.r.remaining.toNat) = rd at r2
      obtain ⟨bs, e, b'⟩ := rd
      simp only [] at r2
      unfold mrReadLoop
      simp only [hst.noErr]
      rw [if_pos hpos, hrd]
      simp only []
      split
      · simp; omega
      · omega

/-- one messageReader.Read of any positive size inside a message -/
theorem mrRead_step (S : Bool) (rid k : Nat) (hk : 0 < k) (rest : Bytes) (c : Conn) (wire : Bytes)
    (more : List PFrame) (hst : St S c wire more rest) (hm : c.r.msgReader = some rid)
    (hl : LenOk c (dataPayload more).length) :
    (∃ out c' wire' more', mrRead c rid k = ((out, none), c') ∧ out ≠ [] ∧ out.length ≤ k ∧
      St S c' wire' more' rest ∧ c'.r.msgReader = some rid ∧ LenOk c' (dataPayload more').length ∧
      unmask c wire ++ dataPayload more = out ++ (unmask c' wire' ++ dataPayload more') ∧
      c'.r.hlog ++ ctlEvents more' = c.r.hlog ++ ctlEvents more ∧
      c'.r.buf.pending.length < c.r.buf.pending.length) ∨
    (∃ c', mrRead c rid k = (([], some .eof), c') ∧ unmask c wire ++ dataPayload more = [] ∧
      St S c' [] [] rest ∧ c'.r.final = true ∧ c'.r.hlog = c.r.hlog ++ ctlEvents more) := by
  have hcf : c.r.buf.pending.length < c.fuel + 1 := by
    have := hst.env.fuel
    unfold Conn.fuel; omega
  have hlen := mrReadLoop_len S rid k hk rest (c.fuel + 1) c wire more hst hl hcf
  rw [mrRead_eq_loop c rid k hm]
  rcases mrReadLoop_spec S rid k hk rest (c.fuel + 1) c wire more hst hm hl hcf with
    ⟨out, c2, w2, m2, b1, b2, b3, b4, b5, b6, b7, b8, b9⟩ | ⟨c2, b1, b2, b3, b4, b5, b6, b7, b8⟩
  · left
    rw [b1] at hlen
    exact ⟨out, c2, w2, m2, b1, b2, hlen, b3, b5, b6, b7, b8, b9⟩
  · right
    exact ⟨c2, b1, b2, b3, b4, b7⟩

/-- reads of the sizes `ks` inside a message: all of them succeed and the reader is still inside
    the message, or one of them reaches the end of the message -/
theorem zFills_full (S : Bool) (rid : Nat) (rest : Bytes) : ∀ (ks : List Nat), (∀ k ∈ ks, 0 < k) →
    ∀ (c : Conn) (wire : Bytes) (more : List PFrame) (acc : List Bytes), St S c wire more rest →
      c.r.msgReader = some rid → LenOk c (dataPayload more).length →
      (∃ out c2 wire' more', zFills ks c rid acc = ((acc.reverse.flatten ++ out, none), c2) ∧
        St S c2 wire' more' rest ∧ c2.r.msgReader = some rid ∧ LenOk c2 (dataPayload more').length ∧
        unmask c wire ++ dataPayload more = out ++ (unmask c2 wire' ++ dataPayload more') ∧
        c2.r.hlog ++ ctlEvents more' = c.r.hlog ++ ctlEvents more) ∨
      (∃ c2, zFills ks c rid acc = ((acc.reverse.flatten ++ (unmask c wire ++ dataPayload more), some .eof), c2) ∧
        St S c2 [] [] rest ∧ c2.r.final = true ∧ c2.r.hlog = c.r.hlog ++ ctlEvents more) := by
  intro ks
  induction ks with
  | nil =>
    intro _ c wire more acc hst hm hl
    left
    refine ⟨[], c, wire, more, ?_, hst, hm, hl, rfl, rfl⟩
    simp [zFills]
  | cons k ks ih =>
    intro hks c wire more acc hst hm hl
    have hk : 0 < k := hks k (List.mem_cons_self ..)
    have hks' : ∀ k' ∈ ks, 0 < k' := fun k' h => hks k' (List.mem_cons_of_mem _ h)
    unfold zFills
    rcases mrRead_step S rid k hk rest c wire more hst hm hl with
      ⟨out, c2, w2, m2, b1, _, _, b3, b5, b6, b7, b8, _⟩ | ⟨c2, b1, b2, b3, b4, b5⟩
    · rw [b1]
      simp only []
      rcases ih hks' c2 w2 m2 (out :: acc) b3 b5 b6 with
        ⟨out', c3, w3, m3, d1, d2, d3, d4, d5, d6⟩ | ⟨c3, d1, d2, d3, d4⟩
      · left
        refine ⟨out ++ out', c3, w3, m3, ?_, d2, d3, d4, ?_, ?_⟩
        · rw [d1]; simp [List.append_assoc]
        · rw [b7, d5, List.append_assoc]
        · rw [d6, b8]
      · right
        refine ⟨c3, ?_, d2, d3, ?_⟩
        · rw [d1, b7]; simp [List.append_assoc]
        · rw [d4, b8]
    · right
      rw [b1]
      simp only []
      refine ⟨c2, ?_, b3, b4, b5⟩
      rw [b2]; simp

end Helpers

/-- reading a message first with requests of the sizes `ks` (any positive sizes, in order; `zFills`
    is the plain "Read with these sizes until the list ends or a Read returns an error" loop) and then
    to the end with requests of size `k`: the bytes delivered, concatenated, are exactly the payload;
    end-of-message is signalled exactly once (by whichever phase reaches it); the reader is idle again
    with the following bytes untouched and the handlers saw the interleaved control frames -/
theorem read_message_mixed (c : Conn) (hc : ReaderIdle c) (t : Nat) (ht : t = 1 ∨ t = 2) (fs : List PFrame)
    (hs : MsgShape t fs) (rest : Bytes)
    (hp : c.r.buf.pending = encAll c.r.isServer fs ++ rest)
    (hend : c.r.buf.t.together = false ∨ rest ≠ [])
    (hsz : (dataPayload fs).length < 2 ^ 62) (hlim : c.r.limit ≤ 0)
    (ks : List Nat) (hks : ∀ k ∈ ks, 0 < k) (k : Nat) (hk : 0 < k) :
    ∃ c1 rid, nextReader c = (.msg t rid false, c1) ∧
      ∃ pre st c2, zFills ks c1 rid [] = ((pre, st), c2) ∧
        ((st = some .eof ∧ pre = dataPayload fs ∧ ReaderIdle c2 ∧ c2.r.buf.pending = rest ∧
            c2.r.hlog = c.r.hlog ++ ctlEvents fs) ∨
         (st = none ∧ ∃ suf c3, readAll c2 rid k = ((suf, none), c3) ∧ pre ++ suf = dataPayload fs ∧
            ReaderIdle c3 ∧ c3.r.buf.pending = rest ∧ c3.r.hlog = c.r.hlog ++ ctlEvents fs)) := by
  have hst := idle_St c hc fs rest hp hend
  obtain ⟨c1, rid, w1, m1, b1, b2, b3, b4, b5, b6, b7⟩ := nextReader_spec c.r.isServer t ht rest c [] [] fs hst hs hend
    (by simp; omega) (Or.inl hlim)
  refine ⟨c1, rid, b1, ?_⟩
  rcases zFills_full c.r.isServer rid rest ks hks c1 w1 m1 [] b2 b4 b5 with
    ⟨out, c2, w2, m2, d1, d2, d3, d4, d5, d6⟩ | ⟨c2, d1, d2, d3, d4⟩
  · refine ⟨out, none, c2, by simpa using d1, Or.inr ⟨rfl, ?_⟩⟩
    obtain ⟨c3, e1, e2, e3, e4⟩ := readAll_spec c.r.isServer rid k hk rest c2 w2 m2 d2 d3 d4
    refine ⟨_, c3, e1, ?_, e2, e3, ?_⟩
    · rw [← b6, d5]
    · rw [e4, d6, b7]; simp
  · obtain ⟨i1, i2⟩ := d2.idle d3
    refine ⟨dataPayload fs, some .eof, c2, ?_, Or.inl ⟨rfl, rfl, i1, i2, ?_⟩⟩
    · rw [d1, b6]; simp
    · rw [d4, b7]; simp

/-- capacities a growing buffer can go through: each one larger than the one before -/
def Growing : Nat → List Nat → Prop
  | _, [] => True
  | prev, cap :: rest => prev < cap ∧ Growing cap rest

/-- the loop of io.ReadAll inside a message: every request `cap - len` is positive, every Read that
    does not end the message consumes input, and the message is delivered whole -/
theorem readAllGrowLoop_spec (S : Bool) (rid : Nat) (rest : Bytes) (fuel : Nat) :
    ∀ (c : Conn) (wire : Bytes) (more : List PFrame) (caps : List Nat) (len cap : Nat) (acc : List Bytes),
      St S c wire more rest → c.r.msgReader = some rid → LenOk c (dataPayload more).length →
      c.r.buf.pending.length < fuel → len < cap → Growing cap caps →
      ∃ c2, readAllGrowLoop fuel c rid caps len cap acc =
          ((acc.reverse.flatten ++ (unmask c wire ++ dataPayload more), none), c2) ∧
        St S c2 [] [] rest ∧ c2.r.final = true ∧ c2.r.hlog = c.r.hlog ++ ctlEvents more := by
  induction fuel with
  | zero => intro c wire more caps len cap acc _ _ _ h; omega
  | succ fuel ih =>
    intro c wire more caps len cap acc hst hm hl hf hlc hg
    unfold readAllGrowLoop
    rcases mrRead_step S rid (cap - len) (by omega) rest c wire more hst hm hl with
      ⟨out, c2, w2, m2, b1, b2, b3, b4, b5, b6, b7, b8, b9⟩ | ⟨c2, b1, b2, b3, b4, b5⟩
    · rw [b1]
      simp only []
      by_cases hfull : len + out.length = cap
      · have hb : (len + out.length == cap) = true := by simp [hfull]
        rw [if_pos hb]
        cases caps with
        | nil =>
          simp only []
          obtain ⟨c3, d1, d2, d3, d4⟩ := ih c2 w2 m2 [] (len + out.length) (cap + 8192) (out :: acc) b4 b5 b6
            (by omega) (by omega) trivial
          refine ⟨c3, ?_, d2, d3, ?_⟩
          · rw [d1, b7]; simp [List.append_assoc]
          · rw [d4, b8]
        | cons cap' caps' =>
          simp only []
          obtain ⟨g1, g2⟩ := hg
          obtain ⟨c3, d1, d2, d3, d4⟩ := ih c2 w2 m2 caps' (len + out.length) cap' (out :: acc) b4 b5 b6
            (by omega) (by omega) g2
          refine ⟨c3, ?_, d2, d3, ?_⟩
          · rw [d1, b7]; simp [List.append_assoc]
          · rw [d4, b8]
      · have hb : ¬ (len + out.length == cap) = true := by simp [hfull]
        rw [if_neg hb]
        obtain ⟨c3, d1, d2, d3, d4⟩ := ih c2 w2 m2 caps (len + out.length) cap (out :: acc) b4 b5 b6
          (by omega) (by omega) hg
        refine ⟨c3, ?_, d2, d3, ?_⟩
        · rw [d1, b7]; simp [List.append_assoc]
        · rw [d4, b8]
    · rw [b1]
      simp only []
      refine ⟨c2, ?_, b3, b4, b5⟩
      rw [b2]; simp

/-- ReadMessage / io.ReadAll: whatever capacities the allocator picks for the growing buffer (any
    strictly increasing sequence starting above 0; after the list is used up the model grows by 8192),
    the message is returned complete and byte-identical -/
theorem read_message_any_caps (c : Conn) (hc : ReaderIdle c) (t : Nat) (ht : t = 1 ∨ t = 2) (fs : List PFrame)
    (hs : MsgShape t fs) (rest : Bytes)
    (hp : c.r.buf.pending = encAll c.r.isServer fs ++ rest)
    (hend : c.r.buf.t.together = false ∨ rest ≠ [])
    (hsz : (dataPayload fs).length < 2 ^ 62) (hlim : c.r.limit ≤ 0)
    (caps : List Nat) (hcaps : Growing 0 caps) :
    ∃ c1 rid, nextReader c = (.msg t rid false, c1) ∧
      ∃ c2, readAllGrow c1 rid caps = ((dataPayload fs, none), c2) ∧ ReaderIdle c2 ∧
        c2.r.buf.pending = rest ∧ c2.r.hlog = c.r.hlog ++ ctlEvents fs := by
  have hst := idle_St c hc fs rest hp hend
  obtain ⟨c1, rid, w1, m1, b1, b2, b3, b4, b5, b6, b7⟩ := nextReader_spec c.r.isServer t ht rest c [] [] fs hst hs hend
    (by simp; omega) (Or.inl hlim)
  refine ⟨c1, rid, b1, ?_⟩
  have hf : c1.r.buf.pending.length < c1.fuel + 2 := by
    have := b2.env.fuel
    unfold Conn.fuel; omega
  have hlog : c1.r.hlog ++ ctlEvents m1 = c.r.hlog ++ ctlEvents fs := by rw [b7]; simp
  cases caps with
  | nil =>
    obtain ⟨c2, d1, d2, d3, d4⟩ := readAllGrowLoop_spec c.r.isServer rid rest (c1.fuel + 2) c1 w1 m1 [] 0 512 []
      b2 b4 b5 hf (by omega) trivial
    obtain ⟨i1, i2⟩ := d2.idle d3
    refine ⟨c2, ?_, i1, i2, by rw [d4, hlog]⟩
    unfold readAllGrow
    simp only []
    rw [d1, b6]; simp
  | cons cap caps' =>
    obtain ⟨g1, g2⟩ := hcaps
    obtain ⟨c2, d1, d2, d3, d4⟩ := readAllGrowLoop_spec c.r.isServer rid rest (c1.fuel + 2) c1 w1 m1 caps' 0 cap []
      b2 b4 b5 hf g1 g2
    obtain ⟨i1, i2⟩ := d2.idle d3
    refine ⟨c2, ?_, i1, i2, by rw [d4, hlog]⟩
    unfold readAllGrow
    simp only []
    rw [d1, b6]; simp

end WS.MixedReads
