import WS.Lemmas.WFInv
import WS.Lemmas.WireInv
/-
  C02 frame level, part 2: the functions working on a messageWriter copy (flushFrame … feed).
-/
namespace WS.WFInv
open WS WS.Spec WS.Codec WS.WFSpec

/-- structural facts about a live messageWriter -/
def Struct (c : Cfg) (m : MW) : Prop :=
  OpSet m.ft ∧ (m.compress = true → (m.ft = 1 ∨ m.ft = 2) ∧ c.ng = true) ∧
    m.buf.length ≤ c.L - maxFrameHeaderSize

/-- a messageWriter copy agrees with the fragmentation state `o` of the wire -/
def MRel (c : Cfg) (we : Option WErr) (o : Bool) (m : MW) : Prop :=
  (m.err = none → Struct c m ∧ (we = none → (m.ft = 0 ↔ o = true))) ∧
  (m.err.isSome → we = none → o = false)

def Post (c : Cfg) (s s' : W) (m' : MW) : Prop :=
  (∃ o', Inn c s' o' ∧ MRel c s'.writeErr o' m') ∧ Fr s s' ∧ (m'.err = none → s'.writer = s.writer)

theorem Post.refl {c : Cfg} {s : W} {o : Bool} {m : MW} (h : Inn c s o) (hm : MRel c s.writeErr o m) :
    Post c s s m := ⟨⟨o, h, hm⟩, Fr.refl s, fun _ => rfl⟩

theorem Post.trans {c : Cfg} {s s1 s2 : W} {m1 m2 : MW} (h1 : Post c s s1 m1) (h2 : Post c s1 s2 m2)
    (hl : m2.err = none → m1.err = none) : Post c s s2 m2 :=
  ⟨h2.1, h1.2.1.trans h2.2.1, fun h => (h2.2.2 h).trans (h1.2.2 (hl h))⟩

theorem Inn.writeFatal {c : Cfg} {s : W} {o o' : Bool} (e : WErr) (h : Inn c s o) :
    Inn c (writeFatal s e) o' := by
  unfold WS.writeFatal
  split
  · rename_i hn
    refine h.fr ⟨rfl, rfl, rfl, rfl, rfl, rfl⟩ ?_
    have := h.wire
    rw [hn] at this
    exact this.to_some e
  · rename_i e' hs
    exact h.reo (by rw [hs]; rfl)

theorem newKey_fr (s : W) : Fr s (newKey s).2 ∧ (newKey s).2.wire = s.wire ∧
    (newKey s).2.writeErr = s.writeErr ∧ (newKey s).2.writer = s.writer :=
  ⟨⟨rfl, rfl, rfl, rfl, rfl, rfl⟩, rfl, rfl, rfl⟩

theorem poolPut_fr (s : W) : Fr s (poolPut s) ∧ (poolPut s).wire = s.wire ∧
    (poolPut s).writeErr = s.writeErr ∧ (poolPut s).writer = s.writer := by
  unfold poolPut
  split <;> exact ⟨⟨rfl, rfl, rfl, rfl, rfl, rfl⟩, rfl, rfl, rfl⟩

theorem poolGet_fr (s : W) : Fr s (poolGet s) ∧ (poolGet s).wire = s.wire ∧
    (poolGet s).writeErr = s.writeErr ∧ (poolGet s).writer = s.writer := by
  unfold poolGet
  split <;> exact ⟨⟨rfl, rfl, rfl, rfl, rfl, rfl⟩, rfl, rfl, rfl⟩

theorem endMessage_spec (s : W) (m : MW) (e : WErr) (hl : m.err = none) :
    Fr s (endMessage s m e).1 ∧ (endMessage s m e).1.wire = s.wire ∧
    (endMessage s m e).1.writeErr = s.writeErr ∧ (endMessage s m e).2.err = some e := by
  unfold endMessage
  rw [hl]
  simp only [Option.isSome_none, Bool.false_eq_true, if_false]
  split
  · have := poolPut_fr { s with writer := none }
    exact ⟨(⟨rfl, rfl, rfl, rfl, rfl, rfl⟩ : Fr s { s with writer := none }).trans this.1, this.2.1, this.2.2.1, trivial⟩
  · exact ⟨⟨rfl, rfl, rfl, rfl, rfl, rfl⟩, rfl, rfl, trivial⟩

/-- ending a live messageWriter when no data message is open -/
theorem post_end {c : Cfg} {s s1 : W} {o1 : Bool} (m1 : MW) (e : WErr) (h1 : Inn c s1 o1) (hf : Fr s s1)
    (ho : s1.writeErr = none → o1 = false) (hl : m1.err = none) :
    Post c s (endMessage s1 m1 e).1 (endMessage s1 m1 e).2 ∧ (endMessage s1 m1 e).2.err.isSome := by
  obtain ⟨hfr, hw, he, hme⟩ := endMessage_spec s1 m1 e hl
  refine ⟨⟨⟨o1, h1.same hfr hw he, ?_, ?_⟩, hf.trans hfr, ?_⟩, by rw [hme]; rfl⟩
  · intro hx; rw [hme] at hx; cases hx
  · intro _ hx; rw [he] at hx; exact ho hx
  · intro hx; rw [hme] at hx; cases hx

theorem frameWrite_inn {c : Cfg} {s : W} {o : Bool} (m : MW) (final : Bool) (extra : Bytes) (h : Inn c s o)
    (hst : Struct c m) (hrel : s.writeErr = none → (m.ft = 0 ↔ o = true)) (he : extra.length < 2 ^ 40)
    (hctl : IsCtl m.ft → final = true ∧ m.buf.length + extra.length ≤ 125) :
    Inn c (frameWrite s m final extra).2 (if m.ft = 8 ∨ m.ft = 9 ∨ m.ft = 10 then o else !final) ∧
    Fr s (frameWrite s m final extra).2 ∧ (frameWrite s m final extra).2.writer = s.writer ∧
    ((frameWrite s m final extra).1.isSome → (frameWrite s m final extra).2.writeErr.isSome) ∧
    ((frameWrite s m final extra).1 = none → s.writeErr = none) := by
  obtain ⟨hft, hcomp, hbuf⟩ := hst
  have hL := h.hi
  have hb0 := b0Of_lt m.ft final m.compress hft
  unfold frameWrite
  dsimp only
  rw [b0_eq]
  split
  · rename_i hsv
    have hsv' : c.sv = true := by rw [← h.isv]; exact hsv
    have henc : header true (b0Of m.ft final m.compress) (m.buf.length + extra.length) default ++ m.buf ++ extra =
        encode true (b0Of m.ft final m.compress) default (m.buf ++ extra) := by
      simp [encode, List.length_append]
    have hlen : (m.buf ++ extra).length < 2 ^ 63 := by rw [List.length_append]; omega
    refine connWrite_inn _ _ _ _ [frameOf true (b0Of m.ft final m.compress) default (m.buf ++ extra)] _ h ?_
    intro hn
    have hg := grammar_frameOf true o m.ft final m.compress default (m.buf ++ extra) hft (hrel hn)
    refine ⟨?_, ?_, hg.1, hg.2⟩
    · rw [henc]; exact decodeStream_encode _ _ _ _ hb0 hlen
    · intro f hf
      rw [List.mem_singleton] at hf
      subst hf
      have := frameOk_frameOf true c.ng m.ft final m.compress default (m.buf ++ extra) hft hcomp
        (fun hc => by have := hctl hc; rw [List.length_append]; exact this)
      unfold Cfg.ctx; rw [hsv']; exact this
  · rename_i hsv
    have hsv' : c.sv = false := by rw [← h.isv]; simpa using hsv
    have hk := newKey_fr s
    have hI : Inn c (newKey s).2 o := h.same hk.1 hk.2.1 hk.2.2.1
    split
    · have hF := writeFatal_fr (newKey s).2 .internalExtra
      exact ⟨hI.writeFatal _, hk.1.trans hF.1, hF.2.2.1.trans hk.2.2.2, fun _ => hF.2.2.2.1,
        fun hx => by cases hx⟩
    · rename_i hex
      have hex' : extra = [] := by simpa using hex
      subst hex'
      have hlen : m.buf.length < 2 ^ 63 := by omega
      have hc := connWrite_inn (↑m.ft) (newKey s).2.deadline
        (header false (b0Of m.ft final m.compress) (m.buf.length + ([] : Bytes).length) (newKey s).1 ++ maskFrom (newKey s).1 0 m.buf) []
        [frameOf false (b0Of m.ft final m.compress) (newKey s).1 m.buf]
        (if m.ft = 8 ∨ m.ft = 9 ∨ m.ft = 10 then o else !final) hI ?_
      · obtain ⟨c1, c2, c3, c4, c5⟩ := hc
        exact ⟨c1, hk.1.trans c2, c3.trans hk.2.2.2, c4, fun hx => (c5 hx)⟩
      · intro hn
        have hg := grammar_frameOf false o m.ft final m.compress (newKey s).1 m.buf hft (hrel hn)
        refine ⟨?_, ?_, hg.1, hg.2⟩
        · have henc : header false (b0Of m.ft final m.compress) (m.buf.length + ([] : Bytes).length) (newKey s).1 ++
              maskFrom (newKey s).1 0 m.buf ++ [] = encode false (b0Of m.ft final m.compress) (newKey s).1 m.buf := by
            simp [encode]
          rw [henc]; exact decodeStream_encode _ _ _ _ hb0 hlen
        · intro f hf
          rw [List.mem_singleton] at hf
          subst hf
          have := frameOk_frameOf false c.ng m.ft final m.compress (newKey s).1 m.buf hft hcomp
            (fun hc => by have := hctl hc; simpa using this)
          unfold Cfg.ctx; rw [hsv']; exact this

theorem flushFrame_post {c : Cfg} {s : W} {o : Bool} (m : MW) (final : Bool) (extra : Bytes) (h : Inn c s o)
    (hm : MRel c s.writeErr o m) (hl : m.err = none) (he : extra.length < 2 ^ 40) :
    Post c s (flushFrame s m final extra).2.1 (flushFrame s m final extra).2.2 ∧
    ((flushFrame s m final extra).1.isSome → (flushFrame s m final extra).2.2.err.isSome) ∧
    (final = true → (flushFrame s m final extra).2.2.err.isSome) ∧
    ((flushFrame s m final extra).1 = none → final = false →
      (flushFrame s m final extra).2.2.err = none ∧ (flushFrame s m final extra).2.2.buf = []) := by
  obtain ⟨hst, hrel⟩ := hm.1 hl
  have hctlIff := isControl_cast m.ft hst.1
  have hmc : maxControlPayload = 125 := by decide
  have hoctl : IsCtl m.ft → s.writeErr = none → o = false := by
    intro hctl hn
    have := hrel hn
    unfold IsCtl at hctl
    cases o with
    | false => rfl
    | true => have := this.mpr rfl; omega
  unfold flushFrame
  split
  · rename_i hc
    simp only [Bool.and_eq_true] at hc
    have hctl : IsCtl m.ft := hctlIff.mp hc.1
    have hp := post_end (s := s) m .invalidControl h (Fr.refl s) (hoctl hctl) hl
    exact ⟨hp.1, fun _ => hp.2, fun _ => hp.2, fun hx => by cases hx⟩
  · rename_i hc
    have hctl : IsCtl m.ft → final = true ∧ m.buf.length + extra.length ≤ 125 := by
      intro hx
      have h1 := hctlIff.mpr hx
      rw [h1, hmc] at hc
      simp at hc
      exact hc
    have hfw := frameWrite_inn m final extra h hst hrel he hctl
    have hl' : ({ m with compress := false } : MW).err = none := hl
    split
    · rename_i e s' heq
      rw [heq] at hfw
      obtain ⟨f1, f2, f3, f4, f5⟩ := hfw
      dsimp only at f1 f2 f3 f4 f5
      have hp := post_end (s := s) { m with compress := false } e f1 f2
        (fun hn => by have := f4 rfl; rw [hn] at this; cases this) hl'
      exact ⟨hp.1, fun _ => hp.2, fun _ => hp.2, fun hx => by cases hx⟩
    · rename_i s' heq
      rw [heq] at hfw
      obtain ⟨f1, f2, f3, f4, f5⟩ := hfw
      dsimp only at f1 f2 f3 f4 f5
      have hsn := f5 rfl
      split
      · rename_i hfin
        have hp := post_end (s := s) { m with compress := false } .writeClosed f1 f2
          (fun _ => by
            split
            · rename_i hx; exact hoctl hx hsn
            · rw [hfin]; rfl) hl'
        exact ⟨hp.1, fun _ => hp.2, fun _ => hp.2, fun _ hx => by rw [hfin] at hx; cases hx⟩
      · rename_i hfin
        have hnc : ¬ (m.ft = 8 ∨ m.ft = 9 ∨ m.ft = 10) := fun hx => hfin (hctl hx).1
        rw [if_neg hnc] at f1
        have hff : final = false := by
          cases final with
          | true => exact absurd rfl hfin
          | false => rfl
        refine ⟨⟨⟨_, f1, ?_, ?_⟩, f2, fun _ => f3⟩, fun hx => (by cases hx), fun hx => absurd hx hfin,
          fun _ _ => ⟨hl, rfl⟩⟩
        · intro _
          refine ⟨⟨Or.inl rfl, fun hx => (by cases hx), Nat.zero_le _⟩, fun _ => ?_⟩
          rw [hff]; simp
        · intro hx
          have : ({ m with compress := false, buf := [], ft := 0 } : MW).err = none := hl
          rw [this] at hx; cases hx

theorem ncopyPrep_post {c : Cfg} {s : W} {o : Bool} (m : MW) (h : Inn c s o)
    (hm : MRel c s.writeErr o m) (hl : m.err = none) :
    Post c s (ncopyPrep s m).2.1 (ncopyPrep s m).2.2 ∧
    ((ncopyPrep s m).1.isSome → (ncopyPrep s m).2.2.err.isSome) ∧
    ((ncopyPrep s m).1 = none → (ncopyPrep s m).2.2.err = none ∧
      (ncopyPrep s m).2.2.buf.length < (ncopyPrep s m).2.1.cap) := by
  have hcap : 0 < c.L - maxFrameHeaderSize := by have := h.lo; omega
  unfold ncopyPrep
  split
  · have hf := flushFrame_post m false [] h hm hl (by simp)
    refine ⟨hf.1, hf.2.1, fun hx => ?_⟩
    have := hf.2.2.2 hx rfl
    refine ⟨this.1, ?_⟩
    rw [this.2]
    unfold W.cap
    rw [hf.1.2.1.len, h.len]
    exact hcap
  · rename_i hlt
    exact ⟨Post.refl h hm, fun hx => (by cases hx), fun _ => ⟨hl, by show m.buf.length < s.cap; omega⟩⟩

theorem MRel.setBuf {c : Cfg} {we : Option WErr} {o : Bool} {m : MW} (hm : MRel c we o m) (b : Bytes)
    (hb : b.length ≤ c.L - maxFrameHeaderSize) : MRel c we o { m with buf := b } :=
  ⟨fun hl => ⟨⟨(hm.1 hl).1.1, (hm.1 hl).1.2.1, hb⟩, (hm.1 hl).2⟩, hm.2⟩

theorem copyLoop_post {c : Cfg} {s : W} {o : Bool} (m : MW) (p : Bytes) (h : Inn c s o)
    (hm : MRel c s.writeErr o m) (hl : m.err = none) :
    Post c s (copyLoop s m p).2.1 (copyLoop s m p).2.2 ∧
    ((copyLoop s m p).1.isSome → (copyLoop s m p).2.2.err.isSome) := by
  induction hn : p.length using Nat.strongRecOn generalizing s m p o with
  | _ n ih =>
    unfold copyLoop
    split
    · exact ⟨Post.refl h hm, fun hx => by cases hx⟩
    · rename_i hp
      have hpre := ncopyPrep_post m h hm hl
      split
      · rename_i e s' m' heq
        rw [heq] at hpre; exact ⟨hpre.1, hpre.2.1⟩
      · rename_i s' m' heq
        rw [heq] at hpre
        obtain ⟨hpost, _, hnone⟩ := hpre
        obtain ⟨hl', hlt'⟩ := hnone rfl
        dsimp only at hpost hl' hlt'
        obtain ⟨⟨o', hI', hM'⟩, hfr, hwr⟩ := hpost
        have hpl : p.length ≠ 0 := by simpa using hp
        split
        · rename_i hz
          exfalso
          omega
        · rename_i hnz
          have hlt : (p.drop (min (s'.cap - m'.buf.length) p.length)).length < n := by
            simp only [List.length_drop]; omega
          have hcap : s'.cap = c.L - maxFrameHeaderSize := by unfold W.cap; rw [hI'.len]
          have hM2 : MRel c s'.writeErr o' { m' with buf := m'.buf ++ p.take (min (s'.cap - m'.buf.length) p.length) } :=
            hM'.setBuf _ (by simp only [List.length_append, List.length_take]; omega)
          have hrec := ih _ hlt (s := s') (o := o') _ _ hI' hM2 hl' rfl
          exact ⟨Post.trans ⟨⟨o', hI', hM'⟩, hfr, hwr⟩ hrec.1 (fun _ => hl'), hrec.2⟩

theorem mwWrite_post {c : Cfg} {s : W} {o : Bool} (m : MW) (p : Bytes) (h : Inn c s o)
    (hm : MRel c s.writeErr o m) (hp : p.length < 2 ^ 40) :
    Post c s (mwWrite s m p).2.1 (mwWrite s m p).2.2 ∧
    ((mwWrite s m p).1.isSome → (mwWrite s m p).2.2.err.isSome) ∧
    ((mwWrite s m p).2.2.err = none → m.err = none) := by
  unfold mwWrite
  split
  · rename_i e he
    exact ⟨Post.refl h hm, fun _ => (by rw [he]; rfl), fun hx => hx⟩
  · rename_i hl
    split
    · have := flushFrame_post m false p h hm hl hp
      exact ⟨this.1, this.2.1, fun _ => hl⟩
    · have := copyLoop_post m p h hm hl
      exact ⟨this.1, this.2, fun _ => hl⟩

theorem mwWriteString_post {c : Cfg} {s : W} {o : Bool} (m : MW) (p : Bytes) (h : Inn c s o)
    (hm : MRel c s.writeErr o m) :
    Post c s (mwWriteString s m p).2.1 (mwWriteString s m p).2.2 ∧
    ((mwWriteString s m p).1.isSome → (mwWriteString s m p).2.2.err.isSome) ∧
    ((mwWriteString s m p).2.2.err = none → m.err = none) := by
  unfold mwWriteString
  split
  · rename_i e he
    exact ⟨Post.refl h hm, fun _ => (by rw [he]; rfl), fun hx => hx⟩
  · rename_i hl
    have := copyLoop_post m p h hm hl
    exact ⟨this.1, this.2, fun _ => hl⟩

theorem mwClose_post {c : Cfg} {s : W} {o : Bool} (m : MW) (h : Inn c s o)
    (hm : MRel c s.writeErr o m) :
    Post c s (mwClose s m).2.1 (mwClose s m).2.2 ∧ (mwClose s m).2.2.err.isSome := by
  unfold mwClose
  split
  · rename_i e he
    exact ⟨Post.refl h hm, by rw [he]; rfl⟩
  · rename_i hl
    have := flushFrame_post m true [] h hm hl (by simp)
    exact ⟨this.1, this.2.2.1 rfl⟩

theorem readFromPrep_post {c : Cfg} {s : W} {o : Bool} (m : MW) (h : Inn c s o)
    (hm : MRel c s.writeErr o m) (hl : m.err = none) :
    Post c s (readFromPrep s m).2.1 (readFromPrep s m).2.2 ∧
    ((readFromPrep s m).1 = none → (readFromPrep s m).2.2.err = none) := by
  unfold readFromPrep
  split
  · have hf := flushFrame_post m false [] h hm hl (by simp)
    exact ⟨hf.1, fun hx => (hf.2.2.2 hx rfl).1⟩
  · exact ⟨Post.refl h hm, fun _ => hl⟩

theorem readFromLoop_post {c : Cfg} (fuel : Nat) {s : W} {o : Bool} (m : MW) (r : Src) (nn : Nat)
    (h : Inn c s o) (hm : MRel c s.writeErr o m) (hl : m.err = none) :
    Post c s (readFromLoop fuel s m r nn).2.1 (readFromLoop fuel s m r nn).2.2 := by
  induction fuel generalizing s o m r nn with
  | zero => exact Post.refl h hm
  | succ fuel ih =>
    unfold readFromLoop
    have hpre := readFromPrep_post m h hm hl
    split
    · rename_i e s' m' heq
      rw [heq] at hpre; exact hpre.1
    · rename_i s' m' heq
      rw [heq] at hpre
      obtain ⟨hpost, hnone⟩ := hpre
      have hl' := hnone rfl
      dsimp only at hpost hl'
      obtain ⟨⟨o', hI', hM'⟩, hfr, hwr⟩ := hpost
      have hcap : s'.cap = c.L - maxFrameHeaderSize := by unfold W.cap; rw [hI'.len]
      have hbuf := (hM'.1 hl').1.2.2
      have hrd := WS.WireInv.Src.read_length r (s'.cap - m'.buf.length)
      have hgood : ∀ bs : Bytes, bs.length ≤ s'.cap - m'.buf.length →
          MRel c s'.writeErr o' { m' with buf := m'.buf ++ bs } := by
        intro bs hbs
        exact hM'.setBuf _ (by simp only [List.length_append]; omega)
      have hP : ∀ bs : Bytes, bs.length ≤ s'.cap - m'.buf.length →
          Post c s s' { m' with buf := m'.buf ++ bs } :=
        fun bs hbs => ⟨⟨o', hI', hgood bs hbs⟩, hfr, fun _ => hwr hl'⟩
      split
      · rename_i bs _ heq2
        rw [heq2] at hrd
        exact hP bs hrd
      · rename_i bs id _ heq2
        rw [heq2] at hrd
        exact hP bs hrd
      · rename_i bs r' heq2
        rw [heq2] at hrd
        have hrec := ih (s := s') (o := o') { m' with buf := m'.buf ++ bs } r' (nn + bs.length) hI'
          (hgood bs hrd) hl'
        exact Post.trans (hP bs hrd) hrec (fun _ => hl')

theorem mwReadFrom_post {c : Cfg} {s : W} {o : Bool} (m : MW) (r : Src) (h : Inn c s o)
    (hm : MRel c s.writeErr o m) :
    Post c s (mwReadFrom s m r).2.1 (mwReadFrom s m r).2.2 := by
  unfold mwReadFrom
  split
  · exact Post.refl h hm
  · rename_i hl
    exact readFromLoop_post _ m r 0 h hm hl

theorem feed_post {c : Cfg} {s : W} {o : Bool} (m : MW) (cs : List Bytes) (h : Inn c s o)
    (hm : MRel c s.writeErr o m) (hcs : ∀ x ∈ cs, x.length < 2 ^ 40) :
    Post c s (feed s m cs).2.1 (feed s m cs).2.2 ∧
    ((feed s m cs).1.isSome → (feed s m cs).2.2.err.isSome) ∧
    ((feed s m cs).2.2.err = none → m.err = none) := by
  induction cs generalizing s o m with
  | nil => exact ⟨Post.refl h hm, fun hx => (by cases hx), fun hx => hx⟩
  | cons x cs ih =>
    unfold feed
    have hw := mwWrite_post m x h hm (hcs x (by simp))
    split
    · rename_i e s' m' heq
      rw [heq] at hw; exact hw
    · rename_i s' m' heq
      rw [heq] at hw
      obtain ⟨hpost, _, hback⟩ := hw
      dsimp only at hpost hback
      obtain ⟨⟨o', hI', hM'⟩, hfr, hwr⟩ := hpost
      have hrec := ih (s := s') (o := o') m' hI' hM' (fun y hy => hcs y (by simp [hy]))
      exact ⟨Post.trans ⟨⟨o', hI', hM'⟩, hfr, hwr⟩ hrec.1 hrec.2.2, hrec.2.1, fun hx => hback (hrec.2.2 hx)⟩

end WS.WFInv
