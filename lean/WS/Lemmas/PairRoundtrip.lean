import WS.Lemmas.Content
import WS.Lemmas.WireInv
import WS.Lemmas.WireWF
import WS.Lemmas.ReaderDecodes
/-
  C01 end to end, as one theorem: what `WriteMessage(t, data)` on one connection puts on the wire is
  read by a connection of the opposite role as exactly `(t, data)`, for every payload, every write
  buffer size of the writer, every read buffer size / transport chunking / read size of the reader.
  (Composition of the writer-side content theorem with the reader-side `read_message`.)
-/
namespace WS.PairRoundtrip
open WS WS.Codec WS.ReaderDecodes

/-! ### helper lemmas: the frames the plain write path appends, as `PFrame`s -/
section Helpers
open WS.Flow WS.Content

/-- continuation frames that do not end the message -/
def Conts (fs : List PFrame) : Prop := ∀ g ∈ fs, g.op = 0 ∧ g.fin = false ∧ g.payload.length < 2 ^ 62

/-- frames flushed so far for the message being written (opcode `t`), relative to the wire `w0` at
    the start of the message -/
structure FrSt (w0 : Bytes) (sv : Bool) (t : Nat) (s : W) (m : MW) (acc : Bytes) : Prop where
  srv : s.isServer = sv
  fr : ∃ fs : List PFrame, s.wire = w0 ++ encAll (!sv) fs ∧ dataPayload fs ++ m.buf = acc ∧ ctlEvents fs = [] ∧
    ((m.ft = t ∧ fs = []) ∨
     (m.ft = 0 ∧ ∃ f rest, fs = f :: rest ∧ f.op = t ∧ f.fin = false ∧ f.payload.length < 2 ^ 62 ∧ Conts rest))

theorem encAll_snoc (S : Bool) (fs : List PFrame) (g : PFrame) : encAll S (fs ++ [g]) = encAll S fs ++ g.enc S := by
  simp [encAll]

theorem dataPayload_snoc (fs : List PFrame) (g : PFrame) (h : g.isCtl = false) :
    dataPayload (fs ++ [g]) = dataPayload fs ++ g.payload := by
  simp [dataPayload, List.filter_append, h]

theorem ctlEvents_snoc (fs : List PFrame) (g : PFrame) (h : g.isCtl = false) :
    ctlEvents (fs ++ [g]) = ctlEvents fs := by
  simp [ctlEvents, List.filter_append, h]

theorem enc_mk (sv : Bool) (op : Nat) (fin : Bool) (key : Key) (payload : Bytes) :
    PFrame.enc (!sv) ⟨op, fin, key, payload⟩ = encode sv (op + (if fin then 128 else 0)) key payload := by
  simp [PFrame.enc, PFrame.b0]

theorem tail_of_conts (rest : List PFrame) (g : PFrame) (hc : Conts rest) (h1 : g.op = 0) (h2 : g.fin = true)
    (h3 : g.payload.length < 2 ^ 62) : Tail (rest ++ [g]) := by
  induction rest with
  | nil => exact Tail.last g h1 h2 h3
  | cons f rest ih =>
    have hf := hc f (by simp)
    exact Tail.cont f _ hf.1 hf.2.1 hf.2.2 (ih (fun x hx => hc x (by simp [hx])))

theorem FrSt.congr {w0 sv t s s' m acc} (h : FrSt w0 sv t s m acc) (h1 : s'.isServer = s.isServer)
    (h2 : s'.wire = s.wire) : FrSt w0 sv t s' m acc :=
  ⟨h1.trans h.srv, by rw [h2]; exact h.fr⟩

theorem FrSt.extend {w0 sv t s m acc} (h : FrSt w0 sv t s m acc) (chunk : Bytes) :
    FrSt w0 sv t s { m with buf := m.buf ++ chunk } (acc ++ chunk) := by
  obtain ⟨fs, hw, hacc, hce, hsh⟩ := h.fr
  exact ⟨h.srv, fs, hw, by rw [← hacc, List.append_assoc], hce, hsh⟩

/-- a non-final frame has been appended -/
theorem FrSt.step {w0 sv t s m acc} (h : FrSt w0 sv t s m acc) (ht : t = 1 ∨ t = 2) (s' : W) (m' : MW)
    (key : Key) (extra : Bytes) (hsv : s'.isServer = sv)
    (hw : s'.wire = s.wire ++ encode sv m.ft key (m.buf ++ extra)) (hft : m'.ft = 0) (hbuf : m'.buf = [])
    (hlen : (m.buf ++ extra).length < 2 ^ 62) : FrSt w0 sv t s' m' (acc ++ extra) := by
  obtain ⟨fs, hw0, hacc, hce, hsh⟩ := h.fr
  have henc : PFrame.enc (!sv) ⟨m.ft, false, key, m.buf ++ extra⟩ = encode sv m.ft key (m.buf ++ extra) := by
    rw [enc_mk]; simp
  rcases hsh with ⟨hft1, hfs⟩ | ⟨hft0, f, rest, hfs, hf1, hf2, hf3, hc⟩
  · subst hfs
    have hd : (⟨m.ft, false, key, m.buf ++ extra⟩ : PFrame).isCtl = false :=
      isCtl_of_data (by show m.ft = 0 ∨ m.ft = 1 ∨ m.ft = 2; omega)
    refine ⟨hsv, [⟨m.ft, false, key, m.buf ++ extra⟩], ?_, ?_, ?_, Or.inr ⟨hft, _, [], rfl, hft1, rfl, hlen, ?_⟩⟩
    · rw [hw, hw0, encAll_cons, henc]; simp
    · rw [hbuf, dataPayload_data _ hd, ← hacc]; simp
    · rw [ctlEvents_data _ hd]; rfl
    · intro g hg; cases hg
  · have hd : (⟨m.ft, false, key, m.buf ++ extra⟩ : PFrame).isCtl = false :=
      isCtl_of_data (Or.inl hft0)
    refine ⟨hsv, fs ++ [⟨m.ft, false, key, m.buf ++ extra⟩], ?_, ?_, ?_,
      Or.inr ⟨hft, f, rest ++ [⟨m.ft, false, key, m.buf ++ extra⟩], by rw [hfs]; rfl, hf1, hf2, hf3, ?_⟩⟩
    · rw [hw, hw0, encAll_snoc, henc, List.append_assoc]
    · rw [hbuf, dataPayload_snoc _ _ hd, ← hacc]; simp
    · rw [ctlEvents_snoc _ _ hd]; exact hce
    · intro g hg
      rcases List.mem_append.mp hg with hg | hg
      · exact hc g hg
      · rw [List.mem_singleton] at hg; subst hg; exact ⟨hft0, rfl, hlen⟩

/-- the final frame has been appended -/
theorem FrSt.finish {w0 sv t s m acc} (h : FrSt w0 sv t s m acc) (ht : t = 1 ∨ t = 2) (wire' : Bytes)
    (key : Key) (extra : Bytes)
    (hw : wire' = s.wire ++ encode sv (m.ft + 128) key (m.buf ++ extra))
    (hlen : (m.buf ++ extra).length < 2 ^ 62) :
    ∃ fs : List PFrame, MsgShape t fs ∧ dataPayload fs = acc ++ extra ∧ ctlEvents fs = [] ∧
      wire' = w0 ++ encAll (!sv) fs := by
  obtain ⟨fs, hw0, hacc, hce, hsh⟩ := h.fr
  have henc : PFrame.enc (!sv) ⟨m.ft, true, key, m.buf ++ extra⟩ = encode sv (m.ft + 128) key (m.buf ++ extra) := by
    rw [enc_mk]; simp
  rcases hsh with ⟨hft1, hfs⟩ | ⟨hft0, f, rest, hfs, hf1, hf2, hf3, hc⟩
  · subst hfs
    have hd : (⟨m.ft, true, key, m.buf ++ extra⟩ : PFrame).isCtl = false :=
      isCtl_of_data (by show m.ft = 0 ∨ m.ft = 1 ∨ m.ft = 2; omega)
    refine ⟨[⟨m.ft, true, key, m.buf ++ extra⟩], MsgShape.single _ hft1 rfl hlen, ?_, ?_, ?_⟩
    · rw [dataPayload_data _ hd, ← hacc]; simp
    · rw [ctlEvents_data _ hd]; rfl
    · rw [hw, hw0, encAll_cons, henc]; simp
  · have hd : (⟨m.ft, true, key, m.buf ++ extra⟩ : PFrame).isCtl = false :=
      isCtl_of_data (Or.inl hft0)
    refine ⟨fs ++ [⟨m.ft, true, key, m.buf ++ extra⟩], ?_, ?_, ?_, ?_⟩
    · rw [hfs]
      exact MsgShape.frag f _ hf1 hf2 hf3 (tail_of_conts rest _ hc hft0 rfl hlen)
    · rw [dataPayload_snoc _ _ hd, ← hacc]; simp
    · rw [ctlEvents_snoc _ _ hd]; exact hce
    · rw [hw, hw0, encAll_snoc, henc, List.append_assoc]

/-- what a non-final flush does to the wire and the messageWriter -/
theorem flush_mid_raw {s m t M C acc} (h : MidMW s m t M C acc) (ht : t = 1 ∨ t = 2) (extra : Bytes)
    (hx : s.isServer = true ∨ extra = []) :
    ∃ key, (flushFrame s m false extra).2.1.wire = s.wire ++ encode s.isServer m.ft key (m.buf ++ extra) ∧
      (flushFrame s m false extra).2.2.ft = 0 ∧ (flushFrame s m false extra).2.2.buf = [] := by
  have hft := h.ft_lt ht
  obtain ⟨key, hfw⟩ := frameWrite_ok s m false extra h.healthy h.noFaults (by omega) h.compress hx
  unfold flushFrame
  rw [isControl_small m.ft (by omega)]
  simp only [Bool.false_and, Bool.false_eq_true, if_false]
  split
  · rename_i e s' heq
    rw [heq] at hfw
    exact absurd hfw.1 (by simp)
  · rename_i s' heq
    rw [heq] at hfw
    obtain ⟨_, hk, hw, hwr⟩ := hfw
    dsimp only at hk hw hwr
    simp only [Bool.false_eq_true, if_false, Nat.add_zero] at hw
    exact ⟨key, hw, rfl, rfl⟩

/-- what the final flush does to the wire -/
theorem flush_final_raw {s m t M C acc} (h : MidMW s m t M C acc) (ht : t = 1 ∨ t = 2) (extra : Bytes)
    (hx : s.isServer = true ∨ extra = []) :
    ∃ key, (flushFrame s m true extra).2.1.wire = s.wire ++ encode s.isServer (m.ft + 128) key (m.buf ++ extra) := by
  have hft := h.ft_lt ht
  obtain ⟨key, hfw⟩ := frameWrite_ok s m true extra h.healthy h.noFaults (by omega) h.compress hx
  unfold flushFrame
  rw [isControl_small m.ft (by omega)]
  simp only [Bool.false_and, Bool.false_eq_true, if_false]
  split
  · rename_i e s' heq
    rw [heq] at hfw
    exact absurd hfw.1 (by simp)
  · rename_i s' heq
    rw [heq] at hfw
    obtain ⟨_, hk, hw, hwr⟩ := hfw
    dsimp only at hk hw hwr
    simp only [if_true] at hw ⊢
    refine ⟨key, ?_⟩
    rw [endMessage_wire]
    exact hw

theorem flush_mid_fr {w0 sv s m t M C acc} (h : MidMW s m t M C acc) (hF : FrSt w0 sv t s m acc)
    (ht : t = 1 ∨ t = 2) (extra : Bytes) (hel : extra.length < 2 ^ 40) (hx : s.isServer = true ∨ extra = []) :
    FrSt w0 sv t (flushFrame s m false extra).2.1 (flushFrame s m false extra).2.2 (acc ++ extra) := by
  have hcap := h.cap_lt
  have hbl := h.buflen
  have hk := (flush_mid h ht extra hel hx).2.1
  obtain ⟨key, hw, hft, hbuf⟩ := flush_mid_raw h ht extra hx
  rw [hF.srv] at hw
  exact hF.step ht _ _ key extra (hk.isServer.trans hF.srv) hw hft hbuf
    (by simp only [List.length_append]; omega)

theorem flush_final_fr {w0 sv s m t M C acc} (h : MidMW s m t M C acc) (hF : FrSt w0 sv t s m acc)
    (ht : t = 1 ∨ t = 2) (extra : Bytes) (hel : extra.length < 2 ^ 40) (hx : s.isServer = true ∨ extra = []) :
    ∃ fs : List PFrame, MsgShape t fs ∧ dataPayload fs = acc ++ extra ∧ ctlEvents fs = [] ∧
      (flushFrame s m true extra).2.1.wire = w0 ++ encAll (!sv) fs := by
  have hcap := h.cap_lt
  have hbl := h.buflen
  obtain ⟨key, hw⟩ := flush_final_raw h ht extra hx
  rw [hF.srv] at hw
  exact hF.finish ht _ key extra hw (by simp only [List.length_append]; omega)

theorem ncopyPrep_fr {w0 sv s m t M C acc} (h : MidMW s m t M C acc) (hF : FrSt w0 sv t s m acc)
    (ht : t = 1 ∨ t = 2) : FrSt w0 sv t (ncopyPrep s m).2.1 (ncopyPrep s m).2.2 acc := by
  unfold ncopyPrep
  split
  · have hf := flush_mid_fr h hF ht [] (by simp) (Or.inr rfl)
    rw [List.append_nil] at hf
    exact hf
  · exact hF

theorem copyLoop_fr {w0 sv s m t M C acc} (p : Bytes) (h : MidMW s m t M C acc) (hF : FrSt w0 sv t s m acc)
    (ht : t = 1 ∨ t = 2) : FrSt w0 sv t (copyLoop s m p).2.1 (copyLoop s m p).2.2 (acc ++ p) := by
  induction hl : p.length using Nat.strongRecOn generalizing s m p acc with
  | _ n ih =>
    unfold copyLoop
    split
    · rename_i hp
      subst hp
      rw [List.append_nil]
      exact hF
    · rename_i hp
      have hpre := ncopyPrep_mid h ht
      have hpreF := ncopyPrep_fr h hF ht
      split
      · rename_i e s' m' heq
        rw [heq] at hpre
        exact absurd hpre.1 (by simp)
      · rename_i s' m' heq
        rw [heq] at hpre hpreF
        obtain ⟨_, hk, hwr, hlt, hmid⟩ := hpre
        dsimp only at hk hwr hlt hmid hpreF
        have hpl : p.length ≠ 0 := by simpa using hp
        split
        · rename_i hn
          omega
        · rename_i hn
          have hdl : (p.drop (min (s'.cap - m'.buf.length) p.length)).length < n := by
            simp only [List.length_drop]; omega
          have hext := hmid.extend (p.take (min (s'.cap - m'.buf.length) p.length))
            (by simp only [List.length_take]; omega)
          have hextF := hpreF.extend (p.take (min (s'.cap - m'.buf.length) p.length))
          have hfin := ih _ hdl _ hext hextF rfl
          rw [List.append_assoc, List.take_append_drop] at hfin
          exact hfin

theorem mwWrite_fr {w0 sv s m t M C acc} (p : Bytes) (h : MidMW s m t M C acc) (hF : FrSt w0 sv t s m acc)
    (ht : t = 1 ∨ t = 2) (hp : p.length < 2 ^ 40) :
    FrSt w0 sv t (mwWrite s m p).2.1 (mwWrite s m p).2.2 (acc ++ p) := by
  unfold mwWrite
  rw [h.err]
  dsimp only
  split
  · rename_i hc
    have hsv : s.isServer = true := by
      simp only [Bool.and_eq_true] at hc; exact hc.2
    exact flush_mid_fr h hF ht p hp (Or.inl hsv)
  · exact copyLoop_fr p h hF ht

theorem mwWriteString_fr {w0 sv s m t M C acc} (p : Bytes) (h : MidMW s m t M C acc) (hF : FrSt w0 sv t s m acc)
    (ht : t = 1 ∨ t = 2) :
    FrSt w0 sv t (mwWriteString s m p).2.1 (mwWriteString s m p).2.2 (acc ++ p) := by
  unfold mwWriteString
  rw [h.err]
  exact copyLoop_fr p h hF ht

theorem mwClose_fr {w0 sv s m t M C acc} (h : MidMW s m t M C acc) (hF : FrSt w0 sv t s m acc)
    (ht : t = 1 ∨ t = 2) :
    ∃ fs : List PFrame, MsgShape t fs ∧ dataPayload fs = acc ∧ ctlEvents fs = [] ∧
      (mwClose s m).2.1.wire = w0 ++ encAll (!sv) fs := by
  unfold mwClose
  rw [h.err]
  dsimp only
  have := flush_final_fr h hF ht [] (by simp) (Or.inr rfl)
  rw [List.append_nil] at this
  exact this

/-- handle-level frame invariant -/
def FrMid (w0 : Bytes) (sv : Bool) (t : Nat) (s : W) (h : Nat) (acc : Bytes) : Prop :=
  ∃ i, s.handles[h]? = some (.plain i) ∧ FrSt w0 sv t s (getMW s i) acc

theorem nextWriter_fr {s : W} (hi : Idle s) (t : Nat) (ht : t = 1 ∨ t = 2) :
    FrMid s.wire s.isServer t (nextWriter s (t : Int) [] []).2 (nextHandle s) [] := by
  have hk := Keep.ensureBuf s
  have hn : (ensureBuf s).nego = false := hk.nego.trans hi.plain
  unfold nextWriter
  rw [beginMessage_idle hi t ht]
  simp only [hn, Bool.false_and, Bool.false_eq_true, if_false]
  refine ⟨(ensureBuf s).mws.length, by simp [nextHandle, hk.handles], ?_⟩
  rw [getMW_last _ (ensureBuf s).mws ({ ft := t } : MW) rfl]
  refine ⟨hk.isServer, [], ?_, rfl, rfl, Or.inl ⟨rfl, rfl⟩⟩
  show (ensureBuf s).wire = _
  rw [(ensureBuf_wire s).1]; simp

theorem hWrite_fr {w0 sv} {s : W} {h t : Nat} {M C acc} (hM : Mid s h t M C acc) (hF : FrMid w0 sv t s h acc)
    (ht : t = 1 ∨ t = 2) (p : Bytes) (hp : p.length < 2 ^ 40) (a : Bool) :
    FrMid w0 sv t (hWrite s h p [] a).2 h (acc ++ p) := by
  obtain ⟨pre, m, hmws, hdead, hh, hmid⟩ := hM.mw
  obtain ⟨i, hh', hfr⟩ := hF
  rw [hh] at hh'
  simp only [Option.some.injEq, Handle.plain.injEq] at hh'
  subst hh'
  have hget := getMW_last s pre m hmws
  rw [hget] at hfr
  unfold hWrite
  rw [hh]
  dsimp only
  rw [hget]
  cases a with
  | false =>
    simp only [Bool.false_eq_true, if_false]
    have hw := mwWrite_mid p hmid ht hp
    have hwF := mwWrite_fr p hmid hfr ht hp
    refine ⟨pre.length, ?_, ?_⟩
    · show (mwWrite s m p).2.1.handles[h]? = _
      rw [hw.2.1.handles]; exact hh
    · have hg : getMW (setMW (mwWrite s m p).2.1 pre.length (mwWrite s m p).2.2) pre.length = (mwWrite s m p).2.2 := by
        apply getMW_last _ pre
        show (mwWrite s m p).2.1.mws.set pre.length _ = _
        rw [hw.2.1.mws, hmws, set_last]
      rw [hg]
      exact hwF.congr rfl rfl
  | true =>
    simp only [if_true]
    have hw := mwWriteString_mid p hmid ht
    have hwF := mwWriteString_fr p hmid hfr ht
    refine ⟨pre.length, ?_, ?_⟩
    · show (mwWriteString s m p).2.1.handles[h]? = _
      rw [hw.2.1.handles]; exact hh
    · have hg : getMW (setMW (mwWriteString s m p).2.1 pre.length (mwWriteString s m p).2.2) pre.length =
          (mwWriteString s m p).2.2 := by
        apply getMW_last _ pre
        show (mwWriteString s m p).2.1.mws.set pre.length _ = _
        rw [hw.2.1.mws, hmws, set_last]
      rw [hg]
      exact hwF.congr rfl rfl

theorem hClose_fr {w0 sv} {s : W} {h t : Nat} {M C acc} (hM : Mid s h t M C acc) (hF : FrMid w0 sv t s h acc)
    (ht : t = 1 ∨ t = 2) :
    ∃ fs : List PFrame, MsgShape t fs ∧ dataPayload fs = acc ∧ ctlEvents fs = [] ∧
      (hClose s h [] []).2.wire = w0 ++ encAll (!sv) fs := by
  obtain ⟨pre, m, hmws, hdead, hh, hmid⟩ := hM.mw
  obtain ⟨i, hh', hfr⟩ := hF
  rw [hh] at hh'
  simp only [Option.some.injEq, Handle.plain.injEq] at hh'
  subst hh'
  have hget := getMW_last s pre m hmws
  rw [hget] at hfr
  unfold hClose
  rw [hh]
  dsimp only
  rw [hget]
  exact mwClose_fr hmid hfr ht

end Helpers

/-- the bridge: the frames WriteMessage appends, as reader-side `PFrame`s -/
theorem writeMessage_frames (s : W) (hi : Content.Idle s) (t : Nat) (ht : t = 1 ∨ t = 2) (data : Bytes)
    (hd : data.length < 2 ^ 40) :
    ∃ fs : List PFrame, MsgShape t fs ∧ dataPayload fs = data ∧ ctlEvents fs = [] ∧
      (writeMessage s t data).2.wire = s.wire ++ encAll (!s.isServer) fs := by
  open WS.Stream WS.Flow WS.Content in
  unfold writeMessage
  split
  · rename_i hc
    have hsv : s.isServer = true := by
      simp only [Bool.and_eq_true] at hc; exact hc.1
    rw [beginMessage_idle hi t ht]
    dsimp only
    have hk := Keep.ensureBuf s
    have hw0 := ensureBuf_wire s
    have hcap : (ensureBuf s).cap < 2 ^ 40 := by
      have := hi.size
      rw [hk.cap]; unfold W.cap; omega
    have hmid : MidMW (ensureBuf s) { ft := t, buf := data.take (min (ensureBuf s).cap data.length) } t
        (wireMessages s) (wireControls s) (data.take (min (ensureBuf s).cap data.length)) := by
      refine ⟨hk.writeErr.trans hi.healthy, hk.faults.trans hi.noFaults, by rw [hk.wbufLen]; exact hi.size,
        rfl, rfl, ?_, [], rfl, Or.inl ⟨rfl, rfl, ?_⟩⟩
      · simp only [List.length_take]; omega
      · rw [hw0.1]; exact hi.wireSt
    have hF : FrSt s.wire s.isServer t (ensureBuf s) { ft := t, buf := data.take (min (ensureBuf s).cap data.length) }
        (data.take (min (ensureBuf s).cap data.length)) :=
      ⟨hk.isServer, [], by rw [hw0.1]; simp, rfl, rfl, Or.inl ⟨rfl, rfl⟩⟩
    have hf := flush_final_fr hmid hF ht (data.drop (min (ensureBuf s).cap data.length))
      (by simp only [List.length_drop]; omega) (Or.inl (hk.isServer.trans hsv))
    rw [List.take_append_drop] at hf
    exact hf
  · have hnw := nextWriter_idle hi t ht
    have hnF := nextWriter_fr hi t ht
    split
    · rename_i e s1 heq
      rw [heq] at hnw
      exact absurd hnw.1 (by simp)
    · rename_i h s1 heq
      rw [heq] at hnw hnF
      obtain ⟨hh, hmid⟩ := hnw
      simp only [Except.ok.injEq] at hh
      subst hh
      dsimp only at hnF
      have hw := hWrite_mid hmid ht data hd false
      have hwF := hWrite_fr hmid hnF ht data hd false
      split
      · rename_i n e s2 heq2
        rw [heq2] at hw
        exact absurd hw.1 (by simp)
      · rename_i n s2 heq2
        rw [heq2] at hw hwF
        have hc := hClose_fr hw.2 hwF ht
        simp only [List.nil_append] at hc
        exact hc

/-- C01 round trip through a connected pair (one message) -/
theorem pair_roundtrip (s : W) (hi : Content.Idle s) (t : Nat) (ht : t = 1 ∨ t = 2) (data : Bytes)
    (hd : data.length < 2 ^ 40)
    (c : Conn) (hc : ReaderIdle c) (hrole : c.r.isServer = !s.isServer) (rest : Bytes)
    (hp : c.r.buf.pending = (writeMessage s t data).2.wire.drop s.wire.length ++ rest)
    (hend : c.r.buf.t.together = false ∨ rest ≠ []) (hlim : c.r.limit ≤ 0) (k : Nat) (hk : 0 < k) :
    ∃ c1 rid, nextReader c = (.msg t rid false, c1) ∧
      ∃ c2, readAll c1 rid k = ((data, none), c2) ∧ ReaderIdle c2 ∧ c2.r.buf.pending = rest ∧
        c2.r.hlog = c.r.hlog := by
  obtain ⟨fs, hs, hdp, hce, hw⟩ := writeMessage_frames s hi t ht data hd
  have hp' : c.r.buf.pending = encAll c.r.isServer fs ++ rest := by
    rw [hp, hw, List.drop_left, hrole]
  have hsz : (dataPayload fs).length < 2 ^ 62 := by rw [hdp]; omega
  obtain ⟨c1, rid, h1, c2, h2, h3, h4, h5⟩ := read_message c hc t ht fs hs rest hp' hend hsz (Or.inl hlim) k hk
  refine ⟨c1, rid, h1, c2, ?_, h3, h4, ?_⟩
  · rw [h2, hdp]
  · rw [h5, hce, List.append_nil]

end WS.PairRoundtrip
