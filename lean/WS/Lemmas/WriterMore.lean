import WS.Lemmas.Content
import WS.Lemmas.WireInv
import WS.Lemmas.KeyFlow
/-
  C01 `accepted` for control messages through WriteMessage, and C02 `key_per_frame`.
-/
namespace WS.WriterMore
open WS WS.Codec WS.Content

/-- the constructor makes the write buffer large enough for a control frame (the repair of finding
    F4), for every requested size; a pooled / fresh buffer, no hijacked buffer -/
theorem newW_fits_control (isServer : Bool) (size : Int) (pool nego : Bool) :
    maxFrameHeaderSize + 125 ≤ (newW isServer size pool nego).wbufLen := by
  have h1 : maxFrameHeaderSize = 14 := by decide
  have h2 : maxControlPayload = 125 := by decide
  have h3 : defaultWriteBufferSize = 4096 := by decide
  have h4 : Gen.maxControlFramePayloadSize = 125 := rfl
  unfold newW
  simp only [h1, h2, h3, h4]
  split
  · omega
  · split <;> omega

/-- C01 `accepted`: a ping / pong of at most 125 bytes sent with WriteMessage is accepted and
    appears as one control frame with the same payload, on every connection whose write buffer holds
    a control frame (which the constructor guarantees) -/
theorem writeMessage_control_roundtrip (s : W) (hi : Idle s) (hcap : maxFrameHeaderSize + 125 ≤ s.wbufLen)
    (t : Nat) (ht : t = 9 ∨ t = 10) (data : Bytes) (hd : data.length ≤ 125) :
    (writeMessage s t data).1 = none ∧ Idle (writeMessage s t data).2 ∧
    wireMessages (writeMessage s t data).2 = wireMessages s ∧
    wireControls (writeMessage s t data).2 = wireControls s ++ [(t, data)] := by
  open WS.Stream WS.Flow WS.KeyFlow in
  have hk := Keep.ensureBuf s
  have hw0 := ensureBuf_wire s
  have hcapB : data.length ≤ (ensureBuf s).cap := by
    rw [hk.cap]; unfold W.cap; omega
  unfold writeMessage
  split
  · rename_i hc
    have hsv : s.isServer = true := by
      simp only [Bool.and_eq_true] at hc; exact hc.1
    rw [beginMessage_idle_ctl hi t ht]
    dsimp only
    have hf := flush_ctl (s := ensureBuf s)
      (m := { ft := t, buf := data.take (min (ensureBuf s).cap data.length) })
      (M := wireMessages s) (C := wireControls s) t ht
      (data.drop (min (ensureBuf s).cap data.length))
      (hk.writeErr.trans hi.healthy) (hk.faults.trans hi.noFaults) rfl rfl rfl
      (Or.inl (hk.isServer.trans hsv))
      (by simp only [List.length_take, List.length_drop]; omega)
      (by rw [hw0.1]; exact hi.wireSt)
    dsimp only at hf
    rw [List.take_append_drop] at hf
    obtain ⟨he, hk2, hwr, _, hws⟩ := hf
    have hkk := hk.trans hk2
    have hwire := wire_of_wireSt hws
    refine ⟨he, ⟨hkk.writeErr.trans hi.healthy, hkk.faults.trans hi.noFaults, hwr, ?_, ?_, WireSt.ends hws,
      hkk.nego.trans hi.plain⟩, hwire.1, hwire.2⟩
    · rw [hkk.mws]; exact hi.dead
    · rw [hkk.wbufLen]; exact hi.size
  · rename_i hc
    have hcl : s.isServer = false := by
      cases hs : s.isServer with
      | false => rfl
      | true => rw [hs, hi.plain] at hc; simp at hc
    have hn : (ensureBuf s).nego = false := hk.nego.trans hi.plain
    -- what NextWriter returns, abstractly
    have hnw : ∃ s1, nextWriter s (t : Int) [] [] = (.ok (ensureBuf s).handles.length, s1) ∧
        s1.mws = (ensureBuf s).mws ++ [{ ft := t }] ∧
        s1.handles[(ensureBuf s).handles.length]? = some (.plain (ensureBuf s).mws.length) ∧
        s1.isServer = (ensureBuf s).isServer ∧ s1.writeErr = (ensureBuf s).writeErr ∧
        s1.faults = (ensureBuf s).faults ∧ s1.wbufLen = (ensureBuf s).wbufLen ∧
        s1.nego = (ensureBuf s).nego ∧ s1.wire = (ensureBuf s).wire := by
      unfold nextWriter
      rw [beginMessage_idle_ctl hi t ht]
      simp only [hn, Bool.false_and, Bool.false_eq_true, if_false]
      exact ⟨_, rfl, rfl, by simp, rfl, rfl, rfl, rfl, rfl, rfl⟩
    obtain ⟨s1, hnw, hmws, hh, h1sv, h1e, h1f, h1l, h1n, h1w⟩ := hnw
    rw [hnw]
    dsimp only
    have hcap1 : data.length ≤ s1.cap := by
      unfold W.cap; rw [h1l]; exact hcapB
    obtain ⟨s2, s3, m3, hW, hC, h3e, h3f, h3wr, h3mws, h3err, h3l, h3n, h3ws⟩ :=
      ctl_tail (s := s1) (M := wireMessages s) (C := wireControls s) t ht hmws hh rfl rfl rfl rfl
        (h1sv.trans (hk.isServer.trans hcl)) (h1e.trans (hk.writeErr.trans hi.healthy))
        (h1f.trans (hk.faults.trans hi.noFaults)) data hcap1 hd
        (by rw [h1w, hw0.1]; exact hi.wireSt)
    rw [hW]
    dsimp only
    rw [hC]
    have hwire := wire_of_wireSt h3ws
    refine ⟨rfl, ⟨h3e, h3f, h3wr, ?_, ?_, WireSt.ends h3ws, ?_⟩, hwire.1, hwire.2⟩
    · intro x hx
      rw [h3mws] at hx
      rcases List.mem_append.mp hx with hx | hx
      · exact hi.dead x (by rw [← hk.mws]; exact hx)
      · rw [List.mem_singleton] at hx; subst hx; exact h3err
    · rw [h3l, h1l, hk.wbufLen]; exact hi.size
    · rw [h3n, h1n]; exact hn

/-- the masking keys of the frames a wire encodes, in order -/
def wireKeys (s : W) : List (Option Key) := (Spec.decodePrefixAux s.wire.length s.wire).map (·.mask)

/-- the i-th draw from the process-wide key source -/
def keyAt (s : W) (i : Nat) : Key := (newKey { s with keyIdx := i }).1

theorem keyAt_eq (s : W) (i : Nat) : keyAt s i = KeyFlow.keyOf s.keys i := rfl

/-- C02 `key_per_frame`: a client builds every frame of a message with a fresh draw from the key
    source — the frames of one WriteMessage carry consecutive draws starting at the connection's
    current position, and the position advances by exactly the number of frames -/
theorem key_per_frame (s : W) (hi : Idle s) (hclient : s.isServer = false) (t : Nat) (ht : t = 1 ∨ t = 2)
    (data : Bytes) (hd : data.length < 2 ^ 40) :
    let s' := (writeMessage s t data).2
    ∃ n, s'.keyIdx = s.keyIdx + n ∧
      wireKeys s' = wireKeys s ++ (List.range n).map (fun i => some (keyAt s (s.keyIdx + i))) ∧ 0 < n := by
  intro s'
  obtain ⟨n, hn, hk⟩ := KeyFlow.writeMessage_k s hi t ht data hd
  refine ⟨n, ?_, ?_, hn⟩
  · have := hk.hidx
    rw [hclient] at this
    simpa using this
  · have := hk.hwire.prefix
    rw [hclient] at this
    simp only [Bool.false_eq_true, if_false] at this
    simp only [keyAt_eq]
    exact this

theorem map_const_range {α : Type} (a : α) (n : Nat) : (List.range n).map (fun _ => a) = List.replicate n a := by
  induction n with
  | zero => rfl
  | succ n ih => rw [List.range_succ, List.map_append, ih, List.replicate_succ']; rfl

/-- servers never mask -/
theorem server_never_masks (s : W) (hi : Idle s) (hsrv : s.isServer = true) (t : Nat) (ht : t = 1 ∨ t = 2)
    (data : Bytes) (hd : data.length < 2 ^ 40) :
    wireKeys (writeMessage s t data).2 = wireKeys s ++ List.replicate ((wireKeys (writeMessage s t data).2).length - (wireKeys s).length) none := by
  obtain ⟨n, hn, hk⟩ := KeyFlow.writeMessage_k s hi t ht data hd
  have h := hk.hwire.prefix
  rw [hsrv] at h
  simp only [if_true] at h
  rw [map_const_range] at h
  have h' : wireKeys (writeMessage s t data).2 = wireKeys s ++ List.replicate n none := h
  rw [h']
  simp

end WS.WriterMore
