import WS.Model.Writer
import WS.Spec.Frame
import WS.Lemmas.Mask
import WS.Lemmas.Codec
/-
  Spec-level lemmas for C02 (frame level): the strict decoder is monotone in the rest of the stream,
  whole-frame streams concatenate, `decodePrefixAux` of a prefix is a prefix, the fragmentation grammar
  composes over `++`, and the frames the writer builds satisfy `frameOk`.
-/
namespace WS.WFSpec
open WS WS.Spec WS.Codec

theorem decodeLen_mono {n : Nat} {r r1 x : Bytes} {len : Nat} (h : decodeLen n r = some (len, r1)) :
    decodeLen n (r ++ x) = some (len, r1 ++ x) := by
  unfold decodeLen at h ⊢
  split at h
  · rename_i h1
    simp only [Option.some.injEq, Prod.mk.injEq] at h
    obtain ⟨rfl, rfl⟩ := h
    simp [h1]
  · rename_i h1
    rw [if_neg h1]
    split at h
    · rename_i h2
      rw [if_pos h2]
      split at h
      · cases h
      · rename_i h3
        have h3' : ¬ (r ++ x).length < 2 := by simp only [List.length_append]; omega
        rw [if_neg h3']
        have ht : (r ++ x).take 2 = r.take 2 := by
          rw [List.take_append_of_le_length (by omega)]
        have hd : (r ++ x).drop 2 = r.drop 2 ++ x := by
          rw [List.drop_append_of_le_length (by omega)]
        dsimp only at h ⊢
        rw [ht, hd]
        split at h
        · cases h
        · rename_i h4
          rw [if_neg h4]
          simp only [Option.some.injEq, Prod.mk.injEq] at h
          obtain ⟨rfl, rfl⟩ := h
          rfl
    · rename_i h2
      rw [if_neg h2]
      split at h
      · cases h
      · rename_i h3
        have h3' : ¬ (r ++ x).length < 8 := by simp only [List.length_append]; omega
        rw [if_neg h3']
        have ht : (r ++ x).take 8 = r.take 8 := by
          rw [List.take_append_of_le_length (by omega)]
        have hd : (r ++ x).drop 8 = r.drop 8 ++ x := by
          rw [List.drop_append_of_le_length (by omega)]
        dsimp only at h ⊢
        rw [ht, hd]
        split at h
        · cases h
        · rename_i h4
          rw [if_neg h4]
          simp only [Option.some.injEq, Prod.mk.injEq] at h
          obtain ⟨rfl, rfl⟩ := h
          rfl

theorem decodeKey_mono {b : Bool} {r r1 x : Bytes} {k : Option Key} (h : decodeKey b r = some (k, r1)) :
    decodeKey b (r ++ x) = some (k, r1 ++ x) := by
  unfold decodeKey at h ⊢
  cases b with
  | false =>
    simp only [Bool.false_eq_true, if_false, Option.some.injEq, Prod.mk.injEq] at h ⊢
    obtain ⟨rfl, rfl⟩ := h
    exact ⟨rfl, rfl⟩
  | true =>
    simp only [if_true] at h ⊢
    match r, h with
    | a :: b :: c :: d :: r', h =>
      simp only [Option.some.injEq, Prod.mk.injEq] at h
      obtain ⟨rfl, rfl⟩ := h
      rfl

/-- the strict frame decoder only looks at the bytes of the frame -/
theorem decodeFrame_mono {a r x : Bytes} {f : Frame} (h : decodeFrame a = some (f, r)) :
    decodeFrame (a ++ x) = some (f, r ++ x) := by
  unfold decodeFrame at h
  split at h
  · rename_i b0 b1 rest
    split at h
    · cases h
    · rename_i len rest1 hl
      split at h
      · cases h
      · rename_i key rest2 hk
        split at h
        · cases h
        · rename_i hlen
          simp only [Option.some.injEq, Prod.mk.injEq] at h
          obtain ⟨hf, hr⟩ := h
          have hlen' : ¬ (rest2 ++ x).length < len := by simp only [List.length_append]; omega
          have ht : (rest2 ++ x).take len = rest2.take len := by
            rw [List.take_append_of_le_length (by omega)]
          have hd : (rest2 ++ x).drop len = rest2.drop len ++ x := by
            rw [List.drop_append_of_le_length (by omega)]
          show decodeFrame (b0 :: b1 :: (rest ++ x)) = _
          unfold decodeFrame
          simp only [decodeLen_mono hl, decodeKey_mono hk, if_neg hlen', ht, hd]
          rw [← hf, ← hr]
  · cases h

theorem decodeFrame_ne_nil {a r : Bytes} {f : Frame} (h : decodeFrame a = some (f, r)) : a ≠ [] := by
  intro ha; subst ha; simp [decodeFrame] at h

theorem decodeStreamAux_append (b : Bytes) (gs : List Frame) (hb : decodeStream b = some gs) :
    ∀ (n : Nat) (a : Bytes) (fs : List Frame), decodeStreamAux n a = some fs →
      ∀ m, (a ++ b).length ≤ m → decodeStreamAux m (a ++ b) = some (fs ++ gs) := by
  intro n
  induction n with
  | zero =>
    intro a fs h m hm
    cases a with
    | nil =>
      simp only [decodeStreamAux, Option.some.injEq] at h
      subst h
      simp only [List.nil_append] at hm ⊢
      rw [decodeStreamAux_fuel m b.length b hm (Nat.le_refl _)]
      exact hb
    | cons _ _ => simp [decodeStreamAux] at h
  | succ n ih =>
    intro a fs h m hm
    cases a with
    | nil =>
      simp only [decodeStreamAux, Option.some.injEq] at h
      subst h
      simp only [List.nil_append] at hm ⊢
      rw [decodeStreamAux_fuel m b.length b hm (Nat.le_refl _)]
      exact hb
    | cons y a =>
      simp only [decodeStreamAux] at h
      cases hd : decodeFrame (y :: a) with
      | none => rw [hd] at h; cases h
      | some p =>
        obtain ⟨f, r⟩ := p
        rw [hd] at h
        simp only [Option.map_eq_some_iff] at h
        obtain ⟨fs', hfs', rfl⟩ := h
        have hmono := decodeFrame_mono (x := b) hd
        have hlen := decodeFrame_length hmono
        cases m with
        | zero => simp at hm
        | succ m =>
          simp only [List.cons_append] at hmono hm hlen ⊢
          simp only [decodeStreamAux, hmono]
          rw [ih r fs' hfs' m (by simp only [List.length_cons] at hm hlen; omega)]
          rfl

/-- whole-frame streams concatenate -/
theorem decodeStream_append {a b : Bytes} {fs gs : List Frame} (ha : decodeStream a = some fs)
    (hb : decodeStream b = some gs) : decodeStream (a ++ b) = some (fs ++ gs) :=
  decodeStreamAux_append b gs hb a.length a fs ha (a ++ b).length (Nat.le_refl _)

/-- the whole frames found in a prefix of a decodable stream are a prefix of its frames -/
theorem decodePrefixAux_prefix (x : Bytes) :
    ∀ (n : Nat) (a : Bytes) (m : Nat) (fs : List Frame), decodeStreamAux m (a ++ x) = some fs →
      decodePrefixAux n a <+: fs := by
  intro n
  induction n with
  | zero => intro a m fs _; simp [decodePrefixAux]
  | succ n ih =>
    intro a m fs h
    simp only [decodePrefixAux]
    cases hd : decodeFrame a with
    | none => simp
    | some p =>
      obtain ⟨f, r⟩ := p
      simp only []
      have hmono := decodeFrame_mono (x := x) hd
      have hne := decodeFrame_ne_nil hd
      cases a with
      | nil => exact absurd rfl hne
      | cons y a =>
        simp only [List.cons_append] at h hmono
        cases m with
        | zero => simp [decodeStreamAux] at h
        | succ m =>
          simp only [decodeStreamAux, hmono, Option.map_eq_some_iff] at h
          obtain ⟨fs', hfs', rfl⟩ := h
          exact List.cons_prefix_cons.mpr ⟨rfl, ih r m fs' hfs'⟩

/-! ### grammar -/

theorem grammar_append (o : Bool) (fs gs : List Frame) :
    grammar o (fs ++ gs) = (grammar o fs && grammar (endsInMsg o fs) gs) := by
  induction fs generalizing o with
  | nil => simp [grammar, endsInMsg]
  | cons f fs ih =>
    simp only [List.cons_append, grammar, endsInMsg]
    split
    · exact ih o
    · split
      · rw [ih, Bool.and_assoc]
      · rw [ih, Bool.and_assoc]

theorem endsInMsg_append (o : Bool) (fs gs : List Frame) :
    endsInMsg o (fs ++ gs) = endsInMsg (endsInMsg o fs) gs := by
  induction fs generalizing o with
  | nil => simp [endsInMsg]
  | cons f fs ih =>
    simp only [List.cons_append, endsInMsg]
    split
    · exact ih o
    · exact ih _

theorem WellFormed.prefix {ctx : Ctx} {fs gs : List Frame} (h : WellFormed ctx gs) (hp : fs <+: gs) :
    WellFormed ctx fs := by
  obtain ⟨t, rfl⟩ := hp
  obtain ⟨h1, h2⟩ := h
  refine ⟨fun f hf => h1 f (List.mem_append_left _ hf), ?_⟩
  rw [grammar_append, Bool.and_eq_true] at h2
  exact h2.1

theorem WellFormed.append {ctx : Ctx} {fs gs : List Frame} (h : WellFormed ctx fs)
    (hg : ∀ f ∈ gs, frameOk ctx f = true) (hgr : grammar (endsInMsg false fs) gs = true) :
    WellFormed ctx (fs ++ gs) := by
  refine ⟨?_, ?_⟩
  · intro f hf
    rcases List.mem_append.mp hf with h' | h'
    · exact h.1 f h'
    · exact hg f h'
  · rw [grammar_append, h.2, hgr]; rfl

/-! ### the frames the writer builds -/

def b0Of (ft : Nat) (fin comp : Bool) : Nat := ft + (if fin then 128 else 0) + (if comp then 64 else 0)

def OpSet (ft : Nat) : Prop := ft = 0 ∨ ft = 1 ∨ ft = 2 ∨ ft = 8 ∨ ft = 9 ∨ ft = 10
def IsCtl (ft : Nat) : Prop := ft = 8 ∨ ft = 9 ∨ ft = 10

theorem frameOk_frameOf (sv ng : Bool) (ft : Nat) (fin comp : Bool) (key : Key) (payload : Bytes)
    (hft : OpSet ft) (hc : comp = true → (ft = 1 ∨ ft = 2) ∧ ng = true)
    (hctl : IsCtl ft → fin = true ∧ payload.length ≤ 125) :
    frameOk ⟨!sv, ng⟩ (frameOf sv (b0Of ft fin comp) key payload) = true := by
  unfold OpSet at hft
  unfold IsCtl at hctl
  rcases hft with rfl | rfl | rfl | rfl | rfl | rfl <;> cases fin <;> cases comp <;> cases sv <;>
    simp_all [frameOk, frameOf, b0Of, isControlOp, isDataOp]

theorem grammar_frameOf (sv : Bool) (o : Bool) (ft : Nat) (fin comp : Bool) (key : Key) (payload : Bytes)
    (hft : OpSet ft) (h0 : ft = 0 ↔ o = true) :
    grammar o [frameOf sv (b0Of ft fin comp) key payload] = true ∧
    endsInMsg o [frameOf sv (b0Of ft fin comp) key payload] = (if ft = 8 ∨ ft = 9 ∨ ft = 10 then o else !fin) := by
  unfold OpSet at hft
  rcases hft with rfl | rfl | rfl | rfl | rfl | rfl <;> cases fin <;> cases comp <;> cases o <;>
    simp_all [grammar, endsInMsg, frameOf, b0Of, isControlOp]


theorem isControl_cast (ft : Nat) (h : OpSet ft) : isControl (ft : Int) = true ↔ IsCtl ft := by
  unfold OpSet at h
  unfold IsCtl
  rcases h with rfl | rfl | rfl | rfl | rfl | rfl <;>
    simp [isControl, Gen.CloseMessage, Gen.PingMessage, Gen.PongMessage]

theorem b0Of_lt (ft : Nat) (fin comp : Bool) (h : OpSet ft) : b0Of ft fin comp < 256 := by
  unfold OpSet at h
  unfold b0Of
  rcases h with rfl | rfl | rfl | rfl | rfl | rfl <;> cases fin <;> cases comp <;> simp

theorem b0_eq (ft : Nat) (fin comp : Bool) :
    ft + (if fin then Gen.finalBit.toNat else 0) + (if comp then Gen.rsv1Bit.toNat else 0) = b0Of ft fin comp := by
  rfl

theorem encode_ne_nil (sv : Bool) (b0 : Nat) (key : Key) (payload : Bytes) (hb : b0 < 256)
    (hl : payload.length < 2 ^ 63) : encode sv b0 key payload ≠ [] := by
  intro h
  have := decode_encode sv b0 key payload [] hb hl
  rw [h] at this
  simp [decodeFrame] at this

theorem decodeStream_encode (sv : Bool) (b0 : Nat) (key : Key) (payload : Bytes) (hb : b0 < 256)
    (hl : payload.length < 2 ^ 63) :
    decodeStream (encode sv b0 key payload) = some [frameOf sv b0 key payload] := by
  have h1 := decodeStream_cons (encode sv b0 key payload) [] _ (decode_encode sv b0 key payload [] hb hl)
    (encode_ne_nil sv b0 key payload hb hl)
  rw [List.append_nil] at h1
  rw [h1, decodeStream_nil]
  rfl

end WS.WFSpec
