import WS.Lemmas.RobustReader
/-
  The reader only ever moves forward in a well-formed byte source: every stage of advanceFrame keeps
  the bufio model well formed, never lengthens `pending`, and leaves the ghost `total` and the buffer
  size alone; an accepted frame consumes at least its two header bytes. Consequence: the fuel of the
  NextReader loop (`Conn.fuel`) is never exhausted on a source with `pending.length ≤ total`, i.e. a
  NextReader call that does not hand out a message has latched an error.
-/
namespace WS.ReaderProg
open WS WS.SrcLaw WS.AdvFrame WS.RobustAux

/-- `b'` is a later state of the well-formed source `b` -/
structure Prog (b b' : Buf) : Prop where
  wf : WF b'
  len : b'.pending.length ≤ b.pending.length
  total : b'.total = b.total
  size : b'.size = b.size

theorem Prog.refl (b : Buf) (h : WF b) : Prog b b := ⟨h, Nat.le_refl _, rfl, rfl⟩

theorem Prog.trans {a b c : Buf} (h1 : Prog a b) (h2 : Prog b c) : Prog a c :=
  ⟨h2.wf, Nat.le_trans h2.len h1.len, h2.total.trans h1.total, h2.size.trans h1.size⟩

/-! ### the source operations -/

theorem take_prog (b : Buf) (h : WF b) (n : Nat) :
    Prog b (b.take n).2.2 ∧
      ((b.take n).2.1 = none → (b.take n).2.2.pending.length + n ≤ b.pending.length) := by
  by_cases hn : n ≤ b.size
  · by_cases hp : n ≤ b.pending.length
    · obtain ⟨_, _, t3, t4, t5⟩ := take_ok b h n hn hp
      have hl : (b.take n).2.2.pending.length + n = b.pending.length := by
        rw [t3, List.length_drop]; omega
      exact ⟨⟨t4, by omega, take_total b n, t5.1⟩, fun _ => by omega⟩
    · obtain ⟨_, t2, t3, t4, t5⟩ := take_short b h n hn (by omega)
      refine ⟨⟨t4, by rw [t3]; exact Nat.zero_le _, take_total b n, t5.1⟩, ?_⟩
      intro he; rw [t2] at he; cases he
  · obtain ⟨p1, p2, p3, _⟩ := peekLoop_spec (n + 1) b n h (by omega)
    have pt := peekLoop_total (n + 1) b n
    have hgt : n > (b.peekLoop (n + 1) n).size := by rw [p3.1]; omega
    unfold Buf.take
    simp only []
    rw [if_pos hgt]
    refine ⟨⟨⟨p2.size_pos, Nat.zero_le _, p2.chunks, p2.latched⟩, ?_, pt, p3.1⟩, ?_⟩
    · rw [← p1]
      simp only [Buf.pending, List.nil_append, List.length_append]
      omega
    · intro he; cases he

theorem skip_prog (b : Buf) (h : WF b) (n : Nat) : Prog b (b.skip n).2 := by
  by_cases hp : n ≤ b.pending.length
  · obtain ⟨_, t2, t3, t4⟩ := skip_ok b h n hp
    exact ⟨t3, by rw [t2, List.length_drop]; omega, skip_total b n, t4.1⟩
  · obtain ⟨_, t2, t3, t4⟩ := skip_short b h n (by omega)
    exact ⟨t3, by rw [t2]; exact Nat.zero_le _, skip_total b n, t4.1⟩

theorem read_prog (b : Buf) (h : WF b) (k : Nat) (hk : 0 < k) : Prog b (b.read k).2.2 := by
  obtain ⟨r1, _, _, _, _, r6, r7⟩ := read_spec b h k hk
  refine ⟨r6, ?_, read_total b k, r7.1⟩
  rw [← r1, List.length_append]
  omega

/-! ### projections of `buf` that never compare whole records -/

theorem bf_pair {α : Type} (a : α) (w : W) (f1 f2 : Bool) (f3 : Option RErr) (f4 : Int) (f5 : Bool) (f6 f7 : Int)
    (f8 : Nat) (f9 : Key) (f10 : Bool) (f11 : Nat) (f12 : Option Nat) (f13 : Nat) (f14 f15 f16 : HMode)
    (f17 : Buf) (f18 : List REv) :
    (a, Conn.mk w (R.mk f1 f2 f3 f4 f5 f6 f7 f8 f9 f10 f11 f12 f13 f14 f15 f16 f17 f18)).snd.r.buf = f17 := rfl

theorem bf_pair_stb {α : Type} (a : α) (w : W) (f1 f2 : Bool) (f3 : Option RErr) (f4 : Int) (f5 : Bool) (f6 f7 : Int)
    (f8 : Nat) (f9 : Key) (f10 : Bool) (f11 : Nat) (f12 : Option Nat) (f13 : Nat) (f14 f15 f16 : HMode)
    (f17 : Buf) (f18 : List REv) :
    (a, sendTooBig (Conn.mk w (R.mk f1 f2 f3 f4 f5 f6 f7 f8 f9 f10 f11 f12 f13 f14 f15 f16 f17 f18))).snd.r.buf = f17 := rfl

theorem rh_buf (m : HMode) (c : Conn) (ev : REv) : (runHandler m c ev).2.r.buf = c.r.buf := by
  unfold runHandler; split <;> rfl

/-! ### the stages of advanceFrame -/

theorem afSkip_prog (c : Conn) (hw : WF c.r.buf) : Prog c.r.buf (afSkip c).2.r.buf := by
  unfold afSkip
  split
  · have h := skip_prog c.r.buf hw c.r.remaining.toNat
    generalize c.r.buf.skip c.r.remaining.toNat = x at h ⊢
    obtain ⟨e, b⟩ := x
    exact h
  · exact Prog.refl _ hw

theorem afLen_prog (h : Hdr) (c : Conn) (hw : WF c.r.buf) : Prog c.r.buf (afLen h c).2.r.buf := by
  unfold afLen
  split
  · have ht := (take_prog c.r.buf hw 2).1
    generalize c.r.buf.take 2 = x at ht ⊢
    obtain ⟨p, e, b⟩ := x
    cases e <;> exact ht
  · split
    · have ht := (take_prog c.r.buf hw 8).1
      generalize c.r.buf.take 8 = x at ht ⊢
      obtain ⟨p, e, b⟩ := x
      cases e
      · simp only [] at ht ⊢
        split
        · exact ht
        · exact ht
      · exact ht
    · exact Prog.refl _ hw

theorem afKey_prog (h : Hdr) (c : Conn) (hw : WF c.r.buf) : Prog c.r.buf (afKey h c).2.r.buf := by
  unfold afKey
  split
  · have ht := (take_prog c.r.buf hw 4).1
    generalize c.r.buf.take 4 = x at ht ⊢
    obtain ⟨p, e, b⟩ := x
    cases e
    · simp only [] at ht ⊢
      cases Key.ofBytes p <;> exact ht
    · exact ht
  · exact Prog.refl _ hw

theorem afData_buf (h : Hdr) (c : Conn) : (afData h c).2.r.buf = c.r.buf := by
  unfold afData
  simp only []
  generalize (if (h.opcode == 0) = true then c.r.length else 0) = base
  split
  · exact bf_pair_stb ..
  · exact bf_pair ..

theorem afPayload_prog (c : Conn) (hw : WF c.r.buf) : Prog c.r.buf (afPayload c).2.2.r.buf := by
  unfold afPayload
  split
  · have ht := (take_prog c.r.buf hw c.r.remaining.toNat).1
    generalize c.r.buf.take c.r.remaining.toNat = x at ht ⊢
    obtain ⟨p, e, b⟩ := x
    cases e <;> exact ht
  · exact Prog.refl _ hw

theorem rh_tail_buf (m : HMode) (c : Conn) (ev : REv) (f : Conn → Except RErr Nat × Conn)
    (hf : ∀ c', (f c').2.r.buf = c'.r.buf) :
    (match runHandler m c ev with
      | (e, c) => match e with
        | some e => ((.error e : Except RErr Nat), c)
        | none => f c).2.r.buf = c.r.buf := by
  have h := rh_buf m c ev
  generalize runHandler m c ev = x at h ⊢
  obtain ⟨e, c'⟩ := x
  cases e
  · exact (hf c').trans h
  · exact h

theorem afDispatch_buf (h : Hdr) (p : Bytes) (c : Conn) : (afDispatch h p c).2.r.buf = c.r.buf := by
  unfold afDispatch
  split
  · exact rh_tail_buf _ _ _ (fun c => (.ok 10, c)) (fun _ => rfl)
  · split
    · exact rh_tail_buf _ _ _ (fun c => (.ok 9, if c.r.hPing = .dflt then { c with w := (writeControl c.w 10 p writeWaitDeadline).2 } else c))
        (fun c' => by simp only []; split <;> rfl)
    · extract_lets code text
      split
      · exact congrArg R.buf (hpe_r _ _)
      · split
        · exact congrArg R.buf (hpe_r _ _)
        · exact rh_tail_buf _ _ _ (fun c => (.error (.close code text), if c.r.hClose = .dflt then { c with w := (writeControl c.w 8 (closePayload code []) writeWaitDeadline).2 } else c))
            (fun c' => by simp only []; split <;> rfl)

theorem afHdr_prog (c : Conn) (b0 b1 : UInt8) (hw : WF c.r.buf) : Prog c.r.buf (afHdr c b0 b1).2.r.buf := by
  unfold afHdr
  extract_lets h errs final' src c1
  have hw1 : WF c1.r.buf := hw
  have h0 : Prog c.r.buf c1.r.buf := Prog.refl _ hw
  split
  · rw [congrArg R.buf (hpe_r _ _)]; exact h0
  · have h1 := afLen_prog h c1 hw1
    generalize afLen h c1 = x at h1 ⊢
    obtain ⟨e, c2⟩ := x
    cases e
    · simp only [] at h1 ⊢
      have h2 := afKey_prog h c2 h1.wf
      generalize afKey h c2 = x at h2 ⊢
      obtain ⟨e, c3⟩ := x
      cases e
      · simp only [] at h2 ⊢
        split
        · rw [afData_buf]; exact h0.trans (h1.trans h2)
        · have h3 := afPayload_prog c3 h2.wf
          generalize afPayload c3 = x at h3 ⊢
          obtain ⟨e, p, c4⟩ := x
          cases e
          · simp only [] at h3 ⊢
            rw [afDispatch_buf]; exact h0.trans (h1.trans (h2.trans h3))
          · exact h0.trans (h1.trans (h2.trans h3))
      · exact h0.trans (h1.trans h2)
    · exact h0.trans h1

theorem afHead_prog (c : Conn) (hw : WF c.r.buf) :
    Prog c.r.buf (afHead c).2.r.buf ∧
      (∀ t, (afHead c).1 = .ok t → (afHead c).2.r.buf.pending.length + 2 ≤ c.r.buf.pending.length) := by
  unfold afHead
  have ht := take_prog c.r.buf hw 2
  generalize c.r.buf.take 2 = x at ht ⊢
  obtain ⟨p, e, b⟩ := x
  simp only [] at ht ⊢
  cases e with
  | some e => exact ⟨ht.1, fun t h => by cases h⟩
  | none =>
    have h2 := ht.2 rfl
    rcases p with _ | ⟨b0, _ | ⟨b1, _ | ⟨b2, p⟩⟩⟩
    · exact ⟨ht.1, fun t h => by cases h⟩
    · exact ⟨ht.1, fun t h => by cases h⟩
    · have hh := afHdr_prog { c with r := { c.r with buf := b } } b0 b1 ht.1.wf
      refine ⟨ht.1.trans hh, fun t _ => ?_⟩
      have := hh.len
      simp only [] at this ⊢
      omega
    · exact ⟨ht.1, fun t h => by cases h⟩

/-- advanceFrame on a well-formed source: the source stays well formed and only moves forward; an
    accepted frame has consumed at least its two header bytes -/
theorem advanceFrame_prog (c : Conn) (hw : WF c.r.buf) :
    Prog c.r.buf (advanceFrame c).2.r.buf ∧
      (∀ t, (advanceFrame c).1 = .ok t → (advanceFrame c).2.r.buf.pending.length + 2 ≤ c.r.buf.pending.length) := by
  rw [advanceFrame_eq]
  have h1 := afSkip_prog c hw
  generalize afSkip c = x at h1 ⊢
  obtain ⟨e, c1⟩ := x
  cases e
  · simp only [] at h1 ⊢
    obtain ⟨h2, h3⟩ := afHead_prog c1 h1.wf
    refine ⟨h1.trans h2, fun t ht => ?_⟩
    have := h3 t ht
    have := h1.len
    omega
  · exact ⟨h1, fun t h => by cases h⟩

/-! ### the loops -/

/-- with enough fuel for the bytes still pending, the NextReader loop either hands out a message or
    latches an error -/
theorem nextReaderLoop_prog (fuel : Nat) : ∀ c : Conn, WF c.r.buf → c.r.buf.pending.length < fuel →
    Prog c.r.buf (nextReaderLoop fuel c).2.r.buf ∧
      ((∀ t rid z, (nextReaderLoop fuel c).1 ≠ .msg t rid z) → (nextReaderLoop fuel c).2.r.readErr ≠ none) := by
  induction fuel with
  | zero => intro c _ h; omega
  | succ n ih =>
    intro c hw hf
    unfold nextReaderLoop
    split
    · rename_i e he
      exact ⟨Prog.refl _ hw, fun _ h => by simp only [] at h; rw [he] at h; cases h⟩
    · have h1 := advanceFrame_prog c hw
      generalize advanceFrame c = x at h1 ⊢
      obtain ⟨res, c1⟩ := x
      cases res with
      | error e => exact ⟨h1.1, fun _ h => by cases h⟩
      | ok t =>
        simp only [] at h1 ⊢
        split
        · exact ⟨h1.1, fun hh => absurd rfl (hh _ _ _)⟩
        · have h2 := h1.2 t rfl
          obtain ⟨i1, i2⟩ := ih c1 h1.1.wf (by omega)
          exact ⟨h1.1.trans i1, i2⟩

theorem mrReadLoop_prog (rid k : Nat) (hk : 0 < k) (fuel : Nat) : ∀ c : Conn, WF c.r.buf →
    Prog c.r.buf (mrReadLoop fuel c rid k).2.r.buf := by
  induction fuel with
  | zero => intro c hw; exact Prog.refl _ hw
  | succ n ih =>
    intro c hw
    unfold mrReadLoop
    split
    · exact Prog.refl _ hw
    · split
      · rename_i hrem
        have h := read_prog c.r.buf hw (min k c.r.remaining.toNat) (by omega)
        simp only []
        generalize c.r.buf.read (min k c.r.remaining.toNat) = x at h ⊢
        obtain ⟨bs, e, b⟩ := x
        exact h
      · split
        · exact Prog.refl _ hw
        · have h1 := (advanceFrame_prog c hw).1
          generalize advanceFrame c = x at h1 ⊢
          obtain ⟨res, c1⟩ := x
          cases res with
          | error e =>
            simp only [] at h1 ⊢
            exact h1.trans (ih { c1 with r := { c1.r with readErr := some e } } h1.wf)
          | ok t =>
            simp only [] at h1 ⊢
            split
            · exact h1.trans (ih { c1 with r := { c1.r with readErr := some .internalData } } h1.wf)
            · exact h1.trans (ih c1 h1.wf)

theorem mrRead_prog (c : Conn) (rid k : Nat) (hk : 0 < k) (hw : WF c.r.buf) :
    Prog c.r.buf (mrRead c rid k).2.r.buf := by
  unfold mrRead
  split
  · exact Prog.refl _ hw
  · exact mrReadLoop_prog rid k hk _ c hw

/-! ### NextReader -/

theorem nrFinish_buf (x : NRRes × Conn) : (nrFinish x).2.r.buf = x.2.r.buf := by
  obtain ⟨res, c1⟩ := x
  cases res <;> unfold nrFinish <;> simp only [] <;> (try split) <;> rfl

theorem nrFinish_readErr (x : NRRes × Conn) : (nrFinish x).2.r.readErr = x.2.r.readErr := by
  obtain ⟨res, c1⟩ := x
  cases res <;> unfold nrFinish <;> simp only [] <;> (try split) <;> rfl

theorem nrFinish_msg_ec (t rid : Nat) (z : Bool) (c1 : Conn) :
    (nrFinish (.msg t rid z, c1)).2.r.errCount = c1.r.errCount := rfl

/-- the source only moves forward in the NextReader loop, whatever the fuel -/
theorem nextReaderLoop_prog' (fuel : Nat) : ∀ c : Conn, WF c.r.buf →
    Prog c.r.buf (nextReaderLoop fuel c).2.r.buf := by
  induction fuel with
  | zero => intro c hw; exact Prog.refl _ hw
  | succ n ih =>
    intro c hw
    unfold nextReaderLoop
    split
    · exact Prog.refl _ hw
    · have h1 := (advanceFrame_prog c hw).1
      generalize advanceFrame c = x at h1 ⊢
      obtain ⟨res, c1⟩ := x
      cases res with
      | error e => exact h1
      | ok t =>
        simp only [] at h1 ⊢
        split
        · exact h1
        · exact h1.trans (ih c1 h1.wf)

theorem nextReader_prog (c : Conn) (hw : WF c.r.buf) : Prog c.r.buf (nextReader c).2.r.buf := by
  rw [nextReader_eq, nrFinish_buf]
  unfold nrRes
  split
  · exact Prog.refl _ hw
  · exact nextReaderLoop_prog' c.fuel (c0 c) hw

end WS.ReaderProg
