import WS.Lemmas.Sequences
import WS.Lemmas.LimitHistoryAux
/-
  C06, first sentence, at full strength: with a read limit L > 0, on a connection whose messages so
  far were all within the limit, the next message of at most L payload bytes can always be read in
  full, however it is fragmented and whatever the application did with the earlier messages (read
  them fully, partly, or not at all).
-/
namespace WS.LimitHistory
open WS WS.Codec WS.ReaderDecodes WS.Sequences WS.LimitHistoryAux

/-- what an application may do with each of a run of messages: open it with NextReader and issue
    reads of any sizes on it (none, some, to the end, or beyond the end), results discarded -/
def touchMsgs : List (List Nat) → Conn → Conn
  | [], c => c
  | rs :: more, c =>
    match nextReader c with
    | (.msg _ rid _, c1) => touchMsgs more (partialReads c1 rid rs)
    | (_, c1) => c1

/-- the induction behind `limit_history_independent`: from a reader anywhere inside a message of at
    most `n` payload bytes (`Pre`), after any treatment of the following messages `msgs`, the message
    `fs` is read in full -/
theorem history_gen (S : Bool) (t : Nat) (ht : t = 1 ∨ t = 2) (fs : List PFrame) (hs : MsgShape t fs)
    (hsz : (dataPayload fs).length < 2 ^ 62) (rest : Bytes) (L : Int)
    (hfit : L ≤ 0 ∨ ((dataPayload fs).length : Int) ≤ L) (tg : Bool) (htog : tg = false ∨ rest ≠ [])
    (k : Nat) (hk : 0 < k) (msgs : List (Nat × List PFrame)) :
    ∀ (readss : List (List Nat)) (c : Conn) (H : List REv) (n : Nat), readss.length = msgs.length →
      (∀ m ∈ msgs, (m.1 = 1 ∨ m.1 = 2) ∧ MsgShape m.1 m.2 ∧ (dataPayload m.2).length < 2 ^ 62 ∧
        (L ≤ 0 ∨ ((dataPayload m.2).length : Int) ≤ L)) →
      Pre S ((msgs.map (fun m => encAll S m.2)).flatten ++ (encAll S fs ++ rest)) H n L tg c →
      n < 2 ^ 62 → (L ≤ 0 ∨ (n : Int) ≤ L) →
      ∃ c1 rid, nextReader (touchMsgs readss c) = (.msg t rid false, c1) ∧
        ∃ c2, readAll c1 rid k = ((dataPayload fs, none), c2) ∧ ReaderIdle c2 ∧ c2.r.buf.pending = rest ∧
          c2.r.hlog = H ++ (msgs.map (fun m => ctlEvents m.2)).flatten ++ ctlEvents fs ∧ c2.r.limit = L := by
  induction msgs with
  | nil =>
    intro readss c H n hr _ hpre hn hnL
    have hr0 : readss = [] := List.eq_nil_of_length_eq_zero (by simpa using hr)
    subst hr0
    have hpre' : Pre S (encAll S fs ++ rest) H n L tg c := by simpa using hpre
    have hlimc := hpre'.limit
    obtain ⟨c1, rid, w1, m1, b1, b2, b3, b4, b5, b6, b7⟩ := pre_next S t ht rest H n L tg c fs hpre' hs htog hn hsz
      (by rcases hnL with h | h
          · exact Or.inl h
          · rcases hfit with h' | h'
            · exact Or.inl h'
            · exact Or.inr ⟨h, h'⟩)
    obtain ⟨c2, d1, d2, d3, d4, d5⟩ := readAll_spec' S rid k hk rest c1 w1 m1 b2 b4 b5
    refine ⟨c1, rid, b1, c2, ?_, d2, d3, ?_, ?_⟩
    · rw [d1, b6]
    · rw [d4, b7]; simp
    · rw [d5.limit, b3.limit, hlimc]
  | cons m ms ih =>
    intro readss c H n hr hm hpre hn hnL
    cases readss with
    | nil => simp at hr
    | cons rs rss =>
      obtain ⟨mt, ms1, msz, mfit⟩ := hm m (by simp)
      have hpre' : Pre S (encAll S m.2 ++ ((ms.map (fun m => encAll S m.2)).flatten ++ (encAll S fs ++ rest)))
          H n L tg c := by
        simpa using hpre
      have hlimc := hpre'.limit
      have hne : (ms.map (fun m => encAll S m.2)).flatten ++ (encAll S fs ++ rest) ≠ [] := by
        intro h
        exact encAll_ne_nil hs (List.append_eq_nil_iff.mp (List.append_eq_nil_iff.mp h).2).1
      obtain ⟨c1, rid, w1, m1, b1, b2, b3, b4, b5, b6, b7⟩ := pre_next S m.1 mt _ H n L tg c m.2 hpre' ms1
        (Or.inr hne) hn msz
        (by rcases hnL with h | h
            · exact Or.inl h
            · rcases mfit with h' | h'
              · exact Or.inl h'
              · exact Or.inr ⟨h, h'⟩)
      have hpre2 := pre_touch S rid _ (H ++ ctlEvents m.2) L tg c1 w1 m1 m.2 b2 b4 b5 b6 b7
        (by rw [b3.limit, hlimc])
        (by obtain ⟨_, _, _, _, _, _, h⟩ := hpre'
            rw [b3.same.together]; exact h) rs
      have hstep : touchMsgs (rs :: rss) c = touchMsgs rss (partialReads c1 rid rs) := by
        rw [touchMsgs, b1]
      rw [hstep]
      obtain ⟨c3, rid2, e1, c4, e2, e3, e4, e5, e6⟩ := ih rss (partialReads c1 rid rs) (H ++ ctlEvents m.2)
        (dataPayload m.2).length (by simpa using hr) (fun x hx => hm x (by simp [hx])) hpre2 msz mfit
      refine ⟨c3, rid2, e1, c4, e2, e3, e4, ?_, e6⟩
      rw [e5]; simp

/-- `abandon_then_next` with a read limit in force: both messages within the limit -/
theorem abandon_then_next_limited (c : Conn) (hc : ReaderIdle c) (t1 t2 : Nat) (ht1 : t1 = 1 ∨ t1 = 2) (ht2 : t2 = 1 ∨ t2 = 2)
    (fs1 fs2 : List PFrame) (hs1 : MsgShape t1 fs1) (hs2 : MsgShape t2 fs2) (rest : Bytes)
    (hp : c.r.buf.pending = encAll c.r.isServer fs1 ++ encAll c.r.isServer fs2 ++ rest)
    (hend : c.r.buf.t.together = false ∨ rest ≠ [])
    (hsz : (dataPayload fs1).length < 2 ^ 62 ∧ (dataPayload fs2).length < 2 ^ 62)
    (hL : 0 < c.r.limit)
    (h1 : ((dataPayload fs1).length : Int) ≤ c.r.limit) (h2 : ((dataPayload fs2).length : Int) ≤ c.r.limit)
    (reads : List Nat) (k : Nat) (hk : 0 < k) :
    ∃ c1 rid1, nextReader c = (.msg t1 rid1 false, c1) ∧
      ∃ c3 rid2, nextReader (partialReads c1 rid1 reads) = (.msg t2 rid2 false, c3) ∧
        ∃ c4, readAll c3 rid2 k = ((dataPayload fs2, none), c4) ∧ ReaderIdle c4 ∧ c4.r.buf.pending = rest ∧
          c4.r.hlog = c.r.hlog ++ ctlEvents fs1 ++ ctlEvents fs2 ∧ c4.r.limit = c.r.limit := by
  have hp' : c.r.buf.pending = ([(t1, fs1)].map (fun m => encAll c.r.isServer m.2)).flatten ++
      (encAll c.r.isServer fs2 ++ rest) := by
    rw [hp]; simp
  have hne : ([(t1, fs1)].map (fun m => encAll c.r.isServer m.2)).flatten ++
      (encAll c.r.isServer fs2 ++ rest) ≠ [] := by
    intro h
    exact encAll_ne_nil hs2 (List.append_eq_nil_iff.mp (List.append_eq_nil_iff.mp h).2).1
  have hpre := pre_idle c hc _ hp' (Or.inr hne)
  have hpre1 : Pre c.r.isServer (encAll c.r.isServer fs1 ++ (encAll c.r.isServer fs2 ++ rest)) c.r.hlog 0
      c.r.limit c.r.buf.t.together c := by
    simpa using hpre
  have hne2 : encAll c.r.isServer fs2 ++ rest ≠ [] := by
    intro h; exact encAll_ne_nil hs2 (List.append_eq_nil_iff.mp h).1
  obtain ⟨c1, rid1, w1, m1, b1, b2, b3, b4, b5, b6, b7⟩ := pre_next c.r.isServer t1 ht1 _ c.r.hlog 0 c.r.limit
    c.r.buf.t.together c fs1 hpre1 hs1 (Or.inr hne2) (by omega) hsz.1 (Or.inr ⟨by omega, h1⟩)
  obtain ⟨c3, rid2, e1, c4, e2, e3, e4, e5, e6⟩ := history_gen c.r.isServer t2 ht2 fs2 hs2 hsz.2 rest c.r.limit
    (Or.inr h2) c.r.buf.t.together hend k hk [(t1, fs1)] [reads] c c.r.hlog 0 rfl
    (by intro m hm
        have hm' : m = (t1, fs1) := by simpa using hm
        subst hm'
        exact ⟨ht1, hs1, hsz.1, Or.inr h1⟩)
    hpre (by omega) (Or.inr (by omega))
  have hstep : touchMsgs [reads] c = partialReads c1 rid1 reads := by
    rw [touchMsgs, b1]
    rfl
  rw [hstep] at e1
  refine ⟨c1, rid1, b1, c3, rid2, e1, c4, e2, e3, e4, ?_, e6⟩
  rw [e5]; simp

/-- history independence of the read limit: any number of earlier messages, each within the limit
    and each treated by the application in any way (`readss`: one list of read sizes per message),
    then a message within the limit: it is read in full -/
theorem limit_history_independent (c : Conn) (hc : ReaderIdle c) (hL : 0 < c.r.limit)
    (msgs : List (Nat × List PFrame))
    (hm : ∀ m ∈ msgs, (m.1 = 1 ∨ m.1 = 2) ∧ MsgShape m.1 m.2 ∧ (dataPayload m.2).length < 2 ^ 62 ∧
            ((dataPayload m.2).length : Int) ≤ c.r.limit)
    (readss : List (List Nat)) (hr : readss.length = msgs.length)
    (t : Nat) (ht : t = 1 ∨ t = 2) (fs : List PFrame) (hs : MsgShape t fs)
    (hsz : (dataPayload fs).length < 2 ^ 62) (hfit : ((dataPayload fs).length : Int) ≤ c.r.limit)
    (rest : Bytes)
    (hp : c.r.buf.pending = (msgs.map (fun m => encAll c.r.isServer m.2)).flatten ++ encAll c.r.isServer fs ++ rest)
    (hend : c.r.buf.t.together = false ∨ rest ≠ []) (k : Nat) (hk : 0 < k) :
    ∃ c1 rid, nextReader (touchMsgs readss c) = (.msg t rid false, c1) ∧
      ∃ c2, readAll c1 rid k = ((dataPayload fs, none), c2) ∧ ReaderIdle c2 ∧ c2.r.buf.pending = rest ∧
        c2.r.hlog = c.r.hlog ++ (msgs.map (fun m => ctlEvents m.2)).flatten ++ ctlEvents fs := by
  have hp' : c.r.buf.pending = (msgs.map (fun m => encAll c.r.isServer m.2)).flatten ++
      (encAll c.r.isServer fs ++ rest) := by
    rw [hp, List.append_assoc]
  have hne : (msgs.map (fun m => encAll c.r.isServer m.2)).flatten ++
      (encAll c.r.isServer fs ++ rest) ≠ [] := by
    intro h
    exact encAll_ne_nil hs (List.append_eq_nil_iff.mp (List.append_eq_nil_iff.mp h).2).1
  have hpre := pre_idle c hc _ hp' (Or.inr hne)
  obtain ⟨c1, rid, e1, c2, e2, e3, e4, e5, _⟩ := history_gen c.r.isServer t ht fs hs hsz rest c.r.limit
    (Or.inr hfit) c.r.buf.t.together hend k hk msgs readss c c.r.hlog 0 hr
    (fun m hm' => by
      obtain ⟨a, b, c', d⟩ := hm m hm'
      exact ⟨a, b, c', Or.inr d⟩)
    hpre (by omega) (Or.inr (by omega))
  exact ⟨c1, rid, e1, c2, e2, e3, e4, e5⟩

/-- `read_messages` with a read limit in force: any number of messages, each within the limit, are
    all read in full, in order -/
theorem read_messages_limited (c : Conn) (hc : ReaderIdle c) (msgs : List (Nat × List PFrame))
    (hm : ∀ m ∈ msgs, (m.1 = 1 ∨ m.1 = 2) ∧ MsgShape m.1 m.2 ∧ (dataPayload m.2).length < 2 ^ 62 ∧
            ((dataPayload m.2).length : Int) ≤ c.r.limit)
    (rest : Bytes)
    (hp : c.r.buf.pending = (msgs.map (fun m => encAll c.r.isServer m.2)).flatten ++ rest)
    (hend : c.r.buf.t.together = false ∨ rest ≠ []) (k : Nat) (hk : 0 < k) :
    ∃ c', readMsgs k msgs.length c = (msgs.map (fun m => (m.1, dataPayload m.2)), c') ∧
      ReaderIdle c' ∧ c'.r.buf.pending = rest ∧
      c'.r.hlog = c.r.hlog ++ (msgs.map (fun m => ctlEvents m.2)).flatten := by
  obtain ⟨c', h1, h2, h3, h4, _⟩ := read_messages_keep' k hk rest msgs c hc
    (fun m hm' => by
      obtain ⟨a, b, c', d⟩ := hm m hm'
      exact ⟨a, b, c', Or.inr d⟩)
    hp hend
  exact ⟨c', h1, h2, h3, h4⟩

end WS.LimitHistory
