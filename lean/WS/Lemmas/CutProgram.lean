import WS.Lemmas.ReadProgram
import WS.Lemmas.CutAnyLimit
import WS.Lemmas.CutProgramAux
/-
  C05, first sentence, for EVERY read program: the transport fails or ends at any byte offset (strictly
  inside a message, after any number of complete messages), in any manner (error alone, together with
  the final bytes, any terminal error), any read limit: every message the read API reports as complete
  — by whatever sequence of NextReader / Read(k) calls the application makes — was completely received
  and is byte-identical to what was sent; the partially received message is never among them.
-/
namespace WS.CutProgram
open WS WS.Codec WS.ReaderDecodes WS.ReadProgram

/-- the messages an event trace reports as complete: opened, pieces delivered without error, then
    end-of-message (io.EOF, possibly together with a last piece); a message that is re-opened past,
    or whose Read fails with another error, is not reported complete -/
def completedAux : List REvt → Option (Nat × Bytes) → List (Nat × Bytes)
  | [], _ => []
  | .opened t :: evs, _ => completedAux evs (some (t, []))
  | .ret bs none :: evs, some (t, acc) => completedAux evs (some (t, acc ++ bs))
  | .ret bs (some .eof) :: evs, some (t, acc) => (t, acc ++ bs) :: completedAux evs none
  | .ret _ (some _) :: evs, some _ => completedAux evs none
  | .ret _ _ :: evs, none => completedAux evs none
  | .failed _ :: evs, _ => completedAux evs none
  | .panicked :: evs, _ => completedAux evs none

def completed (evs : List REvt) : List (Nat × Bytes) := completedAux evs none

section Helpers
open WS.LimitHistoryAux WS.CutLoops WS.CutProgramAux WS.ZCutLoops WS.RobustAux
open WS.CutLoopsL (LenOv)

theorem cA_ret_none (bs : Bytes) (e : Option RErr) (evs : List REvt) :
    completedAux (.ret bs e :: evs) none = completedAux evs none := by
  cases e with
  | none => rfl
  | some e => cases e <;> rfl

theorem cA_ret_err (bs : Bytes) (e : RErr) (evs : List REvt) (cst : Option (Nat × Bytes)) (he : e ≠ .eof) :
    completedAux (.ret bs (some e) :: evs) cst = completedAux evs none := by
  cases cst with
  | none => exact cA_ret_none _ _ _
  | some x =>
    obtain ⟨t, acc⟩ := x
    cases e <;> first | rfl | exact absurd rfl he

theorem cA_data (bs : Bytes) (evs : List REvt) (cst : Option (Nat × Bytes)) :
    completedAux (.ret bs none :: evs) cst = completedAux evs (cst.map (fun x => (x.1, x.2 ++ bs))) := by
  cases cst with
  | none => rfl
  | some x => rfl

/-- on a failed connection nothing is reported complete any more -/
theorem latched_nil (e : RErr) : ∀ (ops : List ROp) (c : Conn) (cur : Option Nat), c.r.readErr = some e →
    completedAux (runProg ops c cur).1 none = [] := by
  intro ops
  induction ops with
  | nil => intro c cur _; rfl
  | cons op ops ih =>
    intro c cur he
    cases op with
    | next =>
      by_cases hn : c.r.errCount + 1 < 1000
      · obtain ⟨c', h1, _⟩ := WS.ReaderRejects.nextReader_sticky c e he hn
        simp only [runProg, h1]
        rfl
      · obtain ⟨c', h1⟩ := WS.ReaderRejects.nextReader_panics_at_1000 c e he (by omega)
        simp only [runProg, h1]
        rfl
    | read k =>
      cases cur with
      | none =>
        simp only [runProg]
        exact ih c none he
      | some rid =>
        have hid := WS.ReaderMore.mrRead_failed_id c rid (k + 1) e he
        generalize hr : mrRead c rid (k + 1) = r at hid
        obtain ⟨⟨bs, e'⟩, c1⟩ := r
        simp only [] at hid
        subst hid
        simp only [runProg, hr]
        rw [cA_ret_none]
        exact ih c1 (some rid) he

/-- inside the cut message nothing is reported complete -/
theorem cut_nil (S : Bool) (rid : Nat) : ∀ (ops : List ROp) (c : Conn) (wire : Bytes) (more : List PFrame) (m : Nat)
    (cst : Option (Nat × Bytes)), CSt S c wire more m → c.r.msgReader = some rid →
    LenOv c (dataPayload more).length → completedAux (runProg ops c (some rid)).1 cst = [] := by
  intro ops
  induction ops with
  | nil => intro c _ _ _ cst _ _ _; rfl
  | cons op ops ih =>
    intro c wire more m cst hst hm hl
    cases op with
    | next =>
      rcases nextReader_cut_fails S c wire more m hst hl with ⟨e, c1, h1⟩ | ⟨c1, h1⟩
      · simp only [runProg, h1]
        rfl
      · simp only [runProg, h1]
        rfl
    | read k =>
      have hmr := mrRead_eq_loop c rid (k + 1) hm
      rcases mrReadLoop_cut2 S rid (k + 1) (by omega) (c.fuel + 1) c wire more m hst hm hl with
        ⟨out, c', w', m', n', b1, b2, b3, b4⟩ | ⟨out, e, c', b1, b2, b3⟩
      · rw [← hmr] at b1
        simp only [runProg, b1]
        rw [cA_data]
        exact ih c' w' m' n' _ b2 b3 b4
      · rw [← hmr] at b1
        simp only [runProg, b1]
        rw [cA_ret_err _ _ _ _ b2]
        rcases b3 with ⟨e', h⟩ | ⟨w', m', n', h1, h2, h3⟩
        · exact latched_nil e' ops c' (some rid) h
        · exact ih c' w' m' n' none h1 h2 h3

/-- the message that may still be reported complete -/
def headOf : Option (Nat × Bytes) → Option Bytes → List (Nat × Bytes)
  | some (t, acc), some p => [(t, acc ++ p)]
  | _, _ => []

/-- the claim for a program run while the application holds a reader of a whole message -/
def HeldSub (S : Bool) (R : Bytes) (L : Int) (tg : Bool) (ops : List ROp) : Prop :=
  ∀ (msgs : List (Nat × List PFrame)) (c : Conn) (rid : Nat) (o : Option Bytes) (n : Nat)
    (cst : Option (Nat × Bytes)), MsgsOk L msgs →
    Inv S (wireOf S msgs R) n L tg c rid o → n < 2 ^ 62 → (L ≤ 0 ∨ (n : Int) ≤ L) →
    (cst.isSome = true → o.isSome = true) →
    List.Sublist (completedAux (runProg ops c (some rid)).1 cst)
      (headOf cst o ++ msgs.map (fun m => (m.1, dataPayload m.2)))

/-- a NextReader call, from any state -/
theorem next_sub (S : Bool) (t : Nat) (ht : t = 1 ∨ t = 2) (fs : List PFrame) (hs : MsgShape t fs)
    (hsz : (dataPayload fs).length < 2 ^ 62) (cut : Nat) (hcut : cut < (encAll S fs).length)
    (L : Int) (tg : Bool) (htog : tg = false ∨ (encAll S fs).take cut ≠ []) (ops : List ROp)
    (ih : HeldSub S ((encAll S fs).take cut) L tg ops) (msgs : List (Nat × List PFrame)) (c : Conn) (n : Nat)
    (cur : Option Nat) (cst : Option (Nat × Bytes)) (pre : List (Nat × Bytes)) (hm : MsgsOk L msgs)
    (hpre : ∃ H, Pre S (wireOf S msgs ((encAll S fs).take cut)) H n L tg c)
    (hn : n < 2 ^ 62) (hnL : L ≤ 0 ∨ (n : Int) ≤ L) :
    List.Sublist (completedAux (runProg (.next :: ops) c cur).1 cst)
      (pre ++ msgs.map (fun m => (m.1, dataPayload m.2))) := by
  obtain ⟨H, hpre⟩ := hpre
  cases msgs with
  | nil =>
    have hw : wireOf S [] ((encAll S fs).take cut) = (encAll S fs).take cut := by simp [wireOf]
    rw [hw] at hpre
    have hlimc := hpre.limit
    obtain ⟨wire, more, hst, hwn, _, _, _⟩ := hpre
    rcases nextReader_into_cut S t ht fs hs hsz cut hcut c wire more hst n (by omega) hn
        (by rw [hlimc]; exact hnL) with
      ⟨c1, rid, w1, m1, n1, h1, h2, h3, h4⟩ | ⟨e, c1, h1⟩ | ⟨c1, h1⟩
    · simp only [runProg, h1]
      have : completedAux (REvt.opened t :: (runProg ops c1 (some rid)).1) cst =
          completedAux (runProg ops c1 (some rid)).1 (some (t, [])) := rfl
      rw [this, cut_nil S rid ops c1 w1 m1 n1 _ h2 h3 h4]
      exact List.nil_sublist _
    · simp only [runProg, h1]
      exact List.nil_sublist _
    · simp only [runProg, h1]
      exact List.nil_sublist _
  | cons m ms =>
    rw [wireOf_cons] at hpre
    obtain ⟨mt, ms1, msz, mfit⟩ := hm m (by simp)
    have htog' : tg = false ∨ wireOf S ms ((encAll S fs).take cut) ≠ [] := by
      rcases htog with h | h
      · exact Or.inl h
      · right; intro hc; exact h (List.append_eq_nil_iff.mp hc).2
    obtain ⟨c1, rid, e1, e2⟩ := open_step S m.1 mt _ H n L tg c m.2 hpre ms1 htog' hn msz
      (by rcases hnL with h | h
          · exact Or.inl h
          · rcases mfit with h' | h'
            · exact Or.inl h'
            · exact Or.inr ⟨h, h'⟩)
    have hrec := ih ms c1 rid _ _ (some (m.1, [])) (fun x hx => hm x (by simp [hx])) e2 msz mfit (fun _ => rfl)
    simp only [runProg, e1, List.map_cons]
    have : completedAux (REvt.opened m.1 :: (runProg ops c1 (some rid)).1) cst =
        completedAux (runProg ops c1 (some rid)).1 (some (m.1, [])) := rfl
    rw [this]
    have hh : headOf (some (m.1, [])) (some (dataPayload m.2)) = [(m.1, dataPayload m.2)] := by
      simp [headOf]
    rw [hh] at hrec
    exact hrec.trans (List.sublist_append_right pre _)

theorem held_sub (S : Bool) (t : Nat) (ht : t = 1 ∨ t = 2) (fs : List PFrame) (hs : MsgShape t fs)
    (hsz : (dataPayload fs).length < 2 ^ 62) (cut : Nat) (hcut : cut < (encAll S fs).length)
    (L : Int) (tg : Bool) (htog : tg = false ∨ (encAll S fs).take cut ≠ []) :
    ∀ ops : List ROp, HeldSub S ((encAll S fs).take cut) L tg ops := by
  intro ops
  induction ops with
  | nil =>
    intro msgs c rid o n cst _ _ _ _ _
    exact List.nil_sublist _
  | cons op ops ih =>
    intro msgs c rid o n cst hm hinv hn hnL hco
    cases op with
    | next =>
      exact next_sub S t ht fs hs hsz cut hcut L tg htog ops ih msgs c n (some rid) cst _ hm (inv_pre hinv) hn hnL
    | read k =>
      cases o with
      | none =>
        have hcst : cst = none := by
          cases cst with
          | none => rfl
          | some x => exact absurd (hco rfl) (by simp)
        subst hcst
        have hr := read_none hinv (k + 1)
        simp only [runProg, hr]
        rw [cA_ret_none]
        exact ih msgs c rid none n none hm hinv hn hnL hco
      | some p =>
        rcases read_some hinv k with ⟨bs, rem, c', r1, r2, r3, r4, r5⟩ | ⟨c', r1, r2, r3⟩
        · subst r4
          simp only [runProg, r1]
          rw [cA_data]
          have hrec := ih msgs c' rid (some rem) n (cst.map (fun x => (x.1, x.2 ++ bs))) hm r5 hn hnL (fun _ => rfl)
          have hh : headOf (cst.map (fun x => (x.1, x.2 ++ bs))) (some rem) = headOf cst (some (bs ++ rem)) := by
            cases cst with
            | none => rfl
            | some x => obtain ⟨t', acc⟩ := x; simp [headOf, List.append_assoc]
          rw [hh] at hrec
          exact hrec
        · subst r2
          simp only [runProg, r1]
          have hrec := ih msgs c' rid none n none hm r3 hn hnL (fun h => by simp at h)
          have hh : headOf none (none : Option Bytes) = [] := rfl
          rw [hh, List.nil_append] at hrec
          cases cst with
          | none =>
            rw [cA_ret_none]
            exact hrec
          | some x =>
            obtain ⟨t', acc⟩ := x
            have : completedAux (REvt.ret [] (some RErr.eof) :: (runProg ops c' (some rid)).1) (some (t', acc)) =
                (t', acc ++ []) :: completedAux (runProg ops c' (some rid)).1 none := rfl
            rw [this]
            have hh2 : headOf (some (t', acc)) (some ([] : Bytes)) = [(t', acc ++ [])] := rfl
            rw [hh2]
            exact List.Sublist.cons_cons _ hrec

theorem idle_sub (S : Bool) (t : Nat) (ht : t = 1 ∨ t = 2) (fs : List PFrame) (hs : MsgShape t fs)
    (hsz : (dataPayload fs).length < 2 ^ 62) (cut : Nat) (hcut : cut < (encAll S fs).length)
    (L : Int) (tg : Bool) (htog : tg = false ∨ (encAll S fs).take cut ≠ []) :
    ∀ (ops : List ROp) (msgs : List (Nat × List PFrame)) (c : Conn) (n : Nat), MsgsOk L msgs →
      (∃ H, Pre S (wireOf S msgs ((encAll S fs).take cut)) H n L tg c) → n < 2 ^ 62 → (L ≤ 0 ∨ (n : Int) ≤ L) →
      List.Sublist (completedAux (runProg ops c none).1 none) (msgs.map (fun m => (m.1, dataPayload m.2))) := by
  intro ops
  induction ops with
  | nil =>
    intro msgs c n _ _ _ _
    exact List.nil_sublist _
  | cons op ops ih =>
    intro msgs c n hm hpre hn hnL
    cases op with
    | next =>
      exact next_sub S t ht fs hs hsz cut hcut L tg htog ops (held_sub S t ht fs hs hsz cut hcut L tg htog ops)
        msgs c n none none [] hm hpre hn hnL
    | read k =>
      simp only [runProg]
      exact ih msgs c n hm hpre hn hnL

end Helpers

/-- `cut_program_never_complete` when every whole message is within the read limit and the transport
    does not report its terminal condition together with the last byte of the last whole message
    (`together = false`, or at least one byte of the cut message arrives) -/
theorem cut_program_never_complete_fits_partial (c : Conn) (hc : ReaderIdle c) (msgs : List (Nat × List PFrame))
    (hm : ∀ m ∈ msgs, (m.1 = 1 ∨ m.1 = 2) ∧ MsgShape m.1 m.2 ∧ (dataPayload m.2).length < 2 ^ 62 ∧
      (c.r.limit ≤ 0 ∨ ((dataPayload m.2).length : Int) ≤ c.r.limit))
    (t : Nat) (ht : t = 1 ∨ t = 2) (fs : List PFrame) (hs : MsgShape t fs) (hsz : (dataPayload fs).length < 2 ^ 62)
    (cut : Nat) (hcut : cut < (encAll c.r.isServer fs).length)
    (hp : c.r.buf.pending = (msgs.map (fun m => encAll c.r.isServer m.2)).flatten ++ (encAll c.r.isServer fs).take cut)
    (hend : c.r.buf.t.together = false ∨ 0 < cut)
    (ops : List ROp) :
    List.Sublist (completed (runProg ops c none).1) (msgs.map (fun m => (m.1, dataPayload m.2))) := by
  have hR : c.r.buf.t.together = false ∨ (encAll c.r.isServer fs).take cut ≠ [] := by
    rcases hend with h | h
    · exact Or.inl h
    · right
      intro hcn
      have := congrArg List.length hcn
      rw [List.length_take, List.length_nil] at this
      omega
  have hne : c.r.buf.t.together = false ∨
      (msgs.map (fun m => encAll c.r.isServer m.2)).flatten ++ (encAll c.r.isServer fs).take cut ≠ [] := by
    rcases hR with h | h
    · exact Or.inl h
    · right; intro hcn; exact h (List.append_eq_nil_iff.mp hcn).2
  exact idle_sub c.r.isServer t ht fs hs hsz cut hcut c.r.limit c.r.buf.t.together hR ops msgs c 0 hm
    ⟨_, WS.LimitHistoryAux.pre_idle c hc _ hp hne⟩ (by omega) (by omega)

/- NOT PROVEN HERE (statement kept for reference; it is believed true, no counterexample was found).
   `cut_program_never_complete_fits_partial` above proves it under two extra hypotheses:
   (1) every whole message is within the read limit, (2) `together = false ∨ 0 < cut`.
   Missing for the general statement: (1) St-style step lemmas for whole messages without `LenOk`
   (a frame that takes the sum over the limit makes advanceFrame fail with ErrReadLimit, which latches
   readErr: then `latched_nil` applies); (2) the corner `together = true ∧ cut = 0`: the last Read of the
   last whole message may return its last bytes together with the transport's terminal error (`St.tog`
   excludes it; if that error is io.EOF the message is reported complete, correctly).

(doc) whole messages `msgs`, then the first `cut` bytes of one more message `(t, fs)` with `cut` strictly
    inside it, then the transport's terminal condition (whatever it is, however delivered): for every
    program, the messages reported complete form a sublist of the whole messages, in order — the cut
    message is never reported complete and no completed message differs from what was sent (end doc)
theorem cut_program_never_complete (c : Conn) (hc : ReaderIdle c) (msgs : List (Nat × List PFrame))
    (hm : ∀ m ∈ msgs, (m.1 = 1 ∨ m.1 = 2) ∧ MsgShape m.1 m.2 ∧ (dataPayload m.2).length < 2 ^ 62)
    (t : Nat) (ht : t = 1 ∨ t = 2) (fs : List PFrame) (hs : MsgShape t fs) (hsz : (dataPayload fs).length < 2 ^ 62)
    (cut : Nat) (hcut : cut < (encAll c.r.isServer fs).length)
    (hp : c.r.buf.pending = (msgs.map (fun m => encAll c.r.isServer m.2)).flatten ++ (encAll c.r.isServer fs).take cut)
    (ops : List ROp) :
    List.Sublist (completed (runProg ops c none).1) (msgs.map (fun m => (m.1, dataPayload m.2))) := by
  (proof open)

-/

end WS.CutProgram
