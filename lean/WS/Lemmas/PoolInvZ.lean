import WS.Lemmas.PoolInv
import WS.Lemmas.WireWF
import WS.Lemmas.PoolOpsZ
/-
  C20 with permessage-deflate negotiated: the pool balance invariant of PoolInv.lean for connections
  that create flate wrappers, under the hypothesis that the compress/flate environment answers are
  consistent along the execution (`WireWF.EnvAdmissible`, the same hypothesis as C02's
  `wire_wellformed_partial`; real compress/flate always satisfies it).
-/
namespace WS.PoolInvZ
open WS WS.PoolInv

/-- a pooled connection as the constructor leaves it, compression negotiated or not -/
def FreshZ (s : W) : Prop :=
  s.pool = true ∧ s.bufRef = .nil ∧ s.writer = none ∧ s.mws = [] ∧ s.handles = [] ∧ s.log = [] ∧ s.writeErr = none ∧
  maxFrameHeaderSize < s.wbufLen

/-- the inductive invariant `ZInv` (PoolOpsZ.lean) holds for a fresh pooled connection -/
theorem ZInv.of_freshZ {s : W} (h : FreshZ s) : ZInv s := by
  obtain ⟨hp, hb, hw, hm, hh, hl, _, hc⟩ := h
  refine ZInv.of_noLive hc ?_ ?_ ⟨hp, ?_, hb, ?_⟩
  · intro h x hx; rw [hh] at hx; simp at hx
  · intro i m hi; rw [hm] at hi; simp at hi
  · rw [hl]; rfl
  · rw [hl]; rfl

/-- `ZInv` is preserved along every execution whose compress/flate answers are consistent -/
theorem run_invZ (s : W) (ops : List Op) (a : ZInv s) (henv : WireWF.EnvAdmissible s ops) : ZInv (run s ops) := by
  induction ops generalizing s with
  | nil => exact a
  | cons op ops ih =>
    obtain ⟨e1, e2⟩ := henv
    unfold run
    exact ih _ (applyOp_invZ s op a e1) e2

theorem pool_balance_z (s0 : W) (h0 : FreshZ s0) (ops : List Op) (henv : WireWF.EnvAdmissible s0 ops) :
    Inv (run s0 ops) :=
  (run_invZ s0 ops (ZInv.of_freshZ h0) henv).inv

theorem no_nil_put_z (s0 : W) (h0 : FreshZ s0) (ops : List Op) (henv : WireWF.EnvAdmissible s0 ops) :
    Ev.poolPut none ∉ (run s0 ops).log :=
  not_mem_of_nilPuts _ (run_invZ s0 ops (ZInv.of_freshZ h0) henv).nil0

end WS.PoolInvZ
