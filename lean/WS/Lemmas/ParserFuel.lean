import WS.Model.Http
/-
  C07 for the header parsers ("loop without consuming input"): the loops of tokenListContainsValue,
  parseExtensions and of the base64 length walk carry a fuel argument in the model. These theorems
  say the fuel is an artefact: every iteration consumes at least one byte of its input, so the fuel
  the model passes (length + 1) is never exhausted and any larger fuel gives the same result.
-/
namespace WS.ParserFuel
open WS WS.Http

theorem skipSpace_le (s : Bytes) : (skipSpace s).length ≤ s.length := by
  induction s with
  | nil => simp [skipSpace]
  | cons b r ih =>
    unfold skipSpace
    split
    · simp; omega
    · simp

theorem nextToken_len (s : Bytes) : (nextToken s).1.length + (nextToken s).2.length = s.length := by
  unfold nextToken
  have := congrArg List.length (List.takeWhile_append_dropWhile (p := isTokenOctet) (l := s))
  rw [List.length_append] at this
  exact this

theorem nextToken_le (s : Bytes) : (nextToken s).2.length ≤ s.length := by
  have := nextToken_len s; omega

theorem nextToken_lt (s : Bytes) (h : (nextToken s).1.isEmpty = false) :
    (nextToken s).2.length < s.length := by
  have := nextToken_len s
  have : (nextToken s).1.length ≠ 0 := by
    intro h0
    have := List.length_eq_zero_iff.mp h0
    simp [this] at h
  omega

theorem quotedAux_le (r : Bytes) (esc : Bool) (acc : Bytes) :
    (quotedAux r esc acc).2.length ≤ r.length := by
  induction r generalizing esc acc with
  | nil => cases esc <;> simp [quotedAux]
  | cons b r ih =>
    cases esc
    · unfold quotedAux
      split
      · have := ih true acc; simp; omega
      · split
        · simp
        · have := ih false (b :: acc); simp; omega
    · unfold quotedAux
      have := ih false (b :: acc); simp; omega

theorem nextTokenOrQuoted_le (s : Bytes) : (nextTokenOrQuoted s).2.length ≤ s.length := by
  unfold nextTokenOrQuoted
  split
  · have := quotedAux_le ‹_› false []; simp; omega
  · exact nextToken_le s

theorem lineContainsAux_mono (n : Nat) : ∀ (m : Nat) (s value : Bytes), s.length + 1 ≤ n → s.length + 1 ≤ m →
    lineContainsAux n s value = lineContainsAux m s value := by
  induction n with
  | zero => intro m s value h; omega
  | succ n ih =>
    intro m s value hn hm
    cases m with
    | zero => omega
    | succ m =>
      unfold lineContainsAux
      simp only []
      split
      · rfl
      · rename_i hne
        split
        · rfl
        · rename_i c rest heq
          split
          · rfl
          · split
            · rfl
            · have h1 := skipSpace_le s
              have h2 := nextToken_le (skipSpace s)
              have h3 := skipSpace_le (nextToken (skipSpace s)).2
              have h4 := congrArg List.length heq
              simp at h4
              apply ih <;> omega

theorem b64LenAux_mono (n : Nat) : ∀ (m : Nat) (s : Bytes) (k : Nat), s.length + 1 ≤ n → s.length + 1 ≤ m →
    b64LenAux n s k = b64LenAux m s k := by
  induction n with
  | zero => intro m s k h; omega
  | succ n ih =>
    intro m s k hn hm
    cases m with
    | zero => omega
    | succ m =>
      unfold b64LenAux
      split
      · rfl
      · split
        · simp at hn hm
          apply ih <;> omega
        · rfl
        · rfl
        · rfl
      · rfl

theorem paramsAux_mono (n : Nat) : ∀ (m : Nat) (s : Bytes) (acc : Ext), s.length + 1 ≤ n → s.length + 1 ≤ m →
    paramsAux n s acc = paramsAux m s acc := by
  induction n with
  | zero => intro m s acc h; omega
  | succ n ih =>
    intro m s acc hn hm
    cases m with
    | zero => omega
    | succ m =>
      unfold paramsAux
      simp only []
      split
      · rename_i r hr
        have a1 := skipSpace_le s
        have a2 := congrArg List.length hr
        have a3 := skipSpace_le r
        have a4 := nextToken_le (skipSpace r)
        have a5 := skipSpace_le (nextToken (skipSpace r)).2
        simp only [List.length_cons] at a2
        split
        · rfl
        · repeat' split
          all_goals first
            | rfl
            | (rename_i r2 hr2
               have b1 := congrArg List.length hr2
               have b2 := skipSpace_le r2
               have b3 := nextTokenOrQuoted_le (skipSpace r2)
               have b4 := skipSpace_le (nextTokenOrQuoted (skipSpace r2)).2
               simp only [List.length_cons] at b1
               apply ih <;> dsimp only <;> omega)
            | (apply ih <;> dsimp only <;> omega)
      · rfl

theorem paramsAux_rest_le' (n : Nat) : ∀ (s : Bytes) (acc : Ext),
    (paramsAux n s acc).2.1.length ≤ s.length := by
  induction n with
  | zero => intro s acc; simp [paramsAux]
  | succ n ih =>
    intro s acc
    unfold paramsAux
    simp only []
    have a1 := skipSpace_le s
    split
    · rename_i r hr
      have a2 := congrArg List.length hr
      have a3 := skipSpace_le r
      have a4 := nextToken_le (skipSpace r)
      have a5 := skipSpace_le (nextToken (skipSpace r)).2
      simp only [List.length_cons] at a2
      split
      · dsimp only; omega
      · repeat' split
        all_goals first
          | (rename_i r2 hr2
             have b1 := congrArg List.length hr2
             have b2 := skipSpace_le r2
             have b3 := nextTokenOrQuoted_le (skipSpace r2)
             have b4 := skipSpace_le (nextTokenOrQuoted (skipSpace r2)).2
             simp only [List.length_cons] at b1
             first
               | (dsimp only; omega)
               | (refine Nat.le_trans (ih _ _) ?_; dsimp only; omega))
          | (dsimp only; omega)
          | (refine Nat.le_trans (ih _ _) ?_; dsimp only; omega)
    · dsimp only; omega

theorem lineExtsAux_mono (n : Nat) : ∀ (m : Nat) (s : Bytes) (acc : List Ext), s.length + 1 ≤ n → s.length + 1 ≤ m →
    lineExtsAux n s acc = lineExtsAux m s acc := by
  induction n with
  | zero => intro m s acc h; omega
  | succ n ih =>
    intro m s acc hn hm
    cases m with
    | zero => omega
    | succ m =>
      unfold lineExtsAux
      simp only []
      split
      · rfl
      · rename_i hne
        have a1 := skipSpace_le s
        have a2 := nextToken_lt (skipSpace s) (by simpa using hne)
        have a3 := paramsAux_rest_le' ((nextToken (skipSpace s)).2.length + 1) (nextToken (skipSpace s)).2
                     [([], (nextToken (skipSpace s)).1)]
        split
        · rfl
        · split
          · rfl
          · rename_i c rest hr
            have a4 : (c :: rest).length ≤ (nextToken (skipSpace s)).2.length :=
              Nat.le_trans (Nat.le_of_eq (congrArg List.length hr).symm) a3
            simp only [List.length_cons] at a4
            split
            · rfl
            · apply ih <;> omega

theorem lineContainsAux_fuel (n : Nat) (s value : Bytes) (h : s.length + 1 ≤ n) :
    lineContainsAux n s value = lineContainsAux (s.length + 1) s value :=
  lineContainsAux_mono n _ s value h (Nat.le_refl _)

theorem paramsAux_fuel (n : Nat) (s : Bytes) (acc : Ext) (h : s.length + 1 ≤ n) :
    paramsAux n s acc = paramsAux (s.length + 1) s acc :=
  paramsAux_mono n _ s acc h (Nat.le_refl _)

/-- what is left after the parameters of an extension is a suffix of the input, not longer than it -/
theorem paramsAux_rest_le (n : Nat) (s : Bytes) (acc : Ext) :
    (paramsAux n s acc).2.1.length ≤ s.length :=
  paramsAux_rest_le' n s acc

theorem lineExtsAux_fuel (n : Nat) (s : Bytes) (acc : List Ext) (h : s.length + 1 ≤ n) :
    lineExtsAux n s acc = lineExtsAux (s.length + 1) s acc :=
  lineExtsAux_mono n _ s acc h (Nat.le_refl _)

theorem b64LenAux_fuel (n : Nat) (s : Bytes) (k : Nat) (h : s.length + 1 ≤ n) :
    b64LenAux n s k = b64LenAux (s.length + 1) s k :=
  b64LenAux_mono n _ s k h (Nat.le_refl _)

/-- the fuel-0 branch of the model's loops is unreachable from the public entry points: the
    public functions equal the loops run with ANY fuel above the input length -/
theorem lineContains_any_fuel (s value : Bytes) (n : Nat) (h : s.length + 1 ≤ n) :
    lineContains s value = lineContainsAux n s value :=
  (lineContainsAux_fuel n s value h).symm

theorem parseExtensions_any_fuel (lines : List Bytes) (f : Bytes → Nat) (hf : ∀ l, l.length + 1 ≤ f l) :
    parseExtensions lines = lines.foldl (fun acc l => acc ++ lineExtsAux (f l) l []) [] := by
  have hfun : (fun (acc : List Ext) (l : Bytes) => acc ++ lineExtsAux (l.length + 1) l []) =
      (fun acc l => acc ++ lineExtsAux (f l) l []) := by
    funext acc l
    rw [lineExtsAux_fuel (f l) l [] (hf l)]
  unfold parseExtensions
  rw [hfun]

theorem b64DecodedLen_any_fuel (s : Bytes) (n : Nat)
    (h : (s.filter (fun b => b != 10 && b != 13)).length + 1 ≤ n) :
    b64DecodedLen s = b64LenAux n (s.filter (fun b => b != 10 && b != 13)) 0 :=
  (b64LenAux_fuel n _ 0 h).symm

end WS.ParserFuel
