import WS.Lemmas.PairRoundtrip
import WS.Lemmas.Sequences
import WS.Lemmas.LimitHistory
/-
  C01 with a read limit on the receiving side ("the documentation promises [buffer sizes] do not limit
  message size" — a read limit does, and exactly at its value): a message of at most L bytes sent by
  WriteMessage is read in full by a peer whose read limit is L; for any number of messages.
-/
namespace WS.RoundTripLimit
open WS WS.Codec WS.ReaderDecodes WS.PairRoundtrip WS.Sequences

/-- `Sequences.read_messages_keep` with a read limit that every message respects -/
theorem read_messages_keep_limited (k : Nat) (hk : 0 < k) (rest : Bytes) (msgs : List (Nat × List PFrame)) :
    ∀ (c : Conn), ReaderIdle c →
      (∀ m ∈ msgs, (m.1 = 1 ∨ m.1 = 2) ∧ MsgShape m.1 m.2 ∧ (dataPayload m.2).length < 2 ^ 62 ∧
        (c.r.limit ≤ 0 ∨ ((dataPayload m.2).length : Int) ≤ c.r.limit)) →
      c.r.buf.pending = (msgs.map (fun m => encAll c.r.isServer m.2)).flatten ++ rest →
      (c.r.buf.t.together = false ∨ rest ≠ []) →
      ∃ c', readMsgs k msgs.length c = (msgs.map (fun m => (m.1, dataPayload m.2)), c') ∧
        ReaderIdle c' ∧ c'.r.buf.pending = rest ∧
        c'.r.hlog = c.r.hlog ++ (msgs.map (fun m => ctlEvents m.2)).flatten ∧ Keep c c' := by
  induction msgs with
  | nil =>
    intro c hc _ hp _
    exact ⟨c, rfl, hc, by simpa using hp, by simp, Keep.refl c⟩
  | cons m ms ih =>
    intro c hc hm hp hend
    obtain ⟨ht, hs, hsz, hlim⟩ := hm m (by simp)
    have hp1 : c.r.buf.pending =
        encAll c.r.isServer m.2 ++ ((ms.map (fun m => encAll c.r.isServer m.2)).flatten ++ rest) := by
      rw [hp]; simp
    have hend1 : c.r.buf.t.together = false ∨
        (ms.map (fun m => encAll c.r.isServer m.2)).flatten ++ rest ≠ [] := by
      rcases hend with h | h
      · exact Or.inl h
      · right; intro hcn; exact h (List.append_eq_nil_iff.mp hcn).2
    obtain ⟨c1, rid, h1, c2, h2, h3, h4, h5, h6⟩ :=
      read_message_keep c hc m.1 ht m.2 hs _ hp1 hend1 hsz hlim k hk
    obtain ⟨c', e1, e2, e3, e4, e5⟩ := ih c2 h3
      (fun x hx => by rw [h6.limit]; exact hm x (by simp [hx]))
      (by rw [h4, h6.isServer]) (by rw [h6.same.together]; exact hend)
    refine ⟨c', ?_, e2, e3, ?_, h6.trans e5⟩
    · rw [List.length_cons, readMsgs_succ k ms.length c c1 c2 m.1 rid false _ h1 h2, e1]
      rfl
    · rw [e4, h5]
      simp

/-- `round_trip` (C01) for a receiver with a read limit: any limit not below the payload length -/
theorem round_trip_limited (s : W) (hi : Content.Idle s) (t : Nat) (ht : t = 1 ∨ t = 2) (data : Bytes)
    (hd : data.length < 2 ^ 40)
    (c : Conn) (hc : ReaderIdle c) (hrole : c.r.isServer = !s.isServer) (rest : Bytes)
    (hp : c.r.buf.pending = (writeMessage s t data).2.wire.drop s.wire.length ++ rest)
    (hend : c.r.buf.t.together = false ∨ rest ≠ [])
    (hlim : c.r.limit ≤ 0 ∨ (data.length : Int) ≤ c.r.limit) (k : Nat) (hk : 0 < k) :
    ∃ c1 rid, nextReader c = (.msg t rid false, c1) ∧
      ∃ c2, readAll c1 rid k = ((data, none), c2) ∧ ReaderIdle c2 ∧ c2.r.buf.pending = rest ∧
        c2.r.hlog = c.r.hlog ∧ c2.r.limit = c.r.limit := by
  obtain ⟨fs, hs, hdp, hce, hw⟩ := writeMessage_frames s hi t ht data hd
  have hp' : c.r.buf.pending = encAll c.r.isServer fs ++ rest := by
    rw [hp, hw, List.drop_left, hrole]
  have hsz : (dataPayload fs).length < 2 ^ 62 := by rw [hdp]; omega
  have hlim' : c.r.limit ≤ 0 ∨ ((dataPayload fs).length : Int) ≤ c.r.limit := by rw [hdp]; exact hlim
  obtain ⟨c1, rid, h1, c2, h2, h3, h4, h5, h6⟩ :=
    read_message_keep c hc t ht fs hs rest hp' hend hsz hlim' k hk
  refine ⟨c1, rid, h1, c2, ?_, h3, h4, ?_, h6.limit⟩
  · rw [h2, hdp]
  · rw [h5, hce, List.append_nil]

/-- any number of messages sent with WriteMessage, each within the receiver's read limit (their total
    may be far above it), arrive exactly once, in send order -/
theorem round_trip_sequence_limited (s : W) (hi : Content.Idle s) (msgs : List (Nat × Bytes))
    (c : Conn) (hc : ReaderIdle c) (hrole : c.r.isServer = !s.isServer)
    (hm : ∀ m ∈ msgs, (m.1 = 1 ∨ m.1 = 2) ∧ m.2.length < 2 ^ 40 ∧ (c.r.limit ≤ 0 ∨ (m.2.length : Int) ≤ c.r.limit))
    (rest : Bytes)
    (hp : c.r.buf.pending = (writeMsgs s msgs).wire.drop s.wire.length ++ rest)
    (hend : c.r.buf.t.together = false ∨ rest ≠ []) (k : Nat) (hk : 0 < k) :
    ∃ c', readMsgs k msgs.length c = (msgs, c') ∧ ReaderIdle c' ∧ c'.r.buf.pending = rest ∧
      c'.r.hlog = c.r.hlog := by
  obtain ⟨fss, g1, g2, g3, g4, g5⟩ :=
    writeMsgs_frames msgs s hi (fun m hx => ⟨(hm m hx).1, (hm m hx).2.1⟩)
  have hp' : c.r.buf.pending = (fss.map (fun m => encAll c.r.isServer m.2)).flatten ++ rest := by
    rw [hp, g4, List.drop_left, hrole]
  have g2' : ∀ m ∈ fss, (m.1 = 1 ∨ m.1 = 2) ∧ MsgShape m.1 m.2 ∧ (dataPayload m.2).length < 2 ^ 62 ∧
      (c.r.limit ≤ 0 ∨ ((dataPayload m.2).length : Int) ≤ c.r.limit) := by
    intro m hx
    obtain ⟨a1, a2, a3⟩ := g2 m hx
    have hmem : (m.1, dataPayload m.2) ∈ msgs := by
      rw [← g1]; exact List.mem_map_of_mem hx
    exact ⟨a1, a2, a3, (hm _ hmem).2.2⟩
  obtain ⟨c', h1, h2, h3, h4, _⟩ := read_messages_keep_limited k hk rest fss c hc g2' hp' hend
  have hlen : msgs.length = fss.length := by rw [← g1, List.length_map]
  refine ⟨c', ?_, h2, h3, ?_⟩
  · rw [hlen, h1, g1]
  · rw [h4, g3, List.append_nil]

end WS.RoundTripLimit
