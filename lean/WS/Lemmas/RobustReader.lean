import WS.Model.Reader
import WS.Lemmas.AdvFrame
/-
  Helper lemmas for WS/Lemmas/Robust.lean (read side): advanceFrame and the NextReader loop never
  touch `errCount`, and the loop never answers `.panic`.

  Proof-engineering note: `rfl` between an updated record and the original one makes the elaborator
  and the kernel compare the records field by field; on the fields that hold `wrap64 (…)` of an open
  term this evaluates unary arithmetic on 2^63 and never finishes. The lemmas `ec_pair` /
  `ec_pair_stb` below are stated over arbitrary field values and are applied by first-order matching,
  which avoids that comparison.
-/
namespace WS.RobustAux
open WS WS.AdvFrame

theorem hpe_r (c : Conn) (msg : String) : (handleProtocolError c msg).2.r = c.r := rfl
theorem stb_r (c : Conn) : (sendTooBig c).r = c.r := rfl
theorem rh_ec (m : HMode) (c : Conn) (ev : REv) : (runHandler m c ev).2.r.errCount = c.r.errCount := by
  unfold runHandler; split <;> rfl

/-- generic projection lemmas: stated over arbitrary field values, so that neither the elaborator nor
    the kernel ever has to compare an updated record with the original one field by field (which
    would make them evaluate `wrap64 (beVal p)` on an open term). -/
theorem ec_pair {α : Type} (a : α) (w : W) (f1 f2 : Bool) (f3 : Option RErr) (f4 : Int) (f5 : Bool) (f6 f7 : Int)
    (f8 : Nat) (f9 : Key) (f10 : Bool) (f11 : Nat) (f12 : Option Nat) (f13 : Nat) (f14 f15 f16 : HMode)
    (f17 : Buf) (f18 : List REv) :
    (a, Conn.mk w (R.mk f1 f2 f3 f4 f5 f6 f7 f8 f9 f10 f11 f12 f13 f14 f15 f16 f17 f18)).snd.r.errCount = f11 := rfl

theorem ec_pair_stb {α : Type} (a : α) (w : W) (f1 f2 : Bool) (f3 : Option RErr) (f4 : Int) (f5 : Bool) (f6 f7 : Int)
    (f8 : Nat) (f9 : Key) (f10 : Bool) (f11 : Nat) (f12 : Option Nat) (f13 : Nat) (f14 f15 f16 : HMode)
    (f17 : Buf) (f18 : List REv) :
    (a, sendTooBig (Conn.mk w (R.mk f1 f2 f3 f4 f5 f6 f7 f8 f9 f10 f11 f12 f13 f14 f15 f16 f17 f18))).snd.r.errCount = f11 := rfl

theorem afSkip_ec (c : Conn) : (afSkip c).2.r.errCount = c.r.errCount := by
  unfold afSkip; split <;> rfl

theorem afLen_ec (h : Hdr) (c : Conn) : (afLen h c).2.r.errCount = c.r.errCount := by
  unfold afLen
  split
  · generalize c.r.buf.take 2 = x
    obtain ⟨p, e, b⟩ := x
    cases e <;> rfl
  · split
    · generalize c.r.buf.take 8 = x
      obtain ⟨p, e, b⟩ := x
      cases e
      · simp only []
        split
        · exact ec_pair_stb ..
        · exact ec_pair ..
      · rfl
    · rfl

theorem afKey_ec (h : Hdr) (c : Conn) : (afKey h c).2.r.errCount = c.r.errCount := by
  unfold afKey
  split
  · generalize c.r.buf.take 4 = x
    obtain ⟨p, e, b⟩ := x
    cases e
    · simp only []
      cases Key.ofBytes p <;> rfl
    · rfl
  · rfl

theorem afData_ec (h : Hdr) (c : Conn) : (afData h c).2.r.errCount = c.r.errCount := by
  unfold afData
  simp only []
  generalize (if (h.opcode == 0) = true then c.r.length else 0) = base
  split
  · exact ec_pair_stb ..
  · exact ec_pair ..

theorem afPayload_ec (c : Conn) : (afPayload c).2.2.r.errCount = c.r.errCount := by
  unfold afPayload
  split
  · generalize c.r.buf.take c.r.remaining.toNat = x
    obtain ⟨p, e, b⟩ := x
    cases e <;> rfl
  · rfl
theorem ec_w {α : Type} (a : α) (w : W) (c : Conn) : (a, ({ c with w := w } : Conn)).snd.r.errCount = c.r.errCount := rfl
theorem ec_id {α : Type} (a : α) (c : Conn) : (a, c).snd.r.errCount = c.r.errCount := rfl

/-- result of a handler call followed by the optional reply -/
theorem rh_tail (m : HMode) (c : Conn) (ev : REv) (f : Conn → Except RErr Nat × Conn)
    (hf : ∀ c', (f c').2.r.errCount = c'.r.errCount) :
    (match runHandler m c ev with
      | (e, c) => match e with
        | some e => ((.error e : Except RErr Nat), c)
        | none => f c).2.r.errCount = c.r.errCount := by
  have h := rh_ec m c ev
  generalize runHandler m c ev = x at h ⊢
  obtain ⟨e, c'⟩ := x
  cases e
  · exact (hf c').trans h
  · exact h

theorem afDispatch_ec (h : Hdr) (p : Bytes) (c : Conn) : (afDispatch h p c).2.r.errCount = c.r.errCount := by
  unfold afDispatch
  split
  · exact rh_tail _ _ _ (fun c => (.ok 10, c)) (fun _ => rfl)
  · split
    · exact rh_tail _ _ _ (fun c => (.ok 9, if c.r.hPing = .dflt then { c with w := (writeControl c.w 10 p writeWaitDeadline).2 } else c))
        (fun c' => by simp only []; split <;> rfl)
    · extract_lets code text
      split
      · exact congrArg R.errCount (hpe_r _ _)
      · split
        · exact congrArg R.errCount (hpe_r _ _)
        · exact rh_tail _ _ _ (fun c => (.error (.close code text), if c.r.hClose = .dflt then { c with w := (writeControl c.w 8 (closePayload code []) writeWaitDeadline).2 } else c))
            (fun c' => by simp only []; split <;> rfl)

theorem afHdr_ec (c : Conn) (b0 b1 : UInt8) : (afHdr c b0 b1).2.r.errCount = c.r.errCount := by
  unfold afHdr
  extract_lets h errs final' src c1
  have h0 : c1.r.errCount = c.r.errCount := rfl
  split
  · exact (congrArg R.errCount (hpe_r _ _)).trans h0
  · have h1 := afLen_ec h c1
    generalize afLen h c1 = x at h1 ⊢
    obtain ⟨e, c2⟩ := x
    cases e
    · simp only [] at h1 ⊢
      have h2 := afKey_ec h c2
      generalize afKey h c2 = x at h2 ⊢
      obtain ⟨e, c3⟩ := x
      cases e
      · simp only [] at h2 ⊢
        split
        · exact (afData_ec h c3).trans (h2.trans (h1.trans h0))
        · have h3 := afPayload_ec c3
          generalize afPayload c3 = x at h3 ⊢
          obtain ⟨e, p, c4⟩ := x
          cases e
          · simp only [] at h3 ⊢
            exact (afDispatch_ec h p c4).trans (h3.trans (h2.trans (h1.trans h0)))
          · exact h3.trans (h2.trans (h1.trans h0))
      · exact h2.trans (h1.trans h0)
    · exact h1.trans h0

theorem afHead_ec (c : Conn) : (afHead c).2.r.errCount = c.r.errCount := by
  unfold afHead
  generalize c.r.buf.take 2 = x
  obtain ⟨p, e, b⟩ := x
  simp only []
  split
  · rfl
  · exact afHdr_ec _ _ _
  · rfl

theorem advanceFrame_ec (c : Conn) : (advanceFrame c).2.r.errCount = c.r.errCount := by
  rw [advanceFrame_eq]
  have h1 := afSkip_ec c
  generalize afSkip c = x at h1 ⊢
  obtain ⟨e, c1⟩ := x
  cases e
  · exact (afHead_ec c1).trans h1
  · exact h1

theorem nextReaderLoop_spec (fuel : Nat) : ∀ c : Conn,
    (nextReaderLoop fuel c).2.r.errCount = c.r.errCount ∧ ∀ c', nextReaderLoop fuel c ≠ (.panic, c') := by
  induction fuel with
  | zero =>
    intro c
    unfold nextReaderLoop
    exact ⟨rfl, fun c' h => by cases h⟩
  | succ n ih =>
    intro c
    unfold nextReaderLoop
    split
    · exact ⟨rfl, fun c' h => by cases h⟩
    · have h1 := advanceFrame_ec c
      generalize advanceFrame c = x at h1 ⊢
      obtain ⟨res, c1⟩ := x
      cases res with
      | error e => exact ⟨h1, fun c' h => by cases h⟩
      | ok t =>
        simp only [] at h1 ⊢
        split
        · exact ⟨h1, fun c' h => by cases h⟩
        · exact ⟨(ih c1).1.trans h1, (ih c1).2⟩

/-- NextReader's first step: forget the previous message reader -/
def c0 (c : Conn) : Conn := { c with r := { c.r with msgReader := none, length := 0 } }

/-- the frame loop (or its short cut on a failed connection) -/
def nrRes (c : Conn) : NRRes × Conn :=
  match c.r.readErr with
  | some _ => (.err .any, c0 c)
  | none => nextReaderLoop c.fuel (c0 c)

/-- NextReader's last step: count the failure, panic on the 1000th -/
def nrFinish (res : NRRes × Conn) : NRRes × Conn :=
  match res with
  | (.msg t rid z, c) => (.msg t rid z, c)
  | (_, c) =>
    let c := { c with r := { c.r with errCount := c.r.errCount + 1 } }
    if c.r.errCount ≥ 1000 then (.panic, c)
    else (.err (c.r.readErr.getD .any), c)

theorem nextReader_eq (c : Conn) : nextReader c = nrFinish (nrRes c) := rfl

theorem nrRes_some (c : Conn) (e : RErr) (h : c.r.readErr = some e) : nrRes c = (.err .any, c0 c) := by
  unfold nrRes; rw [h]

theorem nrRes_none (c : Conn) (h : c.r.readErr = none) : nrRes c = nextReaderLoop c.fuel (c0 c) := by
  unfold nrRes; rw [h]

theorem nrFinish_panic (res : NRRes) (c1 : Conn) :
    (∃ c', nrFinish (res, c1) = (.panic, c')) ↔ (∃ e, res = .err e ∨ res = .panic) ∧ 1000 ≤ c1.r.errCount + 1 := by
  cases res with
  | msg t rid z =>
    unfold nrFinish
    constructor
    · rintro ⟨c', h⟩; cases h
    · rintro ⟨⟨e, h | h⟩, _⟩ <;> cases h
  | err e =>
    unfold nrFinish
    simp only []
    constructor
    · rintro ⟨c', h⟩
      refine ⟨⟨e, Or.inl (by first | rfl | trivial)⟩, ?_⟩
      split at h
      · assumption
      · cases h
    · rintro ⟨_, h⟩
      rw [if_pos h]
      exact ⟨_, rfl⟩
  | panic =>
    unfold nrFinish
    simp only []
    constructor
    · rintro ⟨c', h⟩
      refine ⟨⟨.any, Or.inr (by first | rfl | trivial)⟩, ?_⟩
      split at h
      · assumption
      · cases h
    · rintro ⟨_, h⟩
      rw [if_pos h]
      exact ⟨_, rfl⟩

end WS.RobustAux
