import WS.Lemmas.SrcLaw
/-
  Additions to the stream law of the bufio model: the ghost field `total` never changes, an error is
  reported together with bytes only by a `together` transport, and "exact" forms of take / skip /
  read for a source whose pending bytes are given as `xs ++ ys`.
-/
namespace WS.SrcLaw
open WS

theorem peekLoop_total (fuel : Nat) : ∀ (b : Buf) (n : Nat), (b.peekLoop fuel n).total = b.total := by
  induction fuel with
  | zero => intro b n; rfl
  | succ f ih =>
    intro b n
    unfold Buf.peekLoop
    split
    · rw [ih]; rfl
    · rfl

theorem take_total (b : Buf) (n : Nat) : (b.take n).2.2.total = b.total := by
  unfold Buf.take
  simp only []
  split
  · exact peekLoop_total _ _ _
  · split
    · exact peekLoop_total _ _ _
    · exact peekLoop_total _ _ _

theorem read_total (b : Buf) (k : Nat) : (b.read k).2.2.total = b.total := by
  unfold Buf.read
  split
  · split
    · rfl
    · split
      · rfl
      · simp only []
        split <;> rfl
  · rfl

theorem skipLoop_total (fuel : Nat) : ∀ (b : Buf) (n : Nat), (b.skipLoop fuel n).2.total = b.total := by
  induction fuel with
  | zero => intro b n; rfl
  | succ f ih =>
    intro b n
    unfold Buf.skipLoop
    split
    · rfl
    · have ht := read_total b (min 8192 n)
      generalize b.read (min 8192 n) = r at ht
      obtain ⟨bs, e, b'⟩ := r
      simp only [] at ht ⊢
      split
      · exact ht
      · exact ht
      · split
        · exact ht
        · rw [ih]; exact ht

theorem skip_total (b : Buf) (n : Nat) : (b.skip n).2.total = b.total := skipLoop_total _ _ _

/-- an error comes together with bytes only from a `together` transport -/
theorem tread_err_together (t : TSrc) (room : Nat) :
    ∀ e, (t.read room).2.1 = some e → (t.read room).1 ≠ [] → t.together = true := by
  unfold TSrc.read
  split
  · intro e _ hne; simp at hne
  · simp only []
    split
    · split
      · rename_i hb
        simp only [Bool.and_eq_true] at hb
        intro _ _ _; exact hb.2
      · intro e he; simp at he
    · intro e he; simp at he

theorem read_err_together (b : Buf) (k : Nat) :
    ∀ e, (b.read k).2.1 = some e → (b.read k).1 ≠ [] → b.t.together = true := by
  unfold Buf.read
  split
  · split
    · intro e _ hne; simp at hne
    · split
      · exact tread_err_together b.t k
      · simp only []
        split
        · intro e _ hne; simp at hne
        · intro e he; simp at he
  · intro e he; simp at he

/-- size, terminal error, `together` and the ghost `total` never change -/
structure Same2 (b b' : Buf) : Prop where
  size : b'.size = b.size
  term : b'.t.term = b.t.term
  together : b'.t.together = b.t.together
  total : b'.total = b.total

theorem Same2.refl (b : Buf) : Same2 b b := ⟨rfl, rfl, rfl, rfl⟩

theorem Same2.trans {a b c : Buf} (h1 : Same2 a b) (h2 : Same2 b c) : Same2 a c :=
  ⟨h2.size.trans h1.size, h2.term.trans h1.term, h2.together.trans h1.together, h2.total.trans h1.total⟩

theorem take_exact (b : Buf) (h : WF b) (n : Nat) (hn : n ≤ b.size) (xs ys : Bytes)
    (hp : b.pending = xs ++ ys) (hx : xs.length = n) :
    ∃ b', b.take n = (xs, none, b') ∧ b'.pending = ys ∧ WF b' ∧ Same2 b b' := by
  obtain ⟨t1, t2, t3, t4, t5⟩ := take_ok b h n hn (by rw [hp, List.length_append]; omega)
  have ht := take_total b n
  generalize b.take n = r at t1 t2 t3 t4 t5 ht
  obtain ⟨p, e, b'⟩ := r
  simp only [] at t1 t2 t3 t4 t5 ht
  refine ⟨b', ?_, ?_, t4, ⟨t5.1, t5.2.1, t5.2.2, ht⟩⟩
  · rw [t1, t2, hp, List.take_left' hx]
  · rw [t3, hp, List.drop_left' hx]

theorem skip_exact (b : Buf) (h : WF b) (n : Nat) (xs ys : Bytes)
    (hp : b.pending = xs ++ ys) (hx : xs.length = n) :
    ∃ b', b.skip n = (none, b') ∧ b'.pending = ys ∧ WF b' ∧ Same2 b b' := by
  obtain ⟨t1, t3, t4, t5⟩ := skip_ok b h n (by rw [hp, List.length_append]; omega)
  have ht := skip_total b n
  generalize b.skip n = r at t1 t3 t4 t5 ht
  obtain ⟨e, b'⟩ := r
  simp only [] at t1 t3 t4 t5 ht
  refine ⟨b', ?_, ?_, t4, ⟨t5.1, t5.2.1, t5.2.2, ht⟩⟩
  · rw [t1]
  · rw [t3, hp, List.drop_left' hx]

/-- a Read of at most `xs.length` bytes delivers a non-empty prefix of `xs` and no error (unless the
    transport reports its error together with the very last bytes of the stream) -/
theorem read_exact (b : Buf) (h : WF b) (k : Nat) (hk : 0 < k) (xs ys : Bytes)
    (hp : b.pending = xs ++ ys) (hx : k ≤ xs.length) (hend : b.t.together = false ∨ ys ≠ []) :
    ∃ bs b', b.read k = (bs, none, b') ∧ bs ≠ [] ∧ bs.length ≤ xs.length ∧ xs = bs ++ xs.drop bs.length ∧
      b'.pending = xs.drop bs.length ++ ys ∧ WF b' ∧ Same2 b b' := by
  obtain ⟨r1, r2, r3, r4, r5, r6, r7⟩ := read_spec b h k hk
  have ht := read_total b k
  have hto := read_err_together b k
  generalize b.read k = r at r1 r2 r3 r4 r5 r6 r7 ht hto
  obtain ⟨bs, e, b'⟩ := r
  simp only [] at r1 r2 r3 r4 r5 r6 r7 ht hto
  have hpne : b.pending ≠ [] := by
    intro hc
    have := congrArg List.length hc
    rw [hp, List.length_append, List.length_nil] at this
    omega
  have hbs : bs ≠ [] := r3 hpne
  have hle : bs.length ≤ xs.length := by omega
  have hpre : bs = xs.take bs.length := by
    have h1 : (bs ++ b'.pending).take bs.length = (xs ++ ys).take bs.length := by rw [r1, hp]
    rw [List.take_left' rfl, List.take_append_of_le_length hle] at h1
    exact h1
  have hxs : xs = bs ++ xs.drop bs.length := by
    conv => lhs; rw [← List.take_append_drop bs.length xs]
    rw [← hpre]
  have hpend : b'.pending = xs.drop bs.length ++ ys := by
    have h1 : (bs ++ b'.pending).drop bs.length = (xs ++ ys).drop bs.length := by rw [r1, hp]
    rw [List.drop_left' rfl, List.drop_append_of_le_length hle] at h1
    exact h1
  have he : e = none := by
    cases e with
    | none => rfl
    | some e' =>
      exfalso
      obtain ⟨a1, _⟩ := r4 e' rfl
      have htg := hto e' rfl hbs
      rw [a1] at hpend
      have h2 : ys = [] := by
        have := congrArg List.length hpend
        simp only [List.length_nil, List.length_append] at this
        apply List.eq_nil_of_length_eq_zero; omega
      rcases hend with hend | hend
      · rw [htg] at hend; exact absurd hend (by simp)
      · exact hend h2
  subst he
  exact ⟨bs, b', rfl, hbs, hle, hxs, hpend, r6, ⟨r7.1, r7.2.1, r7.2.2, ht⟩⟩

end WS.SrcLaw
