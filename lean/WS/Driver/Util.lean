import WS.Basic
/-
  Line-protocol helpers shared by the drivers: tokenising, key=value lookup, chunk lists.
-/
namespace WS.Drv

def tokens (line : String) : List String :=
  (line.splitOn " ").filter (fun t => t ≠ "")

/-- value of `key=value` among the tokens -/
def kv (ts : List String) (key : String) : Option String :=
  let pre := key ++ "="
  (ts.find? (fun t => t.startsWith pre)).map (fun t => (t.drop pre.length).toString)

def kvNat (ts : List String) (key : String) : Option Nat := (kv ts key).bind (·.toNat?)
def kvInt (ts : List String) (key : String) : Option Int := (kv ts key).bind (·.toInt?)
def kvBool (ts : List String) (key : String) : Bool := kv ts key == some "1"
def kvHex (ts : List String) (key : String) : Option Bytes := (kv ts key).bind WS.fromHex

/-- comma separated hex chunks; absent or empty = no chunks -/
def parseChunks (s : String) : Option (List Bytes) :=
  if s = "" then some [] else (s.splitOn ",").mapM WS.fromHex

def kvChunks (ts : List String) (key : String) : List Bytes :=
  match kv ts key with
  | none => []
  | some s => (parseChunks s).getD []

def joinSp (xs : List String) : String := " ".intercalate xs

end WS.Drv
