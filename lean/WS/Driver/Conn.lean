import WS.Driver.Util
import WS.Model.Writer
import WS.Model.Prepared
import WS.Model.Reader
/-
  Line-protocol driver for connection scenarios (write side). One scenario = the lines between
  two `reset` lines. Process-global things (mask key source, shared buffer pool) live in `Scn`
  and are copied into / out of the connection record around every operation.
-/
namespace WS.Drv
open WS

/-- driver-side record of a connection: the model state plus the table from the handle names
    the harness uses (`u0, u1, …` = results of explicit NextWriter calls) to model handles. -/
structure DConn where
  w : W
  r : R
  uh : List Nat := []
  vh : List Nat := []          -- reader handles v0, v1, … (results of explicit NextReader calls)
  join : JStage := .idle

structure Scn where
  conns : List (String × DConn) := []
  pms : List (String × PM) := []
  keys : Bytes := []
  caps : List Nat := []        -- capacities io.ReadAll's buffer goes through (measured by the harness)
  keyIdx : Nat := 0
  poolFree : List Nat := []
  nextBuf : Nat := 0

def errName : WErr → String
  | .badOpcode => "badOpcode"
  | .writeClosed => "writeClosed"
  | .invalidControl => "invalidControl"
  | .closeSent => "closeSent"
  | .writeTimeout => "writeTimeout"
  | .transport id => s!"transport:{id}"
  | .reader id => s!"reader:{id}"
  | .internalExtra => "internalExtra"
  | .flateTail => "flateTail"
  | .badLevel => "badLevel"
  | .deflateMismatch => "MODEL-deflateMismatch"
  | .hang => "MODEL-hang"
  | .any => "*"

def evStr : Ev → String
  | .swd d none => s!"swd:{d}"
  | .swd d (some id) => s!"swd:{d}:F{id}"
  | .wr b n none => s!"wr:{toHex b}:{n}"
  | .wr b n (some id) => s!"wr:{toHex b}:{n}:F{id}"
  | .poolGet none => "get:miss"
  | .poolGet (some id) => s!"get:{id}"
  | .poolPut none => "put:nil"
  | .poolPut (some id) => s!"put:{id}"
  | .hPing p => s!"H:ping:{toHex p}"
  | .hPong p => s!"H:pong:{toHex p}"
  | .hClose c t => s!"H:close:{c}:{toHex t}"

def rerrName : RErr → String
  | .eof => "eof"
  | .unexpectedEOF => "close:1006:" ++ toHex (strBytes "unexpected EOF")
  | .transport id => s!"transport:{id}"
  | .close c t => s!"close:{c}:{toHex t}"
  | .readLimit => "readLimit"
  | .protocol m => "proto:" ++ toHex (strBytes m)
  | .handler id => s!"handler:{id}"
  | .internalData => "internalUnexpectedData"
  | .bufferFull => "other:" ++ toHex (strBytes "bufio: buffer full")
  | .inflate => "*"
  | .any => "*"

def resLine (res : String) (log : List Ev) : String :=
  if log.isEmpty then res else res ++ " | " ++ joinSp (log.map evStr)

def Scn.getConn (sc : Scn) (cid : String) : Option DConn :=
  (sc.conns.find? (·.1 == cid)).map fun p =>
    { p.2 with w := { p.2.w with keys := sc.keys, keyIdx := sc.keyIdx, poolFree := sc.poolFree, nextBuf := sc.nextBuf, log := [] } }

def Scn.putDConn (sc : Scn) (cid : String) (d : DConn) : Scn :=
  let d' : DConn := { d with w := { d.w with log := [] } }
  let conns : List (String × DConn) :=
    if sc.conns.any (·.1 == cid) then sc.conns.map (fun (p : String × DConn) => if p.1 == cid then (cid, d') else p)
    else sc.conns ++ [(cid, d')]
  { sc with conns, keyIdx := d.w.keyIdx, poolFree := d.w.poolFree, nextBuf := d.w.nextBuf }

def eres (e : Option WErr) : String :=
  match e with
  | none => "ok"
  | some e => "err " ++ errName e

def parseTerm (s : String) : Option (Option Nat × Bool) :=
  if s = "eof" then some (none, false)
  else if s = "eoft" then some (none, true)
  else if s.startsWith "errt:" then (s.drop 5).toString.toNat?.map (fun n => (some n, true))
  else if s.startsWith "err:" then (s.drop 4).toString.toNat?.map (fun n => (some n, false))
  else none

/-- one write-side operation on connection `w` -/
def connOp (sc : Scn) (cid : String) (dc : DConn) (op : String) (args ts : List String) : Scn × String :=
  let w := dc.w
  let fin (w : W) (res : String) : Scn × String := (sc.putDConn cid { dc with w }, resLine res w.log)
  let uh (name : String) : Option Nat := ((name.drop 1).toString.toNat?).bind (fun k => dc.uh[k]?)
  let dnp := kvChunks ts "dnp"
  let fullp := (kvHex ts "fullp").getD []
  match op, args with
  | "fault", k :: "fail" :: id :: _ =>
    match k.toNat?, id.toNat? with
    | some k, some id => fin { w with faults := w.faults ++ [(k, .fail id)] } "ok"
    | _, _ => (sc, "bad-op")
  | "fault", k :: "short" :: n :: id :: _ =>
    match k.toNat?, n.toNat?, id.toNat? with
    | some k, some n, some id => fin { w with faults := w.faults ++ [(k, .short n id)] } "ok"
    | _, _, _ => (sc, "bad-op")
  | "nw", t :: _ =>
    match t.toInt? with
    | none => (sc, "bad-op")
    | some t =>
      match nextWriter w t dnp fullp with
      | (.ok h, w) => (sc.putDConn cid { dc with w, uh := dc.uh ++ [h] }, resLine s!"ok u{dc.uh.length}" w.log)
      | (.error e, w) => fin w ("err " ++ errName e)
  | "w", h :: hex :: _ =>
    match uh h, fromHex hex with
    | some h, some p =>
      let ((n, e), w) := hWrite w h p (kvChunks ts "dn")
      fin w (match e with | none => s!"ok {n}" | some e => "err " ++ errName e)
    | _, _ => (sc, "bad-op")
  | "ws", h :: hex :: _ =>
    match uh h, fromHex hex with
    | some h, some p =>
      let ((n, e), w) := hWrite w h p (kvChunks ts "dn") true
      fin w (match e with | none => s!"ok {n}" | some e => "err " ++ errName e)
    | _, _ => (sc, "bad-op")
  | "rf", h :: chunks :: term :: _ =>
    match uh h, parseChunks (if chunks = "-" then "" else chunks), parseTerm term with
    | some h, some cs, some (t, tog) =>
      match w.handles[h]? with
      | some (.plain i) =>
        let ((nn, e), w, m) := mwReadFrom w (getMW w i) { chunks := cs.filter (fun c => !c.isEmpty), term := t, together := tog }
        let w := setMW w i m
        fin w (match e with | none => s!"ok {nn}" | some e => s!"err {errName e} {nn}")
      | _ => (sc, "bad-op")
    | _, _, _ => (sc, "bad-op")
  | "cl", h :: _ =>
    match uh h with
    | some h =>
      let (e, w) := hClose w h (kvChunks ts "dn") ((kvHex ts "full").getD [])
      fin w (eres e)
    | none => (sc, "bad-op")
  | "wm", t :: hex :: _ =>
    match t.toInt?, fromHex hex with
    | some t, some p =>
      let (e, w) := writeMessage w t p dnp fullp (kvChunks ts "dnw") ((kvHex ts "full").getD [])
      fin w (eres e)
    | _, _ => (sc, "bad-op")
  | "wj", hex :: _ =>
    match fromHex hex with
    | some p =>
      let (e, w) := writeJSON w p dnp fullp (kvChunks ts "dnw") ((kvHex ts "full").getD [])
      fin w (eres e)
    | none => (sc, "bad-op")
  | "wjf", _ =>
    -- WriteJSON of a value encoding/json rejects: the writer is opened, nothing is written, the writer is
    -- closed (an empty text message goes out); the encoder's error is returned unless NextWriter failed
    match nextWriter w 1 dnp fullp with
    | (.error e, w) => fin w (eres (some e))
    | (.ok h, w) =>
      let (_, w) := hClose w h (kvChunks ts "dnw") ((kvHex ts "full").getD [])
      fin w "err json"
  | "cc", _ =>
    -- Conn.Close: closes the network connection; the write side's state is untouched
    fin w "ok"
  | "wc", t :: hex :: d :: _ =>
    match t.toInt?, fromHex hex, d.toInt? with
    | some t, some p, some d =>
      let (e, w) := writeControl w t p d
      fin w (eres e)
    | _, _, _ => (sc, "bad-op")
  | "swd", d :: _ =>
    match d.toInt? with
    | some d => fin (setWriteDeadline w d) "ok"
    | none => (sc, "bad-op")
  | "ewc", b :: _ => fin (enableWriteCompression w (b == "1")) "ok"
  | "scl", l :: _ =>
    match l.toInt? with
    | some l => let (e, w) := setCompressionLevel w l; fin w (eres e)
    | none => (sc, "bad-op")
  | "wp", pid :: _ =>
    match sc.pms.find? (·.1 == pid) with
    | none => (sc, "bad-op")
    | some (_, pm) =>
      let env := match kvHex ts "img", kvHex ts "full" with
        | some i, some f => some (i, f)
        | _, _ => none
      let (e, w, pm) := writePrepared w pm env dnp fullp
      let pms : List (String × PM) := sc.pms.map (fun (p : String × PM) => if p.1 == pid then (pid, pm) else p)
      ({ sc.putDConn cid { dc with w } with pms := pms }, resLine (eres e) w.log)
  | "feed", chunks :: _ =>
    match parseChunks (if chunks = "-" then "" else chunks) with
    | some cs =>
      let term : RErr := match kv ts "term" with
        | some "eof" => .eof
        | some v => if v.startsWith "err:" then .transport ((v.drop 4).toString.toNat?.getD 0) else .eof
        | none => .eof
      let t : TSrc := { chunks := cs.filter (fun c => !c.isEmpty), term, together := kvBool ts "tog" }
      let pre := (kvHex ts "pre").getD []
      (sc.putDConn cid { dc with r := { dc.r with buf := { dc.r.buf with t, buf := pre, total := t.pending.length + pre.length } } }, "ok")
    | none => (sc, "bad-op")
  | "lines", n :: _ =>
    -- http.ReadResponse consumed n header lines from the connection's own bufio.Reader
    match n.toNat? with
    | some n =>
      let b := (List.range n).foldl (fun b _ => b.readLine (2 * b.total + 2)) dc.r.buf
      (sc.putDConn cid { dc with r := { dc.r with buf := b } }, "ok")
    | none => (sc, "bad-op")
  | "lim", l :: _ =>
    match l.toInt? with
    | some l => (sc.putDConn cid { dc with r := { dc.r with limit := l } }, "ok")
    | none => (sc, "bad-op")
  | "nr", _ =>
    let (res, c) := nextReader ⟨w, dc.r⟩
    match res with
    | .msg t rid z => (sc.putDConn cid { dc with w := c.w, r := c.r, vh := dc.vh ++ [rid] },
                        resLine s!"ok {t} v{dc.vh.length} z={if z then 1 else 0}" c.w.log)
    | .err e => (sc.putDConn cid { dc with w := c.w, r := c.r }, resLine ("err " ++ rerrName e) c.w.log)
    | .panic => (sc.putDConn cid { dc with w := c.w, r := c.r }, resLine "panic" c.w.log)
  | "rd", v :: k :: _ =>
    match ((v.drop 1).toString.toNat?).bind (fun i => dc.vh[i]?), k.toNat? with
    | some rid, some k =>
      let ((bs, e), c) := mrRead ⟨w, dc.r⟩ rid k
      (sc.putDConn cid { dc with w := c.w, r := c.r },
        resLine (toHex bs ++ " " ++ (match e with | none => "ok" | some e => rerrName e)) c.w.log)
    | _, _ => (sc, "bad-op")
  | "ra", v :: k :: _ =>
    match ((v.drop 1).toString.toNat?).bind (fun i => dc.vh[i]?), k.toNat? with
    | some rid, some k =>
      let ((bs, e), c) := readAll ⟨w, dc.r⟩ rid k
      (sc.putDConn cid { dc with w := c.w, r := c.r },
        resLine (toHex bs ++ " " ++ (match e with | none => "ok" | some e => rerrName e)) c.w.log)
    | _, _ => (sc, "bad-op")
  | "rac", v :: _ =>
    -- read a compressed message to its end; `z` = compressed bytes and `plain` = what an independent
    -- inflater makes of them (environment answers)
    match ((v.drop 1).toString.toNat?).bind (fun i => dc.vh[i]?) with
    | some rid =>
      let ((bs, e), c) := readAll ⟨w, dc.r⟩ rid 4096
      let out := match e with
        | some _ => "* *"
        | none =>
          if kvHex ts "z" == some bs then
            (match kv ts "plain" with
             | some "err" => "* *"
             | some p => p ++ " ok"
             | none => "MODEL-missing-env *")
          else "MODEL-compressed-bytes-differ " ++ toHex bs
      (sc.putDConn cid { dc with w := c.w, r := c.r }, resLine out c.w.log)
    | none => (sc, "bad-op")
  | "zr", v :: _ =>
    -- read a compressed message to its end through the decompressing reader; the sizes of
    -- compress/flate's read requests, its verdict and the drain's request size are environment answers
    match ((v.drop 1).toString.toNat?).bind (fun i => dc.vh[i]?) with
    | some rid =>
      let reqs := match kv ts "reqs" with
        | some "-" => []
        | some s => (s.splitOn ",").filterMap (·.toNat?)
        | none => []
      let env : ZEnv := ⟨reqs, kvBool ts "ok", (kvNat ts "drain").getD 8192⟩
      let ((_, res), c) := zReadToEnd ⟨w, dc.r⟩ rid env
      let out := match res with
        | .complete => "complete"
        | .failed e => "err " ++ rerrName e
      (sc.putDConn cid { dc with w := c.w, r := c.r }, resLine out c.w.log)
    | none => (sc, "bad-op")
  | "rm", _ =>
    let (res, c) := nextReader ⟨w, dc.r⟩
    match res with
    | .msg t rid z =>
      if z then
        let ((bs, e), c) := readAll c rid 4096
        let out := match e with
          | some _ => s!"err * {t} *"
          | none =>
            if kvHex ts "z" == some bs then
              (match kv ts "plain" with
               | some "err" => s!"err * {t} *"
               | some p => s!"ok {t} {p}"
               | none => "MODEL-missing-env")
            else "MODEL-compressed-bytes-differ " ++ toHex bs
        (sc.putDConn cid { dc with w := c.w, r := c.r, vh := dc.vh ++ [rid] }, resLine out c.w.log)
      else
        let ((bs, e), c) := readAllGrow c rid sc.caps
        (sc.putDConn cid { dc with w := c.w, r := c.r, vh := dc.vh ++ [rid] },
          resLine (match e with | none => s!"ok {t} {toHex bs}" | some e => s!"err {rerrName e} {t} {toHex bs}") c.w.log)
    | .err e => (sc.putDConn cid { dc with w := c.w, r := c.r }, resLine ("err " ++ rerrName e) c.w.log)
    | .panic => (sc.putDConn cid { dc with w := c.w, r := c.r }, resLine "panic" c.w.log)
  | "jn", term :: k :: _ =>
    match fromHex term, k.toNat? with
    | some term, some k =>
      let ((bs, e), c, st) := joinRead ⟨w, dc.r⟩ dc.join term k
      (sc.putDConn cid { dc with w := c.w, r := c.r, join := st },
        resLine (toHex bs ++ " " ++ (match e with | none => "ok" | some e => rerrName e)) c.w.log)
    | _, _ => (sc, "bad-op")
  | "wire", _ => fin w ("ok " ++ toHex w.wire)
  | _, _ => (sc, "bad-op")

def step (sc : Scn) (line : String) : Scn × String :=
  let ts := tokens line
  match ts with
  | [] => (sc, "")
  | "reset" :: _ =>
    let caps := match kv ts "caps" with
      | some s => (s.splitOn ",").filterMap (·.toNat?)
      | none => []
    ({ keys := (kvHex ts "keys").getD [], caps }, "ok")
  | "conn" :: cid :: _ =>
    let w := newW (kvBool ts "srv") ((kvInt ts "wbuf").getD 0) (kvBool ts "pool") (kvBool ts "nego") (kvNat ts "reuse")
    let hm (k : String) : HMode := match kv ts k with
      | some "rec" => .record
      | some v => if v.startsWith "fail" then .fail ((v.drop 4).toString.toNat?.getD 0) else .dflt
      | none => .dflt
    let rsize := match kvNat ts "brsize" with
      | some n => n                       -- a bufio.Reader handed in by the caller (hijacked)
      | none => readBufSize ((kvInt ts "rbuf").getD 0)
    let r : R := { isServer := kvBool ts "srv", nego := kvBool ts "nego", limit := (kvInt ts "limit").getD 0,
                   hPing := hm "hp", hPong := hm "hq", hClose := hm "hc", buf := { size := rsize } }
    (sc.putDConn cid { w := { w with keyIdx := sc.keyIdx, poolFree := sc.poolFree, nextBuf := sc.nextBuf }, r }, "ok")
  | "pm" :: pid :: t :: hex :: _ =>
    match t.toInt?, fromHex hex with
    | some t, some p =>
      match newPrepared t p sc.keys sc.keyIdx with
      | (.ok pm, ki) => ({ sc with pms := sc.pms ++ [(pid, pm)], keyIdx := ki }, "ok")
      | (.error e, ki) => ({ sc with keyIdx := ki }, "err " ++ errName e)
    | _, _ => (sc, "bad-op")
  | op :: cid :: args =>
    match sc.getConn cid with
    | none => (sc, "bad-op")
    | some dc => connOp sc cid dc op args ts
  | _ => (sc, "bad-op")

end WS.Drv
