import WS.Driver.Util
import WS.Model.Http
import WS.Model.Server
import WS.Model.Client
import WS.Model.Mask
import WS.Model.Trunc
import WS.Model.Plan
/-
  Line-protocol driver for the handshake decision functions and the pure helpers.
-/
namespace WS.Drv
open WS WS.Http

/-- header maps: `name:val,val;name:val` with every name / value in hex ("-" = empty), `none` = nil map -/
def parseHdrs (s : String) : Option (List (Bytes × List Bytes)) :=
  if s = "" || s = "_" then some []
  else (s.splitOn ";").mapM fun ent =>
    match ent.splitOn ":" with
    | [k, vs] => do
      let k ← fromHex k
      let vs ← if vs = "" then some [] else (vs.splitOn ",").mapM fromHex
      pure (k, vs)
    | [k] => do let k ← fromHex k; pure (k, [])
    | _ => none

def kvHdrs (ts : List String) (key : String) : List (Bytes × List Bytes) :=
  match kv ts key with
  | some s => (parseHdrs s).getD []
  | none => []

def hexList (xs : List Bytes) : String := if xs.isEmpty then "_" else ",".intercalate (xs.map toHex)

def kvHexList (ts : List String) (key : String) : List Bytes :=
  match kv ts key with
  | some "_" => []
  | some s => ((s.splitOn ",").mapM fromHex).getD []
  | none => []

def bytesLt (a b : Bytes) : Bool :=
  match a, b with
  | [], [] => false
  | [], _ => true
  | _, [] => false
  | x :: xs, y :: ys => if x < y then true else if y < x then false else bytesLt xs ys

def sortBytes (xs : List Bytes) : List Bytes := (xs.toArray.qsort bytesLt).toList

/-- canonical form of an extension (a Go map): name first, then parameters sorted by key, the last
    assignment to a key wins -/
def showExt (e : Ext) : String :=
  let keys := sortBytes ((e.drop 1).map (·.1)).eraseDups
  let val (k : Bytes) : Bytes := (((e.drop 1).filter (fun p => p.1 == k)).getLast?.map (·.2)).getD []
  "[" ++ ";".intercalate (("-=" ++ toHex e.name) :: keys.map (fun k => toHex k ++ "=" ++ toHex (val k))) ++ "]"

def hsStep (ts : List String) : Option String :=
  match ts with
  | "up" :: _ =>
    let req : Server.Req := { method := (kvHex ts "m").getD [], host := (kvHex ts "host").getD [], hdr := kvHdrs ts "H" }
    let u : Server.UCfg := {
      subprotocols := match kv ts "sub" with | some "none" => none | _ => some (kvHexList ts "sub"),
      enableCompression := kvBool ts "ec",
      checkOrigin := match kv ts "co" with | some "1" => some true | some "0" => some false | _ => none,
      readBufferSize := (kvInt ts "rbs").getD 0, writeBufferSize := (kvInt ts "wbs").getD 0,
      pool := kvBool ts "pool", handshakeTimeout := kvBool ts "hto" }
    let rh : Server.RespHdr := match kv ts "RH" with | some "none" => none | _ => some (kvHdrs ts "RH")
    let oh : Option Bytes := match kv ts "oh" with | some "none" => none | _ => kvHex ts "oh"
    let hj : Server.Hijack := match (kv ts "hj").map (·.splitOn ":") with
      | some ["ok", a, b, c] => { ok := true, brSize := a.toNat?.getD 0, buffered := b.toNat?.getD 0, availLen := c.toNat?.getD 0 }
      | _ => { ok := false, brSize := 0, buffered := 0, availLen := 0 }
    match Server.upgrade u req rh oh hj with
    | .error r => some s!"rej {r.status}"
    | .ok (_, a) =>
      let nfixed := 4 + (if a.subprotocol.isEmpty then 0 else 1) + (if a.compress then 1 else 0)
      some s!"acc sub={toHex a.subprotocol} z={if a.compress then 1 else 0} reuse={if a.reuseReader then 1 else 0} wrap={if a.wrapConn then 1 else 0} rsize={a.readerSize} wbuf={a.wbufLen} fixed={hexList (a.lines.take nfixed)} extra={hexList (sortBytes (a.lines.drop nfixed))}"
  | "dial" :: _ =>
    let u : Client.Url := { scheme := (kvHex ts "scheme").getD [], host := (kvHex ts "host").getD [], hasUser := kvBool ts "user" }
    let d : Client.DCfg := { subprotocols := kvHexList ts "subs", enableCompression := kvBool ts "ec" }
    match Client.buildRequest d u ((kvHex ts "key").getD []) (kvHdrs ts "CH") with
    | .error .malformedURL => some "err malformedURL"
    | .error .duplicateHeader => some "err duplicateHeader"
    | .error _ => some "err other"
    | .ok (host, h) =>
      let lines := sortBytes (h.flatMap (fun p => p.2.map (fun v => p.1 ++ strBytes ": " ++ v)))
      some s!"req host={toHex host} H={hexList lines}"
  | "reply" :: _ =>
    let r : Client.Reply := { status := (kvNat ts "status").getD 0, hdr := kvHdrs ts "H" }
    match Client.checkReply ((kvHex ts "key").getD []) r with
    | .error .badHandshake => some "err badHandshake"
    | .error .invalidCompression => some "err invalidCompression"
    | .error _ => some "err other"
    | .ok d => some s!"ok sub={toHex d.subprotocol} z={if d.compress then 1 else 0}"
  | ["hpnp", scheme, host] =>
    match fromHex scheme, fromHex host with
    | some s, some h => let (a, b) := Client.hostPortNoPort s h; some (toHex a ++ " " ++ toHex b)
    | _, _ => none
  | ["fold", a, b] =>
    match fromHex a, fromHex b with
    | some a, some b => some (if equalASCIIFold a b then "1" else "0")
    | _, _ => none
  | "tlc" :: v :: _ =>
    match fromHex v with
    | some v => some (if tokenListContainsValue (kvHexList ts "lines") v then "1" else "0")
    | none => none
  | "pext" :: _ => some (("exts " ++ " ".intercalate ((parseExtensions (kvHexList ts "lines")).map showExt)).trimAscii.toString)
  | ["vck", k] => (fromHex k).map (fun k => if isValidChallengeKey k then "1" else "0")
  | ["ntq", s] => (fromHex s).map (fun s => let (a, b) := nextTokenOrQuoted s; toHex a ++ " " ++ toHex b)
  | ["acc", k] => (fromHex k).map (fun k => toHex (Spec.acceptKey Gen.keyGUID k))
  | ["subp", h] => (fromHex h).map (fun h => hexList (subprotocols h))
  | ["cso", host, origin, oh] =>
    -- checkSameOrigin with Origin present iff origin ≠ "none"
    match fromHex host with
    | some host =>
      let r : Server.Req := { method := [], host, hdr := if origin = "none" then [] else [(strBytes "Origin", [(fromHex origin).getD []])] }
      let ohv : Option Bytes := if oh = "none" then none else fromHex oh
      some (if Server.checkSameOrigin r ohv then "1" else "0")
    | none => none
  | ["mask", key, pos, a, hex] =>
    match (fromHex key).bind Key.ofBytes, pos.toNat?, a.toNat?, fromHex hex with
    | some k, some p, some a, some b => let (o, np) := maskBytesGo k p a b; some (toHex o ++ " " ++ toString np)
    | _, _, _, _ => none
  | "nego" :: _ => some "ok"
  | "sched" :: _ => some "ok"
  | "dfuzz" :: _ => some "ok"
  | "mx" :: _ =>
    let pk : Client.ProxyKind := match kv ts "proxy" with | some "http" => .http | some "https" => .https | some "socks5" => .socks5 | _ => .none
    let cr : Client.Cred := match kv ts "cred" with | some "user" => .user | some "userpass" => .userpass | some "userempty" => .userempty | _ => .none
    let ce : Client.CertCase := match kv ts "cert" with | some "other" => .other | some "untrusted" => .untrusted | _ => .ok
    let c : Client.MCfg := { proxy := pk, wss := kvBool ts "wss", nd := kvBool ts "nd", ndc := kvBool ts "ndc", ndtls := kvBool ts "ndtls",
                              cred := cr, cert := ce, skipVerify := kvBool ts "skip" }
    let p := Client.dialPlan c
    let backend := if c.wss then "backend.test:443" else "backend.test:80"
    let proxyAddr := match pk with | .http => "proxy.test:8080" | .https => "proxy.test:8443" | .socks5 => "proxy.test:1080" | .none => ""
    let fn := match p.firstFn with | .nd => "ND" | .ndc => "NDC" | .ndtls => "NDTLS" | .default => "DEFAULT"
    let first := fn ++ "@" ++ (if p.firstHopIsProxy then proxyAddr else backend)
    let b64 (s : String) : String := String.ofList ((Spec.base64 (strBytes s)).map (fun b => Char.ofNat b.toNat))
    let auth := match cr with | .userpass => "Basic@" ++ b64 "alice:s3cret" | .userempty => "Basic@" ++ b64 "alice:" | _ => ""
    let connect := if p.connect then s!"CONNECT@{backend}@auth={auth}" else "-"
    let socks := if p.socks then
        (match cr with
         | .userpass => s!"{backend}@user=alice@pass=s3cret@auth=true"
         | .user => s!"{backend}@user=alice@pass=@auth=true"
         | .userempty => s!"{backend}@user=alice@pass=@auth=true"
         | .none => s!"{backend}@user=@pass=@auth=false")
      else "-"
    let sni := if c.wss then "backend.test" else "-"
    some s!"ok={if p.succeeds then 1 else 0} dials=1 first={first} connect={connect} socks={socks} sni={sni} upgrades={if p.succeeds then 1 else 0}"
  | "plan" :: _ =>
    let cfg : Plan.Cfg := { server := kvBool ts "server", timeout := kvBool ts "timeout", proxy := kvBool ts "proxy" }
    let o := Plan.exec (Plan.plan cfg) (kvNat ts "fail")
    let nm : Plan.HOp → String
      | .sd0 => "SD:0" | .sdD => "SD:D" | .swd0 => "SWD:0" | .swdD => "SWD:D" | .w => "W" | .r => "R" | .c => "C"
    some s!"ops={",".intercalate (o.ops.map nm)} returned={if o.returned then 1 else 0} closed={if o.closed then 1 else 0}"
  | "trunc" :: _ =>
    let w := (kvHexList ts "chunks").foldl Trunc.write {}
    some (s!"fwd={hexList w.out} held={toHex w.p}")
  | _ => none

end WS.Drv
