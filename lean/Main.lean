import WS.Driver.Conn
import WS.Driver.Hs
open WS.Drv

partial def loop (h : IO.FS.Stream) (out : IO.FS.Stream) (sc : Scn) : IO Unit := do
  let line ← h.getLine
  if line.isEmpty then return ()
  let line := (line.dropEndWhile (fun c => c == '\n' || c == '\r')).toString
  match hsStep (tokens line) with
  | some o =>
    out.putStrLn o
    loop h out sc
  | none =>
    let (sc', o) := step sc line
    out.putStrLn o
    loop h out sc'

def main : IO Unit := do
  let stdin ← IO.getStdin
  let stdout ← IO.getStdout
  loop stdin stdout {}
  stdout.flush
