-- This module serves as the root of the `WS` library.
-- Import modules here that should be built as part of the library.
import WS.Basic
