# Per-property configuration for ./check: Lean modules, theorem names that must appear in the
# axiom audit, correspondence streams (name, scenarios in quick, scenarios in thorough).
ALLOWED_AXIOMS = {"propext", "Classical.choice", "Quot.sound"}
FORBIDDEN = [r"\bsorry\b", r"\badmit\b", r"^\s*axiom\s", r"native_decide", r"bv_decide", r"implemented_by", r"\bunsafe\s", r"maxHeartbeats\s+0"]

TB_COMMON = [
    "Lean 4.33.0 kernel; axioms allowed: propext, Classical.choice, Quot.sound (audited by #print axioms on every run)",
    "factgen (go/ast translator regenerating lean/WS/Gen from /repo) and expect/inventory.json",
    "correspondence harness (go/cmd/harness, tag verif) with its canonicalisation, and the independent RFC 6455 / RFC 7692 oracles in rfc.go",
    "hand-written Lean model of the code (WS/Model); tied to the code only by the translator and by differential runs",
]

def P(**kw):
    kw.setdefault("level", "proof")
    kw.setdefault("trusted_base", TB_COMMON)
    return kw

PROPS = {
    "C09": P(
        technique="Lean 4 theorem over an interleaving semantics (invariant by induction over the step relation) + decide over generated skeletons + differential correspondence",
        level_text="Proof: in every reachable state of every interleaving of any number of threads of the lock protocol a close frame is last on the wire, nothing is appended after it and later writers fail (WS.Props.C09, Lean kernel). The protocol is tied to today's Conn.write/WriteControl by WellLocked decided over statement skeletons regenerated from /repo, and the sequential model is tied by differential runs (close sent at every step of random programs, transport faults).",
        level_note="Assumes Go channel/mutex atomicity as modelled; model of conn.go hand-written (tie: factgen skeletons + harness); flate is an environment answer.",
        lean=["WS.Props.C09"],
        theorems=["WS.Props.C09.close_is_last", "WS.Props.C09.no_byte_after_close", "WS.Props.C09.writeErr_after_close_released",
                  "WS.Props.C09.only_checkFail_after_close", "WS.Props.C09.write_wellLocked", "WS.Props.C09.writeControl_wellLocked",
                  "WS.Props.C09.seq_nothing_after_close", "WS.Props.C09.close_sets_sticky", "WS.Props.C09.seq_requests_fail"],
        streams=[("wclose", 800, 12000), ("wfault", 400, 6000)],
        assumptions=["Go channel send/receive on c.mu and sync.Mutex are the atomic actions of WS.Model.Sched (Go runtime, not verified)",
                     "compress/flate output is an environment answer validated against an independent deflate run"],
    ),
}

# properties not (yet) claimed: filled in as checks are built
NOT_APPLICABLE = []
NOTES = "All checks: ./check <id> quick|thorough. Known findings in KNOWN_FINDINGS.txt. See DESIGN.md."
import json as _json, os as _os
_ids = [_json.loads(l)["id"] for l in open(_os.path.join(_os.path.dirname(_os.path.abspath(__file__)), "properties.jsonl"))]
for _i in _ids:
    if _i not in PROPS:
        NOT_APPLICABLE.append({"property_id": _i, "reason": "check under construction in this session: model exists, theorem file and stream registration pending (not a limit of the technique)"})
