# Per-property configuration for ./check: Lean theorem module, correspondence streams
# (name, scenarios in quick, scenarios in thorough), texts for MANIFEST.json.
# The property theorems are whatever `theorem`s lean/WS/Props/<id>.lean declares.
import json as _json, os as _os

ALLOWED_AXIOMS = {"propext", "Classical.choice", "Quot.sound"}
FORBIDDEN = [r"\bsorry\b", r"\badmit\b", r"^\s*axiom\s", r"native_decide", r"bv_decide", r"implemented_by", r"\bunsafe\s", r"maxHeartbeats\s+0"]

TB_COMMON = [
    "Lean 4.33.0 kernel; axioms allowed: propext, Classical.choice, Quot.sound (audited with #print axioms on every run); no sorry/admit/axiom/native_decide/bv_decide (grepped on every run)",
    "factgen (go/cmd/factgen: go/ast translator regenerating lean/WS/Gen from /repo on every run) and the hand-written expectations in expect/inventory.json",
    "correspondence harness (go/cmd/harness built with -tags verif against /repo's working tree), its canonicalisation of errors/deadlines, and the independent RFC 6455 / RFC 7692 / RFC 7230 oracles it contains",
    "the hand-written Lean model lean/WS/Model (modelled, not verified against the Go semantics): tied to the code only by the translator and by differential runs",
    "environment parameters with assumed behaviour: compress/flate, crypto/rand, encoding/json, net/http, net/url, bufio (modelled in WS/Model/Source.lean), io.ReadAll buffer growth (measured), Go scheduler / channels / sync",
]

ASSUME_FLATE = "compress/flate is an environment answer: what it emits is recorded from the run and validated against an independent deflate of the same writes (trunc spec)"
ASSUME_BUFIO = "bufio.Reader, io.CopyN and io.ReadAll are modelled (WS/Model/Source.lean), not verified; the model is compared with the real ones on every scenario"


def P(**kw):
    kw.setdefault("level", "proof")
    kw.setdefault("trusted_base", TB_COMMON)
    kw.setdefault("assumptions", [])
    return kw


PROPS = {
    "C01": P(
        technique="Lean 4 theorems (induction over byte lists / chunk lists) + differential correspondence model vs implementation",
        level_text="Proof (round_trip): whatever WriteMessage(t, data) puts on the wire — any payload below 2^40 bytes, any write buffer size, either role — a connection of the opposite role reads as exactly (t, data) through any bufio size ≥ 125, any transport chunking and reads of any size, with no handler invoked and the following bytes untouched; for ANY NUMBER of messages (round_trip_sequence, by induction over the list): the peer reads exactly the list that was sent, each message once, in send order, and with pings/pongs sent in between (round_trip_sequence_with_controls) its handlers see exactly those control frames in send order; ReadFrom / io.Copy into a message writer (message_roundtrip_readFrom, readFrom_reports_all_data): a source handing out its bytes in reads of any sizes and ending with io.EOF, alone or with its last bytes, contributes exactly its bytes, and the count returned is exact; with a read limit on the receiving side (round_trip_limited, round_trip_sequence_limited) any number of messages, each within the limit, arrive exactly once and in order. Proof of the data transformations every message goes through, for all inputs: word-at-a-time masking = RFC byte-wise masking for every alignment/key/offset/length, masking involutive and offset-carrying across splits, truncWriter forwards all but the last 4 bytes for every chunking, strict frame decode inverts the writer's encode for every length < 2^63; the constructor always leaves room for a control frame (F4 repair) so a ping/pong of at most 125 bytes through WriteMessage is accepted and is exactly one control frame; the per-message round trip over the writer model (any buffer size, any split of writes, controls in between) and the reader's decoding of any conformant fragmentation are C02.message_roundtrip / C03.read_message. Tie: random write programs and random conformant streams run on the real package and on the compiled model, wire bytes and delivered bytes compared exactly; an independent RFC decoder/inflater judges sent vs delivered.",
        level_note="compress/flate and encoding/json are parameters; end-to-end composition through a real connected pair is checked by correspondence (stream pair), the theorem composition is per side.",
        lean=["WS.Props.C01"],
        streams=[("w", 500, 12000), ("rconf", 500, 12000), ("unit", 300, 6000), ("pair", 150, 3000), ("join", 150, 3000), ("glue", 300, 6000)],
        assumptions=[ASSUME_FLATE, ASSUME_BUFIO],
    ),
    "C02": P(
        technique="Lean 4 invariant proof over all write programs (induction over the operation list) + strict RFC decoder spec + differential correspondence",
        level_text="Proof: for every program over the write API, every buffer size, role, pool and compression setting and every environment answer, the wire of a fault-free connection is a concatenation of frames that the strict RFC 6455 decoder (written from the RFC in WS/Spec/Frame.lean; non-minimal lengths are undecodable) accepts, masked iff client; frame-record level well-formedness (RSV bits, fragmentation grammar, control frames) and payload content are WS.Lemmas.WireWF / Content; a compressed message is exactly one RSV1 message whose payload is the deflate stream minus its tail, however flate chunks its output; every client frame takes the next draw of the key source (key_per_frame) and servers never mask. Tie: exact wire bytes of the real package vs the model on random programs incl. prepared messages, compression toggles, pools; independent Go RFC decoder + inflater on the real wire.",
        level_note="crypto/rand quality is not modelled (site inventory pins newMaskKey/maskRand uses); flate output is an environment answer validated against the trunc spec. Finding F8 (a prepared data message sent while a writer was open landed between its fragments) was repaired (fix: aca3807): the writer is closed first, as NextWriter does; stream wf8 is the regression sentinel.",
        lean=["WS.Props.C02"],
        streams=[("w", 800, 16000), ("wclose", 300, 6000), ("wf8", 150, 2000), ("sched", 120, 2000), ("wfault", 300, 6000)],
        assumptions=[ASSUME_FLATE],
    ),
    "C03": P(
        technique="Lean 4 refinement proof (bufio model ⊑ byte stream) + reader theorems + differential correspondence with an independent encoder",
        level_text="Proof that the byte source the reader sees is a plain stream whatever the transport chunking, bufio size and read sizes (take/read/skip laws over the bufio model, all chunkings), and that unmasking is position-correct across reads; message level (read_message, abandon_then_next): from an idle reader a conformant message — any fragmentation incl. empty frames, any masking keys, pings/pongs between fragments, either role, any bufio size ≥ 125, any chunking — is announced with its type and read to exactly its payload with reads of any size, abandonment at any point leaves the next message intact; any number of consecutive messages are read as exactly that list, in order, each once (read_messages, by induction); the request size may change from one Read to the next (read_message_mixed), in particular along whatever capacities the allocator picks for io.ReadAll / ReadMessage (read_message_any_caps); for EVERY program over the read API (any_read_program: NextReader and Read(k) in any order, number and sizes, reading past the end, opening the next message at any point) the observed trace is exactly the one the messages dictate — the i-th NextReader opens the i-th message, every Read returns a non-empty piece continuing where the last stopped, end-of-message exactly at the end; compressed messages (read_compressed_message): what reaches the decompressor is exactly the concatenated payloads, and the same bytes are refused when compression was not negotiated; JoinMessages (join_message, join_two_messages, join_messages for ANY NUMBER of messages with or without a read limit): payload ++ terminator per message for reads of any size. Tie: conformant streams from an independent Go encoder (all length classes, extreme keys, empty fragments, controls anywhere, deflate at several levels) fed through scripted transports with 6 chunkings and read with random programs (ReadMessage, NextReader+reads of 13 sizes, abandon, stale readers) on the real package and the model; every returned byte count compared.",
        level_note="compress/flate's inflate and its read sizes are environment (after a compressed read scenarios use whole-message reads); ReadJSON is ReadMessage + encoding/json (environment).",
        lean=["WS.Props.C03"],
        streams=[("rconf", 800, 16000), ("join", 200, 4000), ("zcut", 1200, 20000)],
        assumptions=[ASSUME_BUFIO, ASSUME_FLATE],
    ),
    "C04": P(
        technique="Lean 4 proof of the header decision logic over the full header alphabet + decide over the regenerated check list + differential correspondence",
        level_text="Proof: the reader's header check reports an error exactly for the violations the property lists (all b0/b1, both roles, negotiated or not, idle or mid-message); the accepted close codes are exactly 1000-1003, 1007-1013, 3000-4999 (table regenerated from conn.go); the list of checks recognised in today's advanceFrame equals the modelled one (decide); for EVERY read program (violation_program_fits_partial; partial: whole messages within the read limit) on whole messages followed by a violating header and any bytes, the messages the application's trace reports as complete are a sublist of the whole messages and the handler log is a prefix of their control frames — nothing behind the violation is ever delivered or handed to a handler; at the API: after any conformant history the NextReader call (idle) or the Read call (inside a fragmented message) that meets the violating frame returns the protocol error with zero bytes, invokes no handler, latches the error and writes exactly one 1002 close frame. Tie: every violation class injected after random conformant prefixes, in both protocol states, on the real package and the model (errors, 1002 frames, handler logs compared exactly); oracle: nothing after the violation surfaces, same error twice, 1002 written.",
        level_note="RSV1 on control/continuation frames while negotiated is accepted by the code and is not in the property's list; a 1-byte close body is treated as no body.",
        lean=["WS.Props.C04"],
        streams=[("rviol", 800, 16000), ("sched", 64, 1000)],
        assumptions=[ASSUME_BUFIO],
    ),
    "C05": P(
        technique="Lean 4 proof over the bufio model (all cuts, all chunkings) + fault enumeration by differential correspondence",
        level_text="Proof at the message level (cut_never_complete): the transport ends — EOF, error or timeout, alone or together with the last bytes — at ANY byte offset strictly inside a conformant message of any fragmentation with interleaved controls, for any chunking, buffer size and read size: the message is never reported complete; NextReader fails or the message reader fails with a non-EOF error after delivering only a prefix of the payload (on reachable states; the 1000th-call panic is explicit otherwise); a message that did arrive whole is reported complete and byte-identical; cut_never_complete_any_limit: the same whatever read limit is in force (the failure may then be ErrReadLimit, never completion); for EVERY read program (cut_program_never_complete_fits_partial; partial: whole messages within the limit, terminal condition not glued to the last whole message) the messages the application's trace reports as complete are a sublist of the messages that arrived whole, in order; the same for COMPRESSED messages through the model of flateReadWrapper (compressed_cut_never_complete: for every behaviour of compress/flate — read requests of any sizes, the end of the deflate stream reported however early — and every drain size, a compressed message whose last frame has not arrived is not reported complete; finding F10 as a theorem; compressed_whole_complete for the converse). Proof at the source level: a header or skipped remainder that did not fully arrive is an error (EOF mapped to 1006), never a short result; the terminal error repeats. Tie/fault enumeration: random streams cut at random and boundary offsets with EOF / error / timeout, error alone or together with the last bytes, all chunkings, explicit read sizes; model predicts every result incl. bufio pass-through effects; oracle: a message reported complete lies wholly before the cut and is byte-identical; errors are permanent; zcut: compressed messages of every deflate shape, cut anywhere, with the decompressor's read requests observed through a tap and replayed by the model (zr lines).",
        level_note="Finding F1 (EOF together with the last bytes of a non-final frame made a truncated message look complete) was repaired (fix: f91fac9); the theorem is about the repaired reader and the rcut stream is its regression sentinel. Compressed messages of every deflate shape (sync-flushed, several blocks, BFINAL) cut at any offset by every fault kind are judged by the independent oracle of stream zcut with the real compress/flate, which found F10 (repaired, fix: 9fddae9); since then the wrapper around the decompressor is modelled (zReadToEnd) with compress/flate's read requests, its verdict and the drain size as environment answers observed through the hook VerifTapDecompression; inflate itself stays environment.",
        lean=["WS.Props.C05"],
        streams=[("rcut", 800, 20000), ("zcut", 600, 20000)],
        assumptions=[ASSUME_BUFIO],
    ),
    "C06": P(
        technique="Lean 4 theorems over the reader model (running sum with int64 wrap-around, all sources) + differential correspondence around the limit",
        level_text="Proof (limit_history_independent, the property's first sentence as one theorem): with a limit L > 0, after ANY NUMBER of earlier messages within the limit, each opened and read with reads of any sizes (none, some, all, beyond the end), a message of at most L payload bytes is read in full, whatever the fragmentations, control frames, role, chunking and buffer size; (over_limit_never_complete, the second sentence) a message above the limit is never read in full: NextReader or a Read fails with ErrReadLimit and what was delivered before is a prefix of at most L bytes. Frame level: the frame whose header makes the running sum exceed the limit is refused before any payload byte is consumed, with ErrReadLimit and a 1009 close frame; a message whose data frames sum to at most L is read in full whatever its fragmentation, interleaved controls and read sizes (limit_admits, from C03.read_message); a new text/binary frame restarts the sum, so what the application did with earlier messages does not matter (regression sentinel for F2); a top-bit length is refused the same way with a 1009 (F3); limit_refuses_claimed: for EVERY length a header can claim — 7-bit, 16-bit and 64-bit encodings, minimal or not, any value below 2^63, either role, first frame or continuation, any running sum including sums that leave the int64 range (wrap64) — the frame that takes the message over the limit in the mathematical integers is refused as soon as its header has arrived, nothing of the payload needing to be there; the same at the API for NextReader (idle) and for Read inside a fragmented message (the continuation that takes the running sum over the limit), and an accepted frame adds exactly its length to the sum. Tie: limits chosen at message size -1/0/+1, fragmentations crossing at any frame, abandon points, huge and negative 64-bit lengths (rfuzz), on the real package and the model.",
        level_note="Memory: the model has no allocator; the claim rests on the structure (Peek of at most 125 bytes, Read into the caller's buffer, Discard in 8 KiB steps) pinned by the make/index site inventory, plus a TotalAlloc bound measured in the fuzz stream.",
        lean=["WS.Props.C06"],
        streams=[("rlimit", 900, 16000), ("rfuzz", 400, 8000)],
        assumptions=[ASSUME_BUFIO],
    ),
    "C07": P(
        technique="Lean 4 theorems over total, input-bounded models + translator inventory of index/slice/make sites + differential fuzz correspondence",
        level_text="Proof for the modelled code: the only panic the read path can produce is the documented one at the 1000th call on a failed connection; header reads and frame skips are bounded by what is asked for / present and end with an error on a short stream (no waiting for a claimed length); the models of the reader loops and of the header parsers are total functions whose recursion is bounded by the input length (accepted by Lean's termination checker), and for EVERY input — conformant or garbage, complete or cut — that bound is never reached: an accepted frame has consumed at least its two header bytes (advanceFrame_ok_consumes), so NextReader's loop and the Read loop end with a message, data, end-of-message or a latched error and any larger fuel gives the same result (nextReaderLoop_no_hang, nextReader_total, mrRead_total, nextReaderLoop_fuel, mrReadLoop_fuel); the loops of tokenListContainsValue, parseExtensions and the base64 walk consume at least one byte per iteration (lineContains_any_fuel, parseExtensions_any_fuel, paramsAux_fuel, b64DecodedLen_any_fuel). Go-level panics cannot arise in the model: they are covered by the regenerated inventory of every index / slice / make / type-assertion site in the functions fed by network input (a new or changed site breaks the tie) and by fuzz correspondence: mutated and random frame streams into connections of both roles with the model predicting every outcome exactly, random and mutated replies to Dial and to CONNECT, junk header values through the exported helpers, all under recover(), a watchdog and a TotalAlloc bound.",
        level_note="Partial: robustness of net/http, net/url, bufio, compress/flate and encoding/base64 internals is assumed; allocation is bounded by measurement in the fuzz streams plus the make-site inventory, not by a theorem about the Go allocator. Fuzzing supports the tie and the search for failing inputs; it is not the proof.",
        lean=["WS.Props.C07"],
        streams=[("rfuzz", 1200, 30000), ("dfuzz", 200, 4000), ("unit", 400, 8000), ("srv", 300, 6000), ("cli", 300, 6000), ("rviol", 300, 6000), ("origin", 300, 6000), ("zcut", 400, 8000), ("hsfault", 9, 9)],
    ),
    "C08": P(
        technique="Lean 4 theorems over the reader+writer model + differential correspondence",
        level_text="Proof (any_read_program_hlog): for EVERY program over the read API (NextReader and Read(k) in any order, number and sizes, abandoning messages, reading past their ends) on a stream of conformant messages the handler log is at every point a prefix of the stream's pings / pongs in wire order with exact payloads — at most once each, never out of order, none invented; while a conformant message is read to its end the handler log grows by exactly the interleaved pings/pongs, in wire order, with exact payloads (any fragmentation, chunking, read sizes); a ping of 0..125 bytes is answered by one pong with the identical payload; a close with an accepted code and UTF-8 reason is handed to the handler once, echoed with the same code, and reported as CloseError{code, reason}; a handler error is permanent. Tie: controls at every position of 1-5-fragment messages, payload lengths {0,1,2,7,50,124,125}, all accepted close-code classes, default / recording / failing handlers, both roles; handler log and reply frames compared exactly; oracle: handler log = control frames in wire order, pongs = pings.",
        level_note="Default-handler theorems are proved for either role (default_*_any_role: a server-side reader unmasks with the frame's key); handlers_exactly_once is role-generic.",
        lean=["WS.Props.C08"],
        streams=[("rconf", 900, 16000), ("rviol", 300, 6000), ("glue", 300, 6000), ("rlimit", 300, 6000), ("sched", 60, 1000)],
        assumptions=[ASSUME_BUFIO],
    ),
    "C09": P(
        technique="Lean 4 theorem over an interleaving semantics (invariant by induction over the step relation) + decide over generated skeletons + differential correspondence",
        level_text="Proof: in every reachable state of every interleaving of any number of threads of the lock protocol a close frame is last on the wire, nothing is appended after it and later writers fail; sequentially: once the sticky error is set every write request fails, and Close on any writer handle — the one that was open when the close went out included — returns an error, so that message is never reported as sent (WS.Props.C09, Lean kernel). The protocol is tied to today's Conn.write/WriteControl by WellLocked decided over statement skeletons regenerated from /repo, and the sequential model is tied by differential runs (close sent at every step of random programs, transport faults).",
        level_note="Assumes Go channel/mutex atomicity as modelled; model of conn.go hand-written (tie: factgen skeletons + harness); flate is an environment answer.",
        lean=["WS.Props.C09"],
        streams=[("wclose", 800, 12000), ("wfault", 400, 6000), ("sched", 80, 1500)],
        race=[("sched", 200)],
        assumptions=["Go channel send/receive on c.mu and sync.Mutex are the atomic actions of WS.Model.Sched (Go runtime, not verified)", ASSUME_FLATE],
    ),
    "C10": P(
        technique="Lean 4 invariant proofs over all write programs and all fault scripts + fault enumeration by differential correspondence",
        level_text="Proof: for every program, every fault script (error/timeout/short write at any transport call) and every environment answer the accepted bytes are whole frames followed by at most one incomplete write, after the first failure nothing reaches the transport and every later write (incl. Close of an open writer) fails; invalid requests change nothing; each frame is written as SetWriteDeadline(d) then Write(s) with d the connection's deadline, resp. WriteControl's argument. Tie: random programs x every transport-call index up to 12 x {error, timeout, short write}, exact transport call log compared.",
        level_note="Sequential model (one writer goroutine); concurrency is C09/C11.",
        lean=["WS.Props.C10"],
        streams=[("wfault", 1100, 20000), ("w", 300, 4000), ("sched", 80, 1500)],
        assumptions=[ASSUME_FLATE],
    ),
    "C11": P(
        technique="Lean 4 theorem over an interleaving semantics with non-atomic transport writes (invariant by induction over the step relation) + decide over the regenerated field-access table and skeletons + forced-schedule exploration",
        level_text="Proof: in every reachable state of every interleaving of any number of threads, with the transport accepting each frame in any number of parts, the parts of a frame are contiguous on the wire (control frames only between whole frames); a WriteControl that gives up waiting writes nothing, does not poison the connection, and can always give up even while the writer is blocked inside the transport; mutual exclusion. Translator tie: the atomic actions are those of today's Conn.write / WriteControl (C09.WellLocked over regenerated skeletons); lock_discipline is decided over the field-access table regenerated from the source (every mutable Conn field is touched only by functions of its owning role, the mutex and writeErr only by the four protocol functions; PreparedMessage.frames/once only by frame). Exploration: forced schedules with real goroutines (writer parked inside the transport, 0-6 WriteControl callers with 25 ms / 5 s deadlines, a close among them); thorough adds a -race build of the same runs when the toolchain supports it.",
        level_note="Partial: the Go memory model, scheduler, timers, sync.Pool and sync.Once are not modelled; data-race freedom is argued from the ownership table plus -race runs, not proved. The sched stream has no model side (outcomes are schedule dependent); it is judged by the RFC oracle.",
        lean=["WS.Props.C11"],
        streams=[("sched", 60, 1500), ("conc", 60, 1000), ("prep", 150, 2000), ("wfault", 300, 4000)],
        race=[("sched", 300), ("conc", 300)],
    ),
    "C12": P(
        technique="Lean 4 theorems over the decision function of Upgrade + decide over the regenerated rejection chain + differential correspondence with grammar-level oracles",
        level_text="Proof: Upgrade succeeds iff every condition of the chain holds; 403 exactly for the origin, 426 (with the Connection token present) exactly for a missing Upgrade token; compression is announced iff enabled and an extension named permessage-deflate was offered; the selected subprotocol was offered and is supported; whatever bytes the application supplies as header values or subprotocol the 101 has exactly the expected lines (no_injection, incl. the F5 fix); Accept = base64(SHA-1(key++GUID)) with the GUID of today's source (RFC vector checked in the kernel); the rejection chain recognised in today's Upgrade is the modelled one; the header list scanner is sound on arbitrary bytes (a reported token is an OWS-trimmed comma-separated element equal under ASCII folding) and complete on well-formed 1#token lists. Tie: handshakes from the grammar (OWS, case, extra tokens, several lines, near-miss tokens, malformed lists, keys of many decoded lengths, offers with parameters and quoted strings), all Upgrader settings, response headers with control bytes; model predicts status / 101 lines / reader and buffer choice exactly; oracle judges with an independent list grammar, SHA-1 and line splitter.",
        level_note="net/http (hijack, http.Error) and url.Parse are environment; header *names* supplied by the application are outside the property; on non-well-formed token lists only soundness is claimed.",
        lean=["WS.Props.C12"],
        streams=[("srv", 1500, 30000), ("unit", 300, 6000), ("origin", 300, 4000)],
    ),
    "C13": P(
        technique="Lean 4 theorem (full characterisation of the folding comparison, all byte strings) + differential correspondence",
        level_text="Proof: equalASCIIFold accepts exactly the byte strings equal after byte-wise ASCII lower-casing, for all byte strings (so: same length, no extra label, no prefix/suffix look-alike, no non-ASCII byte folds to ASCII; U+212A / U+017F are refused; invalid UTF-8 bytes are distinguished: sentinel for F7); the default policy accepts iff no Origin or the parsed origin host folds to Host; today's checkSameOrigin / equalASCIIFold statements are the modelled ones. Tie: (Host, Origin) pairs from case variants, one-character edits, labels added/removed, ports, userinfo tricks, IPv6 literals, Unicode look-alikes, invalid UTF-8, junk; 101 vs 403 compared; independent RFC 3986 authority splitter as oracle.",
        level_note="url.Parse is environment (its Host result is an input of the model and recomputed by the harness).",
        lean=["WS.Props.C13"],
        streams=[("origin", 1500, 30000), ("unit", 300, 6000)],
    ),
    "C14": P(
        technique="Lean 4 theorems over the reply decision and request assembly + decide over regenerated check lists + differential correspondence",
        level_text="Proof: the reply is accepted iff status 101, Upgrade/Connection tokens and Accept = digest of the key sent in this request (and an acceptable compression answer); an Accept computed for another key is refused; non-ws/wss schemes and userinfo are refused before anything is assembled; a caller header naming a protocol-owned header (any capitalisation, F9 fix) is refused; the disjuncts of today's DialContext are the modelled ones; whenever a request is assembled it carries Upgrade: websocket, Connection: Upgrade, this dial's key and version 13, the permessage-deflate offer iff compression is enabled, and Host from the URL unless overridden. Tie: scripted servers with status/header/Accept/body variations, URLs, Dialer settings, caller header maps; request bytes parsed by an independent splitter and compared with the model's header set; reply decision compared.",
        level_note="http.Request.Write, http.ReadResponse, url.Parse and crypto/rand are environment (parsed reply and observed key are inputs).",
        lean=["WS.Props.C14"],
        streams=[("cli", 1500, 30000)],
    ),
    "C15": P(
        technique="Lean 4 theorems + decide over the literals regenerated from client.go/server.go + exhaustive 2x2 correspondence with message exchange",
        level_text="Proof (both_or_neither): composing the Dialer model and the Upgrader model through net/http as carrier (header fields arrive under canonical names: reqOf / replyOf, with replyOf tied to the bytes of the 101), whenever the Dialer's request is upgraded the server side compresses exactly when both sides enabled compression and the Dialer accepts the reply with the same setting, for every pair of settings, subprotocol lists, URLs and keys; and that handshake does succeed. Also: server compresses iff enabled and permessage-deflate offered; client compresses iff the reply carries it (both parameters required, else Dial fails: C14.dial_iff); the offer literal of today's Dialer makes an enabled Upgrader compress and the announcement literal of today's Upgrader is accepted by the Dialer (decide over regenerated literals); RSV1 is a violation exactly when not negotiated; with compression on a message is one RSV1+deflate message and after EnableWriteCompression(false) the next one is plain (toggle_safe). Tie: all four (Dialer, Upgrader) settings through a real handshake of the two in-process, then messages in both directions with random EnableWriteCompression / SetCompressionLevel toggles; offer and reply variants in the srv / cli streams.",
        level_note="flate is environment; toggling safety beyond the exchanged messages rests on C02 (each message is plain or RSV1+deflate) and C03.",
        lean=["WS.Props.C15"],
        streams=[("nego", 200, 4000), ("srv", 400, 8000), ("cli", 400, 8000), ("pair", 150, 3000)],
        assumptions=[ASSUME_FLATE],
    ),
    "C16": P(
        technique="Lean 4 theorems over the handshake plan machine + exhaustive fault enumeration by differential correspondence",
        level_text="Proof over the plan machine (direct dial, plain HTTP CONNECT proxy, Upgrade after hijack; with/without timeout): whichever operation fails no Conn is returned and the net.Conn is closed, with the close the last operation; on success the Conn is open and the last deadline operation sets the zero time; with a timeout the first client operation arms the deadline. Tie/fault enumeration (exhaustive over the 9 configurations (server / client / client via proxy x HandshakeTimeout / no deadline / deadline from the caller's context) x every operation x {error, timeout, EOF}): the real Dial / Upgrade run over a scripted net.Conn that records every call; the recorded operation sequence must equal the model's plan in the fault-free run and in every faulted run; non-200 and malformed CONNECT replies abort the dial (F6 regression).",
        level_note="Partial: operations inside crypto/tls and the SOCKS5 client are observed in C18's matrix, not modelled; that a context deadline interrupts a TLS handshake is the Go runtime's.",
        lean=["WS.Props.C16"],
        streams=[("hsfault", 9, 9), ("matrix", 60, 400), ("cli", 300, 6000)],
        exhaustive=True,
    ),
    "C17": P(
        technique="Lean 4 theorem over brNetConn (all read-size sequences) composed with the bufio stream law + split enumeration by differential correspondence",
        level_text="Proof: for every buffered prefix and every sequence of read sizes brNetConn serves exactly the buffered bytes, in order, never more than buffered or asked for, and switches to the socket exactly when the buffer is empty; Upgrade's choice of reader covers all cases (reuse / wrap / nothing buffered); with C03's stream law the Conn's source is buffered ++ socket; client side: reading the 101 header block line by line (ReadSlice) from the connection's own bufio.Reader consumes exactly the header lines for every chunking and buffer size, so the first frame starts at the byte after the empty line. Tie: frame streams split at random k between a hijacked bufio.Reader (sizes 16/256/257/4096) and the socket, ReadBufferSize in {0,1,255,256,4096}, random socket chunkings; client: '101 + frames' in every chunking with the connection's own bufio consuming the header block line by line (modelled); delivered messages compared exactly.",
        level_note="http.ReadResponse's consumption is modelled as line-wise ReadSlice; net/http's own buffering before the hijack is environment.",
        lean=["WS.Props.C17"],
        streams=[("glue", 1500, 30000)],
        assumptions=[ASSUME_BUFIO],
    ),
    "C18": P(
        technique="Lean 4 theorems over the dial-path decision function (whole configuration matrix) + exhaustive matrix correspondence with in-process proxies and TLS backends",
        level_text="Proof over Client.dialPlan for every configuration {no proxy, http, https, socks5} x {ws, wss} x 2^3 dial functions x credentials x certificate case: for wss the library does TLS to the backend with the URL host as ServerName (over the tunnel when a proxy is used) on every path except a bare custom NetDialTLSContext, and a dial succeeds only with a certificate valid for the host unless the user disabled verification; ws gets no TLS; an HTTP(S) proxy gets a CONNECT, with Basic auth exactly when the proxy URL carries a password; the first hop goes to the proxy with the applicable custom function; hostPortNoPort default ports incl. IPv6 literals. Tie (thorough tier: exhaustive over the 1536 indexes of the cell space, 662 distinct runnable cells incl. InsecureSkipVerify on/off; quick tier: a stride walk sampling every dimension): real Dials over in-memory connections to in-process http/https/socks5 proxies and TLS/plain backends with a private CA (valid / other-host / untrusted certificates); observed first-hop function and address, CONNECT line and Proxy-Authorization, SOCKS5 request and credentials, SNI at the backend, whether the upgrade request reached the backend and the dial outcome must equal the model's; oracle: no upgrade request outside verified TLS, exactly one CONNECT for host:port.",
        level_note="Partial: crypto/tls and x/net/proxy are exercised, not modelled; cells that need the real network (no custom dial function applicable) are not runnable offline and are skipped; proxy selection via environment variables is net/http's.",
        lean=["WS.Props.C18"],
        streams=[("matrix", 220, 1700), ("unit", 200, 2000), ("hsfault", 9, 9)],
    ),
    "C19": P(
        technique="Lean 4 theorems over the prepared-message model (via the per-message round-trip theorem) + differential correspondence with shared prepared messages",
        level_text="Proof: a prepared text/binary message sent on a connection between messages (either role, any buffer size, variant cached or rendered now) is accepted and the wire gains exactly one complete message with the type and payload given at creation — what C02.writeMessage_roundtrip says WriteMessage sends; a prepared ping/pong is exactly one control frame; the cache invariant behind this is established by NewPreparedMessage and preserved by every send; the cache key is computed from the connection's role and compression settings at the time of the call; an uncompressed image is what WriteMessage writes on a fresh connection of that role and decodes to exactly one message with the type and payload given at creation, for every size (beyond the 4096-byte internal buffer) and either role; sending never changes a cached entry nor the type/payload; a new entry is the rendering of exactly its key; a compressed image is cached only if it decodes to one well-formed compressed message whose payload is the deflate stream minus its tail; a hit is sent in one transport write under the connection's deadline. Tie: one or more PreparedMessages shared by 1-4 connections of random roles / compression settings / levels, random order, toggles between sends; exact wire bytes compared with the model (mask keys of rendered client frames included); independent decoder + inflater: wire message = (type, payload at creation).",
        level_note="Compressed images are environment answers validated by imageOk (frame boundaries depend on flate's chunking); concurrent first use of a key relies on sync.Once / sync.Mutex (C11 table: frames/once only in frame).",
        lean=["WS.Props.C19"],
        streams=[("prep", 800, 16000), ("w", 300, 4000), ("conc", 60, 1000), ("wf8", 300, 4000)],
        race=[("conc", 300)],
        assumptions=[ASSUME_FLATE],
    ),
    "C20": P(
        technique="Lean 4 invariant proof over all write programs and fault scripts + differential correspondence with a poisoning pool",
        level_text="Proof: for every program (invalid requests, abandoned writers) and every transport fault script on a pooled connection — without compression unconditionally (pool_balance), with permessage-deflate negotiated for every execution whose compress/flate answers are consistent (pool_balance_compression; consistency is checked on every correspondence run) — Get/Put are balanced, a buffer is held only while a message writer is live, at most one writer is live, nothing is held between messages and no nil buffer is ever put back. Tie: instrumented LIFO pool shared by 1-4 connections that poisons buffers on Put and checks the poison on Get; Get/Put log (with buffer identities) compared with the model exactly; wire of every sharing connection judged by the RFC decoder.",
        level_note="Independent oracle in the streams: after every API call the pool's outstanding buffers (Get calls minus Put calls) equal the number of messages in progress. Concurrent sharing relies on the pool's own synchronisation (sync.Pool); the conc stream runs it under the race detector.",
        lean=["WS.Props.C20"],
        streams=[("w", 600, 10000), ("wfault", 400, 8000), ("wclose", 300, 6000), ("conc", 60, 1000)],
        race=[("conc", 300)],
        assumptions=[ASSUME_FLATE],
    ),
}

# properties not (yet) claimed
NOT_APPLICABLE = []
NOTES = "All checks: ./check <id> quick|thorough (VERIF_SEED honoured). Known findings: KNOWN_FINDINGS.txt. Design, trusted base and kill matrix: DESIGN.md."
_ids = [_json.loads(l)["id"] for l in open(_os.path.join(_os.path.dirname(_os.path.abspath(__file__)), "properties.jsonl"))]
for _i in _ids:
    if _i not in PROPS:
        NOT_APPLICABLE.append({"property_id": _i, "reason": "check under construction in this session (model and stream exist or are being built; not a limit of the technique)"})
