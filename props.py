# Per-property configuration for ./check: Lean theorem module, correspondence streams
# (name, scenarios in quick, scenarios in thorough), texts for MANIFEST.json.
# The property theorems are whatever `theorem`s lean/WS/Props/<id>.lean declares.
import json as _json, os as _os

ALLOWED_AXIOMS = {"propext", "Classical.choice", "Quot.sound"}
FORBIDDEN = [r"\bsorry\b", r"\badmit\b", r"^\s*axiom\s", r"native_decide", r"bv_decide", r"implemented_by", r"\bunsafe\s", r"maxHeartbeats\s+0"]

TB_COMMON = [
    "Lean 4.33.0 kernel; axioms allowed: propext, Classical.choice, Quot.sound (audited with #print axioms on every run); no sorry/admit/axiom/native_decide/bv_decide (grepped on every run)",
    "factgen (go/cmd/factgen: go/ast translator regenerating lean/WS/Gen from /repo on every run) and the hand-written expectations in expect/inventory.json",
    "correspondence harness (go/cmd/harness built with -tags verif against /repo's working tree), its canonicalisation of errors/deadlines, and the independent RFC 6455 / RFC 7692 / RFC 7230 oracles it contains",
    "the hand-written Lean model lean/WS/Model (modelled, not verified against the Go semantics): tied to the code only by the translator and by differential runs",
    "environment parameters with assumed behaviour: compress/flate, crypto/rand, encoding/json, net/http, net/url, bufio (modelled in WS/Model/Source.lean), io.ReadAll buffer growth (measured), Go scheduler / channels / sync",
]

ASSUME_FLATE = "compress/flate is an environment answer: what it emits is recorded from the run and validated against an independent deflate of the same writes (trunc spec)"
ASSUME_BUFIO = "bufio.Reader, io.CopyN and io.ReadAll are modelled (WS/Model/Source.lean), not verified; the model is compared with the real ones on every scenario"


def P(**kw):
    kw.setdefault("level", "proof")
    kw.setdefault("trusted_base", TB_COMMON)
    kw.setdefault("assumptions", [])
    return kw


PROPS = {
    "C01": P(
        technique="Lean 4 theorems (induction over byte lists / chunk lists) + differential correspondence model vs implementation",
        level_text="Proof of the data transformations every message goes through, for all inputs: word-at-a-time masking = RFC byte-wise masking for every alignment/key/offset/length, masking involutive and offset-carrying across splits, truncWriter forwards all but the last 4 bytes for every chunking, strict frame decode inverts the writer's encode for every length < 2^63; the per-message round trip over the writer model (any buffer size, any split of writes, controls in between) and the reader's decoding of any conformant fragmentation are C02.message_roundtrip / C03.read_message. Tie: random write programs and random conformant streams run on the real package and on the compiled model, wire bytes and delivered bytes compared exactly; an independent RFC decoder/inflater judges sent vs delivered.",
        level_note="compress/flate and encoding/json are parameters; end-to-end composition through a real connected pair is checked by correspondence (stream pair), the theorem composition is per side.",
        lean=["WS.Props.C01"],
        streams=[("w", 500, 12000), ("rconf", 500, 12000), ("unit", 300, 6000), ("pair", 150, 3000)],
        assumptions=[ASSUME_FLATE, ASSUME_BUFIO],
    ),
    "C02": P(
        technique="Lean 4 invariant proof over all write programs (induction over the operation list) + strict RFC decoder spec + differential correspondence",
        level_text="Proof: for every program over the write API, every buffer size, role, pool and compression setting and every environment answer, the wire of a fault-free connection is a concatenation of frames that the strict RFC 6455 decoder (written from the RFC in WS/Spec/Frame.lean; non-minimal lengths are undecodable) accepts, masked iff client; frame-record level well-formedness (RSV bits, fragmentation grammar, control frames) and payload content are WS.Lemmas.WireWF / Content. Tie: exact wire bytes of the real package vs the model on random programs incl. prepared messages, compression toggles, pools; independent Go RFC decoder + inflater on the real wire.",
        level_note="crypto/rand quality is not modelled (site inventory pins newMaskKey/maskRand uses); flate output is an environment answer validated against the trunc spec. Finding F8 (prepared data message while a writer is open) excluded from the grammar theorem and recorded.",
        lean=["WS.Props.C02"],
        streams=[("w", 800, 16000), ("wclose", 300, 6000)],
        assumptions=[ASSUME_FLATE],
    ),
    "C03": P(
        technique="Lean 4 refinement proof (bufio model ⊑ byte stream) + reader theorems + differential correspondence with an independent encoder",
        level_text="Proof that the byte source the reader sees is a plain stream whatever the transport chunking, bufio size and read sizes (take/read/skip laws over the bufio model, all chunkings), and that unmasking is position-correct across reads; message-level decoding of any conformant fragmentation with interleaved controls and abandonment is WS.Lemmas.ReaderDecodes. Tie: conformant streams from an independent Go encoder (all length classes, extreme keys, empty fragments, controls anywhere, deflate at several levels) fed through scripted transports with 6 chunkings and read with random programs (ReadMessage, NextReader+reads of 13 sizes, abandon, stale readers) on the real package and the model; every returned byte count compared.",
        level_note="Decompression is an environment answer (independent inflate of the same bytes); ReadJSON/JoinMessages over compressed messages are judged by the oracle only.",
        lean=["WS.Props.C03"],
        streams=[("rconf", 800, 16000), ("join", 200, 4000)],
        assumptions=[ASSUME_BUFIO, ASSUME_FLATE],
    ),
    "C04": P(
        technique="Lean 4 proof of the header decision logic over the full header alphabet + decide over the regenerated check list + differential correspondence",
        level_text="Proof: the reader's header check reports an error exactly for the violations the property lists (all b0/b1, both roles, negotiated or not, idle or mid-message); the accepted close codes are exactly 1000-1003, 1007-1013, 3000-4999 (table regenerated from conn.go); the list of checks recognised in today's advanceFrame equals the modelled one (decide). Tie: every violation class injected after random conformant prefixes, in both protocol states, on the real package and the model (errors, 1002 frames, handler logs compared exactly); oracle: nothing after the violation surfaces, same error twice, 1002 written.",
        level_note="RSV1 on control/continuation frames while negotiated is accepted by the code and is not in the property's list; a 1-byte close body is treated as no body.",
        lean=["WS.Props.C04"],
        streams=[("rviol", 800, 16000)],
        assumptions=[ASSUME_BUFIO],
    ),
    "C05": P(
        technique="Lean 4 proof over the bufio model (all cuts, all chunkings) + fault enumeration by differential correspondence",
        level_text="Proof at the source level: a header or skipped remainder that did not fully arrive is an error (EOF mapped to 1006), never a short result; delivered bytes are a prefix in order; the terminal error repeats. Tie/fault enumeration: random streams cut at random and boundary offsets with EOF / error / timeout, error alone or together with the last bytes, all chunkings, explicit read sizes; model predicts every result incl. bufio pass-through effects; oracle: a message reported complete lies wholly before the cut and is byte-identical; errors are permanent.",
        level_note="Finding F1 (EOF together with the last bytes of a non-final frame makes a truncated message look complete) is a genuine defect, listed in KNOWN_FINDINGS.txt with its signature.",
        lean=["WS.Props.C05"],
        streams=[("rcut", 800, 20000)],
        assumptions=[ASSUME_BUFIO],
    ),
    "C06": P(
        technique="Lean 4 theorems over the reader model (running sum with int64 wrap-around, all sources) + differential correspondence around the limit",
        level_text="Proof: the frame whose header makes the running sum exceed the limit is refused before any payload byte is consumed, with ErrReadLimit and a 1009 close frame; a message whose data frames sum to at most L is read in full whatever its fragmentation, interleaved controls and read sizes (limit_admits, from C03.read_message); a new text/binary frame restarts the sum, so what the application did with earlier messages does not matter (regression sentinel for F2); a top-bit length is refused the same way with a 1009 (F3). Tie: limits chosen at message size -1/0/+1, fragmentations crossing at any frame, abandon points, huge and negative 64-bit lengths (rfuzz), on the real package and the model.",
        level_note="Memory: the model has no allocator; the claim rests on the structure (Peek of at most 125 bytes, Read into the caller's buffer, Discard in 8 KiB steps) pinned by the make/index site inventory, plus a TotalAlloc bound measured in the fuzz stream.",
        lean=["WS.Props.C06"],
        streams=[("rlimit", 900, 16000), ("rfuzz", 400, 8000)],
        assumptions=[ASSUME_BUFIO],
    ),
    "C08": P(
        technique="Lean 4 theorems over the reader+writer model + differential correspondence",
        level_text="Proof: while a conformant message is read to its end the handler log grows by exactly the interleaved pings/pongs, in wire order, with exact payloads (any fragmentation, chunking, read sizes); a ping of 0..125 bytes is answered by one pong with the identical payload; a close with an accepted code and UTF-8 reason is handed to the handler once, echoed with the same code, and reported as CloseError{code, reason}; a handler error is permanent. Tie: controls at every position of 1-5-fragment messages, payload lengths {0,1,2,7,50,124,125}, all accepted close-code classes, default / recording / failing handlers, both roles; handler log and reply frames compared exactly; oracle: handler log = control frames in wire order, pongs = pings.",
        level_note="Default-handler theorems are stated for a client-side reader (unmasked peer frames); the server side differs only by unmasking (C01.mask_involutive) and is covered by correspondence.",
        lean=["WS.Props.C08"],
        streams=[("rconf", 900, 16000), ("rviol", 300, 6000)],
        assumptions=[ASSUME_BUFIO],
    ),
    "C09": P(
        technique="Lean 4 theorem over an interleaving semantics (invariant by induction over the step relation) + decide over generated skeletons + differential correspondence",
        level_text="Proof: in every reachable state of every interleaving of any number of threads of the lock protocol a close frame is last on the wire, nothing is appended after it and later writers fail (WS.Props.C09, Lean kernel). The protocol is tied to today's Conn.write/WriteControl by WellLocked decided over statement skeletons regenerated from /repo, and the sequential model is tied by differential runs (close sent at every step of random programs, transport faults).",
        level_note="Assumes Go channel/mutex atomicity as modelled; model of conn.go hand-written (tie: factgen skeletons + harness); flate is an environment answer.",
        lean=["WS.Props.C09"],
        streams=[("wclose", 800, 12000), ("wfault", 400, 6000)],
        assumptions=["Go channel send/receive on c.mu and sync.Mutex are the atomic actions of WS.Model.Sched (Go runtime, not verified)", ASSUME_FLATE],
    ),
    "C10": P(
        technique="Lean 4 invariant proofs over all write programs and all fault scripts + fault enumeration by differential correspondence",
        level_text="Proof: for every program, every fault script (error/timeout/short write at any transport call) and every environment answer the accepted bytes are whole frames followed by at most one incomplete write, after the first failure nothing reaches the transport and every later write (incl. Close of an open writer) fails; invalid requests change nothing; each frame is written as SetWriteDeadline(d) then Write(s) with d the connection's deadline, resp. WriteControl's argument. Tie: random programs x every transport-call index up to 12 x {error, timeout, short write}, exact transport call log compared.",
        level_note="Sequential model (one writer goroutine); concurrency is C09/C11.",
        lean=["WS.Props.C10"],
        streams=[("wfault", 1100, 20000), ("w", 300, 4000)],
        assumptions=[ASSUME_FLATE],
    ),
    "C20": P(
        technique="Lean 4 invariant proof over all write programs and fault scripts + differential correspondence with a poisoning pool",
        level_text="Proof: for every program (invalid requests, abandoned writers) and every transport fault script on a pooled connection, Get/Put are balanced, a buffer is held only while a message writer is live, at most one writer is live, nothing is held between messages and no nil buffer is ever put back. Tie: instrumented LIFO pool shared by 1-4 connections that poisons buffers on Put and checks the poison on Get; Get/Put log (with buffer identities) compared with the model exactly; wire of every sharing connection judged by the RFC decoder.",
        level_note="Theorem for connections without negotiated compression (with compression the invariant needs consistency of the flate answers; that part is covered by correspondence only). Concurrent sharing relies on the pool's own synchronisation (sync.Pool).",
        lean=["WS.Props.C20"],
        streams=[("w", 600, 10000), ("wfault", 400, 8000)],
        assumptions=[ASSUME_FLATE],
    ),
}

# properties not (yet) claimed
NOT_APPLICABLE = []
NOTES = "All checks: ./check <id> quick|thorough (VERIF_SEED honoured). Known findings: KNOWN_FINDINGS.txt. Design, trusted base and kill matrix: DESIGN.md."
_ids = [_json.loads(l)["id"] for l in open(_os.path.join(_os.path.dirname(_os.path.abspath(__file__)), "properties.jsonl"))]
for _i in _ids:
    if _i not in PROPS:
        NOT_APPLICABLE.append({"property_id": _i, "reason": "check under construction in this session (model and stream exist or are being built; not a limit of the technique)"})
