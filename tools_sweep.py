#!/usr/bin/env python3
"""Unchanged-tree sweep: run streams with several seeds and report diffs / violations / known hits.
usage: tools_sweep.py <n-per-run> <seed,seed,...> [stream ...]   (harness + wsmodel must be built)"""
import json, os, subprocess, sys, tempfile, concurrent.futures as cf
V = os.path.dirname(os.path.abspath(__file__))
def streams():
    out = subprocess.run([V + "/build/harness", "-list"], stdout=subprocess.PIPE, text=True).stdout
    return [l.split()[0] for l in out.splitlines() if l.strip()]
def one(args):
    st, seed, n = args
    f = tempfile.mktemp(suffix=".json", dir=V + "/build")
    env = dict(os.environ, GOMEMLIMIT="6GiB", VERIF_KNOWN=",".join(l.split("sig=")[1].split()[0] for l in open(V + "/KNOWN_FINDINGS.txt") if l.startswith("known:") and "sig=" in l))
    p = subprocess.run([V + "/build/harness", "-stream", st, "-seed", str(seed), "-n", str(n), "-out", f], cwd=V, env=env, stdout=subprocess.PIPE, stderr=subprocess.STDOUT, text=True, timeout=3000)
    try:
        j = json.load(open(f)); os.remove(f)
    except Exception as e:
        return st, seed, "CRASH rc=%s %s" % (p.returncode, p.stdout[-300:])
    d, v, k = j.get("diffs") or [], j.get("violations") or [], j.get("known") or []
    msg = "n=%s diffs=%d viol=%d known=%d" % (j.get("evaluations"), j.get("n_diffs", len(d)), j.get("n_violations", len(v)), len(k))
    if d: msg += "\n   DIFF " + json.dumps(d[0])[:600]
    if v: msg += "\n   VIOL " + json.dumps(v[0])[:600]
    return st, seed, msg
if __name__ == "__main__":
    n = int(sys.argv[1]); seeds = [int(x) for x in sys.argv[2].split(",")]
    sts = sys.argv[3:] or streams()
    jobs = [(s, sd, n) for s in sts for sd in seeds]
    with cf.ThreadPoolExecutor(8) as ex:
        for st, seed, msg in ex.map(one, jobs):
            print(st, seed, msg, flush=True)
