#!/usr/bin/env python3
"""Validate seeded changes and run the checks against them.

  tools_seeded.py validate          confirm every candidate under $MUT_ROOT/C*/out (default /tmp/mut2) in a scratch worktree of /repo HEAD:
                                    applies, builds, existing suite passes, demo fails with it and passes without it;
                                    keepers are copied to /verif/seeded/<id>/
  tools_seeded.py run [ids...]      for every kept change: git apply in /repo, run the owning check(s), git checkout -- .
                                    results in /verif/seeded/RESULTS.json
"""
import glob, json, os, re, shutil, subprocess, sys, time

V = os.path.dirname(os.path.abspath(__file__))
ENV = dict(os.environ, GOFLAGS="-mod=mod", GOPROXY="off", GOSUMDB="off", GOTOOLCHAIN="local")


def sh(cmd, cwd=None, timeout=900):
    p = subprocess.run(cmd, cwd=cwd, env=ENV, shell=isinstance(cmd, str), stdout=subprocess.PIPE, stderr=subprocess.STDOUT, text=True, errors="replace", timeout=timeout)
    return p.returncode, p.stdout


def validate(only=None):
    os.makedirs(os.path.join(V, "seeded"), exist_ok=True)
    wt = "/tmp/mv/wt"
    sh("git -C /repo worktree remove --force %s" % wt)
    shutil.rmtree("/tmp/mv", ignore_errors=True)
    os.makedirs("/tmp/mv", exist_ok=True)
    rc, out = sh("git -C /repo worktree add --detach %s HEAD" % wt)
    assert rc == 0, out
    report = []
    for metaf in sorted(glob.glob(os.environ.get("MUT_ROOT", "/tmp/mut2") + "/C*/out/meta*.json")):
        prop = metaf.split("/")[3]
        k = re.search(r"meta(\d+)\.json", metaf).group(1)
        sid = f"{prop}-{k}"
        if only and sid not in only:
            continue
        d = os.path.dirname(metaf)
        patch, demo = f"{d}/patch{k}.diff", f"{d}/demo{k}_test.go"
        rec = {"id": sid, "property": prop}
        try:
            meta = json.load(open(metaf))
        except Exception as e:
            meta = {"summary": "unparsable meta: %s" % e}
        rec["summary"] = meta.get("summary", "")
        rec["needs"] = meta.get("needs", "")
        sh("git reset --hard -q && git clean -fdq", cwd=wt)
        rc, out = sh(f"git apply {patch} || git apply -3 {patch}", cwd=wt)
        if rc != 0:
            rec["status"] = "does-not-apply-on-HEAD"
            rec["detail"] = out[-400:]
            report.append(rec); print(sid, rec["status"]); continue
        rc, out = sh("go build ./... && go vet . >/dev/null 2>&1; go build ./...", cwd=wt)
        if rc != 0:
            rec["status"] = "does-not-build"; report.append(rec); print(sid, rec["status"]); continue
        ok = False
        for attempt in range(3):   # the suite's TLS/proxy tests are flaky under load
            rc, out = sh("go test -count=1 . 2>&1 | tail -5", cwd=wt)
            if "ok " in out and "FAIL" not in out:
                ok = True; break
        if not ok:
            rec["status"] = "existing-suite-fails"; rec["detail"] = out[-600:]
            report.append(rec); print(sid, rec["status"]); continue
        shutil.copy(demo, f"{wt}/demo_verif_test.go")
        rc_with, out_with = sh("go test -count=1 -run TestVerifDemo . 2>&1 | tail -15", cwd=wt)
        fails_with = "FAIL" in out_with
        sh(f"git apply -R {patch}", cwd=wt)
        rc_wo, out_wo = sh("go test -count=1 -run TestVerifDemo . 2>&1 | tail -15", cwd=wt)
        passes_without = "ok " in out_wo and "FAIL" not in out_wo
        os.remove(f"{wt}/demo_verif_test.go")
        if fails_with and passes_without:
            rec["status"] = "kept"
            dst = os.path.join(V, "seeded", sid)
            os.makedirs(dst, exist_ok=True)
            shutil.copy(patch, f"{dst}/patch.diff")
            shutil.copy(demo, f"{dst}/demo_test.go")
            meta.update({"id": sid, "property": prop,
                         "confirmed": {"base": sh("git -C /repo rev-parse --short HEAD")[1].strip(),
                                       "commands": ["git apply patch.diff", "go build ./...", "go test -count=1 .  (existing suite: passes)",
                                                    "cp demo_test.go demo_verif_test.go; go test -count=1 -run TestVerifDemo .  (fails with the change, passes without)"],
                                       "demo_with_change": out_with[-300:], "demo_without_change": out_wo[-120:]}})
            json.dump(meta, open(f"{dst}/meta.json", "w"), indent=1)
        else:
            rec["status"] = "demo-not-discriminating"
            rec["detail"] = f"fails_with={fails_with} passes_without={passes_without}\n{out_with[-300:]}\n---\n{out_wo[-300:]}"
        report.append(rec); print(sid, rec["status"])
    sh("git reset --hard -q && git clean -fdq", cwd=wt)
    sh("git -C /repo worktree remove --force %s" % wt)
    shutil.rmtree("/tmp/mv", ignore_errors=True)
    vf = os.path.join(V, "seeded", "VALIDATION.json")
    if only and os.path.exists(vf):
        old = [r for r in json.load(open(vf)) if r["id"] not in only]
        report = sorted(old + report, key=lambda r: r["id"])
    json.dump(report, open(vf, "w"), indent=1)


def run(ids):
    sys.path.insert(0, V)
    from props import PROPS
    resf = os.path.join(V, "seeded", "RESULTS.json")
    results = json.load(open(resf)) if os.path.exists(resf) else {}
    dirs = sorted(glob.glob(os.path.join(V, "seeded", "C*-*")))
    for d in dirs:
        sid = os.path.basename(d)
        if ids and sid not in ids and sid.split("-")[0] not in ids:
            continue
        prop = sid.split("-")[0]
        assert sh("git -C /repo status --porcelain")[1].strip() == "", "/repo not clean"
        rc, out = sh(f"git -C /repo apply {d}/patch.diff")
        if rc != 0:
            results[sid] = {"status": "patch does not apply", "detail": out[-300:]}
            continue
        # the check rewrites evidence/<prop>.json on every run; keep the record of the unchanged tree
        evf = os.path.join(V, "evidence", prop + ".json")
        evsave = open(evf).read() if os.path.exists(evf) else None
        try:
            t0 = time.time()
            props = [prop] if prop in PROPS else []
            rec = {"checks": {}}
            for p in props:
                rc, out = sh([os.path.join(V, "check"), p, "quick"], cwd=V, timeout=1800)
                lines = [l for l in out.splitlines() if l.startswith("VIOLATION") or l.startswith("KNOWN-FINDING") or l.startswith(p + " ")]
                rec["checks"][p] = {"exit": rc, "lines": lines[-4:]}
                # keep the first replay for the record
                m = re.search(r"replay=(\S+)", "\n".join(lines))
                if m and os.path.exists(m.group(1)):
                    try:
                        j = json.load(open(m.group(1)))
                        rec["checks"][p]["replay_summary"] = {k: (str(v)[:400]) for k, v in j.items() if k in ("what", "no_longer_checks", "details", "stream", "seed", "idx", "signature")}
                    except Exception:
                        pass
            rec["caught_by_owner"] = any(c["exit"] != 0 for c in rec["checks"].values())
            rec["wall_s"] = round(time.time() - t0, 1)
            results[sid] = rec
            print(sid, "caught" if rec["caught_by_owner"] else "MISSED", {p: c["lines"][:1] for p, c in rec["checks"].items()})
        finally:
            sh("git -C /repo checkout -- .")
            if evsave is not None:
                open(evf, "w").write(evsave)
        json.dump(results, open(resf, "w"), indent=1)


if __name__ == "__main__":
    if sys.argv[1] == "validate":
        validate(sys.argv[2:] or None)
    else:
        run(sys.argv[2:])
