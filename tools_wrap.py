#!/usr/bin/env python3
"""helper: print a wrapper theorem for a lemma (same statement, proof by the lemma).
usage: tools_wrap.py <lemma file> <namespace> <theorem name> [new name]"""
import re, sys
src = open(sys.argv[1]).read()
ns, name = sys.argv[2], sys.argv[3]
new = sys.argv[4] if len(sys.argv) > 4 else name
m = re.search(r"^theorem\s+" + re.escape(name) + r"\b(.*?):=\s*by\b", src, flags=re.S | re.M)
if not m:
    m = re.search(r"^theorem\s+" + re.escape(name) + r"\b(.*?):=\n", src, flags=re.S | re.M)
sig = m.group(1).rstrip()
print(f"theorem {new}{sig} := by\n  first | exact {ns}.{name} .. | (apply {ns}.{name} <;> assumption)\n")
