package main

import (
	"crypto/sha256"
	"encoding/json"
	"flag"
	"fmt"
	"math/rand"
	"os"
	"sort"
	"strings"
	"time"
)

// A stream produces scenarios: a script for the model (with environment
// answers), the implementation's transcript, and the verdicts of the
// independent property oracles on the implementation's observations.
type streamFn func(seed int64, idx int) *scenario

var streams = map[string]streamFn{}

type diffRec struct {
	Seed   int64    `json:"seed"`
	Idx    int      `json:"idx"`
	Line   int      `json:"line"`
	Script string   `json:"script_line"`
	Model  string   `json:"model"`
	Impl   string   `json:"impl"`
	Full   []string `json:"script"`
	ImplT  []string `json:"impl_transcript"`
	ModelT []string `json:"model_transcript"`
}

type violRec struct {
	Seed   int64    `json:"seed"`
	Idx    int      `json:"idx"`
	What   []string `json:"what"`
	Script []string `json:"script"`
	ImplT  []string `json:"impl_transcript"`
}

type result struct {
	Stream      string            `json:"stream"`
	Seed        int64             `json:"seed"`
	Evaluations int               `json:"evaluations"`
	Distinct    int               `json:"distinct_nontrivial"`
	Lines       int               `json:"lines_compared"`
	Samples     []json.RawMessage `json:"samples"`
	Diffs       []diffRec         `json:"diffs"`
	Violations  []violRec         `json:"violations"`
	Known       map[string]string `json:"known"`
	KnownCount  map[string]int    `json:"known_count"`
	Tags        map[string]int    `json:"tags"`
	WallS       float64           `json:"wall_s"`
	ModelErr    string            `json:"model_error,omitempty"`
}

func trunc(s string, n int) string {
	if len(s) > n {
		return s[:n] + "…"
	}
	return s
}

// stripH removes handler-invocation events from a result line
func stripH(l string) string {
	i := strings.Index(l, " | ")
	if i < 0 {
		return l
	}
	var keep []string
	for _, e := range strings.Split(l[i+3:], " ") {
		if !strings.HasPrefix(e, "H:") {
			keep = append(keep, e)
		}
	}
	if len(keep) == 0 {
		return l[:i]
	}
	return l[:i] + " | " + strings.Join(keep, " ")
}

// scenarioTimeout bounds one scenario (ordinary ones take milliseconds to a few seconds)
const scenarioTimeout = 240 * time.Second

func main() {
	stream := flag.String("stream", "", "stream name")
	n := flag.Int("n", 100, "number of scenarios")
	seed := flag.Int64("seed", 1, "seed")
	out := flag.String("out", "", "result json")
	noModel := flag.Bool("nomodel", false, "skip the model (oracle only)")
	replay := flag.String("replay", "", "re-run one scenario: seed:idx")
	maxKeep := flag.Int("keep", 5, "max diffs/violations kept with full transcripts")
	list := flag.Bool("list", false, "list streams")
	flag.Parse()
	if *list {
		var names []string
		for k := range streams {
			names = append(names, k)
		}
		sort.Strings(names)
		fmt.Println(strings.Join(names, "\n"))
		return
	}
	fn, ok := streams[*stream]
	if !ok {
		fmt.Fprintf(os.Stderr, "unknown stream %q\n", *stream)
		os.Exit(2)
	}
	start := time.Now()
	res := &result{Stream: *stream, Seed: *seed, Known: map[string]string{}, KnownCount: map[string]int{}, Tags: map[string]int{}}
	distinct := map[[32]byte]bool{}

	lo, hi := 0, *n
	if *replay != "" {
		var s int64
		var i int
		fmt.Sscanf(*replay, "%d:%d", &s, &i)
		*seed = s
		lo, hi = i, i+1
	}

	const batch = 40
	hung := false
	for b := lo; b < hi && !hung; b += batch {
		var scs []*scenario
		var all []string
		for i := b; i < b+batch && i < hi && !hung; i++ {
			if *out != "" {
				// breadcrumb: if the process dies inside this scenario (fatal error, out of memory, kill),
				// the check reports this scenario as the failing input
				os.WriteFile(*out+".progress", []byte(fmt.Sprintf("%s:%d:%d", *stream, *seed, i)), 0o644)
			}
			// watchdog: a scenario that does not come back (a lost lock token, a loop that stops
			// consuming its input) is a violation with this scenario as the replay
			scCh := make(chan *scenario, 1)
			go func(i int) { scCh <- fn(*seed, i) }(i)
			var sc *scenario
			select {
			case sc = <-scCh:
			case <-time.After(scenarioTimeout):
				sc = &scenario{kind: *stream, seed: *seed}
				sc.violate("the scenario did not finish within %v: a call into the package never returned (deadlock or endless loop)", scenarioTimeout)
				hung = true
			}
			if sc == nil {
				continue
			}
			scs = append(scs, sc)
			all = append(all, sc.script...)
			res.Evaluations++
			h := sha256.Sum256([]byte(strings.Join(sc.script, "\n")))
			if len(sc.script) >= 1 && !distinct[h] {
				distinct[h] = true
			}
			for k, v := range sc.tags {
				res.Tags[k] += v
			}
			for k, v := range sc.known {
				if _, ok := res.Known[k]; !ok {
					res.Known[k] = v
				}
				res.KnownCount[k]++
			}
			if len(sc.violations) > 0 {
				v := violRec{Seed: *seed, Idx: i, What: sc.violations}
				if len(res.Violations) < *maxKeep {
					v.Script = sc.script
					v.ImplT = sc.impl
				}
				res.Violations = append(res.Violations, v)
			}
			if len(res.Samples) < 3 && len(sc.script) >= 1 {
				var show []string
				for j, l := range sc.script {
					if j >= 12 {
						show = append(show, "…")
						break
					}
					show = append(show, trunc(l, 160)+"  ->  "+trunc(sc.impl[j], 160))
				}
				js, _ := json.Marshal(map[string]interface{}{"seed": *seed, "idx": i, "lines": show})
				res.Samples = append(res.Samples, js)
			}
		}
		if *noModel || len(all) == 0 {
			continue
		}
		mout, err := runModel(all)
		if err != nil {
			res.ModelErr = err.Error()
			break
		}
		if len(mout) != len(all) {
			res.ModelErr = fmt.Sprintf("model produced %d lines for %d script lines", len(mout), len(all))
			break
		}
		off := 0
		for k, sc := range scs {
			m := mout[off : off+len(sc.script)]
			off += len(sc.script)
			for j := range sc.script {
				res.Lines++
				ml, il := m[j], sc.impl[j]
				if sc.quietH {
					ml, il = stripH(ml), stripH(il)
				}
				if !lineMatch(ml, il) {
					d := diffRec{Seed: *seed, Idx: b + k, Line: j, Script: trunc(sc.script[j], 2000), Model: trunc(m[j], 2000), Impl: trunc(sc.impl[j], 2000)}
					if len(res.Diffs) < *maxKeep {
						d.Full = sc.script
						d.ImplT = sc.impl
						d.ModelT = m
					}
					res.Diffs = append(res.Diffs, d)
					break
				}
			}
		}
	}
	res.Distinct = len(distinct)
	res.WallS = time.Since(start).Seconds()
	js, _ := json.MarshalIndent(res, "", " ")
	if *out != "" {
		os.WriteFile(*out, js, 0o644)
		os.Remove(*out + ".progress")
	} else {
		os.Stdout.Write(js)
	}
	fmt.Fprintf(os.Stderr, "stream=%s evaluations=%d distinct=%d lines=%d diffs=%d violations=%d known=%d modelerr=%q wall=%.1fs\n",
		*stream, res.Evaluations, res.Distinct, res.Lines, len(res.Diffs), len(res.Violations), len(res.Known), res.ModelErr, res.WallS)
}

func init() {
	// writer streams
	streams["w"] = func(seed int64, idx int) *scenario {
		return runWriterScenario(seed*1000003+int64(idx), wOpts{invalid: true, prepared: true, compress: true, multi: idx%4 == 0, bigPayload: idx%8 == 0}, -1, "")
	}
	streams["wclose"] = func(seed int64, idx int) *scenario {
		return runWriterScenario(seed*1000003+int64(idx), wOpts{closes: true, invalid: true, prepared: true, compress: true, multi: idx%4 == 0}, -1, "")
	}
	streams["rconf"] = func(seed int64, idx int) *scenario {
		return runReaderScenario(seed*1000003+int64(idx), rOpts{mode: "conform", compress: true, handlers: true, lenient: idx%5 == 0, smallOnly: idx%8 != 0})
	}
	streams["rviol"] = func(seed int64, idx int) *scenario {
		return runReaderScenario(seed*1000003+int64(idx), rOpts{mode: "violate", compress: idx%3 == 0, handlers: idx%2 == 0, smallOnly: true, wfaults: idx%9 == 0})
	}
	streams["rcut"] = func(seed int64, idx int) *scenario {
		return runReaderScenario(seed*1000003+int64(idx), rOpts{mode: "cut", together: true, handlers: idx%4 == 0, smallOnly: idx%6 != 0})
	}
	streams["rlimit"] = func(seed int64, idx int) *scenario {
		return runReaderScenario(seed*1000003+int64(idx), rOpts{mode: "limit", handlers: idx%4 == 0, smallOnly: true})
	}
	streams["rfuzz"] = func(seed int64, idx int) *scenario {
		if idx%300 == 299 {
			return runManyEmptyJoinScenario(seed*1000003 + int64(idx))
		}
		return runFuzzScenario(seed*1000003 + int64(idx))
	}
	streams["hsfault"] = func(seed int64, idx int) *scenario { return runHsFaultScenario(seed*1000003+int64(idx), idx) }
	streams["glue"] = func(seed int64, idx int) *scenario { return runGlueScenario(seed*1000003 + int64(idx)) }
	streams["nego"] = func(seed int64, idx int) *scenario { return runNegoScenario(seed*1000003+int64(idx), idx) }
	// the cell space (4 proxies x 2 schemes x 8 dial-function sets x 4 credentials x 3 certificates x
	// InsecureSkipVerify off/on = 1536 indexes, about half of them runnable) is walked with a stride
	// coprime to its size, so that any run length samples every dimension and 1536 scenarios are all of it
	streams["matrix"] = func(seed int64, idx int) *scenario { return runMatrixScenario(seed, (idx*37+int(seed%7)*61)%1536) }
	streams["sched"] = func(seed int64, idx int) *scenario {
		if idx%8 == 7 {
			sd := seed*1000003 + int64(idx)
			return runSchedBlockedWriterReader(sd, rand.New(rand.NewSource(sd)), (idx/8)%4)
		}
		if idx%16 == 11 {
			sd := seed*1000003 + int64(idx)
			return runSchedSharedPrepared(sd, rand.New(rand.NewSource(sd)), (idx/16)%2 == 1)
		}
		if idx%16 == 3 {
			sd := seed*1000003 + int64(idx)
			return runSchedCloseDuringWrite(sd, rand.New(rand.NewSource(sd)))
		}
		return runSchedScenario(seed*1000003 + int64(idx))
	}
	streams["prep"] = func(seed int64, idx int) *scenario {
		return runWriterScenario(seed*1000003+int64(idx), wOpts{prepared: true, preparedHeavy: true, compress: true, multi: true, closes: idx%6 == 0, invalid: idx%3 == 0, bigPayload: idx%8 == 0}, -1, "")
	}
	streams["wf8"] = func(seed int64, idx int) *scenario {
		return runWriterScenario(seed*1000003+int64(idx), wOpts{prepared: true, preparedHeavy: idx%2 == 0, compress: true, allowF8: true, invalid: idx%3 == 0}, -1, "")
	}
	streams["dfuzz"] = func(seed int64, idx int) *scenario { return runDialFuzzScenario(seed*1000003 + int64(idx)) }
	streams["conc"] = func(seed int64, idx int) *scenario { return runConcScenario(seed*1000003 + int64(idx)) }
	streams["pair"] = func(seed int64, idx int) *scenario { return runPairScenario(seed*1000003 + int64(idx)) }
	streams["join"] = func(seed int64, idx int) *scenario { return runJoinScenario(seed*1000003 + int64(idx)) }
	streams["zcut"] = func(seed int64, idx int) *scenario { return runZCutScenario(seed*1000003 + int64(idx)) }
	streams["srv"] = func(seed int64, idx int) *scenario { return runServerScenario(seed*1000003+int64(idx), false) }
	streams["origin"] = func(seed int64, idx int) *scenario { return runServerScenario(seed*1000003+int64(idx), true) }
	streams["cli"] = func(seed int64, idx int) *scenario { return runClientScenario(seed*1000003 + int64(idx)) }
	streams["unit"] = func(seed int64, idx int) *scenario { return runUnitScenario(seed*1000003 + int64(idx)) }
	streams["wfault"] = func(seed int64, idx int) *scenario {
		kinds := []string{"error", "timeout", "short"}
		return runWriterScenario(seed*1000003+int64(idx/36), wOpts{faults: true, closes: idx%5 == 0, invalid: true, prepared: true, compress: true, multi: idx%7 == 0}, (idx%36)/3, kinds[idx%3])
	}
}
