package main

import (
	"bufio"
	"bytes"
	"fmt"
	"os"
	"os/exec"
	"strings"
)

var modelBin = "/verif/lean/.lake/build/bin/wsmodel"

// runModel feeds the script lines to the Lean model driver and returns its output lines.
func runModel(lines []string) ([]string, error) {
	if b := os.Getenv("WSMODEL"); b != "" {
		modelBin = b
	}
	cmd := exec.Command(modelBin)
	var in bytes.Buffer
	for _, l := range lines {
		in.WriteString(l)
		in.WriteByte('\n')
	}
	cmd.Stdin = &in
	var out, errb bytes.Buffer
	cmd.Stdout = &out
	cmd.Stderr = &errb
	if err := cmd.Run(); err != nil {
		return nil, fmt.Errorf("wsmodel: %v: %s", err, errb.String())
	}
	var res []string
	sc := bufio.NewScanner(&out)
	sc.Buffer(make([]byte, 1<<20), 1<<28)
	for sc.Scan() {
		res = append(res, sc.Text())
	}
	return res, nil
}

// lineMatch compares a model line with an implementation line. A token "*"
// in the model line after "err" matches any error name.
func lineMatch(model, impl string) bool {
	if model == impl {
		return true
	}
	mt := strings.Split(model, " ")
	it := strings.Split(impl, " ")
	if len(mt) != len(it) {
		return false
	}
	for i := range mt {
		if mt[i] == it[i] {
			continue
		}
		if mt[i] == "*" {
			continue
		}
		return false
	}
	return true
}
