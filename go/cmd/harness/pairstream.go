package main

import (
	"bytes"
	"fmt"
	"math/rand"
	"strings"

	"github.com/gorilla/websocket"
)

// pair stream: a writer connection's wire is fed, re-chunked, into a reader connection of the
// opposite role; both sides also run on the model. Oracle: messages sent = messages delivered.
func runPairScenario(seed int64) *scenario {
	r := rand.New(rand.NewSource(seed))
	sc := &scenario{kind: "pair", seed: seed}
	g := &wGen{rng: r, sc: sc, log: &evlog{}, opt: wOpts{compress: true, prepared: true, bigPayload: seed%16 == 0}}
	g.pool = &tPool{log: g.log}
	keys := make([]byte, 4*(1+r.Intn(4)))
	r.Read(keys)
	g.ks = &keySource{keys: keys}
	restore := websocket.VerifSetMaskRand(g.ks)
	defer restore()
	sc.emit("reset keys="+hx(keys)+" caps="+readAllCapsStr, "ok")
	wc := g.newConn("c0")
	nops := 3 + r.Intn(12)
	for i := 0; i < nops; i++ {
		if g.safeStep() {
			return sc
		}
	}
	// close whatever writer is still open so that the stream ends at a message boundary
	if wc.cur != nil && !wc.cur.closed {
		for h, m := range wc.msgs {
			if m == wc.cur {
				g.opClose(wc, h)
			}
		}
	}
	sc.emit("wire c0", "ok "+hx(wc.t.wire))
	writerOracle(sc, wc)
	if wc.errSeen {
		return sc
	}
	// ---- reader side
	stream := append([]byte(nil), wc.t.wire...)
	frames, _, _ := rfcDecode(stream)
	msgs, _ := rfcMessages(frames)
	rt := newTConn(g.log)
	rg := &rGen{rng: r, frames: nil}
	// frame-aligned info is not needed for the chunker except mode 3; give it the frame ends
	for _, f := range frames {
		rg.frames = append(rg.frames, gFrame{end: f.end})
	}
	rt.chunks = rg.chunking(stream)
	rbuf := rbufChoices[r.Intn(len(rbufChoices))]
	rc := websocket.VerifNewConn(rt, !wc.srv, rbuf, 64, nil, nil, nil)
	if wc.nego {
		websocket.VerifSetCompression(rc, nil)
	}
	logDefaultHandlers(rc, g.log)
	sc.emit(fmt.Sprintf("conn r0 srv=%d wbuf=64 pool=0 nego=%d rbuf=%d", b2i(!wc.srv), b2i(wc.nego), rbuf), "ok")
	var parts []string
	for _, c := range rt.chunks {
		parts = append(parts, hx(c))
	}
	cs := strings.Join(parts, ",")
	if cs == "" {
		cs = "-"
	}
	sc.emit(fmt.Sprintf("feed r0 %s term=eof tog=0", cs), "ok")
	var want []apiMsg
	for _, m := range wc.sent {
		if m.t == 1 || m.t == 2 {
			want = append(want, m)
		}
	}
	for i := 0; ; i++ {
		t, p, err := rc.ReadMessage()
		env := ""
		if i < len(msgs) && msgs[i].compressed {
			env = fmt.Sprintf(" z=%s plain=%s", hx(msgs[i].raw), hx(msgs[i].payload))
		}
		evs := g.log.take()
		tail := ""
		if len(evs) > 0 {
			tail = " | " + joinEvs(evs)
		}
		if err != nil {
			sc.emit("rm r0"+env, "err "+errName(err)+tail)
			if i != len(want) {
				sc.violate("peer delivered %d messages, %d were sent; then %v", i, len(want), err)
			}
			break
		}
		sc.emit("rm r0"+env, fmt.Sprintf("ok %d %s", t, hx(p))+tail)
		if i >= len(want) {
			sc.violate("peer delivered an extra message %d (type %d, %d bytes)", i, t, len(p))
			break
		}
		if want[i].t != t || !bytes.Equal(want[i].payload, p) {
			sc.violate("message %d arrived as type %d / %d bytes, sent as type %d / %d bytes", i, t, len(p), want[i].t, len(want[i].payload))
		}
		if i > 200 {
			break
		}
	}
	return sc
}

// join stream: JoinMessages over uncompressed conformant streams
func runJoinScenario(seed int64) *scenario {
	r := rand.New(rand.NewSource(seed))
	sc := &scenario{kind: "join", seed: seed}
	g := &rGen{rng: r, sc: sc, log: &evlog{}, opt: rOpts{mode: "conform", smallOnly: true, handlers: seed%3 == 0}}
	ks := &keySource{keys: []byte{1, 2, 3, 4}}
	restore := websocket.VerifSetMaskRand(ks)
	defer restore()
	sc.emit("reset keys="+hx(ks.keys)+" caps="+readAllCapsStr, "ok")
	g.setup()
	term := []string{"", "\n", "--sep--"}[r.Intn(3)]
	jr := websocket.JoinMessages(g.c, term)
	var got []byte
	var lastErr error
	for i := 0; i < 400; i++ {
		k := readSizes[r.Intn(len(readSizes)-3)]
		buf := make([]byte, k)
		n, err := jr.Read(buf)
		got = append(got, buf[:n]...)
		sc.emit(fmt.Sprintf("jn c0 %s %d", hx([]byte(term)), k), g.line(hx(buf[:n])+" "+errName(err)))
		if err != nil {
			lastErr = err
			break
		}
	}
	// oracle: concatenation of (payload ++ term) of the complete messages, as a prefix relation
	var want []byte
	for _, m := range g.msgs {
		want = append(want, m.plain...)
		want = append(want, term...)
	}
	if !bytes.HasPrefix(want, got) {
		sc.violate("JoinMessages delivered bytes that are not a prefix of payload1+term+payload2+term…")
	}
	_ = lastErr
	return sc
}
