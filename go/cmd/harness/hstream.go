package main

import (
	"bufio"
	"bytes"
	"context"
	"crypto/sha1"
	"encoding/base64"
	"fmt"
	"io"
	"math/rand"
	"net"
	"net/http"
	"net/http/cookiejar"
	"net/url"
	"sort"
	"strings"
	"unsafe"

	"github.com/gorilla/websocket"
)

func sliceAddr(b []byte) uintptr {
	if cap(b) == 0 {
		return 0
	}
	return uintptr(unsafe.Pointer(&b[:1][0]))
}

// ---------------------------------------------------------------------------
// Handshake streams: Upgrader.Upgrade on a fake hijackable ResponseWriter,
// Dialer.Dial over a scripted conn, and the pure helpers through hooks.
// ---------------------------------------------------------------------------

func hexHdrs(h map[string][]string, order []string) string {
	if h == nil {
		return "none"
	}
	if len(order) == 0 {
		for k := range h {
			order = append(order, k)
		}
		sort.Strings(order)
	}
	var parts []string
	for _, k := range order {
		var vs []string
		for _, v := range h[k] {
			vs = append(vs, hx([]byte(v)))
		}
		parts = append(parts, hx([]byte(k))+":"+strings.Join(vs, ","))
	}
	if len(parts) == 0 {
		return "_"
	}
	return strings.Join(parts, ";")
}

func hexList(xs []string) string {
	if len(xs) == 0 {
		return "_"
	}
	var p []string
	for _, x := range xs {
		p = append(p, hx([]byte(x)))
	}
	return strings.Join(p, ",")
}

// independent RFC 2616 / 7230 list handling for the oracles
func owsTrim(s string) string { return strings.Trim(s, " \t") }

func isTok(s string) bool {
	if s == "" {
		return false
	}
	for i := 0; i < len(s); i++ {
		c := s[i]
		if c <= 32 || c >= 127 || strings.IndexByte("()<>@,;:\\\"/[]?={}", c) >= 0 {
			return false
		}
	}
	return true
}

func asciiLower(s string) string {
	b := []byte(s)
	for i, c := range b {
		if 'A' <= c && c <= 'Z' {
			b[i] = c + 32
		}
	}
	return string(b)
}

// listContains: grammar-level membership; wellFormed: every element of every line is a token
func listContains(lines []string, tok string) (contains, wellFormed bool) {
	wellFormed = true
	for _, l := range lines {
		for _, e := range strings.Split(l, ",") {
			e = owsTrim(e)
			if !isTok(e) {
				wellFormed = false
				continue
			}
			if asciiLower(e) == asciiLower(tok) {
				contains = true
			}
		}
	}
	return
}

func acceptFor(key string) string {
	h := sha1.Sum([]byte(key + "258EAFA5-E914-47DA-95CA-C5AB0DC85B11"))
	return base64.StdEncoding.EncodeToString(h[:])
}

// ---- fake ResponseWriter ---------------------------------------------------

type fakeRW struct {
	hdr      http.Header
	status   int
	body     bytes.Buffer
	hijacked bool
	hjErr    bool
	conn     *TConn
	brw      *bufio.ReadWriter
}

func (w *fakeRW) Header() http.Header { return w.hdr }
func (w *fakeRW) Write(b []byte) (int, error) {
	if w.status == 0 {
		w.status = 200
	}
	return w.body.Write(b)
}
func (w *fakeRW) WriteHeader(s int) {
	if w.status == 0 {
		w.status = s
	}
}
func (w *fakeRW) Hijack() (net.Conn, *bufio.ReadWriter, error) {
	if w.hjErr {
		return nil, nil, fmt.Errorf("hijack refused")
	}
	w.hijacked = true
	return w.conn, w.brw, nil
}

type prefixThenConn struct {
	pre  []byte
	conn net.Conn
}

func (p *prefixThenConn) Read(b []byte) (int, error) {
	if len(p.pre) > 0 {
		n := copy(b, p.pre)
		p.pre = p.pre[n:]
		return n, nil
	}
	return p.conn.Read(b)
}

// ---- generators --------------------------------------------------------------

type hGen struct {
	rng *rand.Rand
	sc  *scenario
}

func (g *hGen) pick(xs ...string) string { return xs[g.rng.Intn(len(xs))] }

func (g *hGen) caseVar(s string) string {
	b := []byte(s)
	switch g.rng.Intn(4) {
	case 0:
		return strings.ToUpper(s)
	case 1:
		return strings.ToLower(s)
	case 2:
		for i := range b {
			if g.rng.Intn(2) == 0 {
				b[i] = byte(strings.ToUpper(string(b[i]))[0])
			}
		}
		return string(b)
	}
	return s
}

func (g *hGen) ows() string { return g.pick("", "", " ", "  ", "\t", " \t ") }

// a token list that should (or should not) contain tok
func (g *hGen) tokenList(tok string, want bool) []string {
	r := g.rng
	others := []string{"keep-alive", "close", "foo", "h2c", "x" + tok, tok + "s", tok + "-x", "TE", "13a", "8", "7"}
	nlines := 1 + r.Intn(3)
	var lines []string
	place := r.Intn(nlines)
	for i := 0; i < nlines; i++ {
		var elems []string
		n := r.Intn(3)
		for j := 0; j < n; j++ {
			elems = append(elems, others[r.Intn(len(others))])
		}
		if want && i == place {
			pos := r.Intn(len(elems) + 1)
			elems = append(elems[:pos], append([]string{g.caseVar(tok)}, elems[pos:]...)...)
		}
		if len(elems) == 0 {
			if nlines > 1 || !want {
				elems = []string{others[r.Intn(len(others))]}
			}
		}
		var sb strings.Builder
		for j, e := range elems {
			if j > 0 {
				sb.WriteString(g.ows() + "," + g.ows())
			}
			sb.WriteString(e)
		}
		l := g.ows() + sb.String() + g.ows()
		// occasional malformed lists
		switch r.Intn(60) {
		case 0:
			l = "," + l
		case 1:
			l = l + ",,"
		case 2:
			l = strings.Replace(l, ",", ";", 1)
		case 3:
			l = "\"" + l + "\""
		case 4:
			l = l + " " + tok
		}
		lines = append(lines, l)
	}
	return lines
}

func (g *hGen) key() string {
	r := g.rng
	n := 16
	switch r.Intn(16) {
	case 0:
		n = []int{0, 1, 15, 17, 20, 32}[r.Intn(6)]
	}
	b := make([]byte, n)
	r.Read(b)
	k := base64.StdEncoding.EncodeToString(b)
	switch r.Intn(50) {
	case 0:
		k = strings.TrimRight(k, "=")
	case 1:
		k = k + "="
	case 2:
		k = " " + k
	case 3:
		k = strings.Replace(k, "A", "*", 1) + "*"
	case 4:
		k = k[:len(k)/2] + "\n" + k[len(k)/2:]
	case 5:
		k = base64.URLEncoding.EncodeToString(append(b, 0xfb, 0xff))
	}
	return k
}

func (g *hGen) extOffer() []string {
	r := g.rng
	opts := []string{
		"permessage-deflate",
		"permessage-deflate; client_max_window_bits",
		"permessage-deflate; server_no_context_takeover; client_no_context_takeover",
		"foo, permessage-deflate",
		"foo; a=1, bar; b=\"x,y\", permessage-deflate; client_max_window_bits=10",
		"x-webkit-deflate-frame",
		"permessage-deflatex",
		"PERMESSAGE-DEFLATE",
		"permessage-deflate; x=\"unterminated",
		"foo; bar=\"a\\\"b\"; baz, permessage-deflate",
		// permessage-deflate appears only inside quoted parameter values
		"foo; bar=\"a\\\\\"; baz=\", permessage-deflate, y=\"",
		"foo; bar=\", permessage-deflate, \"",
		"foo; bar=\"x\\\", permessage-deflate\"",
		// optional white space around separators and parameter names
		"permessage-deflate ; server_no_context_takeover ; client_no_context_takeover",
		"foo ,\tpermessage-deflate\t;\tclient_max_window_bits = 10",
		";permessage-deflate",
		"foo bar, permessage-deflate",
		"permessage-deflate;",
		"",
	}
	n := r.Intn(3)
	var out []string
	for i := 0; i < n; i++ {
		out = append(out, opts[r.Intn(len(opts))])
	}
	return out
}

var evilValues = []string{"v", "a b", "x\r\nInjected: 1", "tab\there", "\x00nul", "bell\x07", "ü", "line1\nline2", "cr\rend", "", " lead", "trail ",
	// multi-byte characters whose code points end in 0x0D / 0x0A / 0x00 (a scrub that works on runes and truncates would emit CR LF)
	"x\u010d\u010aInjected: 1", "\u010a", "a\u020db", "\u0100", "\xc4", "\xc4\x8a\xff"}

func runServerScenario(seed int64, originFocus bool) *scenario {
	r := rand.New(rand.NewSource(seed))
	sc := &scenario{kind: "srv", seed: seed}
	g := &hGen{rng: r, sc: sc}
	log := &evlog{}

	valid := r.Intn(3) > 0 // start from a valid handshake, then maybe break one thing
	breakWhat := -1
	if !valid {
		breakWhat = r.Intn(7)
	}
	hdr := http.Header{}
	order := []string{}
	set := func(k string, vs []string) {
		if vs == nil {
			return
		}
		hdr[k] = vs
		order = append(order, k)
	}
	set("Connection", g.tokenList("upgrade", breakWhat != 0))
	set("Upgrade", g.tokenList("websocket", breakWhat != 1))
	method := "GET"
	if breakWhat == 2 {
		method = g.pick("POST", "get", "HEAD", "GETX", "")
	}
	if breakWhat == 1 && r.Intn(3) == 0 {
		// two faults at once: the status tells which one the server names (a missing Upgrade token is
		// answered 426 whatever else is wrong after it)
		method = g.pick("POST", "PUT", "HEAD")
		sc.tag("double-fault:upgrade+method")
	}
	set("Sec-Websocket-Version", g.tokenList("13", breakWhat != 3))
	key := g.key()
	if breakWhat == 4 {
		key = g.pick("", "AAAA", "!!!!", base64.StdEncoding.EncodeToString(make([]byte, 15)), "dGhlIHNhbXBsZSBub25jZQ=")
	}
	if r.Intn(12) == 0 {
		set("Sec-Websocket-Key", []string{key, "dGhlIHNhbXBsZSBub25jZQ=="})
	} else if !(breakWhat == 4 && r.Intn(3) == 0) {
		set("Sec-Websocket-Key", []string{key})
	}
	host := g.pick("example.com", "example.com:8080", "Example.COM", "127.0.0.1:80", "[::1]:8080", "kiwi.example.org", "sub.example.com", "example.org")
	origin := ""
	hasOrigin := r.Intn(2) == 0 || originFocus
	if hasOrigin {
		origin = originFor(g, host, breakWhat == 5 || (originFocus && r.Intn(2) == 0) || (!originFocus && r.Intn(8) == 0))
		set("Origin", []string{origin})
	}
	// subprotocol offers
	var offers []string
	if r.Intn(2) == 0 {
		offers = [][]string{{"chat"}, {"chat, superchat"}, {" chat ,mqtt"}, {"a,b,c"}, {"chat", "ignored-second-line"}, {""}, {","}, {"Chat"},
			{"chat/2"}, {"chat superchat"}, {"mqtt=3.1.1, x2"}, {"chat@v2,superchat.v1"}, {"xchat, chatx, cha"}, {"chat;q=1"}}[r.Intn(14)]
		set("Sec-Websocket-Protocol", offers)
	}
	if exts := g.extOffer(); exts != nil && r.Intn(2) == 0 {
		set("Sec-Websocket-Extensions", exts)
	}
	u := &websocket.Upgrader{}
	subTok := "none"
	switch r.Intn(4) {
	case 0:
		u.Subprotocols = []string{}
		subTok = "_"
	case 1:
		u.Subprotocols = [][]string{{"chat"}, {"superchat", "chat"}, {"mqtt", "b"}, {"x"}}[r.Intn(4)]
		subTok = hexList(u.Subprotocols)
	}
	u.EnableCompression = r.Intn(2) == 0
	coTok := "nil"
	switch r.Intn(5) {
	case 0:
		u.CheckOrigin = func(*http.Request) bool { return true }
		coTok = "1"
	case 1:
		if !originFocus {
			u.CheckOrigin = func(*http.Request) bool { return false }
			coTok = "0"
		}
	}
	u.ReadBufferSize = []int{0, 0, 1, 255, 256, 1024, 4096}[r.Intn(7)]
	u.WriteBufferSize = []int{0, 0, 16, 1024}[r.Intn(4)]
	var pool *tPool
	if r.Intn(5) == 0 {
		pool = &tPool{log: log}
		u.WriteBufferPool = pool
	}
	hto := r.Intn(4) == 0
	if hto {
		u.HandshakeTimeout = 3600e9
	}
	// response header supplied by the application
	var rh http.Header
	rhTok := "none"
	var rhOrder []string
	if r.Intn(2) == 0 {
		rh = http.Header{}
		n := r.Intn(3)
		for i := 0; i < n; i++ {
			k := g.pick("Set-Cookie", "X-Custom", "Server", "X-A")
			if _, dup := rh[k]; dup {
				continue
			}
			nv := 1 + r.Intn(2)
			for j := 0; j < nv; j++ {
				rh[k] = append(rh[k], evilValues[r.Intn(len(evilValues))])
			}
			rhOrder = append(rhOrder, k)
		}
		if r.Intn(5) == 0 {
			rh["Sec-Websocket-Protocol"] = []string{g.pick("chat", "admin", "x\r\nEvil: 1", "", "x\u010d\u010aSet-Cookie: sid=evil", "caf\u00e9")}
			rhOrder = append(rhOrder, "Sec-Websocket-Protocol")
		}
		if breakWhat == 6 || r.Intn(15) == 0 {
			rh["Sec-Websocket-Extensions"] = []string{"permessage-deflate"}
			rhOrder = append(rhOrder, "Sec-Websocket-Extensions")
		}
		rhTok = hexHdrs(rh, rhOrder)
	}
	// hijack environment
	brSize := []int{16, 256, 257, 4096}[r.Intn(4)]
	buffered := 0
	if r.Intn(3) == 0 {
		buffered = 1 + r.Intn(brSize)
	}
	hjFail := r.Intn(25) == 0
	t := newTConn(log)
	pre := make([]byte, buffered)
	for i := range pre {
		pre[i] = byte(i)
	}
	br := bufio.NewReaderSize(&prefixThenConn{pre: pre, conn: t}, brSize)
	if buffered > 0 {
		br.Peek(buffered)
	}
	w := &fakeRW{hdr: http.Header{}, conn: t, hjErr: hjFail}
	w.brw = bufio.NewReadWriter(br, bufio.NewWriterSize(t, 4096))
	req := &http.Request{Method: method, Host: host, Header: hdr, URL: &url.URL{Path: "/ws"}, Proto: "HTTP/1.1", ProtoMajor: 1, ProtoMinor: 1}

	ohTok := "none"
	if hasOrigin {
		if pu, err := url.Parse(origin); err == nil {
			ohTok = hx([]byte(pu.Host))
		}
	}
	hjTok := fmt.Sprintf("ok:%d:%d:%d", br.Size(), br.Buffered(), 0)
	if hjFail {
		hjTok = "fail"
	}
	line := fmt.Sprintf("up m=%s host=%s H=%s sub=%s ec=%d co=%s rbs=%d wbs=%d pool=%d hto=%d RH=%s oh=%s hj=%s",
		hx([]byte(method)), hx([]byte(host)), hexHdrs(hdr, order), subTok, b2i(u.EnableCompression), coTok,
		u.ReadBufferSize, u.WriteBufferSize, b2i(pool != nil), b2i(hto), rhTok, ohTok, hjTok)

	var c *websocket.Conn
	var err error
	panicked := ""
	func() {
		defer func() {
			if p := recover(); p != nil {
				panicked = fmt.Sprint(p)
			}
		}()
		c, err = u.Upgrade(w, req, rh)
	}()
	if panicked != "" {
		sc.emit(line, "panic")
		sc.violate("Upgrade panicked: %s", panicked)
		return sc
	}
	sc.tag(fmt.Sprintf("break:%d", breakWhat))
	if err != nil {
		sc.tag(fmt.Sprintf("status:%d", w.status))
		sc.emit(line, fmt.Sprintf("rej %d", w.status))
		serverRejectOracle(sc, w, err, c, hdr, method, key, hasOrigin, origin, host, u, rh, hjFail)
		return sc
	}
	sc.tag("status:101")
	lines := strings.Split(string(t.wire), "\r\n")
	// drop the two empty strings produced by the final CRLF CRLF
	for i := 0; i < 2 && len(lines) > 0 && lines[len(lines)-1] == ""; i++ {
		lines = lines[:len(lines)-1]
	}
	nego, _ := websocket.VerifNegotiated(c)
	nfixed := 4
	if c.Subprotocol() != "" {
		nfixed++
	}
	if nego {
		nfixed++
	}
	if nfixed > len(lines) {
		nfixed = len(lines)
	}
	extra := append([]string(nil), lines[nfixed:]...)
	sort.Strings(extra)
	_, wsz := websocket.VerifWriteBufLen(c)
	wrap := strings.Contains(fmt.Sprintf("%T", c.NetConn()), "brNetConn")
	rsize := websocket.VerifReaderSize(c)
	reuse := rsize == brSize && u.ReadBufferSize == 0 && brSize > 256
	sc.emit(line, fmt.Sprintf("acc sub=%s z=%d reuse=%d wrap=%d rsize=%d wbuf=%d fixed=%s extra=%s",
		hx([]byte(c.Subprotocol())), b2i(nego), b2i(reuse), b2i(wrap), rsize, wsz, hexList(lines[:nfixed]), hexList(extra)))
	serverAcceptOracle(sc, t, c, hdr, method, key, hasOrigin, origin, host, u, rh, offers, nego, w)
	if hasOrigin && u.CheckOrigin == nil {
		// the decision depends on this request only: the same Origin presented to another host is refused
		func() {
			defer func() {
				if p := recover(); p != nil {
					sc.violate("Upgrade panicked on the follow-up request: %v", p)
				}
			}()
			t2 := newTConn(&evlog{})
			t2.quiet = true
			w2 := &fakeRW{hdr: http.Header{}, conn: t2}
			w2.brw = bufio.NewReadWriter(bufio.NewReader(t2), bufio.NewWriterSize(t2, 4096))
			req2 := &http.Request{Method: method, Host: "elsewhere.invalid", Header: hdr.Clone(), URL: &url.URL{Path: "/ws"}, Proto: "HTTP/1.1", ProtoMajor: 1, ProtoMinor: 1}
			c2, err2 := u.Upgrade(w2, req2, nil)
			if err2 == nil {
				sc.violate("Origin %q was accepted for Host elsewhere.invalid after it had been accepted for Host %q (the decision must depend on the request alone)", origin, host)
				c2.Close()
			} else if w2.status != 403 {
				sc.violate("follow-up request with a foreign Origin refused with %d, expected 403", w2.status)
			}
			sc.tag("origin:followup")
		}()
	}
	return sc
}

func originFor(g *hGen, host string, bad bool) string {
	r := g.rng
	scheme := g.pick("http://", "https://", "ws://", "HTTP://")
	if !bad {
		return scheme + g.caseVar(host) + g.pick("", "/", "/path?q=1")
	}
	h := host
	switch r.Intn(15) {
	case 14:
		// white space net/http neither trims nor rejects, alone or around / between origins
		return g.pick("\u00a0", "\u2028\u3000", "\u0085", "\u3000", "\u00a0"+scheme+host, scheme+host+"\u00a0", scheme+host+" http://evil.example", "http://evil.example "+scheme+host, "\u00a0 \u00a0")
	case 12, 13:
		// a look-alike that differs from the host only in the high bit of some bytes (or by a
		// multi-byte character whose bytes alias two ASCII bytes modulo 128)
		b := []byte(host)
		for k := 0; k < 1+r.Intn(2) && len(b) > 0; k++ {
			i := r.Intn(len(b))
			if b[i] != '.' && b[i] != ':' && b[i] != '[' && b[i] != ']' && b[i] != '%' {
				b[i] |= 0x80
			}
		}
		h = string(b)
		if h == host {
			h = host + "\x80"
		}
	case 0:
		h = "evil." + host
	case 1:
		h = host + ".evil.com"
	case 2:
		h = "x" + host
	case 3:
		h = strings.Replace(host, "e", "3", 1)
	case 4:
		if strings.Contains(host, ":") && !strings.HasPrefix(host, "[") {
			h = host[:strings.LastIndex(host, ":")]
		} else {
			h = host + ":81"
		}
	case 5:
		h = host + "@evil.com"
	case 6:
		h = "evil.com@" + host + "x"
	case 7:
		h = strings.Replace(host, "k", "K", 1) + "x"
	case 8:
		h = strings.Replace(host, "s", "ſ", 1)
		if h == host {
			h = host + "ſ"
		}
	case 9:
		return g.pick("null", "://bad", "http://[::1", "%zz", "http://a b/", "", "\u00a0", "\u2028\u3000", " \u0085 ", "\u00a0http://"+host, "\t", " ",
			// foreign or unparsable origins whose tail spells "://<host>"
			"https://evil.example/x://"+host, "https://evil.example:port/://"+host, "://"+host, "x://evil.example/?://"+host, "https://evil.example#://"+host)
	case 10:
		h = host + "\xff"
	default:
		h = "other.example"
	}
	return scheme + h
}

func serverRejectOracle(sc *scenario, w *fakeRW, err error, c *websocket.Conn, hdr http.Header, method, key string, hasOrigin bool, origin, host string, u *websocket.Upgrader, rh http.Header, hjFail bool) {
	if c != nil {
		sc.violate("Upgrade returned an error together with a connection")
	}
	if _, ok := err.(websocket.HandshakeError); !ok {
		sc.violate("Upgrade failed with %T, not HandshakeError", err)
	}
	if w.hijacked && !hjFail {
		sc.violate("Upgrade hijacked the connection although it rejected the request")
	}
	if w.status < 400 {
		sc.violate("rejected handshake answered with status %d", w.status)
	}
	// a valid opening handshake (judged with grammar-level list membership) must not be rejected
	cOK, cWF := listContains(hdr["Connection"], "upgrade")
	uOK, uWF := listContains(hdr["Upgrade"], "websocket")
	vOK, vWF := listContains(hdr["Sec-Websocket-Version"], "13")
	kd, kerr := base64.StdEncoding.DecodeString(hdr.Get("Sec-Websocket-Key"))
	keyOK := kerr == nil && len(kd) == 16
	originOK := serverOriginOK(u, hasOrigin, origin, host)
	_, appExt := rh["Sec-Websocket-Extensions"]
	if cWF && uWF && vWF && cOK && uOK && vOK && method == "GET" && keyOK && originOK && !appExt && !hjFail {
		sc.violate("a valid opening handshake was rejected with status %d: %v", w.status, err)
	}
	if cOK && cWF && !uOK && uWF {
		if w.status != 426 || asciiLower(w.hdr.Get("Upgrade")) != "websocket" {
			sc.violate("missing Upgrade token must be answered 426 with an Upgrade header, got %d %q", w.status, w.hdr.Get("Upgrade"))
		}
	}
	if cOK && uOK && vOK && cWF && uWF && vWF && method == "GET" && !appExt && !originOK && w.status != 403 {
		sc.violate("origin not allowed must be answered 403, got %d", w.status)
	}
}

func serverOriginOK(u *websocket.Upgrader, hasOrigin bool, origin, host string) bool {
	if u.CheckOrigin != nil {
		return u.CheckOrigin(nil)
	}
	if !hasOrigin {
		return true
	}
	// independent authority extraction (RFC 3986): scheme "://" [userinfo "@"] host [":" port] until / ? #
	i := strings.Index(origin, "://")
	if i <= 0 {
		return false
	}
	for k := 0; k < i; k++ { // scheme = ALPHA *( ALPHA / DIGIT / "+" / "-" / "." )
		c := origin[k]
		alpha := c >= 'a' && c <= 'z' || c >= 'A' && c <= 'Z'
		if !(alpha || k > 0 && (c >= '0' && c <= '9' || c == '+' || c == '-' || c == '.')) {
			return false
		}
	}
	auth := origin[i+3:]
	if j := strings.IndexAny(auth, "/?#"); j >= 0 {
		auth = auth[:j]
	}
	if k := strings.LastIndex(auth, "@"); k >= 0 {
		auth = auth[k+1:]
	}
	for i := 0; i < len(auth); i++ {
		if auth[i] >= 0x80 || auth[i] <= 32 {
			return false // non-ASCII or control bytes never equal an ASCII host under ASCII folding
		}
	}
	return asciiLower(auth) == asciiLower(host)
}

func serverAcceptOracle(sc *scenario, t *TConn, c *websocket.Conn, hdr http.Header, method, key string, hasOrigin bool, origin, host string, u *websocket.Upgrader, rh http.Header, offers []string, nego bool, w *fakeRW) {
	// soundness: an accepted handshake satisfies every condition (grammar-level membership)
	if ok, _ := listContains(hdr["Connection"], "upgrade"); !ok {
		sc.violate("upgraded although Connection does not contain the token upgrade: %q", hdr["Connection"])
	}
	if ok, _ := listContains(hdr["Upgrade"], "websocket"); !ok {
		sc.violate("upgraded although Upgrade does not contain the token websocket: %q", hdr["Upgrade"])
	}
	if ok, _ := listContains(hdr["Sec-Websocket-Version"], "13"); !ok {
		sc.violate("upgraded although Sec-WebSocket-Version does not contain 13: %q", hdr["Sec-Websocket-Version"])
	}
	if method != "GET" {
		sc.violate("upgraded a %q request", method)
	}
	kd, kerr := base64.StdEncoding.DecodeString(hdr.Get("Sec-Websocket-Key"))
	if kerr != nil || len(kd) != 16 {
		sc.violate("upgraded with key %q that is not base64 of 16 bytes", hdr.Get("Sec-Websocket-Key"))
	}
	if !serverOriginOK(u, hasOrigin, origin, host) {
		if strings.Contains(origin, "\xff") || strings.Contains(host, "\xff") {
			sc.knownHit("F7-invalid-utf8-origin", fmt.Sprintf("host %q origin %q", host, origin))
		} else {
			sc.violate("upgraded although origin %q is not the same origin as host %q", origin, host)
		}
	}
	// the 101 response
	resp := string(t.wire)
	if !strings.HasSuffix(resp, "\r\n\r\n") {
		sc.violate("101 response does not end with an empty line")
		return
	}
	lines := strings.Split(strings.TrimSuffix(resp, "\r\n\r\n"), "\r\n")
	if lines[0] != "HTTP/1.1 101 Switching Protocols" {
		sc.violate("bad status line %q", lines[0])
	}
	get := func(name string) []string {
		var vs []string
		for _, l := range lines[1:] {
			if i := strings.Index(l, ":"); i > 0 && asciiLower(l[:i]) == asciiLower(name) {
				vs = append(vs, owsTrim(l[i+1:]))
			}
		}
		return vs
	}
	if a := get("Sec-WebSocket-Accept"); len(a) != 1 || a[0] != acceptFor(hdr.Get("Sec-Websocket-Key")) {
		sc.violate("Sec-WebSocket-Accept is %q, expected %q", a, acceptFor(hdr.Get("Sec-Websocket-Key")))
	}
	if v := get("Upgrade"); len(v) != 1 || asciiLower(v[0]) != "websocket" {
		sc.violate("101 Upgrade header is %q", v)
	}
	if v := get("Connection"); len(v) != 1 || asciiLower(v[0]) != "upgrade" {
		sc.violate("101 Connection header is %q", v)
	}
	// expected number of lines: no application byte string may add one
	want := 4
	sub := c.Subprotocol()
	if sub != "" {
		want++
	}
	if nego {
		want++
	}
	for k, vs := range rh {
		if k == "Sec-Websocket-Protocol" {
			continue
		}
		want += len(vs)
	}
	if len(lines) != want {
		if u.Subprotocols == nil && rh != nil && strings.ContainsAny(rh.Get("Sec-Websocket-Protocol"), "\r\n") {
			sc.knownHit("F5-responseHeader-subprotocol-unscrubbed", fmt.Sprintf("responseHeader Sec-Websocket-Protocol=%q adds lines to the 101", rh.Get("Sec-Websocket-Protocol")))
		} else {
			sc.violate("101 response has %d lines, expected %d: an application-supplied value injected a line: %q", len(lines), want, lines)
		}
	}
	// subprotocol: offered by the client and supported by the server
	if u.Subprotocols != nil && sub != "" {
		offered := false
		if len(offers) > 0 {
			for _, o := range strings.Split(strings.TrimSpace(offers[0]), ",") {
				if strings.TrimSpace(o) == sub {
					offered = true
				}
			}
		}
		supported := false
		for _, s := range u.Subprotocols {
			if s == sub {
				supported = true
			}
		}
		if !offered || !supported {
			sc.violate("selected subprotocol %q (offered=%v supported=%v)", sub, offered, supported)
		}
	}
	if u.Subprotocols != nil && len(u.Subprotocols) == 0 && sub != "" {
		sc.violate("subprotocol %q selected although the server supports none", sub)
	}
	// permessage-deflate only if enabled and offered (grammar-level: an element whose name token is permessage-deflate)
	if nego {
		offered := false
		for _, l := range hdr["Sec-Websocket-Extensions"] {
			// RFC 7230 list grammar: commas / semicolons inside a quoted-string (with backslash escapes) do not separate
			for _, e := range splitOutsideQuotes(l, ',') {
				name := owsTrim(splitOutsideQuotes(e, ';')[0])
				if name == "permessage-deflate" {
					offered = true
				}
			}
		}
		if !u.EnableCompression || !offered {
			sc.violate("permessage-deflate negotiated (enabled=%v offered=%v)", u.EnableCompression, offered)
		}
		if e := get("Sec-WebSocket-Extensions"); len(e) != 1 || !strings.Contains(e[0], "permessage-deflate") ||
			!strings.Contains(e[0], "server_no_context_takeover") || !strings.Contains(e[0], "client_no_context_takeover") {
			sc.violate("compression on but the 101 announces %q", e)
		}
	} else if e := get("Sec-WebSocket-Extensions"); len(e) != 0 {
		sc.violate("compression off but the 101 announces %q", e)
	}
	if w.status != 0 {
		sc.violate("accepted handshake also wrote an HTTP status %d through the ResponseWriter", w.status)
	}
	_ = io.EOF
}

// ---- pure helpers through hooks ---------------------------------------------

func runUnitScenario(seed int64) *scenario {
	r := rand.New(rand.NewSource(seed))
	sc := &scenario{kind: "unit", seed: seed}
	g := &hGen{rng: r, sc: sc}
	junk := func(n int) string {
		alpha := []string{"a", "B", ",", ";", "=", "\"", "\\", " ", "\t", "upgrade", "websocket", "permessage-deflate", "\xff", "\xc3\xa9", "\x00", "13", "k", "K", "ſ", "s", "K", "S", "é"}
		var sb strings.Builder
		for i := 0; i < n; i++ {
			sb.WriteString(alpha[r.Intn(len(alpha))])
		}
		return sb.String()
	}
	guard := func(line string, f func() string) {
		res := ""
		func() {
			defer func() {
				if p := recover(); p != nil {
					res = "panic"
					sc.violate("%s panicked: %v", strings.Fields(line)[0], p)
				}
			}()
			res = f()
		}()
		sc.emit(line, res)
	}
	for i := 0; i < 12; i++ {
		switch r.Intn(9) {
		case 0:
			a, b := junk(r.Intn(6)), junk(r.Intn(6))
			if r.Intn(2) == 0 {
				b = g.caseVar(a)
			}
			if r.Intn(4) == 0 {
				a, b = "a\xffb", "a\xfeb"
			}
			if r.Intn(4) == 0 {
				// same bytes modulo 128
				a = g.pick("x1.example.org", "abc.example.org", "p0.example.org", "e", "Host")
				bb := []byte(a)
				for k := 0; k < 1+r.Intn(3); k++ {
					bb[r.Intn(len(bb))] |= 0x80
				}
				b = string(bb)
				if r.Intn(2) == 0 {
					a, b = b, a
				}
			}
			guard(fmt.Sprintf("fold %s %s", hx([]byte(a)), hx([]byte(b))), func() string {
				got := websocket.VerifEqualASCIIFold(a, b)
				// oracle: ASCII case folding is byte-wise
				if got != (asciiLower(a) == asciiLower(b)) {
					if !isASCII(a) && !isASCII(b) {
						sc.knownHit("F7-fold-invalid-utf8", fmt.Sprintf("equalASCIIFold(%q,%q)=%v", a, b, got))
					} else {
						sc.violate("equalASCIIFold(%q,%q)=%v", a, b, got)
					}
				}
				return fmt.Sprint(b2i(got))
			})
		case 1:
			tok := g.pick("upgrade", "websocket", "13")
			var lines []string
			if r.Intn(2) == 0 {
				lines = g.tokenList(tok, r.Intn(2) == 0)
			} else {
				for j := r.Intn(3); j >= 0; j-- {
					lines = append(lines, junk(r.Intn(8)))
				}
			}
			guard(fmt.Sprintf("tlc %s lines=%s", hx([]byte(tok)), hexList(lines)), func() string {
				got := websocket.VerifTokenListContainsValue(http.Header{"X": lines}, "X", tok)
				c, wf := listContains(lines, tok)
				if got && !c {
					sc.violate("tokenListContainsValue(%q, %q) reports a token that is not an element", lines, tok)
				}
				if wf && c != got {
					sc.violate("tokenListContainsValue(%q, %q)=%v on a well-formed list", lines, tok, got)
				}
				return fmt.Sprint(b2i(got))
			})
		case 2:
			var lines []string
			if r.Intn(2) == 0 {
				lines = g.extOffer()
			} else {
				for j := r.Intn(2); j >= 0; j-- {
					lines = append(lines, junk(r.Intn(10)))
				}
			}
			guard(fmt.Sprintf("pext lines=%s", hexList(lines)), func() string {
				exts := websocket.VerifParseExtensions(http.Header{"Sec-Websocket-Extensions": lines})
				var parts []string
				for _, e := range exts {
					var ks []string
					for k := range e {
						if k != "" {
							ks = append(ks, k)
						}
					}
					sort.Strings(ks)
					items := []string{"-=" + hx([]byte(e[""]))}
					for _, k := range ks {
						items = append(items, hx([]byte(k))+"="+hx([]byte(e[k])))
					}
					parts = append(parts, "["+strings.Join(items, ";")+"]")
				}
				return strings.TrimSpace("exts " + strings.Join(parts, " "))
			})
		case 3:
			k := g.key()
			if r.Intn(3) == 0 {
				k = junk(r.Intn(30))
			}
			guard("vck "+hx([]byte(k)), func() string {
				got := websocket.VerifIsValidChallengeKey(k)
				d, err := base64.StdEncoding.DecodeString(k)
				if got != (err == nil && len(d) == 16) {
					sc.violate("isValidChallengeKey(%q)=%v", k, got)
				}
				return fmt.Sprint(b2i(got))
			})
		case 4:
			s := junk(r.Intn(12))
			if r.Intn(2) == 0 {
				s = "\"" + s
			}
			guard("ntq "+hx([]byte(s)), func() string {
				a, b := websocket.VerifNextTokenOrQuoted(s)
				return hx([]byte(a)) + " " + hx([]byte(b))
			})
		case 5:
			k := g.key()
			guard("acc "+hx([]byte(k)), func() string {
				got := websocket.VerifComputeAcceptKey(k)
				if got != acceptFor(k) {
					sc.violate("computeAcceptKey(%q)=%q", k, got)
				}
				return hx([]byte(got))
			})
		case 6:
			host := g.pick("example.com", "example.com:8080", "[::1]", "[::1]:9", "a:b:c", "", "host:", "[fe80::1%25en0]:443", "x]:1", "[2001:db8::1]", "10.0.0.1", "10.0.0.1:81", "[fe80::1%25en0]", "EXAMPLE.org")
			scheme := g.pick("ws", "wss", "http", "https", "")
			guard(fmt.Sprintf("hpnp %s %s", hx([]byte(scheme)), hx([]byte(host))), func() string {
				a, b := websocket.VerifHostPortNoPort(&url.URL{Scheme: scheme, Host: host})
				// oracle for well-formed authorities (RFC 3986 host [":" port]): the dial address is the
				// URL's host plus its port, or the scheme's default port, in the form net.Dial accepts
				if bare, port, ok := splitAuthority(host); ok {
					want := port
					if want == "" {
						want = "80"
						if scheme == "wss" || scheme == "https" {
							want = "443"
						}
					}
					h, p, err := net.SplitHostPort(a)
					if err != nil || h != bare || p != want {
						sc.violate("hostPortNoPort(%s://%s): dial address %q does not split into host %q port %q (%v)", scheme, host, a, bare, want, err)
					}
					wantNoPort := host
					if port != "" {
						wantNoPort = host[:len(host)-len(port)-1]
					}
					if b != wantNoPort {
						sc.violate("hostPortNoPort(%s://%s): host without port is %q, expected %q", scheme, host, b, wantNoPort)
					}
				}
				return hx([]byte(a)) + " " + hx([]byte(b))
			})
		case 7:
			key := [4]byte{byte(r.Intn(256)), byte(r.Intn(256)), byte(r.Intn(256)), byte(r.Intn(256))}
			n := []int{0, 1, 7, 15, 16, 17, 23, 24, 31, 32, 33, 100}[r.Intn(12)]
			off := r.Intn(9)
			pos := r.Intn(4)
			back := make([]byte, n+16)
			// find an 8-aligned base inside the backing array, then add the wanted offset
			base := 0
			for (sliceAddr(back)+uintptr(base))%8 != 0 {
				base++
			}
			b := back[base+off%8 : base+off%8+n]
			for i := range b {
				b[i] = byte(r.Intn(256))
			}
			in := append([]byte(nil), b...)
			guard(fmt.Sprintf("mask %s %d %d %s", hx(key[:]), pos, off%8, hx(in)), func() string {
				np := websocket.VerifMaskBytes(key, pos, b)
				for i := range in {
					if b[i] != in[i]^key[(pos+i)%4] {
						sc.violate("maskBytes differs from RFC masking at byte %d (len %d, align %d)", i, n, off%8)
						break
					}
				}
				return hx(b) + " " + fmt.Sprint(np)
			})
		default:
			var chunks []string
			var all []byte
			for j := r.Intn(6); j > 0; j-- {
				c := make([]byte, r.Intn(9))
				r.Read(c)
				if len(c) > 0 {
					chunks = append(chunks, string(c))
					all = append(all, c...)
				}
			}
			guard("trunc chunks="+hexList(chunks), func() string {
				rec := &recorder{w: nopWC{}}
				tw, held := websocket.VerifTruncWriter(rec)
				for _, c := range chunks {
					tw.Write([]byte(c))
				}
				var fwd []string
				var fw []byte
				for _, c := range rec.chunks {
					fwd = append(fwd, string(c))
					fw = append(fw, c...)
				}
				h := held()
				if !bytes.Equal(append(fw, h...), all) || len(h) != minInt(4, len(all)) {
					sc.violate("truncWriter: forwarded %x held %x for stream %x", fw, h, all)
				}
				return fmt.Sprintf("fwd=%s held=%s", hexList(fwd), hx(h))
			})
		}
	}
	return sc
}

type nopWC struct{}

func (nopWC) Write(p []byte) (int, error) { return len(p), nil }
func (nopWC) Close() error                { return nil }

func isASCII(s string) bool {
	for i := 0; i < len(s); i++ {
		if s[i] >= 0x80 {
			return false
		}
	}
	return true
}

func minInt(a, b int) int {
	if a < b {
		return a
	}
	return b
}

// ---- client: Dialer.Dial over a scripted connection ----------------------------

type replySpec struct {
	status      string // status line after "HTTP/1.1 "
	upgrade     []string
	connection  []string
	accept      string // "ok" | "wrong" | "stale" | "otherkey" | "missing" | "trunc"
	ext         []string
	proto       []string
	body        int
	noCL        bool // body without Content-Length (close-delimited)
	http10      bool
	extraHeader []string
}

// jarSubcheck (oracle only): a Dialer with a cookie jar and a caller header with zero, one or several
// Cookie values. Every value the caller passed is in the request (C14: caller headers are included);
// without a caller Cookie the jar's cookie is.
func jarSubcheck(sc *scenario, r *rand.Rand) {
	jar, _ := cookiejar.New(nil)
	u, _ := url.Parse("http://example.com/chat")
	jar.SetCookies(u, []*http.Cookie{{Name: "session", Value: "jar"}})
	var callerCookies []string
	switch r.Intn(4) {
	case 1:
		callerCookies = []string{"a=1"}
	case 2:
		callerCookies = []string{"a=1", "b=2"}
	case 3:
		callerCookies = []string{"a=1; c=3", "b=2", "d=4"}
	}
	var hdr http.Header
	if callerCookies != nil {
		hdr = http.Header{"Cookie": callerCookies, "X-Custom": {"v"}}
	}
	t := newTConn(&evlog{})
	t.quiet = true
	t.dynQ = append(t.dynQ, func(w []byte) []byte { return replyFor(w, 0) })
	d := &websocket.Dialer{Jar: jar, NetDialContext: func(ctx context.Context, network, addr string) (net.Conn, error) { return t, nil }}
	var c *websocket.Conn
	var err error
	func() {
		defer func() {
			if p := recover(); p != nil {
				sc.violate("Dial with a cookie jar panicked: %v", p)
			}
		}()
		c, _, err = d.Dial("ws://example.com/chat", hdr)
	}()
	if err != nil || c == nil {
		sc.violate("Dial with a cookie jar and caller cookies %q failed: %v", callerCookies, err)
		return
	}
	req, perr := http.ReadRequest(bufio.NewReader(bytes.NewReader(t.wire)))
	if perr != nil {
		sc.violate("Dial with a cookie jar wrote an unparsable request: %v", perr)
		return
	}
	all := strings.Join(req.Header["Cookie"], "; ")
	for _, v := range callerCookies {
		for _, pair := range strings.Split(v, "; ") {
			found := false
			for _, have := range strings.Split(all, "; ") {
				if have == pair {
					found = true
				}
			}
			if !found {
				sc.violate("caller passed Cookie values %q (Dialer has a cookie jar); the request carries %q: %q is missing", callerCookies, req.Header["Cookie"], pair)
			}
		}
	}
	if callerCookies == nil && !strings.Contains(all, "session=jar") {
		sc.violate("the jar's cookie for the URL is not in the request (Cookie: %q)", req.Header["Cookie"])
	}
	sc.tag("cli:jar")
}

func runClientScenario(seed int64) *scenario {
	r := rand.New(rand.NewSource(seed))
	sc := &scenario{kind: "cli", seed: seed}
	g := &hGen{rng: r, sc: sc}
	log := &evlog{}
	if seed%8 == 3 {
		jarSubcheck(sc, rand.New(rand.NewSource(seed)))
	}

	scheme := g.pick("ws", "ws", "ws", "ws", "http", "wss", "", "WS", "ftp")
	host := g.pick("example.com", "example.com:8080", "[::1]:9000", "127.0.0.1", "sub.example.org:80")
	user := ""
	if r.Intn(12) == 0 {
		user = g.pick("u@", "u:p@", ":@")
	}
	path := g.pick("", "/", "/chat", "/a/b?x=1&y=2", "/p%20q?z=%2F", "?q",
		// escaped forms that differ from the default encoding of the decoded path; a bare '?'
		"/rooms/a%2Fb", "/x%3By?k=%3B", "/ws?", "/a%21b/%7Euser", "/caf%C3%A9%2f?")
	if scheme == "wss" {
		// TLS is exercised by the dial-path matrix; here only the early checks matter
		scheme = "ws"
	}
	rawURL := scheme + "://" + user + host + path
	if r.Intn(12) == 0 {
		// no scheme at all, or one that only becomes http(s) by string surgery: never dialled
		rawURL = g.pick("//"+host+path, host+"/chat", "/chat", "s://"+host+path, "s://"+host, "ttp://"+host, "://"+host)
	}
	d := &websocket.Dialer{}
	var subs []string
	if r.Intn(3) == 0 {
		subs = [][]string{{"chat"}, {"chat", "superchat"}, {"a", "b", "c"}}[r.Intn(3)]
		d.Subprotocols = subs
	}
	d.EnableCompression = r.Intn(2) == 0
	d.ReadBufferSize = []int{0, 16, 1024}[r.Intn(3)]
	d.WriteBufferSize = []int{0, 16, 1024}[r.Intn(3)]
	// caller headers
	var caller http.Header
	var corder []string
	if r.Intn(2) == 0 {
		caller = http.Header{}
		n := 1 + r.Intn(3)
		for i := 0; i < n; i++ {
			k := g.pick("Origin", "Cookie", "X-Custom", "User-Agent", "Host", "Authorization", "Sec-Websocket-Protocol",
				"Upgrade", "Connection", "Sec-Websocket-Key", "Sec-Websocket-Version", "Sec-Websocket-Extensions",
				"Sec-WebSocket-Version", "Sec-WebSocket-Key", "UPGRADE", "connection", "Sec-WebSocket-Extensions", "Sec-WebSocket-Protocol")
			if r.Intn(3) > 0 {
				k = g.pick("Origin", "Cookie", "X-Custom", "Authorization", "Host", "Sec-Websocket-Protocol")
			}
			if _, dup := caller[k]; dup {
				continue
			}
			if _, dup := caller[http.CanonicalHeaderKey(k)]; dup {
				continue
			}
			clash := false
			for ek := range caller {
				if http.CanonicalHeaderKey(ek) == http.CanonicalHeaderKey(k) {
					clash = true
				}
			}
			if clash {
				continue
			}
			v := g.pick("v1", "http://example.com", "a=b; c=d", "8", "other.example", "chat2", "permessage-deflate")
			if k == "Host" {
				v = g.pick("override.example", "h2.example:81", "[::1]:7")
				k = g.pick("Host", "Host", "host", "HOST", "hOsT")
			}
			caller[k] = []string{v}
			if r.Intn(6) == 0 && k != "User-Agent" && !strings.EqualFold(k, "Host") {
				caller[k] = append(caller[k], "second")
			}
			corder = append(corder, k)
		}
	}
	// reply
	rs := replySpec{status: "101 Switching Protocols", upgrade: []string{"websocket"}, connection: []string{"Upgrade"}, accept: "ok"}
	switch r.Intn(14) {
	case 0:
		rs.status = g.pick("200 OK", "400 Bad Request", "302 Found", "101", "100 Continue", "403 Forbidden", "500 x")
	case 1:
		rs.upgrade = [][]string{nil, {"h2c"}, {"websockets"}, {"h2c, WebSocket"}, {"foo", "websocket"}, {"web socket"},
			{"\u00a0websocket"}, {"websocket\u3000"}, {"h2c,\u0085websocket"}, {"\u2003websocket\u2003"}}[r.Intn(10)]
	case 2:
		rs.connection = [][]string{nil, {"keep-alive"}, {"keep-alive, Upgrade"}, {"upgrades"}, {"close", "upgrade"}, {"xupgrade"},
			{"keep-alive,\u00a0Upgrade"}, {"\u3000upgrade"}, {"upgrade\u00a0"}}[r.Intn(9)]
	case 3:
		rs.accept = g.pick("wrong", "stale", "otherkey", "missing", "trunc", "lower", "upper", "swap", "pad", "twice", "noncanon", "noncanon", "nopad")
	case 4:
		rs.body = []int{1, 100, 1023, 1024, 1025, 3000}[r.Intn(6)]
		rs.status = "400 Bad Request"
		// no Content-Length: a close-delimited body (resp.ContentLength is -1), optionally HTTP/1.0
		rs.noCL = r.Intn(3) == 0
		rs.http10 = rs.noCL && r.Intn(2) == 0
	case 5:
		rs.upgrade = []string{g.caseVar("websocket") + g.ows()}
		rs.connection = []string{g.ows() + g.caseVar("upgrade")}
	}
	switch r.Intn(6) {
	case 0:
		rs.ext = []string{"permessage-deflate; server_no_context_takeover; client_no_context_takeover"}
	case 1:
		rs.ext = []string{g.pick("permessage-deflate", "permessage-deflate; server_no_context_takeover", "permessage-deflate; client_no_context_takeover",
			"foo, permessage-deflate; client_no_context_takeover; server_no_context_takeover", "permessage-deflate; client_no_context_takeover; server_no_context_takeover; client_max_window_bits=10",
			"x-other", "permessage-deflate; server_no_context_takeover, permessage-deflate; server_no_context_takeover; client_no_context_takeover",
			"permessage-deflate; server_no_context_takeover ; client_no_context_takeover", "permessage-deflate ;server_no_context_takeover\t;\tclient_no_context_takeover ",
			"permessage-deflate; client_no_context_takeover ; server_no_context_takeover , x-other", "permessage-deflate; server_no_context_takeover; client_no_context_takeover; server_max_window_bits = 15")}
	}
	if r.Intn(4) == 0 {
		rs.proto = []string{g.pick("chat", "superchat", "nope")}
	}
	if r.Intn(5) == 0 {
		rs.extraHeader = []string{"Set-Cookie: a=b", "X-Server: y"}
	}

	t := newTConn(log)
	t.quiet = true
	var sentKey string
	var replyBytes []byte
	dialed := 0
	t.dynReply = func(wire []byte) []byte {
		// parse the request with an independent splitter to find the key
		req := string(wire)
		for _, l := range strings.Split(req, "\r\n") {
			if i := strings.Index(l, ":"); i > 0 && asciiLower(l[:i]) == "sec-websocket-key" {
				sentKey = owsTrim(l[i+1:])
			}
		}
		var sb strings.Builder
		if rs.http10 {
			sb.WriteString("HTTP/1.0 " + rs.status + "\r\n")
		} else {
			sb.WriteString("HTTP/1.1 " + rs.status + "\r\n")
		}
		for _, v := range rs.upgrade {
			sb.WriteString("Upgrade: " + v + "\r\n")
		}
		for _, v := range rs.connection {
			sb.WriteString("Connection: " + v + "\r\n")
		}
		switch rs.accept {
		case "ok":
			sb.WriteString("Sec-WebSocket-Accept: " + acceptFor(sentKey) + "\r\n")
		case "wrong":
			sb.WriteString("Sec-WebSocket-Accept: AAAAAAAAAAAAAAAAAAAAAAAAAAA=\r\n")
		case "stale":
			sb.WriteString("Sec-WebSocket-Accept: " + acceptFor("dGhlIHNhbXBsZSBub25jZQ==") + "\r\n")
		case "otherkey":
			sb.WriteString("Sec-WebSocket-Accept: " + acceptFor(sentKey+"x") + "\r\n")
		case "trunc":
			a := acceptFor(sentKey)
			sb.WriteString("Sec-WebSocket-Accept: " + a[:len(a)-1] + "\r\n")
		case "lower", "upper", "swap", "pad", "twice", "noncanon", "nopad":
			// near misses of the right digest: base64 is case-sensitive, the value is not a token list
			a := acceptFor(sentKey)
			v := a
			switch rs.accept {
			case "lower":
				v = strings.ToLower(a)
			case "upper":
				v = strings.ToUpper(a)
			case "swap":
				bb := []byte(a)
				for i, c := range bb {
					if c >= 'a' && c <= 'z' {
						bb[i] = c - 32
						break
					}
					if c >= 'A' && c <= 'Z' {
						bb[i] = c + 32
						break
					}
				}
				v = string(bb)
			case "pad":
				v = a + "="
			case "nopad":
				v = strings.TrimRight(a, "=")
			case "noncanon":
				// another base64 spelling of the same 20 bytes: the last character before '=' carries
				// two unused bits
				const alpha = "ABCDEFGHIJKLMNOPQRSTUVWXYZabcdefghijklmnopqrstuvwxyz0123456789+/"
				bb := []byte(a)
				if i := len(bb) - 2; i >= 0 && bb[len(bb)-1] == '=' {
					if k := strings.IndexByte(alpha, bb[i]); k >= 0 {
						bb[i] = alpha[k^(1+g.rng.Intn(3))]
					}
				}
				v = string(bb)
			case "twice":
				v = a + ", " + a
			}
			if v == a {
				v = a + "x"
			}
			sb.WriteString("Sec-WebSocket-Accept: " + v + "\r\n")
		}
		for _, v := range rs.ext {
			sb.WriteString("Sec-WebSocket-Extensions: " + v + "\r\n")
		}
		for _, v := range rs.proto {
			sb.WriteString("Sec-WebSocket-Protocol: " + v + "\r\n")
		}
		for _, v := range rs.extraHeader {
			sb.WriteString(v + "\r\n")
		}
		if rs.body > 0 && !rs.noCL {
			sb.WriteString(fmt.Sprintf("Content-Length: %d\r\n", rs.body))
		}
		sb.WriteString("\r\n")
		sb.WriteString(strings.Repeat("b", rs.body))
		replyBytes = []byte(sb.String())
		return replyBytes
	}
	d.NetDial = func(network, addr string) (net.Conn, error) {
		dialed++
		return t, nil
	}
	var c *websocket.Conn
	var resp *http.Response
	var err error
	panicked := ""
	func() {
		defer func() {
			if p := recover(); p != nil {
				panicked = fmt.Sprint(p)
			}
		}()
		c, resp, err = d.Dial(rawURL, caller)
	}()
	if panicked != "" {
		sc.emit("dial-panic", "panic")
		sc.violate("Dial panicked: %s", panicked)
		return sc
	}
	pu, perr := url.Parse(rawURL)
	if perr != nil {
		return nil
	}
	// ---- model line 1: request assembly
	// the key is only observable from the request; for early errors none was sent
	line1 := fmt.Sprintf("dial scheme=%s host=%s user=%d key=%s subs=%s ec=%d CH=%s", hx([]byte(pu.Scheme)), hx([]byte(pu.Host)), b2i(pu.User != nil),
		hx([]byte(sentKey)), hexList(subs), b2i(d.EnableCompression), hexHdrs(caller, corder))
	if caller == nil {
		line1 = strings.Replace(line1, "CH=none", "CH=_", 1)
	}
	reqStr := string(t.wire)
	// F9 (fixed): a caller key in any capitalisation that names a protocol-owned header must be refused
	// before any network activity (Sec-WebSocket-Protocol is allowed when the Dialer requests none)
	for k := range caller {
		ck := http.CanonicalHeaderKey(k)
		owned := ck == "Upgrade" || ck == "Connection" || ck == "Sec-Websocket-Key" || ck == "Sec-Websocket-Version" ||
			ck == "Sec-Websocket-Extensions" || (ck == "Sec-Websocket-Protocol" && len(subs) > 0)
		if owned && dialed > 0 {
			sc.knownHit("F9-noncanonical-caller-key-overrides", fmt.Sprintf("caller header map %v reached the network", caller))
		}
	}
	if dialed == 0 || len(t.wire) == 0 {
		kind := "other"
		if err != nil {
			switch {
			case err.Error() == "malformed ws or wss URL":
				kind = "malformedURL"
			case strings.HasPrefix(err.Error(), "websocket: duplicate header not allowed"):
				kind = "duplicateHeader"
			}
		}
		sc.emit(line1, "err "+kind)
		sc.tag("early:" + kind)
		if c != nil {
			sc.violate("Dial returned a connection without any network activity")
		}
		// oracle: bad scheme / userinfo must be refused before any network activity
		return sc
	}
	if pu.Scheme != "ws" && pu.Scheme != "wss" || pu.User != nil {
		sc.violate("URL %q (scheme %q, userinfo %v) was dialed; it must be refused before any network activity", rawURL, pu.Scheme, pu.User != nil)
	}
	// parse the request independently
	head := strings.SplitN(reqStr, "\r\n\r\n", 2)[0]
	rlines := strings.Split(head, "\r\n")
	var hostHdr string
	var hl []string
	for _, l := range rlines[1:] {
		i := strings.Index(l, ":")
		if i < 0 {
			continue
		}
		name, val := l[:i], owsTrim(l[i+1:])
		switch asciiLower(name) {
		case "host":
			hostHdr = val
		case "user-agent":
			if _, set := caller["User-Agent"]; !set {
				continue
			}
			hl = append(hl, name+": "+val)
		default:
			hl = append(hl, name+": "+val)
		}
	}
	sort.Strings(hl)
	sc.emit(line1, fmt.Sprintf("req host=%s H=%s", hx([]byte(hostHdr)), hexList(hl)))
	clientRequestOracle(sc, rlines, hostHdr, pu, d, caller, sentKey)

	// ---- model line 2: decision on the reply
	pr, rerr := http.ReadResponse(bufio.NewReader(bytes.NewReader(replyBytes)), nil)
	if rerr != nil {
		sc.tag("reply:unparsable")
		if c != nil {
			sc.violate("Dial returned a connection for an unparsable reply")
		}
		return sc
	}
	var horder []string
	for k := range pr.Header {
		horder = append(horder, k)
	}
	sort.Strings(horder)
	line2 := fmt.Sprintf("reply key=%s status=%d H=%s", hx([]byte(sentKey)), pr.StatusCode, hexHdrs(pr.Header, horder))
	switch {
	case err == nil:
		nego, _ := websocket.VerifNegotiated(c)
		sc.emit(line2, fmt.Sprintf("ok sub=%s z=%d", hx([]byte(c.Subprotocol())), b2i(nego)))
		sc.tag("reply:ok")
	case err == websocket.ErrBadHandshake:
		sc.emit(line2, "err badHandshake")
		sc.tag("reply:badHandshake")
	case err.Error() == "websocket: invalid compression negotiation":
		sc.emit(line2, "err invalidCompression")
		sc.tag("reply:invalidCompression")
	default:
		sc.emit(line2, "err other")
		sc.tag("reply:other")
	}
	clientReplyOracle(sc, c, resp, err, pr, sentKey, rs, t)
	return sc
}

func clientRequestOracle(sc *scenario, rlines []string, hostHdr string, pu *url.URL, d *websocket.Dialer, caller http.Header, key string) {
	want := pu.RequestURI()
	if rlines[0] != "GET "+want+" HTTP/1.1" {
		sc.violate("request line %q, expected GET %s HTTP/1.1", rlines[0], want)
	}
	wantHost := pu.Host
	for ck, cv := range caller {
		// header names are case-insensitive: an override counts under any spelling of the key
		if strings.EqualFold(ck, "Host") && len(cv) > 0 {
			wantHost = cv[0]
		}
	}
	if hostHdr != wantHost {
		sc.violate("Host header %q, expected %q", hostHdr, wantHost)
	}
	count := map[string][]string{}
	for _, l := range rlines[1:] {
		if i := strings.Index(l, ":"); i > 0 {
			n := asciiLower(l[:i])
			count[n] = append(count[n], owsTrim(l[i+1:]))
		}
	}
	owned := func(name, wantVal string) {
		vs := count[name]
		if len(vs) != 1 || (wantVal != "" && asciiLower(vs[0]) != asciiLower(wantVal)) {
			overridden := false
			for k := range caller {
				if asciiLower(k) == name && http.CanonicalHeaderKey(k) != k {
					overridden = true
				}
			}
			if overridden {
				sc.knownHit("F9-noncanonical-caller-key-overrides", fmt.Sprintf("caller header map %v changed protocol-owned header %s to %q", caller, name, vs))
			} else {
				sc.violate("request header %s is %q, expected exactly %q", name, vs, wantVal)
			}
		}
	}
	owned("upgrade", "websocket")
	owned("connection", "upgrade")
	owned("sec-websocket-version", "13")
	owned("sec-websocket-key", "")
	if kd, err := base64.StdEncoding.DecodeString(key); err != nil || len(kd) != 16 {
		if len(count["sec-websocket-key"]) == 1 {
			nonCanon := false
			for k := range caller {
				if asciiLower(k) == "sec-websocket-key" && http.CanonicalHeaderKey(k) != k {
					nonCanon = true
				}
			}
			if nonCanon {
				sc.knownHit("F9-noncanonical-caller-key-overrides", "caller replaced Sec-WebSocket-Key")
			} else {
				sc.violate("Sec-WebSocket-Key %q is not base64 of 16 bytes", key)
			}
		}
	}
	ext := count["sec-websocket-extensions"]
	if d.EnableCompression {
		if len(ext) != 1 || !strings.HasPrefix(ext[0], "permessage-deflate") {
			sc.violate("compression enabled but the offer is %q", ext)
		}
	} else if len(ext) != 0 {
		nonCanon := false
		for k := range caller {
			if asciiLower(k) == "sec-websocket-extensions" && http.CanonicalHeaderKey(k) != k {
				nonCanon = true
			}
		}
		if nonCanon {
			sc.knownHit("F9-noncanonical-caller-key-overrides", "caller supplied an extensions offer through a non-canonical key")
		} else {
			sc.violate("compression disabled but the request offers %q", ext)
		}
	}
	if len(d.Subprotocols) > 0 {
		if p := count["sec-websocket-protocol"]; len(p) != 1 || p[0] != strings.Join(d.Subprotocols, ", ") {
			sc.violate("subprotocol header %q, expected %q", p, strings.Join(d.Subprotocols, ", "))
		}
	}
	// caller headers included
	for k, vs := range caller {
		lk := asciiLower(k)
		if lk == "host" || lk == "user-agent" {
			continue
		}
		for _, v := range vs {
			found := false
			for _, got := range count[lk] {
				if got == owsTrim(v) {
					found = true
				}
			}
			if !found {
				sc.violate("caller header %s: %q is missing from the request", k, v)
			}
		}
	}
}

func clientReplyOracle(sc *scenario, c *websocket.Conn, resp *http.Response, err error, pr *http.Response, key string, rs replySpec, t *TConn) {
	up, _ := listContains(pr.Header["Upgrade"], "websocket")
	co, _ := listContains(pr.Header["Connection"], "upgrade")
	good := pr.StatusCode == 101 && up && co && pr.Header.Get("Sec-Websocket-Accept") == acceptFor(key)
	if err == nil {
		if !good {
			sc.violate("Dial returned a connection although the reply does not prove acceptance (status %d upgrade=%v connection=%v accept=%q)", pr.StatusCode, up, co, pr.Header.Get("Sec-Websocket-Accept"))
		}
		if c == nil {
			sc.violate("Dial returned nil error and nil connection")
		}
		if t.closed > 0 {
			sc.violate("successful Dial closed the network connection")
		}
		// C15: compression is in use only when the 101 announced permessage-deflate with both
		// no-context-takeover parameters (judged on the reply text, list grammar without quoted strings)
		if c != nil {
			cw, cr := websocket.VerifNegotiated(c)
			both, quoted := false, false
			firstSeen, firstBoth, wellFormed := false, false, true
			for _, l := range pr.Header["Sec-Websocket-Extensions"] {
				if strings.Contains(l, "\"") {
					quoted = true
				}
				for _, e := range strings.Split(l, ",") {
					parts := strings.Split(e, ";")
					if !isTok(owsTrim(parts[0])) {
						wellFormed = false
					}
					for _, p := range parts[1:] {
						kv := strings.SplitN(p, "=", 2)
						if !isTok(owsTrim(kv[0])) || (len(kv) == 2 && !isTok(owsTrim(kv[1]))) {
							wellFormed = false
						}
					}
					if owsTrim(parts[0]) != "permessage-deflate" {
						continue
					}
					names := map[string]bool{}
					for _, p := range parts[1:] {
						names[owsTrim(strings.SplitN(p, "=", 2)[0])] = true
					}
					b := names["server_no_context_takeover"] && names["client_no_context_takeover"]
					if b {
						both = true
					}
					if !firstSeen {
						firstSeen, firstBoth = true, b
					}
				}
			}
			// … and it IS in use when the 101 (a well-formed extension list, optional white space around
			// separators allowed) announces it with both parameters: the server compresses from then on
			if wellFormed && !quoted && firstBoth && !(cw && cr) {
				sc.violate("the 101 announces permessage-deflate with both no_context_takeover parameters (%q) and Dial succeeded, but the client does not use compression: the endpoints disagree", pr.Header["Sec-Websocket-Extensions"])
			}
			// a server that announces the extension compresses; when no announcement carries both parameters
			// the client may not use compression (oracle below), so the only way for the two endpoints to
			// agree is that the Dial fails (round-9 change C15-17: such announcements were skipped)
			if wellFormed && !quoted && firstSeen && !both {
				sc.violate("the 101 announces permessage-deflate without both no_context_takeover parameters (%q) and Dial succeeded (client compresses=%v): the server will compress, the endpoints disagree", pr.Header["Sec-Websocket-Extensions"], cw)
			}
			if cw != cr {
				sc.violate("client compresses=%v but accepts compressed=%v", cw, cr)
			}
			if (cw || cr) && !both && !quoted {
				sc.violate("compression in use although the 101 did not announce permessage-deflate with both no_context_takeover parameters: %q", pr.Header["Sec-Websocket-Extensions"])
			}
		}
		return
	}
	if c != nil {
		sc.violate("Dial returned an error together with a connection")
	}
	if t.closed == 0 {
		sc.violate("failed Dial left the network connection open")
	}
	if !good {
		if err != websocket.ErrBadHandshake {
			sc.violate("bad reply answered with %v instead of ErrBadHandshake", err)
		}
		if resp == nil {
			sc.violate("ErrBadHandshake without the response")
		} else {
			b, _ := io.ReadAll(resp.Body)
			wantLen := rs.body
			if wantLen > 1024 {
				wantLen = 1024
			}
			if resp.StatusCode != pr.StatusCode || len(b) != wantLen {
				sc.violate("ErrBadHandshake response: status %d body %d bytes, expected status %d and %d body bytes", resp.StatusCode, len(b), pr.StatusCode, wantLen)
			}
		}
	} else if err == websocket.ErrBadHandshake {
		sc.violate("a reply that proves acceptance was refused with ErrBadHandshake")
	}
}

// splitAuthority: host [":" port] for a well-formed authority (reg-name / IPv4 without colons, or a
// bracketed IPv6 literal); ok=false for anything else. Returns the bare host (brackets stripped).
func splitAuthority(a string) (bare, port string, ok bool) {
	if a == "" {
		return "", "", false
	}
	digits := func(s string) bool {
		if s == "" {
			return false
		}
		for _, c := range s {
			if c < '0' || c > '9' {
				return false
			}
		}
		return true
	}
	if a[0] == '[' {
		i := strings.IndexByte(a, ']')
		if i < 2 || strings.ContainsAny(a[1:i], "[]") {
			return "", "", false
		}
		rest := a[i+1:]
		if rest == "" {
			return a[1:i], "", true
		}
		if rest[0] == ':' && digits(rest[1:]) {
			return a[1:i], rest[1:], true
		}
		return "", "", false
	}
	if strings.ContainsAny(a, "[]") {
		return "", "", false
	}
	switch strings.Count(a, ":") {
	case 0:
		return a, "", true
	case 1:
		i := strings.IndexByte(a, ':')
		if i > 0 && digits(a[i+1:]) {
			return a[:i], a[i+1:], true
		}
	}
	return "", "", false
}

// splitOutsideQuotes splits s at sep, except inside a quoted-string ("…" with backslash escapes).
func splitOutsideQuotes(s string, sep byte) []string {
	var out []string
	start, inQ, esc := 0, false, false
	for i := 0; i < len(s); i++ {
		c := s[i]
		switch {
		case esc:
			esc = false
		case inQ && c == '\\':
			esc = true
		case c == '"':
			inQ = !inQ
		case c == sep && !inQ:
			out = append(out, s[start:i])
			start = i + 1
		}
	}
	return append(out, s[start:])
}
