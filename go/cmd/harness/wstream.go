package main

import (
	"bytes"
	"compress/flate"
	"encoding/hex"
	"encoding/json"
	"fmt"
	"io"
	"math/rand"
	"os"
	"strings"
	"time"

	"github.com/gorilla/websocket"
)

// ---------------------------------------------------------------------------
// Writer scenarios: random write programs executed on the real package over
// the scripted transport; every line of the script carries the environment
// answers (what compress/flate emitted) the model needs.
// ---------------------------------------------------------------------------

type scenario struct {
	quietH bool // handler invocations are not observable in this scenario: H: events are not compared
	kind   string
	seed   int64
	script []string
	impl   []string
	desc   []string // human-readable notes
	// oracle findings on the implementation's own observations
	violations []string
	// known-finding signatures triggered (sig -> detail)
	known map[string]string
	// classification for the distribution report
	tags map[string]int
}

func (s *scenario) emit(line, impl string) {
	s.script = append(s.script, line)
	s.impl = append(s.impl, impl)
}
func (s *scenario) tag(t string) {
	if s.tags == nil {
		s.tags = map[string]int{}
	}
	s.tags[t]++
}
func (s *scenario) violate(f string, a ...interface{}) {
	s.violations = append(s.violations, fmt.Sprintf(f, a...))
}

var knownSigs = func() map[string]bool {
	m := map[string]bool{}
	for _, k := range strings.Split(os.Getenv("VERIF_KNOWN"), ",") {
		if k != "" {
			m[k] = true
		}
	}
	return m
}()

// knownHit records a failure of the property oracle that carries the signature of a finding. Only
// signatures listed as `known:` in KNOWN_FINDINGS.txt (passed in VERIF_KNOWN) are reported as known
// findings; any other one is an ordinary violation.
func (s *scenario) knownHit(sig, detail string) {
	if !knownSigs[sig] {
		s.violate("%s [%s]", detail, sig)
		return
	}
	if s.known == nil {
		s.known = map[string]string{}
	}
	s.known[sig] = detail
}

func errName(err error) string {
	if err == nil {
		return "ok"
	}
	if err == websocket.ErrCloseSent {
		return "closeSent"
	}
	if err == websocket.ErrReadLimit {
		return "readLimit"
	}
	if err == io.EOF {
		return "eof"
	}
	if err == io.ErrUnexpectedEOF {
		return "ioUnexpectedEOF"
	}
	switch e := err.(type) {
	case *tErr:
		return fmt.Sprintf("transport:%d", e.id)
	case *rErr:
		return fmt.Sprintf("reader:%d", e.id)
	case *websocket.CloseError:
		return fmt.Sprintf("close:%d:%s", e.Code, hx([]byte(e.Text)))
	case *hErr:
		return fmt.Sprintf("handler:%d", e.id)
	}
	switch err.Error() {
	case "websocket: bad write message type":
		return "badOpcode"
	case "websocket: write closed":
		return "writeClosed"
	case "websocket: invalid control frame":
		return "invalidControl"
	case "websocket: write timeout":
		return "writeTimeout"
	case "websocket: internal error, extra used in client mode":
		return "internalExtra"
	case "websocket: internal error, unexpected bytes at end of flate stream":
		return "flateTail"
	case "websocket: invalid compression level":
		return "badLevel"
	case "websocket: internal error, unexpected text or binary in Reader":
		return "internalUnexpectedData"
	}
	if strings.HasPrefix(err.Error(), "websocket: ") {
		return "proto:" + hx([]byte(strings.TrimPrefix(err.Error(), "websocket: ")))
	}
	return "other:" + hx([]byte(err.Error()))
}

type hErr struct{ id int }

func (e *hErr) Error() string { return fmt.Sprintf("handler error %d", e.id) }

type recorder struct {
	w      io.WriteCloser
	chunks [][]byte
}

func (r *recorder) Write(p []byte) (int, error) {
	r.chunks = append(r.chunks, append([]byte(nil), p...))
	return r.w.Write(p)
}
func (r *recorder) Close() error { return r.w.Close() }
func (r *recorder) take() string {
	if len(r.chunks) == 0 {
		return ""
	}
	var parts []string
	for _, c := range r.chunks {
		if len(c) == 0 {
			continue
		}
		parts = append(parts, hx(c))
	}
	r.chunks = nil
	return strings.Join(parts, ",")
}

type apiMsg struct {
	t        int
	payload  []byte
	implicit bool // closed implicitly by the next NextWriter / WriteMessage: the library swallows the result
}

type openMsg struct {
	t      int
	level  int
	writes [][]byte // application writes so far (for the independent deflate)
	rec    *recorder
	closed bool
	all    []byte
}

func (o *openMsg) full() []byte {
	var buf bytes.Buffer
	fw, err := flate.NewWriter(&buf, o.level)
	if err != nil {
		return nil
	}
	for _, w := range o.writes {
		fw.Write(w)
	}
	fw.Flush()
	return buf.Bytes()
}

type wConn struct {
	ks           *keySource // the scenario's mask key source
	usedPrepared bool       // a prepared message was sent on this connection
	id           string
	c            *websocket.Conn
	t            *TConn
	srv          bool
	wbuf         int
	cap          int // payload capacity of the write buffer
	pool         bool
	nego         bool
	enableWC     bool
	level        int
	handles      []io.WriteCloser
	msgs         []*openMsg // per user handle
	cur          *openMsg   // message that is c.writer (may be closed)
	lastWrap     *recorder
	sent         []apiMsg // API-level messages reported as sent, in order
	errSeen      bool
	closeSnt     bool
	faulted      bool
	wd           time.Time // the connection's write deadline as the program set it
	live         bool      // a message is in progress from the API's point of view (C20 oracle)
	f8           bool      // a prepared data message was sent while a message writer was open (finding F8)
}

// closeOnWire: has this connection already written a close frame (by whatever path)?
func (wc *wConn) closeOnWire() bool {
	frames, _, _ := rfcDecode(wc.t.wire)
	for _, f := range frames {
		if f.op == 8 {
			return true
		}
	}
	return false
}

type scriptedReader struct {
	chunks   [][]byte
	term     error
	together bool
}

func (r *scriptedReader) Read(p []byte) (int, error) {
	if len(r.chunks) == 0 {
		if r.term == nil {
			return 0, io.EOF
		}
		return 0, r.term
	}
	ch := r.chunks[0]
	n := copy(p, ch)
	if n == len(ch) {
		r.chunks = r.chunks[1:]
		if len(r.chunks) == 0 && r.together {
			t := r.term
			if t == nil {
				t = io.EOF
			}
			return n, t
		}
	} else {
		r.chunks[0] = ch[n:]
	}
	return n, nil
}

type wOpts struct {
	faults        bool // inject a transport fault somewhere
	closes        bool // send close frames at random steps
	invalid       bool // invalid requests
	prepared      bool
	compress      bool
	multi         bool // several connections sharing a pool
	allowF8       bool // WritePreparedMessage(data) while a message writer is open (finding F8)
	bigPayload    bool
	preparedHeavy bool // most steps create or send prepared messages
}

type wGen struct {
	rng     *rand.Rand
	sc      *scenario
	log     *evlog
	ks      *keySource
	pool    *tPool
	poolBad bool
	conns   []*wConn
	pms     []*wPM
	opt     wOpts
}

type wPM struct {
	id     string
	t      int
	data   []byte
	pm     *websocket.PreparedMessage
	cached map[string]bool
}

var wbufChoices = []int{1, 2, 3, 15, 16, 17, 32, 64, 111, 124, 125, 126, 127, 139, 256, 512, 1023, 4096, 0, -1}

func (g *wGen) payloadLen(capacity int) int {
	r := g.rng
	wl := capacity + 14
	cands := []int{0, 1, 2, 124, 125, 126, 127, capacity - 1, capacity, capacity + 1, 2*capacity - 1, 2 * capacity, 2*capacity + 1,
		2*wl - 1, 2 * wl, 2*wl + 1, 2*wl + 2, 3*capacity + 1}
	if g.opt.bigPayload && r.Intn(4) == 0 {
		// the 16-bit / 64-bit length boundary, in one frame when the write path allows it (round-9 change C01-17)
		return []int{65535, 65536, 65536, 65536, 65537, 65534, 70000}[r.Intn(7)]
	}
	switch x := r.Intn(20); {
	case x < 11:
		n := cands[r.Intn(len(cands))]
		if n < 0 {
			n = 0
		}
		if n > 20000 && !g.opt.bigPayload {
			n = r.Intn(300)
		}
		return n
	case x < 17:
		return r.Intn(300)
	case x < 19:
		return r.Intn(5000)
	default:
		if g.opt.bigPayload {
			return []int{65534, 65535, 65536, 65537, 70000}[r.Intn(5)]
		}
		return r.Intn(1000)
	}
}

func (g *wGen) bytes(n int) []byte {
	b := make([]byte, n)
	switch g.rng.Intn(4) {
	case 0:
		for i := range b {
			b[i] = byte(g.rng.Intn(256))
		}
	case 1:
		for i := range b {
			b[i] = byte('a' + i%7)
		}
	case 2:
		x := byte(g.rng.Intn(256))
		for i := range b {
			b[i] = x
		}
	default:
		for i := range b {
			b[i] = byte(i)
		}
	}
	return b
}

func (g *wGen) newConn(id string) *wConn {
	r := g.rng
	wc := &wConn{id: id, enableWC: true, level: 1}
	wc.srv = r.Intn(2) == 0
	wc.wbuf = wbufChoices[r.Intn(len(wbufChoices))]
	if len(g.conns) > 0 && g.conns[0].pool {
		// connections sharing a pool use one buffer size (documented requirement)
		wc.wbuf = g.conns[0].wbuf
	}
	wc.pool = r.Intn(3) == 0 || (g.opt.multi && (len(g.conns) == 0 || g.conns[0].pool))
	wc.nego = g.opt.compress && r.Intn(2) == 0
	wc.t = newTConn(g.log)
	var pool websocket.BufferPool
	if wc.pool {
		pool = g.pool
	}
	wc.c = websocket.VerifNewConn(wc.t, wc.srv, 0, wc.wbuf, pool, nil, nil)
	wc.ks = g.ks
	if wc.nego {
		websocket.VerifSetCompression(wc.c, func(w io.WriteCloser) io.WriteCloser {
			rec := &recorder{w: w}
			wc.lastWrap = rec
			return rec
		})
	}
	_, sz := websocket.VerifWriteBufLen(wc.c)
	wc.cap = sz - 14
	b2i := func(b bool) int {
		if b {
			return 1
		}
		return 0
	}
	g.sc.emit(fmt.Sprintf("conn %s srv=%d wbuf=%d pool=%d nego=%d", id, b2i(wc.srv), wc.wbuf, b2i(wc.pool), b2i(wc.nego)), "ok")
	g.conns = append(g.conns, wc)
	if wc.nego && r.Intn(3) == 0 {
		// a compression level from the start, the "no compression" level 0 (still RSV1 + deflate
		// stored blocks) among them
		l := []int{0, 0, 1, -2, 9}[r.Intn(5)]
		if err := wc.c.SetCompressionLevel(l); err == nil {
			wc.level = l
		}
		g.sc.emit(fmt.Sprintf("scl %s %d", wc.id, l), "ok")
	}
	return wc
}

func resStr(err error) string {
	if err == nil {
		return "ok"
	}
	return "err " + errName(err)
}

func (g *wGen) line(res string) string {
	evs := g.log.take()
	if len(evs) == 0 {
		return res
	}
	return res + " | " + joinEvs(evs)
}

// environment answers for an implicit close of the previous writer
func (g *wGen) prevEnv(wc *wConn) (string, *openMsg) {
	if wc.cur != nil && wc.cur.rec != nil && !wc.cur.closed {
		return "", wc.cur
	}
	return "", nil
}

func (g *wGen) envPrev(wc *wConn, prev *openMsg) string {
	if prev == nil {
		return ""
	}
	s := ""
	if d := prev.rec.take(); d != "" {
		s += " dnp=" + d
	}
	s += " fullp=" + hx(prev.full())
	prev.closed = true
	return s
}

// implicitSent records the message closed implicitly by the next NextWriter/WriteMessage. Its
// result is swallowed by the library; an oversized control message is (rightly) not sent.
func implicitSent(wc *wConn) {
	om := wc.cur
	om.closed = true
	if (om.t == 8 || om.t == 9 || om.t == 10) && len(om.all) > 125 {
		return
	}
	wc.sent = append(wc.sent, apiMsg{om.t, om.all, true})
}

func (g *wGen) markResult(wc *wConn, err error) {
	if err != nil {
		wc.errSeen = true
	}
}

func (g *wGen) opNextWriter(wc *wConn, t int) {
	wc.t.wantDeadline(wc.wd)
	_, prev := g.prevEnv(wc)
	hadOpen := wc.cur != nil && !wc.cur.closed
	wc.lastWrap = nil
	fb := wc.t.faultFired
	w, err := wc.c.NextWriter(t)
	g.failStop(wc, fb, err, "NextWriter")
	env := g.envPrev(wc, prev)
	if hadOpen && wc.cur != nil {
		// implicit close of the previous message: it counts as sent if nothing failed (checked by the oracle only in fault-free scenarios)
		implicitSent(wc)
	}
	wc.cur = nil
	wc.live = err == nil
	res := ""
	if err != nil {
		res = "err " + errName(err)
		g.markResult(wc, err)
	} else {
		om := &openMsg{t: t, level: wc.level, rec: wc.lastWrap}
		wc.handles = append(wc.handles, w)
		wc.msgs = append(wc.msgs, om)
		wc.cur = om
		res = fmt.Sprintf("ok u%d", len(wc.handles)-1)
	}
	g.sc.emit(fmt.Sprintf("nw %s %d%s", wc.id, t, env), g.line(res))
	g.sc.tag("op:nw")
}

func (g *wGen) opWrite(wc *wConn, h int, p []byte, asString bool) {
	wc.t.wantDeadline(wc.wd)
	w := wc.handles[h]
	om := wc.msgs[h]
	var n int
	var err error
	op := "w"
	if asString {
		if sw, ok := w.(io.StringWriter); ok {
			op = "ws"
			n, err = sw.WriteString(string(p))
		} else {
			n, err = w.Write(p)
		}
	} else {
		n, err = w.Write(p)
	}
	env := ""
	if om.rec != nil {
		if err == nil {
			om.writes = append(om.writes, p)
		}
		if d := om.rec.take(); d != "" {
			env = " dn=" + d
		}
	}
	res := fmt.Sprintf("ok %d", n)
	if err != nil {
		res = "err " + errName(err)
		g.markResult(wc, err)
		if om == wc.cur {
			wc.live = false // an error ends the message
		}
	} else {
		om.all = append(om.all, p...)
	}
	g.sc.emit(fmt.Sprintf("%s %s u%d %s%s", op, wc.id, h, hx(p), env), g.line(res))
	g.sc.tag("op:" + op)
}

func (g *wGen) opReadFrom(wc *wConn, h int) {
	wc.t.wantDeadline(wc.wd)
	w := wc.handles[h]
	rf, ok := w.(io.ReaderFrom)
	if !ok {
		return
	}
	r := g.rng
	nch := r.Intn(4)
	var chunks [][]byte
	var all []byte
	var parts []string
	for i := 0; i < nch; i++ {
		b := g.bytes(1 + g.payloadLen(wc.cap)%600)
		chunks = append(chunks, b)
		all = append(all, b...)
		parts = append(parts, hx(b))
	}
	term := "eof"
	sr := &scriptedReader{chunks: chunks}
	switch r.Intn(6) {
	case 0:
		sr.term = &rErr{7}
		term = "err:7"
	case 1:
		if nch > 0 {
			sr.together = true
			term = "eoft"
		}
	case 2:
		if nch > 0 {
			sr.term = &rErr{9}
			sr.together = true
			term = "errt:9"
		}
	}
	nn, err := rf.ReadFrom(sr)
	res := fmt.Sprintf("ok %d", nn)
	if err != nil {
		res = fmt.Sprintf("err %s %d", errName(err), nn)
		g.markResult(wc, err)
		if wc.msgs[h] == wc.cur && !isReaderErr(err) {
			wc.live = false
		}
	}
	if err == nil && sr.term == nil && int(nn) != len(all) {
		// io.ReaderFrom: reads until EOF; a source that ends cleanly has been consumed completely, so
		// every byte it delivered (also those delivered together with io.EOF) is part of the message
		g.sc.violate("%s: ReadFrom returned (%d, nil) from a source that delivered %d bytes and then io.EOF", wc.id, nn, len(all))
		nn = int64(len(all))
	}
	wc.msgs[h].all = append(wc.msgs[h].all, all[:nn]...)
	cs := strings.Join(parts, ",")
	if cs == "" {
		cs = "-"
	}
	g.sc.emit(fmt.Sprintf("rf %s u%d %s %s", wc.id, h, cs, term), g.line(res))
	g.sc.tag("op:rf")
}

func (g *wGen) opClose(wc *wConn, h int) {
	wc.t.wantDeadline(wc.wd)
	w := wc.handles[h]
	om := wc.msgs[h]
	fb := wc.t.faultFired && om == wc.cur && !om.closed && wc.live
	err := w.Close()
	g.failStop(wc, fb, err, "Close of an open writer")
	env := ""
	if om.rec != nil && !om.closed {
		if d := om.rec.take(); d != "" {
			env += " dn=" + d
		}
		env += " full=" + hx(om.full())
	}
	if err == nil && !om.closed {
		wc.sent = append(wc.sent, apiMsg{t: om.t, payload: om.all})
	}
	if err == nil && om.closed && (om.t == 1 || om.t == 2) {
		// Close of a writer that had already been ended (by the next NextWriter / WriteMessage / … or by an
		// earlier Close) reported success: then the message must really be on the wire, complete (C09: a
		// message that was not sent is never reported as sent)
		fr, _, _ := rfcDecode(wc.t.wire)
		ms, _ := rfcMessages(fr)
		found := false
		for _, m := range ms {
			if m.complete && m.inflateErr == "" && m.op == om.t && bytes.Equal(m.payload, om.all) {
				found = true
			}
		}
		if !found {
			g.sc.violate("%s: Close of writer u%d returned nil although its message (type %d, %d bytes) is not on the wire", wc.id, h, om.t, len(om.all))
		}
	}
	om.closed = true
	if om == wc.cur {
		wc.live = false
	}
	g.markResult(wc, err)
	g.sc.emit(fmt.Sprintf("cl %s u%d%s", wc.id, h, env), g.line(resStr(err)))
	g.sc.tag("op:cl")
}

func (g *wGen) opWriteMessage(wc *wConn, t int, p []byte) {
	wc.t.wantDeadline(wc.wd)
	_, prev := g.prevEnv(wc)
	hadOpen := wc.cur != nil && !wc.cur.closed
	wc.lastWrap = nil
	fb := wc.t.faultFired
	err := wc.c.WriteMessage(t, p)
	g.failStop(wc, fb, err, "WriteMessage")
	env := g.envPrev(wc, prev)
	if hadOpen {
		implicitSent(wc)
	}
	wc.cur = nil
	wc.live = false
	if wc.lastWrap != nil {
		om := &openMsg{t: t, level: wc.level, rec: wc.lastWrap, writes: [][]byte{p}}
		if d := wc.lastWrap.take(); d != "" {
			env += " dnw=" + d
		}
		env += " full=" + hx(om.full())
	}
	if err == nil {
		wc.sent = append(wc.sent, apiMsg{t: t, payload: p})
	} else if !wc.errSeen && !wc.faulted && !wc.closeOnWire() {
		// C01 "accepted": a data message of any size and a control message of at most 125 bytes are valid requests
		if t == 1 || t == 2 {
			g.sc.violate("%s: WriteMessage(%d, %d bytes) was refused: %v", wc.id, t, len(p), err)
		} else if (t == 8 || t == 9 || t == 10) && len(p) <= 125 {
			if len(p) > wc.cap {
				g.sc.knownHit("F4-control-via-writer-small-buffer", fmt.Sprintf("WriteMessage(%d, %d bytes) with write buffer %d: %v", t, len(p), wc.cap, err))
			} else {
				g.sc.violate("%s: WriteMessage(control %d, %d bytes) was refused: %v", wc.id, t, len(p), err)
			}
		}
	}
	if err == nil && t == 8 {
		wc.closeSnt = true
	}
	g.markResult(wc, err)
	g.sc.emit(fmt.Sprintf("wm %s %d %s%s", wc.id, t, hx(p), env), g.line(resStr(err)))
	g.sc.tag("op:wm")
}

func (g *wGen) opWriteJSON(wc *wConn) {
	wc.t.wantDeadline(wc.wd)
	r := g.rng
	var v interface{}
	switch r.Intn(3) {
	case 0:
		v = map[string]interface{}{"a": r.Intn(1000), "b": strings.Repeat("x", r.Intn(200))}
	case 1:
		v = strings.Repeat("<é>", r.Intn(100))
	default:
		v = []int{r.Intn(10), r.Intn(10)}
	}
	unenc := r.Intn(8) == 0
	if unenc {
		v = make(chan int) // encoding/json rejects it: WriteJSON opens a writer, writes nothing and closes it
	}
	var eb bytes.Buffer
	json.NewEncoder(&eb).Encode(v)
	enc := eb.Bytes()
	_, prev := g.prevEnv(wc)
	hadOpen := wc.cur != nil && !wc.cur.closed
	wc.lastWrap = nil
	fb := wc.t.faultFired
	err := wc.c.WriteJSON(v)
	g.failStop(wc, fb, err, "WriteJSON")
	env := g.envPrev(wc, prev)
	if hadOpen {
		implicitSent(wc)
	}
	wc.cur = nil
	wc.live = false
	if wc.lastWrap != nil {
		om := &openMsg{t: 1, level: wc.level, rec: wc.lastWrap, writes: [][]byte{enc}}
		if d := wc.lastWrap.take(); d != "" {
			env += " dnw=" + d
		}
		env += " full=" + hx(om.full())
	}
	if err == nil {
		wc.sent = append(wc.sent, apiMsg{t: 1, payload: enc})
	}
	if _, isJSON := err.(*json.UnsupportedTypeError); unenc && isJSON {
		// the writer was opened and closed around the failed encoding: an empty text message went out
		// (the result of that Close is not reported)
		wc.sent = append(wc.sent, apiMsg{t: 1, payload: nil, implicit: true})
		g.sc.emit(fmt.Sprintf("wjf %s%s", wc.id, env), g.line("err json"))
		g.sc.tag("op:wjf")
		return
	}
	g.markResult(wc, err)
	if unenc {
		g.sc.emit(fmt.Sprintf("wjf %s%s", wc.id, env), g.line(resStr(err)))
		g.sc.tag("op:wjf")
		return
	}
	g.sc.emit(fmt.Sprintf("wj %s %s%s", wc.id, hx(enc), env), g.line(resStr(err)))
	g.sc.tag("op:wj")
}

// failStop (C10): once a transport write or deadline call has failed, every later message-level write
// returns a non-nil error
func (g *wGen) failStop(wc *wConn, faultBefore bool, err error, what string) {
	if faultBefore && err == nil {
		g.sc.violate("%s: %s returned nil although an earlier transport operation on this connection had failed", wc.id, what)
	}
}

// safeStep runs one step; a panic inside the package ends the scenario and is reported (the write API
// never panics on a sequential program, whatever failed before)
func (g *wGen) safeStep() (panicked bool) {
	defer func() {
		if p := recover(); p != nil {
			panicked = true
			g.sc.emit("panic", "panic")
			g.sc.violate("the write API panicked on a sequential program: %v", p)
		}
	}()
	g.step()
	return false
}

func isReaderErr(err error) bool { _, ok := err.(*rErr); return ok }

// poolCheck (C20): the pool's outstanding buffers are exactly the messages in progress — a connection
// takes one when a message starts, returns it when the message ends (Close, implicit close, error)
// and holds none between messages. Judged on the pool's Get/Put calls alone.
func (g *wGen) poolCheck() {
	if g.pool == nil || g.poolBad {
		return
	}
	live := 0
	for _, wc := range g.conns {
		if wc.pool && wc.live {
			live++
		}
	}
	if out := g.pool.nGet - g.pool.nPut; out != live {
		g.poolBad = true
		g.sc.violate("pool: %d buffers outstanding (Get %d, Put %d) while %d messages are in progress", out, g.pool.nGet, g.pool.nPut, live)
	}
}

func (g *wGen) opWriteControl(wc *wConn, t int, p []byte, d int) {
	wc.t.wantDeadline(tokTime(d))
	fb := wc.t.faultFired
	err := wc.c.WriteControl(t, p, tokTime(d))
	g.failStop(wc, fb, err, "WriteControl")
	if err == nil {
		wc.sent = append(wc.sent, apiMsg{t: t, payload: p})
		if t == 8 {
			wc.closeSnt = true
		}
	} else if !wc.errSeen && !wc.faulted && !wc.closeOnWire() && (t == 8 || t == 9 || t == 10) && len(p) <= 125 && d >= 0 {
		g.sc.violate("%s: WriteControl(%d, %d bytes) was refused: %v", wc.id, t, len(p), err)
	}
	if err != nil && errName(err) != "writeTimeout" {
		g.markResult(wc, err)
	}
	g.sc.emit(fmt.Sprintf("wc %s %d %s %d", wc.id, t, hx(p), d), g.line(resStr(err)))
	g.sc.tag("op:wc")
}

func (g *wGen) opNewPrepared() {
	r := g.rng
	t := []int{1, 2, 1, 2, 9, 10, 8, 3, 0}[r.Intn(9)]
	if !g.opt.invalid && (t == 3 || t == 0) {
		t = 2
	}
	n := g.payloadLen(4096)
	if (t == 8 || t == 9 || t == 10) && !(g.opt.invalid && r.Intn(4) == 0) {
		n = r.Intn(126)
	}
	if t == 8 {
		if !g.opt.closes {
			t = 9
		} else if n < 2 {
			n = 2
		}
	}
	data := g.bytes(n)
	if t == 8 && n >= 2 {
		data[0], data[1] = 0x03, 0xe8
	}
	id := fmt.Sprintf("p%d", len(g.pms))
	pm, err := websocket.NewPreparedMessage(t, append([]byte(nil), data...))
	g.sc.emit(fmt.Sprintf("pm %s %d %s", id, t, hx(data)), g.line(resStr(err)))
	g.sc.tag("op:pm")
	if err == nil {
		g.pms = append(g.pms, &wPM{id: id, t: t, data: data, pm: pm, cached: map[string]bool{"true/false/0": true}})
	} else {
		// keep numbering in step with the model, which does not register a failed pm
		g.pms = append(g.pms, nil)
	}
}

func (g *wGen) opWritePrepared(wc *wConn, pm *wPM) {
	wc.usedPrepared = true
	wc.t.wantDeadline(wc.wd)
	compress := wc.nego && wc.enableWC && (pm.t == 1 || pm.t == 2)
	key := fmt.Sprintf("%v/%v/%d", wc.srv, compress, wc.level)
	if !compress {
		key = fmt.Sprintf("%v/%v/%d", wc.srv, false, wc.level)
	}
	if _, f := wc.t.faults[wc.t.calls]; compress && !pm.cached[key] && (wc.errSeen || wc.closeOnWire() || f || (wc.cur != nil && !wc.cur.closed)) {
		// the write may be refused (sticky error, close sent, the scripted fault hits SetWriteDeadline, or the
		// implicit close of the open writer fails or itself sends a close frame), so the image built for this
		// key — an environment answer of compress/flate — might not be observable. Once the key is cached the
		// same situations are generated freely.
		return
	}
	isD := pm.t == 1 || pm.t == 2
	var prev *openMsg
	hadOpen := false
	if isD {
		// a prepared data message closes the writer the application left open, like NextWriter /
		// WriteMessage (repair of finding F8; the wf8 stream concentrates on this)
		_, prev = g.prevEnv(wc)
		hadOpen = wc.cur != nil && !wc.cur.closed
		if hadOpen {
			wc.f8 = true
			g.sc.tag("prepared-data-while-writer-open")
		}
	}
	fb := wc.t.faultFired
	err := wc.c.WritePreparedMessage(pm.pm)
	g.failStop(wc, fb, err, "WritePreparedMessage")
	evs := g.log.take()
	env := ""
	if isD {
		env = g.envPrev(wc, prev)
		if hadOpen {
			implicitSent(wc)
		}
		wc.cur = nil
		wc.live = false
	}
	if compress && !pm.cached[key] {
		img := ""
		for _, e := range evs {
			if strings.HasPrefix(e, "wr:") {
				img = strings.Split(e, ":")[1]
			}
		}
		om := &openMsg{level: wc.level, writes: [][]byte{pm.data}}
		env += fmt.Sprintf(" img=%s full=%s", img, hx(om.full()))
	}
	pm.cached[key] = true
	if err == nil {
		wc.sent = append(wc.sent, apiMsg{t: pm.t, payload: pm.data})
	} else if !wc.errSeen && !wc.faulted && !wc.closeOnWire() {
		// C19: a prepared message is a valid request wherever WriteMessage of the same message is: whatever
		// became of the writer the application had left open (its close may fail), the message is sent
		g.sc.violate("%s: WritePreparedMessage(type %d, %d bytes) was refused on a healthy connection: %v", wc.id, pm.t, len(pm.data), err)
	}
	// C19: the framing variant matches this connection's role and compression settings at the time of
	// the call (judged on the bytes handed to the transport by this call)
	for i := len(evs) - 1; i >= 0 && err == nil; i-- {
		e := evs[i] // the last transport write of a successful call is the prepared frame (an implicit close writes before it)
		if !strings.HasPrefix(e, "wr:") {
			continue
		}
		raw, herr := hex.DecodeString(strings.Split(e, ":")[1])
		if herr != nil || len(raw) < 2 {
			continue
		}
		rsv1, masked := raw[0]&0x40 != 0, raw[1]&0x80 != 0
		if rsv1 != compress {
			g.sc.violate("%s: prepared message sent with RSV1=%v on a connection with compression negotiated=%v, write compression enabled=%v (message type %d)", wc.id, rsv1, wc.nego, wc.enableWC, pm.t)
		}
		if masked == wc.srv {
			g.sc.violate("%s: prepared message sent with mask bit %v by a %s", wc.id, masked, map[bool]string{true: "server", false: "client"}[wc.srv])
		}
		break
	}
	g.markResult(wc, err)
	res := resStr(err)
	if len(evs) > 0 {
		res += " | " + joinEvs(evs)
	}
	g.sc.emit(fmt.Sprintf("wp %s %s%s", wc.id, pm.id, env), res)
	g.sc.tag("op:wp")
}

func (g *wGen) pickType() int {
	r := g.rng
	x := r.Intn(100)
	switch {
	case x < 40:
		return 2
	case x < 75:
		return 1
	case x < 82:
		return 9
	case x < 88:
		return 10
	case x < 91 && g.opt.closes:
		return 8
	case x < 96 && g.opt.invalid:
		return []int{0, 3, 7, 11, 15, -1, 16, 256 + 1, 100}[r.Intn(9)]
	}
	return 2
}

func (g *wGen) ctlPayload(t int) []byte {
	r := g.rng
	n := []int{0, 1, 2, 5, 124, 125}[r.Intn(6)]
	if g.opt.invalid && r.Intn(6) == 0 {
		n = []int{126, 127, 200, 130}[r.Intn(4)]
	}
	p := g.bytes(n)
	if t == 8 && n >= 2 {
		p[0], p[1] = 0x03, byte(0xe8+r.Intn(4))
	}
	return p
}

func (g *wGen) step() {
	defer g.poolCheck()
	r := g.rng
	wc := g.conns[r.Intn(len(g.conns))]
	openH := -1
	if len(wc.handles) > 0 {
		openH = len(wc.handles) - 1
	}
	x := r.Intn(100)
	if g.opt.prepared && g.opt.invalid && len(g.pms) > 0 && r.Intn(20) == 0 {
		// a writer for a control message left open with more than 125 bytes in it (closing it fails),
		// then a message: the abandoned writer is discarded and the message goes out all the same
		g.opNextWriter(wc, 9+r.Intn(2))
		if len(wc.handles) > 0 {
			g.opWrite(wc, len(wc.handles)-1, g.bytes(126+r.Intn(60)), false)
		}
		if pm := g.pms[r.Intn(len(g.pms))]; pm != nil && r.Intn(3) > 0 {
			g.opWritePrepared(wc, pm)
		} else {
			g.opWriteMessage(wc, 1+r.Intn(2), g.bytes(r.Intn(300)))
		}
		g.sc.tag("stale-oversized-control-writer")
		return
	}
	if g.opt.preparedHeavy && r.Intn(3) > 0 {
		x = 99
	}
	switch {
	case x < 18:
		t := g.pickType()
		var p []byte
		if t == 8 || t == 9 || t == 10 {
			p = g.ctlPayload(t)
		} else {
			p = g.bytes(g.payloadLen(wc.cap))
		}
		g.opWriteMessage(wc, t, p)
	case x < 30:
		g.opNextWriter(wc, g.pickType())
	case x < 55:
		if openH < 0 {
			g.opNextWriter(wc, g.pickType())
			return
		}
		h := openH
		if r.Intn(12) == 0 {
			h = r.Intn(len(wc.handles)) // possibly a stale handle
		}
		t := wc.msgs[h].t
		var p []byte
		if (t == 8 || t == 9 || t == 10) && r.Intn(3) > 0 {
			p = g.bytes(r.Intn(70))
		} else {
			p = g.bytes(g.payloadLen(wc.cap))
		}
		g.opWrite(wc, h, p, r.Intn(5) == 0)
	case x < 60:
		if openH >= 0 {
			g.opReadFrom(wc, openH)
		}
	case x < 75:
		if openH < 0 {
			return
		}
		h := openH
		if r.Intn(10) == 0 {
			h = r.Intn(len(wc.handles))
		}
		g.opClose(wc, h)
	case x < 83:
		t := []int{9, 10, 9, 10, 8, 1, 0}[r.Intn(7)]
		if t == 8 && !g.opt.closes {
			t = 9
		}
		if (t == 1 || t == 0) && !g.opt.invalid {
			t = 10
		}
		d := []int{0, 1, 5, 7, -1, -3}[r.Intn(6)]
		if d < 0 && r.Intn(3) > 0 {
			d = 2
		}
		g.opWriteControl(wc, t, g.ctlPayload(t), d)
	case x < 87:
		d := []int{0, 3, 9, 11}[r.Intn(4)]
		wc.c.SetWriteDeadline(tokTime(d))
		wc.wd = tokTime(d)
		g.sc.emit(fmt.Sprintf("swd %s %d", wc.id, d), "ok")
	case x < 90:
		b := r.Intn(2) == 0
		wc.c.EnableWriteCompression(b)
		wc.enableWC = b
		bi := 0
		if b {
			bi = 1
		}
		g.sc.emit(fmt.Sprintf("ewc %s %d", wc.id, bi), "ok")
	case x < 93:
		l := r.Intn(14) - 3
		err := wc.c.SetCompressionLevel(l)
		if err == nil {
			wc.level = l
		}
		g.sc.emit(fmt.Sprintf("scl %s %d", wc.id, l), resStr(err))
	case x < 95:
		if r.Intn(6) == 0 {
			// Conn.Close (closing the network connection) at any moment: the write side's bookkeeping —
			// the open writer, the pooled buffer it holds — is untouched
			err := wc.c.Close()
			evs := g.log.take()
			res := resStr(err)
			if len(evs) > 0 {
				res += " | " + joinEvs(evs)
			}
			g.sc.emit("cc "+wc.id, res)
			g.sc.tag("op:cc")
			return
		}
		g.opWriteJSON(wc)
	default:
		if !g.opt.prepared {
			return
		}
		if len(g.pms) == 0 || r.Intn(4) == 0 {
			g.opNewPrepared()
			return
		}
		pm := g.pms[r.Intn(len(g.pms))]
		if pm != nil {
			g.opWritePrepared(wc, pm)
		}
	}
}

// runWriterScenario generates and executes one writer scenario.
func runWriterScenario(seed int64, opt wOpts, faultAt int, faultKind string) *scenario {
	r := rand.New(rand.NewSource(seed))
	sc := &scenario{kind: "w", seed: seed}
	g := &wGen{rng: r, sc: sc, log: &evlog{}, opt: opt}
	g.pool = &tPool{log: g.log}
	nk := 1 + r.Intn(6)
	if r.Intn(2) == 0 {
		nk = 48 // enough distinct keys for every frame of the scenario to get its own
	}
	keys := make([]byte, 4*nk)
	for i := range keys {
		keys[i] = byte(r.Intn(256))
	}
	if r.Intn(5) == 0 {
		copy(keys, []byte{0, 0, 0, 0})
	}
	if r.Intn(5) == 0 {
		copy(keys, []byte{0xff, 0xff, 0xff, 0xff})
	}
	g.ks = &keySource{keys: keys}
	restore := websocket.VerifSetMaskRand(g.ks)
	defer restore()
	sc.emit("reset keys="+hx(keys), "ok")
	nconn := 1
	if opt.multi {
		nconn = 1 + r.Intn(4)
	}
	for i := 0; i < nconn; i++ {
		g.newConn(fmt.Sprintf("c%d", i))
	}
	if opt.faults && faultAt >= 0 {
		wc := g.conns[0]
		f := fault{kind: "fail", id: 40 + faultAt, to: faultKind == "timeout"}
		line := fmt.Sprintf("fault %s %d fail %d", wc.id, faultAt, f.id)
		if faultKind == "short" {
			f.kind = "short"
			f.n = r.Intn(40)
			line = fmt.Sprintf("fault %s %d short %d %d", wc.id, faultAt, f.n, f.id)
		}
		wc.t.faults[faultAt] = f
		wc.faulted = true
		sc.emit(line, "ok")
	}
	nops := 2 + r.Intn(14)
	for i := 0; i < nops; i++ {
		if g.safeStep() {
			break
		}
	}
	// final: ask both sides for the wire image of every connection
	for _, wc := range g.conns {
		sc.emit("wire "+wc.id, "ok "+hx(wc.t.wire))
	}
	if g.pool.corrupt > 0 {
		sc.violate("pool: a buffer was modified while it was in the pool (%d times)", g.pool.corrupt)
	}
	for _, wc := range g.conns {
		writerOracle(sc, wc)
	}
	return sc
}

// writerOracle judges the implementation's wire bytes with the independent RFC decoder.
func writerOracle(sc *scenario, wc *wConn) {
	frames, rest, bad := rfcDecode(wc.t.wire)
	if bad != "" {
		sc.violate("%s: wire not decodable: %s", wc.id, bad)
		return
	}
	if len(rest) > 0 && !wc.faulted {
		sc.violate("%s: wire ends in an incomplete frame (%d stray bytes) although no transport fault was injected", wc.id, len(rest))
	}
	for _, p := range rfcCheck(frames, !wc.srv, wc.nego) {
		if wc.f8 && (strings.Contains(p, "new data frame inside unfinished message") || strings.Contains(p, "continuation without message in progress")) {
			sc.knownHit("F8-prepared-data-inside-open-message", fmt.Sprintf("%s: %s", wc.id, p))
			continue
		}
		sc.violate("%s: wire violates RFC 6455: %s", wc.id, p)
	}
	// C10: nothing more is ever written after a transport write or deadline call has failed
	if wc.t.writesAfterFault > 0 {
		sc.violate("%s: %d transport writes after a transport operation had failed (fail-stop)", wc.id, wc.t.writesAfterFault)
	}
	// every transport write happens under the deadline the caller asked for (C10 deadline_applied)
	if wc.t.wdBad != "" {
		sc.violate("%s: %s", wc.id, wc.t.wdBad)
	}
	// C02: every client frame is masked with a key drawn from the random source for that frame: the
	// keys on the wire, in order, are draws of the source in order, each draw used at most once
	// (frames of prepared messages are cached with their key, so connections that sent one are skipped)
	if !wc.srv && wc.ks != nil && !wc.usedPrepared {
		di := 0
		for i, f := range frames {
			if !f.masked {
				continue
			}
			found := false
			for ; di < len(wc.ks.draws); di++ {
				if wc.ks.draws[di] == f.key {
					found = true
					di++
					break
				}
			}
			if !found {
				sc.violate("%s: frame %d (opcode %d, %d payload bytes) is masked with key %x, which is not a fresh draw of the random source (draws so far: %d)", wc.id, i, f.op, len(f.payload), f.key, len(wc.ks.draws))
				break
			}
		}
	}
	// nothing after a close frame
	for i, f := range frames {
		if f.op == 8 && (i != len(frames)-1 || len(rest) > 0) {
			sc.violate("%s: bytes follow a close frame on the wire (frame %d of %d)", wc.id, i, len(frames))
			break
		}
	}
	msgs, ctls := rfcMessages(frames)
	if wc.faulted || wc.errSeen {
		// with faults or refused requests in the program the wire need not hold every message, but a
		// message the API reported as sent (nil from Close / WriteMessage / WriteJSON / WritePreparedMessage
		// / WriteControl) is on the wire, complete and intact, in the order of the reports (C09 / C10:
		// "never reported as sent")
		wi, ci := 0, 0
		for k, m := range wc.sent {
			if m.implicit {
				continue
			}
			found := false
			if m.t == 1 || m.t == 2 {
				for ; wi < len(msgs); wi++ {
					if msgs[wi].complete && msgs[wi].inflateErr == "" && msgs[wi].op == m.t && bytes.Equal(msgs[wi].payload, m.payload) {
						found = true
						wi++
						break
					}
				}
			} else {
				for ; ci < len(ctls); ci++ {
					if ctls[ci].op == m.t && bytes.Equal(ctls[ci].payload, m.payload) {
						found = true
						ci++
						break
					}
				}
			}
			if !found {
				sc.violate("%s: API message %d (type %d, %d bytes) was reported as sent (nil error) but is not on the wire as a complete message", wc.id, k, m.t, len(m.payload))
				break
			}
		}
		return
	}
	// fault-free, error-free program: wire messages = API messages in order
	if n := len(msgs); n > 0 && !msgs[n-1].complete {
		// an unfinished message at the end of the wire is legitimate only while its writer is still open,
		// and what is on the wire must be a prefix of what was written to it
		last := msgs[n-1]
		msgs = msgs[:n-1]
		if wc.cur == nil || wc.cur.closed {
			sc.violate("%s: wire ends inside a message although no message writer is open", wc.id)
		} else if !last.compressed && !bytes.HasPrefix(wc.cur.all, last.raw) {
			sc.violate("%s: flushed part of the open message is not a prefix of what was written", wc.id)
		}
	}
	var wantData, wantCtl []apiMsg
	for _, m := range wc.sent {
		if m.t == 1 || m.t == 2 {
			wantData = append(wantData, m)
		} else {
			wantCtl = append(wantCtl, m)
		}
	}
	if len(msgs) != len(wantData) {
		sc.violate("%s: %d data messages on the wire, %d sent through the API", wc.id, len(msgs), len(wantData))
		return
	}
	for i, m := range msgs {
		if !m.complete {
			sc.violate("%s: data message %d incomplete on the wire", wc.id, i)
			continue
		}
		if m.inflateErr != "" {
			sc.violate("%s: data message %d does not inflate: %s", wc.id, i, m.inflateErr)
			continue
		}
		if m.op != wantData[i].t || !bytes.Equal(m.payload, wantData[i].payload) {
			sc.violate("%s: data message %d differs from what was written (type %d/%d, %d/%d bytes)", wc.id, i, m.op, wantData[i].t, len(m.payload), len(wantData[i].payload))
		}
	}
	if len(ctls) != len(wantCtl) {
		sc.violate("%s: %d control frames on the wire, %d sent through the API", wc.id, len(ctls), len(wantCtl))
		return
	}
	for i, c := range ctls {
		if c.op != wantCtl[i].t || !bytes.Equal(c.payload, wantCtl[i].payload) {
			sc.violate("%s: control frame %d differs from what was written", wc.id, i)
		}
	}
}
